import Srctools.Wire
import Srctools.Model.C17
import Srctools.Model.C17IO
/-! Driver for the instance-collapse model (C17), scalars = `Rat` transmitted as `[num, den]`.
every request may carry "fold":[[cp, cp']…] = per-character case fold of its non-ASCII characters (CharFold)
requests:
  {"op":"collapse","inst":{"name":[cp],"style":n,"fixup":[[[cp],[cp]]…],"R":[9 rat],"o":[3 rat]},
   "tmpl":{"brushes":[solid…],"ents":[ent…]}}                      → {"brushes":[…],"ents":[…]}
     solid = [side…]; side = {"p":[[3 rat]×3],"u":[5 rat],"v":[5 rat],"d":null|disp}   (u/v = x y z offset scale)
     disp  = {"pos":[3 rat],"verts":[[normal, offset, offset_norm (3 rat each), distance, alpha]…]}
     ent   = {"keys":[[[cp],kind,payload]…],"outs":[[cp]…],"fixups":[[cp]…],"solids":[solid…]}
     kind/payload: "pos"|"dir" [3 rat]; "axis" [[3 rat],[3 rat]]; "orient" [9 rat];
                   "name"|"text"|"keep" [cp]; "nameOrClass" [[cp], bool]
  {"op":"place","R":[9 rat],"o":[3 rat],"pts":[[3 rat]…]}           → {"pts":[[3 rat]…]}
  {"op":"comp","R1":…,"o1":…,"R2":…,"o2":…}                          → {"R":[9 rat],"o":[3 rat]}
  {"op":"fromtrig","t":[cp sp cy sy cr sr as rat]}                   → {"R":[9 rat]}
  {"op":"tex","ax":[5 rat],"p":[3 rat]}                              → {"t":rat}
  {"op":"subst","tbl":[[[cp],[cp]]…],"dflt":[cp],"text":[cp]}        → {"r":[cp]}
  {"op":"fixup","style":n,"inst":[cp],"name":[cp]}                   → {"r":[cp]}
  {"op":"collapseAll","files":[[n…]…],"init":[n…],"limit":n}         → {"collapses":n,"outcome":s,"left":n}
  {"op":"io","inst":{"name","style","fixup","outs":[out…]},"ents":[{"proxy":b,"name":[cp],"outs":[out…]}…],"outer":[out…]}
        → {"outer":[out…],"ents":[{"name":[cp],"outs":[out…]}…]}
        out = [output, target, input, params, delay rat, times, instOut|null, instIn|null, commaSep]
  {"op":"autonames","names":[[cp]…]}   (targetnames of the instances in processing order)  → {"names":[[cp]…]}
  {"op":"param","value":[cp],"maxsplit":n}                           → {"name":[cp],"type":[cp]|null,"default":[cp]}
  {"op":"cells","mode":"shared"|"fresh","style":n,"inst":[cp],"vals":[[cp]…],"times":n}
        → {"results":[[[cp]…]…],"template":[[cp]…]}   (template fixups after `times` collapses)
-/
open Lean C17

def ratOf (j : Json) : Except String Rat := do
  let a ← j.getArr?
  if a.size != 2 then throw "rat: need [num, den]"
  let n ← (a[0]!).getInt?
  let d ← (a[1]!).getNat?
  if d == 0 then throw "rat: zero denominator"
  pure (mkRat n d)

def ofRat (r : Rat) : Json :=
  Json.arr #[Json.num (JsonNumber.fromInt r.num), Json.num (JsonNumber.fromNat r.den)]

def ratsOf (j : Json) (n : Nat) : Except String (Array Rat) := do
  let a ← j.getArr?
  if a.size != n then throw s!"expected {n} rationals, got {a.size}"
  a.mapM ratOf

def v3Of (j : Json) : Except String (V3 Rat) := do
  let a ← ratsOf j 3
  pure ⟨a[0]!, a[1]!, a[2]!⟩

def ofV3 (v : V3 Rat) : Json := Json.arr #[ofRat v.x, ofRat v.y, ofRat v.z]

def m3Of (j : Json) : Except String (M3 Rat) := do
  let a ← ratsOf j 9
  pure ⟨a[0]!, a[1]!, a[2]!, a[3]!, a[4]!, a[5]!, a[6]!, a[7]!, a[8]!⟩

def ofM3 (m : M3 Rat) : Json :=
  Json.arr #[ofRat m.aa, ofRat m.ab, ofRat m.ac, ofRat m.ba, ofRat m.bb, ofRat m.bc,
             ofRat m.ca, ofRat m.cb, ofRat m.cc]

def axOf (j : Json) : Except String (UVAxis Rat) := do
  let a ← ratsOf j 5
  pure ⟨⟨a[0]!, a[1]!, a[2]!⟩, a[3]!, a[4]!⟩

def ofAx (a : UVAxis Rat) : Json :=
  Json.arr #[ofRat a.dir.x, ofRat a.dir.y, ofRat a.dir.z, ofRat a.offset, ofRat a.scale]

def listOf {β : Type} (f : Json → Except String β) (j : Json) : Except String (List β) := do
  let a ← j.getArr?
  a.toList.mapM f

def ofList {β : Type} (f : β → Json) (l : List β) : Json := Json.arr (l.map f).toArray

/-- displacement vertex = [normal, offset, offset_norm, distance, alpha] -/
def dvertOf (j : Json) : Except String (DispVert Rat) := do
  let a ← j.getArr?
  if a.size != 5 then throw "disp vertex: need [normal, offset, offset_norm, distance, alpha]"
  pure ⟨← v3Of a[0]!, ← v3Of a[1]!, ← v3Of a[2]!, ← ratOf a[3]!, ← ratOf a[4]!⟩

def ofDVert (d : DispVert Rat) : Json :=
  Json.arr #[ofV3 d.normal, ofV3 d.offset, ofV3 d.offsetNorm, ofRat d.distance, ofRat d.alpha]

def dispOf (j : Json) : Except String (Option (Disp Rat)) := do
  if j.isNull then return none
  pure (some ⟨← v3Of (← j.getObjVal? "pos"), ← listOf dvertOf (← j.getObjVal? "verts")⟩)

def ofDisp : Option (Disp Rat) → Json
  | none => Json.null
  | some d => Json.mkObj [("pos", ofV3 d.pos), ("verts", ofList ofDVert d.verts)]

def sideOf (j : Json) : Except String (Side Rat) := do
  let p ← (← j.getObjVal? "p").getArr?
  if p.size != 3 then throw "side: need 3 plane points"
  let d ← match j.getObjVal? "d" with
    | .ok dj => dispOf dj
    | .error _ => pure none
  pure ⟨← v3Of p[0]!, ← v3Of p[1]!, ← v3Of p[2]!, ← axOf (← j.getObjVal? "u"), ← axOf (← j.getObjVal? "v"), d⟩

def ofSide (s : Side Rat) : Json :=
  Json.mkObj [("p", Json.arr #[ofV3 s.p0, ofV3 s.p1, ofV3 s.p2]), ("u", ofAx s.u), ("v", ofAx s.v),
              ("d", ofDisp s.disp)]

def solidOf : Json → Except String (Solid Rat) := listOf sideOf
def ofSolid (s : Solid Rat) : Json := ofList ofSide s

def kvalOf (kind : String) (p : Json) : Except String (KVal Rat) := do
  match kind with
  | "pos" => pure (.pos (← v3Of p))
  | "dir" => pure (.dir (← v3Of p))
  | "axis" =>
    let a ← p.getArr?
    if a.size != 2 then throw "axis: need two points"
    pure (.axis (← v3Of a[0]!) (← v3Of a[1]!))
  | "orient" => pure (.orient (← m3Of p))
  | "name" => pure (.name (← Wire.strOfCodes p))
  | "text" => pure (.text (← Wire.strOfCodes p))
  | "keep" => pure (.keep (← Wire.strOfCodes p))
  | "nameOrClass" =>
    let a ← p.getArr?
    if a.size != 2 then throw "nameOrClass: need [text, bool]"
    pure (.nameOrClass (← Wire.strOfCodes a[0]!) (← (a[1]!).getBool?))
  | k => throw s!"unknown kind {k}"

def ofKVal : KVal Rat → Json × Json
  | .pos v => (Json.str "pos", ofV3 v)
  | .dir v => (Json.str "dir", ofV3 v)
  | .axis a b => (Json.str "axis", Json.arr #[ofV3 a, ofV3 b])
  | .orient m => (Json.str "orient", ofM3 m)
  | .name s => (Json.str "name", Wire.codesOfStr s)
  | .text s => (Json.str "text", Wire.codesOfStr s)
  | .keep s => (Json.str "keep", Wire.codesOfStr s)
  | .nameOrClass s c => (Json.str "nameOrClass", Json.arr #[Wire.codesOfStr s, Json.bool c])

def entOf (j : Json) : Except String (Ent Rat) := do
  let keys ← listOf (fun k => do
    let a ← k.getArr?
    if a.size != 3 then throw "key: need [key, kind, payload]"
    let name ← Wire.strOfCodes a[0]!
    let kind ← (a[1]!).getStr?
    pure (name, ← kvalOf kind a[2]!)) (← j.getObjVal? "keys")
  pure { keys := keys,
         outs := ← listOf Wire.strOfCodes (← j.getObjVal? "outs"),
         fixups := ← listOf Wire.strOfCodes (← j.getObjVal? "fixups"),
         solids := ← listOf solidOf (← j.getObjVal? "solids") }

def ofEnt (e : Ent Rat) : Json :=
  Json.mkObj [
    ("keys", ofList (fun kv => let (k, p) := ofKVal kv.2; Json.arr #[Wire.codesOfStr kv.1, k, p]) e.keys),
    ("outs", ofList Wire.codesOfStr e.outs),
    ("fixups", ofList Wire.codesOfStr e.fixups),
    ("solids", ofList ofSolid e.solids)]

def tableOf (j : Json) : Except String FixTable :=
  listOf (fun p => do
    let a ← p.getArr?
    if a.size != 2 then throw "fixup: need [key, value]"
    pure (← Wire.strOfCodes a[0]!, ← Wire.strOfCodes a[1]!)) j

def placementOf (r o : Json) : Except String (Placement Rat) := do
  pure ⟨← m3Of r, ← v3Of o⟩

def instOf (j : Json) : Except String (Inst Rat) := do
  pure { name := ← Wire.strOfCodes (← j.getObjVal? "name"),
         style := Style.ofCode (← j.getObjValAs? Nat "style"),
         fixup := ← tableOf (← j.getObjVal? "fixup"),
         P := ← placementOf (← j.getObjVal? "R") (← j.getObjVal? "o") }

/-- output record = [output, target, input, params (code points), delay rat, times, instOut|null, instIn|null, commaSep] -/
def optStr (j : Json) : Except String (Option (List Char)) := do
  if j.isNull then return none
  pure (some (← Wire.strOfCodes j))

def ofOptStr : Option (List Char) → Json
  | none => Json.null
  | some s => Wire.codesOfStr s

def outOf (j : Json) : Except String Out := do
  let a ← j.getArr?
  if a.size != 9 then throw "output: need 9 fields"
  pure { output := ← Wire.strOfCodes a[0]!, target := ← Wire.strOfCodes a[1]!, input := ← Wire.strOfCodes a[2]!,
         params := ← Wire.strOfCodes a[3]!, delay := ← ratOf a[4]!, times := ← (a[5]!).getInt?,
         instOut := ← optStr a[6]!, instIn := ← optStr a[7]!, commaSep := ← (a[8]!).getBool? }

def ofOut (o : Out) : Json :=
  Json.arr #[Wire.codesOfStr o.output, Wire.codesOfStr o.target, Wire.codesOfStr o.input, Wire.codesOfStr o.params,
             ofRat o.delay, Json.num (JsonNumber.fromInt o.times), ofOptStr o.instOut, ofOptStr o.instIn,
             Json.bool o.commaSep]

def ioEntOf (j : Json) : Except String IOEnt := do
  pure { isProxy := ← j.getObjValAs? Bool "proxy", name := ← Wire.strOfCodes (← j.getObjVal? "name"),
         outs := ← listOf outOf (← j.getObjVal? "outs") }

/-- optional `"fold":[[cp, cp']…]`: the per-character case fold for the non-ASCII characters of the
request (everything not listed folds like ASCII). -/
def foldOfReq (j : Json) : Except String CharFold := do
  match j.getObjVal? "fold" with
  | .error _ => pure CharFold.ascii
  | .ok fj =>
    let pairs ← listOf (fun p => do
      let a ← Wire.natList p
      if a.length != 2 then throw "fold: need [char, folded]"
      pure (Char.ofNat (a.getD 0 0), Char.ofNat (a.getD 1 0))) fj
    pure ⟨fun c => match pairs.find? (·.1 == c) with
      | some q => q.2
      | none => lowerAscii c⟩

def outcomeStr : Outcome → String
  | .done => "done"
  | .recursion => "recursion"
  | .missing => "missing"

def handle (j : Json) : Except String Json := do
  let op ← j.getObjValAs? String "op"
  let cf ← foldOfReq j
  have : CharFold := cf
  match op with
  | "collapse" =>
    let I ← instOf (← j.getObjVal? "inst")
    let t ← j.getObjVal? "tmpl"
    let T : Template Rat := { brushes := ← listOf solidOf (← t.getObjVal? "brushes"),
                              ents := ← listOf entOf (← t.getObjVal? "ents") }
    let r := collapse T I
    pure (Json.mkObj [("brushes", ofList ofSolid r.brushes), ("ents", ofList ofEnt r.ents)])
  | "place" =>
    let P ← placementOf (← j.getObjVal? "R") (← j.getObjVal? "o")
    let pts ← listOf v3Of (← j.getObjVal? "pts")
    pure (Json.mkObj [("pts", ofList ofV3 (pts.map (place P)))])
  | "comp" =>
    let P1 ← placementOf (← j.getObjVal? "R1") (← j.getObjVal? "o1")
    let P2 ← placementOf (← j.getObjVal? "R2") (← j.getObjVal? "o2")
    let P := P1.comp P2
    pure (Json.mkObj [("R", ofM3 P.R), ("o", ofV3 P.o)])
  | "fromtrig" =>
    let a ← ratsOf (← j.getObjVal? "t") 6
    pure (Json.mkObj [("R", ofM3 (fromTrig ⟨a[0]!, a[1]!, a[2]!, a[3]!, a[4]!, a[5]!⟩))])
  | "tex" =>
    let ax ← axOf (← j.getObjVal? "ax")
    let p ← v3Of (← j.getObjVal? "p")
    pure (Json.mkObj [("t", ofRat (texCoord ax p))])
  | "subst" =>
    let t ← tableOf (← j.getObjVal? "tbl")
    let d ← Wire.strOfCodes (← j.getObjVal? "dflt")
    let s ← Wire.strOfCodes (← j.getObjVal? "text")
    pure (Json.mkObj [("r", Wire.codesOfStr (substitute t d s))])
  | "fixup" =>
    let st := Style.ofCode (← j.getObjValAs? Nat "style")
    let i ← Wire.strOfCodes (← j.getObjVal? "inst")
    let n ← Wire.strOfCodes (← j.getObjVal? "name")
    pure (Json.mkObj [("r", Wire.codesOfStr (fixupName st i n))])
  | "collapseAll" =>
    let files ← listOf Wire.natList (← j.getObjVal? "files")
    let init ← Wire.natList (← j.getObjVal? "init")
    let limit ← j.getObjValAs? Nat "limit"
    let r := collapseAll files limit init
    pure (Json.mkObj [("collapses", Json.num (JsonNumber.fromNat r.collapses)),
                      ("outcome", Json.str (outcomeStr r.outcome)),
                      ("left", Json.num (JsonNumber.fromNat r.left))])
  | "io" =>
    let ij ← j.getObjVal? "inst"
    let I : IOInst := { name := ← Wire.strOfCodes (← ij.getObjVal? "name"),
                        style := Style.ofCode (← ij.getObjValAs? Nat "style"),
                        fixup := ← tableOf (← ij.getObjVal? "fixup"),
                        outs := ← listOf outOf (← ij.getObjVal? "outs") }
    let ents ← listOf ioEntOf (← j.getObjVal? "ents")
    let outer ← listOf outOf (← j.getObjVal? "outer")
    let r := collapseIO I ents outer
    pure (Json.mkObj [("outer", ofList ofOut r.outer),
                      ("ents", ofList (fun p => Json.mkObj [("name", Wire.codesOfStr p.1), ("outs", ofList ofOut p.2)]) r.ents)])
  | "autonames" =>
    let names ← listOf Wire.strOfCodes (← j.getObjVal? "names")
    pure (Json.mkObj [("names", ofList Wire.codesOfStr (assignAuto 0 names))])
  | "param" =>
    let v ← Wire.strOfCodes (← j.getObjVal? "value")
    let p := parseParam (← j.getObjValAs? Nat "maxsplit") v
    pure (Json.mkObj [("name", Wire.codesOfStr p.name), ("type", ofOptStr p.typeTok), ("default", Wire.codesOfStr p.dflt)])
  | "cells" =>
    let mode ← j.getObjValAs? String "mode"
    let m := if mode == "shared" then CopyMode.shared else CopyMode.fresh
    let st := Style.ofCode (← j.getObjValAs? Nat "style")
    let i ← Wire.strOfCodes (← j.getObjVal? "inst")
    let vals ← listOf Wire.strOfCodes (← j.getObjVal? "vals")
    let times ← j.getObjValAs? Nat "times"
    let I : Inst Rat := { name := i, style := st, fixup := [], P := Placement.id }
    let locs := List.range vals.length
    let step := fun (acc : List (List (List Char)) × Store) (_ : Nat) =>
      let (r, s) := collapseCells m (fixupFix I) acc.2 locs
      (acc.1 ++ [r], s)
    let (results, store) := (List.range times).foldl step ([], vals)
    pure (Json.mkObj [("results", ofList (ofList Wire.codesOfStr) results),
                      ("template", ofList Wire.codesOfStr (readCells store locs))])
  | _ => throw s!"unknown op {op}"

def main : IO Unit := Wire.main handle
