import Srctools.Wire
import Srctools.Model.C12
import Srctools.Gen.Save
/-! Driver for the AtomicWriter model (C12).

names     : [0,k] = file k, [1,n] = tmp_n
faults    : 0 none, 1 eexist (FileExistsError), 2 enoent (FileNotFoundError), 3 eio (other OSError)
script    : [["w",[byte…]], ["s",pos], …]
writer    : {"dest":name,"script":…,"exc":null|k}
requests
  {"op":"impl"}                                     → {"impl":[exclusive,closeGuard,replaceGuard,start]}   (Gen.Save.impl)
  {"op":"run","impl":null|[b,b,b,n],"w":writer,"fs":[[name,[byte…]]…],"full":bool,
   "queries":[{"plan":[fault…],"k":null|steps}…]}
      → {"r":[{"trace":[[op,n,arg,res]…],"out":null|0|1|2,"pc":str,"dir":[[name,len,hash,null|[byte…]]…]}…]}
  {"op":"hist","impl":…,"o1":{"dest":name,"uses":[{"script":…,"exc":null|k}…]},"o2":…,"fs":…,"full":bool,
   "queries":[{"sched":[[who,fault]…]}…]}   (writer OBJECTS used several times)
      → {"r":[{"trace":[[who,op,n,arg,res]…],"outs1":[outcome per finished use…],"outs2":…,"dir":…}…]}
  {"op":"run2","impl":…,"w1":writer,"w2":writer,"fs":…,"full":bool,"queries":[{"sched":[[who,fault]…]}…]}
      → {"r":[{"trace":[[who,op,n,arg,res]…],"out1":…,"out2":…,"dir":…}…]}
event op codes: 0 mkdir 1 create 2 write 3 seek 4 close 5 replace 6 unlink; res: 0 ok 1 eexist 2 enoent 3 err;
outcome: 0 ok, 1 raised by the body, 2 raised OSError.
-/
open Lean C12

def nameOf (j : Json) : Except String C12.Name := do
  let a ← j.getArr?
  if a.size != 2 then throw "name: need [tag, index]"
  let t ← (a[0]!).getNat?
  let k ← (a[1]!).getNat?
  pure (if t == 0 then .file k else .tmp k)

def nameJson : C12.Name → Json
  | .file k => Wire.ofNatList [0, k]
  | .tmp n => Wire.ofNatList [1, n]

def faultOf (n : Nat) : Fault :=
  match n with
  | 0 => .none | 1 => .eexist | 2 => .enoent | _ => .eio

def bopOf (j : Json) : Except String BOp := do
  let a ← j.getArr?
  if a.size != 2 then throw "bop: need [kind, arg]"
  let k ← (a[0]!).getStr?
  if k == "w" then pure (.write (← Wire.natList (a[1]!)))
  else if k == "s" then pure (.seek (← (a[1]!).getNat?))
  else throw s!"bop: unknown kind {k}"

def implOf (j : Json) : Except String Impl := do
  if j.isNull then pure Gen.Save.impl else
  let a ← j.getArr?
  if a.size != 6 then throw "impl: need [exclusive, closeGuard, replaceGuard, start, resetTemp, staleMissingOk]"
  pure { exclusive := ← (a[0]!).getBool?, closeGuard := ← (a[1]!).getBool?,
         replaceGuard := ← (a[2]!).getBool?, start := ← (a[3]!).getNat?,
         resetTemp := ← (a[4]!).getBool?, staleMissingOk := ← (a[5]!).getBool? }

def cfgOf (impl : Impl) (j : Json) : Except String Cfg := do
  let dest ← nameOf (← j.getObjVal? "dest")
  let sc ← (← j.getObjVal? "script").getArr?
  let script ← sc.toList.mapM bopOf
  let e ← j.getObjVal? "exc"
  let exc ← if e.isNull then pure none else do pure (some (← e.getNat?))
  pure { impl, dest, script, bodyExc := exc }

def ocfgOf (impl : Impl) (j : Json) : Except String OCfg := do
  let dest ← nameOf (← j.getObjVal? "dest")
  let us ← (← j.getObjVal? "uses").getArr?
  let uses ← us.toList.mapM fun u => do
    let sc ← (← u.getObjVal? "script").getArr?
    let script ← sc.toList.mapM bopOf
    let e ← u.getObjVal? "exc"
    let exc ← if e.isNull then pure none else do pure (some (← e.getNat?))
    pure ({ script, bodyExc := exc } : Use)
  pure { impl, dest, uses }

def fsOf (j : Json) : Except String FS := do
  let a ← j.getArr?
  let l ← a.toList.mapM fun p => do
    let q ← p.getArr?
    if q.size != 2 then throw "fs: need [name, bytes]"
    pure (← nameOf (q[0]!), ← Wire.natList (q[1]!))
  -- later entries win, as `put` does
  pure (l.foldl (fun fs p => put fs p.1 p.2) [])

def hashBytes (b : Bytes) : Nat := b.foldl (fun h x => (h * 31 + x + 1) % 4294967296) 7

def dirJson (full : Bool) (fs : FS) : Json :=
  Json.arr (fs.map fun p =>
    Json.arr #[nameJson p.1, Json.num (JsonNumber.fromNat p.2.length), Json.num (JsonNumber.fromNat (hashBytes p.2)),
               if full then Wire.ofNatList p.2 else Json.null]).toArray

def opCode : Op → List Nat
  | .mkdir => [0, 0, 0]
  | .create n => [1, n, 0]
  | .write n l => [2, n, l]
  | .seek n p => [3, n, p]
  | .close n => [4, n, 0]
  | .replace n => [5, n, 0]
  | .unlink n => [6, n, 0]

def resCode : Res → Nat
  | .ok => 0 | .eexist => 1 | .enoent => 2 | .err => 3

def outCode : Outcome → Nat
  | .ok => 0 | .raisedBody => 1 | .raisedOS => 2

def outJson : PC → Json
  | .done o => Json.num (JsonNumber.fromNat (outCode o))
  | _ => Json.null

def eventJson (e : Event) : Json := Wire.ofNatList (opCode e.op ++ [resCode e.res])

def handle (j : Json) : Except String Json := do
  let op ← j.getObjValAs? String "op"
  match op with
  | "impl" =>
    let i := Gen.Save.impl
    pure (Json.mkObj [("impl", Json.arr #[Json.bool i.exclusive, Json.bool i.closeGuard, Json.bool i.replaceGuard,
                                          Json.num (JsonNumber.fromNat i.start), Json.bool i.resetTemp,
                                          Json.bool i.staleMissingOk])])
  | "run" =>
    let impl ← implOf (← j.getObjVal? "impl")
    let cfg ← cfgOf impl (← j.getObjVal? "w")
    let fs ← fsOf (← j.getObjVal? "fs")
    let full ← j.getObjValAs? Bool "full"
    let qs ← (← j.getObjVal? "queries").getArr?
    let rs ← qs.toList.mapM fun q => do
      let plan := (← Wire.natList (← q.getObjVal? "plan")).map faultOf
      let kj ← q.getObjVal? "k"
      let k ← if kj.isNull then pure (fuelFor cfg plan fs) else kj.getNat?
      let s := run cfg k plan (St.init fs)
      pure (Json.mkObj [("trace", Json.arr (s.trace.reverse.map eventJson).toArray),
                        ("out", outJson s.pc), ("pc", Json.str (reprStr s.pc)), ("dir", dirJson full s.fs)])
    pure (Json.mkObj [("r", Json.arr rs.toArray)])
  | "run2" =>
    let impl ← implOf (← j.getObjVal? "impl")
    let c1 ← cfgOf impl (← j.getObjVal? "w1")
    let c2 ← cfgOf impl (← j.getObjVal? "w2")
    let fs ← fsOf (← j.getObjVal? "fs")
    let full ← j.getObjValAs? Bool "full"
    let qs ← (← j.getObjVal? "queries").getArr?
    let rs ← qs.toList.mapM fun q => do
      let sj ← (← q.getObjVal? "sched").getArr?
      let sched ← sj.toList.mapM fun e => do
        let p ← Wire.natList e
        match p with
        | [w, f] => pure (w != 0, faultOf f)
        | _ => throw "sched: need [who, fault]"
      let s := run2 c1 c2 sched (Sys.init fs)
      pure (Json.mkObj [("trace", Json.arr (s.trace.reverse.map fun e =>
                          Wire.ofNatList ((if e.1 then 1 else 0) :: opCode e.2.op ++ [resCode e.2.res])).toArray),
                        ("out1", outJson s.pc1), ("out2", outJson s.pc2), ("dir", dirJson full s.fs)])
    pure (Json.mkObj [("r", Json.arr rs.toArray)])
  | "hist" =>
    let impl ← implOf (← j.getObjVal? "impl")
    let c1 ← ocfgOf impl (← j.getObjVal? "o1")
    let c2 ← ocfgOf impl (← j.getObjVal? "o2")
    let fs ← fsOf (← j.getObjVal? "fs")
    let full ← j.getObjValAs? Bool "full"
    let qs ← (← j.getObjVal? "queries").getArr?
    let rs ← qs.toList.mapM fun q => do
      let sj ← (← q.getObjVal? "sched").getArr?
      let sched ← sj.toList.mapM fun e => do
        let p ← Wire.natList e
        match p with
        | [w, f] => pure (w != 0, faultOf f)
        | _ => throw "sched: need [who, fault]"
      let s := runO2 c1 c2 sched (SysO.init fs)
      pure (Json.mkObj [("trace", Json.arr (s.trace.reverse.map fun e =>
                          Wire.ofNatList ((if e.1 then 1 else 0) :: opCode e.2.op ++ [resCode e.2.res])).toArray),
                        ("outs1", Wire.ofNatList (s.o1.outs.reverse.map outCode)),
                        ("outs2", Wire.ofNatList (s.o2.outs.reverse.map outCode)),
                        ("dir", dirJson full s.fs)])
    pure (Json.mkObj [("r", Json.arr rs.toArray)])
  | _ => throw s!"unknown op {op}"

def main : IO Unit := Wire.main handle
