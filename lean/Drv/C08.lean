import Srctools.Wire
import Srctools.Model.C08
import Srctools.Gen.C08
/-! Driver for the C08 model.
requests
  {"op":"idman","guard":b|null,"script":[["g",desired]|["d",element]…]}
        → {"r":[ id | null …],"used":[…sorted],"pos":searchPos}      (one entry per script step)
  {"op":"fix","init":[[var,idx]…],"script":[["s",var]|["d",var]…]}
        → {"tables":[[[var,idx]…] …]}   (table after init, then after every step; dict order)
  {"op":"fixtabs","init":[[var,idx]…],"script":[["s",t,v]|["d",t,v]|["clr",t]|["cp",t',t]|["ctor",t',t]…]}
        → {"tables":[[table0|null,table1|null,table2|null] …]}   (after init, then after every step)
  {"op":"hist","cfg":null|[b×8],"ops":[Op…]}
        → {"steps":[Obs…]}  one observation per operation
     Op   = ["newmap"] | ["ent",r,m,des,node,[solidRegs],[[var,idx]…]] | ["addent",r] | ["rment",r]
          | ["side",r,m,des] | ["solid",r,m,des,[sideRegs]] | ["addbrush",r] | ["rmbrush",r]
          | ["copy",r',r,des,tgt|null] | ["drop",r] | ["kid",r',r,i] | ["entat",r',m,i]
          | ["brushat",r',m,i] | ["spawn",r',m] | ["setnode",r,node] | ["delnode",r] | ["popnode",r]
          | ["group",r,m,des] | ["vis",r,m,des,[kidRegs]] | ["fxset",r,var] | ["fxdel",r,var]
          | ["parse",Doc] | ["failsolid",m,des] | ["failent",m,des] | ["failside",m,des]
     node = null | "raw" | int
     Doc  = {"vis":[[id,nkids]…],"world":id,"wsolids":[[id,[sideIds]]…],"groups":[ids],
             "ents":[[id,node,[[id,[sideIds]]…],[[var,idx]…]]…]}
     Obs  = {"maps":[{"used":[[…]×6],"ents":[ObjDump…],"brushes":[ObjDump…],"spawn":ObjDump}…],
             "regs":[[r,ObjDump]…]}
     ObjDump = [kind,id,node|null,[[var,idx]…],[ObjDump kids…]]
-/
open Lean C08

def jInt (i : Int) : Json := Json.num (JsonNumber.fromInt i)
def jNat (n : Nat) : Json := Json.num (JsonNumber.fromNat n)

def insertSorted (x : Int) : List Int → List Int
  | [] => [x]
  | y :: ys => if x < y then x :: y :: ys else if x = y then y :: ys else y :: insertSorted x ys

def sortDedup (l : List Int) : List Int := l.foldl (fun acc x => insertSorted x acc) []

def pairList (j : Json) : Except String (List (Nat × Int)) := do
  let a ← j.getArr?
  a.toList.mapM fun p => do
    let q ← p.getArr?
    pure (← (q[0]!).getNat?, ← (q[1]!).getInt?)

def jFix (t : Fix) : Json := Json.arr (t.map fun e => Json.arr #[jNat e.1, jInt e.2]).toArray

def nodeOf (j : Json) : Except String NodeArg :=
  if j.isNull then pure .absent
  else match j with
    | .str _ => pure .raw
    | _ => do pure (.int (← j.getInt?))

def solidDoc (j : Json) : Except String SolidDoc := do
  let a ← j.getArr?
  pure { id := ← (a[0]!).getInt?, sides := ← Wire.intList (a[1]!) }

def docOf (j : Json) : Except String Doc := do
  let vis ← (← (← j.getObjVal? "vis").getArr?).toList.mapM fun p => do
    let q ← p.getArr?
    pure (← (q[0]!).getInt?, ← (q[1]!).getNat?)
  let ents ← (← (← j.getObjVal? "ents").getArr?).toList.mapM fun e => do
    let a ← e.getArr?
    pure ({ id := ← (a[0]!).getInt?, node := ← nodeOf (a[1]!),
            solids := ← (← (a[2]!).getArr?).toList.mapM solidDoc, fix := ← pairList (a[3]!) } : EntDoc)
  pure { vis := vis, worldId := ← (← j.getObjVal? "world").getInt?,
         worldSolids := ← (← (← j.getObjVal? "wsolids").getArr?).toList.mapM solidDoc,
         groups := ← Wire.intList (← j.getObjVal? "groups"), ents := ents }

def tgtOf (j : Json) : Except String (Option Nat) :=
  if j.isNull then pure none else do pure (some (← j.getNat?))

def opOf (j : Json) : Except String Op := do
  let a ← j.getArr?
  let name ← (a[0]!).getStr?
  let n (i : Nat) : Except String Nat := (a[i]!).getNat?
  let z (i : Nat) : Except String Int := (a[i]!).getInt?
  match name with
  | "newmap" => pure .newmap
  | "ent" => pure (.ent (← n 1) (← n 2) (← z 3) (← nodeOf (a[4]!)) (← Wire.natList (a[5]!)) (← pairList (a[6]!)))
  | "addent" => pure (.addent (← n 1))
  | "rment" => pure (.rment (← n 1))
  | "side" => pure (.side (← n 1) (← n 2) (← z 3))
  | "solid" => pure (.solid (← n 1) (← n 2) (← z 3) (← Wire.natList (a[4]!)))
  | "addbrush" => pure (.addbrush (← n 1))
  | "rmbrush" => pure (.rmbrush (← n 1))
  | "copy" => pure (.copy (← n 1) (← n 2) (← z 3) (← tgtOf (a[4]!)))
  | "drop" => pure (.drop (← n 1))
  | "kid" => pure (.kid (← n 1) (← n 2) (← n 3))
  | "entat" => pure (.entat (← n 1) (← n 2) (← n 3))
  | "brushat" => pure (.brushat (← n 1) (← n 2) (← n 3))
  | "spawn" => pure (.spawn (← n 1) (← n 2))
  | "setnode" => pure (.setnode (← n 1) (← nodeOf (a[2]!)))
  | "delnode" => pure (.delnode (← n 1))
  | "popnode" => pure (.popnode (← n 1))
  | "group" => pure (.group (← n 1) (← n 2) (← z 3))
  | "vis" => pure (.vis (← n 1) (← n 2) (← z 3) (← Wire.natList (a[4]!)))
  | "fxset" => pure (.fxset (← n 1) (← n 2))
  | "fxdel" => pure (.fxdel (← n 1) (← n 2))
  | "parse" => pure (.parse (← docOf (a[1]!)))
  | "failsolid" => pure (.failsolid (← n 1) (← z 2))
  | "failent" => pure (.failent (← n 1) (← z 2))
  | "failside" => pure (.failside (← n 1) (← z 2))
  | _ => throw s!"unknown history op {name}"

def dumpObj (s : St) : Nat → Nat → Json
  | 0, _ => Json.null
  | fuel + 1, h =>
    match s.objs h with
    | none => Json.null
    | some o =>
      Json.arr #[jNat o.kind.code, jInt o.id,
        (match o.node with | some n => jInt n | none => Json.null),
        jFix o.fix, Json.arr ((kidsSeen s h o).map (dumpObj s fuel)).toArray]

def allKinds : List Kind := [.ent, .solid, .face, .group, .vis, .node]

def obsOf (s : St) : Json :=
  let maps := (List.range s.nmaps).map fun m =>
    Json.mkObj [
      ("used", Json.arr (allKinds.map fun k => Wire.ofIntList (sortDedup (s.mans m k).used)).toArray),
      ("ents", Json.arr ((s.ents m).map (dumpObj s 12)).toArray),
      ("brushes", Json.arr ((s.brushes m).map (dumpObj s 12)).toArray),
      ("spawn", dumpObj s 12 (s.spawn m))]
  let regs := (sortDedup (s.regList.map Int.ofNat)).filterMap fun r =>
    match s.regs r.toNat with
    | some h => some (Json.arr #[jInt r, dumpObj s 12 h])
    | none => none
  Json.mkObj [("maps", Json.arr maps.toArray), ("regs", Json.arr regs.toArray)]

def cfgOf (j : Json) : Except String Cfg :=
  if j.isNull then pure Gen.C08.cfg
  else do
    let a ← j.getArr?
    pure { removeEntDiscardsEntId := ← (a[0]!).getBool?, removeEntDiscardsNodeId := ← (a[1]!).getBool?,
           discardGuard := ← (a[2]!).getBool?, addEntAllocatesNode := ← (a[3]!).getBool?,
           popReleasesNode := ← (a[4]!).getBool?, parseKeepsPlaceholder := ← (a[5]!).getBool?,
           removeSpawnRaises := ← (a[6]!).getBool?, failedCtorReleases := ← (a[7]!).getBool? }

def handle (j : Json) : Except String Json := do
  let op ← j.getObjValAs? String "op"
  match op with
  | "idman" =>
    let gj ← j.getObjVal? "guard"
    let guard ← if gj.isNull then pure Gen.C08.cfg.discardGuard else gj.getBool?
    let script ← (← j.getObjVal? "script").getArr?
    let mut m := IDMan.empty
    let mut out : Array Json := #[]
    for st in script do
      let a ← st.getArr?
      let k ← (a[0]!).getStr?
      let v ← (a[1]!).getInt?
      if k == "g" then
        let r := m.getId v
        m := r.2
        out := out.push (jInt r.1)
      else
        m := m.discard guard v
        out := out.push Json.null
    pure (Json.mkObj [("r", Json.arr out), ("used", Wire.ofIntList (sortDedup m.used)), ("pos", jInt m.searchPos)])
  | "fix" =>
    let init ← pairList (← j.getObjVal? "init")
    let script ← (← j.getObjVal? "script").getArr?
    let mut t := fxInit init
    let mut out : Array Json := #[jFix t]
    for st in script do
      let a ← st.getArr?
      let k ← (a[0]!).getStr?
      let v ← (a[1]!).getNat?
      t := if k == "s" then fxSet t v else fxDel t v
      out := out.push (jFix t)
    pure (Json.mkObj [("tables", Json.arr out)])
  | "fixtabs" =>
    let init ← pairList (← j.getObjVal? "init")
    let script ← (← j.getObjVal? "script").getArr?
    let dump (T : Nat → Option Fix) : Json :=
      Json.arr ((List.range 3).map fun i => match T i with | some f => jFix f | none => Json.null).toArray
    let mut T := fxTabInit init
    let mut out : Array Json := #[dump T]
    for st in script do
      let a ← st.getArr?
      let k ← (a[0]!).getStr?
      let x ← (a[1]!).getNat?
      let y ← if a.size > 2 then (a[2]!).getNat? else pure 0
      let op ← match k with
        | "s" => pure (FxOp.set x y)
        | "d" => pure (FxOp.del x y)
        | "clr" => pure (FxOp.clear x)
        | "cp" => pure (FxOp.copy x y false)
        | "ctor" => pure (FxOp.copy x y true)
        | _ => throw s!"unknown fixtabs op {k}"
      T := fxTabStep T op
      out := out.push (dump T)
    pure (Json.mkObj [("tables", Json.arr out)])
  | "hist" =>
    let c ← cfgOf (← j.getObjVal? "cfg")
    let ops ← (← (← j.getObjVal? "ops").getArr?).toList.mapM opOf
    let mut s := St.init
    let mut out : Array Json := #[]
    for o in ops do
      s := step c s o
      out := out.push (obsOf s)
    pure (Json.mkObj [("steps", Json.arr out)])
  | _ => throw s!"unknown op {op}"

def main : IO Unit := Wire.main handle
