import Srctools.Wire
import Srctools.Model.Tok
import Srctools.Model.C16
import Srctools.Model.C16Bin
import Srctools.Model.C16Lazy
import Srctools.Model.C16KV
import Srctools.Model.C16Ent
import Srctools.Gen.Tok
import Srctools.Gen.Fgdw
/-! Driver for the C16 models.
requests (text = arrays of code points, bytes = arrays of 0..255):
  {"op":"long","ext":b,"indent":[cp],"s":[cp],"cfg":null|[limit,small,backoff,empty]}
      → {"out":[cp],"nsec":n,"run":{toks,err},"read":{"strings":[[cp]],"rest":n}|{"rerr":[id,arg]}}
        (`read` = _read_colon_list(had_colon=true) on the tokens of out ++ "\n")
  {"op":"colon","s":[cp],"had":b}   → {"run":…, "read":…}   (tokens of s, FGD.parse_file options)
  {"op":"dict","shared":n,"base":[[cp]],"own":[[cp]],"isBase":b,"q":[[cp]]}
      → {"r":[null|[[bytes],null|[cp]]]}     encode(q) and the string read back from those bytes
  {"op":"ent","shared","base","own","isBase","ent":E} → {"bytes":null|[..],"back":null|E}
  {"op":"unent","tbl":[[cp]],"bytes":[..]} → {"ent":null|E,"rest":n}
     E = [kind,alias,[bases],[KV],[IO],[IO],[RES]]; KV=[name,disp,typ,ro,default,[[mask,name,dflt,tagged]],desc,rep]
     IO=[name,typ,desc]; RES=[file,typ,[tags]]
  {"op":"lazy","blocks":[[[name,[bases],payload]]],"cbase":n,"cpayload":p,"qs":[n],"names":[n]}
      → {"steps":[OBS…],"all":OBS,"all0":OBS}  OBS = [[parsed…],[slot…]] slot = null|[0,i]|[1,payload,0|1,[bases]]
-/
open Lean Tok C16

def boolArr (j : Json) : Except String (List Bool) := do
  let a ← j.getArr?
  a.toList.mapM fun x => x.getBool?

def strList (j : Json) : Except String (List (List Char)) := do
  let a ← j.getArr?
  a.toList.mapM Wire.strOfCodes

def runJson (r : Run) : Json :=
  Json.mkObj [
    ("toks", Json.arr (r.toks.map fun t =>
      Json.arr #[Json.num (JsonNumber.fromNat t.kind), Wire.codesOfStr t.value,
                 Json.num (JsonNumber.fromNat t.line)]).toArray),
    ("err", match r.err with
      | none => Json.null
      | some (e, l) => Wire.ofNatList [e.code.1, e.code.2, l])]

def foldId : Char → List Char := fun c => [c]

def readJson (r : Run) (had : Bool) : Json :=
  let tks := tksOf r
  match readColonList (tks.length + 1) tks [] had with
  | .ok (strs, rest) => Json.mkObj [("strings", Json.arr (strs.map Wire.codesOfStr).toArray),
                                    ("rest", Json.num (JsonNumber.fromNat rest.length))]
  | .error e => Json.mkObj [("rerr", Wire.ofNatList [e.code.1, e.code.2])]

/-! binary records -/
open C16.Bin in
def dictOf (j : Json) : Except String StrDict := do
  pure { shared := ← j.getObjValAs? Nat "shared", base := ← strList (← j.getObjVal? "base"),
         own := ← strList (← j.getObjVal? "own"), isBase := ← j.getObjValAs? Bool "isBase" }

def optBytes : Option (List Nat) → Json
  | none => Json.null
  | some b => Wire.ofNatList b

open C16.Bin in
def kvOf (j : Json) : Except String KV := do
  let a ← j.getArr?
  let fl ← (a[5]!).getArr?
  let flags ← fl.toList.mapM fun f => do
    let q ← f.getArr?
    pure ({ mask := ← (q[0]!).getNat?, name := ← Wire.strOfCodes (q[1]!), dflt := ← (q[2]!).getBool?,
            tagged := ← (q[3]!).getBool? } : Flag)
  pure { name := ← Wire.strOfCodes (a[0]!), disp := ← Wire.strOfCodes (a[1]!), typ := ← (a[2]!).getNat?,
         readonly := ← (a[3]!).getBool?, default := ← Wire.strOfCodes (a[4]!), flags := flags,
         desc := ← Wire.strOfCodes (a[6]!), reportable := ← (a[7]!).getBool? }

open C16.Bin in
def kvJson (k : KV) : Json :=
  Json.arr #[Wire.codesOfStr k.name, Wire.codesOfStr k.disp, Json.num (JsonNumber.fromNat k.typ), Json.bool k.readonly,
    Wire.codesOfStr k.default,
    Json.arr (k.flags.map fun f => Json.arr #[Json.num (JsonNumber.fromNat f.mask), Wire.codesOfStr f.name,
      Json.bool f.dflt, Json.bool f.tagged]).toArray,
    Wire.codesOfStr k.desc, Json.bool k.reportable]

open C16.Bin in
def ioOf (j : Json) : Except String IO := do
  let a ← j.getArr?
  pure { name := ← Wire.strOfCodes (a[0]!), typ := ← (a[1]!).getNat?, desc := ← Wire.strOfCodes (a[2]!) }

open C16.Bin in
def ioJson (i : IO) : Json :=
  Json.arr #[Wire.codesOfStr i.name, Json.num (JsonNumber.fromNat i.typ), Wire.codesOfStr i.desc]

open C16.Bin in
def entOf (j : Json) : Except String Ent := do
  let a ← j.getArr?
  let kvs ← (← (a[3]!).getArr?).toList.mapM kvOf
  let ins ← (← (a[4]!).getArr?).toList.mapM ioOf
  let outs ← (← (a[5]!).getArr?).toList.mapM ioOf
  let res ← (← (a[6]!).getArr?).toList.mapM fun r => do
    let q ← r.getArr?
    pure ({ file := ← Wire.strOfCodes (q[0]!), typ := ← (q[1]!).getNat?, tags := ← strList (q[2]!) } : C16.Bin.Res)
  pure { kind := ← (a[0]!).getNat?, alias := ← (a[1]!).getBool?, bases := ← strList (a[2]!),
         kvs := kvs, inputs := ins, outputs := outs, res := res }

open C16.Bin in
def entJson (e : Ent) : Json :=
  Json.arr #[Json.num (JsonNumber.fromNat e.kind), Json.bool e.alias,
    Json.arr (e.bases.map Wire.codesOfStr).toArray,
    Json.arr (e.kvs.map kvJson).toArray, Json.arr (e.inputs.map ioJson).toArray,
    Json.arr (e.outputs.map ioJson).toArray,
    Json.arr (e.res.map fun r => Json.arr #[Wire.codesOfStr r.file, Json.num (JsonNumber.fromNat r.typ),
      Json.arr (r.tags.map Wire.codesOfStr).toArray]).toArray]

/-! lazy database -/
open C16.Lazy in
def slotJson : Option Slot → Json
  | none => Json.null
  | some (.block i) => Wire.ofNatList [0, i]
  | some (.ent e) =>
    let (k, l) := match e.bases with | .names l => (0, l) | .ents l => (1, l)
    Json.arr #[Json.num (JsonNumber.fromNat 1), Json.num (JsonNumber.fromNat e.payload),
               Json.num (JsonNumber.fromNat k), Wire.ofNatList l]

open C16.Lazy in
def obsJson (S : Static) (names : List Nat) (s : State) : Json :=
  Json.arr #[Json.arr ((List.range S.blocks.length).map fun i => Json.bool (s.parsed i)).toArray,
             Json.arr (names.map fun n => slotJson (s.slot n)).toArray]

open C16.Lazy in
def lazyHandle (j : Json) : Except String Json := do
  let bl ← (← j.getObjVal? "blocks").getArr?
  let blocks ← bl.toList.mapM fun b => do
    let es ← b.getArr?
    es.toList.mapM fun e => do
      let q ← e.getArr?
      pure ({ name := ← (q[0]!).getNat?, bases := ← Wire.natList (q[1]!), payload := ← (q[2]!).getNat? } : RawEnt)
  let S : Static := { blocks := blocks, cbase := ← j.getObjValAs? Nat "cbase" }
  let cp ← j.getObjValAs? Nat "cpayload"
  let qs ← Wire.natList (← j.getObjVal? "qs")
  let names ← Wire.natList (← j.getObjVal? "names")
  let s0 := initState S cp
  let (steps, sfin) := qs.foldl (fun (acc : List Json × State) q =>
      let s' := getEnt S acc.2 q
      (obsJson S names s' :: acc.1, s')) ([obsJson S names s0], s0)
  pure (Json.mkObj [("steps", Json.arr steps.reverse.toArray),
                    ("all", obsJson S names (loadAll S sfin)),
                    ("all0", obsJson S names (loadAll S s0))])

/-! keyvalue / IO lines -/
open C16.KV in
def valsOf (j : Json) : Except String Vals := do
  match j with
  | Json.null => pure .none
  | _ =>
    let a ← j.getArr?
    let kind ← (a[0]!).getNat?
    let items ← (a[1]!).getArr?
    if kind = 0 then
      let l ← items.toList.mapM fun x => do
        let q ← x.getArr?
        pure ({ value := ← Wire.strOfCodes (q[0]!), name := ← Wire.strOfCodes (q[1]!), tags := ← strList (q[2]!) } : Choice)
      pure (.choices l)
    else
      let l ← items.toList.mapM fun x => do
        let q ← x.getArr?
        pure ({ mask := ← (q[0]!).getNat?, name := ← Wire.strOfCodes (q[1]!), dflt := ← (q[2]!).getBool?,
                tags := ← strList (q[3]!) } : C16.KV.Flag)
      pure (.flags l)

open C16.KV in
def kvRecOf (j : Json) : Except String KVRec := do
  let a ← j.getArr?
  pure { name := ← Wire.strOfCodes (a[0]!), typ := ← (a[1]!).getNat?, disp := ← Wire.strOfCodes (a[2]!),
         default := ← Wire.strOfCodes (a[3]!), desc := ← Wire.strOfCodes (a[4]!), vals := ← valsOf (a[5]!),
         readonly := ← (a[6]!).getBool?, reportable := ← (a[7]!).getBool? }

def strsJson (l : List (List Char)) : Json := Json.arr (l.map Wire.codesOfStr).toArray

open C16.KV in
def valsJson : Vals → Json
  | .none => Json.null
  | .choices l => Json.arr #[Json.num (JsonNumber.fromNat 0), Json.arr (l.map fun c =>
      Json.arr #[Wire.codesOfStr c.value, Wire.codesOfStr c.name, strsJson c.tags]).toArray]
  | .flags l => Json.arr #[Json.num (JsonNumber.fromNat 1), Json.arr (l.map fun f =>
      Json.arr #[Json.num (JsonNumber.fromNat f.mask), Wire.codesOfStr f.name, Json.bool f.dflt, strsJson f.tags]).toArray]

open C16.KV in
def kvRecJson (k : KVRec) : Json :=
  Json.arr #[Wire.codesOfStr k.name, Json.num (JsonNumber.fromNat k.typ), Wire.codesOfStr k.disp,
    Wire.codesOfStr k.default, Wire.codesOfStr k.desc, valsJson k.vals, Json.bool k.readonly, Json.bool k.reportable]

open C16.KV in
def ioRecOf (j : Json) : Except String IORec := do
  let a ← j.getArr?
  pure { name := ← Wire.strOfCodes (a[0]!), typ := ← (a[1]!).getNat?, desc := ← Wire.strOfCodes (a[2]!) }

open C16.KV in
def ioRecJson (io : IORec) : Json :=
  Json.arr #[Wire.codesOfStr io.name, Json.num (JsonNumber.fromNat io.typ), Wire.codesOfStr io.desc]

def tableOf (j : Json) : Except String (Char → List Char) := do
  let a ← j.getArr?
  let pairs ← a.toList.mapM fun p => do
    let q ← p.getArr?
    let k ← (q[0]!).getNat?
    let v ← Wire.strOfCodes (q[1]!)
    pure (Char.ofNat k, v)
  pure fun c => match pairs.find? (·.1 == c) with
    | some p => p.2
    | none => [c]

open C16.KV in
def expCfgOf (j : Json) : Except String ExpCfg := do
  pure { long := Gen.Fgdw.longCfg, T := Gen.Tok.tables, tt := Gen.Fgdw.typeTab,
         ext := ← j.getObjValAs? Bool "ext", label := ← j.getObjValAs? Bool "label" }

open C16.KV in
def itemJson : Item → Json
  | .kv tags k => Json.arr #[Json.str "kv", strsJson tags, kvRecJson k]
  | .inp tags io => Json.arr #[Json.str "in", strsJson tags, ioRecJson io]
  | .out tags io => Json.arr #[Json.str "out", strsJson tags, ioRecJson io]

open C16.KV in
def perrJson (e : PErr) : Json := Json.mkObj [("perr", Json.num (JsonNumber.fromNat e.code))]

/-- ops on keyvalue / IO lines:
  {"op":"kvexport","ext":b,"label":b,"tags":[[cp]],"kv":K}          → {"text":[cp]}
  {"op":"ioexport","ext":b,"label":b,"kw":[cp],"tags":[[cp]],"io":IO} → {"text":[cp]}
  {"op":"bodyparse","s":[cp],"fold":[[cp,[cp]]],"up":[[cp,[cp]]]}    → {"run":…,"items":[…],"rest":n} | {"run":…,"perr":code}
     (tokens of s under FGD.parse_file options, then the body loop of EntityDef.parse) -/
def kvHandle (op : String) (j : Json) : Except String Json := do
  match op with
  | "kvexport" =>
    let c ← expCfgOf j
    let tags ← strList (← j.getObjVal? "tags")
    let k ← kvRecOf (← j.getObjVal? "kv")
    pure (Json.mkObj [("text", Wire.codesOfStr (C16.KV.exportKV c tags k))])
  | "ioexport" =>
    let c ← expCfgOf j
    let tags ← strList (← j.getObjVal? "tags")
    let kw ← Wire.strOfCodes (← j.getObjVal? "kw")
    let io ← ioRecOf (← j.getObjVal? "io")
    pure (Json.mkObj [("text", Wire.codesOfStr (C16.KV.exportIO c kw tags io))])
  | "bodyparse" =>
    let s ← Wire.strOfCodes (← j.getObjVal? "s")
    let fold ← tableOf (← j.getObjVal? "fold")
    let up ← tableOf (← j.getObjVal? "up")
    let r := run Gen.Tok.tables Gen.Fgdw.parseOpts fold s
    let tks := tksOf r
    let P : C16.KV.ParseCfg := { tt := Gen.Fgdw.typeTab, fold := fold, up := up }
    match C16.KV.parseBody P (tks.length + 1) tks [] with
    | .ok (items, rest) =>
      pure (Json.mkObj [("run", runJson r), ("items", Json.arr (items.map itemJson).toArray),
                        ("rest", Json.num (JsonNumber.fromNat rest.length))])
    | .error e => pure (Json.mkObj [("run", runJson r), ("perr", Json.num (JsonNumber.fromNat e.code))])
  | _ => throw s!"unknown op {op}"

/-! whole entities / files -/
open C16.KV in
def entRecOf (j : Json) : Except String EntRec := do
  let a ← j.getArr?
  let helpers ← (← (a[4]!).getArr?).toList.mapM fun h => do
    let q ← h.getArr?
    pure ({ name := ← Wire.strOfCodes (q[0]!), args := ← strList (q[1]!) } : Helper)
  let groups ← (← (a[6]!).getArr?).toList.mapM fun g => do
    let q ← g.getArr?
    let vs ← (← (q[1]!).getArr?).toList.mapM fun v => do
      let w ← v.getArr?
      pure ((← strList (w[0]!)), (← kvRecOf (w[1]!)))
    pure ({ key := ← Wire.strOfCodes (q[0]!), variants := vs } : Group)
  let ios (x : Json) : Except String (List (List (List Char) × IORec)) := do
    (← x.getArr?).toList.mapM fun v => do
      let w ← v.getArr?
      pure ((← strList (w[0]!)), (← ioRecOf (w[1]!)))
  let res ← match a[10]! with
    | Json.null => pure none
    | r => do
      let l ← (← r.getArr?).toList.mapM fun x => do
        let q ← x.getArr?
        pure ({ file := ← Wire.strOfCodes (q[0]!), typ := ← (q[1]!).getNat?, tags := ← strList (q[2]!) } : C16.KV.Res)
      pure (some l)
  pure { kind := ← (a[0]!).getNat?, classname := ← Wire.strOfCodes (a[1]!), bases := ← strList (a[2]!),
         alias := ← (a[3]!).getBool?, helpers := helpers, desc := ← Wire.strOfCodes (a[5]!), groups := groups,
         kvOrder := ← strList (a[7]!), inputs := ← ios (a[8]!), outputs := ← ios (a[9]!), res := res }

open C16.KV in
def parsedEntJson (e : ParsedEnt) : Json :=
  Json.arr #[Json.num (JsonNumber.fromNat e.kind), Wire.codesOfStr e.classname, strsJson e.bases, Json.bool e.alias,
    Json.arr (e.helpers.map fun h => Json.arr #[Wire.codesOfStr h.name, strsJson h.args]).toArray,
    Wire.codesOfStr e.desc, Json.arr (e.items.map itemJson).toArray,
    match e.res with
    | none => Json.null
    | some l => Json.arr (l.map fun r => Json.arr #[Wire.codesOfStr r.file, Json.num (JsonNumber.fromNat r.typ), strsJson r.tags]).toArray]

/-- {"op":"entexport","ext":b,"label":b,"fold":…,"up":…,"ents":[E…]} → {"text":[cp]}   (exportFile)
    {"op":"fileparse","s":[cp],"fold":…,"up":…} → {"run":…,"ents":[PE…]} | {"run":…,"perr":code} -/
def entHandle (op : String) (j : Json) : Except String Json := do
  let fold ← tableOf (← j.getObjVal? "fold")
  let up ← tableOf (← j.getObjVal? "up")
  let P : C16.KV.ParseCfg := { tt := Gen.Fgdw.typeTab, fold := fold, up := up }
  match op with
  | "entexport" =>
    let c ← expCfgOf j
    let ents ← (← (← j.getObjVal? "ents").getArr?).toList.mapM entRecOf
    pure (Json.mkObj [("text", Wire.codesOfStr (C16.KV.exportFile c Gen.Fgdw.entTab P ents))])
  | "fileparse" =>
    let s ← Wire.strOfCodes (← j.getObjVal? "s")
    let r := run Gen.Tok.tables Gen.Fgdw.parseOpts fold s
    let tks := tksOf r
    match C16.KV.parseFile P Gen.Fgdw.entTab (tks.length + 1) tks [] with
    | .ok ents => pure (Json.mkObj [("run", runJson r), ("ents", Json.arr (ents.map parsedEntJson).toArray)])
    | .error e => pure (Json.mkObj [("run", runJson r), ("perr", Json.num (JsonNumber.fromNat e.code))])
  | _ => throw s!"unknown op {op}"

def handle (j : Json) : Except String Json := do
  let op ← j.getObjValAs? String "op"
  match op with
  | "long" =>
    let ext ← j.getObjValAs? Bool "ext"
    let indent ← Wire.strOfCodes (← j.getObjVal? "indent")
    let s ← Wire.strOfCodes (← j.getObjVal? "s")
    let cfgJ ← j.getObjVal? "cfg"
    let cfg : LongCfg ← match cfgJ with
      | Json.null => pure Gen.Fgdw.longCfg
      | c => do
        let a ← c.getArr?
        pure { limit := ← (a[0]!).getNat?, small := ← (a[1]!).getNat?, backoff := ← (a[2]!).getBool?,
               emptyQuotes := ← (a[3]!).getBool? }
    let out := writeLongString cfg Gen.Tok.tables ext indent s
    let r := run Gen.Tok.tables Gen.Fgdw.parseOpts foldId (out ++ ['\n'])
    pure (Json.mkObj [("out", Wire.codesOfStr out),
                      ("nsec", Json.num (JsonNumber.fromNat (longSections cfg Gen.Tok.tables ext s).length)),
                      ("run", runJson r), ("read", readJson r true)])
  | "colon" =>
    let s ← Wire.strOfCodes (← j.getObjVal? "s")
    let had ← j.getObjValAs? Bool "had"
    let r := run Gen.Tok.tables Gen.Fgdw.parseOpts foldId s
    pure (Json.mkObj [("run", runJson r), ("read", readJson r had)])
  | "dict" =>
    let d ← dictOf j
    let qs ← strList (← j.getObjVal? "q")
    pure (Json.mkObj [("r", Json.arr (qs.map fun q =>
      match d.encode q with
      | none => Json.null
      | some bs => Json.arr #[Wire.ofNatList bs,
          match C16.Bin.readStr d.table bs with
          | some (s, _) => Wire.codesOfStr s
          | none => Json.null]).toArray)])
  | "ent" =>
    let d ← dictOf j
    let e ← entOf (← j.getObjVal? "ent")
    let bs := C16.Bin.entSer Gen.Fgdw.typeCfg d e
    let back := match bs with
      | none => Json.null
      | some b => match C16.Bin.entUnser Gen.Fgdw.typeCfg d.table b with
        | some (e', []) => entJson e'
        | _ => Json.null
    pure (Json.mkObj [("bytes", optBytes bs), ("back", back)])
  | "unent" =>
    let tbl ← strList (← j.getObjVal? "tbl")
    let bs ← Wire.natList (← j.getObjVal? "bytes")
    match C16.Bin.entUnser Gen.Fgdw.typeCfg tbl bs with
    | some (e, rest) => pure (Json.mkObj [("ent", entJson e), ("rest", Json.num (JsonNumber.fromNat rest.length))])
    | none => pure (Json.mkObj [("ent", Json.null), ("rest", Json.num (JsonNumber.fromNat 0))])
  | "lazy" => lazyHandle j
  | "entexport" => entHandle op j
  | "fileparse" => entHandle op j
  | _ => kvHandle op j

def main : IO Unit := Wire.main handle
