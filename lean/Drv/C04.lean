import Srctools.Wire
import Srctools.Model.C04
import Srctools.Gen.Rot
/-! Driver for the rotation-algebra model (C04), evaluated exactly over `Rat`.

Numbers in:  `[n, k]` = n / 2^k (the exact value of a double).   Numbers out: `[num, den]`.
requests:
  {"op":"fromAngle"|"rx"|"ry"|"rz","a":[6 num]}          → {"m":[9 num]}
  {"op":"matMul","m":[9],"o":[9]}                        → {"m":[9]}
  {"op":"vecRot","v":[3],"m":[9]}                        → {"v":[3]}
  {"op":"transpose","m":[9]}                             → {"m":[9]}
  {"op":"toAngle","m":[9],"rad":[h,rp,rr,rg]}            → {"a":[6],"general":bool}
  {"op":"inverse","m":[9]}                               → {"m":[9]|null}
  {"op":"dispatch",["fresh":b,]   (default: Gen.Rot.fmatProductFresh, extracted from the source)
                   "l":t,"r":t,"form":f,"lv":[…],"rv":[…],"rad":[4]}
        → {"res":null} | {"res":t,"inplace":b,"formula":[kind,lconv,rconv,toAng],"val":[…]|null}
  {"op":"table","fresh":b}                               → {"table":[[l,r,form,null|[res,inplace,kind,lconv,rconv,toAng]]…]}
tags: 0 Vec 1 FrozenVec 2 tuple 3 Angle 4 FrozenAngle 5 Matrix 6 FrozenMatrix; forms: 0 @  1 @=  2 direct __rmatmul__.
The threshold of `_to_angle` and the epsilon of `inverse` are the literals extracted into Gen/Rot.lean.
-/
open Lean C04

def ratOf (j : Json) : Except String Rat := do
  let a ← j.getArr?
  if a.size != 2 then throw "number: need [n, k]"
  let n ← (a[0]!).getInt?
  let k ← (a[1]!).getNat?
  pure (mkRat n (2 ^ k))

def ratsOf (j : Json) (n : Nat) : Except String (Array Rat) := do
  let a ← j.getArr?
  if a.size != n then throw s!"need {n} numbers, got {a.size}"
  a.mapM ratOf

def ratJson (q : Rat) : Json :=
  Json.arr #[Json.num (JsonNumber.fromInt q.num), Json.num (JsonNumber.fromNat q.den)]

def matOfArr (a : Array Rat) : Mat Rat :=
  ⟨a[0]!, a[1]!, a[2]!, a[3]!, a[4]!, a[5]!, a[6]!, a[7]!, a[8]!⟩
def angOfArr (a : Array Rat) : Ang Rat := ⟨a[0]!, a[1]!, a[2]!, a[3]!, a[4]!, a[5]!⟩
def vecOfArr (a : Array Rat) : V3 Rat := ⟨a[0]!, a[1]!, a[2]!⟩
def radOfArr (a : Array Rat) : Radii Rat := ⟨a[0]!, a[1]!, a[2]!, a[3]!⟩

def matJson (m : Mat Rat) : Json :=
  Json.arr (#[m.aa, m.ab, m.ac, m.ba, m.bb, m.bc, m.ca, m.cb, m.cc].map ratJson)
def angJson (a : Ang Rat) : Json := Json.arr (#[a.cp, a.sp, a.cy, a.sy, a.cr, a.sr].map ratJson)
def vecJson (v : V3 Rat) : Json := Json.arr (#[v.x, v.y, v.z].map ratJson)

def tagOf : Nat → Except String Tag
  | 0 => pure .vec | 1 => pure .fvec | 2 => pure .tup | 3 => pure .ang
  | 4 => pure .fang | 5 => pure .mat | 6 => pure .fmat
  | n => throw s!"bad tag {n}"
def tagNum : Tag → Nat
  | .vec => 0 | .fvec => 1 | .tup => 2 | .ang => 3 | .fang => 4 | .mat => 5 | .fmat => 6
def formOf : Nat → Except String Form
  | 0 => pure .op | 1 => pure .iop | 2 => pure .refl
  | n => throw s!"bad form {n}"
def convNum : Conv → Nat
  | .asIs => 0 | .fromAngle => 1 | .vecOfTuple => 2
def kindNum : Kind → Nat
  | .vecRot => 0 | .matMul => 1

def valOf (t : Tag) (j : Json) : Except String (Val Rat) := do
  if t.isAng then pure (.a (angOfArr (← ratsOf j 6)))
  else if t.isMat then pure (.m (matOfArr (← ratsOf j 9)))
  else pure (.v (vecOfArr (← ratsOf j 3)))

def valJson : Val Rat → Json
  | .v v => vecJson v
  | .a a => angJson a
  | .m m => matJson m

def nat (n : Nat) : Json := Json.num (JsonNumber.fromNat n)

def entryFields (e : Entry) : List Json :=
  [nat (tagNum e.res), Json.bool e.inPlace, nat (kindNum e.f.kind), nat (convNum e.f.lconv),
   nat (convNum e.f.rconv), Json.bool e.f.toAng]

def allTags : List Tag := [.vec, .fvec, .tup, .ang, .fang, .mat, .fmat]
def allForms : List (Nat × Form) := [(0, .op), (1, .iop), (2, .refl)]

def handle (j : Json) : Except String Json := do
  let op ← j.getObjValAs? String "op"
  match op with
  | "fromAngle" => pure (Json.mkObj [("m", matJson (fromAngle (angOfArr (← ratsOf (← j.getObjVal? "a") 6))))])
  | "rx" => pure (Json.mkObj [("m", matJson (Rx (angOfArr (← ratsOf (← j.getObjVal? "a") 6))))])
  | "ry" => pure (Json.mkObj [("m", matJson (Ry (angOfArr (← ratsOf (← j.getObjVal? "a") 6))))])
  | "rz" => pure (Json.mkObj [("m", matJson (Rz (angOfArr (← ratsOf (← j.getObjVal? "a") 6))))])
  | "matMul" =>
    let m := matOfArr (← ratsOf (← j.getObjVal? "m") 9)
    let o := matOfArr (← ratsOf (← j.getObjVal? "o") 9)
    pure (Json.mkObj [("m", matJson (matMul m o))])
  | "vecRot" =>
    let v := vecOfArr (← ratsOf (← j.getObjVal? "v") 3)
    let m := matOfArr (← ratsOf (← j.getObjVal? "m") 9)
    pure (Json.mkObj [("v", vecJson (vecRot v m))])
  | "transpose" =>
    pure (Json.mkObj [("m", matJson (transpose (matOfArr (← ratsOf (← j.getObjVal? "m") 9))))])
  | "toAngle" =>
    let m := matOfArr (← ratsOf (← j.getObjVal? "m") 9)
    let r := radOfArr (← ratsOf (← j.getObjVal? "rad") 4)
    let (a, g) := toAngleB Gen.Rot.thr m r
    pure (Json.mkObj [("a", angJson a), ("general", Json.bool g)])
  | "inverse" =>
    let m := matOfArr (← ratsOf (← j.getObjVal? "m") 9)
    pure (Json.mkObj [("m", match gaussJordanInverse Gen.Rot.eps m with
      | some n => matJson n
      | none => Json.null)])
  | "dispatch" =>
    let fresh := (j.getObjValAs? Bool "fresh").toOption.getD Gen.Rot.fmatProductFresh
    let l ← tagOf (← j.getObjValAs? Nat "l")
    let r ← tagOf (← j.getObjValAs? Nat "r")
    let f ← formOf (← j.getObjValAs? Nat "form")
    match dispatch fresh l r f with
    | none => pure (Json.mkObj [("res", Json.null)])
    | some e =>
      let lv ← valOf l (← j.getObjVal? "lv")
      let rv ← valOf r (← j.getObjVal? "rv")
      let rad := radOfArr (← ratsOf (← j.getObjVal? "rad") 4)
      let val := match evalFormula Gen.Rot.thr e.f lv rv rad with
        | some v => valJson v
        | none => Json.null
      pure (Json.mkObj [("res", nat (tagNum e.res)), ("inplace", Json.bool e.inPlace),
        ("formula", Json.arr (entryFields e).toArray), ("val", val)])
  | "table" =>
    let fresh := (j.getObjValAs? Bool "fresh").toOption.getD Gen.Rot.fmatProductFresh
    let rows := allTags.flatMap fun l => allTags.flatMap fun r => allForms.map fun (fn, f) =>
      Json.arr #[nat (tagNum l), nat (tagNum r), nat fn,
        match dispatch fresh l r f with
        | none => Json.null
        | some e => Json.arr (entryFields e).toArray]
    pure (Json.mkObj [("table", Json.arr rows.toArray), ("fresh", Json.bool fresh)])
  | _ => throw s!"unknown op {op}"

def main : IO Unit := Wire.main handle
