import Srctools.Wire
import Srctools.Model.C18
import Srctools.Gen.Fsys
/-! Driver for the path model and the directory-filesystem model (C18).
requests (strings are code point arrays):
  {"op":"path","cwd":s,"s":[s…]}            → [{"norm":s,"abs":s,"comps":[s…]}…]
  {"op":"join","pairs":[[a,b]…]}            → [s…]
  {"op":"relpath","cwd":s,"pairs":[[path,start]…]} → [s|null…]
  {"op":"unify","fold":[[cp,[cp…]]…],"s":[s…]} → [s|null…]
  {"op":"kind"}                              → "stringPrefix" | "sepTerminated" [+ "+fold"]   (from Gen.Fsys)
  {"op":"fs","kind":null|"stringPrefix"|"sepTerminated","cwd":s,"tree":[[[comp…],id]…],
   "members":[{"root":s,"constrain":b,"pfx":s}…],"chain":b,"fold":[…],"paths":[s…]}
      chain=false (first member only, prefix ignored) →
        {"root":s,"obs":[{"resolve":s|err,"exists":b|err,"get":s|err,"open":id|err,"getopen":id|err,"walk":[[s,id]…]|err}…]}
      chain=true →
        {"roots":[s…],"obs":[{"get":[full,inner]|err,"open":id|err,"walkrep":[[s,id|err]…]|err,"walk":[[s,id|err]…]|err}…]}
  err = "escape" | "notfound"
-/
open Lean Path C18

def strArr (j : Json) : Except String (List Str) := do
  let a ← j.getArr?
  a.toList.mapM Wire.strOfCodes

def foldOf (j : Json) : Except String (Char → List Char) := do
  let a ← j.getArr?
  let pairs ← a.toList.mapM fun p => do
    let q ← p.getArr?
    let k ← (q[0]!).getNat?
    let v ← Wire.strOfCodes (q[1]!)
    pure (Char.ofNat k, v)
  pure fun c => match pairs.find? (·.1 == c) with
    | some p => p.2
    | none => [c]

def errJ : Err → Json
  | .escape => Json.str "escape"
  | .notFound => Json.str "notfound"

def exJ {α} (f : α → Json) : Except Err α → Json
  | .ok a => f a
  | .error e => errJ e

def sJ (s : Str) : Json := Wire.codesOfStr s
def nJ (n : Nat) : Json := Json.num (JsonNumber.fromNat n)
def lJ {α} (f : α → Json) (l : List α) : Json := Json.arr (l.map f).toArray

def kindOf (j : Json) : Except String Cfg :=
  match j with
  | Json.null => pure Gen.Fsys.cfg
  | Json.str "stringPrefix" => pure ⟨.stringPrefix, false, false⟩
  | Json.str "sepTerminated" => pure ⟨.sepTerminated, false, false⟩
  | Json.str "sepTerminated+fold" => pure ⟨.sepTerminated, true, false⟩
  | _ => throw "kind?"

def treeOf (j : Json) : Except String Tree := do
  let a ← j.getArr?
  a.toList.mapM fun e => do
    let q ← e.getArr?
    let cs ← strArr (q[0]!)
    let i ← (q[1]!).getNat?
    pure ⟨cs, i⟩

def membersOf (j : Json) (cwd : Str) : Except String (List Member) := do
  let a ← j.getArr?
  a.toList.mapM fun m => do
    let root ← Wire.strOfCodes (← m.getObjVal? "root")
    let c ← m.getObjValAs? Bool "constrain"
    let p ← Wire.strOfCodes (← m.getObjVal? "pfx")
    pure ⟨mkRaw cwd root c, p⟩

def handle (j : Json) : Except String Json := do
  let op ← j.getObjValAs? String "op"
  match op with
  | "path" =>
    let cwd ← Wire.strOfCodes (← j.getObjVal? "cwd")
    let ss ← strArr (← j.getObjVal? "s")
    pure (lJ (fun s => Json.mkObj [("norm", sJ (normpath s)), ("abs", sJ (abspath cwd s)),
                                    ("comps", lJ sJ (comps s))]) ss)
  | "join" =>
    let a ← (← j.getObjVal? "pairs").getArr?
    let rs ← a.toList.mapM fun p => do
      let q ← strArr p
      pure (sJ (join2 (q[0]!) (q[1]!)))
    pure (Json.arr rs.toArray)
  | "relpath" =>
    let cwd ← Wire.strOfCodes (← j.getObjVal? "cwd")
    let a ← (← j.getObjVal? "pairs").getArr?
    let rs ← a.toList.mapM fun p => do
      let q ← strArr p
      pure (match relpath cwd (q[0]!) (q[1]!) with | some r => sJ r | none => Json.null)
    pure (Json.arr rs.toArray)
  | "unify" =>
    let f ← foldOf (← j.getObjVal? "fold")
    let ss ← strArr (← j.getObjVal? "s")
    pure (lJ (fun s => match unifyPath f s with | some r => sJ r | none => Json.null) ss)
  | "kind" =>
    pure (Json.str ((match Gen.Fsys.cfg.contain with | .stringPrefix => "stringPrefix" | .sepTerminated => "sepTerminated")
      ++ (if Gen.Fsys.cfg.foldSlash then "+fold" else "")))
  | "fs" =>
    let k ← kindOf ((j.getObjVal? "kind").toOption.getD Json.null)
    let cwd ← Wire.strOfCodes (← j.getObjVal? "cwd")
    let t ← treeOf (← j.getObjVal? "tree")
    let ms ← membersOf (← j.getObjVal? "members") cwd
    let chain ← j.getObjValAs? Bool "chain"
    let f ← foldOf (← j.getObjVal? "fold")
    let ps ← strArr (← j.getObjVal? "paths")
    let entJ (e : Ent) : Json := nJ e.id
    if chain then
      let wJ (l : List (Str × Except Err Ent)) : Json :=
        lJ (fun (x : Str × Except Err Ent) => Json.arr #[sJ x.1, exJ entJ x.2]) l
      let obs := ps.map fun p => Json.mkObj [
        ("get", exJ (fun (x : Member × Str × Str) => Json.arr #[sJ x.2.1, sJ x.2.2]) (chainGet k cwd t p ms)),
        ("open", exJ entJ (chainOpen k cwd t ms p)),
        ("walkrep", exJ wJ (chainWalkRepeat k cwd t p ms)),
        ("walk", exJ wJ (chainWalk k f cwd t p ms))]
      pure (Json.mkObj [("roots", lJ (fun (m : Member) => sJ m.fs.root) ms), ("obs", Json.arr obs.toArray)])
    else
      match ms with
      | [] => throw "no member"
      | m :: _ =>
        let fs := m.fs
        let obs := ps.map fun p => Json.mkObj [
          ("resolve", exJ sJ (resolve k cwd fs p)),
          ("exists", exJ Json.bool (existsIn k cwd fs t p)),
          ("get", exJ sJ (getFile k cwd fs t p)),
          ("open", exJ entJ (openName k cwd fs t p)),
          ("getopen", exJ entJ (getOpen k cwd fs t p)),
          ("walk", exJ (lJ fun (x : Str × Ent) => Json.arr #[sJ x.1, entJ x.2]) (walk k cwd fs t p))]
        pure (Json.mkObj [("root", sJ fs.root), ("obs", Json.arr obs.toArray)])
  | _ => throw s!"unknown op {op}"

def main : IO Unit := Wire.main handle
