import Srctools.Wire
import Srctools.Model.C06
import Srctools.Model.C06Text
import Srctools.Model.C06Hist
/-! Driver for the C06 model (VMF export / parse at the keyvalues-tree level).
requests (text = arrays of code points, KV = [0,name,value] | [1,name,[children]]):
  {"op":"export","opts":{"minimal":b,"multiblend":b,"inc":b},"map":MAP}  → {"tree":[KV…]}
  {"op":"parse","preserve":b,"tree":[KV…]}                                → {"ok":MAP} | {"err":"name"}
  {"op":"text","opts":…,"map":MAP}                                         → {"text":[cp…]}   (exportText)
  {"op":"project","opts":…,"map":MAP}                                     → {"map":MAP}
  {"op":"roundtrip","opts":…,"map":MAP}   parseTree true (exportTree o m)  → {"ok":MAP} | {"err":…}
  {"op":"after","opts":…,"map":MAP}       afterExport o m (the live value when export returns) → {"map":MAP}
MAP is the structure produced by harness/c06_gen.dump_map.
-/
open Lean C06

namespace Drv06

def str (j : Json) : Except String Str := Wire.strOfCodes j
def ostr (j : Json) : Except String (Option Str) := if j.isNull then pure none else some <$> str j
def jstr (s : Str) : Json := Wire.codesOfStr s
def jostr : Option Str → Json
  | none => Json.null
  | some s => jstr s
def jint (i : Int) : Json := Json.num (JsonNumber.fromInt i)
def jbool (b : Bool) : Json := Json.bool b

def fld (j : Json) (k : String) : Except String Json := j.getObjVal? k
def fInt (j : Json) (k : String) : Except String Int := do (← fld j k).getInt?
def fBool (j : Json) (k : String) : Except String Bool := do (← fld j k).getBool?
def fStr (j : Json) (k : String) : Except String Str := do str (← fld j k)
def fArr (j : Json) (k : String) : Except String (List Json) := do pure (← (← fld j k).getArr?).toList
def arr (j : Json) : Except String (List Json) := do pure (← j.getArr?).toList
def jarr (l : List Json) : Json := Json.arr l.toArray

def v3 (j : Json) : Except String V3 := do
  match ← arr j with
  | [a, b, c] => pure ⟨← str a, ← str b, ← str c⟩
  | _ => throw "vec: need 3"
def jv3 (v : V3) : Json := jarr [jstr v.x, jstr v.y, jstr v.z]
def v4 (j : Json) : Except String V4 := do
  match ← arr j with
  | [a, b, c, d] => pure ⟨← str a, ← str b, ← str c, ← str d⟩
  | _ => throw "vec4: need 4"
def jv4 (v : V4) : Json := jarr [jstr v.x, jstr v.y, jstr v.z, jstr v.w]
def fV3 (j : Json) (k : String) : Except String V3 := do v3 (← fld j k)
def ints (j : Json) : Except String (List Int) := do (← arr j).mapM (·.getInt?)
def jints (l : List Int) : Json := jarr (l.map jint)

partial def kvOf (j : Json) : Except String KV := do
  match ← arr j with
  | [t, n, v] =>
    let tag ← t.getNat?
    let name ← str n
    if tag == 0 then pure (.leaf name (← str v))
    else pure (.block name (← (← arr v).mapM kvOf))
  | _ => throw "kv: need 3 elements"

partial def jkv : KV → Json
  | .leaf n v => jarr [Json.num 0, jstr n, jstr v]
  | .block n cs => jarr [Json.num 1, jstr n, jarr (cs.map jkv)]

partial def visOf (j : Json) : Except String Vis := do
  pure (.mk (← fStr j "name") (← fInt j "id") (← fV3 j "color") (← (← fArr j "children").mapM visOf))

partial def jvis : Vis → Json
  | .mk name id color children =>
    Json.mkObj [("name", jstr name), ("id", jint id), ("color", jv3 color), ("children", jarr (children.map jvis))]

def outOf (j : Json) : Except String Out := do
  pure { output := ← fStr j "output", instOut := ← ostr (← fld j "inst_out"), target := ← fStr j "target",
         input := ← fStr j "input", instIn := ← ostr (← fld j "inst_in"), params := ← fStr j "params",
         delay := ← fStr j "delay", times := ← fInt j "times", comma := ← fBool j "comma" }

def jout (o : Out) : Json :=
  Json.mkObj [("output", jstr o.output), ("inst_out", jostr o.instOut), ("target", jstr o.target),
    ("input", jstr o.input), ("inst_in", jostr o.instIn), ("params", jstr o.params),
    ("delay", jstr o.delay), ("times", jint o.times), ("comma", jbool o.comma)]

def vertOf (j : Json) : Except String DVert := do
  let cj ← fld j "colors"
  let colors ← if cj.isNull then pure none else some <$> (← arr cj).mapM v3
  pure { normal := ← fV3 j "normal", dist := ← fStr j "dist", offset := ← fV3 j "offset",
         offsetNorm := ← fV3 j "offset_norm", alpha := ← fStr j "alpha", triA := ← fInt j "tri_a",
         triB := ← fInt j "tri_b", blend := ← v4 (← fld j "blend"), malpha := ← v4 (← fld j "malpha"), colors }

def jvert (v : DVert) : Json :=
  Json.mkObj [("normal", jv3 v.normal), ("dist", jstr v.dist), ("offset", jv3 v.offset),
    ("offset_norm", jv3 v.offsetNorm), ("alpha", jstr v.alpha), ("tri_a", jint v.triA), ("tri_b", jint v.triB),
    ("blend", jv4 v.blend), ("malpha", jv4 v.malpha),
    ("colors", match v.colors with
      | none => Json.null
      | some cs => jarr (cs.map jv3))]

def dispOf (j : Json) : Except String Disp := do
  pure { power := (← fInt j "power").toNat, pos := ← fV3 j "pos", elev := ← fStr j "elev",
         coll := (← fInt j "coll").toNat, subdiv := ← fBool j "subdiv", allowed := ← ints (← fld j "allowed"),
         verts := ← (← fArr j "verts").mapM vertOf }

def jdisp (d : Disp) : Json :=
  Json.mkObj [("power", jint d.power), ("pos", jv3 d.pos), ("elev", jstr d.elev), ("coll", jint d.coll),
    ("subdiv", jbool d.subdiv), ("allowed", jints d.allowed), ("verts", jarr (d.verts.map jvert))]

def uvOf (j : Json) : Except String UV := do
  match ← arr j with
  | [a, b, c, d, e] => pure ⟨← str a, ← str b, ← str c, ← str d, ← str e⟩
  | _ => throw "uv: need 5"
def juv (a : UV) : Json := jarr [jstr a.x, jstr a.y, jstr a.z, jstr a.offset, jstr a.scale]

def sideOf (j : Json) : Except String Side := do
  let (p0, p1, p2) ← match ← fArr j "planes" with
    | [a, b, c] => pure (← v3 a, ← v3 b, ← v3 c)
    | _ => throw "planes: need 3"
  let pj ← fld j "points"
  let points ← if pj.isNull then pure none else some <$> (← arr pj).mapM v3
  let dj ← fld j "disp"
  let disp ← if dj.isNull then pure none else some <$> dispOf dj
  pure { id := ← fInt j "id", p0, p1, p2, mat := ← fStr j "mat", uaxis := ← uvOf (← fld j "uaxis"),
         vaxis := ← uvOf (← fld j "vaxis"), rot := ← fStr j "rot", lightmap := ← fInt j "lightmap",
         smooth := ← fInt j "smooth", points, disp }

def jside (s : Side) : Json :=
  Json.mkObj [("id", jint s.id), ("planes", jarr [jv3 s.p0, jv3 s.p1, jv3 s.p2]), ("mat", jstr s.mat),
    ("uaxis", juv s.uaxis), ("vaxis", juv s.vaxis), ("rot", jstr s.rot), ("lightmap", jint s.lightmap),
    ("smooth", jint s.smooth),
    ("points", match s.points with
      | none => Json.null
      | some ps => jarr (ps.map jv3)),
    ("disp", match s.disp with
      | none => Json.null
      | some d => jdisp d)]

def solidOf (j : Json) : Except String Solid := do
  let gj ← fld j "group"
  let group ← if gj.isNull then pure none else some <$> gj.getInt?
  pure { id := ← fInt j "id", sides := ← (← fArr j "sides").mapM sideOf, visIds := ← ints (← fld j "vis_ids"),
         hidden := ← fBool j "hidden", group, visShown := ← fBool j "vis_shown", visAuto := ← fBool j "vis_auto",
         cordon := ← fBool j "cordon", color := ← fV3 j "color" }

def jsolid (s : Solid) : Json :=
  Json.mkObj [("id", jint s.id), ("sides", jarr (s.sides.map jside)), ("vis_ids", jints s.visIds),
    ("hidden", jbool s.hidden),
    ("group", match s.group with
      | none => Json.null
      | some g => jint g),
    ("vis_shown", jbool s.visShown), ("vis_auto", jbool s.visAuto), ("cordon", jbool s.cordon),
    ("color", jv3 s.color)]

def entOf (j : Json) : Except String Ent := do
  let keys ← (← fArr j "keys").mapM fun kv => do
    match ← arr kv with
    | [k, v] => pure (← str k, ← str v)
    | _ => throw "key: need 2"
  let fixup ← (← fArr j "fixup").mapM fun f => do
    match ← arr f with
    | [a, b, c] => pure ({ var := ← str a, value := ← str b, id := ← c.getInt? } : Fix)
    | _ => throw "fixup: need 3"
  pure { id := ← fInt j "id", keys, fixup, outputs := ← (← fArr j "outputs").mapM outOf,
         solids := ← (← fArr j "solids").mapM solidOf, hidden := ← fBool j "hidden",
         groups := ← ints (← fld j "groups"), visIds := ← ints (← fld j "vis_ids"),
         visShown := ← fBool j "vis_shown", visAuto := ← fBool j "vis_auto", color := ← fV3 j "color",
         logicalPos := ← fStr j "logical_pos", comments := ← fStr j "comments" }

def jent (e : Ent) : Json :=
  Json.mkObj [("id", jint e.id), ("keys", jarr (e.keys.map fun kv => jarr [jstr kv.1, jstr kv.2])),
    ("fixup", jarr (e.fixup.map fun f => jarr [jstr f.var, jstr f.value, jint f.id])),
    ("outputs", jarr (e.outputs.map jout)), ("solids", jarr (e.solids.map jsolid)), ("hidden", jbool e.hidden),
    ("groups", jints e.groups), ("vis_ids", jints e.visIds), ("vis_shown", jbool e.visShown),
    ("vis_auto", jbool e.visAuto), ("color", jv3 e.color), ("logical_pos", jstr e.logicalPos),
    ("comments", jstr e.comments)]

def axisOf (s : Str) : Nat := if s == ['x'] then 0 else if s == ['y'] then 1 else if s == ['z'] then 2 else 3
def jaxis (a : Nat) : Json := jstr (if a == 0 then ['x'] else if a == 1 then ['y'] else if a == 2 then ['z'] else ['?'])

def viewOf (j : Json) : Except String View := do
  if ← fBool j "3d" then pure (.v3 (← fV3 j "pos") (← fV3 j "ang"))
  else pure (.v2 (axisOf (← fStr j "axis")) (← fStr j "u") (← fStr j "v") (← fStr j "zoom"))

def jview : View → Json
  | .v3 p a => Json.mkObj [("3d", jbool true), ("pos", jv3 p), ("ang", jv3 a)]
  | .v2 ax u v z => Json.mkObj [("3d", jbool false), ("axis", jaxis ax), ("u", jstr u), ("v", jstr v), ("zoom", jstr z)]

def mapOf (j : Json) : Except String VMap := do
  let ij ← fld j "inst_vis"
  let instVis ← if ij.isNull then pure none else some <$> ij.getInt?
  let vj ← fld j "views"
  let views ← if vj.isNull then pure none else some <$> (← arr vj).mapM viewOf
  pure {
    hammerVer := ← fInt j "hammer_ver", hammerBuild := ← fInt j "hammer_build", mapVer := ← fInt j "map_ver",
    formatVer := ← fInt j "format_ver", prefab := ← fBool j "prefab", vis := ← (← fArr j "vis").mapM visOf,
    snap := ← fBool j "snap", grid := ← fBool j "grid", logic := ← fBool j "logic", spacing := ← fInt j "spacing",
    grid3d := ← fBool j "grid3d", instVis, views, spawn := ← entOf (← fld j "spawn"),
    groups := ← (← fArr j "groups").mapM fun g => do
      pure ({ id := ← fInt g "id", shown := ← fBool g "shown", auto := ← fBool g "auto", color := ← fV3 g "color" } : Group),
    ents := ← (← fArr j "ents").mapM entOf, activeCam := ← fInt j "active_cam",
    cams := ← (← fArr j "cams").mapM fun c => do pure ({ pos := ← fV3 c "pos", look := ← fV3 c "look" } : Cam),
    cordonOn := ← fBool j "cordon_on",
    cordons := ← (← fArr j "cordons").mapM fun c => do
      pure ({ name := ← fStr c "name", active := ← fBool c "active", min := ← fV3 c "min", max := ← fV3 c "max" } : Cordon),
    quickhide := ← fInt j "quickhide" }

def jmap (m : VMap) : Json :=
  Json.mkObj [
    ("hammer_ver", jint m.hammerVer), ("hammer_build", jint m.hammerBuild), ("map_ver", jint m.mapVer),
    ("format_ver", jint m.formatVer), ("prefab", jbool m.prefab), ("vis", jarr (m.vis.map jvis)),
    ("snap", jbool m.snap), ("grid", jbool m.grid), ("logic", jbool m.logic), ("spacing", jint m.spacing),
    ("grid3d", jbool m.grid3d),
    ("inst_vis", match m.instVis with
      | none => Json.null
      | some v => jint v),
    ("views", match m.views with
      | none => Json.null
      | some vs => jarr (vs.map jview)),
    ("spawn", jent m.spawn),
    ("groups", jarr (m.groups.map fun g =>
      Json.mkObj [("id", jint g.id), ("shown", jbool g.shown), ("auto", jbool g.auto), ("color", jv3 g.color)])),
    ("ents", jarr (m.ents.map jent)), ("active_cam", jint m.activeCam),
    ("cams", jarr (m.cams.map fun c => Json.mkObj [("pos", jv3 c.pos), ("look", jv3 c.look)])),
    ("cordon_on", jbool m.cordonOn),
    ("cordons", jarr (m.cordons.map fun c =>
      Json.mkObj [("name", jstr c.name), ("active", jbool c.active), ("min", jv3 c.min), ("max", jv3 c.max)])),
    ("quickhide", jint m.quickhide)]

def optsOf (j : Json) : Except String ExportOpts := do
  pure { minimal := ← fBool j "minimal", multiblend := ← fBool j "multiblend", incVersion := ← fBool j "inc" }

def jresult : Except Err VMap → Json
  | .ok m => Json.mkObj [("ok", jmap m)]
  | .error e => Json.mkObj [("err", Json.str (toString (repr e)))]

def handle (j : Json) : Except String Json := do
  let op ← j.getObjValAs? String "op"
  match op with
  | "export" =>
    let o ← optsOf (← fld j "opts")
    let m ← mapOf (← fld j "map")
    pure (Json.mkObj [("tree", jarr ((exportTree o m).map jkv))])
  | "text" =>
    let o ← optsOf (← fld j "opts")
    let m ← mapOf (← fld j "map")
    pure (Json.mkObj [("text", jstr (exportText o m))])
  | "parse" =>
    let p ← fBool j "preserve"
    let t ← (← fArr j "tree").mapM kvOf
    pure (jresult (parseTree p t))
  | "project" =>
    let o ← optsOf (← fld j "opts")
    let m ← mapOf (← fld j "map")
    pure (Json.mkObj [("map", jmap (project o m))])
  | "after" =>
    let o ← optsOf (← fld j "opts")
    let m ← mapOf (← fld j "map")
    pure (Json.mkObj [("map", jmap (afterExport o m))])
  | "roundtrip" =>
    let o ← optsOf (← fld j "opts")
    let m ← mapOf (← fld j "map")
    pure (jresult (parseTree true (exportTree o m)))
  | _ => throw s!"unknown op {op}"

end Drv06

def main : IO Unit := Wire.main Drv06.handle
