import Srctools.Wire
import Srctools.Model.B64
import Srctools.Model.C05
import Srctools.Model.C05Mat
import Srctools.Gen.Angles
import Srctools.Gen.Frozen
/-! Driver for C05 (exact binary64 model + Angle/Vec state machine). Doubles travel as their 64-bit patterns
(JSON integers), text as arrays of code points.

  {"op":"norm"|"mod1","x":[bits…]}                         → {"r":[bits…]}
  {"op":"fmt"|"fmt6","x":[bits…]}                         → {"r":[[cp…]…]}
  {"op":"parse","s":[[cp…]…]}                              → {"r":[bits|null…]}
  {"op":"pvs","s":[cp…]}                                   → {"r":[b,b,b]|null}
  {"op":"arith","f":"add|sub|mul|div|fmod|pymod","a":[…],"b":[…]} → {"r":[bits|null…]}
  {"op":"seq","ops":[[name,args…]…]}                       → {"obs":[…],"final":[[kind,a,b,c]…],"mfinal":[[frozen,[9 bits]]…]}
  {"op":"gen"}                                             → translator obligations as evaluated by the model
-/
open Lean B64 C05

def bitsOf (j : Json) : Except String Val := do
  let n ← j.getNat?
  pure (decode (UInt64.ofNat n))

def bitsList (j : Json) : Except String (List Val) := do
  let a ← j.getArr?
  a.toList.mapM bitsOf

def outBits (v : Val) : Json := Json.num (JsonNumber.fromNat (encode v).toNat)

def outOpt : Option Val → Json
  | some v => outBits v
  | none => Json.null

def kindCode : Kind → Nat
  | .ang => 0
  | .fang => 1
  | .vec => 2
  | .fvec => 3

def objJson (o : Obj Val) : Json :=
  Json.arr #[Json.num (JsonNumber.fromNat (kindCode o.kind)), outBits o.a, outBits o.b, outBits o.c]

def sites := Gen.Angles.sites

def strOf (o : Obj Val) : List Char := vecStr o.a o.b o.c

def optNat (j : Json) : Except String (Option Nat) :=
  if j.isNull then pure none else do pure (some (← j.getNat?))

def mobjJson (o : MObj Val) : Json :=
  Json.arr #[Json.bool o.frozen, Json.arr ([o.m.aa, o.m.ab, o.m.ac, o.m.ba, o.m.bb, o.m.bc, o.m.ca, o.m.cb, o.m.cc].map outBits).toArray]

def mat9Of (j : Json) : Except String (Mat9 Val) := do
  let l ← bitsList j
  match l with
  | [aa, ab, ac, ba, bb, bc, ca, cb, cc] => pure ⟨aa, ab, ac, ba, bb, bc, ca, cb, cc⟩
  | _ => throw "matrix: need 9 entries"

/-- one element of a "seq" request → (new state, observation) -/
def seqStep (st : MState Val) (j : Json) : Except String (MState Val × Json) := do
  let a ← j.getArr?
  let name ← (a[0]!).getStr?
  let nat (i : Nat) : Except String Nat := (a[i]!).getNat?
  let bool (i : Nat) : Except String Bool := (a[i]!).getBool?
  let val (i : Nat) : Except String Val := bitsOf (a[i]!)
  let fin (r : MState Val × Target) : Except String (MState Val × Json) :=
    match r.2 with
    | .none => pure (r.1, Json.null)
    | .obj i => pure (r.1, Json.arr #[Json.num (JsonNumber.fromNat i), objJson (r.1.objs[i]!)])
    | .mat i => pure (r.1, Json.arr #[Json.str "m", Json.num (JsonNumber.fromNat i), mobjJson (r.1.mats[i]!)])
  let gom (op : MOp Val) := fin (mstep b64 sites st op)
  let go (op : Op Val) := gom (.base op)
  match name with
  | "ctor" => go (.ctor (← bool 1) (← bool 2) (← val 3) (← val 4) (← val 5))
  | "ctorCopy" => go (.ctorCopy (← bool 1) (← nat 2))
  | "freeze" => go (.freeze (← nat 1))
  | "thaw" => go (.thaw (← nat 1))
  | "setProp" => go (.setProp (← nat 1) (← nat 2) (← val 3))
  | "setItem" => go (.setItem (← nat 1) (← nat 2) (← val 3))
  | "imul" => go (.imul (← nat 1) (← val 2))
  | "mulNew" => go (.mulNew (← nat 1) (← val 2))
  | "toAngle" => go (.toAngle (← optNat (a[1]!)) (← bool 2) (← bitsList (a[3]!)))
  | "transform" => go (.transform (← nat 1) (← bitsList (a[2]!)))
  | "vctor" => go (.vctor (← bool 1) (← val 2) (← val 3) (← val 4))
  | "vset" => go (.vset (← nat 1) (← nat 2) (← val 3))
  | "vscale" => go (.vscale (← nat 1) (← val 2) (← bool 3))
  | "vadd" => go (.vadd (← nat 1) (← nat 2) (← bool 3) (← bool 4))
  | "mctor" => gom (.mctor (← bool 1) (← mat9Of (a[2]!)))
  | "mcopy" => gom (.mcopy (← bool 1) (← nat 2))
  | "mtranspose" => gom (.mtranspose (← nat 1))
  | "mset" => gom (.mset (← nat 1) (← nat 2) (← nat 3) (← val 4))
  | "mmul" => gom (.mmul (← nat 1) (← nat 2) (← bool 3))
  | "mrow" => gom (.mrow (← nat 1) (← nat 2) (← val 3))
  | "vrot" => gom (.vrot (← nat 1) (← nat 2) (← bool 3))
  | "str" =>
    match st.objs[(← nat 1)]? with
    | some o => pure (st, Wire.codesOfStr (strOf o))
    | none => pure (st, Json.null)
  | "fromStr" =>
    -- ["fromStr", frozen, isAngle, [cp…], da, db, dc]
    let frozen ← bool 1
    let isAng ← bool 2
    let s ← Wire.strOfCodes (a[3]!)
    let (x, y, z) ← match parseVecStr s with
      | some t => pure t
      | none => do pure (← val 4, ← val 5, ← val 6)
    if isAng then go (.ctor frozen false x y z) else go (.vctor frozen x y z)
  | _ => throw s!"unknown seq op {name}"

def arith (f : String) (x y : Val) : Except String (Option Val) :=
  match f with
  | "add" => pure (some (add x y))
  | "sub" => pure (some (sub x y))
  | "mul" => pure (some (mul x y))
  | "div" => pure (div x y)
  | "fmod" => pure (some (fmod x y))
  | "pymod" => pure (if y.isZero then none else some (pyMod x y))
  | _ => throw s!"unknown arith {f}"

def G : FrozenFacts := ⟨Gen.Frozen.classes, Gen.Frozen.stores, Gen.Frozen.helperCalls, Gen.Frozen.returns⟩

def handle (j : Json) : Except String Json := do
  let op ← j.getObjValAs? String "op"
  match op with
  | "norm" => pure (Json.mkObj [("r", Json.arr ((← bitsList (← j.getObjVal? "x")).map (outBits ∘ norm360)).toArray)])
  | "mod1" => pure (Json.mkObj [("r", Json.arr ((← bitsList (← j.getObjVal? "x")).map (outBits ∘ mod360)).toArray)])
  | "fmt" => pure (Json.mkObj [("r", Json.arr ((← bitsList (← j.getObjVal? "x")).map (Wire.codesOfStr ∘ formatFloat)).toArray)])
  | "fmt6" => pure (Json.mkObj [("r", Json.arr ((← bitsList (← j.getObjVal? "x")).map (Wire.codesOfStr ∘ fmt6)).toArray)])
  | "parse" =>
    let ss ← (← (← j.getObjVal? "s").getArr?).toList.mapM Wire.strOfCodes
    pure (Json.mkObj [("r", Json.arr (ss.map (outOpt ∘ parseDec)).toArray)])
  | "pvs" =>
    let s ← Wire.strOfCodes (← j.getObjVal? "s")
    pure (Json.mkObj [("r", match parseVecStr s with
      | some (x, y, z) => Json.arr #[outBits x, outBits y, outBits z]
      | none => Json.null)])
  | "arith" =>
    let f ← j.getObjValAs? String "f"
    let xs ← bitsList (← j.getObjVal? "a")
    let ys ← bitsList (← j.getObjVal? "b")
    let rs ← (xs.zip ys).mapM fun (x, y) => arith f x y
    pure (Json.mkObj [("r", Json.arr (rs.map outOpt).toArray)])
  | "seq" =>
    let ops ← (← j.getObjVal? "ops").getArr?
    let mut st : MState Val := ⟨[], []⟩
    let mut obs : Array Json := #[]
    for o in ops do
      let (st', ob) ← seqStep st o
      st := st'
      obs := obs.push ob
    pure (Json.mkObj [("obs", Json.arr obs), ("final", Json.arr (st.objs.map objJson).toArray),
      ("mfinal", Json.arr (st.mats.map mobjJson).toArray)])
  | "gen" =>
    let bad := badAngleSites sites
    pure (Json.mkObj [
      ("anglesOK", Json.bool (anglesOK sites)),
      ("angleSlotsOK", Json.bool (angleSlotsOK Gen.Angles.slots)),
      ("modelSitesOK", Json.bool (modelSitesOK sites)),
      ("sitesCovered", Json.bool (sitesCovered sites)),
      ("badAngleSites", Json.arr (bad.map fun s => Json.str s!"{s.fn}:{s.line} slot {s.slot} {repr s.cls}").toArray),
      ("frozenOK", Json.bool G.frozenOK),
      ("copiesOK", Json.bool G.copiesOK),
      ("badStores", Json.arr (G.badStores.map fun s => Json.str s!"{s.cls}.{s.fn}:{s.line} {s.slot} {repr s.origin}").toArray)])
  | _ => throw s!"unknown op {op}"

def main : IO Unit := Wire.main handle
