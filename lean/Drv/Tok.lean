import Srctools.Wire
import Srctools.Model.Tok
import Srctools.Gen.Tok
/-! Driver for the tokenizer model (C02, C03, C01 …).
requests:
  {"op":"escape","ml":b,"s":[cp…]}                       → {"r":[cp…]}
  {"op":"run","opts":[b×7],"s":[cp…],"fold":[[cp,[cp…]]…]} → {"toks":[[kind,[cp…],line]…],"err":null|[id,arg,line]}
-/
open Lean Tok

def optsOf (j : Json) : Except String Opts := do
  let a ← j.getArr?
  if a.size != 7 then throw "opts: need 7 booleans"
  let b (i : Nat) : Except String Bool := (a[i]!).getBool?
  pure { stringBracket := ← b 0, stringParens := ← b 1, allowEscapes := ← b 2,
         allowStarComments := ← b 3, preserveComments := ← b 4, colonOperator := ← b 5,
         plusOperator := ← b 6 }

def foldOf (j : Json) : Except String (Char → List Char) := do
  let a ← j.getArr?
  let pairs ← a.toList.mapM fun p => do
    let q ← p.getArr?
    let k ← (q[0]!).getNat?
    let v ← Wire.strOfCodes (q[1]!)
    pure (Char.ofNat k, v)
  pure fun c => match pairs.find? (·.1 == c) with
    | some p => p.2
    | none => [c]

def runJson (r : Run) : Json :=
  Json.mkObj [
    ("toks", Json.arr (r.toks.map fun t =>
      Json.arr #[Json.num (JsonNumber.fromNat t.kind), Wire.codesOfStr t.value,
                 Json.num (JsonNumber.fromNat t.line)]).toArray),
    ("err", match r.err with
      | none => Json.null
      | some (e, l) => Wire.ofNatList [e.code.1, e.code.2, l])]

def handle (j : Json) : Except String Json := do
  let op ← j.getObjValAs? String "op"
  match op with
  | "escape" =>
    let ml ← j.getObjValAs? Bool "ml"
    let s ← Wire.strOfCodes (← j.getObjVal? "s")
    pure (Json.mkObj [("r", Wire.codesOfStr (escapeText Gen.Tok.tables ml s))])
  | "run" =>
    let o ← optsOf (← j.getObjVal? "opts")
    let s ← Wire.strOfCodes (← j.getObjVal? "s")
    let f ← foldOf (← j.getObjVal? "fold")
    pure (runJson (run Gen.Tok.tables o f s))
  | _ => throw s!"unknown op {op}"

def main : IO Unit := Wire.main handle
