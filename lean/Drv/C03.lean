import Srctools.Wire
import Srctools.Model.Tok
import Srctools.Model.TokC
import Srctools.Model.C03Push
import Srctools.Gen.Tok
/-! Driver for the concrete chunked tokenizer model TokC (property C03).
requests:
  {"op":"run","opts":[b×7],"chunks":[[cp…]…],"str":b,"fold":[[cp,[cp…]]…]}
      → {"toks":[[kind,[cp…],line]…],"err":null|[id,arg,line],"calls":n}  (drv_tok "run" shape + number of
        `_next_char` calls up to and including the one that returned EOF / raised)
      "str":true = `Tokenizer(str)` (the single chunk is `_cur_chunk`), false = `Tokenizer(iterable)`
  {"op":"exh","s":[cp…],"fold":[…]}
      → {"a":[run×128],"n":N,"cdiff":[[oi,ci,run]…],"calls":[n×128],"callsdiff":[[oi,ci,n]…]}
      for every option set oi (bit j of oi = option j) the abstract run TokA on s, and every TokC run
      that DIFFERS from it: ci < N enumerates the chunkings — ci = 2*m+e, the text is cut after
      position k iff bit k of m is set, e=1 inserts an empty chunk before every chunk and at the end;
      ci = N is `Tokenizer(str)`. "calls"[oi] = `_next_char` calls of the `Tokenizer(str)` run, "callsdiff" = every
      chunking whose call count differs from it.
  {"op":"ops","opts":[b×7],"chunks":[…],"str":b,"fold":[…],"ops":["call"|"peek"|"push"|["line",n] …]}
      → {"obs":[["call"|"peek",kind,[cp…],line] | ["push"] | ["line",n] | ["err",id,arg,line] …]}
      client operations on ONE fresh tokenizer through BaseTokenizer's push-back layer (Model/C03Push.lean);
      "push" pushes back the token last returned; stops at the first error.
-/
open Lean Tok

def optsOf (j : Json) : Except String Opts := do
  let a ← j.getArr?
  if a.size != 7 then throw "opts: need 7 booleans"
  let b (i : Nat) : Except String Bool := (a[i]!).getBool?
  pure { stringBracket := ← b 0, stringParens := ← b 1, allowEscapes := ← b 2,
         allowStarComments := ← b 3, preserveComments := ← b 4, colonOperator := ← b 5,
         plusOperator := ← b 6 }

def optsOfIndex (i : Nat) : Opts :=
  { stringBracket := i.testBit 0, stringParens := i.testBit 1, allowEscapes := i.testBit 2,
    allowStarComments := i.testBit 3, preserveComments := i.testBit 4, colonOperator := i.testBit 5,
    plusOperator := i.testBit 6 }

def foldOf (j : Json) : Except String (Char → List Char) := do
  let a ← j.getArr?
  let pairs ← a.toList.mapM fun p => do
    let q ← p.getArr?
    let k ← (q[0]!).getNat?
    let v ← Wire.strOfCodes (q[1]!)
    pure (Char.ofNat k, v)
  pure fun c => match pairs.find? (·.1 == c) with
    | some p => p.2
    | none => [c]

def runJson (r : Run) : Json :=
  Json.mkObj [
    ("toks", Json.arr (r.toks.map fun t =>
      Json.arr #[Json.num (JsonNumber.fromNat t.kind), Wire.codesOfStr t.value,
                 Json.num (JsonNumber.fromNat t.line)]).toArray),
    ("err", match r.err with
      | none => Json.null
      | some (e, l) => Wire.ofNatList [e.code.1, e.code.2, l])]

/-- Cut `s` after position `k` iff bit `k` of `m` is set (`pos` = index of the head of `s`). -/
def cutAt (m : Nat) : Nat → List Char → List Char → List (List Char)
  | _, [], cur => [cur.reverse]
  | pos, c :: cs, cur =>
    if m.testBit pos && !cs.isEmpty then (c :: cur).reverse :: cutAt m (pos + 1) cs []
    else cutAt m (pos + 1) cs (c :: cur)

def withEmpties (cs : List (List Char)) : List (List Char) :=
  cs.foldr (fun c acc => [] :: c :: acc) [[]]

def chunking (s : List Char) (ci : Nat) : List (List Char) :=
  let base := if s.isEmpty then [] else cutAt (ci / 2) 0 s []
  if ci % 2 == 1 then withEmpties base else base

def opOf (j : Json) : Except String TokC.Op :=
  match j with
  | .str "call" => pure .call
  | .str "peek" => pure .peek
  | .str "push" => pure .push
  | .arr #[.str "line", n] => do pure (.setLine (← n.getNat?))
  | _ => throw s!"bad op {j.compress}"

def obsJson : TokC.OpObs → Json
  | .tok op k v l => Json.arr #[Json.str (if op == 0 then "call" else "peek"), Json.num (JsonNumber.fromNat k),
      Wire.codesOfStr v, Json.num (JsonNumber.fromNat l)]
  | .push => Json.arr #[Json.str "push"]
  | .line n => Json.arr #[Json.str "line", Json.num (JsonNumber.fromNat n)]
  | .err e l => Json.arr #[Json.str "err", Json.num (JsonNumber.fromNat e.code.1),
      Json.num (JsonNumber.fromNat e.code.2), Json.num (JsonNumber.fromNat l)]

def srcOf (j : Json) : Except String TokC.Src := do
  let cj ← (← j.getObjVal? "chunks").getArr?
  let chunks ← cj.toList.mapM Wire.strOfCodes
  let isStr ← j.getObjValAs? Bool "str"
  if isStr then
    match chunks with
    | [c] => pure (TokC.Src.ofString c)
    | _ => throw "str: need exactly one chunk"
  else pure (TokC.Src.ofChunks chunks)

def handle (j : Json) : Except String Json := do
  let op ← j.getObjValAs? String "op"
  match op with
  | "run" =>
    let o ← optsOf (← j.getObjVal? "opts")
    let cj ← (← j.getObjVal? "chunks").getArr?
    let chunks ← cj.toList.mapM Wire.strOfCodes
    let isStr ← j.getObjValAs? Bool "str"
    let f ← foldOf (← j.getObjVal? "fold")
    let src ← if isStr then
        match chunks with
        | [c] => pure (TokC.Src.ofString c)
        | _ => throw "str: need exactly one chunk"
      else pure (TokC.Src.ofChunks chunks)
    pure ((runJson (TokC.run Gen.Tok.tables o f src)).setObjVal! "calls"
      (Json.num (JsonNumber.fromNat (TokC.runCalls Gen.Tok.tables o f src))))
  | "exh" =>
    let s ← Wire.strOfCodes (← j.getObjVal? "s")
    let f ← foldOf (← j.getObjVal? "fold")
    let n := 2 * 2 ^ (s.length - 1)
    let srcs : List (Nat × TokC.Src) :=
      (List.range n).map (fun ci => (ci, TokC.Src.ofChunks (chunking s ci))) ++ [(n, TokC.Src.ofString s)]
    let mut as : Array Json := #[]
    let mut diffs : Array Json := #[]
    let mut calls : Array Json := #[]
    let mut cdiffs : Array Json := #[]
    let num (k : Nat) : Json := Json.num (JsonNumber.fromNat k)
    for oi in [0:128] do
      let o := optsOfIndex oi
      let a := Tok.run Gen.Tok.tables o f s
      as := as.push (runJson a)
      let k0 := TokC.runCalls Gen.Tok.tables o f (TokC.Src.ofString s)
      calls := calls.push (num k0)
      for (ci, src) in srcs do
        let c := TokC.run Gen.Tok.tables o f src
        if c != a then
          diffs := diffs.push (Json.arr #[num oi, num ci, runJson c])
        let k := TokC.runCalls Gen.Tok.tables o f src
        if k != k0 then
          cdiffs := cdiffs.push (Json.arr #[num oi, num ci, num k])
    pure (Json.mkObj [("a", Json.arr as), ("n", num n), ("cdiff", Json.arr diffs),
                      ("calls", Json.arr calls), ("callsdiff", Json.arr cdiffs)])
  | "ops" =>
    let o ← optsOf (← j.getObjVal? "opts")
    let f ← foldOf (← j.getObjVal? "fold")
    let src ← srcOf j
    let ops ← (← (← j.getObjVal? "ops").getArr?).toList.mapM opOf
    let obs := TokC.runOps Gen.Tok.tables o f ops (TokC.PB.fresh { src := src }) none
    pure (Json.mkObj [("obs", Json.arr (obs.map obsJson).toArray)])
  | "chunking" =>   -- self-test of the enumeration shared with the harness
    let s ← Wire.strOfCodes (← j.getObjVal? "s")
    let ci ← j.getObjValAs? Nat "ci"
    pure (Json.arr ((chunking s ci).map Wire.codesOfStr).toArray)
  | _ => throw s!"unknown op {op}"

def main : IO Unit := Wire.main handle
