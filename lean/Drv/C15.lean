import Srctools.Wire
import Srctools.Model.C15
import Srctools.Model.C15File
import Srctools.Gen.Vtf
/-! Driver for the VTF model (C15). One JSON request per line.
  {"op":"tables"}                                   → formats + codec flags of Gen.Vtf and of the model
  {"op":"dec","fmt":i,"bytes":[..]}                 → {"px":[..]}            load_<fmt> on a data block
  {"op":"enc","fmt":i,"px":[..]}                    → {"bytes":[..]}         save_<fmt> on an RGBA array
  {"op":"mips","w":..,"h":..}                       → {"levels":[[w,h]..],"count":n,"reader":[[w,h]..]}
  {"op":"scale","filt","sw","sh","w","h","src"}     → {"dst":[..]} | {"err":5}
  {"op":"index","w","h","x","y"}                    → {"off":n|null}
  {"op":"keys","mc","fc","flags","minor","depth"}   → {"keys":[[f,d,m]..]}
  {"op":"save","vtf":{..},"minor","sheetver","asw"} → {"bytes":[..]} | {"err":code}
  {"op":"read","bytes":[..]}                        → view (+ decoded pixels) | {"err":code}
-/
open Lean C15

def nat (j : Json) (k : String) : Except String Nat := j.getObjValAs? Nat k
def nats (j : Json) (k : String) : Except String (List Nat) := do Wire.natList (← j.getObjVal? k)
def jn (n : Nat) : Json := Json.num (JsonNumber.fromNat n)
def jl (l : List Nat) : Json := Wire.ofNatList l

def optNats (j : Json) (k : String) : Except String (Option (List Nat)) :=
  match j.getObjVal? k with
  | .ok Json.null => pure none
  | .ok x => do pure (some (← Wire.natList x))
  | .error _ => pure none

def frameOf (j : Json) : Except String FrameM := do
  pure ⟨← nat j "w", ← nat j "h", ← optNats j "data", ← optNats j "file"⟩

def vtfOf (j : Json) : Except String Vtf := do
  let frames ← (← (← j.getObjVal? "frames").getArr?).toList.mapM fun e => do
    let k ← nats e "key"
    let fr ← frameOf e
    pure ((k.getD 0 0, k.getD 1 0, k.getD 2 0), fr)
  let res ← (← (← j.getObjVal? "res").getArr?).toList.mapM fun e => do
    pure (⟨← nats e "id", ← nat e "flags", ← e.getObjValAs? Bool "isbytes", ← nat e "ival",
           ← nats e "data"⟩ : Res)
  let sheet ← (← (← j.getObjVal? "sheet").getArr?).toList.mapM fun e => do
    let frs ← (← (← e.getObjVal? "frames").getArr?).toList.mapM fun f => do
      pure (⟨← nats f "dur", ← nats f "coords"⟩ : SheetFrame)
    pure (⟨← nat e "num", ← e.getObjValAs? Bool "clamp", ← nats e "duration", frs⟩ : SheetSeq)
  pure { width := ← nat j "width", height := ← nat j "height", depth := ← nat j "depth",
         verMinor := ← nat j "minor", flags := ← nat j "flags", frameCount := ← nat j "frame_count",
         firstFrame := ← nat j "first", refl := ← nats j "refl", bump := ← nats j "bump",
         fmt := ← nat j "fmt", lowFmt := ← nat j "low_fmt", mipCount := ← nat j "mip_count",
         low := ← frameOf (← j.getObjVal? "low"), frames, res, sheet }

def resJson (r : Res) : Json :=
  Json.mkObj [("id", jl r.id), ("flags", jn r.flags), ("isbytes", Json.bool r.isBytes),
              ("ival", jn r.ival), ("data", jl r.data)]

def sheetJson (s : SheetSeq) : Json :=
  Json.mkObj [("num", jn s.num), ("clamp", Json.bool s.clamp), ("duration", jl s.duration),
    ("frames", Json.arr (s.frames.map fun f =>
      Json.mkObj [("dur", jl f.dur), ("coords", jl f.coords)]).toArray)]

def errJson (e : Err) : Json := Json.mkObj [("err", jn e.code)]

def pxJson (r : Except Err (List Nat)) : Json :=
  match r with
  | .ok l => jl l
  | .error e => errJson e

def handle (j : Json) : Except String Json := do
  let op ← j.getObjValAs? String "op"
  match op with
  | "tables" =>
    let fm (fs : List FmtInfo) := Json.arr (fs.map fun f =>
      jl [f.ind, f.r, f.g, f.b, f.a, f.size, if f.compressed then 1 else 0]).toArray
    let cm (cs : List Codec) := Json.arr (cs.map fun c =>
      jl [c.ind, if c.hasLoad then 1 else 0, if c.hasSave then 1 else 0, c.load.length, c.save.length]).toArray
    pure (Json.mkObj [("gen_formats", fm Gen.Vtf.formats), ("model_formats", fm C15.formats),
                      ("gen_codecs", cm Gen.Vtf.codecs), ("model_codecs", cm C15.codecs),
                      ("codecs_equal", Json.bool (Gen.Vtf.codecs == C15.codecs)),
                      ("formats_equal", Json.bool (Gen.Vtf.formats == C15.formats))])
  | "dec" =>
    let c := codecOf (← nat j "fmt")
    pure (Json.mkObj [("px", jl (loadImg c (← nats j "bytes")))])
  | "enc" =>
    let c := codecOf (← nat j "fmt")
    pure (Json.mkObj [("bytes", jl (saveImg c (← nats j "px")))])
  | "mips" =>
    let w ← nat j "w"
    let h ← nat j "h"
    let lv := ctorLevels w h
    let pr (l : List (Nat × Nat)) := Json.arr (l.map fun p => jl [p.1, p.2]).toArray
    pure (Json.mkObj [("levels", pr lv), ("count", jn (ctorMipCount w h)),
                      ("reader", pr ((List.range lv.length).map (readerDims w h)))])
  | "scale" =>
    match scaleDown (← nat j "filt") (← nat j "sw") (← nat j "sh") (← nat j "w") (← nat j "h")
        (← nats j "src") with
    | some d => pure (Json.mkObj [("dst", jl d)])
    | none => pure (errJson .rescale)
  | "index" =>
    let x ← j.getObjValAs? Int "x"
    let y ← j.getObjValAs? Int "y"
    match frameIndex (← nat j "w") (← nat j "h") x y with
    | some o => pure (Json.mkObj [("off", jn o)])
    | none => pure (Json.mkObj [("off", Json.null)])
  | "keys" =>
    let ks := fileKeys (← nat j "mc") (← nat j "fc")
      (depthSeq (← nat j "flags") (← nat j "minor") (← nat j "depth"))
    pure (Json.mkObj [("keys", Json.arr (ks.map fun k => jl [k.1, k.2.1, k.2.2]).toArray)])
  | "save" =>
    let v ← vtfOf (← j.getObjVal? "vtf")
    let ops ← (match j.getObjVal? "ops" with
      | .ok o => do
        let arr ← o.getArr?
        arr.toList.mapM fun e => do
          let l ← Wire.natList e
          pure (l.getD 0 0, l.getD 1 0)
      | .error _ => pure [])
    let minor ← nat j "minor"
    let sv ← nat j "sheetver"
    let asw ← j.getObjValAs? Bool "asw"
    match (applyOps v ops >>= fun v' => saveFile v' minor sv asw) with
    | .ok bs => pure (Json.mkObj [("bytes", jl bs)])
    | .error e => pure (errJson e)
  | "history" =>
    let v ← vtfOf (← j.getObjVal? "vtf")
    let ops ← (← (← j.getObjVal? "ops").getArr?).toList.mapM fun e => do
      let o ← nat e "o"
      let a ← (match e.getObjVal? "a" with
        | .ok x => Wire.intList x
        | .error _ => pure [])
      let d ← (match e.getObjVal? "d" with
        | .ok x => Wire.natList x
        | .error _ => pure [])
      let n (i : Nat) : Nat := (a.getD i 0).toNat
      let key : Key := (n 0, n 1, n 2)
      pure (match o with
        | 0 => HOp.clearMips (n 0)
        | 1 => HOp.compute (n 0)
        | 2 => HOp.loadAll
        | 3 => HOp.save (n 0) (n 1) (n 2 != 0)
        | 4 => HOp.frameClear key
        | 5 => HOp.setData key d
        | 6 => HOp.setPixel key (a.getD 3 0) (a.getD 4 0) d
        | 7 => HOp.fill key d
        | 8 => HOp.setFmt (n 0)
        | 9 => HOp.setLowFmt (n 0)
        | 10 => HOp.copyFrame key (n 3, n 4, n 5)
        | 11 => HOp.touch key
        | _ => HOp.rescale key (n 3, n 4, n 5) (n 6))
    pure (Json.mkObj [("saves", Json.arr ((runHistory v ops).map fun r => match r with
      | .ok bs => Json.mkObj [("bytes", jl bs)]
      | .error e => errJson e).toArray)])
  | "fsize" =>
    pure (Json.mkObj [("n", jn (frameSize (fmtOf (← nat j "fmt")) (← nat j "w") (← nat j "h")))])
  | "rescale_ok" =>
    pure (Json.mkObj [("ok", Json.bool (rescaleOK (← nat j "w") (← nat j "h") (← nat j "lw") (← nat j "lh")))])
  | "read" =>
    let l ← nats j "bytes"
    match readFile l with
    | .error e => pure (errJson e)
    | .ok v =>
      let bs := l
      let frames := Json.arr (v.frames.map fun (k, w, h, off) =>
        Json.mkObj [("key", jl [k.1, k.2.1, k.2.2]), ("w", jn w), ("h", jn h),
                    ("off", if v.headerOnly then Json.null else jn off),
                    ("px", if v.headerOnly then jl (blank w h) else pxJson (decodeAt bs v.fmt w h off))]).toArray
      let low := if v.headerOnly ∧ v.lowFmt ≠ fmtNone then
          Json.mkObj [("off", Json.null), ("px", jl (blank v.lowW v.lowH))]
        else match v.lowOff with
        | some o => Json.mkObj [("off", jn o), ("px", pxJson (decodeAt bs v.lowFmt v.lowW v.lowH o))]
        | none => Json.null
      pure (Json.mkObj [
        ("minor", jn v.verMinor), ("header_size", jn v.headerSize), ("width", jn v.width),
        ("height", jn v.height), ("flags", jn v.flags), ("frame_count", jn v.frameCount),
        ("first", jn v.firstFrame), ("refl", jl v.refl), ("bump", jl v.bump), ("fmt", jn v.fmt),
        ("mip_count", jn v.mipCount), ("low_fmt", jn v.lowFmt), ("low_w", jn v.lowW),
        ("low_h", jn v.lowH), ("depth", jn v.depth),
        ("res", Json.arr (v.res.map resJson).toArray),
        ("sheet", Json.arr (v.sheet.map sheetJson).toArray),
        ("low", low), ("frames", frames)])
  | _ => throw s!"unknown op {op}"

def main : IO Unit := Wire.main handle
