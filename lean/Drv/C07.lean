import Srctools.Wire
import Srctools.Model.C07
import Srctools.Gen.C07
/-! Driver for the C07 model (VMF class/name indexes).
One request per line = one whole history on two maps:
  {"fold":[[cp,[cp…]]…], "queries":[[cp…]…], "ops":[wop…]}
reply:
  {"steps":[obs…]}   (obs 0 = initial state, then one per operation)
  obs = {"res":code, "maps":[dump,dump], "search":[[[id…]…],[[id…]…]]}
  dump = {"spawn":id,"ents":[id…],"objs":[[[k,v]…]…],"cls":[[key,id]…],"tgt":[[key|null,id]…]}
wop = {"m":0|1,"op":name,…}:
  construct{kvs} add{e} adds{es} create{cls,kw} remove{e} set{e,k,v} del{e,ks} pop{e,k} popitem{e}
  clear{e} update{e,kvs} unique{e,pre} copy{e} copyx{e} parse{spawn,ents}
  setdefault{e,k,v} ior{e,kvs} setkeys{e,kvs} deleach{e}
  iterc{key,act} itert{key|null,act}     act = {"a":set|del|pop|remove|clear|create, …}
The repairs the model assumes are `Gen.C07.current` (extracted from vmf.py); a request may override
them with "fix":[9 booleans] (used to replay histories against the as-found model).
-/
open Lean C07

def nameOf (j : Json) : Except String C07.Name := Wire.strOfCodes j

def kvsOf (j : Json) : Except String KVs := do
  let a ← j.getArr?
  a.toList.mapM fun p => do
    let q ← p.getArr?
    if q.size != 2 then throw "kv: need [k,v]"
    pure (← nameOf q[0]!, ← nameOf q[1]!)

def namesOf (j : Json) : Except String (List C07.Name) := do
  let a ← j.getArr?
  a.toList.mapM nameOf

def optNameOf (j : Json) : Except String (Option C07.Name) :=
  if j.isNull then pure none else do pure (some (← nameOf j))

def foldOf (j : Json) : Except String (C07.Name → C07.Name) := do
  let a ← j.getArr?
  let pairs ← a.toList.mapM fun p => do
    let q ← p.getArr?
    let k ← (q[0]!).getNat?
    let v ← Wire.strOfCodes (q[1]!)
    pure (Char.ofNat k, v)
  let fc (c : Char) : List Char := match pairs.find? (·.1 == c) with
    | some p => p.2
    | none => [lowerChar c]
  pure fun s => s.flatMap fc

def actOf (j : Json) : Except String Act := do
  let a ← j.getObjValAs? String "a"
  match a with
  | "set" => pure (.set (← nameOf (← j.getObjVal? "k")) (← nameOf (← j.getObjVal? "v")))
  | "del" => pure (.del (← nameOf (← j.getObjVal? "k")))
  | "pop" => pure (.pop (← nameOf (← j.getObjVal? "k")))
  | "remove" => pure .remove
  | "clear" => pure .clear
  | "create" => pure (.create (← nameOf (← j.getObjVal? "cls")) (← kvsOf (← j.getObjVal? "kw")))
  | _ => throw s!"unknown act {a}"

def wopOf (j : Json) : Except String WOp := do
  let m := (← j.getObjValAs? Nat "m") != 0
  let op ← j.getObjValAs? String "op"
  let e : Except String Nat := j.getObjValAs? Nat "e"
  let nm (f : String) : Except String C07.Name := do nameOf (← j.getObjVal? f)
  match op with
  | "construct" => pure (.on m (.construct (← kvsOf (← j.getObjVal? "kvs"))))
  | "add" => pure (.on m (.addEnt (← e)))
  | "adds" => pure (.on m (.addEnts (← Wire.natList (← j.getObjVal? "es"))))
  | "create" => pure (.on m (.createEnt (← nm "cls") (← kvsOf (← j.getObjVal? "kw"))))
  | "remove" => pure (.on m (.removeEnt (← e)))
  | "set" => pure (.on m (.setKey (← e) (← nm "k") (← nm "v")))
  | "del" => pure (.on m (.delKeys (← e) (← namesOf (← j.getObjVal? "ks"))))
  | "pop" => pure (.on m (.popKey (← e) (← nm "k")))
  | "popitem" => pure (.on m (.popItem (← e)))
  | "clear" => pure (.on m (.clear (← e)))
  | "update" => pure (.on m (.update (← e) (← kvsOf (← j.getObjVal? "kvs"))))
  | "unique" => pure (.on m (.makeUnique (← e) (← nm "pre")))
  | "copy" => pure (.on m (.copy (← e)))
  | "copyx" => pure (.copyAcross m (← e))
  | "parse" =>
    let es ← (← j.getObjVal? "ents").getArr?
    pure (.parse m (← kvsOf (← j.getObjVal? "spawn")) (← es.toList.mapM kvsOf))
  | "setdefault" => pure (.on m (.setdefault (← e) (← nm "k") (← nm "v")))
  | "ior" => pure (.on m (.ior (← e) (← kvsOf (← j.getObjVal? "kvs"))))
  | "setkeys" => pure (.on m (.assignKeys (← e) (← kvsOf (← j.getObjVal? "kvs"))))
  | "deleach" => pure (.on m (.delEach (← e)))
  | "iterc" => pure (.on m (.iterClass (← nm "key") (← actOf (← j.getObjVal? "act"))))
  | "itert" => pure (.on m (.iterTarget (← optNameOf (← j.getObjVal? "key")) (← actOf (← j.getObjVal? "act"))))
  | _ => throw s!"unknown op {op}"

def natJ (n : Nat) : Json := Json.num (JsonNumber.fromNat n)

def dumpSt (s : St) : Json :=
  Json.mkObj [
    ("spawn", natJ s.spawn),
    ("ents", Wire.ofNatList s.ents),
    ("objs", Json.arr (s.objs.map fun ks =>
      Json.arr (ks.map fun p => Json.arr #[Wire.codesOfStr p.1, Wire.codesOfStr p.2]).toArray).toArray),
    ("cls", Json.arr (s.byClass.map fun p => Json.arr #[Wire.codesOfStr p.1, natJ p.2]).toArray),
    ("tgt", Json.arr (s.byTarget.map fun p =>
      Json.arr #[(match p.1 with | some k => Wire.codesOfStr k | none => Json.null), natJ p.2]).toArray)]

def obs (fold : C07.Name → C07.Name) (qs : List C07.Name) (w : World) (r : Res) : Json :=
  Json.mkObj [
    ("res", natJ r.code),
    ("maps", Json.arr #[dumpSt w.a, dumpSt w.b]),
    ("search", Json.arr #[
      Json.arr (qs.map fun q => Wire.ofNatList (search fold w.a q)).toArray,
      Json.arr (qs.map fun q => Wire.ofNatList (search fold w.b q)).toArray])]

def fixOf (j : Json) : Except String Fix := do
  let a ← j.getArr?
  if a.size != 9 then throw "fix: need 9 booleans"
  let b (i : Nat) : Except String Bool := (a[i]!).getBool?
  pure ⟨← b 0, ← b 1, ← b 2, ← b 3, ← b 4, ← b 5, ← b 6, ← b 7, ← b 8⟩

def handle (j : Json) : Except String Json := do
  let fold ← foldOf (← j.getObjVal? "fold")
  let qs ← namesOf (← j.getObjVal? "queries")
  let ops ← (← (← j.getObjVal? "ops").getArr?).toList.mapM wopOf
  let fx ← match j.getObjVal? "fix" with
    | .ok f => fixOf f
    | .error _ => pure Gen.C07.current
  let w0 := winit fx fold
  let (_, out) := ops.foldl (init := (w0, [obs fold qs w0 .ok])) fun (w, acc) op =>
    let r := wstep fx fold w op
    (r.1, obs fold qs r.1 r.2 :: acc)
  pure (Json.mkObj [("steps", Json.arr out.reverse.toArray)])

def main : IO Unit := Wire.main handle
