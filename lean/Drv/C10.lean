import Srctools.Wire
import Srctools.Model.C10
import Srctools.Gen.Bsp
/-! Driver for the C10 model (lazily parsed lump views + save) over the tables of `Gen.Bsp`.

requests:
  {"op":"tables"}
      → the extracted tables and the value of every decidable well-formedness predicate
  {"op":"run","rd":null|[[view…]…],"wd":null|[[view…]…],"ops":[int…]}
      ops: v ≥ 0 = read attribute of view v; -1 = save.  `rd`/`wd` (per view, optional) replace the
      static reader/writer view dependencies by the ones observed on a concrete file.
      → {"steps":[obs…]} one observation per op:
        {"parsed":[[view,quality]…],"clr":[lump…],"raw":[[lump,code]…],"pending":[[b,e]…],"lost":[[b,e]…],"stuck":bool}
      provenance codes of raw lumps: 1 original bytes, 0 emptied by a parse, 2 rebuilt from a value
      parsed from intact data, 3 rebuilt from a value parsed from emptied data (= data loss);
      quality of a parsed value: 1 parsed from intact data, 0 parsed from emptied data.
-/
open Lean C10

def provCodec (T : Tables) : Codec Nat Nat where
  empty := 0
  dflt := 0
  rd := fun v raw env =>
    if (T.view v).clears.all (fun l => raw l == 1 || raw l == 2) && (T.view v).rdeps.all (fun w => env w == 1)
    then 1 else 0
  wr := fun v x env raw l =>
    if (T.view v).clears.contains l then
      (if x == 1 && (T.view v).wdeps.all (fun w => env w == 1) then 2 else 3)
    else raw l

def natLists (j : Json) : Except String (List (List Nat)) := do
  let a ← j.getArr?
  a.toList.mapM Wire.natList

def withDeps (T : Tables) (rd wd : Option (List (List Nat))) : Tables :=
  { T with views := (List.range T.n).map fun v =>
      let d := T.view v
      { d with rdeps := match rd with | some r => r.getD v [] | none => d.rdeps
               wdeps := match wd with | some w => w.getD v [] | none => d.wdeps } }

def pairsJson (l : List (Nat × Nat)) : Json :=
  Json.arr (l.map fun p => Wire.ofNatList [p.1, p.2]).toArray

def lumpIds (T : Tables) : List Nat := T.lumpNames.map (·.1)

def obs (T : Tables) (s : St Nat Nat) : Json :=
  Json.mkObj [
    ("parsed", pairsJson ((List.range T.n).filterMap fun v => (s.parsed v).map fun q => (v, q))),
    ("clr", Wire.ofNatList ((lumpIds T).filter fun l => s.clr l)),
    ("raw", pairsJson ((lumpIds T).map fun l => (l, s.raw l))),
    ("pending", pairsJson s.pending),
    ("lost", pairsJson s.lost),
    ("stuck", Json.bool s.stuck)]

def runOps (T : Tables) (ops : List Int) : List Json :=
  let C := provCodec T
  let rec go (s : St Nat Nat) : List Int → List Json
    | [] => []
    | o :: rest =>
      let s' := if o < 0 then save T C s else access T C T.fuel o.toNat s
      obs T s' :: go s' rest
  go (init fun _ => 1) ops

def viewJson (d : View) : Json :=
  Json.mkObj [("name", Json.str d.name), ("main", Json.num (JsonNumber.fromNat d.main)),
    ("clears", Wire.ofNatList d.clears), ("rdeps", Wire.ofNatList d.rdeps), ("wdeps", Wire.ofNatList d.wdeps),
    ("rraw", Wire.ofNatList d.rraw), ("wraw", Wire.ofNatList d.wraw),
    ("borrows", Wire.ofNatList d.borrows), ("restores", Wire.ofNatList d.restores)]

def tablesJson (T : Tables) : Json :=
  Json.mkObj [
    ("views", Json.arr (T.views.map viewJson).toArray),
    ("order", Wire.ofNatList T.order),
    ("writeOrder", Wire.ofNatList T.writeOrder),
    ("lumpNames", Json.arr (T.lumpNames.map fun p =>
        Json.arr #[Json.num (JsonNumber.fromNat p.1), Json.str p.2]).toArray),
    ("readerStores", pairsJson Gen.Bsp.readerStores),
    ("gameLumpIds", Json.arr (Gen.Bsp.gameLumpIds.map Json.str).toArray),
    ("pos", Wire.ofNatList ((List.range T.n).map T.pos)),
    ("WF", Json.bool (WF T)), ("WritesAll", Json.bool (WritesAll T)), ("Topo", Json.bool (Topo T)),
    ("RAcyclic", Json.bool (RAcyclic T)), ("Frame", Json.bool (Frame T)), ("BorrowOK", Json.bool (BorrowOK T)),
    ("topoViolations", pairsJson (topoViolations T)),
    ("reachAtSave", Json.arr ((List.range T.n).map fun v => Wire.ofNatList (reachAtSave T v)).toArray)]

def optLists (j : Json) (k : String) : Except String (Option (List (List Nat))) :=
  match j.getObjVal? k with
  | .ok Json.null => pure none
  | .ok v => do pure (some (← natLists v))
  | .error _ => pure none

def handle (j : Json) : Except String Json := do
  let op ← j.getObjValAs? String "op"
  match op with
  | "tables" =>
    let T := withDeps Gen.Bsp.tables (← optLists j "rd") (← optLists j "wd")
    pure (tablesJson T)
  | "run" =>
    let T := withDeps Gen.Bsp.tables (← optLists j "rd") (← optLists j "wd")
    let ops ← Wire.intList (← j.getObjVal? "ops")
    pure (Json.mkObj [("steps", Json.arr (runOps T ops).toArray)])
  | _ => throw s!"unknown op {op}"

def main : IO Unit := Wire.main handle
