import Srctools.Wire
import Srctools.Model.C10
import Srctools.Model.C10Bytes
import Srctools.Gen.Bsp
/-! Driver for the C10 model (lazily parsed lump views + save) over the tables of `Gen.Bsp`.

requests:
  {"op":"tables"}
      → the extracted tables and the value of every decidable well-formedness predicate
  {"op":"run","rd":null|[[view…]…],"wd":null|[[view…]…],"ops":[int…]}
      ops: v ≥ 0 = read attribute of view v; -1 = save.  `rd`/`wd` (per view, optional) replace the
      static reader/writer view dependencies by the ones observed on a concrete file.
      → {"steps":[obs…]} one observation per op:
        {"parsed":[[view,quality]…],"clr":[lump…],"raw":[[lump,code]…],"pending":[[b,e]…],"lost":[[b,e]…],"stuck":bool}
      provenance codes of raw lumps: 1 original bytes, 0 emptied by a parse, 2 rebuilt from a value
      parsed from intact data, 3 rebuilt from a value parsed from emptied data (= data loss);
      quality of a parsed value: 1 parsed from intact data, 0 parsed from emptied data.
-/
open Lean C10

def provCodec (T : Tables) : Codec Nat Nat where
  empty := 0
  dflt := 0
  rd := fun v raw env =>
    if (T.view v).clears.all (fun l => raw l == 1 || raw l == 2) && (T.view v).rdeps.all (fun w => env w == 1)
    then 1 else 0
  wr := fun v x env raw l =>
    if (T.view v).clears.contains l then
      (if x == 1 && (T.view v).wdeps.all (fun w => env w == 1) then 2 else 3)
    else raw l

def natLists (j : Json) : Except String (List (List Nat)) := do
  let a ← j.getArr?
  a.toList.mapM Wire.natList

def withDeps (T : Tables) (rd wd : Option (List (List Nat))) : Tables :=
  { T with views := (List.range T.n).map fun v =>
      let d := T.view v
      { d with rdeps := match rd with | some r => r.getD v [] | none => d.rdeps
               wdeps := match wd with | some w => w.getD v [] | none => d.wdeps } }

def pairsJson (l : List (Nat × Nat)) : Json :=
  Json.arr (l.map fun p => Wire.ofNatList [p.1, p.2]).toArray

def lumpIds (T : Tables) : List Nat := T.lumpNames.map (·.1)

def obs (T : Tables) (s : St Nat Nat) : Json :=
  Json.mkObj [
    ("parsed", pairsJson ((List.range T.n).filterMap fun v => (s.parsed v).map fun q => (v, q))),
    ("clr", Wire.ofNatList ((lumpIds T).filter fun l => s.clr l)),
    ("raw", pairsJson ((lumpIds T).map fun l => (l, s.raw l))),
    ("pending", pairsJson s.pending),
    ("lost", pairsJson s.lost),
    ("stuck", Json.bool s.stuck)]

def runOps (T : Tables) (ops : List Int) : List Json :=
  let C := provCodec T
  let rec go (s : St Nat Nat) : List Int → List Json
    | [] => []
    | o :: rest =>
      let s' := if o < 0 then save T C s else access T C T.fuel o.toNat s
      obs T s' :: go s' rest
  go (init fun _ => 1) ops

def viewJson (d : View) : Json :=
  Json.mkObj [("name", Json.str d.name), ("main", Json.num (JsonNumber.fromNat d.main)),
    ("clears", Wire.ofNatList d.clears), ("rdeps", Wire.ofNatList d.rdeps), ("wdeps", Wire.ofNatList d.wdeps),
    ("rraw", Wire.ofNatList d.rraw), ("wraw", Wire.ofNatList d.wraw),
    ("borrows", Wire.ofNatList d.borrows), ("restores", Wire.ofNatList d.restores)]

def tablesJson (T : Tables) : Json :=
  Json.mkObj [
    ("views", Json.arr (T.views.map viewJson).toArray),
    ("order", Wire.ofNatList T.order),
    ("writeOrder", Wire.ofNatList T.writeOrder),
    ("lumpNames", Json.arr (T.lumpNames.map fun p =>
        Json.arr #[Json.num (JsonNumber.fromNat p.1), Json.str p.2]).toArray),
    ("readerStores", pairsJson Gen.Bsp.readerStores),
    ("gameLumpIds", Json.arr (Gen.Bsp.gameLumpIds.map Json.str).toArray),
    ("pos", Wire.ofNatList ((List.range T.n).map T.pos)),
    ("WF", Json.bool (WF T)), ("WritesAll", Json.bool (WritesAll T)), ("Topo", Json.bool (Topo T)),
    ("RAcyclic", Json.bool (RAcyclic T)), ("Frame", Json.bool (Frame T)), ("BorrowOK", Json.bool (BorrowOK T)), ("LiveLoop", Json.bool (LiveLoop T)),
    ("topoViolations", pairsJson (topoViolations T)),
    ("reachAtSave", Json.arr ((List.range T.n).map fun v => Wire.ofNatList (reachAtSave T v)).toArray)]

def optLists (j : Json) (k : String) : Except String (Option (List (List Nat))) :=
  match j.getObjVal? k with
  | .ok Json.null => pure none
  | .ok v => do pure (some (← natLists v))
  | .error _ => pure none

/-! byte layer: {"op":"layout","l4d2":b,"bsp":{…},"lzma":[[data,compressed]…]} → {"file":[byte…]}
              {"op":"readfile","l4d2":b,"file":[byte…],"lzma":[…]} → {"bsp":{…},"looksL4D2":b}
bsp = {"magic":n,"version":n,"revision":n,"lumps":[[version,[byte…],compressed]…64],"game":[[id,flags,version,[byte…]]…]} -/
open C10.Bytes in
def tableLzma (pairs : List (List Nat × List Nat)) : Lzma where
  comp := fun b => match pairs.find? (fun p => p.1 == b) with | some p => p.2 | none => b
  decomp := fun c => match pairs.find? (fun p => p.2 == c) with | some p => p.1 | none => c

open C10.Bytes in
def bspOfJson (j : Json) : Except String Bsp := do
  let lumps ← (← (← j.getObjVal? "lumps").getArr?).toList.mapM fun l => do
    let a ← l.getArr?
    pure ({ version := ← (a[0]!).getNat?, data := ← Wire.natList (a[1]!), compressed := ← (a[2]!).getBool? } : Lump)
  let game ← (← (← j.getObjVal? "game").getArr?).toList.mapM fun g => do
    let a ← g.getArr?
    pure ({ id := ← (a[0]!).getNat?, flags := ← (a[1]!).getNat?, version := ← (a[2]!).getNat?,
            data := ← Wire.natList (a[3]!) } : GLump)
  pure { magic := ← j.getObjValAs? Nat "magic", version := ← j.getObjValAs? Nat "version",
         revision := ← j.getObjValAs? Nat "revision", lumps := lumps, game := game }

open C10.Bytes in
def bspToJson (x : Bsp) : Json :=
  let n (k : Nat) := Json.num (JsonNumber.fromNat k)
  Json.mkObj [("magic", n x.magic), ("version", n x.version), ("revision", n x.revision),
    ("lumps", Json.arr (x.lumps.map fun l => Json.arr #[n l.version, Wire.ofNatList l.data, Json.bool l.compressed]).toArray),
    ("game", Json.arr (x.game.map fun g => Json.arr #[n g.id, n g.flags, n g.version, Wire.ofNatList g.data]).toArray)]

def lzmaOfJson (j : Json) : Except String C10.Bytes.Lzma := do
  let ps ← (← (← j.getObjVal? "lzma").getArr?).toList.mapM fun p => do
    let a ← p.getArr?
    pure (← Wire.natList (a[0]!), ← Wire.natList (a[1]!))
  pure (tableLzma ps)

def handle (j : Json) : Except String Json := do
  let op ← j.getObjValAs? String "op"
  match op with
  | "tables" =>
    let T := withDeps Gen.Bsp.tables (← optLists j "rd") (← optLists j "wd")
    pure (tablesJson T)
  | "run" =>
    let T := withDeps Gen.Bsp.tables (← optLists j "rd") (← optLists j "wd")
    let ops ← Wire.intList (← j.getObjVal? "ops")
    pure (Json.mkObj [("steps", Json.arr (runOps T ops).toArray)])
  | "layout" =>
    let Z ← lzmaOfJson j
    let x ← bspOfJson (← j.getObjVal? "bsp")
    let l4d2 ← j.getObjValAs? Bool "l4d2"
    pure (Json.mkObj [("file", Wire.ofNatList (C10.Bytes.writeFile Z Gen.Bsp.tables.writeOrder l4d2 x))])
  | "readfile" =>
    let Z ← lzmaOfJson j
    let f ← Wire.natList (← j.getObjVal? "file")
    let l4d2 ← j.getObjValAs? Bool "l4d2"
    pure (Json.mkObj [("bsp", bspToJson (C10.Bytes.readFile Z f l4d2)),
                      ("looksL4D2", Json.bool (C10.Bytes.looksL4D2 f))])
  | _ => throw s!"unknown op {op}"

def main : IO Unit := Wire.main handle
