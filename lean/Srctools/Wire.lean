import Lean.Data.Json
/-! Line protocol shared by all drivers: one JSON value per line in, one per line out.
Text is transmitted as arrays of code points so that every Unicode scalar value survives. -/
open Lean

namespace Wire

def strOfCodes (j : Json) : Except String (List Char) := do
  let arr ← j.getArr?
  arr.toList.mapM fun x => do
    let n ← x.getNat?
    pure (Char.ofNat n)

def codesOfStr (s : List Char) : Json :=
  Json.arr (s.map fun c => Json.num (JsonNumber.fromNat c.toNat)).toArray

def natList (j : Json) : Except String (List Nat) := do
  let arr ← j.getArr?
  arr.toList.mapM fun x => x.getNat?

def intList (j : Json) : Except String (List Int) := do
  let arr ← j.getArr?
  arr.toList.mapM fun x => x.getInt?

def ofNatList (l : List Nat) : Json := Json.arr (l.map fun n => Json.num (JsonNumber.fromNat n)).toArray
def ofIntList (l : List Int) : Json := Json.arr (l.map fun n => Json.num (JsonNumber.fromInt n)).toArray

partial def loop (h : IO.FS.Stream) (out : IO.FS.Stream) (handle : Json → Except String Json) : IO Unit := do
  let line ← h.getLine
  if line.isEmpty then return ()
  let reply : Json :=
    match Json.parse line with
    | .error e => Json.mkObj [("error", Json.str s!"bad-json: {e}")]
    | .ok j => match handle j with
      | .ok r => r
      | .error e => Json.mkObj [("error", Json.str e)]
  out.putStrLn reply.compress
  loop h out handle

def main (handle : Json → Except String Json) : IO Unit := do
  let i ← IO.getStdin
  let o ← IO.getStdout
  loop i o handle
  o.flush

end Wire
