import Srctools.Model.C14
import Srctools.Gen.Dmx
/-!
# C14 — DMX export/parse preserves the element graph (binary and KeyValues2), KV1 bridge
Property theorems only (model: Model/C14.lean, tables: Gen/Dmx.lean).
-/
namespace C14

/-- OBLIGATION on the current source: every one of the 14 × 2 (type, scalar/array) wire codes fits a
byte and is decoded back to the same (type, shape) by the comparison `parse_bin` uses now. -/
theorem C14_gen_codes : codesOK Gen.Dmx.tables = true := by decide

/-- **Type codes.** For every table satisfying the decidable predicate, decoding the encoded type
byte gives back the type and the scalar/array flag. -/
theorem C14_codes (T : Tables) (h : codesOK T = true) (t : VT) (arr : Bool) :
    decodeType T (encodeType T t arr) = some (t, arr) ∧ encodeType T t arr < 256 := by
  simp only [codesOK, VT.all, List.all_cons, List.all_nil, Bool.and_true, Bool.and_eq_true,
    decide_eq_true_eq, beq_iff_eq] at h
  cases t <;> cases arr <;> simp_all

end C14
