import Srctools.Proofs.C14
import Srctools.Proofs.C14Kv1
import Srctools.Proofs.C14Iso
import Srctools.Gen.Dmx
import Srctools.Model.C14Kv2
import Srctools.Proofs.C14Kv2Main
import Srctools.Proofs.C14Kv2Order
import Srctools.Proofs.C14Kv2Iso
import Srctools.Proofs.C14Text
import Srctools.Props.C02
/-!
# C14 — DMX export/parse preserves the element graph (binary and KeyValues2), KV1 bridge

Property theorems only.  Model: `Model/C14.lean` (binary codec of `export_binary` / `parse_bin` on
indexed graphs, string tables, type codes, `from_kv1` / `to_kv1`), instantiated with the tables
regenerated from `/repo/src/srctools/dmx.py` (`Gen/Dmx.lean`).  The general theorems hold for every
table satisfying the decidable predicates `codesOK` / `layoutOK`; the `C14_gen_*` obligations
re-check those predicates on the tables the source has *now*.
-/
namespace C14

/-! ## obligations on the current source -/

/-- OBLIGATION: every one of the 14 × 2 (type, scalar/array) wire codes fits a byte and is decoded
back to the same (type, shape) by the comparison `parse_bin` uses now (`>` after the fix; with `>=`
scalar MATRIX = 14 = ARRAY_OFFSET is taken for an array of type 0 and this fails). -/
theorem C14_gen_codes : codesOK Gen.Dmx.tables = true := by decide

/-- OBLIGATION: `parse_bin` and `export_binary` use the same string-table widths for every
version 0–5, each version has either no table or 2/4-byte count and index, and what is written
after a stub marker is what is read after it. -/
theorem C14_gen_layout : layoutOK Gen.Dmx.tables = true := by decide

/-- OBLIGATION: `SIZES` equals the sizes of the struct formats. -/
theorem C14_gen_sizes : sizesOK Gen.Dmx.tables = true := by decide

/-- OBLIGATION: the exporter writes the UUID text after the `-2` stub marker. -/
theorem C14_gen_stub : Gen.Dmx.tables.stubWrite = .uuidText := by decide

/-! ## (i) type codes -/

/-- **Type codes.** For every table satisfying `codesOK`, decoding the encoded type byte gives back
the type and the scalar/array flag, for all 14 types × {scalar, array}. -/
theorem C14_codes (T : Tables) (h : codesOK T = true) (t : VT) (arr : Bool) :
    decodeType T (encodeType T t arr) = some (t, arr) ∧ encodeType T t arr < 256 :=
  codesOK_spec T h t arr

theorem C14_codes_current (t : VT) (arr : Bool) :
    decodeType Gen.Dmx.tables (encodeType Gen.Dmx.tables t arr) = some (t, arr) :=
  (C14_codes _ C14_gen_codes t arr).1

/-- The defect that was in the source: with `>=` at the decode site the scalar MATRIX code is not
decodable (`IND_TO_VALTYPE[0]` → KeyError). -/
theorem C14_codes_ge_defect :
    decodeType { Gen.Dmx.tables with decodeCmp := .ge }
      (encodeType { Gen.Dmx.tables with decodeCmp := .ge } .matrix false) = none := by decide

/-! ## (ii) string table -/

/-- **String table.** A string that was collected is in the table; when the table fits the index
width of the version (`fitsWidth`), the written index is read back and looked up to the same string. -/
theorem C14_strtab (iw : Nat) (hw : 0 < iw) (ss : List Bytes) (s : Bytes) (hs : s ∈ ss)
    (hf : fitsWidth iw ((mkTable ss).length + 1) = true) (rest : Bytes) :
    getStrRef iw (mkTable ss) (putStrRef iw (mkTable ss) s ++ rest) = .ok (s, rest) :=
  getStrRef_putStrRef iw hw (mkTable ss) s ((mem_mkTable s ss).mpr hs) hf rest

/-- The table itself (count + NUL-terminated strings) is read back. -/
theorem C14_strtab_table (cw : Nat) (hw : 0 < cw) (uni : Bool) (tbl : List Bytes)
    (hf : fitsWidth cw (tbl.length + 1) = true)
    (hs : ∀ s ∈ tbl, s.contains 0 = false ∧ decodable uni s = true) (rest : Bytes) :
    getTable cw uni (putTable cw tbl ++ rest) = .ok (tbl, rest) :=
  getTable_putTable cw hw uni tbl hf hs rest

/-! ## (iii) sub-codecs -/

/-- little-endian two's complement integers of any width. -/
theorem C14_int_partial (w : Nat) (hw : 0 < w) (i : Int)
    (hlo : -((256 ^ w / 2 : Nat) : Int) ≤ i) (hhi : i < ((256 ^ w / 2 : Nat) : Int)) (rest : Bytes) :
    getInt w (putInt w i ++ rest) = .ok (i, rest) :=
  getInt_putInt w hw i hlo hhi rest

/-- NUL-terminated strings. -/
theorem C14_cstr_partial (uni : Bool) (s rest : Bytes) (h0 : s.contains 0 = false)
    (hd : decodable uni s = true) : getCStr uni (putCStr s ++ rest) = .ok (s, rest) :=
  getCStr_putCStr uni s rest h0 hd

/-- arrays: `n` items written one after the other are read back by `n` calls of the item reader. -/
theorem C14_array_partial {α : Type} (p : Parser α) (put : α → Bytes) (xs : List α)
    (h : ∀ x ∈ xs, ∀ rest, p (put x ++ rest) = .ok (x, rest)) (rest : Bytes) :
    getMany p xs.length (xs.flatMap put ++ rest) = .ok (xs, rest) :=
  getMany_flatMap p put xs h rest

/-- element references: index, `-1` NULL, `-2` + UUID text for a stub. -/
theorem C14_ref_partial (T : Tables) (n : Nat) (hn : n < 2147483648) (r : Ref)
    (h : valOK T n .element (.ref r) = true) (rest : Bytes) :
    getRef T n (putRef T r ++ rest) = .ok (r, rest) :=
  getRef_putRef T n hn r h rest

/-- one value of any of the 14 types (fixed-size through the struct format, string, blob, reference). -/
theorem C14_value_partial (T : Tables) (c : Cfg) (iw : Nat) (tbl : List Bytes) (n : Nat)
    (hn : n < 2147483648) (t : VT) (isArray : Bool) (v : Val)
    (hv : valOK T n t v = true) (hc : valCtxOK c iw tbl isArray v) (rest : Bytes) :
    getVal T c iw tbl n t isArray (putVal T c iw tbl t isArray v ++ rest) = .ok (v, rest) :=
  getVal_putVal T c iw tbl n hn t isArray v hv hc rest

/-- one attribute record (name, type byte, optional array size, values). -/
theorem C14_attr_partial (T : Tables) (hT : codesOK T = true) (c : Cfg) (iw : Nat) (tbl : List Bytes)
    (n : Nat) (hn : n < 2147483648) (a : Attr) (ha : attrOK T c n a = true)
    (hc : attrCtxOK c iw tbl a) (rest : Bytes) :
    getAttr T c iw tbl n (putAttr T c iw tbl a ++ rest) = .ok (a, rest) :=
  getAttr_putAttr T hT c iw tbl n hn a ha hc rest

/-! ## (iii) the indexed element graph -/

/-- **Binary round trip.** For every table satisfying the decidable predicates, every encoding
version and both string encodings, parsing the exported bytes of a well-formed indexed graph gives
back exactly that graph: same elements (type, name, UUID) in the same order, same attributes in the
same order with the same names, types, scalar/array shape and values, references to the same
indices, NULL and stubs (with their UUID) kept as such. -/
theorem C14_graph (T : Tables) (hT : codesOK T = true) (hL : layoutOK T = true)
    (c : Cfg) (g : Graph) (hg : graphOK T c g = true) :
    decodeBin T c (encodeBin T c g) = .ok g :=
  decodeBin_encodeBin T hT hL c g hg

/-- … instantiated at the tables of the current source. -/
theorem C14_graph_current (c : Cfg) (g : Graph) (hg : graphOK Gen.Dmx.tables c g = true) :
    decodeBin Gen.Dmx.tables c (encodeBin Gen.Dmx.tables c g) = .ok g :=
  C14_graph _ C14_gen_codes C14_gen_layout c g hg

/-! ## (vi) numbering a heap graph (`C14_iso`) and the composition export → parse -/

/-- **Numbering.** For a heap graph without dangling references, the traversal of `export_binary`
/ `export_kv2` (`number`) lists every location reachable from the root exactly once (no location
twice: one index per element; position = index, so indices are dense `0 … n-1`), starts with the
root, and lists nothing unreachable (unreachable elements are not exported). -/
theorem C14_iso_numbering (h : Graph) (hc : heapClosed h = true) (root : Nat)
    (hr : root < h.elems.length) : Numbering h root (number h root) :=
  number_numbering h hc root hr

/-- **Isomorphism.** The indexed graph that is written is the heap graph seen from the root,
renumbered: element `i` is the element at location `ord[i]` with each element reference replaced
by the index of its target, that index leads back to the target's location (sharing and cycles are
kept: two references to one location get the same index), NULL / stub references and everything
else are unchanged. -/
theorem C14_iso (h : Graph) (hc : heapClosed h = true) (root : Nat) (hr : root < h.elems.length) :
    Iso h root (indexed h root) :=
  indexed_iso h hc root hr

/-- Every element reference of the indexed graph is a valid index (the reference part of `graphOK`). -/
theorem C14_iso_refs_in_range (h : Graph) (hc : heapClosed h = true) (root : Nat)
    (hr : root < h.elems.length) (e : Elem) (he : e ∈ (indexed h root).elems) (k : Nat)
    (hk : k ∈ e.refs) : k < (indexed h root).elems.length :=
  indexed_refs_lt h hc root hr e he k hk

/-- **Export → parse (binary), from the heap graph.** Numbering the heap graph, writing it and
parsing the bytes gives a graph isomorphic to the source (`C14_graph ∘ C14_iso`). `graphOK` of the
numbered graph is about the *values* (strings without NUL, ints in range, table fits, …): its
reference part is `C14_iso_refs_in_range`. -/
theorem C14_export_parse_iso (T : Tables) (hT : codesOK T = true) (hL : layoutOK T = true) (c : Cfg)
    (h : Graph) (hc : heapClosed h = true) (root : Nat) (hr : root < h.elems.length)
    (hg : graphOK T c (indexed h root) = true) :
    ∃ g, decodeBin T c (encodeBin T c (indexed h root)) = .ok g ∧ Iso h root g :=
  ⟨indexed h root, C14_graph T hT hL c _ hg, C14_iso h hc root hr⟩

/-! ## (v) KeyValues1 bridge -/

/-- **KV1 bridge.** `to_kv1(from_kv1(t)) = t` for every Keyvalues tree whose roots are only at the
top, for any case-folding function. -/
theorem C14_kv1 (fold : Str → Str) (t : KV) (h : t.ok = true) : toKv1 (fromKv1 fold t) = t :=
  toKv1_fromKv1 fold t h

/-! ## (iv) KeyValues2 quoting -/

/-- **KV2 quoting.** Every string `export_kv2` writes through `quote` (element types and names,
attribute names, values) is read back by the tokenizer `parse_kv2` uses (escapes enabled) as exactly
one STRING token with the original text, whatever follows it and whatever the tokenizer state; the
line counter does not move (the text is on one line). -/
theorem C14_kv2_quote (E : Tok.Tables) (h : Tok.escOK E = true) (o : Tok.Opts)
    (ho : o.allowEscapes = true) (fold : Char → List Char) (s rest : List Char) (st : Tok.St)
    (fuel : Nat) :
    Tok.nextToken E o fold (fuel + 1) st (Kv2.quote E s ++ rest)
      = .tok .string s { line := st.line, lastCr := false } rest := by
  have := Tok.C02_inverse E h o ho fold false s rest st fuel
  rw [Tok.C02_single_line_count E h s] at this
  simpa [Kv2.quote] using this

theorem C14_kv2_quote_current (s rest : List Char) (st : Tok.St) (fuel : Nat) :
    Tok.nextToken Gen.Tok.tables {} (fun c => [c]) (fuel + 1) st (Kv2.quote Gen.Tok.tables s ++ rest)
      = .tok .string s { line := st.line, lastCr := false } rest :=
  C14_kv2_quote _ Tok.C02_gen_ok {} rfl _ s rest st fuel

/-! ## (iv) KeyValues2: `parse (emit g)` -/

/-- OBLIGATION on the current source: the tokenizer tables and the type-name table satisfy the
decidable predicates the KV2 theorems need (escapes well formed; blanks, CR, LF, brackets are not
operators, braces and comma are; type names are distinct, none ends in `_array` or equals
`elementid`, `ValueType.ELEMENT.value = "element"`; the fixed words, type names and hex digits are
never escaped). -/
theorem C14_gen_kv2_tables :
    Tok.escOK Gen.Tok.tables = true ∧ Kv2.lexOK Gen.Tok.tables = true ∧
    Kv2.namesOK Gen.Dmx.tables = true ∧ Kv2.plainOK Gen.Tok.tables Gen.Dmx.tables = true := by
  decide

/-- **attribute line** (partial): `"name" "<type>" "<text>"` is read as a scalar attribute. -/
theorem C14_kv2_attrline_partial (T : Tables) (fold : Str → Str) (N : Kv2.NameFacts T fold) (f : Nat)
    (typ name : Str) (uuid : Option Str) (acc : List Kv2.PAttr) (nl : Kv2.Toks) (hnl : Kv2.isNls nl)
    (n : Str) (hn : n ≠ Kv2.nameLit) (t : VT) (ht : t ≠ .element) (s : Str) (ts : Kv2.Toks) :
    Kv2.parseBlock T (f + 1) fold typ name uuid acc
        (nl ++ Kv2.S n :: Kv2.S (Kv2.typeName T t) :: Kv2.S s :: ts)
      = Kv2.parseBlock T f fold typ name uuid (.mk n t false [.text s] :: acc) ts :=
  Kv2.parseBlock_text T fold N f typ name uuid acc nl hnl n hn t ht s ts

/-- **element reference by UUID** (partial): `"name" "element" "<uuid>"`. -/
theorem C14_kv2_uuidref_partial (T : Tables) (fold : Str → Str) (N : Kv2.NameFacts T fold) (f : Nat)
    (typ name : Str) (uuid : Option Str) (acc : List Kv2.PAttr) (nl : Kv2.Toks) (hnl : Kv2.isNls nl)
    (n : Str) (hn : n ≠ Kv2.nameLit) (u : Str) (hu : Kv2.uuidOK u = true) (ts : Kv2.Toks) :
    Kv2.parseBlock T (f + 1) fold typ name uuid acc
        (nl ++ Kv2.S n :: Kv2.S Kv2.elemLit :: Kv2.S u :: ts)
      = Kv2.parseBlock T f fold typ name uuid (.mk n .element false [.uuid u] :: acc) ts :=
  Kv2.parseBlock_uuid T fold N f typ name uuid acc nl hnl n hn u hu ts

/-- **array block** (partial): the items of an array attribute up to `]` are read back, for every
item kind (text, NULL, UUID reference, inline element) and any number of items. -/
theorem C14_kv2_array_partial (T : Tables) (fold : Str → Str) (N : Kv2.NameFacts T fold) (t : VT)
    (vs : List Kv2.PVal) (hw : Kv2.wfVals T fold t vs = true) (f : Nat)
    (hf : (Kv2.toksVals T t true vs).length + 1 ≤ f) (an : Str) (acc : List Kv2.PVal) (nl : Kv2.Toks)
    (hnl : Kv2.isNls nl) (more : Kv2.Toks) :
    Kv2.parseArray T f fold an t acc (nl ++ Kv2.toksVals T t true vs ++ Kv2.BKC :: more)
      = .ok (acc.reverse ++ vs, more) :=
  Kv2.parse_items T fold N t vs hw f hf an acc nl hnl more

/-- **element block** (partial): the reader applied to the token stream of a parsed-element tree
(any nesting depth, any attributes) gives back exactly that tree. -/
theorem C14_kv2_tree_partial (T : Tables) (fold : Str → Str) (N : Kv2.NameFacts T fold) (p : Kv2.PElem)
    (hw : Kv2.wfElem T fold p = true) (f : Nat) (hf : (Kv2.toksBody T p).length + 1 ≤ f)
    (defName : Str) (more : Kv2.Toks) :
    Kv2.parseElement T fold f defName p.type (Kv2.toksBody T p ++ more) = .ok (p, more) :=
  Kv2.parse_body T fold N p hw f hf defName more

/-- **lexing of an element block** (partial): the text `_export_kv2` writes for element `i`
(with everything nested in it) is tokenized to its type name followed by the tokens of the tree it
denotes, wherever it stands. -/
theorem C14_kv2_lex_partial (E : Tok.Tables) (hE : Tok.escOK E = true) (hL : Kv2.lexOK E = true)
    (T : Tables) (P : Kv2.PlainFacts E T) (cfold : Char → List Char) (g : Kv2.TGraph) (flat cull : Bool)
    (hg : Kv2.lexWf g = true) (fuel i : Nat) (hn : Kv2.nestOK g flat fuel i = true)
    (ind ws rest : List Char) (hind : C01.isWs ind) (hws : C01.isWs ws) :
    Kv2.LexK E {} cfold (ws ++ (Kv2.emitElem E T g flat cull fuel ind i ++ rest))
      (Kv2.S (Kv2.ptree g flat cull fuel i).type :: Kv2.toksBody T (Kv2.ptree g flat cull fuel i)) rest :=
  Kv2.lex_elem hE (Kv2.lexFacts hL) {} rfl rfl cfold P g flat cull hg fuel i hn ind ws rest hind hws

/-- **KeyValues2 round trip, both layouts, with or without `cull_uuid`.** For tables satisfying the
decidable predicates, a case folding that leaves the characters of the type names alone, and a
well-formed indexed graph `g` (`graphWf`: UUIDs are UUID text, values have the kind of their
attribute type — element references for `element`, text for the 13 other types, scalar or array —,
no attribute spelled `name`, inline elements have a type that is not a value-type name; `uuidsOK`:
distinct UUIDs, stubs are not elements; `nestAllOK`: the nesting fits the fuel): parsing the emitted
text succeeds, and the result `ns` is a list of nodes such that node `k` is a copy of element
`order[k]` — same type, name, UUID (when it is written: always without `cull_uuid`, top-level
elements with it), same attributes in the same order with the same names, types, scalar/array
shape and text values; NULL stays NULL, a stub keeps its UUID, and every element reference is a
node that is a copy of the referenced element.  The first node is the root. -/
theorem C14_kv2 (E : Tok.Tables) (T : Tables) (hE : Tok.escOK E = true) (hL : Kv2.lexOK E = true)
    (hN : Kv2.namesOK T = true) (hP : Kv2.plainOK E T = true) (cfold : Char → List Char)
    (hf : ∀ c ∈ Kv2.nameChars T, cfold c = [c]) (g : Kv2.TGraph) (flat cull : Bool) (hne : g.elems ≠ [])
    (hwf : Kv2.graphWf T (fun s => s.flatMap cfold) g flat = true) (hu : Kv2.uuidsOK g = true)
    (hnest : Kv2.nestAllOK g flat = true) :
    ∃ ns, Kv2.parse E T cfold (Kv2.emit E T flat cull g) = .ok ns ∧
      List.Forall₂ (Kv2.NodeRel g flat cull (Kv2.ValRel (Kv2.order g flat))) (Kv2.order g flat) ns ∧
      (Kv2.order g flat).head? = some 0 := by
  have hn : ∀ i ∈ Kv2.roots g flat, Kv2.nestOK g flat (g.elems.length + 1) i = true := by
    simpa [Kv2.nestAllOK] using hnest
  refine ⟨_, Kv2.parse_emit hE hL (Kv2.plainFacts E T hP) cfold (Kv2.nameFacts T hN cfold hf)
    g flat cull hwf hn hne, Kv2.resolve_rel T _ g flat cull hwf hu hn, Kv2.order_head g flat hne hn⟩

/-- **Flat layout**: `order` is `0, 1, …, n-1`, so node `k` is a copy of element `k` and a
reference to element `j` is node `j`: the parsed graph *is* `g` (no side condition on nesting). -/
theorem C14_kv2_flat (E : Tok.Tables) (T : Tables) (hE : Tok.escOK E = true) (hL : Kv2.lexOK E = true)
    (hN : Kv2.namesOK T = true) (hP : Kv2.plainOK E T = true) (cfold : Char → List Char)
    (hf : ∀ c ∈ Kv2.nameChars T, cfold c = [c]) (g : Kv2.TGraph) (cull : Bool) (hne : g.elems ≠ [])
    (hwf : Kv2.graphWf T (fun s => s.flatMap cfold) g true = true) (hu : Kv2.uuidsOK g = true) :
    ∃ ns, Kv2.parse E T cfold (Kv2.emit E T true cull g) = .ok ns ∧
      List.Forall₂ (Kv2.NodeRel g true cull (Kv2.ValRel (List.range g.elems.length)))
        (List.range g.elems.length) ns := by
  have hnest : Kv2.nestAllOK g true = true := by
    simp only [Kv2.nestAllOK, List.all_eq_true, Kv2.roots_flat, List.mem_range]
    exact fun i hi => Kv2.nestOK_flat g _ i hi
  obtain ⟨ns, h1, h2, _⟩ := C14_kv2 E T hE hL hN hP cfold hf g true cull hne hwf hu hnest
  rw [Kv2.order_flat] at h2
  exact ⟨ns, h1, h2⟩

/-- **Nested layout: the use-count pass, derived.** In a canonically numbered graph (`bfsOrdered`:
every element but the first is referenced from a smaller index — what the export traversal produces,
see `C14_iso_bfsOrdered`) an element that is not the root and is referenced exactly once is written
inline at that single use, every other element at the top level, and *every element is written
exactly once*: the emission order is a permutation of the element indices, and the nesting never
exhausts the fuel.  Nothing is assumed about the emission itself. -/
theorem C14_kv2_order_perm (T : Tables) (fold : Str → Str) (g : Kv2.TGraph)
    (hwf : Kv2.graphWf T fold g false = true) (hb : Kv2.bfsOrdered g = true) :
    Kv2.nestAllOK g false = true ∧ (Kv2.order g false).Perm (List.range g.elems.length) :=
  ⟨Kv2.nestAllOK_of_bfs T fold g hwf hb, Kv2.order_perm T fold g hwf hb⟩

/-- **KeyValues2 round trip, nested layout, from the graph structure alone**: `graphWf ∧ uuidsOK`
and the canonical numbering suffice; the relation of `C14_kv2` is then a bijection between nodes
and elements (a graph isomorphism). -/
theorem C14_kv2_nested (E : Tok.Tables) (T : Tables) (hE : Tok.escOK E = true) (hL : Kv2.lexOK E = true)
    (hN : Kv2.namesOK T = true) (hP : Kv2.plainOK E T = true) (cfold : Char → List Char)
    (hf : ∀ c ∈ Kv2.nameChars T, cfold c = [c]) (g : Kv2.TGraph) (cull : Bool) (hne : g.elems ≠ [])
    (hwf : Kv2.graphWf T (fun s => s.flatMap cfold) g false = true) (hu : Kv2.uuidsOK g = true)
    (hb : Kv2.bfsOrdered g = true) :
    ∃ ns, Kv2.parse E T cfold (Kv2.emit E T false cull g) = .ok ns ∧
      List.Forall₂ (Kv2.NodeRel g false cull (Kv2.ValRel (Kv2.order g false))) (Kv2.order g false) ns ∧
      (Kv2.order g false).head? = some 0 ∧
      (Kv2.order g false).Perm (List.range g.elems.length) := by
  obtain ⟨hnest, hperm⟩ := C14_kv2_order_perm T _ g hwf hb
  obtain ⟨ns, h1, h2, h3⟩ := C14_kv2 E T hE hL hN hP cfold hf g false cull hne hwf hu hnest
  exact ⟨ns, h1, h2, h3, hperm⟩

/-- The numbering traversal is generic in the payload: for a heap graph with *text* values it
gives the same guarantees (`NumberingOn`: one dense index per reachable element, root first, nothing
unreachable, and every element but the first is referenced from a smaller index), the written
graph `tindexed` is isomorphic to the heap graph, and it is canonically numbered. -/
theorem C14_iso_text (h : Kv2.TGraph) (hc : Kv2.theapClosed h = true) (root : Nat)
    (hr : root < h.elems.length) :
    NumberingOn (Kv2.refsAtT h) root (Kv2.tnumber h root) ∧ Kv2.TIso h root (Kv2.tindexed h root) ∧
    Kv2.bfsOrdered (Kv2.tindexed h root) = true :=
  ⟨Kv2.tnumber_numbering h hc root hr, Kv2.tindexed_iso h hc root hr, Kv2.tindexed_bfsOrdered h hc root hr⟩

/-- **Export → parse (KeyValues2), from the heap graph** (`C14_kv2 ∘ C14_iso`), nested or flat
layout, with or without `cull_uuid`: numbering the heap graph, writing it as text and parsing the
text gives nodes that are in bijection with the reachable elements (`order` is a permutation of the
indices of the numbered graph, which is isomorphic to the heap graph), node `k` copying element
`order[k]`, references leading to the copies of their targets.  The hypotheses on the numbered
graph are about *values and names* only (`graphWf`, `uuidsOK`); everything structural — which
elements are written, where, how often, and that the nesting terminates — is derived. -/
theorem C14_export_parse_iso_kv2 (E : Tok.Tables) (T : Tables) (hE : Tok.escOK E = true)
    (hL : Kv2.lexOK E = true) (hN : Kv2.namesOK T = true) (hP : Kv2.plainOK E T = true)
    (cfold : Char → List Char) (hf : ∀ c ∈ Kv2.nameChars T, cfold c = [c])
    (h : Kv2.TGraph) (hc : Kv2.theapClosed h = true) (root : Nat) (hr : root < h.elems.length)
    (flat cull : Bool)
    (hwf : Kv2.graphWf T (fun s => s.flatMap cfold) (Kv2.tindexed h root) flat = true)
    (hu : Kv2.uuidsOK (Kv2.tindexed h root) = true) :
    Kv2.TIso h root (Kv2.tindexed h root) ∧
    ∃ ns, Kv2.parse E T cfold (Kv2.emit E T flat cull (Kv2.tindexed h root)) = .ok ns ∧
      List.Forall₂ (Kv2.NodeRel (Kv2.tindexed h root) flat cull (Kv2.ValRel (Kv2.order (Kv2.tindexed h root) flat)))
        (Kv2.order (Kv2.tindexed h root) flat) ns ∧
      (Kv2.order (Kv2.tindexed h root) flat).head? = some 0 ∧
      (Kv2.order (Kv2.tindexed h root) flat).Perm (List.range (Kv2.tindexed h root).elems.length) := by
  obtain ⟨hnum, hiso, hbfs⟩ := C14_iso_text h hc root hr
  refine ⟨hiso, ?_⟩
  have hne : (Kv2.tindexed h root).elems ≠ [] := by
    intro he
    have hl := Kv2.tindexed_length h hc root hr
    rw [he] at hl
    have : Kv2.tnumber h root = [] := List.length_eq_zero_iff.mp hl.symm
    have hh := hnum.head
    rw [this] at hh; cases hh
  cases flat with
  | false =>
    exact C14_kv2_nested E T hE hL hN hP cfold hf _ cull hne hwf hu hbfs
  | true =>
    have hnest : Kv2.nestAllOK (Kv2.tindexed h root) true = true := by
      simp only [Kv2.nestAllOK, List.all_eq_true, Kv2.roots_flat, List.mem_range]
      exact fun i hi => Kv2.nestOK_flat _ _ i hi
    obtain ⟨ns, h1, h2, h3⟩ := C14_kv2 E T hE hL hN hP cfold hf _ true cull hne hwf hu hnest
    exact ⟨ns, h1, h2, h3, by rw [Kv2.order_flat]⟩

/-- … at the tables of the current source, for any case folding that is the identity on the
characters of the type names (`str.casefold` on lower-case ASCII letters, digits and `_`). -/
theorem C14_kv2_current (cfold : Char → List Char)
    (hf : ∀ c ∈ Kv2.nameChars Gen.Dmx.tables, cfold c = [c]) (g : Kv2.TGraph) (flat cull : Bool)
    (hne : g.elems ≠ [])
    (hwf : Kv2.graphWf Gen.Dmx.tables (fun s => s.flatMap cfold) g flat = true)
    (hu : Kv2.uuidsOK g = true) (hnest : Kv2.nestAllOK g flat = true) :
    ∃ ns, Kv2.parse Gen.Tok.tables Gen.Dmx.tables cfold (Kv2.emit Gen.Tok.tables Gen.Dmx.tables flat cull g) = .ok ns ∧
      List.Forall₂ (Kv2.NodeRel g flat cull (Kv2.ValRel (Kv2.order g flat))) (Kv2.order g flat) ns ∧
      (Kv2.order g flat).head? = some 0 :=
  C14_kv2 _ _ C14_gen_kv2_tables.1 C14_gen_kv2_tables.2.1 C14_gen_kv2_tables.2.2.1
    C14_gen_kv2_tables.2.2.2 cfold hf g flat cull hne hwf hu hnest

/-! ## (iv) text forms of the integer / fixed-format value types

These conversions (`TYPE_CONVERT[t, STRING]` / `TYPE_CONVERT[STRING, t]` for `int`, `bool`, `color`,
`binary`) are inside the model, so for these types the text values of `C14_kv2` are *values*.
What remains an assumption about the implementation is only CPython's float formatting
(`float`, `time`, vectors, `qangle`, `quaternion`, `vmatrix`): their text is carried as a canonical
string, i.e. a fixed point of `format(x, '.6f')`-and-strip / `repr` followed by `float()`. -/

/-- OBLIGATION: `BOOL_LOOKUP` maps `"0"` to False and `"1"` to True. -/
theorem C14_gen_bool : Text.boolOK Gen.Dmx.tables = true := by decide

/-- **int**: `int(str(i)) = i` for every integer. -/
theorem C14_text_int (i : Int) : Text.parseInt (Text.fmtInt i) = some i := Text.parseInt_fmtInt i

/-- **bool**: `BOOL_LOOKUP[bool_as_int(b).casefold()] = b`. -/
theorem C14_text_bool (T : Tables) (hT : Text.boolOK T = true) (fold : Str → Str)
    (h0 : fold ['0'] = ['0']) (h1 : fold ['1'] = ['1']) (b : Bool) :
    Text.parseBool T fold (Text.fmtBool b) = some b := Text.parseBool_fmtBool T hT fold h0 h1 b

/-- **color**: `"r g b a"` is split, parsed and clamped back to the four bytes. -/
theorem C14_text_color (r g b a : Nat) (hr : r ≤ 255) (hg : g ≤ 255) (hb : b ≤ 255) (ha : a ≤ 255) :
    Text.parseColor (Text.fmtColor r g b a) = some (r, g, b, a) :=
  Text.parseColor_fmtColor r g b a hr hg hb ha

/-- **binary**: `bytes.fromhex(b.hex(' ', 1).upper()) = b` for every byte string. -/
theorem C14_text_binary (bs : Bytes) : Text.parseHex (Text.fmtHex bs) = some bs :=
  Text.parseHex_fmtHex bs

/-! ## history independence -/

/-- **No state.** In any session (calls made one after the other), the result of a call is the
result of that call made alone: it does not depend on the calls before it, and later calls do not
change it.  Trivial for the model (pure functions); the obligation is on the tie — the session
search reports any history dependence of the implementation as a failing session. -/
theorem C14_session_pure (E : Tok.Tables) (T : Tables) (cfold : Char → List Char)
    (pre post : List Kv2.Call) (c : Kv2.Call) :
    (Kv2.runSession E T cfold (pre ++ c :: post))[pre.length]? = some (Kv2.runCall E T cfold c) ∧
    (Kv2.runSession E T cfold (pre ++ c :: post)).take pre.length = Kv2.runSession E T cfold pre := by
  constructor
  · simp [Kv2.runSession]
  · simp [Kv2.runSession, List.map_append, List.take_append]

/-! ## non-vacuity -/

/-- a graph with a self reference, a mutual cycle, NULL, a stub, a scalar matrix, an empty array,
a scalar string and a string array. -/
def C14_sample : Graph :=
  let u : Bytes := [49, 50, 51, 52, 53, 54, 55, 56, 45, 49, 50, 51, 52, 45, 49, 50, 51, 52, 45, 49, 50, 51, 52,
                    45, 49, 50, 51, 52, 53, 54, 55, 56, 57, 48, 97, 98]
  { elems := [
    { type := [68], name := [114], uuid := List.replicate 16 1, attrs := [
        { name := [109], type := .matrix, isArray := false, vals := [.fixed [1065353216, 0, 0, 0, 1065353216, 0, 0, 0, 1065353216]] },
        { name := [99], type := .element, isArray := true, vals := [.ref (.idx 1), .ref .null, .ref (.stub u), .ref (.idx 0)] },
        { name := [115], type := .string, isArray := false, vals := [.str [104, 105]] },
        { name := [116], type := .string, isArray := true, vals := [.str [], .str [120]] },
        { name := [101], type := .time, isArray := true, vals := [] },
        { name := [105], type := .int, isArray := false, vals := [.fixed [-5]] }] },
    { type := [68], name := [], uuid := List.replicate 16 2, attrs := [
        { name := [112], type := .element, isArray := false, vals := [.ref (.idx 0)] },
        { name := [98], type := .binary, isArray := false, vals := [.bin [0, 255]] }] }] }

example : graphOK Gen.Dmx.tables { v := 5, uni := false } C14_sample = true := by decide +kernel
example : graphOK Gen.Dmx.tables { v := 3, uni := true } C14_sample = true := by decide +kernel
example : graphOK Gen.Dmx.tables { v := 4, uni := false } C14_sample = true := by decide +kernel

def C14_isOk (r : Except Err Graph) (g : Graph) : Bool :=
  match r with
  | .ok g' => decide (g' = g)
  | .error _ => false

example : C14_isOk (decodeBin Gen.Dmx.tables { v := 4, uni := false }
    (encodeBin Gen.Dmx.tables { v := 4, uni := false } C14_sample)) C14_sample = true := by decide +kernel

/-- The second defect that was in the source: when the exporter writes nothing after the `-2`
marker, the sample graph (which has a stub) is not read back. -/
example : C14_isOk (decodeBin { Gen.Dmx.tables with stubWrite := .none } { v := 5, uni := false }
    (encodeBin { Gen.Dmx.tables with stubWrite := .none } { v := 5, uni := false } C14_sample))
    C14_sample = false := by decide +kernel

example : codesOK { Gen.Dmx.tables with decodeCmp := .ge } = false := by decide

/-- a heap in scrambled order with an unreachable element (location 1), a cycle 0 → 2 → 3 → 0,
sharing (3 referenced twice), a self loop, NULL and a stub. -/
def C14_heapSample : Graph :=
  let u : Bytes := List.replicate 36 48
  let el (n : UInt8) (refs : List Val) : Elem :=
    { type := [68], name := [n], uuid := List.replicate 16 n,
      attrs := [{ name := [114], type := .element, isArray := true, vals := refs }] }
  { elems := [el 0 [.ref (.idx 2), .ref .null, .ref (.idx 3)], el 1 [.ref (.idx 0)],
              el 2 [.ref (.idx 3), .ref (.stub u), .ref (.idx 2)], el 3 [.ref (.idx 0)]] }

example : heapClosed C14_heapSample = true := by decide +kernel
example : number C14_heapSample 0 = [0, 2, 3] := by decide +kernel
example : ((indexed C14_heapSample 0).elems.map Elem.refs) = [[1, 2], [2, 1], [0]] := by decide +kernel

def C14_kvSample : KV :=
  .block none [.block (some ['a']) [.leaf ['x'] ['1'], .leaf ['X'] ['2']],
               .block (some ['b']) [.leaf ['n', 'a', 'm', 'e'] ['v'], .block (some []) []],
               .block (some ['c']) [.leaf ['p'] ['q'], .leaf ['r'] []]]

example : C14_kvSample.ok = true := by decide +kernel
example : toKv1 (fromKv1 (fun s => s.map Char.toLower) C14_kvSample) = C14_kvSample := by rfl

/-! KV2: the text emitted for a graph with an inlined child, a back reference to the root, NULL,
escaped characters and arrays is parsed back (tokenizer + reader + UUID fix-ups) to the same
nodes; with `cull_uuid` the child loses its id. -/
def C14_u (last : Char) : Str :=
  ['0','0','0','0','0','0','0','0','-','0','0','0','0','-','0','0','0','0','-','0','0','0','0','-',
   '0','0','0','0','0','0','0','0','0','0','0', last]

def C14_kv2Sample : Kv2.TGraph := { elems := [
  { type := ['D'], name := ['r', '"'], uuid := C14_u '1', attrs := [
     { name := ['c'], type := .element, isArray := true, vals := [.ref (.idx 1), .ref .null, .ref (.idx 0)] },
     { name := ['s', '"'], type := .string, isArray := false, vals := [.text ['h', '\n', '\\']] },
     { name := ['i'], type := .int, isArray := true, vals := [.text ['1'], .text ['2']] }] },
  { type := ['E'], name := [], uuid := C14_u '2', attrs := [
     { name := ['p'], type := .element, isArray := false, vals := [.ref (.idx 0)] }] }] }

def C14_kv2Expect (cull : Bool) : List Kv2.FNode := [
  { type := ['D'], name := ['r', '"'], uuid := some (C14_u '1'), attrs := [
     { name := ['c'], type := .element, isArray := true, vals := [.node 1, .null, .node 0] },
     { name := ['s', '"'], type := .string, isArray := false, vals := [.text ['h', '\n', '\\']] },
     { name := ['i'], type := .int, isArray := true, vals := [.text ['1'], .text ['2']] }] },
  { type := ['E'], name := [], uuid := if cull then none else some (C14_u '2'), attrs := [
     { name := ['p'], type := .element, isArray := false, vals := [.node 0] }] }]

def C14_kv2Check (flat cull : Bool) : Bool :=
  match Kv2.parse Gen.Tok.tables Gen.Dmx.tables (fun c => [c])
      (Kv2.emit Gen.Tok.tables Gen.Dmx.tables flat cull C14_kv2Sample) with
  | .ok ns => decide (ns = C14_kv2Expect cull)
  | .error _ => false

example : Kv2.graphWf Gen.Dmx.tables (fun s => s) C14_kv2Sample false = true := by decide +kernel
example : Kv2.uuidsOK C14_kv2Sample = true := by decide +kernel
example : Kv2.nestAllOK C14_kv2Sample false = true := by decide +kernel
example : Kv2.orderOK C14_kv2Sample false = true := by decide +kernel
example : Kv2.bfsOrdered C14_kv2Sample = true := by decide +kernel
example : Kv2.order C14_kv2Sample false = [0, 1] := by decide +kernel
example : C14_kv2Check false false = true := by decide +kernel
example : C14_kv2Check false true = true := by decide +kernel

end C14
