import Srctools.Model.C18
import Srctools.Gen.Fsys
/-! # C18 — property theorems (work in progress) -/
namespace C18
open Path

/-- The string-prefix test accepts a sibling whose name extends the root's name. -/
theorem C18_prefix_bug :
    resolve .stringPrefix ['/'] ⟨['/','a','/','r','o','o','t'], true⟩
        ['.','.','/','r','o','o','t','_','e','v','i','l','/','s']
      = .ok ['/','a','/','r','o','o','t','_','e','v','i','l','/','s']
    ∧ ¬ (comps ['/','a','/','r','o','o','t'] <+: comps ['/','a','/','r','o','o','t','_','e','v','i','l','/','s']) := by
  decide +kernel

end C18
