import Srctools.Proofs.C18
import Srctools.Gen.Fsys
/-!
# C18 — a constrained directory filesystem never reaches outside its root

Property theorems only.  All statements are about the model `C18` (Model/C18.lean) over the path
model `Path` (Model/Path.lean).  `C18_gen_ok` ties the shape of the containment test and the
guarding of every OS call to what `/repo/src/srctools/filesys.py` contains *now*
(Gen/Fsys.lean is regenerated on every run).  "Inside the root" is stated on component lists:
`comps root <+: comps q`, with no `..` in what follows — for a tree without symlinks that is the
location of the file.
-/
namespace C18
open Path

/-- OBLIGATION on the current source: `_resolve_path` uses the separator-terminated test, the root
is stored as `os.path.abspath(path)`, every OS call in `RawFileSystem` takes a `_resolve_path`
result, and `RootEscapeError` is not a `FileNotFoundError`/`OSError` (a chain would swallow it). -/
theorem C18_gen_ok :
    Gen.Fsys.cfg.contain = .sepTerminated ∧ Gen.Fsys.cfg.foldSlash = true ∧ Gen.Fsys.cfg.chainRelSlash = true ∧ Gen.Fsys.rootIsAbspath = true ∧
    Gen.Fsys.osCalls.all (fun c => c.2.2) = true ∧ Gen.Fsys.osCalls.length ≥ 5 ∧
    Gen.Fsys.escapeErrorBases = ["ValueError"] := by
  decide +kernel

/-- **Normal form of `normpath`.** For every string: `n ≤ 2` leading slashes (`n = 0` exactly for
relative paths), then `k` components `..` (`k = 0` for absolute paths), then names none of which
is empty, `.`, `..` or contains a slash — or the result is `"."` when all three are empty. -/
theorem C18_normal (p : Str) :
    ∃ (n k : Nat) (names : List Str),
      n ≤ 2 ∧ (n = 0 ↔ isAbs p = false) ∧ (n ≠ 0 → k = 0) ∧
      (∀ c ∈ names, c ≠ [] ∧ c ≠ dot ∧ c ≠ dotdot ∧ '/' ∉ c) ∧
      normpath p = (if n = 0 ∧ k = 0 ∧ names = [] then dot
                    else List.replicate n '/' ++ joinWith '/' (List.replicate k dotdot ++ names)) := by
  obtain ⟨k, names, hs, hn, hk⟩ := normComps_spec p
  refine ⟨initialSlashes p, k, names, initialSlashes_le p, initialSlashes_eq_zero p, ?_, hn, ?_⟩
  · intro h0
    apply hk
    cases ha : isAbs p with
    | true => rfl
    | false => exact absurd ((initialSlashes_eq_zero p).mpr ha) h0
  · rw [normpath_eq, hs]
    by_cases h0 : initialSlashes p = 0 <;> simp [h0]

/-- Component view of the normal form: unless the result is `"."`, the components of
`normpath p` are `k` times `..` (none for absolute paths) followed by names that are neither
`.` nor `..` (nor empty). -/
theorem C18_normal_comps (p : Str) :
    normpath p = dot ∨
    ∃ (k : Nat) (names : List Str),
      comps (normpath p) = List.replicate k dotdot ++ names ∧
      (∀ c ∈ names, c ≠ [] ∧ c ≠ dot ∧ c ≠ dotdot) ∧ (isAbs p = true → k = 0) := by
  obtain ⟨k, names, hs, hn, hk⟩ := normComps_spec p
  rw [normpath_eq]
  by_cases h : initialSlashes p = 0 ∧ normComps p = []
  · left; simp [h]
  · right
    refine ⟨k, names, ?_, fun c hc => ⟨(hn c hc).1, (hn c hc).2.1, (hn c hc).2.2.1⟩, hk⟩
    simp only [h, if_false]
    rw [comps_replicate_sep, comps_joinWith, hs]
    intro c hc
    have := normComps_clean p c hc
    exact ⟨this.1, this.2.2⟩

example : normpath ['/', '/', 'a', '/', '.', '.', '/', '.', '.', '/', '/', 'b', '/', '.', '/', 'c', '/']
    = ['/', '/', 'b', '/', 'c'] := by decide +kernel
example : normpath ['a', '/', '.', '.', '/', '.', '.', '/', 'b'] = ['.', '.', '/', 'b'] := by decide +kernel

/-- The root of a directory filesystem is absolute (given an absolute current directory). -/
theorem C18_root_abs (cwd path : Str) (c : Bool) (h : isAbs cwd = true) :
    isAbs (mkRaw cwd path c).root = true :=
  isAbs_abspath cwd path h

/-- **Containment.** With the separator-terminated test, an accepted path has the root's
components as a prefix, and what follows contains no `..`, `.` or empty component: it names
something located inside the root. -/
theorem C18_contain (k : Cfg) (hk : k.contain = .sepTerminated) (cwd : Str) (fs : RawFS) (p q : Str)
    (hc : fs.constrain = true) (ha : isAbs fs.root = true)
    (h : resolve k cwd fs p = .ok q) :
    ∃ rest, comps q = comps fs.root ++ rest ∧ ∀ c ∈ rest, c ≠ [] ∧ c ≠ dot ∧ c ≠ dotdot := by
  obtain ⟨hq, hin⟩ := resolve_ok h
  obtain ⟨rest, hr⟩ := comps_prefix_of_inside fs.root q (hk ▸ hin hc)
  refine ⟨rest, hr.symm, ?_⟩
  generalize (if k.foldSlash then replaceBS p else p) = p' at hq
  have hj : isAbs (join2 fs.root p') = true := isAbs_join2 fs.root p' ha
  have hq' : q = normpath (join2 fs.root p') := by rw [hq]; simp [abspath, hj]
  obtain ⟨h1, h2⟩ := comps_normpath_abs (join2 fs.root p') hj
  intro c hcm
  have : c ∈ comps q := by rw [← hr]; exact List.mem_append_right _ hcm
  rw [hq', h1] at this
  have := h2 c this
  exact ⟨this.1, this.2.1, this.2.2.1⟩

example : resolve ⟨.sepTerminated, true, true⟩ ['/'] ⟨['/','a','/','r'], true⟩ ['s','/','.','.','/','x']
    = .ok ['/','a','/','r','/','x'] := by decide +kernel

/-- The root of a directory filesystem is in normal form: one or two slashes, then clean names. -/
theorem C18_root_normal (cwd path : Str) (c : Bool) (h : isAbs cwd = true) :
    NormalAbs (mkRaw cwd path c).root := by
  unfold mkRaw abspath
  apply normalAbs_normpath
  split
  · assumption
  · exact isAbs_join2 cwd path h

/-- **Completeness.** The constraint does not over-reject: a relative name (after the slash
replacement the code applies) without `.`/`..` components is accepted, and names the root's
components followed by its own. -/
theorem C18_accepts (k : Cfg) (hk : k.contain = .sepTerminated) (cwd : Str) (fs : RawFS)
    (hroot : NormalAbs fs.root) (p : Str)
    (hrel : isAbs (if k.foldSlash then replaceBS p else p) = false)
    (hclean : ∀ c ∈ comps (if k.foldSlash then replaceBS p else p), c ≠ dot ∧ c ≠ dotdot) :
    ∃ q, resolve k cwd fs p = .ok q ∧
      comps q = comps fs.root ++ comps (if k.foldSlash then replaceBS p else p) :=
  accepts k hk cwd fs hroot p hrel hclean

example : resolve ⟨.sepTerminated, true, true⟩ ['/'] ⟨['/','r'], true⟩ ['s','\\','f'] = .ok ['/','r','/','s','/','f'] := by
  decide +kernel

/-- The string-prefix test (the code before the fix) accepts a sibling whose name extends the
root's name: a concrete escape.  The separator-terminated test rejects the same input. -/
theorem C18_prefix_bug :
    resolve ⟨.stringPrefix, false, false⟩ ['/'] ⟨['/','a','/','r','o','o','t'], true⟩
        ['.','.','/','r','o','o','t','_','e','v','i','l','/','s']
      = .ok ['/','a','/','r','o','o','t','_','e','v','i','l','/','s']
    ∧ ¬ (comps ['/','a','/','r','o','o','t'] <+: comps ['/','a','/','r','o','o','t','_','e','v','i','l','/','s'])
    ∧ resolve ⟨.sepTerminated, false, false⟩ ['/'] ⟨['/','a','/','r','o','o','t'], true⟩
        ['.','.','/','r','o','o','t','_','e','v','i','l','/','s'] = .error .escape := by
  decide +kernel

/-- **Existence test.** `name in fs` answering `True` refers to a file of the tree inside the root. -/
theorem C18_exists (k : Cfg) (hk : k.contain = .sepTerminated) (cwd : Str) (fs : RawFS) (t : Tree) (p : Str)
    (hc : fs.constrain = true) (ha : isAbs fs.root = true)
    (h : existsIn k cwd fs t p = .ok true) :
    ∃ e ∈ t, comps fs.root <+: e.comps := by
  unfold existsIn at h
  cases hr : resolve k cwd fs p with
  | error e => rw [hr] at h; cases h
  | ok q =>
    rw [hr] at h
    simp only [bind, Except.bind, pure, Except.pure, Except.ok.injEq] at h
    obtain ⟨e, he⟩ := Option.isSome_iff_exists.mp h
    obtain ⟨hm, hcmp⟩ := fileAt_some he
    obtain ⟨rest, hrest, _⟩ := C18_contain k hk cwd fs p q hc ha hr
    exact ⟨e, hm, by rw [hcmp, hrest]; exact List.prefix_append _ _⟩

/-- **Open.** Whatever `open_bin`/`open_str` read is a file of the tree located inside the root
(its components extend the root's, and nothing after the root is `..`). -/
theorem C18_open (k : Cfg) (hk : k.contain = .sepTerminated) (cwd : Str) (fs : RawFS) (t : Tree) (p : Str) (e : Ent)
    (hc : fs.constrain = true) (ha : isAbs fs.root = true)
    (h : openName k cwd fs t p = .ok e) :
    e ∈ t ∧ ∃ rest, e.comps = comps fs.root ++ rest ∧ dotdot ∉ rest := by
  unfold openName at h
  cases hr : resolve k cwd fs p with
  | error x => rw [hr] at h; cases h
  | ok q =>
    rw [hr] at h
    simp only [bind, Except.bind] at h
    cases hf : fileAt t q with
    | none => rw [hf] at h; cases h
    | some e' =>
      rw [hf] at h
      simp only [pure, Except.pure, Except.ok.injEq] at h
      subst h
      obtain ⟨hm, hcmp⟩ := fileAt_some hf
      obtain ⟨rest, hrest, hclean⟩ := C18_contain k hk cwd fs p q hc ha hr
      exact ⟨hm, rest, by rw [hcmp, hrest], fun hd => (hclean _ hd).2.2 rfl⟩

/-- **Lookup then open.** `fs[name].open_bin()` reads a file inside the root. -/
theorem C18_get_open (k : Cfg) (hk : k.contain = .sepTerminated) (cwd : Str) (fs : RawFS) (t : Tree) (p : Str) (e : Ent)
    (hc : fs.constrain = true) (ha : isAbs fs.root = true)
    (h : getOpen k cwd fs t p = .ok e) :
    e ∈ t ∧ ∃ rest, e.comps = comps fs.root ++ rest ∧ dotdot ∉ rest := by
  unfold getOpen at h
  cases hg : getFile k cwd fs t p with
  | error x => rw [hg] at h; cases h
  | ok d =>
    rw [hg] at h
    exact C18_open k hk cwd fs t d e hc ha h

/-- **The `File` handed out names what was checked.** With slash folding inside `_resolve_path`,
the `File` returned by `fs[name]` (whose path is the name with backslashes replaced) resolves to
exactly the location whose existence was tested. -/
theorem C18_get_consistent (k : Cfg) (hf : k.foldSlash = true) (cwd : Str) (fs : RawFS) (t : Tree)
    (p d : Str) (h : getFile k cwd fs t p = .ok d) :
    d = replaceBS p ∧ resolve k cwd fs d = resolve k cwd fs p := by
  unfold getFile at h
  cases hr : resolve k cwd fs p with
  | error x => rw [hr] at h; cases h
  | ok q =>
    rw [hr] at h
    simp only [bind, Except.bind] at h
    split at h
    · simp only [pure, Except.pure, Except.ok.injEq] at h
      subst h
      refine ⟨rfl, ?_⟩
      rw [← hr]
      unfold resolve
      simp [hf, replaceBS_idem]
    · cases h

/-- Without slash folding (the code before the second fix) the lookup tests one location and
hands out a `File` naming another one, outside the root: name `\\/../f` under root `/r/s`. -/
theorem C18_get_mismatch_bug :
    let k : Cfg := ⟨.sepTerminated, false, false⟩
    let fs : RawFS := ⟨['/','r','/','s'], true⟩
    let t : Tree := [⟨[['r'], ['s'], ['f']], 1⟩, ⟨[['f']], 2⟩]
    getFile k ['/'] fs t ['\\','/','.','.','/','f'] = .ok ['/','/','.','.','/','f']
    ∧ resolve k ['/'] fs ['/','/','.','.','/','f'] = .error .escape
    ∧ (openName ⟨.sepTerminated, false, false⟩ ['/'] ⟨['/','r','/','s'], false⟩ t ['/','/','.','.','/','f']).map (·.id) = .ok 2 := by
  decide +kernel

/-- **Walk.** Every file listed by `walk_folder` is a file of the tree located inside the root. -/
theorem C18_walk (k : Cfg) (hk : k.contain = .sepTerminated) (cwd : Str) (fs : RawFS) (t : Tree) (folder : Str) (l : List (Str × Ent))
    (hc : fs.constrain = true) (ha : isAbs fs.root = true)
    (h : walk k cwd fs t folder = .ok l) :
    ∀ x ∈ l, x.2 ∈ t ∧ comps fs.root <+: x.2.comps := by
  unfold walk at h
  cases hr : resolve k cwd fs folder with
  | error x => rw [hr] at h; cases h
  | ok q =>
    rw [hr] at h
    simp only [bind, Except.bind, pure, Except.pure, Except.ok.injEq] at h
    subst h
    obtain ⟨rest, hrest, _⟩ := C18_contain k hk cwd fs folder q hc ha hr
    intro x hx
    obtain ⟨e, he, rfl⟩ := List.mem_map.mp hx
    obtain ⟨hm, hp⟩ := List.mem_filter.mp he
    simp only [Bool.and_eq_true, List.isPrefixOf_iff_prefix] at hp
    refine ⟨hm, List.IsPrefix.trans ?_ hp.1⟩
    rw [hrest]; exact List.prefix_append _ _

/-- **Chain lookup/open.** Through a chain of constrained directory filesystems (each with any
sub-folder prefix), whatever is opened lies inside the root of one of the members. -/
theorem C18_chain (k : Cfg) (hk : k.contain = .sepTerminated) (cwd : Str) (t : Tree) (ms : List Member) (name : Str) (e : Ent)
    (hms : ∀ m ∈ ms, m.fs.constrain = true ∧ isAbs m.fs.root = true)
    (h : chainOpen k cwd t ms name = .ok e) :
    e ∈ t ∧ ∃ m ∈ ms, comps m.fs.root <+: e.comps := by
  unfold chainOpen at h
  cases hg : chainGet k cwd t name ms with
  | error x => rw [hg] at h; cases h
  | ok r =>
    obtain ⟨m, full, inner⟩ := r
    rw [hg] at h
    simp only [bind, Except.bind] at h
    have hm : m ∈ ms := by
      clear h
      induction ms with
      | nil => simp [chainGet, throw, throwThe, MonadExceptOf.throw] at hg
      | cons m' ms ih =>
        rw [chainGet] at hg
        split at hg
        · simp only [pure, Except.pure, Except.ok.injEq, Prod.mk.injEq] at hg
          rw [← hg.1]; exact List.mem_cons_self
        · exact List.mem_cons_of_mem _ (ih (fun x hx => hms x (List.mem_cons_of_mem _ hx)) hg)
        · simp [throw, throwThe, MonadExceptOf.throw] at hg
    obtain ⟨h1, rest, h2, _⟩ := C18_open k hk cwd m.fs t inner e (hms m hm).1 (hms m hm).2 h
    exact ⟨h1, m, hm, by rw [h2]; exact List.prefix_append _ _⟩

/-- **Chain walk.** Every file a chain walk lists and that can be opened lies inside the root of
one of the members. -/
theorem C18_chain_walk (k : Cfg) (hk : k.contain = .sepTerminated) (cwd : Str) (t : Tree) (ms : List Member) (folder : Str)
    (l : List (Str × Except Err Ent))
    (hms : ∀ m ∈ ms, m.fs.constrain = true ∧ isAbs m.fs.root = true)
    (h : chainWalkRepeat k cwd t folder ms = .ok l) :
    ∀ x ∈ l, ∀ e, x.2 = .ok e → e ∈ t ∧ ∃ m ∈ ms, comps m.fs.root <+: e.comps := by
  induction ms generalizing l with
  | nil =>
    simp only [chainWalkRepeat, pure, Except.pure, Except.ok.injEq] at h
    subst h; intro x hx; cases hx
  | cons m ms ih =>
    rw [chainWalkRepeat] at h
    cases hw : walk k cwd m.fs t (replaceBS (join2 m.pfx folder)) with
    | error x => rw [hw] at h; cases h
    | ok fl =>
      rw [hw] at h
      simp only [bind, Except.bind] at h
      cases hrest : chainWalkRepeat k cwd t folder ms with
      | error x => rw [hrest] at h; cases h
      | ok rest =>
        rw [hrest] at h
        simp only [pure, Except.pure, Except.ok.injEq] at h
        subst h
        intro x hx e hxe
        rcases List.mem_append.mp hx with hx | hx
        · obtain ⟨y, _, rfl⟩ := List.mem_map.mp hx
          simp only at hxe
          have hm := hms m List.mem_cons_self
          obtain ⟨h1, r, h2, _⟩ := C18_open k hk cwd m.fs t y.1 e hm.1 hm.2 hxe
          exact ⟨h1, m, List.mem_cons_self, by rw [h2]; exact List.prefix_append _ _⟩
        · obtain ⟨h1, m', hm', h2⟩ :=
            ih rest (fun x hx => hms x (List.mem_cons_of_mem _ hx)) hrest x hx e hxe
          exact ⟨h1, m', List.mem_cons_of_mem _ hm', h2⟩

/-- Non-vacuity: a chain with a sub-folder prefix finds a file, and rejects an escaping name. -/
example :
    let fs : RawFS := ⟨['/','r'], true⟩
    let t : Tree := [⟨[['r'], ['s'], ['f']], 7⟩, ⟨[['r','_','e']], 9⟩]
    (chainOpen ⟨.sepTerminated, true, true⟩ ['/'] t [⟨fs, ['s']⟩] ['f']).map (·.id) = .ok 7
    ∧ (chainOpen ⟨.sepTerminated, true, true⟩ ['/'] t [⟨fs, ['s']⟩] ['.','.','/','.','.','/','r','_','e']).map (·.id) = .error .escape
    ∧ (chainOpen ⟨.stringPrefix, false, false⟩ ['/'] t [⟨fs, ['s']⟩] ['.','.','/','.','.','/','r','_','e']).map (·.id) = .ok 9 := by
  decide +kernel

/-- **`unify_path`.** An accepted pack path is relative (no leading slash), does not contain the
substring `../`, and hence `..` can only be its *last* component: joined to any root it never
names a file outside that root (a path ending in `..` names a directory). -/
theorem C18_unify (fold : Char → List Char) (p q : Str) (h : unifyPath fold p = some q) :
    isAbs q = false ∧ hasInfix ['.', '.', '/'] q = false ∧
    ∀ pre c post, splitOn '/' q ≠ pre ++ dotdot :: c :: post := by
  unfold unifyPath at h
  simp only at h
  split at h
  · cases h
  · rename_i hi
    simp only [Bool.not_eq_true] at hi
    simp only [Option.some.injEq] at h
    subst h
    have h2 := hasInfix_dropWhile (· == '/') _ hi
    refine ⟨?_, h2, no_inner_dotdot _ h2⟩
    have := List.head?_dropWhile_not (· == '/') (replaceBS (foldStr fold (normpath p)))
    unfold isAbs
    cases hh : (List.dropWhile (· == '/') (replaceBS (foldStr fold (normpath p)))).head? with
    | none => simp
    | some x =>
      rw [hh] at this
      simp only [beq_eq_false_iff_ne, ne_eq] at this
      simp [this]

/-- `..` as the last component does get through (`unify_path("a\\..")` is `"a/.."`, a directory). -/
example : unifyPath (fun c => [c]) ['a', '\\', '.', '.'] = some ['a', '/', '.', '.'] := by decide +kernel
example : unifyPath (fun c => [c]) ['.', '.', '\\', 'x'] = none := by decide +kernel
example : unifyPath (fun c => [c]) ['/', 'a', '/', '.', '/', 'b'] = some ['a', '/', 'b'] := by decide +kernel

end C18
