import Srctools.Proofs.C19
import Srctools.Gen.Fswalk
/-!
# C19 — all filesystem backends resolve names alike; chains honour priority

Property theorems only, about the model `C19` (Model/C19.lean): Python-dict semantics, the three
archive-like backends as coded, chains as coded.  `C19_gen_ok` ties the folder matching of the
three `walk_folder` methods to what `/repo/src/srctools/filesys.py` contains *now*
(Gen/Fswalk.lean is regenerated on every run).
`FoldOK fold` is what is assumed of `str.casefold` (slashes fixed, never produced).
`NormNames F`: every stored name is a normalised path without backslash or trailing slash.
-/
namespace C19
open Path

/-- OBLIGATION on the current source: the three `walk_folder` methods have the fixed shape
(root folder special case, separator-terminated folder, both sides case-folded). -/
theorem C19_gen_ok : Gen.Fswalk.walkCfg = WalkCfg.fixed := by decide

/-- Stored names are normalised relative-path strings. -/
def NormNames (F : FileSet) : Prop :=
  ∀ e ∈ F, normpath e.name = e.name ∧ '\\' ∉ e.name ∧ endsWithSep e.name = false

theorem C19_same_dict {fold : Char → List Char} (hF : FoldOK fold) (F : FileSet) (hN : NormNames F) :
    mapV fold F = dictOf (F.map fun e => (foldStr fold e.name, e)) ∧
    mapZ fold F = dictOf (F.map fun e => (foldStr fold e.name, e)) ∧
    mapP fold F = dictOf (F.map fun e => (foldStr fold e.name, e)) := by
  refine ⟨?_, ?_, ?_⟩
  · unfold mapV
    congr 1
    apply List.map_congr_left
    intro e he
    obtain ⟨h1, h2, _⟩ := hN e he
    simp only [cleanV, h1, replaceBS_of_not_mem _ h2]
  · unfold mapZ
    congr 2
    apply List.filter_eq_self.mpr
    intro e he
    simp [(hN e he).2.2]
  · unfold mapP
    congr 1
    apply List.map_congr_left
    intro e he
    obtain ⟨_, h2, _⟩ := hN e he
    simp only [keyP_eq_keyZ hF, keyZ, replaceBS_of_not_mem _ h2]

/-- **Agreement of lookups.** Over the same normalised file set the in-memory, zip and VPK
filesystems find the same file (or all find none) for every query whose spelling is normalised
up to letter case and the kind of slash. -/
theorem C19_agree {fold : Char → List Char} (hF : FoldOK fold) (F : FileSet) (hN : NormNames F)
    (q : Str) (hq : normpath q = q) :
    (lookupV fold F q).map (·.2) = (lookupZ fold F q).map (·.2) ∧
    (lookupP fold F q).map (·.2) = (lookupZ fold F q).map (·.2) := by
  obtain ⟨hV, hZ, hP⟩ := C19_same_dict hF F hN
  unfold lookupV lookupZ lookupP
  rw [hV, hZ, hP, keyP_eq_keyZ hF]
  simp only [cleanV, hq, keyZ, Option.map_map]
  constructor <;> rfl

/-- non-vacuity: mixed case, both slashes. -/
example :
    let fold : Char → List Char := fun c => if c = 'M' then ['m'] else if c = 'A' then ['a'] else if c = 'T' then ['t'] else [c]
    let F : FileSet := [⟨['m','a','t','/','a'], 1⟩, ⟨['M','a','t','2','/','A'], 2⟩]
    (lookupV fold F ['M','A','T','\\','A']).map (·.2.id) = some 1
    ∧ (lookupZ fold F ['M','A','T','\\','A']).map (·.2.id) = some 1
    ∧ (lookupP fold F ['M','A','T','\\','A']).map (·.2.id) = some 1
    ∧ (lookupZ fold F ['m','a','t']).map (·.2.id) = none := by
  decide +kernel

/-- **Walk lists exactly the folder (zip).** -/
theorem C19_walk_zip (fold : Char → List Char) (F : FileSet) (hN : NormNames F) (d : Str)
    (hd : endsWithSep (keyZ fold d) = false) :
    walkZ .fixed fold F d = walkSpec fold F (keyZ fold d) := by
  have hZ : mapZ fold F = dictOf (F.map fun e => (foldStr fold e.name, e)) := by
    unfold mapZ
    congr 2
    apply List.filter_eq_self.mpr
    intro e he
    simp [(hN e he).2.2]
  unfold walkZ walkSpec
  simp only [hZ, WalkCfg.fixed, hd, Bool.true_and, Bool.not_false, Bool.and_true]
  congr 2
  funext kv
  unfold inFolder
  cases h : (keyZ fold d).isEmpty with
  | true =>
    have : keyZ fold d = [] := List.isEmpty_iff.mp h
    simp [this]
  | false => simp

/-- **Walk lists exactly the folder (in-memory).** The cleaned folder `"."` (what `normpath`
makes of `""`) is the root folder and lists everything. (`normpath` never returns `""`, so the
cleaned folder is empty only if `casefold` erased every character — excluded by `hne`.) -/
theorem C19_walk_virtual {fold : Char → List Char} (hF : FoldOK fold) (F : FileSet) (hN : NormNames F)
    (d : Str) (hd : endsWithSep (cleanV fold d) = false) (hne : cleanV fold d ≠ []) :
    walkV .fixed fold F d = walkSpec fold F (if cleanV fold d = dot then [] else cleanV fold d) := by
  obtain ⟨hV, _, _⟩ := C19_same_dict hF F hN
  unfold walkV walkSpec
  simp only [hV, WalkCfg.fixed, hd, Bool.true_and, Bool.not_false, if_true, beq_iff_eq]
  congr 2
  funext kv
  unfold inFolder
  by_cases h : cleanV fold d = dot
  · simp [h]
  · have he : (cleanV fold d).isEmpty = false := by
      cases hc : cleanV fold d with
      | nil => exact absurd hc hne
      | cons _ _ => rfl
    simp [h, he]

/-- VPK compares the folder with the directory part of a name; with a terminating separator on both
sides that is the same as comparing it with the whole name. -/
theorem vpk_dir_match {fold : Char → List Char} (hF : FoldOK fold) (D : Str) (hne : D ≠ []) (name : Str) :
    (D ++ ['/']).isPrefixOf (foldStr fold (dirOf name) ++ ['/']) = (D ++ ['/']).isPrefixOf (foldStr fold name) := by
  obtain ⟨base, hb, hcase⟩ := name_dir_base name
  have hfb := foldStr_no_sep hF base hb
  rw [Bool.eq_iff_iff]
  simp only [List.isPrefixOf_iff_prefix]
  rcases hcase with ⟨hi, hn⟩ | ⟨_, hn⟩
  · -- top-level file: no directory part
    have hdir : dirOf name = [] := by simp [dirOf, hi, joinWith]
    have hnil : foldStr fold ([] : Str) = [] := rfl
    have hke : foldStr fold name = foldStr fold base := by rw [← hn]
    rw [hdir, hnil, List.nil_append, hke]
    constructor
    · intro hp
      exfalso
      have := List.IsPrefix.length_le hp
      simp only [List.length_append, List.length_cons, List.length_nil] at this
      exact hne (List.length_eq_zero_iff.mp (by omega))
    · intro hp
      exfalso
      apply hfb
      exact (List.IsPrefix.subset hp) (by simp)
  · have hk : foldStr fold name = foldStr fold (dirOf name) ++ '/' :: foldStr fold base := by
      conv => lhs; rw [hn]
      rw [foldStr_append, foldStr_cons, hF.sl]; rfl
    have := prefix_dir_iff D (foldStr fold (dirOf name)) (foldStr fold base) hfb
    rw [← hk] at this
    exact this.symm

/-- **Walk lists exactly the folder (VPK).** VPK matches on the directory part of each stored
name; that is the same set. -/
theorem C19_walk_vpk {fold : Char → List Char} (hF : FoldOK fold) (F : FileSet) (hN : NormNames F)
    (d : Str) (hd : endsWithSep (keyZ fold d) = false) :
    walkP .fixed fold F d = walkSpec fold F (keyZ fold d) := by
  obtain ⟨_, _, hP⟩ := C19_same_dict hF F hN
  unfold walkP walkSpec
  simp only [hP, WalkCfg.fixed, hd, Bool.true_and, Bool.not_false, Bool.and_true, if_true]
  congr 1
  apply List.filter_congr
  intro kv hkv
  have hmem := mem_dictOf _ kv hkv
  obtain ⟨e, _, rfl⟩ := List.mem_map.mp hmem
  simp only
  unfold inFolder
  cases h : (keyZ fold d).isEmpty with
  | true =>
    have : keyZ fold d = [] := List.isEmpty_iff.mp h
    simp [this]
  | false =>
    have hne : keyZ fold d ≠ [] := by intro e0; simp [e0] at h
    simp only [Bool.not_false, if_true, Bool.false_or]
    exact vpk_dir_match hF (keyZ fold d) hne e.name

/-- **A folder given with one trailing separator** (`"materials/"`, what a chain passes for the
root of a prefixed member) lists the same as without it: zip … -/
theorem C19_walk_zip_slash (fold : Char → List Char) (F : FileSet) (hN : NormNames F) (d D : Str)
    (hD : D ≠ []) (hd : keyZ fold d = D ++ ['/']) :
    walkZ .fixed fold F d = walkSpec fold F D := by
  have hZ : mapZ fold F = dictOf (F.map fun e => (foldStr fold e.name, e)) := by
    unfold mapZ
    congr 2
    apply List.filter_eq_self.mpr
    intro e he
    simp [(hN e he).2.2]
  have hends : endsWithSep (D ++ ['/']) = true := by simp [endsWithSep]
  have hemp : D.isEmpty = false := by cases D with | nil => exact absurd rfl hD | cons _ _ => rfl
  unfold walkZ walkSpec
  simp only [hZ, hd, hends, WalkCfg.fixed, Bool.not_true, Bool.and_false, Bool.false_eq_true, if_false]
  congr 2
  funext kv
  simp [inFolder, hemp]

/-- … and VPK. (The in-memory filesystem normalises the folder first: `C19_walk_virtual`.) -/
theorem C19_walk_vpk_slash {fold : Char → List Char} (hF : FoldOK fold) (F : FileSet) (hN : NormNames F)
    (d D : Str) (hD : D ≠ []) (hd : keyZ fold d = D ++ ['/']) :
    walkP .fixed fold F d = walkSpec fold F D := by
  obtain ⟨_, _, hP⟩ := C19_same_dict hF F hN
  have hends : endsWithSep (D ++ ['/']) = true := by simp [endsWithSep]
  have hemp : D.isEmpty = false := by cases D with | nil => exact absurd rfl hD | cons _ _ => rfl
  unfold walkP walkSpec
  simp only [hP, hd, hends, WalkCfg.fixed, Bool.not_true, Bool.and_false, Bool.false_eq_true, if_false, if_true]
  congr 1
  apply List.filter_congr
  intro kv hkv
  have hmem := mem_dictOf _ kv hkv
  obtain ⟨e, _, rfl⟩ := List.mem_map.mp hmem
  simp only [inFolder, hemp, Bool.false_or]
  exact vpk_dir_match hF D hD e.name

/-- **Every listed name can be looked up and yields that file** (in-memory; any folder,
any file set, before and after the fixes). -/
theorem C19_walk_sound_virtual (c : WalkCfg) (fold : Char → List Char) (F : FileSet) (d : Str)
    (p : Str) (e : FEnt) (h : (p, e) ∈ walkV c fold F d) :
    lookupV fold F p = some (p, e) := by
  unfold walkV at h
  simp only [List.mem_map, List.mem_filter] at h
  obtain ⟨kv, ⟨hkv, _⟩, heq⟩ := h
  simp only [Prod.mk.injEq] at heq
  obtain ⟨rfl, rfl⟩ := heq
  have hmem := mem_dictOf _ kv hkv
  obtain ⟨e', _, he'⟩ := List.mem_map.mp hmem
  have hk : kv.1 = cleanV fold kv.2.name := by rw [← he']
  have hg := dictGet_of_mem (mapV fold F) (dictOf_nodup _) kv.1 kv.2 hkv
  unfold lookupV
  rw [← hk, hg]
  rfl

/-- **Every listed name can be looked up and yields that file** (zip; stored names without
backslashes). -/
theorem C19_walk_sound_zip (c : WalkCfg) (fold : Char → List Char) (F : FileSet)
    (hN : ∀ e ∈ F, '\\' ∉ e.name) (d : Str) (p : Str) (e : FEnt) (h : (p, e) ∈ walkZ c fold F d) :
    lookupZ fold F p = some (p, e) := by
  unfold walkZ at h
  simp only [List.mem_map, List.mem_filter] at h
  obtain ⟨kv, ⟨hkv, _⟩, heq⟩ := h
  simp only [Prod.mk.injEq] at heq
  obtain ⟨rfl, rfl⟩ := heq
  have hmem := mem_dictOf _ kv hkv
  obtain ⟨e', he'F, he'⟩ := List.mem_map.mp hmem
  have hbs : '\\' ∉ kv.2.name := by
    rw [← he']; exact hN e' (List.mem_filter.mp he'F).1
  have hk : kv.1 = keyZ fold kv.2.name := by
    rw [← he']; simp only [keyZ]
    rw [replaceBS_of_not_mem _ (by rw [← he'] at hbs; exact hbs)]
  have hg := dictGet_of_mem (mapZ fold F) (dictOf_nodup _) kv.1 kv.2 hkv
  unfold lookupZ
  rw [← hk, hg, replaceBS_of_not_mem _ hbs]
  rfl

/-- **Every listed name can be looked up and yields that file** (VPK: the `File` found carries
the folded key as its path, the file is the same). -/
theorem C19_walk_sound_vpk (c : WalkCfg) (fold : Char → List Char) (F : FileSet) (d : Str)
    (p : Str) (e : FEnt) (h : (p, e) ∈ walkP c fold F d) :
    (lookupP fold F p).map (·.2) = some e := by
  unfold walkP at h
  simp only [List.mem_map, List.mem_filter] at h
  obtain ⟨kv, ⟨hkv, _⟩, heq⟩ := h
  simp only [Prod.mk.injEq] at heq
  obtain ⟨rfl, rfl⟩ := heq
  have hmem := mem_dictOf _ kv hkv
  obtain ⟨e', _, he'⟩ := List.mem_map.mp hmem
  have hk : kv.1 = keyP fold kv.2.name := by rw [← he']
  have hg := dictGet_of_mem (mapP fold F) (dictOf_nodup _) kv.1 kv.2 hkv
  unfold lookupP
  rw [← hk, hg]
  rfl

/-- Files of a directory backend: relative names without `.`/`..` and without backslashes. -/
def RawNames (F : FileSet) : Prop :=
  ∀ e ∈ F, isAbs e.name = false ∧ '\\' ∉ e.name ∧ ∀ c ∈ comps e.name, c ≠ dot ∧ c ≠ dotdot

/-- **The directory filesystem agrees for exact-case names.** Over a file set whose names are
pairwise distinct as paths, a query that spells a stored name exactly (with either slash) finds
that file in the directory backend (root in normal form, constraint on) … -/
theorem C19_agree_raw (E : Env) (hk : E.rawCfg.contain = .sepTerminated)
    (hfs : E.rawCfg.foldSlash = true) (F : FileSet) (root : Str) (hroot : NormalAbs root)
    (hF : RawNames F) (hdist : (F.map fun e => comps e.name).Nodup)
    (e : FEnt) (he : e ∈ F) (q : Str) (hq : replaceBS q = e.name) :
    lookup E ⟨.raw, F, root⟩ q = .ok (e.name, e.id) := by
  obtain ⟨h1, h2, h3⟩ := hF e he
  have hbs : replaceBS e.name = e.name := replaceBS_of_not_mem _ h2
  have acc := fun (p : Str) (hp : replaceBS p = e.name) =>
    C18.accepts E.rawCfg hk E.cwd (rawFS ⟨.raw, F, root⟩) hroot p
      (by simp only [hfs, if_true, hp]; exact h1) (by simp only [hfs, if_true, hp]; exact h3)
  obtain ⟨q1, hr1, hc1⟩ := acc q hq
  obtain ⟨q2, hr2, hc2⟩ := acc e.name hbs
  simp only [hfs, if_true, hq, hbs] at hc1 hc2
  have hf1 := fileAt_rawTree F root q1 e he hdist hc1
  have hf2 := fileAt_rawTree F root q2 e he hdist hc2
  unfold lookup
  simp only
  have hg : C18.getFile E.rawCfg E.cwd (rawFS ⟨.raw, F, root⟩) (rawTree ⟨.raw, F, root⟩) q = .ok e.name := by
    unfold C18.getFile
    rw [hr1]
    simp only [bind, Except.bind, hf1, Option.isSome_some, if_true, pure, Except.pure, hq]
  have ho : C18.openName E.rawCfg E.cwd (rawFS ⟨.raw, F, root⟩) (rawTree ⟨.raw, F, root⟩) e.name
      = .ok ⟨comps root ++ comps e.name, e.id⟩ := by
    unfold C18.openName
    rw [hr2]
    simp only [bind, Except.bind, hf2, pure, Except.pure]
  rw [hg]
  simp only [bind, Except.bind, ho, pure, Except.pure]

/-- … and the archive-like backends find the same file when, in addition, the stored names are
pairwise distinct up to case: all four return the bytes of `e`. -/
theorem C19_agree_all {fold : Char → List Char} (hF : FoldOK fold) (F : FileSet) (hN : NormNames F)
    (hdist : (F.map fun e => foldStr fold e.name).Nodup) (e : FEnt) (he : e ∈ F) (q : Str)
    (hq : replaceBS q = e.name) (hqn : normpath q = q) :
    (lookupV fold F q).map (·.2) = some e ∧ (lookupZ fold F q).map (·.2) = some e ∧
    (lookupP fold F q).map (·.2) = some e := by
  obtain ⟨h1, h2⟩ := C19_agree hF F hN q hqn
  have hnd : ((F.map fun e => (foldStr fold e.name, e)).map (·.1)).Nodup := by
    rw [List.map_map]; exact hdist
  have hz : (lookupZ fold F q).map (·.2) = some e := by
    obtain ⟨_, hZ, _⟩ := C19_same_dict hF F hN
    have hd : dictOf (F.map fun e => (foldStr fold e.name, e)) = F.map fun e => (foldStr fold e.name, e) :=
      dictOf_of_nodup _ hnd
    unfold lookupZ
    rw [hZ, hd]
    have hkey : keyZ fold q = foldStr fold e.name := by simp [keyZ, hq]
    have hmem : (foldStr fold e.name, e) ∈ F.map fun e => (foldStr fold e.name, e) :=
      List.mem_map.mpr ⟨e, he, rfl⟩
    rw [hkey, dictGet_of_mem _ hnd _ _ hmem]
    rfl
  exact ⟨h1.trans hz, hz, h2.trans hz⟩

/-- The three defects of the original `walk_folder` methods, as model facts: the root folder of
an in-memory filesystem lists nothing; `"ma"` lists `mat/a` in all three; `"Mat"` misses `Mat/b`
(in-memory) and `"MAT"` misses `mat/a` (VPK). All are repaired in the fixed configuration. -/
theorem C19_walk_bugs :
    let fold : Char → List Char := fun c => if c = 'M' then ['m'] else if c = 'A' then ['a'] else if c = 'T' then ['t'] else [c]
    let F : FileSet := [⟨['m','a','t','/','a'], 1⟩]
    let G : FileSet := [⟨['M','a','t','/','b'], 2⟩]
    walkV .original fold F [] = []
    ∧ (walkV .original fold F ['m','a']).length = 1
    ∧ (walkZ .original fold F ['m','a']).length = 1
    ∧ (walkP .original fold F ['m','a']).length = 1
    ∧ walkV .original fold G ['M','a','t'] = []
    ∧ walkP .original fold F ['M','A','T'] = []
    ∧ (walkV .fixed fold F []).length = 1
    ∧ walkV .fixed fold F ['m','a'] = [] ∧ walkZ .fixed fold F ['m','a'] = [] ∧ walkP .fixed fold F ['m','a'] = []
    ∧ (walkV .fixed fold G ['M','a','t']).length = 1
    ∧ (walkP .fixed fold F ['M','A','T']).length = 1 := by
  decide +kernel

/-- **A chain returns the first member that has the name**: every earlier member answered
"not found" for its own `prefix/name`, and the content is that member's. -/
theorem C19_chain (E : Env) (name : Str) (ms : List Member) (full : Str) (i : Nat)
    (h : chainLookup E name ms = .ok (full, i)) :
    ∃ pre m post, ms = pre ++ m :: post ∧ full = replaceBS (join2 m.pfx name) ∧
      (∀ m' ∈ pre, lookup E m'.b (replaceBS (join2 m'.pfx name)) = .error .notFound) ∧
      ∃ p, lookup E m.b full = .ok (p, i) := by
  induction ms with
  | nil => simp [chainLookup] at h
  | cons m ms ih =>
    rw [chainLookup] at h
    split at h
    · rename_i p' i' hl
      simp only [Except.ok.injEq, Prod.mk.injEq] at h
      obtain ⟨rfl, rfl⟩ := h
      exact ⟨[], m, ms, rfl, rfl, by simp, p', hl⟩
    · rename_i hl
      obtain ⟨pre, m', post, rfl, hfull, hpre, hfound⟩ := ih h
      refine ⟨m :: pre, m', post, rfl, hfull, ?_, hfound⟩
      intro x hx
      rcases List.mem_cons.mp hx with rfl | hx
      · exact hl
      · exact hpre x hx
    · cases h

/-- Conversely: if all earlier members lack the name and member `m` has it, the chain returns
`m`'s file under the name `prefix/name`. -/
theorem C19_chain_first (E : Env) (name : Str) (pre : List Member) (m : Member) (post : List Member)
    (p : Str) (i : Nat)
    (hpre : ∀ m' ∈ pre, lookup E m'.b (replaceBS (join2 m'.pfx name)) = .error .notFound)
    (hm : lookup E m.b (replaceBS (join2 m.pfx name)) = .ok (p, i)) :
    chainLookup E name (pre ++ m :: post) = .ok (replaceBS (join2 m.pfx name), i) := by
  induction pre with
  | nil => simp [chainLookup, hm]
  | cons x pre ih =>
    simp only [List.cons_append]
    rw [chainLookup]
    simp only [hpre x List.mem_cons_self]
    exact ih (fun m' hm' => hpre m' (List.mem_cons_of_mem _ hm'))

/-- **Priority insertion**: a member added with `priority=True` that has the name wins. -/
theorem C19_priority (E : Env) (name : Str) (ms : List Member) (m : Member) (p : Str) (i : Nat)
    (hm : lookup E m.b (replaceBS (join2 m.pfx name)) = .ok (p, i)) :
    chainLookup E name (addSys ms m true) = .ok (replaceBS (join2 m.pfx name), i) := by
  simpa [addSys] using C19_chain_first E name [] m ms p i (by simp) hm

/-- **De-duplicated chain walk**: it is a sub-list of the repeating walk (first occurrences
kept, order kept), no two listed paths are equal up to case, and every path of the repeating
walk is represented. -/
theorem C19_dedup (E : Env) (folder : Str) (ms : List Member) (l : List (Str × Nat))
    (h : chainWalk E folder ms = .ok l) :
    ∃ l0, chainWalkRepeat E folder ms = .ok l0 ∧ l.Sublist l0 ∧
      (l.map fun x => foldStr E.fold x.1).Nodup ∧
      ∀ x ∈ l0, ∃ y ∈ l, foldStr E.fold y.1 = foldStr E.fold x.1 := by
  unfold chainWalk at h
  cases h0 : chainWalkRepeat E folder ms with
  | error e => rw [h0] at h; cases h
  | ok l0 =>
    rw [h0] at h
    simp only [bind, Except.bind, pure, Except.pure, Except.ok.injEq] at h
    subst h
    refine ⟨l0, rfl, dedupFold_sublist _ _ _, dedupFold_nodup _ _ _, ?_⟩
    intro x hx
    rcases dedupFold_cover E.fold [] l0 x hx with h | h
    · cases h
    · exact h

/-- **A chain object has no memory.** In any history of mutations (`add_sys` with either priority,
`systems.pop(i)`) and queries on one chain object, each operation's result is what that operation
returns on the member list as it is at that moment — nothing earlier queries returned matters. -/
theorem C19_history (E : Env) (ms : List Member) (pre : List Op) (op : Op) (post : List Op) :
    (runHist E ms (pre ++ op :: post))[pre.length]? = some (observe E (pre.foldl applyOp ms) op) := by
  induction pre generalizing ms with
  | nil => simp [runHist]
  | cons o pre ih =>
    simp only [List.cons_append, runHist, List.length_cons, List.getElem?_cons_succ, List.foldl_cons]
    exact ih (applyOp ms o)

/-- No stale misses: a name that no member had is found as soon as a member that has it is
appended (`priority=False`), with that member's content. -/
theorem C19_history_append (E : Env) (name : Str) (ms : List Member) (m : Member) (p : Str) (i : Nat)
    (hmiss : chainLookup E name ms = .error .notFound)
    (hm : lookup E m.b (replaceBS (join2 m.pfx name)) = .ok (p, i)) :
    chainLookup E name (applyOp ms (.add m false)) = .ok (replaceBS (join2 m.pfx name), i) := by
  have hall : ∀ m' ∈ ms, lookup E m'.b (replaceBS (join2 m'.pfx name)) = .error .notFound := by
    induction ms with
    | nil => intro m' h; cases h
    | cons x r ih =>
      rw [chainLookup] at hmiss
      split at hmiss
      · cases hmiss
      · rename_i hx
        intro m' hm'
        rcases List.mem_cons.mp hm' with rfl | hm'
        · exact hx
        · exact ih hmiss m' hm'
      · cases hmiss
  simpa [applyOp, addSys] using C19_chain_first E name ms m [] p i hall hm

end C19

/-! ## auxiliary definitions and lemmas for the chain-walk theorems -/

namespace C19
open Path C18

/-- The folder a member is asked to walk is the root (`""`) or — after dropping one trailing
separator — a non-empty normal relative path whose folded form is non-degenerate. -/
def FolderOK (fold : Char → List Char) (x : Str) : Prop :=
  x = [] ∨ (NormRel (stripSep x) ∧ stripSep x ≠ [] ∧ keyZ fold (stripSep x) ≠ [] ∧
    keyZ fold (stripSep x) ≠ dot ∧ endsWithSep (keyZ fold (stripSep x)) = false)

theorem keyZ_append_sep {fold : Char → List Char} (hF : FoldOK fold) (x : Str) :
    keyZ fold (x ++ ['/']) = keyZ fold x ++ ['/'] := by
  simp only [keyZ, replaceBS_append, foldStr_append]
  have : replaceBS ['/'] = ['/'] := by decide
  rw [this]
  simp [foldStr, hF.sl]

/-- All three archive-like backends list exactly `walkSpec` of the folded folder (one trailing
separator ignored). -/
theorem walk_eq_spec (E : Env) (hF : FoldOK E.fold) (hdot : E.fold '.' = ['.']) (F : FileSet)
    (hN : NormNames F) (x : Str) (hx : FolderOK E.fold x) :
    walkV .fixed E.fold F x = walkSpec E.fold F (keyZ E.fold (stripSep x)) ∧
    walkZ .fixed E.fold F x = walkSpec E.fold F (keyZ E.fold (stripSep x)) ∧
    walkP .fixed E.fold F x = walkSpec E.fold F (keyZ E.fold (stripSep x)) := by
  rcases hx with rfl | ⟨hrel, hne, hk1, hk2, hk3⟩
  · have hs : stripSep ([] : Str) = [] := rfl
    have hkz : endsWithSep (keyZ E.fold []) = false := rfl
    rw [hs]
    refine ⟨?_, C19_walk_zip E.fold F hN [] hkz, C19_walk_vpk hF F hN [] hkz⟩
    have hc : cleanV E.fold [] = dot := by
      simp [cleanV, normpath, dot, replaceBS, foldStr, hdot]
    rw [C19_walk_virtual hF F hN [] (by rw [hc]; rfl) (by rw [hc]; decide)]
    simp [hc, keyZ, replaceBS, foldStr]
  · obtain ⟨hn1, hn2⟩ := normpath_normRel (stripSep x) hrel hne
    rcases stripSep_cases x with ⟨_, hs⟩ | ⟨_, hs⟩
    · -- no trailing separator
      rw [hs] at hn1 hk1 hk2 hk3 ⊢
      refine ⟨?_, C19_walk_zip E.fold F hN x hk3, C19_walk_vpk hF F hN x hk3⟩
      have hc : cleanV E.fold x = keyZ E.fold x := by simp [cleanV, keyZ, hn1]
      rw [C19_walk_virtual hF F hN x (by rw [hc]; exact hk3) (by rw [hc]; exact hk1)]
      simp [hc, hk2]
    · -- one trailing separator
      have hkx : keyZ E.fold x = keyZ E.fold (stripSep x) ++ ['/'] := by
        conv => lhs; rw [hs]
        exact keyZ_append_sep hF _
      refine ⟨?_, C19_walk_zip_slash E.fold F hN x _ hk1 hkx, C19_walk_vpk_slash hF F hN x _ hk1 hkx⟩
      have hc : cleanV E.fold x = keyZ E.fold (stripSep x) := by
        conv => lhs; rw [hs]
        simp [cleanV, keyZ, hn2]
      rw [C19_walk_virtual hF F hN x (by rw [hc]; exact hk3) (by rw [hc]; exact hk1)]
      simp [hc, hk2]

theorem walkB_spec (E : Env) (hE : E.walkCfg = .fixed) (hF : FoldOK E.fold)
    (hdot : E.fold '.' = ['.']) (b : Backend) (hk : b.kind ≠ .raw) (hN : NormNames b.files)
    (x : Str) (hx : FolderOK E.fold x) :
    walkB E b x = .ok ((walkSpec E.fold b.files (keyZ E.fold (stripSep x))).map fun y => (y.1, y.2.id)) := by
  obtain ⟨hv, hz, hp⟩ := walk_eq_spec E hF hdot b.files hN x hx
  unfold walkB
  cases hkind : b.kind with
  | raw => exact absurd hkind hk
  | zip => simp only [hE, hz]
  | vpk => simp only [hE, hp]
  | virt => simp only [hE, hv]

/-- Hypotheses on one chain member for the folder `d` (`PrefixExact` is the field `exact`). -/
structure MemberOK (E : Env) (d : Str) (m : Member) : Prop where
  notRaw : m.b.kind ≠ .raw
  names : NormNames m.b.files
  namesRel : ∀ e ∈ m.b.files, NormRel e.name ∧ e.name ≠ []
  pfx : NormRel m.pfx
  folder : FolderOK E.fold (replaceBS (join2 m.pfx d))
  /-- PrefixExact: stored names inside the (case-folded) prefix folder spell it exactly. -/
  exact : m.pfx ≠ [] → ∀ e ∈ m.b.files,
    inFolder (keyZ E.fold m.pfx) (foldStr E.fold e.name) = true → (m.pfx ++ ['/']) <+: e.name

/-- What a chain walk lists for one member: the stored names inside `prefix/d`, each expressed
relative to the prefix, with the member's content. -/
def memberListing (E : Env) (d : Str) (m : Member) : List (Str × Nat) :=
  (walkSpec E.fold m.b.files (keyZ E.fold (stripSep (replaceBS (join2 m.pfx d))))).map
    fun y => (stripPfx m.pfx y.1, y.2.id)

theorem no_bs_joinWith (cs : List Str) (hc : ∀ c ∈ cs, '\\' ∉ c) : '\\' ∉ joinWith '/' cs := by
  induction cs with
  | nil => simp [joinWith]
  | cons x r ih =>
    rw [joinWith_cons_eq]
    intro hm
    rcases List.mem_append.mp hm with hm | hm
    · exact hc x List.mem_cons_self hm
    · obtain ⟨y, hy, hmy⟩ := List.mem_flatMap.mp hm
      rcases List.mem_cons.mp hmy with e | hmy
      · exact absurd e (by decide)
      · exact hc y (List.mem_cons_of_mem _ hy) hmy

theorem normRel_no_bs (p : Str) (h : NormRel p) : '\\' ∉ p := by
  rw [h.1]
  exact no_bs_joinWith _ (fun c hc => (h.2 c hc).2.2)

theorem mem_walkSpec {fold : Char → List Char} {F : FileSet} {D : Str} {y : Str × FEnt}
    (h : y ∈ walkSpec fold F D) :
    y.2 ∈ F ∧ y.1 = y.2.name ∧ inFolder D (foldStr fold y.2.name) = true := by
  unfold walkSpec at h
  obtain ⟨kv, hkv, rfl⟩ := List.mem_map.mp h
  obtain ⟨hd, hin⟩ := List.mem_filter.mp hkv
  obtain ⟨e, he, rfl⟩ := List.mem_map.mp (mem_dictOf _ kv hd)
  exact ⟨he, rfl, hin⟩

theorem normRel_endsWithSep (p : Str) (hp : NormRel p) (hpe : p ≠ []) : endsWithSep p = false := by
  have hpc : comps p ≠ [] := by intro e; apply hpe; rw [hp.1, e]; rfl
  have hl : comps p = (comps p).dropLast ++ [(comps p).getLast hpc] :=
    (List.dropLast_concat_getLast hpc).symm
  have hlast := mem_comps p _ (List.getLast_mem hpc)
  rw [hp.1, hl]
  by_cases hdl : (comps p).dropLast = []
  · rw [hdl]; simp only [List.nil_append, joinWith]
    simpa using endsWithSep_append_clean [] _ hlast.1 hlast.2
  · rw [joinWith_append '/' _ _ [] hdl]
    simp only [joinWith]
    have : joinWith '/' (comps p).dropLast ++ '/' :: (comps p).getLast hpc
        = (joinWith '/' (comps p).dropLast ++ ['/']) ++ (comps p).getLast hpc := by simp
    rw [this]
    exact endsWithSep_append_clean _ _ hlast.1 hlast.2

/-- the folded prefix folder contains what the folded `prefix/d` folder contains. -/
theorem inFolder_prefix {fold : Char → List Char} (hF : FoldOK fold) (p d k : Str) (hp : NormRel p)
    (hpe : p ≠ []) (hd : isAbs d = false)
    (h : inFolder (keyZ fold (stripSep (replaceBS (join2 p d)))) k = true) :
    inFolder (keyZ fold p) k = true := by
  have hpend := normRel_endsWithSep p hp hpe
  have hj : join2 p d = p ++ '/' :: d := by unfold join2; simp [hd, hpe, hpend]
  have hbs := replaceBS_of_not_mem p (normRel_no_bs p hp)
  have hx : replaceBS (join2 p d) = (p ++ ['/']) ++ replaceBS d := by
    rw [hj, replaceBS_append, hbs]
    simp [replaceBS]
  rw [hx] at h
  by_cases hde : replaceBS d = []
  · rw [hde, List.append_nil, stripSep_append p ['/'] (by simp)] at h
    have : stripSep ['/'] = [] := by decide
    rw [this, List.append_nil] at h
    exact h
  · rw [stripSep_append _ _ hde] at h
    have hk : keyZ fold (p ++ ['/'] ++ stripSep (replaceBS d))
        = keyZ fold p ++ '/' :: keyZ fold (stripSep (replaceBS d)) := by
      rw [List.append_assoc]
      simp only [keyZ, replaceBS_append, foldStr_append]
      have : replaceBS ['/'] = ['/'] := by decide
      rw [this]
      simp [foldStr, hF.sl]
    rw [hk] at h
    unfold inFolder at h ⊢
    have hne : (keyZ fold p ++ '/' :: keyZ fold (stripSep (replaceBS d))).isEmpty = false := by
      cases keyZ fold p <;> rfl
    rw [hne, Bool.false_or, List.isPrefixOf_iff_prefix] at h
    simp only [Bool.or_eq_true, List.isPrefixOf_iff_prefix]
    right
    refine List.IsPrefix.trans ?_ h
    exact ⟨keyZ fold (stripSep (replaceBS d)) ++ ['/'], by simp⟩

/-- One member's contribution to a chain walk. -/
theorem member_walk (E : Env) (hE : E.walkCfg = .fixed) (hF : FoldOK E.fold)
    (hdot : E.fold '.' = ['.']) (hcwd : NormalAbs E.cwd) (d : Str) (hd : isAbs d = false)
    (m : Member) (h : MemberOK E d m) :
    ∃ fl, walkB E m.b (replaceBS (join2 m.pfx d)) = .ok fl ∧
      fl.map (fun x => (replaceBS ((relpath E.cwd x.1
          (if E.rawCfg.chainRelSlash then replaceBS m.pfx else m.pfx)).getD []), x.2))
        = memberListing E d m := by
  refine ⟨_, walkB_spec E hE hF hdot m.b h.notRaw h.names _ h.folder, ?_⟩
  have hpbs := replaceBS_of_not_mem m.pfx (normRel_no_bs m.pfx h.pfx)
  have hpfx : (if E.rawCfg.chainRelSlash then replaceBS m.pfx else m.pfx) = m.pfx := by
    split <;> simp [hpbs]
  rw [hpfx]
  unfold memberListing
  rw [List.map_map]
  apply List.map_congr_left
  intro y hy
  obtain ⟨hmem, hname, hin⟩ := mem_walkSpec hy
  obtain ⟨hrel, hne⟩ := h.namesRel y.2 hmem
  have hpre : m.pfx ≠ [] → (m.pfx ++ ['/']) <+: y.2.name := fun hpe =>
    h.exact hpe y.2 hmem (inFolder_prefix hF m.pfx d _ h.pfx hpe hd hin)
  obtain ⟨hr, _, _⟩ := relpath_strip E.cwd m.pfx y.2.name hcwd h.pfx hrel hne hpre
  simp only [Function.comp, hname, hr, Option.getD_some]
  have hnb : '\\' ∉ stripPfx m.pfx y.2.name := by
    have hnb0 := normRel_no_bs y.2.name hrel
    unfold stripPfx
    split
    · exact hnb0
    · exact fun hm => hnb0 (List.mem_of_mem_drop hm)
  rw [replaceBS_of_not_mem _ hnb]

/-- **Chain walk lists exactly each member's folder, relative to its prefix.** -/
theorem chain_walk_repeat (E : Env) (hE : E.walkCfg = .fixed) (hF : FoldOK E.fold)
    (hdot : E.fold '.' = ['.']) (hcwd : NormalAbs E.cwd) (d : Str) (hd : isAbs d = false)
    (ms : List Member) (h : ∀ m ∈ ms, MemberOK E d m) :
    chainWalkRepeat E d ms = .ok (ms.flatMap (memberListing E d)) := by
  induction ms with
  | nil => rfl
  | cons m ms ih =>
    obtain ⟨fl, hfl, hmap⟩ := member_walk E hE hF hdot hcwd d hd m (h m List.mem_cons_self)
    rw [chainWalkRepeat, hfl]
    simp only [bind, Except.bind]
    rw [ih (fun x hx => h x (List.mem_cons_of_mem _ hx))]
    simp only [pure, Except.pure, List.flatMap_cons]
    rw [hmap]


theorem lookup_not_escape (E : Env) (b : Backend) (hk : b.kind ≠ .raw) (q : Str) :
    lookup E b q ≠ .error .escape := by
  unfold lookup
  cases hkind : b.kind with
  | raw => exact absurd hkind hk
  | virt => simp only; split <;> simp
  | zip => simp only; split <;> simp
  | vpk => simp only; split <;> simp

/-- In a chain, the first member whose own lookup succeeds answers; members before it that are not
directory filesystems cannot abort the search. -/
theorem chain_found (E : Env) (name : Str) (pre : List Member) (m : Member) (post : List Member)
    (hpre : ∀ m' ∈ pre, m'.b.kind ≠ .raw) (p : Str) (i : Nat)
    (hm : lookup E m.b (replaceBS (join2 m.pfx name)) = .ok (p, i)) :
    ∃ full i', chainLookup E name (pre ++ m :: post) = .ok (full, i') ∧
      ((i' = i ∧ ∀ m' ∈ pre, lookup E m'.b (replaceBS (join2 m'.pfx name)) = .error .notFound) ∨
       ∃ m' ∈ pre, ∃ p', lookup E m'.b (replaceBS (join2 m'.pfx name)) = .ok (p', i')) := by
  induction pre with
  | nil =>
    refine ⟨replaceBS (join2 m.pfx name), i, ?_, Or.inl ⟨rfl, by simp⟩⟩
    simp [chainLookup, hm]
  | cons x pre ih =>
    simp only [List.cons_append]
    rw [chainLookup]
    cases hx : lookup E x.b (replaceBS (join2 x.pfx name)) with
    | ok r =>
      obtain ⟨p', i'⟩ := r
      exact ⟨replaceBS (join2 x.pfx name), i', rfl, Or.inr ⟨x, List.mem_cons_self, p', hx⟩⟩
    | error e =>
      cases e with
      | escape => exact absurd hx (lookup_not_escape E x.b (hpre x List.mem_cons_self) _)
      | notFound =>
        obtain ⟨full, i', h1, h2⟩ := ih (fun m' hm' => hpre m' (List.mem_cons_of_mem _ hm'))
        refine ⟨full, i', h1, ?_⟩
        rcases h2 with ⟨e1, e2⟩ | ⟨m', hm', p', hp'⟩
        · left
          refine ⟨e1, ?_⟩
          intro m' hm'
          rcases List.mem_cons.mp hm' with rfl | hm'
          · exact hx
          · exact e2 m' hm'
        · right; exact ⟨m', List.mem_cons_of_mem _ hm', p', hp'⟩

/-- A name listed for member `m` looks up, in `m` itself, to the listed content. -/
theorem lookup_listed (E : Env) (hF : FoldOK E.fold) (hdot : E.fold '.' = ['.'])
    (hcwd : NormalAbs E.cwd) (d : Str) (hd : isAbs d = false) (m : Member) (h : MemberOK E d m)
    (x : Str × Nat) (hx : x ∈ memberListing E d m) :
    ∃ p, lookup E m.b (replaceBS (join2 m.pfx x.1)) = .ok (p, x.2) := by
  unfold memberListing at hx
  obtain ⟨y, hy, rfl⟩ := List.mem_map.mp hx
  obtain ⟨hmem, hname, hin⟩ := mem_walkSpec hy
  obtain ⟨hrel, hne⟩ := h.namesRel y.2 hmem
  have hpre : m.pfx ≠ [] → (m.pfx ++ ['/']) <+: y.2.name := fun hpe =>
    h.exact hpe y.2 hmem (inFolder_prefix hF m.pfx d _ h.pfx hpe hd hin)
  obtain ⟨_, _, hjoin⟩ := relpath_strip E.cwd m.pfx y.2.name hcwd h.pfx hrel hne hpre
  simp only [hname, hjoin, replaceBS_of_not_mem _ (normRel_no_bs _ hrel)]
  have hy' : (y.2.name, y.2) ∈ walkSpec E.fold m.b.files (keyZ E.fold (stripSep (replaceBS (join2 m.pfx d)))) := by
    have : y = (y.2.name, y.2) := by rw [← hname]
    rw [← this]; exact hy
  obtain ⟨hv, hz, hp⟩ := walk_eq_spec E hF hdot m.b.files h.names _ h.folder
  unfold lookup
  cases hkind : m.b.kind with
  | raw => exact absurd hkind h.notRaw
  | virt =>
    rw [← hv] at hy'
    simp only [C19_walk_sound_virtual _ _ _ _ _ _ hy']
    exact ⟨_, rfl⟩
  | zip =>
    rw [← hz] at hy'
    simp only [C19_walk_sound_zip _ _ _ (fun e he => (h.names e he).2.1) _ _ _ hy']
    exact ⟨_, rfl⟩
  | vpk =>
    rw [← hp] at hy'
    have := C19_walk_sound_vpk _ _ _ _ _ _ hy'
    cases hl : lookupP E.fold m.b.files y.2.name with
    | none => rw [hl] at this; cases this
    | some r =>
      rw [hl] at this
      simp only [Option.map_some, Option.some.injEq] at this
      obtain ⟨p, e⟩ := r
      simp only at this
      subst this
      exact ⟨_, rfl⟩

end C19

namespace C19
open Path C18

/-- **Chain walk, relative-path part.** Under `MemberOK` for every member (no directory members;
normalised stored names and prefixes; `PrefixExact`: names inside the case-folded prefix folder spell
the prefix exactly), for a relative folder `d`: `walk_folder_repeat d` lists exactly, member after
member, the stored names located inside `prefix/d` (case-insensitively), each expressed relative
to the member's prefix (`os.path.relpath` as coded) with the member's content; `walk_folder d` is
its de-duplication (see `C19_dedup`). -/
theorem C19_chain_walk (E : Env) (hE : E.walkCfg = .fixed) (hF : FoldOK E.fold)
    (hdot : E.fold '.' = ['.']) (hcwd : NormalAbs E.cwd) (d : Str) (hd : isAbs d = false)
    (ms : List Member) (h : ∀ m ∈ ms, MemberOK E d m) :
    chainWalkRepeat E d ms = .ok (ms.flatMap (memberListing E d)) ∧
    chainWalk E d ms = .ok (C18.dedupFold E.fold [] (ms.flatMap (memberListing E d))) := by
  have h1 := chain_walk_repeat E hE hF hdot hcwd d hd ms h
  refine ⟨h1, ?_⟩
  unfold chainWalk
  rw [h1]
  rfl

/-- **Walk vs. lookup across the chain.** Every name listed for member `m` looks up through the
chain: the answer is `m`'s listed content when no earlier member has that name, and otherwise the
content of an earlier member that has it (shadowing). -/
theorem C19_chain_walk_sound (E : Env) (hF : FoldOK E.fold) (hdot : E.fold '.' = ['.'])
    (hcwd : NormalAbs E.cwd) (d : Str) (hd : isAbs d = false)
    (pre : List Member) (m : Member) (post : List Member)
    (hpre : ∀ m' ∈ pre, m'.b.kind ≠ .raw) (hm : MemberOK E d m)
    (x : Str × Nat) (hx : x ∈ memberListing E d m) :
    ∃ full i', chainLookup E x.1 (pre ++ m :: post) = .ok (full, i') ∧
      ((i' = x.2 ∧ ∀ m' ∈ pre, lookup E m'.b (replaceBS (join2 m'.pfx x.1)) = .error .notFound) ∨
       ∃ m' ∈ pre, ∃ p', lookup E m'.b (replaceBS (join2 m'.pfx x.1)) = .ok (p', i')) := by
  obtain ⟨p, hp⟩ := lookup_listed E hF hdot hcwd d hd m hm x hx
  exact chain_found E x.1 pre m post hpre p x.2 hp

/-- Non-vacuity of `MemberOK` and the shape of a listing: prefix `mat`, folder `""`, stored
`mat/sub/c` and `b` — the walk lists `sub/c` only. -/
example :
    let fold : Char → List Char := fun c => [c]
    let E : Env := ⟨.fixed, ⟨.sepTerminated, true, true⟩, fold, ['/','w']⟩
    let F : FileSet := [⟨['m','a','t','/','s','u','b','/','c'], 1⟩, ⟨['b'], 2⟩]
    chainWalk E [] [⟨⟨.zip, F, []⟩, ['m','a','t']⟩, ⟨⟨.virt, F, []⟩, []⟩]
      = .ok [(['s','u','b','/','c'], 1), (['m','a','t','/','s','u','b','/','c'], 1), (['b'], 2)] := by
  decide +kernel

/-- The hypotheses are satisfiable: the zip member of the example above satisfies `MemberOK`. -/
example :
    MemberOK ⟨.fixed, ⟨.sepTerminated, true, true⟩, fun c => [c], ['/','w']⟩ []
      ⟨⟨.zip, [⟨['m','a','t','/','s','u','b','/','c'], 1⟩, ⟨['b'], 2⟩], []⟩, ['m','a','t']⟩ where
  notRaw := by decide
  names := by unfold NormNames; decide +kernel
  namesRel := by unfold NormRel; decide +kernel
  pfx := by unfold NormRel; decide +kernel
  folder := by unfold FolderOK NormRel; decide +kernel
  exact := by decide +kernel

end C19
