import Srctools.Model.C19
import Srctools.Gen.Fswalk
/-! # C19 — property theorems (work in progress) -/
namespace C19
open Path

/-- OBLIGATION on the current source: the three `walk_folder` methods have the fixed shape. -/
theorem C19_gen_ok : Gen.Fswalk.walkCfg = WalkCfg.fixed := by decide

end C19
