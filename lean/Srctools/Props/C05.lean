import Srctools.Model.C05
import Srctools.Gen.Angles
import Srctools.Gen.Frozen
/-! C05 — property theorems (work in progress: translator obligations first). -/
namespace C05

def genFrozen : FrozenFacts := ⟨Gen.Frozen.classes, Gen.Frozen.stores, Gen.Frozen.helperCalls, Gen.Frozen.returns⟩

/-- every write to `_pitch/_yaw/_roll` in math.py is `e % 360 % 360`, a field copy or the literal 0; the slots are
the three of `AngleBase`; every site is one the state machine models, in an acceptable role. -/
theorem C05_gen_angles_ok :
    anglesOK Gen.Angles.sites = true ∧ angleSlotsOK Gen.Angles.slots = true ∧
    modelSitesOK Gen.Angles.sites = true ∧ sitesCovered Gen.Angles.sites = true := by
  decide +kernel

/-- no store into a vector/angle/matrix slot can reach an object that was not created by the running operation,
unless it is the `self` of a mutable class; mutable `copy()` returns a new object. -/
theorem C05_gen_frozen_ok : genFrozen.frozenOK = true ∧ genFrozen.copiesOK = true := by
  decide +kernel

end C05
