import Srctools.Proofs.C05
import Srctools.Proofs.C05Round
import Srctools.Proofs.C05Text
import Srctools.Proofs.C05Mat
import Srctools.Gen.Angles
import Srctools.Gen.Frozen
set_option exponentiation.threshold 3000
/-! C05 — Angle stays in [0,360), frozen values never change, text form is canonical.

Property theorems only; models in `Model/B64.lean`, `Model/C05.lean`, `Model/C05Sites.lean`; lemmas in
`Proofs/C05.lean`. `Gen.Angles` / `Gen.Frozen` are regenerated from `/repo/src/srctools/math.py` on every run. -/
namespace C05
open B64

def genFrozen : FrozenFacts := ⟨Gen.Frozen.classes, Gen.Frozen.stores, Gen.Frozen.helperCalls, Gen.Frozen.returns⟩

/-! ## translator obligations (decided on the current source) -/

/-- every write to `_pitch/_yaw/_roll` in math.py is `e % 360 % 360`, a field copy or the literal 0; the slots are
the three of `AngleBase`; every site is one the state machine models, in an acceptable role, and the state
machine knows every site. -/
theorem C05_gen_angles_ok :
    anglesOK Gen.Angles.sites = true ∧ angleSlotsOK Gen.Angles.slots = true ∧
    modelSitesOK Gen.Angles.sites = true ∧ sitesCovered Gen.Angles.sites = true := by
  decide +kernel

/-- no store into a vector/angle/matrix slot can reach an object that was not created by the running operation,
unless it is the `self` of a mutable class; `copy()`/`__copy__` of the mutable classes return new objects. -/
theorem C05_gen_frozen_ok : genFrozen.frozenOK = true ∧ genFrozen.copiesOK = true := by
  decide +kernel

/-! ## `x % 360 % 360` -/

/-- For every rounding system (monotone, identity on representable numbers, 0 and 360 representable) and every
rational `x`: `0 ≤ x % 360 % 360 < 360`. -/
theorem C05_norm_range (RS : RoundingSystem) (x : Rat) : 0 ≤ norm2Q RS x ∧ norm2Q RS x < 360 :=
  norm2Q_range RS x

/-- rounding systems exist: exact arithmetic … -/
example : RoundingSystem :=
  { rnd := id, Rep := fun _ => True, rnd_rep := fun _ _ => rfl, mono := fun _ _ h => h, rep_zero := trivial, rep_360 := trivial }
/-- … and rounding down to integers. -/
example : RoundingSystem :=
  { rnd := fun q => (q.floor : Int), Rep := fun q => ((q.floor : Int) : Rat) = q, rnd_rep := fun _ h => h,
    mono := fun _ _ h => by exact_mod_cast Rat.floor_monotone h,
    rep_zero := by
      have := Rat.floor_intCast 0
      simp only [Int.cast_zero] at this
      simp [this],
    rep_360 := by
      have := Rat.floor_intCast 360
      simp only [Int.cast_ofNat] at this
      simp [this] }

/-- The same for the exact binary64 model that is compared bit for bit with CPython: for every finite double `x`,
`x % 360.0 % 360.0` is a finite non-negative double strictly below 360.0 (magnitudes in units of 2^-1074). -/
theorem C05_norm_range_b64 (x : Val) (hx : x.isFinite = true) :
    ∃ b, norm360 x = .fin false b ∧ b < 360 * U := by
  cases x with
  | fin s m => exact norm360_fin s m
  | inf s => cases hx
  | nan => cases hx

example : (decode 0xBD06849B86A12B9B).isFinite = true := by decide +kernel   -- -1e-14

/-- One modulo is not enough: there is a finite double (-1e-14) with `x % 360.0 == 360.0` exactly. -/
theorem C05_mod1_not_enough :
    ∃ w : UInt64, (decode w).isFinite = true ∧ encode (mod360 (decode w)) = encode c360 ∧
      encode (norm360 (decode w)) = 0 :=
  ⟨0xBD06849B86A12B9B, by decide +kernel⟩

/-! ## binary64 round-to-nearest-even *is* a rounding system -/

/-- The rounding of the bit model (`roundMag`: what `+`, `*`, `/`, `float(str)` apply to their exact result) returns a
representable magnitude that is at least as close to the exact value `n/d` as every other representable magnitude. -/
theorem C05_rne_nearest (n d s : Nat) (hd : 0 < d) (hs : Rep s) :
    Rep (roundMag n d) ∧
    |((roundMag n d : Nat) : Rat) - (n : Rat) / (d : Rat)| ≤ |((s : Nat) : Rat) - (n : Rat) / (d : Rat)| :=
  ⟨roundMag_rep' n d hd, roundMag_nearest n d s hd hs⟩

/-- Hence `rndQ` (binary64 RNE on real values, exponent unbounded above) satisfies the laws of `RoundingSystem`:
identity on representable values, monotone (across all binades), 0 and 360 representable — `b64RS` is the instance. -/
theorem C05_rne_is_rounding_system :
    (∀ q, b64RS.rnd q = rndQ q) ∧ (∀ q, RepQ q → rndQ q = q) ∧ (∀ a b, a ≤ b → rndQ a ≤ rndQ b) ∧ RepQ 0 ∧ RepQ 360 :=
  ⟨fun _ => rfl, rndQ_rep, rndQ_mono, b64RS.rep_zero, b64RS.rep_360⟩

/-- `+` and `*` of the bit model are `rndQ ∘ exact` whenever their result is finite. -/
theorem C05_b64_ops_are_rne (s1 : Bool) (m1 : Nat) (s2 : Bool) (m2 : Nat) :
    ((add (.fin s1 m1) (.fin s2 m2)).isFinite = true →
      valQ (add (.fin s1 m1) (.fin s2 m2)) = rndQ (ratOf s1 m1 + ratOf s2 m2)) ∧
    ((mul (.fin s1 m1) (.fin s2 m2)).isFinite = true →
      valQ (mul (.fin s1 m1) (.fin s2 m2)) = rndQ (ratOf s1 m1 * ratOf s2 m2)) :=
  ⟨add_is_rne s1 m1 s2 m2, mul_is_rne s1 m1 s2 m2⟩

/-- The bit model's `x % 360.0 % 360.0` *is* the abstract `norm2Q` of that rounding system (exact C `fmod`, CPython's
sign fix-up with one rounded addition): for every finite `x` the result is a finite non-negative double whose value is
`norm2Q b64RS x`. -/
theorem C05_norm_b64_is_abstract (s : Bool) (m : Nat) :
    ∃ b, norm360 (.fin s m) = .fin false b ∧ ratOf false b = norm2Q b64RS (ratOf s m) :=
  norm360_eq_norm2Q s m

/-- … so the range theorem for doubles is an instance of the abstract one (`C05_norm_range b64RS`). -/
theorem C05_norm_range_unified (s : Bool) (m : Nat) : ∃ b, norm360 (.fin s m) = .fin false b ∧ b < 360 * U := by
  obtain ⟨b, hb, hq⟩ := C05_norm_b64_is_abstract s m
  refine ⟨b, hb, ?_⟩
  have h := (C05_norm_range b64RS (ratOf s m)).2
  rw [← hq] at h
  have hU := U_posQ
  unfold ratOf at h
  simp only [Bool.false_eq_true, if_false, one_mul] at h
  rw [div_lt_iff₀ hU] at h
  exact_mod_cast h

/-! ## the invariant over histories -/

/-- For every number system satisfying the range law of `norm2`, if every source write site used by the state machine
has class `norm2` / `zero` (inputs) or additionally `copyField` (values read from an angle), then after any history
of API calls whose numeric inputs are finite every live Angle / FrozenAngle has all three fields in [0, 360). -/
theorem C05_angle_inv {α : Type} {N : NumSys α} (L : NumLaws N) (sites : List AngleSite)
    (hs : modelSitesOK sites = true) (ops : List (Op α)) (hw : WfRun L sites [] ops) :
    Inv L (run N sites [] ops) :=
  run_inv L hs ops [] (inv_nil L) hw

/-- … instantiated with the sites extracted from the current math.py and the exact binary64 model. -/
theorem C05_angle_inv_b64 (ops : List (Op Val)) (hw : WfRun b64Laws Gen.Angles.sites [] ops) :
    ∀ o ∈ run b64 Gen.Angles.sites [] ops, o.kind.isAngle = true →
      (∃ b, o.a = .fin false b ∧ b < 360 * U) ∧ (∃ b, o.b = .fin false b ∧ b < 360 * U) ∧
      (∃ b, o.c = .fin false b ∧ b < 360 * U) :=
  fun o ho hk => C05_angle_inv b64Laws Gen.Angles.sites C05_gen_angles_ok.2.2.1 ops hw o ho hk

/-- … and with an arbitrary rounding system (all arithmetic rounded by it). -/
theorem C05_angle_inv_rs (RS : RoundingSystem) (ops : List (Op Rat)) (hw : WfRun (absLaws RS) Gen.Angles.sites [] ops) :
    ∀ o ∈ run (absSys RS) Gen.Angles.sites [] ops, o.kind.isAngle = true →
      (0 ≤ o.a ∧ o.a < 360) ∧ (0 ≤ o.b ∧ o.b < 360) ∧ (0 ≤ o.c ∧ o.c < 360) :=
  fun o ho hk => C05_angle_inv (absLaws RS) Gen.Angles.sites C05_gen_angles_ok.2.2.1 ops hw o ho hk

/-- the hypotheses are satisfiable: `a = Angle(-1e-14, 360.0, 725.5); a *= 2.0; a.freeze()` is a well-formed history. -/
example : WfRun b64Laws Gen.Angles.sites []
    [.ctor false false (decode 0xBD06849B86A12B9B) (decode 0x4076800000000000) (decode 0x4086AC0000000000),
     .imul 0 (decode 0x4000000000000000), .freeze 0] := by
  have fin_iff : ∀ x, b64Laws.Fin x ↔ x.isFinite = true := fun _ => Iff.rfl
  refine ⟨⟨(fin_iff _).2 (by decide +kernel), (fin_iff _).2 (by decide +kernel), (fin_iff _).2 (by decide +kernel)⟩,
    ?_, trivial, trivial⟩
  intro o ho
  have : o = (run b64 Gen.Angles.sites []
    [.ctor false false (decode 0xBD06849B86A12B9B) (decode 0x4076800000000000) (decode 0x4086AC0000000000)])[0]! := by
    have h2 : (step b64 Gen.Angles.sites [] (.ctor false false (decode 0xBD06849B86A12B9B) (decode 0x4076800000000000)
      (decode 0x4086AC0000000000))).1[0]? = some o := ho
    simp only [step, List.nil_append, List.length_nil] at h2
    simp only [run, List.foldl, step, List.nil_append]
    simpa using h2.symm
  subst this
  refine ⟨(fin_iff _).2 ?_, (fin_iff _).2 ?_, (fin_iff _).2 ?_⟩ <;> decide +kernel

/-- The invariant really depends on the second modulo: with the site list of the source *before* the repair
(`_to_angle` writing `e % 360.0` once) the history "convert a matrix whose yaw computes as -1e-14 degrees"
produces an Angle with yaw exactly 360.0. -/
theorem C05_angle_inv_needs_norm2 :
    let old := Gen.Angles.sites.map fun s =>
      if s.fn == "MatrixBase._to_angle" && s.cls == .norm2 then { s with cls := .mod1 } else s
    (run b64 old [] [.toAngle none false [decode 0xBD06849B86A12B9B, decode 0, decode 0]]).map (fun o => encode o.b)
      = [encode c360] := by
  decide +kernel

/-! ## frozen objects -/

/-- In the state machine (compared with the implementation after every step), an API call changes at most the object
it reports as its target, and that object is mutable. -/
theorem C05_frame_machine {α : Type} (N : NumSys α) (sites : List AngleSite) (st : State α) (op : Op α) (j : Nat)
    (o : Obj α) (hj : st[j]? = some o) :
    (step N sites st op).1[j]? = some o ∨ ((step N sites st op).2 = some j ∧ o.kind.frozen = false) :=
  step_frame N sites st op j o hj

/-- … hence no history changes a FrozenAngle / FrozenVec. -/
theorem C05_frozen_machine {α : Type} (N : NumSys α) (sites : List AngleSite) (ops : List (Op α)) (st : State α)
    (j : Nat) (o : Obj α) (hj : st[j]? = some o) (hf : o.kind.frozen = true) :
    (run N sites st ops)[j]? = some o :=
  run_frozen N sites ops st j o hj hf

/-- All six classes: in the machine extended with Matrix / FrozenMatrix objects (`_mat_mul` as coded into a fresh copy
or in place, `transpose`, entry copies for `Matrix(m)`/`copy`/`freeze`/`thaw`/unpickling, `__setitem__`,
`forward/left/up`, `_vec_rot`), a call changes at most the object it reports as target — an Angle/Vec object … -/
theorem C05_frame_machine_obj {α : Type} (N : NumSys α) (sites : List AngleSite) (st : MState α) (op : MOp α) (j : Nat)
    (o : Obj α) (hj : st.objs[j]? = some o) :
    (mstep N sites st op).1.objs[j]? = some o ∨ ((mstep N sites st op).2 = .obj j ∧ o.kind.frozen = false) :=
  mstep_frame_obj N sites st op j o hj

/-- … or a matrix, and then a mutable `Matrix`. -/
theorem C05_frame_machine_mat {α : Type} (N : NumSys α) (sites : List AngleSite) (st : MState α) (op : MOp α) (j : Nat)
    (o : MObj α) (hj : st.mats[j]? = some o) :
    (mstep N sites st op).1.mats[j]? = some o ∨ ((mstep N sites st op).2 = .mat j ∧ o.frozen = false) :=
  mstep_frame_mat N sites st op j o hj

/-- Hence no history of API calls changes a FrozenVec, FrozenAngle **or FrozenMatrix**. -/
theorem C05_frozen_machine_all {α : Type} (N : NumSys α) (sites : List AngleSite) (ops : List (MOp α)) (st : MState α) :
    (∀ (j : Nat) (o : Obj α), st.objs[j]? = some o → o.kind.frozen = true → (mrun N sites st ops).objs[j]? = some o) ∧
    (∀ (j : Nat) (o : MObj α), st.mats[j]? = some o → o.frozen = true → (mrun N sites st ops).mats[j]? = some o) :=
  mrun_frozen N sites ops st

/-- The range invariant holds in the extended machine as well (matrix operations never write an angle). -/
theorem C05_angle_inv_all {α : Type} {N : NumSys α} (L : NumLaws N) (sites : List AngleSite)
    (hs : modelSitesOK sites = true) (ops : List (MOp α)) (hw : WfMRun L sites ⟨[], []⟩ ops) :
    Inv L (mrun N sites ⟨[], []⟩ ops).objs :=
  mrun_inv L hs ops ⟨[], []⟩ (inv_nil L) hw

/-- a history with a frozen matrix: `fm = FrozenMatrix(…); m = fm @ fm; m2 = fm.thaw(); m2 @= fm; m2[0,0] = 2.0` leaves
`fm` as it was (executed on the binary64 model). -/
example :
    let fm : MObj Val := ⟨true, ⟨decode 0x3FF0000000000000, decode 0, decode 0, decode 0, decode 0x3FE0000000000000,
      decode 0xBFEBB67AE8584CAA, decode 0, decode 0x3FEBB67AE8584CAA, decode 0x3FE0000000000000⟩⟩
    ((mrun b64 Gen.Angles.sites ⟨[], []⟩
      [.mctor true fm.m, .mmul 0 0 false, .mcopy false 0, .mmul 2 0 true, .mset 2 0 0 (decode 0x4000000000000000),
       .mmul 0 2 true, .mset 0 1 1 (decode 0)]).mats[0]?.map fun o => encode o.m.bb) = some 0x3FE0000000000000 := by
  decide +kernel

/-- the sites through which copies are made keep an in-range value (`norm2` or `copyField`) -/
theorem C05_gen_copy_sites_ok : copySitesOK Gen.Angles.sites = true := by decide +kernel

/-- Copies are equal and independent: `freeze()`, `thaw()`, `Angle(angle)`, `FrozenAngle(angle)` and `Angle.copy()`
create a *new* object carrying exactly the source's three fields (binary64 model, current source sites); by
`C05_frame_machine` no later call on one of the two changes the other. -/
theorem C05_copy_equal_b64 {st : State Val} (h : Inv b64Laws st) {i : Nat} {o : Obj Val} (hi : st[i]? = some o)
    (hk : o.kind.isAngle = true) :
    (o.kind = .ang → (step b64 Gen.Angles.sites st (.freeze i)).1 = st ++ [⟨.fang, o.a, o.b, o.c⟩]) ∧
    (o.kind = .fang → (step b64 Gen.Angles.sites st (.thaw i)).1 = st ++ [⟨.ang, o.a, o.b, o.c⟩]) ∧
    (∀ fr, (step b64 Gen.Angles.sites st (.ctorCopy fr i)).1 = st ++ [⟨Kind.angle fr, o.a, o.b, o.c⟩]) ∧
    (∀ fr, (step b64 Gen.Angles.sites st (.ctor fr false o.a o.b o.c)).1 = st ++ [⟨Kind.angle fr, o.a, o.b, o.c⟩]) :=
  copy_eq b64Laws C05_gen_copy_sites_ok b64_idem h hi hk

/-- Heap level, all nine classes (matrices included): along any history of API calls whose slot stores execute
sites of `Gen.Frozen.stores` (read as the translator reads them: an accepted origin denotes an object allocated by the
running call or an instance of a mutable class), every frozen object keeps the values it had when the call that
created it returned. -/
theorem C05_frozen {α : Type} (calls : List (List (Ev α))) (h : Heap α) (hok : HistoryOK genFrozen h calls)
    (l : Nat) (c : Cell α) (hc : h[l]? = some c) (hm : c.role ≠ .mutable) :
    (execHistory h calls)[l]? = some c :=
  history_frame C05_gen_frozen_ok.1 calls h hok l c hc hm

/-! ## text form -/

/-- `format_float(x)` of any value whose `x + 0.0` is finite has the shape `-?[0-9]+(\.[0-9]{1,6})?` and consists
of sign, digits and point only (no exponent, no `inf`/`nan`). -/
theorem C05_text_shape (x : Val) (hy : (add x zero).isFinite = true) :
    shapeOK (formatFloat x) = true ∧ ∀ c ∈ formatFloat x, plainChar c = true :=
  formatFloat_shape x hy

/-- … in particular for every finite bit pattern (a double plus 0.0 is that double). -/
theorem C05_text_shape_bits (w : UInt64) (h : (decode w).isFinite = true) :
    shapeOK (formatFloat (decode w)) = true ∧ ∀ c ∈ formatFloat (decode w), plainChar c = true :=
  formatFloat_shape _ (add_zero_decode_finite w h)

/-- `format_float` prints `-0` exactly for the negative values that round to zero at six places
(`negRoundsToZero`: sign set and `'%.6f'` digits all zero, i.e. -5e-7 ≤ x < 0). The property's "never `-0`" is
therefore false of the code as it is … -/
theorem C05_text_minus_zero_iff (x : Val) (hy : (add x zero).isFinite = true) :
    formatFloat x = ['-', '0'] ↔ negRoundsToZero x = true :=
  formatFloat_minus_zero_iff x hy

/-- … with the concrete witness -1e-9 (replayed on the implementation; open finding `text-minus-zero`, pinned by
the repo's own tests/test_vec.py so not repaired) … -/
theorem C05_text_minus_zero_witness :
    (decode 0xBE112E0BE826D695).isFinite = true ∧ negRoundsToZero (decode 0xBE112E0BE826D695) = true ∧
    formatFloat (decode 0xBE112E0BE826D695) = ['-', '0'] := by
  decide +kernel

/-- … and true outside that class. -/
theorem C05_text_no_minus_zero_partial (x : Val) (hy : (add x zero).isFinite = true)
    (hx : negRoundsToZero x = false) : formatFloat x ≠ ['-', '0'] := by
  intro h
  rw [(C05_text_minus_zero_iff x hy).1 h] at hx
  cases hx

/-- Angles are never printed with `-0`: their fields are non-negative (C05_angle_inv). -/
theorem C05_text_angle_no_minus_zero (b : Nat) (hb : b < 360 * U) : formatFloat (.fin false b) ≠ ['-', '0'] :=
  C05_text_no_minus_zero_partial _ (add_zero_angle_finite b hb) (negRoundsToZero_nonneg b)

/-- The exact decimal value of `format_float(x)` is within 5e-7 of `x + 0.0`. -/
theorem C05_text_close (x : Val) (s : Bool) (m : Nat) (hadd : add x zero = .fin s m) :
    |decVal (formatFloat x) - ratOf s m| ≤ 5 / 10000000 :=
  formatFloat_close x s m hadd

/-- … for every finite bit pattern: within 5e-7 of the double itself. -/
theorem C05_text_close_bits (w : UInt64) (q : Rat) (h : toRat? (decode w) = some q) :
    |decVal (formatFloat (decode w)) - q| ≤ 5 / 10000000 := by
  cases hd : decode w with
  | fin s m =>
    rw [hd, toRat?_fin] at h
    have hq : q = ratOf s m := by injection h with h; exact h.symm
    have hadd := add_zero_decode w s m hd
    rw [← hd, hq]
    by_cases hm : m = 0
    · subst hm
      simp only [if_true] at hadd
      have := formatFloat_close (decode w) false 0 hadd
      have e : ratOf s 0 = ratOf false 0 := by unfold ratOf; cases s <;> simp
      rw [e]; exact this
    · simp only [hm, if_false] at hadd
      exact formatFloat_close (decode w) s m hadd
  | inf s => rw [hd] at h; cases h
  | nan => rw [hd] at h; cases h

/-- `float(format_float(x))`: the text of a finite value parses (as `parseDec` = CPython `float()` does it) to the
representable value *nearest* to the printed decimal — so it is within 1e-6 of `x` (5e-7 from the printing, at most as
much again from the parsing, because `x` itself is representable). -/
theorem C05_text_parse_back (x : Val) (s : Bool) (m : Nat) (hadd : add x zero = .fin s m) (hrep : Rep m)
    (hlt : m < maxMag) :
    ∃ p, parseDec (formatFloat x) = some (.fin s p) ∧ Rep p ∧
      (∀ r, Rep r → abs ((p : Rat) / (U : Rat) - abs (decVal (formatFloat x))) ≤
                    abs ((r : Rat) / (U : Rat) - abs (decVal (formatFloat x)))) ∧
      |(p : Rat) / (U : Rat) - (m : Rat) / (U : Rat)| ≤ 1 / 1000000 :=
  parse_formatFloat x s m hadd hrep hlt

/-- `parse_vec_str(str(v))`, as coded (strip, optional brackets, `split()`, three `float()`s): for three finite doubles
the text is accepted and every component comes back as a finite double within 1e-6 of the original. (The same text
is `str()` of a Vec, FrozenVec, Angle and FrozenAngle.) -/
theorem C05_vec_text_roundtrip (wx wy wz : UInt64) (hx : (decode wx).isFinite = true)
    (hy : (decode wy).isFinite = true) (hz : (decode wz).isFinite = true) :
    ∃ vx vy vz, parseVecStr (vecStr (decode wx) (decode wy) (decode wz)) = some (vx, vy, vz) ∧
      (vx.isFinite = true ∧ |valQ vx - valQ (decode wx)| ≤ 1 / 1000000) ∧
      (vy.isFinite = true ∧ |valQ vy - valQ (decode wy)| ≤ 1 / 1000000) ∧
      (vz.isFinite = true ∧ |valQ vz - valQ (decode wz)| ≤ 1 / 1000000) :=
  vec_roundtrip wx wy wz hx hy hz

/-- The strict bound 5e-7 for the *re-parsed double* is false, and not only in the binade [2^32, 2^33) of the open
finding: for the tie 0.0234375 the text `0.023438` is exactly 5e-7 away and `float()` adds its own rounding; for
5932227029.9674835 the re-parsed double is the neighbour, 9.5e-7 away (magnitudes in units of 2^-1074). -/
theorem C05_text_parse_back_not_5e7 :
    (match decode 0x3F98000000000000, parseDec (formatFloat (decode 0x3F98000000000000)) with
      | .fin _ m, some (.fin _ p) => decide (5 * U < (p - m) * 10000000)
      | _, _ => false) = true ∧
    (match decode 0x41F619699D5F7AD0, parseDec (formatFloat (decode 0x41F619699D5F7AD0)) with
      | .fin _ m, some (.fin _ p) => decide (9 * U < (p - m) * 10000000)
      | _, _ => false) = true := by
  decide +kernel

example : toRat? (decode 0x405EDD3C07EE0B0B) ≠ none := by decide +kernel   -- 123.4567890123

end C05
