import Srctools.Model.C17
/-! # C17 — placeholder while the harness is brought up (replaced by the real theorems) -/
namespace C17
theorem C17_fixup_passthrough (st : Style) (inst name : List Char) (h : passThrough name = true) :
    fixupName st inst name = name := by simp [fixupName, h]
end C17
