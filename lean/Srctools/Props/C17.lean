import Srctools.Proofs.C17Collapse
import Srctools.Proofs.C17Names
import Srctools.Proofs.C17IO
import Mathlib.Algebra.Field.Rat
import Srctools.Proofs.Heap
/-!
# C17 — instance collapse transforms contents exactly and leaves the template intact

Property theorems only. They are about the executable model `Srctools/Model/C17.lean`
(`place`, `localiseAxis`, `Side.localise`, `fixupName`, `substitute`, `collapse`, `collapseAll`,
the `FixupValue` cell model), which `harness/p_c17.py` compares with `/repo`'s `collapse_one` /
`collapse_all` after every step of random collapse histories (scalars there = `Rat`; `C17_rat`
below shows the theorems' field instance is the arithmetic the driver runs).

Geometry is stated over an arbitrary commutative ring / field `K`; `Orth R` is `R·Rᵀ = 1`.
-/
namespace C17

-- Statements that involve `$variable` substitution or casefolded name comparison hold for any
-- per-character case fold table `[CharFold]` (ASCII lower-casing is the default instance; the driver
-- installs the table extracted from Python for each request).

/-! ## placement algebra -/
section Geometry
variable {K : Type} [CommRing K]

/-- Rotate-then-offset composes: placing by `P₁` then `P₂` is placing by `P₁ ≫ P₂`
(`R = R₁R₂`, `o = o₁R₂ + o₂`) — a nested instance ends where the composed placement puts it. -/
theorem C17_compose (P₁ P₂ : Placement K) (p : V3 K) :
    place P₂ (place P₁ p) = place (P₁.comp P₂) p := place_comp P₁ P₂ p

/-- The identity placement (used for manifests) moves nothing. -/
theorem C17_place_id (p : V3 K) : place Placement.id p = p := place_id p

/-- Points on a face plane stay on the placed plane: the plane equation through the three placed
plane points, evaluated at the placed point, is `det R` times the original one (no hypothesis on
`R` at all). -/
theorem C17_plane (P : Placement K) (p0 p1 p2 q : V3 K) :
    planeEq3 (place P p0) (place P p1) (place P p2) (place P q) = P.R.det * planeEq3 p0 p1 p2 q :=
  planeEq3_place P p0 p1 p2 q

/-- …and for an orthogonal `R` (`det R = ±1`) exactly the points of the plane are mapped onto the
placed plane. -/
theorem C17_plane_iff (P : Placement K) (h : Orth P.R) (p0 p1 p2 q : V3 K) :
    planeEq3 (place P p0) (place P p1) (place P p2) (place P q) = 0 ↔ planeEq3 p0 p1 p2 q = 0 := by
  rw [C17_plane]
  constructor
  · intro e
    have := congrArg (P.R.det * ·) e
    simp only [← mul_assoc, h.det_sq, one_mul, mul_zero] at this
    exact this
  · intro e; rw [e, mul_zero]

/-- The face normal turns with the face: `n' · (w R) = det R · (n · w)`. -/
theorem C17_normal (P : Placement K) (p0 p1 p2 w : V3 K) :
    (((place P p1).sub (place P p0)).cross ((place P p2).sub (place P p0))).dot (rot P.R w)
      = P.R.det * (((p1.sub p0).cross (p2.sub p0)).dot w) := normal_place P p0 p1 p2 w

/-- **Displacement vectors / directions** (`vert.normal`, `vert.offset`, `vert.offset_norm`, as
coded in `Side.localise`) are rotated without the offset, `placeDir P v = v·R`, and that composes
like the positions do. -/
theorem C17_dir_compose (P₁ P₂ : Placement K) (v : V3 K) :
    placeDir P₂ (placeDir P₁ v) = placeDir (P₁.comp P₂) v ∧ placeDir Placement.id v = v :=
  ⟨placeDir_comp P₁ P₂ v, placeDir_id v⟩

/-- A direction is a difference of positions: placing both ends, the origin cancels. -/
theorem C17_dir_diff (P : Placement K) (a b : V3 K) :
    (place P a).sub (place P b) = placeDir P (a.sub b) := place_sub P a b

/-- The whole displacement record (`disp_pos` placed, every vertex's three vectors rotated,
distances/alphas kept) composes, and the identity placement leaves it alone. -/
theorem C17_disp_compose (P₁ P₂ : Placement K) (d : Disp K) :
    Disp.localise P₂ (Disp.localise P₁ d) = Disp.localise (P₁.comp P₂) d ∧
    Disp.localise Placement.id d = d :=
  ⟨Disp.localise_comp P₁ P₂ d, Disp.localise_id d⟩

/-- **The displaced surface moves with the brush**: the world position of a displaced vertex,
`base + distance·normal + offset + elevation·offset_normal`, computed from the localised vertex at
the placed base point, is the placed original position. -/
theorem C17_disp_vertex (P : Placement K) (d : DispVert K) (elev : K) (base : V3 K) :
    (DispVert.localise P d).point elev (place P base) = place P (d.point elev base) :=
  dispPoint_place P d elev base

/-- Distances/angles are preserved by the instance rotation. -/
theorem C17_dot (R : M3 K) (h : Orth R) (p q : V3 K) : (rot R p).dot (rot R q) = p.dot q :=
  dot_rot h p q

/-- **Orientation.** An orientation `m` (`Matrix.from_angle` of an `angles` value) becomes `m·R`,
which acts as "first the entity's own orientation, then the instance rotation", and is again
orthogonal. -/
theorem C17_orient [CharFold] (I : Inst K) (m : M3 K) :
    (∀ [Div K], fixupKey I (.orient m) = .orient (m.mul I.P.R)) ∧
    (∀ v, rot (m.mul I.P.R) v = rot I.P.R (rot m v)) ∧
    (Orth m → Orth I.P.R → Orth (m.mul I.P.R)) :=
  ⟨fun {_} => rfl, fun v => (rot_mul m I.P.R v).symm, fun hm hR => hm.mul hR⟩

/-- `Matrix.from_angle` as coded yields a rotation (both `M·Mᵀ = 1` and `Mᵀ·M = 1`, `det = 1`)
whenever its six inputs are cosines/sines; so the angles written back,
`toAngle (fromAngle a · R)`, denote exactly `fromAngle a · R` for any `toAngle` that is a section
of `fromAngle` on rotations. -/
theorem C17_orient_angles (toAngle : M3 K → Trig K)
    (hsec : ∀ M, Orth M → M.det = 1 → fromTrig (toAngle M) = M)
    (a : Trig K) (ha : a.Unit) (R : M3 K) (hR : Orth R) (hdet : R.det = 1) :
    Orth (fromTrig a) ∧ Orth (fromTrig a).transpose ∧ (fromTrig a).det = 1 ∧
    fromTrig (toAngle ((fromTrig a).mul R)) = (fromTrig a).mul R := by
  refine ⟨(orth_fromTrig ha).1, (orth_fromTrig ha).2, det_fromTrig ha, ?_⟩
  apply hsec _ ((orth_fromTrig ha).1.mul hR)
  rw [det_mul, det_fromTrig ha, hdet, one_mul]

end Geometry

section Texture
variable {K : Type} [Field K] [CharFold]

omit [CharFold] in
/-- **Texture alignment moves with the geometry**: the texture coordinate of a placed point under
the localised axis (`offset − (axis'·o)/scale`, exactly as coded) equals the original coordinate. -/
theorem C17_uv (P : Placement K) (h : Orth P.R) (ax : UVAxis K) (p : V3 K) :
    texCoord (localiseAxis P ax) (place P p) = texCoord ax p := texCoord_localise h ax p

omit [CharFold] in
/-- Localising an axis twice is localising by the composed placement (nested instances). -/
theorem C17_uv_compose (P₁ P₂ : Placement K) (h : Orth P₂.R) (ax : UVAxis K) :
    localiseAxis P₂ (localiseAxis P₁ ax) = localiseAxis (P₁.comp P₂) ax := localiseAxis_comp h ax

omit [CharFold] in
/-- Whole faces/brushes: `localise` composes. -/
theorem C17_solid_compose (P₁ P₂ : Placement K) (h : Orth P₂.R) (b : Solid K) :
    Solid.localise P₂ (Solid.localise P₁ b) = Solid.localise (P₁.comp P₂) b :=
  Solid.localise_comp h b

/-- **Placement.** The collapse at any placement is the collapse at the identity placement with
`place P` applied to positions, planes, texture axes, directions and orientations — everything
else (names, substituted values, output targets, nested fixups) is the same. -/
theorem C17_placement (T : Template K) (I : Inst K) :
    collapse T I = mapGeometry I.P (collapse T (I.at Placement.id)) := collapse_factor T I

/-- **Results differ only by placement.** Collapsing the same template with the same instance
parameters at `P₁` and at `P₂` gives results related by the relative placement `P₁⁻¹ ≫ P₂`. -/
theorem C17_repeat (T : Template K) (I : Inst K) (P₁ P₂ : Placement K)
    (h₁ : Orth P₁.R) (h₂ : Orth P₂.R) :
    collapse T (I.at P₂) = mapGeometry (P₁.inv.comp P₂) (collapse T (I.at P₁)) :=
  collapse_two_placements T I P₁ P₂ h₁ h₂

omit [CharFold] in
/-- `R·Rᵀ = 1` already gives `Rᵀ·R = 1` over any commutative ring (the inverse placement
`q ↦ (q − o)·Rᵀ` really undoes the placement). -/
theorem C17_orth_transpose {K : Type} [CommRing K] (R : M3 K) (h : Orth R) : Orth R.transpose :=
  h.transpose

/-- Names, output targets and nested fixups do not depend on the placement. -/
theorem C17_names_placement_free (T : Template K) (I : Inst K) (P Q : Placement K) :
    (collapse T (I.at P)).ents.map (fun e => (e.outs, e.fixups)) =
      (collapse T (I.at Q)).ents.map (fun e => (e.outs, e.fixups)) := by
  simp [collapse, collapseEnt, Inst.at, fixupFix]

end Texture

/-- The theorems at `K = Rat`, stated with core Lean's own `Rat` operations (the ones `drv_c17`
executes): Mathlib's field structure on `Rat` is built from exactly these, so the instance of
`C17_uv` type-checks against them. -/
theorem C17_rat (P : Placement Rat) (h : Orth P.R) (ax : UVAxis Rat) (p : V3 Rat) :
    @texCoord Rat Rat.instAdd Rat.instMul Rat.instDiv
        (@localiseAxis Rat Rat.instAdd Rat.instMul Rat.instSub Rat.instDiv P ax)
        (@place Rat Rat.instAdd Rat.instMul P p)
      = @texCoord Rat Rat.instAdd Rat.instMul Rat.instDiv ax p :=
  C17_uv P h ax p

/-! ## names -/

/-- Empty names and names starting with `@` or `!` pass through every style unchanged. -/
theorem C17_fixup_passthrough (st : Style) (inst name : List Char) (h : passThrough name = true) :
    fixupName st inst name = name := fixupName_pass st inst name h

/-- …so renaming is idempotent on them. -/
theorem C17_fixup_idempotent_passthrough (st : Style) (inst name : List Char)
    (h : passThrough name = true) :
    fixupName st inst (fixupName st inst name) = fixupName st inst name := by
  rw [fixupName_pass st inst name h, fixupName_pass st inst name h]

/-- Shape of the three styles on plain names. -/
theorem C17_fixup_shape (inst name : List Char) (h : passThrough name = false) :
    fixupName .none inst name = name ∧
    fixupName .pre inst name = inst ++ '-' :: name ∧
    fixupName .suf inst name = name ++ '-' :: inst :=
  ⟨fixupName_none inst name, fixupName_pre inst name h, fixupName_suf inst name h⟩

/-- Per style, distinct plain names stay distinct. -/
theorem C17_fixup_injective_plain (st : Style) (inst a b : List Char)
    (ha : passThrough a = false) (hb : passThrough b = false)
    (h : fixupName st inst a = fixupName st inst b) : a = b :=
  fixupName_inj_plain st inst a b ha hb h

/-- SUFFIX is injective on all names; PREFIX is when the instance name is itself plain. -/
theorem C17_fixup_injective (inst a b : List Char) :
    (fixupName .suf inst a = fixupName .suf inst b → a = b) ∧
    (passThrough inst = false → fixupName .pre inst a = fixupName .pre inst b → a = b) :=
  ⟨fixupName_suf_inj inst a b, fun hi => fixupName_pre_inj inst a b hi⟩

/-- PREFIX with an instance name starting with `@` is NOT injective (a renamed plain name can
collide with a pass-through name). -/
theorem C17_fixup_prefix_collision :
    fixupName .pre ['@', 'i'] ['x'] = fixupName .pre ['@', 'i'] ['@', 'i', '-', 'x'] ∧
    (['x'] : List Char) ≠ ['@', 'i', '-', 'x'] := by decide

/-- Renaming is not idempotent on plain names: renaming a renamed name prefixes again. This is what
makes a collapse that writes into the template observable. -/
theorem C17_fixup_prefix_twice (inst name : List Char) (hi : passThrough inst = false)
    (hn : passThrough name = false) :
    fixupName .pre inst (fixupName .pre inst name) = inst ++ '-' :: (inst ++ '-' :: name) ∧
    fixupName .pre inst (fixupName .pre inst name) ≠ fixupName .pre inst name :=
  ⟨fixupName_pre_twice inst name hi hn, fixupName_pre_twice_ne inst name hi hn⟩

/-! ## `$variable` substitution -/

section Subst
variable [CharFold]

/-- Text without `$` is returned unchanged; a `$`-free prefix is copied. -/
theorem C17_subst_plain (t : FixTable) (d a b : List Char) (h : '$' ∉ a) :
    substitute t d a = a ∧ substitute t d (a ++ b) = a ++ substitute t d b :=
  ⟨substitute_no_dollar t d a h, substitute_append_left t d a b h⟩

/-- At a `$`: a matched variable is replaced by its value and the scan resumes after the matched
name (the replacement text is not rescanned); without a match the `$` is copied. -/
theorem C17_subst_step (t : FixTable) (d rest : List Char) :
    (∀ n val, matchVar t d rest = some (n, val) →
        substitute t d ('$' :: rest) = val ++ substitute t d (rest.drop n)) ∧
    (matchVar t d rest = none → substitute t d ('$' :: rest) = '$' :: substitute t d rest) :=
  ⟨fun n val h => substitute_var t d rest val n h, substitute_dollar_nomatch t d rest⟩

/-- **Longest defined variable wins.** When the table is not empty and some defined name matches
after the `$`, the name chosen is a defined name, it matches (case-insensitively), no defined name
that matches is longer, and it is the only matching name of its length — so the choice does not
depend on the order of the table. -/
theorem C17_subst_longest (t : FixTable) (ht : t.isEmpty = false) (rest k : List Char)
    (h : firstMatch (alternatives t) rest = some k) :
    k ∈ t.map (·.1) ∧ matchesCI k rest = true ∧
    (∀ k' ∈ t.map (·.1), matchesCI k' rest = true → k'.length ≤ k.length) ∧
    (∀ k' ∈ t.map (·.1), matchesCI k' rest = true → k'.length = k.length → k' = k) := by
  simp only [alternatives, ht, Bool.false_eq_true, if_false] at h
  have hm := firstMatch_some h
  refine ⟨(mem_sortKeys t k).mp hm.1, hm.2, ?_, ?_⟩
  · intro k' hk' hmk
    exact firstMatch_longest (sortKeys_pairwise t) h k' ((mem_sortKeys t k').mpr hk') hmk
  · intro k' _ hmk hl
    exact matchesCI_unique k' k rest hmk hm.2 hl

/-- A defined name is found whenever one matches (the identifier fall-back is only reached when no
defined name matches). -/
theorem C17_subst_defined_first (t : FixTable) (ht : t.isEmpty = false) (rest : List Char)
    (h : firstMatch (alternatives t) rest = none) :
    ∀ k ∈ t.map (·.1), matchesCI k rest = false := by
  simp only [alternatives, ht, Bool.false_eq_true, if_false] at h
  intro k hk
  exact firstMatch_none h k ((mem_sortKeys t k).mpr hk)

/-- **The order of the fixup table is irrelevant**: two tables with the same (distinct) variables
and values substitute every text alike — although the pattern is built from the dict order. -/
theorem C17_subst_order_irrelevant (t₁ t₂ : FixTable) (hp : t₁.Perm t₂)
    (hnd : (t₁.map (·.1)).Nodup) (d text : List Char) :
    substitute t₁ d text = substitute t₂ d text := substGo_perm hp hnd d text 0

/-- As coded, an EMPTY fixup table makes the pattern's first alternative the empty string, so every
`$` is replaced by the default on its own (`$abc` → `abc` with default `''`), whereas with a
non-empty table an undefined identifier is replaced as a whole (`$abc` → `''`). -/
theorem C17_subst_empty_table (d rest : List Char) :
    substitute [] d ('$' :: rest) = d ++ substitute [] d rest := by
  have : matchVar [] d rest = some (0, d) := by
    simp [matchVar, alternatives, firstMatch, matchesCI, lookupFix]
  rw [substitute_var [] d rest d 0 this]; simp

/-- **A supplied variable wins; an unsupplied one falls back as coded.** The longest defined name
after a `$` is replaced by the value the instance supplies; when no defined name matches, the
identifier that follows is replaced by the default handed to `substitute` (`''` in `collapse_one`)
— whatever a `func_instance_parms` entity declares, since the collapse takes no declaration. -/
theorem C17_var_supplied_wins (t : FixTable) (d rest : List Char) :
    (∀ k v, firstMatch (alternatives t) rest = some k → lookupFix t k = some v →
        substitute t d ('$' :: rest) = v ++ substitute t d (rest.drop k.length)) ∧
    (∀ n, t.isEmpty = false → firstMatch (alternatives t) rest = none → identLen rest = n + 1 →
        substitute t d ('$' :: rest) = d ++ substitute t d (rest.drop (n + 1))) :=
  ⟨fun k v hm hv => substitute_supplied t d rest k v hm hv,
   fun n ht hm hid => substitute_unsupplied t ht d rest n hm hid⟩

omit [CharFold] in
/-- `func_instance_parms`: `name type default…` is read as that name, that type token and the
default = everything after the second space, spaces included (`split(' ', 2)`); with the former
`split(' ', 3)` a default containing a space was lost. -/
theorem C17_parms_decl (name ty dflt : List Char) (hn : ' ' ∉ name) (ht : ' ' ∉ ty) :
    parseParam 2 (name ++ ' ' :: (ty ++ ' ' :: dflt)) = ⟨name, some ty, dflt⟩ ∧
    (parseParam 3 ['$','t',' ','s',' ','a',' ','b']).dflt = [] ∧
    (parseParam 2 ['$','t',' ','s',' ','a',' ','b']).dflt = ['a',' ','b'] :=
  ⟨parseParam_three name ty dflt hn ht, by decide, by decide⟩

/-! ## instance inputs / outputs (`func_instance_io_proxy`) -/

/-- **Inside the instance**: every output of a copied entity keeps all its fields except the
target, which gets the fixup name of the (substituted) target — the same string the entity of
that name receives, so connections inside the instance follow the renamed entities. -/
theorem C17_io_inside (I : IOInst) (F : IOFile) (i j : Nat) (e e' : IOEnt) (o' : Out)
    (h : o' ∈ collapseOuts I e.outs) :
    ∃ o ∈ e.outs, o' = { o with target := I.rename o.target } ∧
      (o.target = e'.name → o'.target = (collapseIOEnt I F j e').1) ∧
      (collapseIOEnt I F i e).1 = fixupName I.style I.name (substitute I.fixup [] e.name) := by
  obtain ⟨o, ho, rfl⟩ := (mem_collapseOuts I e.outs o').mp h
  exact ⟨o, ho, rfl, fun ht => by simp [collapseIOEnt, ht], rfl⟩

/-- **Into the instance**: an output of the map addressed to the instance as
`instance:local;Input`, for which the proxy relays (`local`, `Input`) — compared casefolded — is
re-routed to the *renamed* real target with the proxy's input; delays add, fire counts combine,
the `instance:` marker is cleared, and that target is the name the collapsed entity has. -/
theorem C17_io_reroute (I : IOInst) (F : IOFile) (o p : Out) (n : List Char)
    (hi : o.instIn = some n) (ht : foldStr o.target = foldStr I.name)
    (hp : lookupLast F.proxyInputs (foldStr n, foldStr o.input) = some p) :
    (reroute I F o).target = fixupName I.style I.name (substitute I.fixup [] p.target) ∧
    (reroute I F o).input = p.input ∧ (reroute I F o).instIn = none ∧
    (reroute I F o).output = o.output ∧ (reroute I F o).delay = o.delay + p.delay ∧
    (reroute I F o).times = combineTimes o.times p.times ∧
    (∀ (j : Nat) (e : IOEnt), e.name = p.target → (reroute I F o).target = (collapseIOEnt I F j e).1) := by
  rw [reroute_hit I F o p n hi ht hp]
  exact ⟨rfl, rfl, rfl, rfl, rfl, rfl, fun j e he => by simp [collapseIOEnt, IOInst.rename, he]⟩

/-- **Nothing outside is touched**: an output of the map that is not an `instance:` connection, is
addressed to another name, or names something the proxy does not relay, is left exactly as it is. -/
theorem C17_io_untouched (I : IOInst) (F : IOFile) (o : Out)
    (h : o.instIn = none ∨ foldStr o.target ≠ foldStr I.name ∨
         ∀ n, o.instIn = some n → lookupLast F.proxyInputs (foldStr n, foldStr o.input) = none) :
    reroute I F o = o := reroute_untouched I F o h

/-- **Out of the instance**: every connection added for an `instance:local;Output` output of the
`func_instance` is `Output.combine` of the relayed output and that outer output: it fires on the
inner output, and goes to the OUTER target and input verbatim (not renamed). -/
theorem C17_io_out (I : IOInst) (F : IOFile) (i : Nat) (c : Out) (h : (i, c) ∈ instOutputs I F) :
    ∃ o ∈ I.outs, ∃ n p, o.instOut = some n ∧
      lookupLast F.proxyOutputs (foldStr n, foldStr o.output) = some (i, p) ∧
      c.output = p.output ∧ c.target = o.target ∧ c.input = o.input ∧
      c.delay = p.delay + o.delay ∧ c.times = combineTimes p.times o.times := by
  obtain ⟨o, ho, n, p, hn, hl, rfl⟩ := mem_instOutputs I F i c h
  exact ⟨o, ho, n, p, hn, hl, rfl, rfl, rfl, rfl, rfl⟩

/-- After `InstanceFile.parse` no proxy entity and no connection to a proxy is left in the file,
and every relayed input comes from an `OnProxyRelay` output of a proxy. -/
theorem C17_io_parse (ents : List IOEnt) :
    (∀ e ∈ (parseIO ents).ents, e.isProxy = false) ∧
    (∀ e ∈ (parseIO ents).ents, ∀ o ∈ e.outs,
        toProxy ((ents.filter (·.isProxy)).map (fun p => foldStr p.name)) o = false) ∧
    (∀ k p, (k, p) ∈ (parseIO ents).proxyInputs → ∃ e ∈ ents, e.isProxy = true ∧ ∃ o ∈ e.outs,
        isOnProxyRelay o = true ∧ k = (foldStr o.target, foldStr o.input)) := by
  refine ⟨parseIO_no_proxy ents, parseIO_no_relay ents, fun k p h => ?_⟩
  obtain ⟨e, he, hp, o, ho, hr, hk, _⟩ := parseIO_inputs_from_proxies ents k p h
  exact ⟨e, he, hp, o, ho, hr, hk⟩

omit [CharFold] in
/-- Fire counts: a negative count is "unlimited"; otherwise the smaller one. -/
theorem C17_io_times (a b : Int) :
    (b < 0 → combineTimes a b = a) ∧ (0 ≤ b → a < 0 → combineTimes a b = b) ∧
    (0 ≤ a → 0 ≤ b → combineTimes a b = min a b) := combineTimes_spec a b

end Subst

/-- …for instance `$abc $x` with the table {x ↦ 1} gives ` 1` (the undefined `$abc` vanishes). -/
theorem C17_subst_undefined_example :
    substitute [(['x'], ['1'])] [] ['$', 'a', 'b', 'c', ' ', '$', 'x'] = [' ', '1'] := by
  decide +kernel

/-! ## collapse_all terminates -/

/-- **Unnamed instances.** `collapse_all` names them `InstanceAuto<k>`, `k` counting the unnamed
instances in processing order from 1: named instances keep their name, no effective name is empty
or pass-through, two different unnamed instances get different names — hence (PREFIX: the auto name
is plain, SUFFIX: always) the same entity name copied from two of them stays different, and every
produced name carries its own instance's name in the shape of the style. -/
theorem C17_auto_names (names : List (List Char)) (i j : Nat) (hi : i < names.length)
    (hj : j < names.length) (hij : i < j) (ent : List Char) (hent : passThrough ent = false) :
    (assignAuto 0 names).length = names.length ∧
    (names[i].isEmpty = false → autoFixup .pre names i ent = names[i] ++ '-' :: ent) ∧
    (names[i].isEmpty = true →
        autoFixup .pre names i ent
          = autoName (((names.take i).filter (·.isEmpty)).length + 1) ++ '-' :: ent ∧
        autoFixup .suf names i ent
          = ent ++ '-' :: autoName (((names.take i).filter (·.isEmpty)).length + 1)) ∧
    (names[i].isEmpty = true → names[j].isEmpty = true →
        autoFixup .pre names i ent ≠ autoFixup .pre names j ent ∧
        autoFixup .suf names i ent ≠ autoFixup .suf names j ent) := by
  have gi : (assignAuto 0 names).getD i [] = if names[i].isEmpty then
      autoName (0 + ((names.take i).filter (·.isEmpty)).length + 1) else names[i] := by
    rw [List.getD_eq_getElem?_getD, List.getElem?_eq_getElem (by rw [assignAuto_length]; exact hi)]
    simpa using assignAuto_getElem 0 names i hi
  have gj : (assignAuto 0 names).getD j [] = if names[j].isEmpty then
      autoName (0 + ((names.take j).filter (·.isEmpty)).length + 1) else names[j] := by
    rw [List.getD_eq_getElem?_getD, List.getElem?_eq_getElem (by rw [assignAuto_length]; exact hj)]
    simpa using assignAuto_getElem 0 names j hj
  refine ⟨assignAuto_length 0 names, ?_, ?_, ?_⟩
  · intro h
    simp only [autoFixup, gi, h, Bool.false_eq_true, if_false, fixupName_pre _ _ hent]
  · intro h
    simp only [autoFixup, gi, h, if_true, Nat.zero_add, fixupName_pre _ _ hent, fixupName_suf _ _ hent,
      and_self]
  · intro ei ej
    have hne := assignAuto_distinct names i j hi hj hij ei ej
    have hne' : (assignAuto 0 names).getD i [] ≠ (assignAuto 0 names).getD j [] := by
      rw [List.getD_eq_getElem?_getD, List.getD_eq_getElem?_getD,
        List.getElem?_eq_getElem (by rw [assignAuto_length]; exact hi),
        List.getElem?_eq_getElem (by rw [assignAuto_length]; exact hj)]
      simpa using hne
    constructor
    · simp only [autoFixup, fixupName_pre _ _ hent]
      intro h
      exact hne' (List.append_cancel_right h)
    · simp only [autoFixup, fixupName_suf _ _ hent]
      intro h
      have h2 := List.append_cancel_left h
      simp only [List.cons.injEq, true_and] at h2
      exact hne' h2

/-- **Termination with a bound.** `collapseAll` is a total function (it returns, raises
RecursionError or raises FileNotFoundError) and performs at most `n₀ · Σ_{k<limit} b^k` collapses,
`b` = maximal number of nested instances in one file, `n₀` = instances in the map. -/
theorem C17_term (files : List (List Nat)) (b : Nat) (hb : ∀ f ∈ files, f.length ≤ b)
    (limit : Nat) (insts : List Nat) :
    (collapseAll files limit insts).collapses ≤ insts.length * geomSum b limit :=
  collapseAll_bound files b hb limit insts

/-- A normal return leaves no instance in the map. -/
theorem C17_term_done (files : List (List Nat)) (limit : Nat) (insts : List Nat)
    (h : (collapseAll files limit insts).outcome = .done) :
    (collapseAll files limit insts).left = 0 := collapseAll_done_left files limit insts h

/-- The bound is attained: a file including itself twice costs `n·(2^limit − 1)` collapses before
RecursionError (with the default `recur_limit = 100` that is `2^100 − 1`). -/
theorem C17_term_exponential (limit n : Nat) (hn : 0 < n) :
    collapseAll [[0, 0]] limit (List.replicate n 0) = ⟨n * (2 ^ limit - 1), .recursion, n * 2 ^ limit⟩ ∧
    n * geomSum 2 limit = n * (2 ^ limit - 1) :=
  ⟨collapseAll_self2 limit n hn, by rw [geomSum_two]⟩

/-! ## the template is not modified (FixupValue cells) -/

/-- Collapse the same template entity several times (each time with its own renaming function,
i.e. its own instance name/style), threading the store. -/
def collapseMany (m : CopyMode) : List (List Char → List Char) → Store → List Nat → Store
  | [], st, _ => st
  | f :: fs, st, locs => collapseMany m fs (collapseCells m f st locs).2 locs

/-- **Template immutability, any number of collapses in any order.** When `Entity.copy` gives the
copy fresh `FixupValue` cells, every cell that existed before — the template's and those of all
earlier copies — still has its value after any sequence of collapses, and every collapse returns
exactly the renamed values of the template. -/
theorem C17_template_fresh (fs : List (List Char → List Char)) (st : Store) (locs : List Nat) :
    (∀ l, l < st.length → (collapseMany .fresh fs st locs).getD l [] = st.getD l []) ∧
    (∀ f, (collapseCells .fresh f (collapseMany .fresh fs st locs) locs).1
        = (readCells (collapseMany .fresh fs st locs) locs).map f) := by
  refine ⟨?_, fun f => collapseCells_fresh_result f _ locs⟩
  induction fs generalizing st with
  | nil => intro l _; rfl
  | cons f fs ih =>
    intro l hl
    have hlen := collapseCells_store_length .fresh f st locs
    rw [collapseMany, ih _ l (by omega), collapseCells_fresh_frame f st locs l hl]

/-- …hence with fresh cells the `k`-th collapse yields the same values as the first. -/
theorem C17_template_fresh_repeat (fs : List (List Char → List Char)) (f : List Char → List Char)
    (st : Store) (locs : List Nat) (hl : ∀ l ∈ locs, l < st.length) :
    (collapseCells .fresh f (collapseMany .fresh fs st locs) locs).1
      = (collapseCells .fresh f st locs).1 := by
  rw [collapseCells_fresh_result, collapseCells_fresh_result]
  congr 1
  simp only [readCells]
  apply List.map_congr_left
  intro l hlm
  exact (C17_template_fresh fs st locs).1 l (hl l hlm)

/-- **The defect of 2.5.0 (shared cells), general form**: the template's cells hold the renamed
values after one collapse. -/
theorem C17_template_shared_rewrites (f : List Char → List Char) (st : Store) (locs : List Nat)
    (hnd : locs.Nodup) (hlt : ∀ l ∈ locs, l < st.length) :
    readCells (collapseCells .shared f st locs).2 locs = (readCells st locs).map f :=
  collapseCells_shared_rewrites f st locs hnd hlt

/-- **Negation witness** (replayed on the implementation by `harness/p_c17.py`): template fixup
`$color = red`, instance `A`, PREFIX. With shared cells the template reads `A-red` after the first
collapse and the second collapse yields `A-A-red`; with fresh cells both yield `A-red` and the
template still reads `red`. -/
theorem C17_template_shared_defect :
    let I : Inst Rat := { name := ['A'], style := .pre, fixup := [], P := ⟨⟨1,0,0,0,1,0,0,0,1⟩, ⟨0,0,0⟩⟩ }
    let f := fixupFix I
    let st : Store := [['r','e','d']]
    (collapseCells .shared f st [0]).1 = [['A','-','r','e','d']] ∧
    readCells (collapseCells .shared f st [0]).2 [0] = [['A','-','r','e','d']] ∧
    (collapseCells .shared f (collapseCells .shared f st [0]).2 [0]).1 = [['A','-','A','-','r','e','d']] ∧
    (collapseCells .fresh f (collapseCells .fresh f st [0]).2 [0]).1 = [['A','-','r','e','d']] ∧
    readCells (collapseCells .fresh f (collapseCells .fresh f st [0]).2 [0]).2 [0] = [['r','e','d']] := by
  decide +kernel

/-! ## the template is not modified (general object graphs, through the shared `Heap` library)

`Srctools/Model/Heap.lean` / `Proofs/Heap.lean` (built for C09) model the store as a list of
objects with reference fields; `deepCopy` allocates a fresh object for every mutable node. -/

/-- A history of collapses of the template rooted at `l`: each round deep-copies the template in
the current store (`Solid.copy` / `Entity.copy`, every mutable part getting a fresh object) and then
mutates only objects allocated by that copy or later (`localise` on the new brushes, key / output /
fixup renames on the new entities, anything done to the target map). -/
inductive Collapses (l : Nat) : Heap.Store → Heap.Store → Prop where
  | done (h : Heap.Store) : Collapses l h h
  | round {h h1 h2 : Heap.Store} {l' n : Nat} {ops : List Heap.Op} :
      Heap.WF h → Heap.deepCopy n h l = some (h1, l') →
      (∀ op ∈ ops, ∀ t, op.target = some t → h.length ≤ t) →
      Collapses l (Heap.run ops h1) h2 → Collapses l h h2

/-- **Template immutability from the frame theorem.** After any number of collapses the abstract
value of the template (to every depth) is what it was. That `collapse_one` writes only through
the copies is the correspondence's part (the template's export text is compared before/after
every collapse); that the copies are deep is `Gen.Copy`/the id-walk (C09) and, for the one slot
that was shared in 2.5.0, `C17_template_shared_defect`. -/
theorem C17_template {l : Nat} {h h' : Heap.Store} (c : Collapses l h h') :
    ∀ m, Heap.abs m h' l = Heap.abs m h l := by
  induction c with
  | done h => intro m; rfl
  | round wf e hw _ ih =>
    intro m
    rw [ih m]
    exact (Heap.copy_indep wf ((Heap.adequate_deep _).from l) e).2.2.2.1 _ hw m

/-- Each copy denotes the template's value at the time of the copy (= its original value). -/
theorem C17_template_copy {l l' n : Nat} {h0 h h1 : Heap.Store} (c : Collapses l h0 h)
    (wf : Heap.WF h) (e : Heap.deepCopy n h l = some (h1, l')) :
    ∀ m, Heap.abs m h1 l' = Heap.abs m h0 l := by
  intro m
  rw [(Heap.copy_indep wf ((Heap.adequate_deep _).from l) e).1 m, C17_template c m]

/-! ## non-vacuity -/

/-- A template entity (mutable, class 1) with one mutable FixupValue cell (class 2): one collapse
round that overwrites the copy's cell leaves the template's value alone. -/
example :
    let h : Heap.Store := [⟨2, true, [(0, .val 7)]⟩, ⟨1, true, [(0, .ref 0)]⟩]
    ∃ h', Collapses 1 h h' ∧ h'.length = 4 ∧ h'[2]? = some ⟨2, true, [(0, .val 99)]⟩ ∧
      Heap.abs 3 h' 1 = Heap.abs 3 h 1 := by
  intro h
  have wf : Heap.WF h := Heap.wf_of_B (by decide) (by decide)
  have e : Heap.deepCopy 3 h 1 = some (h ++ [⟨2, true, [(0, .val 7)]⟩, ⟨1, true, [(0, .ref 2)]⟩], 3) := by
    decide +kernel
  have c : Collapses 1 h (Heap.run [Heap.Op.write 2 0 (.val 99)]
      (h ++ [⟨2, true, [(0, .val 7)]⟩, ⟨1, true, [(0, .ref 2)]⟩])) := by
    refine Collapses.round wf e ?_ (Collapses.done _)
    intro op hop t ht
    simp only [List.mem_singleton] at hop
    subst hop
    simp only [Heap.Op.target, Option.some.injEq] at ht
    subst ht; decide
  exact ⟨_, c, by decide +kernel, by decide +kernel, C17_template c 3⟩

/-- A quarter turn about z (yaw 90) over the integers is orthogonal with determinant 1. -/
example : Orth (⟨0, 1, 0, -1, 0, 0, 0, 0, 1⟩ : M3 Int) ∧ (⟨0, 1, 0, -1, 0, 0, 0, 0, 1⟩ : M3 Int).det = 1 := by
  constructor
  · unfold Orth; decide
  · decide

/-- `(3/5, 4/5)` rotation over ℚ: orthogonal, and a concrete texture coordinate is preserved. -/
example :
    let P : Placement Rat := ⟨⟨3/5, 4/5, 0, -4/5, 3/5, 0, 0, 0, 1⟩, ⟨10, -20, 30⟩⟩
    let ax : UVAxis Rat := ⟨⟨0, 1, 0⟩, 16, 1/4⟩
    Orth P.R ∧ Orth P.R.transpose ∧
    texCoord (localiseAxis P ax) (place P ⟨1, 2, 3⟩) = 24 ∧ texCoord ax ⟨1, 2, 3⟩ = 24 := by
  refine ⟨?_, ?_, ?_, ?_⟩
  · unfold Orth; decide +kernel
  · unfold Orth; decide +kernel
  · decide +kernel
  · decide +kernel

/-- A tilted displacement vertex under the same rotation: the normal turns, the distance stays. -/
example :
    let P : Placement Rat := ⟨⟨3/5, 4/5, 0, -4/5, 3/5, 0, 0, 0, 1⟩, ⟨10, -20, 30⟩⟩
    let d : DispVert Rat := ⟨⟨1, 0, 0⟩, ⟨0, 5, 1⟩, ⟨0, 0, 1⟩, 8, 255⟩
    (DispVert.localise P d).normal = ⟨3/5, 4/5, 0⟩ ∧ (DispVert.localise P d).offset = ⟨-4, 3, 1⟩ ∧
    (DispVert.localise P d).distance = 8 := by
  refine ⟨?_, ?_, ?_⟩ <;> decide +kernel

example : Trig.Unit (⟨3/5, 4/5, 0, 1, 1, 0⟩ : Trig Rat) := by
  refine ⟨?_, ?_, ?_⟩ <;> decide +kernel

/-- A relay behind a proxy named with capitals: the map's `instance:RELAY;trigger` output ends at
`inst-Relay` with input `Trigger`, fires once; the relay's connection to the proxy is replaced by the
outer one. -/
example :
    let o (out tg inp : String) (times : Int) (io ii : Option String) : Out :=
      ⟨out.toList, tg.toList, inp.toList, [], 0, times, io.map (·.toList), ii.map (·.toList), false⟩
    let ents := [⟨false, "Relay".toList, [o "OnTrigger" "proxy" "ProxyRelay" (-1) none none]⟩,
                 ⟨true, "Proxy".toList, [o "OnProxyRelay" "Relay" "Trigger" 1 none none]⟩]
    let I : IOInst := ⟨"inst".toList, .pre, [], [o "OnTrigger" "outer" "FireUser1" (-1) (some "relay") none]⟩
    let r := collapseIO I ents [o "OnMapSpawn" "inst" "trigger" (-1) none (some "RELAY")]
    r.outer = [o "OnMapSpawn" "inst-Relay" "Trigger" 1 none none] ∧
    r.ents = [("inst-Relay".toList, [o "OnTrigger" "outer" "FireUser1" (-1) none none])] := by
  decide +kernel

example : passThrough ['@','g'] = true ∧ passThrough ['d','o','o','r'] = false := by decide

/-- `$idx` with table {id ↦ 3, idx ↦ 77} takes the longer name. -/
example : substitute [(['i','d'], ['3']), (['i','d','x'], ['7','7'])] [] ['a','$','I','D','x','!'] = ['a','7','7','!'] := by
  decide +kernel

example : (collapseAll [[1], [0]] 4 [0, 1]).collapses = 8 ∧ (collapseAll [[1], []] 3 [0]).outcome = .done := by
  decide +kernel

end C17
