import Srctools.Gen.VmfKeys
/-!
# C06 — VMF export/parse round trip is a fixed point and loses no map content

Property theorems only.
-/
namespace C06

/-! ## Static obligation on the current source: every key written by an `export` is read by the
matching `parse` (case-insensitively).  `Gen.VmfKeys.table` is regenerated from
`/repo/src/srctools/vmf.py` on every run by `tools/gen_vmfKeys.py`. -/

/-- Block headers that are written by a class's `export` but consumed by the *parent's* parser
(each with the parser that reads it).  Nothing else may be write-only. -/
def parentRead : List (String × String) := [
  ("Entity", "entity"),      -- VMF.parse: find_all('Entity'), children of 'hidden'
  ("Entity", "world"),       -- VMF.parse: find_block('world')
  ("Solid", "solid"),        -- Entity.parse: name == "solid"
  ("Solid", "hidden"),       -- Entity.parse: name == "hidden"
  ("Side", "side"),          -- Solid.parse: find_all("side")
  ("VisGroup", "visgroup"),  -- VMF.parse / VisGroup.parse: find_all('visgroup')
  ("EntityGroup", "group"),  -- Entity.parse: name == "group"
  ("Camera", "camera"),      -- VMF.parse: every child of 'cameras' that is not 'activecamera'
  ("Cordon", "cordon")]      -- VMF.parse: find_all('cordon')

def lower (s : String) : String := s.map Char.toLower

def keyOK (c : Gen.VmfKeys.Cls) (k : String) : Bool :=
  c.readKeys.any (fun r => lower r == lower k) || parentRead.contains (c.name, k)

def prefixOK (c : Gen.VmfKeys.Cls) (k : String) : Bool :=
  c.readPrefixes.any (fun r => lower r == lower k)

/-- The (class, key) pairs written by an `export` that no parser reads. -/
def writeOnly : List (String × String) :=
  Gen.VmfKeys.table.flatMap fun c =>
    (((c.writtenKeys ++ c.writtenBlocks).filter (fun k => !keyOK c k)) ++
     ((c.writtenKeyPrefixes ++ c.writtenBlockPrefixes).filter (fun k => !prefixOK c k))).map
      (fun k => (c.name, k))

/-- OBLIGATION on the current source: written ⊆ read. -/
theorem C06_keys_written_are_read : writeOnly = [] := by decide +kernel

/-- The table is the one the obligation is meant for (all ten writer/reader pairs present, each
with at least one written key) — so the obligation is not vacuous. -/
theorem C06_keys_table_shape :
    Gen.VmfKeys.table.map (·.name) =
      ["VMF", "Strata2DViewport", "Strata3DViewport", "Entity", "Solid", "Side", "VisGroup",
       "EntityGroup", "Camera", "Cordon"]
    ∧ Gen.VmfKeys.table.all (fun c => !c.writtenKeys.isEmpty) = true := by decide +kernel

end C06
