import Srctools.Gen.VmfKeys
import Srctools.Proofs.C06
import Srctools.Proofs.C06Text
import Srctools.Proofs.C06Hist
import Srctools.Props.C01
/-!
# C06 — VMF export/parse round trip is a fixed point and loses no map content

Property theorems only.
-/
namespace C06

/-! ## Static obligation on the current source: every key written by an `export` is read by the
matching `parse` (case-insensitively).  `Gen.VmfKeys.table` is regenerated from
`/repo/src/srctools/vmf.py` on every run by `tools/gen_vmfKeys.py`. -/

/-- Block headers that are written by a class's `export` but consumed by the *parent's* parser
(each with the parser that reads it).  Nothing else may be write-only. -/
def parentRead : List (String × String) := [
  ("Entity", "entity"),      -- VMF.parse: find_all('Entity'), children of 'hidden'
  ("Entity", "world"),       -- VMF.parse: find_block('world')
  ("Solid", "solid"),        -- Entity.parse: name == "solid"
  ("Solid", "hidden"),       -- Entity.parse: name == "hidden"
  ("Side", "side"),          -- Solid.parse: find_all("side")
  ("VisGroup", "visgroup"),  -- VMF.parse / VisGroup.parse: find_all('visgroup')
  ("EntityGroup", "group"),  -- Entity.parse: name == "group"
  ("Camera", "camera"),      -- VMF.parse: every child of 'cameras' that is not 'activecamera'
  ("Cordon", "cordon")]      -- VMF.parse: find_all('cordon')

def lowerS (s : String) : String := s.map Char.toLower

def keyOK (c : Gen.VmfKeys.Cls) (k : String) : Bool :=
  c.readKeys.any (fun r => lowerS r == lowerS k) || parentRead.contains (c.name, k)

def prefixOK (c : Gen.VmfKeys.Cls) (k : String) : Bool :=
  c.readPrefixes.any (fun r => lowerS r == lowerS k)

/-- The (class, key) pairs written by an `export` that no parser reads. -/
def writeOnly : List (String × String) :=
  Gen.VmfKeys.table.flatMap fun c =>
    (((c.writtenKeys ++ c.writtenBlocks).filter (fun k => !keyOK c k)) ++
     ((c.writtenKeyPrefixes ++ c.writtenBlockPrefixes).filter (fun k => !prefixOK c k))).map
      (fun k => (c.name, k))

/-- OBLIGATION on the current source: written ⊆ read. -/
theorem C06_keys_written_are_read : writeOnly = [] := by decide +kernel

/-- The table is the one the obligation is meant for (all ten writer/reader pairs present, each
with at least one written key) — so the obligation is not vacuous. -/
theorem C06_keys_table_shape :
    Gen.VmfKeys.table.map (·.name) =
      ["VMF", "Strata2DViewport", "Strata3DViewport", "Entity", "Solid", "Side", "VisGroup",
       "EntityGroup", "Camera", "Cordon"]
    ∧ Gen.VmfKeys.table.all (fun c => !c.writtenKeys.isEmpty) = true := by decide +kernel


/-- The literal defaults of the readers (class, accessor, key, default) the model was written
against: `getInt "lightmapscale" 16`, `mkV3 0 64 0` for a camera's `look`, … in Model/C06.lean.
A default changed in the source changes the generated table and breaks this obligation; the
model's own defaults are compared with the implementation on key-dropped documents by the
correspondence. -/
def readerDefaults : List (String × String × String × String) := [
  ("VMF", "str", "formatversion", "'100'"),
  ("VMF", "int", "editorversion", "400"),
  ("VMF", "int", "editorbuild", "5304"),
  ("VMF", "bool", "prefab", "False"),
  ("VMF", "int", "mapversion", "0"),
  ("VMF", "bool", "bSnapToGrid", "True"),
  ("VMF", "bool", "bShowGrid", "True"),
  ("VMF", "bool", "bShow3DGrid", "False"),
  ("VMF", "bool", "bShowLogicalGrid", "False"),
  ("VMF", "int", "nGridSpacing", "64"),
  ("VMF", "bool", "active", "False"),
  ("VMF", "int", "activecamera", "-1"),
  ("VMF", "int", "count", "0"),
  ("VMF", "vec", "position", "0.0 0.0 0.0"),
  ("VMF", "bool", "3d", "expr:key == 'v0'"),
  ("VMF", "float", "zoom", "1.0"),
  ("VMF", "str", "angle", "'[0 0 0]'"),
  ("Entity", "conv_bool", "editor", "True"),
  ("Entity", "from_str", "editor", "255 255 255"),
  ("Entity", "conv_bool", "visgroupshown", "True"),
  ("Entity", "conv_bool", "visgroupautoshown", "True"),
  ("Entity", "from_str", "color", "255 255 255"),
  ("Solid", "int", "id", "-1"),
  ("Solid", "conv_bool", "visgroupshown", "True"),
  ("Solid", "conv_bool", "visgroupautoshown", "True"),
  ("Solid", "from_str", "color", "255 255 255"),
  ("Side", "int", "id", "-1"),
  ("Side", "int", "lightmapscale", "16"),
  ("Side", "int", "smoothing_groups", "0"),
  ("Side", "str", "material", "''"),
  ("Side", "float", "rotation", "0.0"),
  ("Side", "str", "uaxis", "'[0 1 0 0] 0.25'"),
  ("Side", "str", "vaxis", "'[0 0 -1 0] 0.25'"),
  ("Side", "str", "plane", "'(0 0 0) (0 0 0) (0 0 0)'"),
  ("Side", "str", "plane", "''"),
  ("Side", "int", "power", "4"),
  ("Side", "vec", "startposition", "0.0 0.0 0.0"),
  ("Side", "float", "elevation", "0.0"),
  ("Side", "int", "flags", "0"),
  ("Side", "bool", "subdiv", "False"),
  ("Side", "int", "numpts", "0"),
  ("Side", "from_str", "point", ""),
  ("VisGroup", "int", "visgroupid", "-1"),
  ("VisGroup", "str", "name", "expr:f'VisGroup_{vis_id}'"),
  ("VisGroup", "vec", "color", "255 255 255"),
  ("EntityGroup", "int", "id", "-1"),
  ("EntityGroup", "bool", "visgroupshown", "True"),
  ("EntityGroup", "bool", "visgroupautoshown", "True"),
  ("EntityGroup", "vec", "color", "255 255 255"),
  ("Camera", "vec", "position", "0.0 0.0 0.0"),
  ("Camera", "vec", "look", "0.0 64.0 0.0"),
  ("Cordon", "str", "name", "'cordon'"),
  ("Cordon", "bool", "active", "False"),
  ("Cordon", "vec", "mins", "0 0 0"),
  ("Cordon", "vec", "maxs", "128 128 128")
]

/-- OBLIGATION on the current source: the readers' literal defaults are the ones modelled. -/
theorem C06_reader_defaults : Gen.VmfKeys.defaults = readerDefaults := by decide +kernel

/-! ## Tree-level round trip

`exportTree o m` is the keyvalues tree of `VMF.export()` (model of the writer), `parseTree true`
is `VMF.parse(..., preserve_ids=True)` (model of the reader, id managers included), `project o m`
is what the options are documented to drop plus order normalisation (keys and id sets are written
sorted, fixups by index).  All three are compared with the implementation on every run.

`MapOK1` (Proofs/C06.lean) is the domain: numeric tokens are numeric and free of blanks and
brackets, keys are not `id` / `replace…` and differ ignoring case, fixup indexes are distinct, output fields do not contain their own separator (a comma inside the parameter of a
comma-separated output is fine: the reader re-joins it), worldspawn is not hidden, the format
version is 100 — and, in this **v1 statement**, faces carry no displacement (displacement data
is in the model, the correspondence and the search, but not yet in the theorem). `IdsOK`: no id is the
"allocate one" marker -1, group ids are distinct. -/

/-- **Round trip.** Re-parsing the exported tree with `preserve_ids=True` gives
exactly the projected map: nothing else is lost or changed. -/
theorem C06_tree_roundtrip (o : ExportOpts) (m : VMap) (h : MapOK1 m) (hid : IdsOK m) :
    parseTree true (exportTree o m) = .ok (project o m) := by
  unfold parseTree
  rw [parseRaw_export o m h]
  simp only [Except.map]
  rw [assignIds_preserve _ (idsOK_rawRT o m hid), fix_rawRT_eq_project o m h]

/-- **Fixed point.** Exporting the re-parsed map again (without incrementing the map version a
second time) yields the same tree as the first export: export -> parse -> export changes nothing —
displacement arrays, multiblend and Strata data included.
(`logicalPos ≠ []`: the constructor of the implementation never leaves it empty.) -/
theorem C06_fixed_point (o : ExportOpts) (m : VMap) (h : MapOK1 m) (hid : IdsOK m)
    (hl : ∀ e ∈ m.ents, e.logicalPos ≠ []) :
    (parseTree true (exportTree o m)).map (exportTree { o with incVersion := false })
      = .ok (exportTree o m) := by
  rw [C06_tree_roundtrip o m h hid]
  simp only [Except.map]
  rw [exportTree_project o m h hl]

/-- The second generation is stable for ever: the projected map is its own projection as far as
the exported tree is concerned. -/
theorem C06_project_export (o : ExportOpts) (m : VMap) (h : MapOK1 m)
    (hl : ∀ e ∈ m.ents, e.logicalPos ≠ []) :
    exportTree { o with incVersion := false } (project o m) = exportTree o m :=
  exportTree_project o m h hl

/-- a displacement written twice: the projection changes nothing the writer looks at -/
theorem C06_displacement_fixed (mb : Bool) (d : Disp) : exportDisp mb (projDisp mb d) = exportDisp mb d :=
  exportDisp_projDisp mb d

/-! ## Text level

`exportText o m` is the TEXT `VMF.export()` returns (model of every class's own f-string writer:
indentation, unquoted block headers, which fields go through `escape_text` and in which mode —
compared character for character with the implementation on every run).  `C01.parse` is the model
of `Keyvalues.parse` over the tokenizer model of C02/C03, with the tables of the current source. -/

mutual
/-- a parsed C01 keyvalues tree as a C06 tree -/
def unconvKV : C01.KV → KV
  | .leaf n v => .leaf n v
  | .block n cs => .block n (unconvList cs)
def unconvList : List C01.KV → List KV
  | [] => []
  | t :: ts => unconvKV t :: unconvList ts
end

mutual
theorem unconv_conv (t : KV) : unconvKV (convKV t) = t := by
  match t with
  | .leaf n v => rfl
  | .block n cs => simp [convKV, unconvKV, unconvList_conv cs]
theorem unconvList_conv (ts : List KV) : unconvList (convList ts) = ts := by
  match ts with
  | [] => rfl
  | t :: ts => simp [convList, unconvList, unconv_conv t, unconvList_conv ts]
end

/-- `VMF.parse(Keyvalues.parse(text), preserve_ids)` -/
def parseVmfText (po : C01.ParseOpts) (fold : Char → List Char) (preserve : Bool) (text : Str) : Except Err VMap :=
  match C01.parse TT0 po fold text with
  | .root ks => parseTree preserve (unconvList ks)
  | _ => .error .leafKv

/-- **The exported text parses to the exported tree**: `Keyvalues.parse(VMF.export())` is
`exportTree o m`, for every well-formed map, every option set, default parser options or any other
with escapes on (`flags`, `single_line`, `newline_keys` arbitrary). -/
theorem C06_text_tree (po : C01.ParseOpts) (hesc : po.allowEscapes = true) (hsb : po.singleBlock = false)
    (hv : po.newlineValues = true) (fold : Char → List Char) (o : ExportOpts) (m : VMap) (h : MapOK1 m) :
    C01.parse TT0 po fold (exportText o m) = .root (convList (exportTree o m)) :=
  parse_exportText po hesc hsb hv fold o m h

/-- **Round trip through the text**: `VMF.parse(Keyvalues.parse(vmf.export()), preserve_ids=True)`
is the projected map. -/
theorem C06_text (po : C01.ParseOpts) (hesc : po.allowEscapes = true) (hsb : po.singleBlock = false)
    (hv : po.newlineValues = true) (fold : Char → List Char) (o : ExportOpts) (m : VMap) (h : MapOK1 m)
    (hid : IdsOK m) :
    parseVmfText po fold true (exportText o m) = .ok (project o m) := by
  unfold parseVmfText
  rw [C06_text_tree po hesc hsb hv fold o m h]
  simp only [unconvList_conv]
  exact C06_tree_roundtrip o m h hid

/-- **The text is a fixed point**: export, parse the text, export again (without incrementing the
map version a second time) gives the same text, character for character. -/
theorem C06_text_fixed_point (po : C01.ParseOpts) (hesc : po.allowEscapes = true) (hsb : po.singleBlock = false)
    (hv : po.newlineValues = true) (fold : Char → List Char) (o : ExportOpts) (m : VMap) (h : MapOK1 m)
    (hid : IdsOK m) (hl : ∀ e ∈ m.ents, e.logicalPos ≠ []) (m2 : VMap)
    (h2 : parseVmfText po fold true (exportText o m) = .ok m2) :
    exportTree { o with incVersion := false } m2 = exportTree o m := by
  rw [C06_text po hesc hsb hv fold o m h hid] at h2
  cases h2
  exact C06_project_export o m h hl

/-- … however the text is delivered to the parser (a string, a list of chunks cut anywhere, a file
read line by line): C03's chunk-independence composed with `C06_text_tree`. -/
theorem C06_text_chunks (po : C01.ParseOpts) (hesc : po.allowEscapes = true) (hsb : po.singleBlock = false)
    (hv : po.newlineValues = true) (fold : Char → List Char) (o : ExportOpts) (m : VMap) (h : MapOK1 m)
    (cs : List Str) (hcs : cs.flatten = exportText o m) :
    C01.parseChunks TT0 po fold cs = .root (convList (exportTree o m)) := by
  unfold C01.parseChunks
  rw [TokC.C03_run_eq_abstract, hcs]
  exact C06_text_tree po hesc hsb hv fold o m h

/-- **Renumbering (`preserve_ids=False`).** Whatever ids the file contains (repeated, zero,
negative, missing), after a parse without `preserve_ids` the ids of every kind — visgroups, groups,
entities (worldspawn included), brushes, faces — are pairwise distinct and positive: the
renumbering is injective per kind. (Model of `IDMan.get_id` including its search loop; the
freshness of the id it returns is proved, not assumed.) -/
theorem C06_renumber (t : List KV) (m : VMap) (h : parseTree false t = .ok m) : IdsInjective m := by
  unfold parseTree at h
  cases hr : parseRaw t with
  | error e => simp [hr, Except.map] at h
  | ok raw =>
    simp only [hr, Except.map, Except.ok.injEq] at h
    rw [← h]
    exact assignIds_injective raw

/-- **… and changes nothing else.** Id allocation (either mode) leaves every non-id field of the
parsed map alone: visgroup tree, worldspawn and entities (keys, fixups, outputs, brushes, faces,
displacements) are equal once ids are erased; an empty logical position becomes `[0 <new id>]` as in
the constructor; without `preserve_ids` no group block is lost (fresh ids never collide in the
`groups` dict). Together with `C06_renumber`: a consistent (injective) renumbering and nothing more. -/
theorem C06_renumber_content (p : Bool) (t : List KV) (raw : VMap) (h : parseRaw t = .ok raw) :
    ∃ m, parseTree p t = .ok m ∧
      eraseVisL m.vis = eraseVisL raw.vis ∧ eraseEnt m.spawn = eraseEnt raw.spawn ∧
      m.ents.map eraseEnt = raw.ents.map eraseEnt ∧
      (p = false → m.groups.map eraseGroup = raw.groups.map eraseGroup) ∧
      m.cams = raw.cams ∧ m.cordons = raw.cordons ∧ m.views = raw.views := by
  refine ⟨assignIds p raw, by simp [parseTree, h, Except.map], ?_⟩
  obtain ⟨h1, h2, h3, h4, h5, h6, h7, _, _⟩ := assignIds_content p raw
  exact ⟨h1, h2, h3, h4, h5, h6, h7⟩

/-- … and with `preserve_ids=True` nothing is renumbered unless an id is the marker -1. -/
theorem C06_preserve (m : VMap) (h : IdsOK m) :
    assignIds true m = { m with spawn := fixLogical m.spawn, ents := m.ents.map fixLogical } :=
  assignIds_preserve m h

/-- `IDMan.get_id` returns an unused positive id (search loop bounded by the number of used ids). -/
theorem C06_get_id_fresh (m : IdMan) (d : Int) (h : m.Inv) :
    (m.get false d).1 ∉ m.used ∧ 0 < (m.get false d).1 :=
  ⟨(get_false_spec m d h).1, (get_false_spec m d h).2.1⟩

/-- Sub-structure forms of the same statement (each reader undoes its writer). -/
theorem C06_entity_partial (mb w hidden : Bool) (groups : List Group) (e : Ent) (h : EntOK1 e)
    (hg : ∀ g ∈ groups, GroupOK g = true) :
    parseEnt w hidden (entBlock mb w groups e) = .ok (entRT mb w hidden e, if w then groups else []) :=
  parseEnt_block mb w hidden groups e h hg

theorem C06_output_partial (o : Out) (h : OutOK o = true) : parseOut (exportOut o) = .ok (projOut o) :=
  parseOut_export o h

theorem C06_solid_partial (mb ig hidden : Bool) (s : Solid) (h : SolidOK1 s = true) :
    parseSolid hidden (solidBlock mb ig s) = .ok (solidRT mb ig hidden s) :=
  parseSolid_block mb ig hidden s h

/-- a face, with Strata point data and displacement data (all arrays, multiblend per option) -/
theorem C06_side (mb : Bool) (s : Side) (h : SideOK1 s = true) :
    parseSide (exportSide mb s) = .ok (projSide mb s) :=
  parseSide_export1 mb s h

/-- the `dispinfo` block: every vertex array is read back to the vertex it was written from; the
triangle tags of the last row and column (which are not written) come back as the default, and the
multiblend arrays exist exactly when the option is on and some vertex has a non-zero blend. -/
theorem C06_displacement (mb : Bool) (d : Disp) (h : DispOK d = true) :
    parseDisp (exportDisp mb d).kids = .ok (projDisp mb d) :=
  parseDisp_export mb d h

theorem C06_visgroup (v : Vis) (h : VisOK v = true) : parseVis (exportVis v) = .ok v :=
  parseVis_export v h

theorem C06_group (g : Group) (h : GroupOK g = true) : parseGroup (exportGroup g) = .ok g :=
  parseGroup_export g h

theorem C06_camera (c : Cam) (h : CamOK c = true) : parseCam (exportCam c) = .ok c := parseCam_export c h

theorem C06_cordon (c : Cordon) (h : CordonOK c = true) : parseCordon (exportCordon c) = .ok c :=
  parseCordon_export c h

theorem C06_viewport (title : String) (is0 : Bool) (d : Nat) (v : View) (h : ViewOK v = true) :
    parseViewKids is0 d (exportView title v).kids = .ok v :=
  parseViewKids_export title is0 d v h

/-- Integer fields: `int(str(i)) = i`. -/
theorem C06_int_roundtrip (i : Int) : parseInt? (showInt i) = some i := parseInt_showInt i

/-! ### Histories on one live object

The map object is exported many times in its life with in-place edits in between.  In the model an
edit is a function on the map VALUE and an export returns `exportTree` of the current value and
leaves `afterExport` (what `VMF.export` itself assigns: `map_ver`, worldspawn's `classname` /
`mapversion`, `active_cam`).  So every export of a history is `exportTree` of the value at that time —
nothing an earlier export or `str()` computed can show.  For the CODE this is established by the
tie (histories on live objects: after every export the text is compared with `exportText` of a fresh
dump, the dump after the export with `afterExport`); a text cached inside an object and not
invalidated by an in-place edit shows up there as a disagreement and a failing history. -/

/-- **Exports depend on the current value only.** After any history `h` on `m`, an export writes
`exportTree o` of the value the history produced, and the trees written earlier are unchanged. -/
theorem C06_export_pure (m : VMap) (h : List HOp) (o : ExportOpts) :
    (runHist m (h ++ [.exp o])).2 = (runHist m h).2 ++ [exportTree o (valueAfter m h)] ∧
    (runHist m (h ++ [.exp o])).1 = afterExport o (valueAfter m h) := by
  rw [runHist_append]
  simp only [runHist, runHist_value, and_self]

/-- All exports of a history at once. -/
theorem C06_history_exports (m : VMap) (h : List HOp) :
    (runHist m h).2 = (histPoints m h).map (fun p => exportTree p.1 p.2) := runHist_trees m h

/-- **Exporting again changes nothing**: what `export` leaves on the object does not show in the next
export (same options, no further version increment). The hypotheses on worldspawn — it has a
`classname`, no `mapversion` key — hold after every export (`C06_after_export_spawn`; a `mapversion`
key spelled differently by the user is respelled by the first export, as coded). -/
theorem C06_export_again (o : ExportOpts) (m : VMap)
    (hd : KeysDistinct m.spawn.keys)
    (hnm : ∀ kv ∈ m.spawn.keys, lower kv.1 ≠ lower (lit "mapversion"))
    (hcn : m.spawn.keys.any (fun kv => lower kv.1 == lower (lit "classname")) = true) :
    exportTree { o with incVersion := false } (afterExport o m) = exportTree o m :=
  exportTree_afterExport o m hd hnm hcn

theorem C06_after_export_spawn (o : ExportOpts) (m : VMap) :
    (∀ kv ∈ (afterExport o m).spawn.keys, lower kv.1 ≠ lower (lit "mapversion")) ∧
    (afterExport o m).spawn.keys.any (fun kv => lower kv.1 == lower (lit "classname")) = true := by
  refine ⟨afterExport_spawn o m, ?_⟩
  obtain ⟨kv, hm, hk, _⟩ := entSetKey_has
    (entSetKey m.spawn.keys (lit "mapversion") (showInt (exportedVer o m))) (lit "classname") (lit "worldspawn")
  simp only [afterExport, spawnKeysAfter, entDelKey, spawnForExport, List.any_eq_true, List.mem_filter, beq_iff_eq]
  refine ⟨kv, ⟨hm, ?_⟩, hk⟩
  rw [hk]; decide

/-- **Parsing takes a value.** Any number of parses of one tree object, with `preserve_ids` either
way in any order: each gives `parseTree p t` of the ORIGINAL tree (what a fresh tree gives), and the
tree is unchanged afterwards. Immediate in the model (a call returns `(parseTree p t, t)`); for the
code it rests on the tie (snapshots of the Keyvalues tree around every `VMF.parse`, repeated parses of
one tree object). -/
theorem C06_parse_pure (t : List KV) (ps : List Bool) :
    (parseMany t ps).1 = ps.map (fun p => parseTree p t) ∧ (parseMany t ps).2 = t := parseMany_spec t ps

/-! ### Non-vacuity: a map with hidden objects, a brush entity, outputs of both separator kinds,
an `instance:` output, fixups, nested visgroups, a group, Strata viewports with zeros, a camera and
a cordon satisfies the hypotheses. -/

def exV (a b c : String) : V3 := ⟨a.toList, b.toList, c.toList⟩
def exUV : UV := ⟨lit "1", lit "0", lit "0", lit "-12.5", lit "0.25"⟩

def exSide : Side :=
  { id := 7, p0 := exV "0" "0" "0", p1 := exV "64" "0" "0.5", p2 := exV "64" "-64" "1e-05",
    mat := lit "a\"b\\c", uaxis := exUV, vaxis := exUV, rot := lit "90", lightmap := 16, smooth := 0,
    points := none, disp := none }

def exSolid : Solid :=
  { id := 3, sides := [exSide, { exSide with id := 8, points := some [exV "1" "2" "3", exV "0" "-0.5" "7"] }], visIds := [15, 7], hidden := true, group := some 4,
    visShown := false, visAuto := true, cordon := true, color := exV "0" "255" "100" }

def exOut : Out :=
  { output := lit "OnTrigger", instOut := some (lit "relay"), target := lit "door \"1\"", input := lit "Open",
    instIn := none, params := lit "a,b,,c", delay := lit "0.5", times := -1, comma := true }

def exEnt : Ent :=
  { id := 5, keys := [(lit "targetname", lit "x\ny"), (lit "Classname", lit "func_door")],
    fixup := [⟨lit "var", lit "some value", 2⟩, ⟨lit "other", [], 1⟩], outputs := [exOut, { exOut with comma := false, instOut := none }],
    solids := [exSolid], hidden := true, groups := [4], visIds := [15, 7], visShown := true, visAuto := false,
    color := exV "220" "30" "220", logicalPos := lit "[0 500]", comments := lit "hi" }

def exMap : VMap :=
  { hammerVer := 400, hammerBuild := 5304, mapVer := 3, formatVer := 100, prefab := false,
    vis := [.mk (lit "outer") 7 (exV "1" "2" "3") [.mk (lit "in\"ner") 15 (exV "4" "5" "6") []]],
    snap := true, grid := false, logic := false, spacing := 64, grid3d := true, instVis := some 2,
    views := some [.v3 (exV "1" "2" "3") (exV "0" "90" "0"), .v2 0 (lit "0") (lit "5") (lit "1"),
                   .v2 1 (lit "0") (lit "0") (lit "0.25"), .v2 2 (lit "3") (lit "0") (lit "1")],
    spawn := { exEnt with id := 1, hidden := false, keys := [(lit "skyname", lit "sky")], solids := [{ exSolid with hidden := false }] },
    groups := [⟨4, true, false, exV "9" "9" "9"⟩], ents := [exEnt, { exEnt with id := 6, hidden := false, solids := [] }],
    activeCam := 1, cams := [⟨exV "1" "2" "3", exV "4" "5" "6"⟩], cordonOn := true,
    cordons := [⟨lit "cor\"don", true, exV "0" "0" "0", exV "8" "8" "8"⟩], quickhide := 2 }

def exVert (i : Nat) : DVert :=
  { normal := exV "0" "0" "1", dist := (toString i ++ ".5").toList, offset := exV "0" "0" "0",
    offsetNorm := exV "0" "0" "1", alpha := lit "255.0", triA := 1, triB := 9,
    blend := ⟨lit "0.5", lit "0", lit "1e-05", lit "0"⟩, malpha := ⟨lit "1", lit "1", lit "1", lit "1"⟩,
    colors := if i % 2 == 0 then some [exV "1" "0" "0", exV "0" "1" "0", exV "0" "0" "1", exV "1" "1" "1"] else none }

def exDisp : Disp :=
  { power := 1, pos := exV "0" "0" "0", elev := lit "0.0", coll := 5, subdiv := true,
    allowed := [-1, -1, -1, -1, -1, -1, -1, -1, -1, -1], verts := (List.range 9).map exVert }

theorem exDisp_ok : DispOK exDisp = true := by decide

/-- the example map with a displacement (multiblend data included) on one face of a brush entity -/
def exMapD : VMap :=
  { exMap with ents := [{ exEnt with solids := [{ exSolid with sides := [{ exSide with disp := some exDisp }] }] }] }

theorem exSolid_ok : SolidOK1 exSolid = true := by decide
theorem exEnt_ok (e : Ent) (h : e = exEnt ∨ e = { exEnt with id := 6, hidden := false, solids := [] }) : EntOK1 e := by
  rcases h with rfl | rfl <;>
  exact { idNonneg := by decide, keyNames := by decide, keyNl := by decide, keysDistinct := by unfold KeysDistinct; decide,
          fixes := by decide, fixIds := by decide, fixVars := by unfold VarsDistinct; decide,
          outs := by decide, solids := by decide, color := by decide }

theorem exMap_ok : MapOK1 exMap :=
  { format := rfl, instVis := by simp [exMap, InstVisOK],
    views := ⟨_, _, _, _, rfl, by decide, by decide, by decide, by decide⟩,
    vis := by decide,
    spawn := { idNonneg := by decide, keyNames := by decide, keyNl := by decide, keysDistinct := by unfold KeysDistinct; decide,
               fixes := by decide, fixIds := by decide, fixVars := by unfold VarsDistinct; decide,
               outs := by decide, solids := by decide, color := by decide },
    spawnVisible := rfl, groups := by decide,
    ents := by
      intro e he
      apply exEnt_ok
      simpa [exMap] using he,
    cams := by decide, cordons := by decide }


theorem exMap_ids : IdsOK exMap :=
  { vis := by decide, groups := by decide, groupsDistinct := by decide,
    spawn := ⟨by decide, by decide⟩,
    ents := by
      intro e he
      have : e = exEnt ∨ e = { exEnt with id := 6, hidden := false, solids := [] } := by simpa [exMap] using he
      rcases this with rfl | rfl <;> exact ⟨by decide, by decide⟩ }

example : (parseTree true (exportTree { minimal := true, multiblend := false, incVersion := true } exMap)).map
      (exportTree { minimal := true, multiblend := false, incVersion := false })
    = .ok (exportTree { minimal := true, multiblend := false, incVersion := true } exMap) :=
  C06_fixed_point { minimal := true, multiblend := false, incVersion := true } exMap exMap_ok exMap_ids (by decide)

theorem exMapD_ok : MapOK1 exMapD :=
  { exMap_ok with
    ents := by
      intro e he
      have : e = { exEnt with solids := [{ exSolid with sides := [{ exSide with disp := some exDisp }] }] } := by
        simpa [exMapD] using he
      subst this
      exact { idNonneg := by decide, keyNames := by decide, keyNl := by decide, keysDistinct := by unfold KeysDistinct; decide,
              fixes := by decide, fixIds := by decide, fixVars := by unfold VarsDistinct; decide,
              outs := by decide, solids := by decide, color := by decide } }

theorem exMapD_ids : IdsOK exMapD :=
  { exMap_ids with
    ents := by
      intro e he
      have : e = { exEnt with solids := [{ exSolid with sides := [{ exSide with disp := some exDisp }] }] } := by
        simpa [exMapD] using he
      subst this
      exact ⟨by decide, by decide⟩ }

example : parseTree true (exportTree { minimal := false, multiblend := true, incVersion := false } exMapD)
    = .ok (project { minimal := false, multiblend := true, incVersion := false } exMapD) :=
  C06_tree_roundtrip _ _ exMapD_ok exMapD_ids

example : (parseTree true (exportTree { minimal := false, multiblend := true, incVersion := false } exMapD)).map
      (exportTree { minimal := false, multiblend := true, incVersion := false })
    = .ok (exportTree { minimal := false, multiblend := true, incVersion := false } exMapD) :=
  C06_fixed_point { minimal := false, multiblend := true, incVersion := false } exMapD exMapD_ok exMapD_ids
    (by decide)

example : parseVmfText {} (fun c => [c]) true
      (exportText { minimal := false, multiblend := true, incVersion := false } exMapD)
    = .ok (project { minimal := false, multiblend := true, incVersion := false } exMapD) :=
  C06_text {} rfl rfl rfl _ _ exMapD exMapD_ok exMapD_ids

example : IdsInjective (assignIds false { exMap with ents := [exEnt, exEnt, exEnt] }) :=
  assignIds_injective _

example : parseTree true (exportTree { minimal := false, multiblend := true, incVersion := true } exMap)
    = .ok (project { minimal := false, multiblend := true, incVersion := true } exMap) :=
  C06_tree_roundtrip _ _ exMap_ok exMap_ids

/-- a history: export, move a face's texture offset in place, export again — the second tree is the
tree of the edited value, and its text differs from the first -/
def exShift (m : VMap) : VMap :=
  { m with ents := m.ents.map (fun e => { e with solids := e.solids.map (fun s =>
      { s with sides := s.sides.map (fun f => { f with uaxis := { f.uaxis with offset := lit "99" } }) }) }) }

example : (runHist exMap [.exp {}, .edit exShift, .exp {}]).2 =
    [exportTree {} exMap, exportTree {} (exShift (afterExport {} exMap))] := rfl

example : exportText {} (exShift (afterExport {} exMap)) ≠ exportText {} (afterExport {} exMap) := by decide +kernel

example : exportTree { incVersion := false } (afterExport {} (afterExport {} exMap)) = exportTree {} (afterExport {} exMap) :=
  C06_export_again {} _ (by unfold KeysDistinct; decide) (C06_after_export_spawn _ _).1 (C06_after_export_spawn _ _).2

end C06
