import Srctools.Model.C20
import Srctools.Gen.C20
import Srctools.Gen.Tok
/-! # C20 — secondary formats (property theorems; work in progress) -/
namespace C20

/-- OBLIGATION on the current source: formats, widths and constants the model hard-codes. -/
theorem C20_gen_cmdseq :
    Gen.C20.cmdFmt = "Bi260s260sii260sii" ∧ Gen.C20.cmdFmtPre = "Bi260s260sii260si" ∧
    Gen.C20.cmdPadWidths = [("name", 128), ("cmd.ensure_file", 260), ("exe", 260), ("cmd.args", 260)] ∧
    Gen.C20.cmdReadSizes = [4, 4, 128, 4] ∧
    Gen.C20.cmdPreV2Threshold = 0x3E4CCCCD := by decide

end C20
