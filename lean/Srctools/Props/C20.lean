import Srctools.Proofs.C20
import Srctools.Proofs.C20Tok
import Srctools.Proofs.C20Img
import Srctools.Proofs.C20Bvcd
import Srctools.Proofs.C20Snd
import Srctools.Proofs.C20SndTok
import Srctools.Proofs.C20Vmt
import Srctools.Proofs.C20VmtTok
import Srctools.Proofs.C20Smd
import Srctools.Gen.Kvser
import Srctools.Props.C01
import Srctools.Props.C02
import Srctools.Gen.C20
import Srctools.Gen.Tok
/-!
# C20 — secondary format writers emit files their own readers reproduce

Property theorems only. They are about the models of `Model/C20.lean` (cmdseq fields and file,
the scenes.image container layer, quantised fields, the quoting layers) — *not* about the BVCD
scene structure, the choreo text grammar, soundscript/VMT block structure, PCF or SMD, which
have no Lean model and rest on the round-trip search of `harness/p_c20.py`.

The models are generic in the constants extracted from the source (`Gen/C20.lean`,
`Gen/Tok.lean`); the `C20_gen_*` theorems re-check on every run that the constants the source
has *now* satisfy the decidable side conditions and have the shapes the model hard-codes.
-/
namespace C20
open C20.Bvcd

/-! ## obligations on the current source -/

/-- cmdseq.py: struct formats, field widths in `write` / `parse` and the version threshold are
the ones the byte layout of the model is written for. -/
theorem C20_gen_cmdseq :
    Gen.C20.cmdFmt = "Bi260s260sii260sii" ∧ Gen.C20.cmdFmtPre = "Bi260s260sii260si" ∧
    Gen.C20.cmdPadWidths = [("name", 128), ("cmd.ensure_file", 260), ("exe", 260), ("cmd.args", 260)] ∧
    Gen.C20.cmdReadSizes = [4, 4, 128, 4] ∧
    Gen.C20.cmdPreV2Threshold = 0x3E4CCCCD ∧
    Gen.C20.cmdTables.nameWidth = 128 ∧ Gen.C20.cmdTables.fieldWidth = 260 := by decide

/-- cmdseq.py: special codes are non-zero, fit 32 bits, their names fit the field, and the version
written is one the reader does not take for "before 0.2". -/
theorem C20_gen_cmd_tables : cmdTablesOK Gen.C20.cmdTables = true := by decide

/-- choreo.py: struct formats, magic, versions and sort key of the scenes.image reader/writer,
and the quantisation constants, are the ones the model is written for. -/
theorem C20_gen_image :
    Gen.C20.imgReadFmts = ["<4s4i", "<Iiii", "<Iii", "<Ii", "<{}i"] ∧
    Gen.C20.imgWriteFmts = ["<4siii", "<I", "<Iii", "<Ii", "<i"] ∧
    Gen.C20.imgDeferFmts = ["<i", "<{}s", "<ii", "<i"] ∧
    Gen.C20.imgMagicRead = [0x56, 0x53, 0x49, 0x46] ∧ Gen.C20.imgMagicWrite = Gen.C20.imgMagicRead ∧
    Gen.C20.imgVersions = [2, 3] ∧ Gen.C20.imgSortKey = "lambdaentry:entry.checksum" ∧
    Gen.C20.tagQuant = (255, 255, "<hB") ∧ Gen.C20.absTagQuant = (4096, 65535, "<hH") ∧
    Gen.C20.sampleQuantWrite = ["min(255,max(0,round(sample.value*255.0)))",
                                "min(255,max(0,round(track.value*255.0)))"] ∧
    Gen.C20.sampleQuantRead = ["value/255.0"] ∧
    Gen.C20.entryMs = ["round(scene.duration()*1000.0)", "round(scene.duration(EventType.Speak)*1000.0)"] ∧
    Gen.C20.entrySounds = ["sorted(set(scene.used_sounds()))"] := by decide

/-- tokenizer.py + vmt.py + sndscript.py: the facts the quoting layers rely on — every operator
and every character that starts another token is in BARE_DISALLOWED or in the leading set of
`_quote_if_required`; Material.export quotes shader, name and value through it;
Sound.export passes name and wave names through escape_text inside quotes and everything else
it writes inside quotes is a `join_float` (floats and enum names). -/
theorem C20_gen_quote :
    vmtTablesOK Gen.Tok.tables Gen.C20.vmtLead = true ∧ Gen.C20.vmtQuoteUses = 3 ∧
    Gen.C20.sndEscaped = ["\"escape_text(self.name)", "\"escape_text(self.sounds[0])", "\"escape_text(wav)"] ∧
    Gen.C20.sndRaw = ["\"join_float(self.level)", "\"join_float(self.pitch)", "\"join_float(self.volume)",
                      "self.channel"] := by decide

/-! ## cmdseq -/

/-- **Fixed-width fields.** For every ASCII string without NUL of at most `n` bytes,
`strip_cstring(pad_string(s, n)) = s` (and `pad_string` does not raise). -/
theorem C20_cmdseq_field (n : Nat) (s : Bytes) (hlen : s.length ≤ n)
    (hs : ∀ b ∈ s, b ≠ 0 ∧ b < 128) :
    ∃ p, pad s n = some p ∧ p.length = n ∧ strip p = some s := by
  have h : strOK n s := ⟨hlen, hs⟩
  exact ⟨_, pad_of_strOK h, pad_length (pad_of_strOK h), strip_pad_aux h _⟩

/-- A padded field is cut at its first NUL whatever follows it (junk after the terminator, as
found in real files, is ignored). -/
theorem C20_cmdseq_field_junk (s junk : Bytes) (hs : ∀ b ∈ s, b ≠ 0 ∧ b < 128) :
    strip (s ++ 0 :: junk) = some s := by
  unfold strip
  have : (s ++ 0 :: junk).takeWhile (· != 0) = s := by
    induction s with
    | nil => simp
    | cons a t ih =>
      have ha : a ≠ 0 := (hs a (by simp)).1
      simp only [List.cons_append, List.takeWhile_cons]
      simp [ha]
      exact ih (fun b hb => hs b (by simp [hb]))
  have hall : s.all isAscii = true := by
    simp only [List.all_eq_true, isAscii, decide_eq_true_eq]
    intro b hb; exact (hs b hb).2
  simp [this, hall]

/-- **Whole file.** For every representable file `x` (distinct sequence names; names, programs,
arguments and ensure-files ASCII without NUL within their field widths; special commands from the
table; counts below 2³²): `write` succeeds, `parse(write(x)) = x` — also when anything follows
the data — and writing the parsed value again gives the identical bytes. -/
theorem C20_cmdseq (T : CmdTables) (hT : cmdTablesOK T = true) (x : CmdFile) (hx : fileOK T x) :
    ∃ b, write T x = some b ∧ (∀ trailing, parse T (b ++ trailing) = some x) ∧
      (∀ x', parse T b = some x' → write T x' = some b) := by
  obtain ⟨b, hb, hp⟩ := write_parse hT x hx
  refine ⟨b, hb, hp, ?_⟩
  intro x' hx'
  have := hp []
  simp only [List.append_nil] at this
  rw [this] at hx'
  cases hx'
  exact hb

/-- `C20_cmdseq` at the constants of the current source. -/
theorem C20_cmdseq_current (x : CmdFile) (hx : fileOK Gen.C20.cmdTables x) :
    ∃ b, write Gen.C20.cmdTables x = some b ∧ parse Gen.C20.cmdTables b = some x ∧
      (∀ x', parse Gen.C20.cmdTables b = some x' → write Gen.C20.cmdTables x' = some b) := by
  obtain ⟨b, h1, h2, h3⟩ := C20_cmdseq _ C20_gen_cmd_tables x hx
  exact ⟨b, h1, by simpa using h2 [], h3⟩

/-- The writer refuses (raises) instead of truncating: a field longer than its width or with a
non-ASCII byte makes `pad_string` fail. -/
theorem C20_cmdseq_rejects (n : Nat) (s : Bytes) (h : n < s.length ∨ ∃ b ∈ s, ¬ b < 128) :
    pad s n = none := by
  unfold pad
  rcases h with h | ⟨b, hb, hnb⟩
  · simp [h]
  · split
    · rfl
    · have : s.all isAscii = false := by
        apply Bool.eq_false_iff.mpr
        intro hall
        simp only [List.all_eq_true, isAscii, decide_eq_true_eq] at hall
        exact hnb (hall b hb)
      simp [this]

/-! ## scenes.image container -/

/-- **Sorted.** The entry table is written from `sortEntries`, which is sorted by CRC… -/
theorem C20_sorted (es : List Entry) : crcSorted (sortEntries es) :=
  foldl_insert_sorted es [] List.Pairwise.nil

/-- …because inserting one more entry keeps a sorted table sorted… -/
theorem C20_insert_sorted (e : Entry) (l : List Entry) (h : crcSorted l) :
    crcSorted (insertByCrc e l) := insertByCrc_sorted e l h

/-- …and sorting loses or invents no entry. -/
theorem C20_sort_perm (es : List Entry) : (sortEntries es).Perm es := by
  have := foldl_insert_perm es []
  simpa [sortEntries] using this

/-- **Lookup.** Binary search on a sorted table is total and finds a CRC exactly when it is
present: a present CRC gives an index holding it, and any index returned holds the CRC. -/
theorem C20_lookup (keys : List Nat) (k : Nat) (hs : keys.Pairwise (· ≤ ·)) :
    (k ∈ keys → ∃ j, bsearch keys k = some j ∧ keys[j]? = some k) ∧
    (∀ j, bsearch keys k = some j → keys[j]? = some k) ∧
    (bsearch keys k = none → k ∉ keys) := by
  have sound : ∀ j, bsearch keys k = some j → keys[j]? = some k := by
    intro j hj
    obtain ⟨h1, h2⟩ := bsearchAux_sound keys k _ _ _ j (Nat.le_refl _) hj
    rw [List.getElem?_eq_getElem h2]
    have : keys.getD j 0 = keys[j] := by simp [List.getD_eq_getElem?_getD, h2]
    rw [← this, h1]
  have complete : k ∈ keys → ∃ j, bsearch keys k = some j ∧ keys[j]? = some k := by
    intro hk
    obtain ⟨i, hi, hik⟩ := List.getElem_of_mem hk
    have hget : keys.getD i 0 = k := by simp [List.getD_eq_getElem?_getD, hi, hik]
    obtain ⟨j, hj, _, _⟩ := bsearchAux_complete keys k (natSorted_of_pairwise hs)
      (keys.length + 1) 0 keys.length i (Nat.le_refl _) (by omega) (Nat.zero_le _) hi hget
    exact ⟨j, hj, sound j hj⟩
  refine ⟨complete, sound, ?_⟩
  intro hnone hk
  obtain ⟨j, hj, _⟩ := complete hk
  rw [hnone] at hj
  cases hj

/-- Every entry handed to the writer is found by the game's lookup in the table written. -/
theorem C20_lookup_image (es : List Entry) (e : Entry) (he : e ∈ es) :
    ∃ j, bsearch ((sortEntries es).map (·.crc)) e.crc = some j ∧
      ((sortEntries es).map (·.crc))[j]? = some e.crc := by
  have hs : ((sortEntries es).map (·.crc)).Pairwise (· ≤ ·) := by
    have := C20_sorted es
    unfold crcSorted at this
    exact List.pairwise_map.mpr this
  have hm : e.crc ∈ (sortEntries es).map (·.crc) :=
    List.mem_map_of_mem ((C20_sort_perm es).mem_iff.mpr he)
  exact (C20_lookup _ _ hs).1 hm

/-- **Container round trip.** For version 2 or 3, entries with 32-bit summary fields and NUL-free
pool strings, and a file below 4 GiB: `parse_scenes_image` reads from the bytes written by
`save_scenes_image_sync` exactly the entries, in CRC order, each with its duration, (version 3)
last-speak time, sound list and stored data — every offset, pool index and count is resolved
correctly. (Version 2 has no last-speak field: the reader substitutes the duration.) -/
theorem C20_image (v : Nat) (hv : v = 2 ∨ v = 3) (es : List Entry) (hok : imgOK es)
    (hF : (buildImage v es).length < 4294967296) :
    parseImage (buildImage v es) = some (v, (sortEntries es).map (toParsed v)) :=
  parse_build v hv es hok hF

/-- The table read back is sorted by CRC and every entry written is found in it by the game's
binary search, with its own CRC, duration and sound list at the index found when CRCs are distinct. -/
theorem C20_image_table (v : Nat) (hv : v = 2 ∨ v = 3) (es : List Entry) (hok : imgOK es)
    (hF : (buildImage v es).length < 4294967296) :
    ∃ rows, parseImage (buildImage v es) = some (v, rows) ∧
      (rows.map (·.crc)).Pairwise (· ≤ ·) ∧
      ∀ e ∈ es, ∃ j r, bsearch (rows.map (·.crc)) e.crc = some j ∧ rows[j]? = some r ∧ r.crc = e.crc := by
  refine ⟨_, C20_image v hv es hok hF, ?_, ?_⟩
  · have := C20_sorted es
    unfold crcSorted at this
    simp only [List.map_map]
    exact List.pairwise_map.mpr this
  · intro e he
    have hcrc : (List.map (fun x => x.crc) (List.map (toParsed v) (sortEntries es)))
        = (sortEntries es).map (·.crc) := by
      simp [List.map_map, Function.comp_def, toParsed]
    obtain ⟨j, hj, hg⟩ := C20_lookup_image es e he
    rw [hcrc]
    refine ⟨j, ?_⟩
    simp only [List.getElem?_map] at hg ⊢
    cases hr : (sortEntries es)[j]? with
    | none => simp [hr] at hg
    | some x =>
      simp [hr] at hg
      exact ⟨toParsed v x, hj, rfl, by simpa [toParsed] using hg⟩

/-! ## BVCD: the binary scene codec -/

namespace Bvcd

/-- OBLIGATION on the current source: enum values / constants the codec model hard-codes, and the
struct formats, literal byte writes and literal read sizes of every binary writer and reader. -/
theorem C20_gen_bvcd :
    Gen.C20.bvcdEnums = [("EventType.Gesture", tGesture), ("EventType.Loop", tLoop), ("EventType.Speak", tSpeak),
      ("EventType.max", tMax), ("EventType.count", tMax + 1), ("CaptionType.Disabled", ccDisabled),
      ("CaptionType.max", ccDisabled), ("EventFlags.end", flagsEnd), ("Interpolation.max", interpMax),
      ("BINARY_VERSION", binVersion)] ∧
    Gen.C20.bvcdCurveFmt = "<fB" ∧
    Gen.C20.bvcdFmts = [("Tag.export_binary", ["B", "@add_to_pool(tag.name)"]), ("Tag.parse_binary", ["read:1", "@cls._FMT"]),
      ("Curve.export_binary", ["B", "@sample.time"]), ("Curve.parse_binary", ["read:1", "@cls.BIN_FMT"]),
      ("FlexAnimTrack.export_binary", ["<hBffh", "<fBh", "<H", "<fBh"]),
      ("FlexAnimTrack.parse_binary", ["<hBffh", "<fBH", "<H", "<fBH"]),
      ("Event.export_binary", ["<bhffhhh", "<Bf", "f", "bytes:01", "<hh", "bytes:00", "<B", "<b", "<bhb"]),
      ("Event.parse_binary", ["<bhffhhh", "<Bf", "<f", "read:1", "<hh", "read:1", "b", "<Bhb"]),
      ("Channel.export_binary", ["<hB"]), ("Channel.parse_binary", ["<hB", "read:1"]),
      ("Actor.export_binary", ["<hB"]), ("Actor.parse_binary", ["<hB", "read:1"]),
      ("Scene.export_binary", ["<4sbIB", "B"]), ("Scene.parse_binary", ["read:4", "read:1", "<IB", "read:1", "read:1"])] := by
  decide

/-- **Tags** (record-type theorem): a `Tag`/`TimingTag` list is read back with its names (through
the pool) and every value quantised to k/255; an `AbsoluteTag` list with values quantised to
k/4096 — whatever follows in the file. -/
theorem C20_bvcd_tags_partial (ix : Bytes → Nat) (pool : List Bytes) (ts : List Tag)
    (h : tagsOK ix pool ts) (rest : Bytes) :
    rdTags pool (encTags ix ts ++ rest) = some (ts.map qTag, rest) ∧
    rdAbsTags pool (encAbsTags ix ts ++ rest) = some (ts.map qAbsTag, rest) :=
  ⟨reads_tags ts h rest, reads_absTags ts h rest⟩

/-- **Ramp** (`Curve`): samples come back with float32 times unchanged and values quantised. -/
theorem C20_bvcd_ramp_partial (r : List RampSample) (h : rampOK r) (rest : Bytes) :
    rdRamp (encRamp r ++ rest) = some (r.map qRampSample, rest) := reads_ramp r h rest

/-- **Flex sample / flex track**: time, quantised value and both interpolation codes; the track
with its name, flags, range, magnitude samples and optional direction samples. -/
theorem C20_bvcd_flex_partial (ix : Bytes → Nat) (pool : List Bytes) (f : Flex) (h : flexOK ix pool f)
    (s : FlexSample) (hs : fsOK s) (rest : Bytes) :
    rdFlexSample (encFlexSample s ++ rest) = some (qFlexSample s, rest) ∧
    rdFlex pool (encFlex ix f ++ rest) = some (qFlex f, rest) :=
  ⟨reads_flexSample s hs rest, reads_flex f h rest⟩

/-- **Event** (header, ramp, flags, four tag lists, gesture duration, relative tag, flex tracks,
loop count / caption block — all four event classes). -/
theorem C20_bvcd_event_partial (ix : Bytes → Nat) (pool : List Bytes) (e : Event) (h : eventOK ix pool e)
    (rest : Bytes) : rdEvent pool (encEvent ix e ++ rest) = some (qEvent e, rest) := reads_event e h rest

/-- **Scene codec round trip**, generic in the pool: for every index function `ix` and pool that
agree on the scene's strings (`sceneOK`: indices below 32768 resolved by the pool, counts within
their fields, enum codes valid), `parse_binary (export_binary s) = quantScene s` — the scene with
every 1/255 and 1/4096 field quantised, a relative tag completed with `''`, and the combined-file
flag dropped for disabled captions — also when other data follows. -/
theorem C20_bvcd (ix : Bytes → Nat) (pool : List Bytes) (s : Scene) (h : sceneOK ix pool s)
    (trailing : Bytes) : decodeScene pool (encScene ix s ++ trailing) = some (quantScene s) := by
  unfold decodeScene
  rw [reads_scene s h trailing]
  rfl

/-- **Idempotence.** The projection is idempotent and the writer cannot tell a scene from its
projection: the second generation of a file is byte-identical and decodes to the same scene. -/
theorem C20_bvcd_idem (ix : Bytes → Nat) (pool : List Bytes) (s : Scene) (h : sceneOK ix pool s) :
    quantScene (quantScene s) = quantScene s ∧
    encScene ix (quantScene s) = encScene ix s ∧
    decodeScene pool (encScene ix (quantScene s)) = some (quantScene s) := by
  refine ⟨quantScene_idem s, encScene_q ix s, ?_⟩
  rw [encScene_q]
  simpa using C20_bvcd ix pool s h []

/-- **Pool.** The indices `add_to_pool` hands out while the pool grows are the indices of those
strings in the final pool, the final pool is `addAll`, and every string in a pool of at most
32768 entries satisfies the codec's hypothesis with `ix = poolIndex pool`. -/
theorem C20_bvcd_pool (p ss : List Bytes) :
    (threadIdx p ss).2 = addAll p ss ∧ (threadIdx p ss).1 = ss.map (poolIndex (addAll p ss)) ∧
    ((addAll p ss).length ≤ 32768 → ∀ s ∈ ss, strOK (poolIndex (addAll p ss)) (addAll p ss) s) := by
  refine ⟨(threadIdx_spec p ss).1, (threadIdx_spec p ss).2, ?_⟩
  intro hl s hs
  exact strOK_of_mem _ hl s ((mem_addAll p ss s).mpr (Or.inr hs))

/-- **Merged images.** `save_scenes_image_sync` on a mix of parsed and lazy entries (raw bytes +
the pool object of the image they were read from): when no single pool can be reused — lazy
entries of two different images, or none — the bytes written are `buildImage` of one entry per
input entry with the same CRC, summary and sound list, its scene decoded through its OWN pool and
re-encoded against the fresh pool; so `C20_image` / `C20_image_table` apply to a merged file. -/
theorem C20_image_merge (version : Nat) (es : List MEntry) (b : Bytes)
    (hm : (poolMode es none).1 = none) (h : saveImage version es = some b) :
    ∃ entries : List Entry, b = buildImage version entries ∧
      entries.map (fun e => (e.crc, e.durMs, e.lastMs, e.sounds)) =
        es.map (fun e => (e.crc, e.durMs, e.lastMs, e.sounds)) :=
  saveImage_fresh version es b hm h

/-- two lazy entries with different pool objects force a fresh pool; one shared pool is reused. -/
example :
    poolMode [{ crc := 1, durMs := 0, lastMs := 0, sounds := [], src := .lazy 0 [[0x61]] [], comp := [] },
              { crc := 2, durMs := 0, lastMs := 0, sounds := [], src := .lazy 1 [[0x62]] [], comp := [] }] none
      = (none, true) ∧
    poolMode [{ crc := 1, durMs := 0, lastMs := 0, sounds := [], src := .lazy 0 [[0x61]] [], comp := [] },
              { crc := 2, durMs := 0, lastMs := 0, sounds := [], src := .scene { crc := 0, events := [], actors := [], ramp := [], ignorePhonemes := false }, comp := [] },
              { crc := 3, durMs := 0, lastMs := 0, sounds := [], src := .lazy 0 [[0x61]] [], comp := [] }] none
      = (some (0, [[0x61]]), false) := by decide

/-! non-vacuity: a scene with every event class, tags, ramp, flex tracks with and without
direction, relative tag, inactive channel; its own pool. -/
def sampleScene : Scene :=
  let t : Tag := { name := [0x74], value := B64.decode 0x3FD0000000000000 }
  let fs : FlexSample := { time := 0x3F000000, value := B64.decode 0x3FE0000000000000, c1 := 6, c2 := 15 }
  let ev (x : Extra) (n : Bytes) : Event :=
    { extra := x, name := n, start := 0x3F800000, stop := 0xBF800000, p1 := [0x70], p2 := [], p3 := n,
      ramp := [{ time := 0, value := B64.decode 0x3FB999999999999A }], flags := 9, dist := 0, rel := [t], timing := [], absP := [t],
      absS := [], tagName := some [0x61], tagWav := none,
      flex := [{ name := [0x66], active := true, min := 0, max := 0x3F800000, mag := [fs], dir := some [fs, fs] },
               { name := [0x46], active := false, min := 0, max := 0, mag := [], dir := none }] }
  { crc := 0xDEADBEEF, events := [ev (.plain 9) [0x41], ev (.gesture 0x40000000) [0x61]],
    actors := [{ name := [0x41], active := false,
                 channels := [{ name := [0x63], active := true,
                                events := [ev (.loop (-1)) [], ev (.speak 2 [0x54] true false true) [0x73]] }] }],
    ramp := [{ time := 1, value := B64.decode 0xBFF0000000000000 }, { time := 2, value := B64.decode 0x4024000000000000 }], ignorePhonemes := true }

def samplePool : List Bytes := addAll [] (sceneStrs sampleScene)

example : decodeScene samplePool (encScene (poolIndex samplePool) sampleScene)
    = some (quantScene sampleScene) ∧ quantScene sampleScene ≠ sampleScene := by decide +kernel

/-- the hypotheses of `C20_bvcd` are met by the sample scene with its own pool. -/
theorem C20_bvcd_sample_ok : sceneOK (poolIndex samplePool) samplePool sampleScene := by decide +kernel

example : decodeScene samplePool (encScene (poolIndex samplePool) sampleScene ++ [1, 2, 3])
    = some (quantScene sampleScene) := C20_bvcd _ _ _ C20_bvcd_sample_ok _

end Bvcd

/-! ## soundscripts: `Sound.export` ↔ `Sound.parse_one` -/

namespace Snd
open C20.Snd C01

/-- OBLIGATION on the current source: the literal text of every write of `Sound.export` and its
conditions (the layout `exportSnd` models), the keys `Sound.parse_one` looks up, the serialiser
configuration, and the tokenizer facts the text theorem needs (blank / line feed end a bare
string, every keyword is a bare word). -/
theorem C20_gen_snd :
    Gen.C20.sndPieces = ["\"$\"\n\t{\n", "\tchannel $\n", "\tsoundlevel \"$\"\n", "\tvolume \"$\"\n", "\tpitch \"$\"\n",
      "\trndwave\n\t\t{\n", "\t\twave \"$\"\n", "\t\t}\n", "\twave \"$\"\n",
      "\tsoundentry_version 2\n\toperator_stacks\n\t\t{\n", "\t\tstart_stack\n\t\t\t{\n", "\t\t\t}\n",
      "\t\tupdate_stack\n\t\t\t{\n", "\t\t\t}\n", "\t\tstop_stack\n\t\t\t{\n", "\t\t\t}\n", "\t\t}\n", "\t}\n"] ∧
    Gen.C20.sndConds = ["self.volume!=(1,1)", "self.pitch!=(100,100)", "len(self.sounds)!=1",
      "self.force_v2orself.stack_startorself.stack_stoporself.stack_update", "self.stack_start",
      "self.stack_update", "self.stack_stop"] ∧
    Gen.C20.sndParseKeys = ["attenuation", "channel", "operator_stacks", "pitch", "rndwave", "soundentry_version",
      "soundlevel", "start_stack", "stop_stack", "update_stack", "volume", "wave"] ∧
    Gen.Kvser.cfg = fullCfg ∧
    sndTablesOK Gen.Tok.tables = true ∧ sndKwOK Gen.Tok.tables = true := by decide

/-- **Soundscript, tree level.** For every sound whose six range ends and channel the reader's
single-value functions read back (`SndOK`, decided per sound from the enum tables and CPython's
number texts), `Sound.parse_one` on the Keyvalues tree that `Sound.export` writes returns
`normSnd s`: a range with equal ends is one value, default volume / pitch become 1.0 / 100.0,
operator stacks exist exactly for version-2 sounds; name, waves (`wave` or `rndwave` block),
channel, level and the stack sub-trees unchanged. -/
theorem C20_sndscript (E : Env) (s : SoundIn) (h : SndOK E s) :
    parseSnd E (exportSndKV s) = Except.ok (normSnd s) := parseSnd_export E s h

/-- **Soundscript, text level** (composition with the KeyValues parser of C01): the characters
`Sound.export` writes are tokenized and parsed by `Keyvalues.parse` into a root with exactly the
tree `exportSndKV s` — bare keywords and channel, plainly quoted ranges, escaped name and waves,
operator stacks through `Keyvalues.serialise` — hence reading the file gives `normSnd s`. -/
theorem C20_sndscript_text (T : Tok.Tables) (hE : Tok.escOK T = true) (hK : kvOK T = true)
    (hT : sndTablesOK T = true) (hk : sndKwOK T = true) (po : ParseOpts) (hesc : po.allowEscapes = true)
    (hsb : po.singleBlock = false) (fold : Char → List Char) (E : Env) (s : SoundIn)
    (hs : SndOK E s) (ht : SndTextOK T s) (hkv : okKV po (exportSndKV s) = true) :
    C01.parse T po fold (exportSndText T fullCfg s) = .root [exportSndKV s] ∧
    parseSnd E (exportSndKV s) = Except.ok (normSnd s) :=
  ⟨parse_exportSndText hE hK hT hk po hesc hsb fold s ht hkv, parseSnd_export E s hs⟩

/-! non-vacuity -/
def sampleEnv : Env :=
  { fold := fun c => [c],
    volumes := [("VOL_NORM".toList, "VOL_NORM".toList)],
    pitches := [("PITCH_NORM".toList, "PITCH_NORM".toList), ("PITCH_LOW".toList, "PITCH_LOW".toList)],
    levels := [("SNDLVL_NORM".toList, "SNDLVL_NORM".toList), ("SNDLVL_20DB".toList, "SNDLVL_20dB".toList)],
    channels := ["CHAN_AUTO".toList, "CHAN_VOICE".toList],
    canon := [("0.5".toList, "0.5".toList), (" 0.5".toList, "0.5".toList), ("95.0".toList, "95.0".toList),
              (" 95.0".toList, "95.0".toList)] }

def sampleSnd : SoundIn :=
  { name := "Vo.\"Greeting\"".toList, waves := ["a b.wav".toList, "c\\d.wav".toList],
    volume := { lo := .num "0.5".toList, hi := .enum "VOL_NORM".toList, same := false }, volDefault := false,
    pitch := { lo := .num "95.0".toList, hi := .enum "PITCH_LOW".toList, same := true }, pitchDefault := false,
    level := { lo := .enum "SNDLVL_20dB".toList, hi := .enum "SNDLVL_NORM".toList, same := false },
    channel := .enum "CHAN_VOICE".toList, forceV2 := false,
    start := [KV.block "op".toList [KV.leaf "k".toList "v\"q".toList]], update := [], stop := [KV.leaf "x".toList "y".toList] }

theorem C20_sndscript_sample_ok : SndOK sampleEnv sampleSnd := by
  refine ⟨by unfold envOK; decide +kernel, ?_, ?_, ?_, ?_, ?_, ?_, by rfl⟩ <;>
    (unfold valOK; decide +kernel)

example : parseSnd sampleEnv (exportSndKV sampleSnd) = Except.ok (normSnd sampleSnd) :=
  C20_sndscript _ _ C20_sndscript_sample_ok

example : SndTextOK Gen.Tok.tables sampleSnd ∧ okKV {} (exportSndKV sampleSnd) = true := by
  refine ⟨⟨by decide +kernel, by decide +kernel, by decide +kernel, by decide +kernel⟩, by decide +kernel⟩

end Snd

/-! ## VMT: `Material.export` ↔ `Material.parse` -/

namespace Vmt
open C20.Vmt C01

/-- OBLIGATION on the current source: the literal text of every write of `Material.export` and
`_export_block`, the tokenizer options and words of `Material.parse`, and that `Proxies` is written
bare by the quoting rule on the current tables. -/
theorem C20_gen_vmt :
    Gen.C20.vmtPieces = ["@_quote_if_required(self.shader)+'\\n\\t{\\n'", "\t$ $\n", "\n\tProxies\n\t\t{\n", "\t\t}\n", "\t}\n"] ∧
    Gen.C20.vmtBlockPieces = ["$\"$\"\n$\t{\n", "$\t}\n", "$\"$\" \"$\"\n"] ∧
    Gen.C20.vmtTokOpts = ["allow_escapes=False", "allow_star_comments=True", "string_bracket=True"] ∧
    Gen.C20.vmtParseWords = ["Material", "Proxy", "proxies"] ∧
    vmtQuote Gen.Tok.tables Gen.C20.vmtLead kProxies = kProxies := by decide

/-- **Parser.** `Material.parse` on the token stream `toksVmt m` returns `m`: shader, every
parameter in order (names distinct after case folding), the sub-blocks with their nesting, the
proxies (children of the `Proxies` block) — for every representable material. -/
theorem C20_vmt_tokens (fold : Char → List Char) (m : Vmt) (h : VmtOK fold m) :
    parseVmt fold (toksVmt m) true = some m := parseVmt_toks fold m h

/-- **Lexer.** The tokenizer with the options of `Material.parse` finds in the text written by
`Material.export` exactly the tokens `toksVmt m` (shader / names / values bare or quoted by
`_quote_if_required`, block names and values in plain quotes, braces, line structure), without
error — for strings without `"`, CR, LF and leading BOM. -/
theorem C20_vmt_lex (T : Tok.Tables) (hK : kvOK T = true) (lead : List Char)
    (hT : vmtTablesOK T lead = true) (fold : Char → List Char) (m : Vmt) (h : VmtTextOK T lead m) :
    (Tok.run T vmtOpts fold (exportVmt T lead m)).err = none ∧
    (Tok.run T vmtOpts fold (exportVmt T lead m)).toks.map (fun o => (o.kind, o.value)) = toksVmt m := by
  rw [run_exportVmt hK lead hT fold m h]
  exact ⟨rfl, obsOf_proj 1 _⟩

/-- **VMT round trip, text level**: `Material.parse(text written by Material.export) = m`. -/
theorem C20_vmt (T : Tok.Tables) (hK : kvOK T = true) (lead : List Char) (hT : vmtTablesOK T lead = true)
    (fold : Char → List Char) (m : Vmt) (ht : VmtTextOK T lead m) (hm : VmtOK fold m) :
    parseVmtText T fold (exportVmt T lead m) = some m := by
  unfold parseVmtText parseVmtRun
  rw [run_exportVmt hK lead hT fold m ht]
  have : (obsOf 1 (toksVmt m)).map ((fun o : Tok.Obs => (o.kind, o.value))) = toksVmt m := obsOf_proj 1 _
  simp only [this]
  exact parseVmt_toks fold m hm

/-! non-vacuity -/
def sampleVmt : Vmt :=
  { shader := "Vertex Lit".toList,
    params := [("$basetexture".toList, "/models/x".toList), ("%keywords".toList, [] ), ("$Color".toList, "[1 .5 0]".toList)],
    blocks := [KV.block "insert".toList [KV.leaf "$a".toList "b\\c".toList, KV.block "sub".toList []]],
    proxies := [KV.block "Sine".toList [KV.leaf "resultVar".toList "$alpha".toList]] }

theorem C20_vmt_sample_ok : VmtOK (fun c => if c = 'P' then ['p'] else if c = 'C' then ['c'] else [c]) sampleVmt ∧
    VmtTextOK Gen.Tok.tables Gen.C20.vmtLead sampleVmt := by
  refine ⟨⟨by decide, ?_, ?_, by decide +kernel⟩, ⟨?_, ?_, ?_, ?_, by decide +kernel⟩⟩
  · unfold distinctFold; decide +kernel
  · decide +kernel
  · decide +kernel
  · decide +kernel
  · unfold sampleVmt okKVsv okKVv okKVsv okKVv okKVsv okKVv okKVsv strOKv; decide +kernel
  · unfold sampleVmt okKVsv okKVv okKVsv okKVv okKVsv strOKv; decide +kernel

example : parseVmtText Gen.Tok.tables (fun c => if c = 'P' then ['p'] else if c = 'C' then ['c'] else [c])
    (exportVmt Gen.Tok.tables Gen.C20.vmtLead sampleVmt) = some sampleVmt :=
  C20_vmt _ C01.C01_gen_tables _ C20_gen_quote.1 _ _ C20_vmt_sample_ok.2 C20_vmt_sample_ok.1

end Vmt

/-! ## SMD: bone numbering and vertex lines -/

namespace Smd
open C20.Smd

/-- OBLIGATION on the current source: the format strings of `Mesh.export` (vertex line with its
tab / blank separators, the separate ` %i` link count and ` %i %.6f` links), the ordered work list
of the bone numbering, and the conditions of writer and triangle reader. -/
theorem C20_gen_smd :
    Gen.C20.smdExportFmts = ["version 1\nnodes\n", "%i \"%s\" %i\n", "end\nskeleton\n", "time %i\n",
      "%i %.6f %.6f %.6f  %.6f %.6f %.6f\n", "end\n", "triangles\n", "\n",
      "%i\t%.6f %.6f %.6f\t%.6f %.6f %.6f\t%.6f %.6f", " %i", " %i %.6f", "\n", "end\n"] ∧
    Gen.C20.smdTodo = ["dict.fromkeys(self.bones.values())"] ∧
    Gen.C20.smdExportConds = ["self.triangles", "notchanged", "notbone.parentorbone.parentinbone_indexes",
      "bone.parentisNone", "len(vert.links)>1"] ∧
    Gen.C20.smdTriConds = ["line==b'end'", "links_raw", "link_count*2+1!=len(links_raw)", "notlinks"] := by decide

/-- **One vertex line** (record-type theorem): the line `Mesh.export` writes for a vertex — bone
index, position, normal, UV, and for two or more bone links their count and (index, weight)
pairs — is split by `bytes.split()` into exactly its fields and read back by `_parse_smd_tri` as
`normVertex`: unchanged, except that a single link comes back with weight 1.0. Numbers are the
`%.6f` / `%i` texts (non-empty, blank-free); fewer than ten links. -/
theorem C20_smd_partial (known : Str → Bool) (vx : Vertex) (h : VxOK known vx) :
    B64.splitWs (vertexLine vx) = vertexFields vx ∧
    parseVertexLine known (vertexLine vx) = some (normVertex vx) :=
  ⟨split_vertexLine vx h, parse_vertexLine known vx h⟩

/-- **Bone numbering is reproducible**: for a skeleton with distinct names listed parents-first
(what `parse_smd` returns: bones in index order), `Mesh.export` gives bone *i* the index *i* — the
second generation renumbers nothing. (The writer iterates an insertion-ordered dict; with the
former `set` the order depended on hashing.) -/
theorem C20_smd_bones (bs : List Bone) (hn : (bs.map (·.name)).Nodup) (ht : topoFrom [] bs) :
    numberBones bs = some (bs.map (·.name)) := numberBones_ordered bs hn ht

/-! non-vacuity; children listed first need several passes; a parent loop is an error -/
def sampleVertex : Vertex :=
  { pos := ("1.000000".toList, "-0.500000".toList, "0.000000".toList),
    norm := ("0.000000".toList, "0.000000".toList, "1.000000".toList), u := "0.250000".toList, v := "0.750000".toList,
    links := [("0".toList, "0.500000".toList), ("2".toList, "0.250000".toList), ("1".toList, "0.250000".toList)] }

theorem C20_smd_sample_ok : VxOK (fun b => ["0".toList, "1".toList, "2".toList].contains b) sampleVertex := by
  refine ⟨by decide +kernel, by decide +kernel, by decide +kernel, by decide +kernel, by decide +kernel⟩

example : numberBones [⟨"hand".toList, some "arm".toList⟩, ⟨"arm".toList, some "root".toList⟩, ⟨"root".toList, none⟩]
      = some ["root".toList, "arm".toList, "hand".toList] ∧
    numberBones [⟨"a".toList, some "b".toList⟩, ⟨"b".toList, some "a".toList⟩] = none ∧
    topoFrom [] [⟨"root".toList, none⟩, ⟨"arm".toList, some "root".toList⟩] := by decide +kernel

end Smd

/-! ## quantised fields -/

/-- Writing the value a code stands for gives that code back: `round((b/K)·K)` clamped to
`[0, hi]` is `b`, for every factor `K > 0` and code `b ≤ hi` (K = 255, 4096, 1000). -/
theorem C20_quant_code (K hi b : Nat) (hK : 0 < K) (hb : b ≤ hi) :
    encQ hi ((b : Int) * K) K = b := encQ_exact hi b K hK hb

/-- **Idempotence.** Reader∘writer of a quantised field is a projection:
`quant (quant v) = quant v` for every value `v` (a fraction) — so the second generation of a
file carries the same codes as the first. -/
theorem C20_quant_idem (K hi : Nat) (hK : 0 < K) (v : Int × Nat) :
    quantQ K hi (quantQ K hi v) = quantQ K hi v := by
  unfold quantQ
  simp only
  rw [encQ_exact hi _ K hK (encQ_le hi _ _)]

/-! ## quoting layers -/

/-- **Soundscript.** A sound name, wave name (any string) written as `"` + `escape_text` + `"`
is read back by the KeyValues tokenizer as exactly one STRING token with that value, on the same
line, whatever follows. -/
theorem C20_snd_quote (T : Tok.Tables) (h : Tok.escOK T = true) (o : Tok.Opts)
    (ho : o.allowEscapes = true) (fold : Char → List Char) (s rest : List Char) (st : Tok.St)
    (fuel : Nat) :
    Tok.nextToken T o fold (fuel + 1) st (sndQuote T s ++ rest)
      = .tok .string s { line := st.line, lastCr := false } rest := by
  have := Tok.C02_inverse T h o ho fold false s rest st fuel
  unfold sndQuote
  simp only [List.cons_append, List.append_assoc, List.nil_append]
  rw [this, Tok.C02_single_line_count T h s]
  rfl

/-- A quoted `low, high` range (comma and space inside) is one token too: the instance of
`C20_snd_quote` the range defect was about. -/
theorem C20_snd_range (T : Tok.Tables) (h : Tok.escOK T = true) (o : Tok.Opts)
    (ho : o.allowEscapes = true) (fold : Char → List Char) (lo hi rest : List Char) (st : Tok.St)
    (fuel : Nat) :
    Tok.nextToken T o fold (fuel + 1) st (sndQuote T (lo ++ [',', ' '] ++ hi) ++ rest)
      = .tok .string (lo ++ [',', ' '] ++ hi) { line := st.line, lastCr := false } rest :=
  C20_snd_quote T h o ho fold _ rest st fuel

/-- **VMT.** A shader name, parameter name or value without `"` and CR (the reader decodes no
escapes, so these two cannot be represented) written by `_quote_if_required` — bare when
possible, otherwise in plain quotes — followed by any delimiter the writer uses (space, newline)
is read back by `Material.parse`'s tokenizer as one STRING token with exactly that value. -/
theorem C20_vmt_quote (T : Tok.Tables) (lead : List Char) (hT : vmtTablesOK T lead = true)
    (fold : Char → List Char) (s : List Char) (d : Char) (rest : List Char) (st : Tok.St)
    (fuel : Nat) (hq : '"' ∉ s) (hr : '\r' ∉ s) (hd : T.bareDisallowed.contains d = true)
    (hbom : ¬ (s.head? = some (Char.ofNat 0xFEFF) ∧ st.line = 1)) :
    Tok.nextToken T vmtOpts fold (fuel + 1) st (vmtQuote T lead s ++ d :: rest)
      = .tok .string s { line := st.line + s.count '\n', lastCr := false } (d :: rest) :=
  vmtQuote_read T lead hT fold s d rest st fuel hq hr hd hbom

/-- Without the leading-character rule the law fails: a value starting with `/` written bare is
not read back (the defect that was fixed in `Material.export`). -/
theorem C20_vmt_lead_needed :
    Tok.nextToken Gen.Tok.tables vmtOpts (fun c => [c]) 10 {}
      (vmtQuote Gen.Tok.tables [] ['/', 'a'] ++ ['\n'])
      ≠ .tok .string ['/', 'a'] { line := 1, lastCr := false } ['\n'] := by decide +kernel

/-! ## non-vacuity -/

def C20_sample_file : CmdFile :=
  [([0x61, 0x62], [{ exe := .str [0x76, 0x62, 0x73, 0x70], args := [0x2d, 0x67], enabled := true,
                     ensure := some [0x78], useProcWin := false, noWait := true },
                   { exe := .special 257, args := [], enabled := false, ensure := none,
                     useProcWin := true, noWait := false }]),
   ([], [])]

theorem C20_sample_ok : fileOK Gen.C20.cmdTables C20_sample_file := by
  refine ⟨by decide, by decide, ?_⟩
  intro p hp
  simp only [C20_sample_file, List.mem_cons, List.not_mem_nil, or_false] at hp
  rcases hp with rfl | rfl
  · refine ⟨⟨by decide, by decide⟩, by decide, ?_⟩
    intro c hc
    simp only [List.mem_cons, List.not_mem_nil, or_false] at hc
    rcases hc with rfl | rfl
    · exact ⟨⟨by decide, by decide⟩, ⟨by decide, by decide⟩, ⟨by decide, by decide⟩⟩
    · exact ⟨by decide, ⟨by decide, by decide⟩, trivial⟩
  · exact ⟨⟨by decide, by decide⟩, by decide, by simp⟩

example : ∃ b, write Gen.C20.cmdTables C20_sample_file = some b ∧
    parse Gen.C20.cmdTables b = some C20_sample_file := by
  obtain ⟨b, h1, h2, _⟩ := C20_cmdseq_current _ C20_sample_ok
  exact ⟨b, h1, h2⟩

example : (write Gen.C20.cmdTables C20_sample_file).bind (parse Gen.C20.cmdTables)
    = some C20_sample_file := by decide +kernel

example : ((write Gen.C20.cmdTables C20_sample_file).map List.length) = some (31 + 4 + 4 + (128 + 4 + 2 * 804) + (128 + 4)) := by
  decide +kernel

def C20_sample_entries : List Entry :=
  [{ crc := 900, durMs := 1500, lastMs := 1200, sounds := [[0x62], [0x61, 0x62]], strs := [[0x7a], [0x62]],
     raw := [1, 2, 3, 4, 5, 6], comp := [9, 9] },
   { crc := 17, durMs := 0, lastMs := 0, sounds := [], strs := [[0x61, 0x62]], raw := [7], comp := [8, 8, 8] }]

example : imgOK C20_sample_entries ∧ (buildImage 3 C20_sample_entries).length < 4294967296 := by
  refine ⟨?_, by decide +kernel⟩
  intro e he
  simp only [C20_sample_entries, List.mem_cons, List.not_mem_nil, or_false] at he
  rcases he with rfl | rfl <;> decide

example : parseImage (buildImage 2 C20_sample_entries) = some (2,
    [{ crc := 17, durMs := 0, lastMs := 0, sounds := [], data := [7] },
     { crc := 900, durMs := 1500, lastMs := 1500, sounds := [[0x62], [0x61, 0x62]], data := [9, 9] }]) := by
  decide +kernel

example : bsearch [3, 5, 5, 9, 12] 9 = some 3 ∧ bsearch [3, 5, 5, 9, 12] 4 = none := by decide

example : encQ 255 (1 * 255) 2 = 128 ∧ encQ 255 (3 * 255) 2 = 255 ∧ encQ 255 (-1) 2 = 0 ∧
    roundHE 5 2 = 2 ∧ roundHE 7 2 = 4 ∧ roundHE (-5) 2 = -2 := by decide

example : vmtQuote Gen.Tok.tables Gen.C20.vmtLead ['/', 'a'] = ['"', '/', 'a', '"'] ∧
    vmtQuote Gen.Tok.tables Gen.C20.vmtLead ['a', '/', 'b'] = ['a', '/', 'b'] ∧
    vmtQuote Gen.Tok.tables Gen.C20.vmtLead [] = ['"', '"'] := by decide

end C20
