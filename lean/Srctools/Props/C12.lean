import Srctools.Proofs.C12
import Srctools.Proofs.C12Hist
import Srctools.Gen.Save
/-!
# C12 — atomic file replacement: old or new contents, never a mixture

Property theorems only.  They are about the small-step model of `srctools.AtomicWriter`
(Model/C12.lean), for an arbitrary body script, initial directory, fault plan (which operations
raise), crash point (number of operations executed) and, for two writers, an arbitrary schedule.
The shape parameters of the model (`Impl`: exclusive create, guards around close/replace) are
hypotheses; `C12_gen_*` discharge them for the shape the translator reads off the source *now*
(Gen/Save.lean), and the `_current` corollaries instantiate the theorems there.
-/
namespace C12

/-! ## obligations on the current source (translator facts) -/

/-- The temp file is opened with an exclusive-create mode. -/
theorem C12_gen_exclusive : Gen.Save.impl.exclusive = true := by decide

/-- `__exit__` removes the temp file when `close()` or `replace()` raises (present after the fix). -/
theorem C12_gen_guards : Gen.Save.impl.closeGuard = true ∧ Gen.Save.impl.replaceGuard = true := by decide

/-- **C12_save.** In `bsp.py` nothing opens a file for writing, renames or removes anything, and
every write inside `BSP.save` goes to an in-memory `BytesIO` or, lexically inside the single
`with AtomicWriter(filename or self.filename, …) as file`, to `file` / `DeferredWrites(file)`. -/
theorem C12_save : saveOK Gen.Save.sites Gen.Save.targetIsFilename = true := by decide

/-! ## single writer -/

/-- **C12_crash.** For every script, initial directory, fault plan and crash point `k`: the
destination holds its old contents until the writer has returned normally and the complete new
contents afterwards — never anything else; no file other than the destination and `tmp_*` names
that did not exist before is ever different from its initial state. -/
theorem C12_crash (cfg : Cfg) (hx : cfg.impl.exclusive = true) (hd : cfg.dest.isTmp = false)
    (fs0 : FS) (plan : List Fault) (k : Nat) :
    (get (run cfg k plan (St.init fs0)).fs cfg.dest = get fs0 cfg.dest ∨
      get (run cfg k plan (St.init fs0)).fs cfg.dest = some (finalContent cfg.script)) ∧
    ((run cfg k plan (St.init fs0)).pc ≠ .done .ok →
      get (run cfg k plan (St.init fs0)).fs cfg.dest = get fs0 cfg.dest) ∧
    (∀ x : Name, x ≠ cfg.dest → (x.isTmp = false ∨ (get fs0 x).isSome = true) →
      get (run cfg k plan (St.init fs0)).fs x = get fs0 x) := by
  have h := invS_run cfg hx hd fs0 k plan _ (invS_init cfg fs0)
  have hne : ∀ n, Name.tmp n ≠ cfg.dest := tmp_ne_of_not_isTmp hd
  generalize run cfg k plan (St.init fs0) = s at h
  obtain ⟨fs, pc, tr⟩ := s
  -- the owned-temp states all give the same three facts
  have owned : ∀ n, get fs0 (.tmp n) = none → SameBut fs fs0 (.tmp n) →
      (get fs cfg.dest = get fs0 cfg.dest ∨ get fs cfg.dest = some (finalContent cfg.script)) ∧
      get fs cfg.dest = get fs0 cfg.dest ∧
      (∀ x : Name, x ≠ cfg.dest → (x.isTmp = false ∨ (get fs0 x).isSome = true) → get fs x = get fs0 x) := by
    intro n h0 hs
    have hdst := hs cfg.dest (Ne.symm (hne n))
    refine ⟨Or.inl hdst, hdst, fun x _ hx' => hs x ?_⟩
    intro e; subst e
    rcases hx' with h' | h'
    · simp [Name.isTmp] at h'
    · rw [h0] at h'; simp at h'
  have same : Same fs fs0 →
      (get fs cfg.dest = get fs0 cfg.dest ∨ get fs cfg.dest = some (finalContent cfg.script)) ∧
      get fs cfg.dest = get fs0 cfg.dest ∧
      (∀ x : Name, x ≠ cfg.dest → (x.isTmp = false ∨ (get fs0 x).isSome = true) → get fs x = get fs0 x) :=
    fun hs => ⟨Or.inl (hs _), hs _, fun x _ _ => hs x⟩
  cases pc with
  | mkdir => have := same h; exact ⟨this.1, fun _ => this.2.1, this.2.2⟩
  | create n => have := same h; exact ⟨this.1, fun _ => this.2.1, this.2.2⟩
  | body n k' pos => have := owned n h.1 h.2.1; exact ⟨this.1, fun _ => this.2.1, this.2.2⟩
  | close n e =>
    cases e with
    | none => have := owned n h.1 h.2.1; exact ⟨this.1, fun _ => this.2.1, this.2.2⟩
    | some o => have := owned n h.1 h.2.1; exact ⟨this.1, fun _ => this.2.1, this.2.2⟩
  | replace n => have := owned n h.1 h.2.1; exact ⟨this.1, fun _ => this.2.1, this.2.2⟩
  | unlink n o sw => have := owned n h.1 h.2.1; exact ⟨this.1, fun _ => this.2.1, this.2.2⟩
  | done o =>
    cases o with
    | ok => exact ⟨Or.inr h.1, fun hc => absurd rfl hc, fun x hxd _ => h.2 x hxd⟩
    | raisedBody =>
      rcases h with h | ⟨n, h0, hs, _, _⟩
      · have := same h; exact ⟨this.1, fun _ => this.2.1, this.2.2⟩
      · have := owned n h0 hs; exact ⟨this.1, fun _ => this.2.1, this.2.2⟩
    | raisedOS =>
      rcases h with h | ⟨n, h0, hs, _, _⟩
      · have := same h; exact ⟨this.1, fun _ => this.2.1, this.2.2⟩
      · have := owned n h0 hs; exact ⟨this.1, fun _ => this.2.1, this.2.2⟩

/-- **Only the rename touches the destination**: a step that changes what the destination holds is
an un-faulted `replace`. -/
theorem C12_only_rename (cfg : Cfg) (hd : cfg.dest.isTmp = false) (f : Fault) (fs : FS) (pc : PC)
    (h : get (step cfg f fs pc).1 cfg.dest ≠ get fs cfg.dest) : ∃ n, pc = .replace n ∧ f = .none :=
  step_dest cfg hd f fs pc h

/-- **C12_commit.** A normal return means: destination = complete new contents, every other name —
including every `tmp_*` — exactly as before (the temp file is gone). -/
theorem C12_commit (cfg : Cfg) (hx : cfg.impl.exclusive = true) (hd : cfg.dest.isTmp = false)
    (fs0 : FS) (plan : List Fault) (k : Nat) (hdone : (run cfg k plan (St.init fs0)).pc = .done .ok) :
    get (run cfg k plan (St.init fs0)).fs cfg.dest = some (finalContent cfg.script) ∧
    ∀ x : Name, x ≠ cfg.dest → get (run cfg k plan (St.init fs0)).fs x = get fs0 x := by
  have h := invS_run cfg hx hd fs0 k plan _ (invS_init cfg fs0)
  generalize run cfg k plan (St.init fs0) = s at h hdone
  obtain ⟨fs, pc, tr⟩ := s
  simp only at hdone; subst hdone
  exact h

/-- **C12_fail (strongest form that holds for every shape).** If the writer raised, the destination is
untouched and every name that differs from the initial directory is a temp file that did not exist
before and whose presence is explained: its `unlink` raised, or the code has no guard on the
`close`/`replace` that raised. -/
theorem C12_fail_partial (cfg : Cfg) (hx : cfg.impl.exclusive = true) (hd : cfg.dest.isTmp = false)
    (fs0 : FS) (plan : List Fault) (k : Nat) (o : Outcome)
    (hdone : (run cfg k plan (St.init fs0)).pc = .done o) (ho : o ≠ .ok) :
    get (run cfg k plan (St.init fs0)).fs cfg.dest = get fs0 cfg.dest ∧
    ∀ x : Name, get (run cfg k plan (St.init fs0)).fs x ≠ get fs0 x →
      ∃ n, x = .tmp n ∧ get fs0 x = none ∧ Leak cfg.impl (run cfg k plan (St.init fs0)).trace n := by
  have h := invS_run cfg hx hd fs0 k plan _ (invS_init cfg fs0)
  have hne : ∀ n, Name.tmp n ≠ cfg.dest := tmp_ne_of_not_isTmp hd
  generalize run cfg k plan (St.init fs0) = s at h hdone
  obtain ⟨fs, pc, tr⟩ := s
  simp only at hdone; subst hdone
  have key : Same fs fs0 ∨ ∃ n, get fs0 (.tmp n) = none ∧ SameBut fs fs0 (.tmp n) ∧
      (get fs (.tmp n)).isSome = true ∧ Leak cfg.impl tr n := by
    cases o with
    | ok => exact absurd rfl ho
    | raisedBody => exact h
    | raisedOS => exact h
  rcases key with hs | ⟨n, h0, hs, _, hl⟩
  · exact ⟨hs _, fun x hx => absurd (hs x) hx⟩
  · refine ⟨hs _ (Ne.symm (hne n)), fun x hx => ?_⟩
    by_cases hxn : x = .tmp n
    · exact ⟨n, hxn, hxn ▸ h0, hl⟩
    · exact absurd (hs x hxn) hx

/-- **C12_fail.** With the guards in place (the fixed code): whenever the writer raised — body
exception or any `OSError` at any operation — and the clean-up `unlink` itself did not raise, the
directory is byte-for-byte what it was: old destination, no temp file left behind. -/
theorem C12_fail (cfg : Cfg) (hx : cfg.impl.exclusive = true)
    (hg : cfg.impl.closeGuard = true ∧ cfg.impl.replaceGuard = true) (hd : cfg.dest.isTmp = false)
    (fs0 : FS) (plan : List Fault) (k : Nat) (o : Outcome)
    (hdone : (run cfg k plan (St.init fs0)).pc = .done o) (ho : o ≠ .ok)
    (hu : noFailedUnlink (run cfg k plan (St.init fs0)).trace = true) :
    ∀ x : Name, get (run cfg k plan (St.init fs0)).fs x = get fs0 x := by
  intro x
  have h := (C12_fail_partial cfg hx hd fs0 plan k o hdone ho).2 x
  apply Classical.byContradiction
  intro hx'
  obtain ⟨n, _, _, hl⟩ := h hx'
  rcases hl with hl | ⟨hc, _⟩ | ⟨hr, _⟩
  · exact not_failedAt_unlink hu n hl
  · rw [hg.1] at hc; cases hc
  · rw [hg.2] at hr; cases hr

/-- The defect of srctools 2.5.0, as a theorem about the un-fixed shape `implV0`: `close()` raising in
`__exit__` (here: ENOSPC while flushing two bytes) leaves `tmp_1` behind although no unlink failed.
So `C12_fail` is false without `closeGuard`. -/
theorem C12_fail_unfixed_close :
    (run ⟨implV0, .file 0, [.write [1, 2]], none⟩ 4 [.none, .none, .none, .eio] (St.init [(.file 0, [9])])).pc
        = .done .raisedOS ∧
    noFailedUnlink (run ⟨implV0, .file 0, [.write [1, 2]], none⟩ 4 [.none, .none, .none, .eio]
        (St.init [(.file 0, [9])])).trace = true ∧
    get (run ⟨implV0, .file 0, [.write [1, 2]], none⟩ 4 [.none, .none, .none, .eio]
        (St.init [(.file 0, [9])])).fs (.tmp 1) = some [1, 2] := by decide +kernel

/-- Same at `replace()`. -/
theorem C12_fail_unfixed_replace :
    (run ⟨implV0, .file 0, [.write [1, 2]], none⟩ 5 [.none, .none, .none, .none, .eio] (St.init [])).pc
        = .done .raisedOS ∧
    noFailedUnlink (run ⟨implV0, .file 0, [.write [1, 2]], none⟩ 5 [.none, .none, .none, .none, .eio]
        (St.init [])).trace = true ∧
    get (run ⟨implV0, .file 0, [.write [1, 2]], none⟩ 5 [.none, .none, .none, .none, .eio]
        (St.init [])).fs (.tmp 1) = some [1, 2] := by decide +kernel

/-! ## two writers in one directory -/

/-- **C12_two.** Two writers with distinct destinations (neither named like a temp file), any
scripts, any body exceptions, interleaved by an arbitrary schedule with arbitrary faults, observed
after any prefix of it:
* the temp files they hold are distinct;
* each destination holds its old or its complete new contents — new exactly when that writer has
  returned normally;
* every other non-temp file is untouched. -/
theorem C12_two (c1 c2 : Cfg) (ok : TwoOK c1 c2) (fs0 : FS) (sched : List (Bool × Fault)) :
    (∀ n1 n2, (run2 c1 c2 sched (Sys.init fs0)).pc1.owns = some n1 →
        (run2 c1 c2 sched (Sys.init fs0)).pc2.owns = some n2 → n1 ≠ n2) ∧
    ((run2 c1 c2 sched (Sys.init fs0)).pc1 = .done .ok →
        get (run2 c1 c2 sched (Sys.init fs0)).fs c1.dest = some (finalContent c1.script)) ∧
    ((run2 c1 c2 sched (Sys.init fs0)).pc1 ≠ .done .ok →
        get (run2 c1 c2 sched (Sys.init fs0)).fs c1.dest = get fs0 c1.dest) ∧
    ((run2 c1 c2 sched (Sys.init fs0)).pc2 = .done .ok →
        get (run2 c1 c2 sched (Sys.init fs0)).fs c2.dest = some (finalContent c2.script)) ∧
    ((run2 c1 c2 sched (Sys.init fs0)).pc2 ≠ .done .ok →
        get (run2 c1 c2 sched (Sys.init fs0)).fs c2.dest = get fs0 c2.dest) ∧
    (∀ x : Name, x.isTmp = false → x ≠ c1.dest → x ≠ c2.dest →
        get (run2 c1 c2 sched (Sys.init fs0)).fs x = get fs0 x) := by
  have h := inv2_run ok sched (inv2_init c1 c2 fs0)
  exact ⟨h.disj, (good_dest h.g1).1, (good_dest h.g1).2, (good_dest h.g2).1, (good_dest h.g2).2, h.frame⟩

/-- **Nobody touches the other's temp file.** In any reachable state, if the next operation of one
writer names the temp file the *other* writer currently holds, then it is an exclusive-create probe
and it fails (`FileExistsError`): no write, close, rename or unlink ever hits the other's temp. -/
theorem C12_two_no_touch (c1 c2 : Cfg) (ok : TwoOK c1 c2) (fs0 : FS) (sched : List (Bool × Fault))
    (who : Bool) (f : Fault) (e : Event)
    (he : (step2 c1 c2 who f (run2 c1 c2 sched (Sys.init fs0))).trace
            = (who, e) :: (run2 c1 c2 sched (Sys.init fs0)).trace)
    (n : Nat) (ht : e.op.target = some n)
    (hown : (if who then (run2 c1 c2 sched (Sys.init fs0)).pc1
             else (run2 c1 c2 sched (Sys.init fs0)).pc2).owns = some n) :
    e.op = .create n ∧ e.res ≠ .ok :=
  step2_event ok (inv2_run ok sched (inv2_init c1 c2 fs0)) who f e he n ht hown

/-! ## writer objects used several times (histories) -/

/-- Translator fact: every path through `AtomicWriter.__exit__` assigns `self.temp = None`, so the
object is back in its initial state after each use. -/
theorem C12_gen_reset : Gen.Save.impl.resetTemp = true := by decide

/-- **Each use of a re-used writer is a fresh writer.** For two writer objects with arbitrary lists
of uses (scripts, body exceptions), any schedule and faults, in every reachable state: an object that
is between uses holds no stale file object (`cur = none`, i.e. `self.temp is None`), and the next
operation of an object that still has something to do is exactly the step of the single-use machine
`step` for its current use — from `.mkdir` when it is between uses; the stale clean-up of
`make_tempfile` is never executed. -/
theorem C12_reuse_fresh (c1 c2 : OCfg) (ok : TwoOKO c1 c2) (fs0 : FS) (sched : List (Bool × Fault)) :
    ((runO2 c1 c2 sched (SysO.init fs0)).o1.opc = .idle → (runO2 c1 c2 sched (SysO.init fs0)).o1.cur = none) ∧
    ((runO2 c1 c2 sched (SysO.init fs0)).o2.opc = .idle → (runO2 c1 c2 sched (SysO.init fs0)).o2.cur = none) ∧
    (∀ f, ¬ (runO2 c1 c2 sched (SysO.init fs0)).o1.inert c1 →
      stepO c1 f (runO2 c1 c2 sched (SysO.init fs0)).fs (runO2 c1 c2 sched (SysO.init fs0)).o1 =
        afterStep c1 (runO2 c1 c2 sched (SysO.init fs0)).o1 (runO2 c1 c2 sched (SysO.init fs0)).o1.pcView
          (step (c1.cfgAt (runO2 c1 c2 sched (SysO.init fs0)).o1.use) f (runO2 c1 c2 sched (SysO.init fs0)).fs
            (runO2 c1 c2 sched (SysO.init fs0)).o1.pcView)) ∧
    (∀ f, ¬ (runO2 c1 c2 sched (SysO.init fs0)).o2.inert c2 →
      stepO c2 f (runO2 c1 c2 sched (SysO.init fs0)).fs (runO2 c1 c2 sched (SysO.init fs0)).o2 =
        afterStep c2 (runO2 c1 c2 sched (SysO.init fs0)).o2 (runO2 c1 c2 sched (SysO.init fs0)).o2.pcView
          (step (c2.cfgAt (runO2 c1 c2 sched (SysO.init fs0)).o2.use) f (runO2 c1 c2 sched (SysO.init fs0)).fs
            (runO2 c1 c2 sched (SysO.init fs0)).o2.pcView)) := by
  have h := inv2O_run ok sched (inv2O_init c1 c2 fs0)
  have h1 := (goodO_dest h.g1).2.1
  have h2 := (goodO_dest h.g2).2.1
  exact ⟨h1, h2, fun f hin => stepO_view c1 f _ _ h1 hin, fun f hin => stepO_view c2 f _ _ h2 hin⟩

/-- **C12_two / C12_crash for histories.** Two writer objects, each used any number of times
(sequential re-use, normal or exceptional exits), distinct destinations, interleaved by an arbitrary
schedule with arbitrary faults, observed after any prefix (= crash point):
* the temp files they hold are distinct;
* each destination holds its initial contents or the **complete** contents written by one of the
  uses of its writer started so far — never a mixture, never the other writer's bytes;
* when an object is between uses and its last use returned normally, the destination holds exactly
  what that use wrote;
* every other non-temp file is untouched. -/
theorem C12_hist_two (c1 c2 : OCfg) (ok : TwoOKO c1 c2) (fs0 : FS) (sched : List (Bool × Fault)) :
    (∀ n1 n2, (runO2 c1 c2 sched (SysO.init fs0)).o1.pcView.owns = some n1 →
        (runO2 c1 c2 sched (SysO.init fs0)).o2.pcView.owns = some n2 → n1 ≠ n2) ∧
    (get (runO2 c1 c2 sched (SysO.init fs0)).fs c1.dest = get fs0 c1.dest ∨
      ∃ j, j < (runO2 c1 c2 sched (SysO.init fs0)).o1.use ∧ j < c1.uses.length ∧
        get (runO2 c1 c2 sched (SysO.init fs0)).fs c1.dest = some (finalContent (c1.cfgAt j).script)) ∧
    (get (runO2 c1 c2 sched (SysO.init fs0)).fs c2.dest = get fs0 c2.dest ∨
      ∃ j, j < (runO2 c1 c2 sched (SysO.init fs0)).o2.use ∧ j < c2.uses.length ∧
        get (runO2 c1 c2 sched (SysO.init fs0)).fs c2.dest = some (finalContent (c2.cfgAt j).script)) ∧
    ((runO2 c1 c2 sched (SysO.init fs0)).o1.opc = .idle →
      ∀ out rest, (runO2 c1 c2 sched (SysO.init fs0)).o1.outs = out :: rest → out = .ok →
        get (runO2 c1 c2 sched (SysO.init fs0)).fs c1.dest =
          some (finalContent (c1.cfgAt ((runO2 c1 c2 sched (SysO.init fs0)).o1.use - 1)).script)) ∧
    ((runO2 c1 c2 sched (SysO.init fs0)).o2.opc = .idle →
      ∀ out rest, (runO2 c1 c2 sched (SysO.init fs0)).o2.outs = out :: rest → out = .ok →
        get (runO2 c1 c2 sched (SysO.init fs0)).fs c2.dest =
          some (finalContent (c2.cfgAt ((runO2 c1 c2 sched (SysO.init fs0)).o2.use - 1)).script)) ∧
    (∀ x : Name, x.isTmp = false → x ≠ c1.dest → x ≠ c2.dest →
        get (runO2 c1 c2 sched (SysO.init fs0)).fs x = get fs0 x) := by
  have h := inv2O_run ok sched (inv2O_init c1 c2 fs0)
  exact ⟨h.disj, (goodO_dest h.g1).1, (goodO_dest h.g2).1, (goodO_dest h.g1).2.2, (goodO_dest h.g2).2.2, h.frame⟩

/-- **Nobody touches the other's temp file, also with re-used writers**: if the next operation of one
object names the temp file the other currently holds, it is an exclusive-create probe and it fails. -/
theorem C12_hist_no_touch (c1 c2 : OCfg) (ok : TwoOKO c1 c2) (fs0 : FS) (sched : List (Bool × Fault))
    (who : Bool) (f : Fault) (e : Event)
    (he : (stepO2 c1 c2 who f (runO2 c1 c2 sched (SysO.init fs0))).trace
            = (who, e) :: (runO2 c1 c2 sched (SysO.init fs0)).trace)
    (n : Nat) (ht : e.op.target = some n)
    (hown : (if who then (runO2 c1 c2 sched (SysO.init fs0)).o1
             else (runO2 c1 c2 sched (SysO.init fs0)).o2).pcView.owns = some n) :
    e.op = .create n ∧ e.res ≠ .ok :=
  stepO2_event ok (inv2O_run ok sched (inv2O_init c1 c2 fs0)) who f e he n ht hown

/-- Without the reset (a stale closed file object stays on the writer and `make_tempfile` unlinks
its name, `missing_ok=True`): writer A finishes a use (`tmp_1`), writer B claims `tmp_1`, A is
re-entered, unlinks B's live `tmp_1`, re-creates it and writes `[3,3]`; B writes `[2]` into it and
renames it: B's destination holds `[2,3]` — neither its old (absent) nor its new (`[2]`) contents.
So `TwoOKO.r1/r2` (`C12_gen_reset` for the source) cannot be dropped. -/
theorem C12_hist_unreset_clobbers :
    get (runO2
          ⟨{ implV1 with resetTemp := false, staleMissingOk := true }, .file 0, [⟨[.write [1]], none⟩, ⟨[.write [3, 3]], none⟩]⟩
          ⟨{ implV1 with resetTemp := false, staleMissingOk := true }, .file 1, [⟨[.write [2]], none⟩]⟩
          [(false, .none), (false, .none), (false, .none), (false, .none), (false, .none),
           (true, .none), (true, .none),
           (false, .none), (false, .none), (false, .none), (false, .none),
           (true, .none), (true, .none), (true, .none)] (SysO.init [])).fs (.file 1) = some [2, 3] := by
  decide +kernel

/-- Non-vacuity: with the reset, the same history and schedule give both writers their own data
(A is re-used while B is in flight and simply takes `tmp_2`). -/
example :
    (runO2 ⟨implV1, .file 0, [⟨[.write [1]], none⟩, ⟨[.write [3, 3]], none⟩]⟩
          ⟨implV1, .file 1, [⟨[.write [2]], none⟩]⟩
          [(false, .none), (false, .none), (false, .none), (false, .none), (false, .none),
           (true, .none), (true, .none),
           (false, .none), (false, .none), (false, .none),
           (true, .none), (true, .none), (true, .none), (false, .none), (false, .none), (false, .none)]
          (SysO.init [])).fs
      = [(.file 0, [3, 3]), (.file 1, [2])] := by decide +kernel

example : TwoOKO ⟨implV1, .file 0, [⟨[.write [1]], none⟩, ⟨[.write [3, 3]], none⟩]⟩
    ⟨implV1, .file 1, [⟨[.write [2]], none⟩]⟩ := ⟨rfl, rfl, rfl, rfl, rfl, rfl, by decide⟩

/-! ## the theorems at the shape of the current source -/

theorem C12_crash_current (dest : Name) (hd : dest.isTmp = false) (script : List BOp) (exc : Option Nat)
    (fs0 : FS) (plan : List Fault) (k : Nat) :
    get (run ⟨Gen.Save.impl, dest, script, exc⟩ k plan (St.init fs0)).fs dest = get fs0 dest ∨
    get (run ⟨Gen.Save.impl, dest, script, exc⟩ k plan (St.init fs0)).fs dest = some (finalContent script) :=
  (C12_crash ⟨Gen.Save.impl, dest, script, exc⟩ C12_gen_exclusive hd fs0 plan k).1

theorem C12_fail_current (dest : Name) (hd : dest.isTmp = false) (script : List BOp) (exc : Option Nat)
    (fs0 : FS) (plan : List Fault) (k : Nat) (o : Outcome)
    (hdone : (run ⟨Gen.Save.impl, dest, script, exc⟩ k plan (St.init fs0)).pc = .done o) (ho : o ≠ .ok)
    (hu : noFailedUnlink (run ⟨Gen.Save.impl, dest, script, exc⟩ k plan (St.init fs0)).trace = true) :
    ∀ x : Name, get (run ⟨Gen.Save.impl, dest, script, exc⟩ k plan (St.init fs0)).fs x = get fs0 x :=
  C12_fail ⟨Gen.Save.impl, dest, script, exc⟩ C12_gen_exclusive C12_gen_guards hd fs0 plan k o hdone ho hu

/-! ## non-vacuity -/

/-- A run that commits: old `[9]`, decoy `tmp_1`, script write/seek/write; 8 steps reach `done ok`. -/
example :
    (run ⟨implV1, .file 0, [.write [1, 2, 3], .seek 1, .write [7]], none⟩ 8 []
        (St.init [(.file 0, [9]), (.tmp 1, [5])])).pc = .done .ok ∧
    get (run ⟨implV1, .file 0, [.write [1, 2, 3], .seek 1, .write [7]], none⟩ 8 []
        (St.init [(.file 0, [9]), (.tmp 1, [5])])).fs (.file 0) = some [1, 7, 3] := by decide +kernel

/-- The hypotheses of `C12_fail` are met by a run where `close()` raises: the guard unlinks `tmp_1`. -/
example :
    (run ⟨implV1, .file 0, [.write [1, 2]], none⟩ 5 [.none, .none, .none, .eio] (St.init [(.file 0, [9])])).pc
        = .done .raisedOS ∧
    noFailedUnlink (run ⟨implV1, .file 0, [.write [1, 2]], none⟩ 5 [.none, .none, .none, .eio]
        (St.init [(.file 0, [9])])).trace = true ∧
    get (run ⟨implV1, .file 0, [.write [1, 2]], none⟩ 5 [.none, .none, .none, .eio]
        (St.init [(.file 0, [9])])).fs (.tmp 1) = none := by decide +kernel

/-- Two writers racing for `tmp_1`: the second one probes `tmp_1`, gets EEXIST, takes `tmp_2`; both commit. -/
example :
    (run2 ⟨implV1, .file 0, [.write [1]], none⟩ ⟨implV1, .file 1, [.write [2]], none⟩
      [(false, .none), (true, .none), (false, .none), (true, .none), (true, .none), (false, .none),
       (true, .none), (false, .none), (true, .none), (false, .none), (true, .none)] (Sys.init [])).fs
      = [(.file 1, [2]), (.file 0, [1])] := by decide +kernel

example : TwoOK ⟨implV1, .file 0, [.write [1]], none⟩ ⟨implV1, .file 1, [.write [2]], none⟩ :=
  ⟨rfl, rfl, rfl, rfl, by decide⟩

/-- Without exclusive create the two writers *do* collide: the second one truncates the first one's
`tmp_1`, and the first destination ends up with a file that is neither its old (absent) nor its new
(`[1]`) contents.  This is what `TwoOK.x1/x2` (and `C12_gen_exclusive` for the source) exclude. -/
example :
    get (run2 ⟨{ implV1 with exclusive := false }, .file 0, [.write [1]], none⟩
          ⟨{ implV1 with exclusive := false }, .file 1, [.write [2]], none⟩
      [(false, .none), (false, .none), (false, .none), (true, .none), (true, .none),
       (false, .none), (false, .none)] (Sys.init [])).fs (.file 0) = some [] := by
  decide +kernel

end C12
