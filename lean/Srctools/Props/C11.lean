import Srctools.Proofs.C11
import Srctools.Proofs.C11Ent
import Srctools.Proofs.C11Lumps
import Srctools.Gen.Tok
import Srctools.Gen.Bspfmt
/-!
# C11 — every BSP lump writer is the inverse of its reader

Property theorems only.  Three kinds:

* **generic theorems** about the executable models (`Model/StructCodec.lean`, `Model/C11.lean`), for
  all inputs: struct round trip / no integer truncation, RLE round trip, index builders;
* **obligations on the current source** (`decide` over `Gen/Bspfmt.lean`, regenerated from
  `bsp.py` / `binformat.py` on every run): every format parses, reader format = writer format for
  every lump record in every layout, static-prop records of reader and writer agree and have the
  declared size in every version, every variable-length `…s` pack site is guarded, `find_or_extend`
  bounds its candidate, the `isinstance` chain of the detail-prop writer tests subclasses first;
* **record-level round trips** built from the two.
-/
namespace C11
open StructCodec Gen.Bspfmt

instance {ε α : Type} [DecidableEq ε] [DecidableEq α] : DecidableEq (Except ε α) := fun a b =>
  match a, b with
  | .ok x, .ok y => if h : x = y then isTrue (by rw [h]) else isFalse (fun e => h (Except.ok.inj e))
  | .error x, .error y => if h : x = y then isTrue (by rw [h]) else isFalse (fun e => h (Except.error.inj e))
  | .ok _, .error _ => isFalse (fun e => by cases e)
  | .error _, .ok _ => isFalse (fun e => by cases e)

/-! ## helpers for the obligations (decidable, evaluated by the kernel) -/

/-- wire layout of one format string -/
def wireOf (s : List Char) : Option Fmt := (parseFmt s).bind Parsed.wire

/-- wire layout of a record written/read in several pieces -/
def wireCat : List (List Char) → Option Fmt
  | [] => some []
  | s :: ss => match wireOf s, wireCat ss with
    | some a, some b => some (a ++ b)
    | _, _ => none

def pairOK (p : Pair) : Bool :=
  match wireCat p.reader, wireCat p.writer with
  | some r, some w => p.writer.isEmpty || normalize r == normalize w
  | _, _ => false

def allFormatStrings : List (List Char) :=
  (layouts.map (fun l => l.2.map (·.2))).flatten
  ++ (pairs.map (fun p => p.reader ++ p.writer)).flatten
  ++ [overlayReader, overlayWriterHead] ++ overlayWriterFaces.map (·.2) ++ overlayWriterTail
  ++ propReaderSegs.map (·.2) ++ propWriterSegs.map (·.2)
  ++ strSites.map (·.2.1)

/-- overlay record: the writer's pieces for `k` faces = the reader's record with the unused tail
of the face array replaced by pad bytes -/
def overlayOK (k : Nat) (faces : List Char) : Bool :=
  match wireOf overlayReader, wireCat (overlayWriterHead :: faces :: overlayWriterTail) with
  | some r, some w =>
    ((r.drop 3).take overlayFaceCount == List.replicate overlayFaceCount FieldFmt.i32)
    && decide (k ≤ overlayFaceCount)
    && normalize w == normalize (r.take 3 ++ List.replicate k FieldFmt.i32
          ++ [FieldFmt.pad (4 * (overlayFaceCount - k))] ++ r.drop (3 + overlayFaceCount))
  | _, _ => false

def segWire (segs : List (PropCond × List Char)) : Option (List (PropCond × Fmt)) :=
  segs.mapM (fun s => (wireOf s.2).map (fun f => (s.1, f)))

/-- static-prop record of a version: reader = writer, and the size is the declared one -/
def propVersionOK (v : PropVersion) : Bool :=
  match segWire propReaderSegs, segWire propWriterSegs with
  | some r, some w =>
    match propRecord v r, propRecord v w with
    | some fr, some fw => normalize fr == normalize fw && size fw == v.size
    | _, _ => false
  | _, _ => false

/-- `name` sites: `struct.pack('<Ns', name.encode(..))` of a variable-length string -/
def isNameSite (s : String × List Char × Nat × Bool × String) : Bool :=
  match wireOf s.2.1 with
  | some [FieldFmt.str _] => true
  | _ => false

/-- transitive base classes -/
def basesOf (tbl : List (String × List String)) : Nat → String → List String
  | 0, _ => []
  | fuel + 1, c =>
    match tbl.find? (·.1 == c) with
    | some (_, bs) => bs ++ (bs.map (basesOf tbl fuel)).flatten
    | none => []

/-- in an `if isinstance(x, A) … elif isinstance(x, B)` chain no class may come after one of its
base classes (its branch would be unreachable) -/
def isinstanceOrderOK (tbl : List (String × List String)) : List String → Bool
  | [] => true
  | c :: rest => rest.all (fun d => !(basesOf tbl 8 d).contains c) && isinstanceOrderOK tbl rest

/-! ## obligations on the current source -/

/-- every struct format string used by the lump code is in the modelled grammar and has a modelled
wire layout (a native, prefix-less format only when it cannot contain alignment padding) -/
theorem C11_gen_formats_parse : allFormatStrings.all (fun s => (wireOf s).isSome) = true := by
  decide +kernel

/-- for every lump record and every layout table, the reader's format is the writer's format -/
theorem C11_gen_reader_eq_writer : pairs.all pairOK = true := by decide +kernel

/-- overlays: for every face count the writer produces the record the reader expects -/
theorem C11_gen_overlay_record :
    overlayWriterFaces.length = overlayFaceCount + 1 ∧
    overlayWriterFaces.all (fun kf => overlayOK kf.1 kf.2) = true := by decide +kernel

/-- static props: in **every** version the reader and the writer use the same record, whose size is
the one declared in `StaticPropVersion` (so the writer's size check can never fire), and the
default version exists -/
theorem C11_gen_prop_versions :
    propVersions.all propVersionOK = true ∧ propWriterChecksSize = true ∧
    (propVersions.any (fun v => v.name == propDefault)) = true := by decide +kernel

/-- every byte string packed into an `…s` field — the model-name dictionaries and the fixed-size
byte fields inside records (`Face.light_styles`, `VisLeaf._ambient`) — is length-checked at the call
site (`struct` itself truncates silently, see `C11_struct_str_truncates`) -/
theorem C11_gen_names_guarded :
    strSites.all (fun s => s.2.2.2.1) = true ∧ (strSites.filter isNameSite).length = 2 := by decide +kernel

/-- the texture writer rejects every name the reader could not find the terminator of -/
theorem C11_gen_texture_limits : textureWriteLimit ≤ textureReadLimit ∧ 0 < textureWriteLimit := by
  decide

/-- `find_or_extend` requires the whole candidate slice to exist -/
theorem C11_gen_find_or_extend_bounded : findOrExtendBounded = true := by decide

/-- the detail-prop writer tests `DetailPropShape` before its base class `DetailPropSprite` -/
theorem C11_gen_detail_isinstance_order :
    isinstanceOrderOK detailBases detailIsinstanceOrder = true := by decide +kernel

/-- assigning a view stores the value as it is: `ParsedLump.__set__` does not iterate it and no
`_lmp_check_*` hook consumes its argument (a generator assigned to a view reaches the writer intact) -/
theorem C11_gen_assignment_hooks :
    setStoresValueUntouched = true ∧ assignmentHooks.all (fun h => !h.2) = true := by decide

/-! ## (iii) struct layer -/

/-- **Struct round trip.** For every format and all values, if `pack` succeeds then `unpack` of the
bytes returns the values in unpacked form (`canon`: 0/1 for bools in integer fields, bools for `?`,
`ns` values cut/padded to `n` bytes). -/
theorem C11_struct_roundtrip (fmt : Fmt) (vs : List Val) (bs : Bytes) (h : pack fmt vs = .ok bs) :
    unpack fmt bs = .ok (canon fmt vs) ∧ bs.length = size fmt :=
  ⟨unpack_pack h, pack_length h⟩

/-- …and values already in unpacked form (ints in range, float32-representable bit patterns, byte
strings of exactly the field length) come back unchanged. -/
theorem C11_struct_roundtrip_id (fmt : Fmt) (vs : List Val) (bs : Bytes) (h : pack fmt vs = .ok bs)
    (hc : canonical fmt vs = true) : unpack fmt bs = .ok vs :=
  unpack_pack_canonical h hc

/-- **Error instead of truncation (integers).** An integer that does not fit its field makes `pack`
fail; a successful `pack` never altered an integer. -/
theorem C11_struct_no_int_truncation (fmt : Fmt) (vs : List Val) :
    (intsFit fmt vs = false → ∃ e, pack fmt vs = .error e) ∧
    (∀ bs, pack fmt vs = .ok bs → intsFit fmt vs = true) :=
  ⟨pack_error_of_not_intsFit, fun _ h => pack_intsFit h⟩

/-- **`ns` truncates silently** (as CPython): the struct layer alone does not give "error instead
of truncation" for strings; the call site must check the length (`C11_gen_names_guarded`). -/
theorem C11_struct_str_truncates (n : Nat) (b : Bytes) (h : n < b.length) :
    pack [.str n] [.bytes b] = .ok (b.take n) ∧
    unpack [.str n] (b.take n) = .ok [.bytes (b.take n)] := by
  have hp : pack [.str n] [.bytes b] = .ok (b.take n) := by
    simp [pack, packField, FieldFmt.intInfo, packStr_truncates n b (Nat.le_of_lt h)]
  exact ⟨hp, by simpa [canon, canonField, FieldFmt.intInfo, packStr_truncates n b (Nat.le_of_lt h)] using unpack_pack hp⟩

/-- **Record arrays** (`iter_unpack` ∘ join of `pack`). -/
theorem C11_struct_records (fmt : Fmt) (hs : 0 < size fmt) (recs : List (List Val)) (bs : Bytes)
    (h : packMany fmt recs = .ok bs) (hc : ∀ r ∈ recs, canonical fmt r = true) :
    unpackMany fmt bs = .ok recs := by
  rw [unpackMany_packMany hs h]
  congr 1
  conv => rhs; rw [← List.map_id recs]
  exact List.map_congr_left (fun r hr => canon_of_canonical (hc r hr))

/-! ## (i) visibility run-length coding -/

/-- **RLE round trip**: `runlength_decode(runlength_encode(d)) == d` for every byte string (the code
caps the output at `1 << 128` bytes). -/
theorem C11_rle (d : Bytes) (h : d.length ≤ 2 ^ 128) : rleDecode (rleEncode d) 0 none = .ok d :=
  rle_roundtrip d h

/-- **RLE round trip, `max_clusters` form**: a row of `ceil(m/8)` bytes written at any offset of the
visibility lump, followed by any well-formed RLE data (the later rows), is read back exactly by
`runlength_decode(data, offset, m)`. -/
theorem C11_rle_clusters (pre post d : Bytes) (m : Nat) (hd : d.length = (m + 7) / 8)
    (hpost : wfStream post = true) :
    rleDecode (pre ++ (rleEncode d ++ post)) pre.length (some m) = .ok d :=
  rle_roundtrip_in_stream pre post d m hd hpost

/-- encoded rows are well-formed streams, and so are concatenations of them -/
theorem C11_rle_wf (rows : List Bytes) : wfStream (rows.map rleEncode).flatten = true := by
  induction rows with
  | nil => rfl
  | cons r rs ih =>
    simp only [List.map_cons, List.flatten_cons]
    exact wfStream_append _ _ _ (Nat.le_refl _) (wfStream_rleEncode r) ih

/-! ## (ii) index builders -/

section index
variable {α κ : Type} [DecidableEq κ]

/-- **find_or_insert.** Starting from any list, after any sequence of calls: the returned index
addresses an element with the key of the argument (the argument itself when the key is injective,
e.g. `id`), and the list only ever grows at the end (earlier indices stay valid). -/
theorem C11_index_insert (key : α → κ) (l : List α) (xs : List α) (x : α) :
    let f := xs.foldl (fun f y => (f.call key y).2) (Finder.mk' key l)
    let r := f.call key x
    (∃ y, r.2.list[r.1]? = some y ∧ key y = key x) ∧ f.list <+: r.2.list ∧ l <+: f.list := by
  have hinv : ∀ (xs : List α) (f : Finder α κ), f.Inv key →
      (xs.foldl (fun f y => (f.call key y).2) f).Inv key ∧
      f.list <+: (xs.foldl (fun f y => (f.call key y).2) f).list := by
    intro xs
    induction xs with
    | nil => intro f hf; exact ⟨hf, List.prefix_refl _⟩
    | cons y ys ih =>
      intro f hf
      have hs := Finder.call_spec key f hf y
      obtain ⟨h1, h2⟩ := ih (f.call key y).2 hs.2.2
      exact ⟨h1, List.IsPrefix.trans hs.2.1 h2⟩
  intro f r
  obtain ⟨hf, hpre⟩ := hinv xs (Finder.mk' key l) (Finder.mk'_inv key l)
  have hs := Finder.call_spec key f hf x
  exact ⟨hs.1, hs.2.1, hpre⟩

/-- with an injective key (object identity) the index addresses the argument itself -/
theorem C11_index_insert_id (key : α → κ) (hinj : Function.Injective key) (l xs : List α) (x : α) :
    let f := xs.foldl (fun f y => (f.call key y).2) (Finder.mk' key l)
    (f.call key x).2.list[(f.call key x).1]? = some x := by
  intro f
  have h := C11_index_insert key l xs x
  simp only at h
  obtain ⟨⟨y, hy, hk⟩, _⟩ := h
  have hyx : y = x := hinj hk
  subst hyx; exact hy

/-- **find_or_extend** (with the bound on the candidate slice): the returned index addresses a
slice of the list whose keys are the keys of the argument — the argument itself for an injective
key — and the list only grows at the end. -/
theorem C11_index_extend (key : α → κ) (f : EFinder α κ) (items : List α) :
    let r := f.call true key items
    ((r.2.list.drop r.1).take items.length).map key = items.map key ∧ f.list <+: r.2.list :=
  EFinder.call_spec key f items

theorem C11_index_extend_id (key : α → κ) (hinj : Function.Injective key) (f : EFinder α κ) (items : List α) :
    ((f.call true key items).2.list.drop (f.call true key items).1).take items.length = items :=
  (List.map_inj_right hinj).mp (C11_index_extend key f items).1

end index

/-- **texdata table of `_lmp_write_texinfo`** (keyed on the TexData object, i.e. an injective key):
the index stored in the `k`-th texinfo record addresses, in the written texdata table, exactly the
TexData of the `k`-th texinfo — whatever other TexData share its material name. -/
theorem C11_texdata_index {α κ : Type} [DecidableEq κ] (key : α → κ) (hinj : Function.Injective key)
    (tds : List α) (k : Nat) (hk : k < tds.length) :
    ∃ i, (texdataTable key tds).1[k]? = some i ∧ (texdataTable key tds).2[i]? = some tds[k] := by
  obtain ⟨_, _, hall⟩ := Finder.callAll_spec key tds (Finder.mk' key []) (Finder.mk'_inv key [])
  obtain ⟨i, y, h1, h2, h3⟩ := hall k hk
  exact ⟨i, h1, by rw [← hinj h3]; exact h2⟩

/-- With a coarser key (material name only) the statement is **false**: two texdata `(name, size)`
with the same name are merged and the second texinfo points at the first one's record. -/
theorem C11_texdata_index_coarse_key_fails :
    texdataTable (fun (t : Nat × Nat) => t.1) [(7, 256), (7, 512)] = ([0, 0], [(7, 256)]) := by
  decide +kernel

/-- Without the bound (the code as it was before the repair) the statement is **false**: with list
`[1, 2]` and items `[2, 3]` the tail match at index 1 is accepted although the slice is `[2]`. -/
theorem C11_index_extend_unbounded_fails :
    let r := (EFinder.mk' (fun (x : Nat) => x) [1, 2]).call false (fun x => x) [2, 3]
    r.1 = 1 ∧ r.2.list = [1, 2] ∧ (r.2.list.drop r.1).take 2 ≠ [2, 3] := by decide +kernel

/-! ## name dictionary (`128s`) -/

/-- **Guarded name field.** With the call-site guard: a name of at most `n` bytes that does not end
in NUL is read back exactly; a longer name is rejected. -/
theorem C11_name_roundtrip (n : Nat) (name : Bytes) (hnul : name.getLast? ≠ some 0) :
    (name.length ≤ n → ∃ b, nameWrite true n name = .ok b ∧ b.length = n ∧ nameRead b = name) ∧
    (n < name.length → nameWrite true n name = .error .tooLong) := by
  constructor
  · intro h
    refine ⟨packStr n name, by simp [nameWrite, Nat.not_lt.mpr h], packStr_length n name, ?_⟩
    rw [nameRead, packStr_pads n name h]
    exact rstrip0_append_zeros name _ hnul
  · intro h
    simp [nameWrite, h]

/-- Without the guard a longer name is silently cut to `n` bytes. -/
theorem C11_name_unguarded_truncates (n : Nat) (name : Bytes) (h : n < name.length) :
    nameWrite false n name = .ok (name.take n) := by
  simp [nameWrite, packStr_truncates n name (Nat.le_of_lt h)]


/-! ## record level: reader ∘ writer = id for the formats of the current source -/

/-- **Every lump record.** For every (record, layout) pair extracted from `bsp.py`: whatever the
writer packs with its format string(s), the reader's format string(s) unpack to the same values. -/
theorem C11_reader_inverts_writer (p : Pair) (hp : p ∈ pairs) (fr fw : Fmt)
    (hr : wireCat p.reader = some fr) (hw : wireCat p.writer = some fw) (hne : p.writer.isEmpty = false)
    (vs : List Val) (bs : Bytes) (h : pack fw vs = .ok bs) :
    unpack fr bs = .ok (canon fw vs) ∧ intsFit fw vs = true := by
  have hall := List.all_eq_true.mp C11_gen_reader_eq_writer p hp
  simp only [pairOK, hr, hw, hne, Bool.false_or, beq_iff_eq] at hall
  exact ⟨unpack_pack_of_normalize_eq hall h, pack_intsFit h⟩

/-- **Flat lumps** (planes, vertexes, cubemaps, edges, texinfo records, … — any lump that is an
array of one record): `iter_unpack(reader format)` of the joined `pack(writer format)` records
returns the records. -/
theorem C11_flat_lump (p : Pair) (hp : p ∈ pairs) (fr fw : Fmt)
    (hr : wireCat p.reader = some fr) (hw : wireCat p.writer = some fw) (hne : p.writer.isEmpty = false)
    (hs : 0 < size fw) (recs : List (List Val)) (bs : Bytes)
    (h : recsWrite fw recs = .ok bs) (hc : ∀ r ∈ recs, canonical fw r = true) :
    recsRead fr bs = .ok recs := by
  have hall := List.all_eq_true.mp C11_gen_reader_eq_writer p hp
  simp only [pairOK, hr, hw, hne, Bool.false_or, beq_iff_eq] at hall
  unfold recsWrite at h
  split at h
  · rename_i b hb
    injection h with h; subst h
    unfold recsRead
    rw [unpackMany_of_normalize_eq hall, C11_struct_records fw hs recs _ hb hc]
  · cases h

/-- the planes lump: additionally the reader insists on a valid `PlaneType` -/
theorem C11_planes (fmt : Fmt) (hs : 0 < size fmt) (recs : List (List Val)) (bs : Bytes)
    (h : recsWrite fmt recs = .ok bs) (hc : ∀ r ∈ recs, canonical fmt r = true)
    (ht : recs.all planeTypeOk = true) : planesRead fmt bs = .ok recs := by
  unfold recsWrite at h
  split at h
  · rename_i b hb
    injection h with h; subst h
    simp only [planesRead, recsRead, C11_struct_records fmt hs recs _ hb hc, ht, if_true]
  · cases h

/-- **Static-prop record, every version.** For each member of `StaticPropVersion`: the record the
writer produces has exactly `version.size` bytes and the reader's segments decode it to the values
written. -/
theorem C11_prop_record (v : PropVersion) (hv : v ∈ propVersions)
    (rs ws : List (PropCond × Fmt)) (hrs : segWire propReaderSegs = some rs) (hws : segWire propWriterSegs = some ws)
    (fr fw : Fmt) (hr : propRecord v rs = some fr) (hw : propRecord v ws = some fw)
    (vs : List Val) (bs : Bytes) (h : pack fw vs = .ok bs) :
    unpack fr bs = .ok (canon fw vs) ∧ bs.length = v.size := by
  have hall := List.all_eq_true.mp C11_gen_prop_versions.1 v hv
  simp only [propVersionOK, hrs, hws, hr, hw, Bool.and_eq_true, beq_iff_eq] at hall
  exact ⟨unpack_pack_of_normalize_eq hall.1 h, by rw [pack_length h]; exact hall.2⟩

/-- **Texture-name table.** NUL-free names shorter than the writer's limit are written (with
de-duplicated, possibly overlapping offsets) and read back exactly; any longer name is rejected. -/
theorem C11_textures (names : List Bytes) :
    ((∀ n ∈ names, n.length < textureWriteLimit ∧ (0 : UInt8) ∉ n) →
      ∃ data offs, texWrite textureWriteLimit names = .ok (data, offs) ∧
        texRead textureReadLimit data offs = .ok names) ∧
    ((∃ n ∈ names, textureWriteLimit ≤ n.length) → texWrite textureWriteLimit names = .error .tooLong) := by
  constructor
  · intro hn
    obtain ⟨data, offs, h1, h2⟩ := texFold_spec textureWriteLimit names [] [] [] (fun n h => (hn n h).1) trivial
    refine ⟨data, offs, h1, texRead_of_inv textureReadLimit data offs names (fun n h => ⟨?_, (hn n h).2⟩) (by simpa using h2)⟩
    exact Nat.lt_of_lt_of_le (hn n h).1 C11_gen_texture_limits.1
  · intro h
    exact texFold_too_long textureWriteLimit names _ h

/-- **Visibility lump.** For `n` clusters with rows of `ceil(n/8)` bytes: if the writer succeeds
(offsets fit `int32`), the reader returns the same PVS and PAS rows. -/
theorem C11_visibility (pvs pas : List Bytes) (data : Bytes)
    (hp : ∀ r ∈ pvs, r.length = (pvs.length + 7) / 8) (ha : ∀ r ∈ pas, r.length = (pvs.length + 7) / 8)
    (h : visWrite pvs pas = .ok data) : visRead data = .ok (pvs, pas) :=
  vis_roundtrip pvs pas data hp ha h



/-! ## lumps with cross references: faces, brushes + sides, leafs, nodes

Objects are object numbers, tables are lists of them (`Model/C11Lumps.lean`); the writers run their
`find_or_insert` / `find_or_extend` closures as coded.  Each theorem has two layers: the records
survive `pack` with the writer's format / `iter_unpack` with the reader's format of the layout table
extracted from `bsp.py` (`hpair`, `hshape`: decide-obligations `C11_gen_xref_shapes` below), and the
indices in them are resolved by the reader — against the tables as they are after this writer or after
any later appends by other writers — to the very objects that were written. -/

/-- byte layer for any lump whose records all have the shape list `shp` -/
theorem C11_lump_bytes (p : Pair) (hp : p ∈ pairs) (fr fw : Fmt)
    (hr : wireCat p.reader = some fr) (hw : wireCat p.writer = some fw) (hne : p.writer.isEmpty = false)
    (hs : 0 < size fw) (shp : List Shape) (hshape : canonicalS fw shp = true)
    (recs : List (List Val)) (hrec : ∀ r ∈ recs, r.map Val.shape = shp) (bs : Bytes)
    (h : recsWrite fw recs = .ok bs) : recsRead fr bs = .ok recs :=
  C11_flat_lump p hp fr fw hr hw hne hs recs bs h
    (fun r hr' => by rw [canonical_shapes, hrec r hr']; exact hshape)

/-- The record shapes of the four lumps are canonical for the format of every layout table of the
current source (Vitamin faces are a different record and not covered). -/
def xrefShapesOK : Bool :=
  pairs.all (fun p =>
    match wireCat p.writer with
    | none => false
    | some fw =>
      let vit := p.layout == "LUMP_LAYOUT_VITAMIN"
      let bs : Shape := if p.layout == "LUMP_LAYOUT_CHAOS" then .f32 else .int
      let amb := p.layout == "LUMP_LAYOUT_V19"
      if p.record == "faces" then vit || canonicalS fw faceShapes
      else if p.record == "brushes" then canonicalS fw brushShapes
      else if p.record == "brushsides" then canonicalS fw (sideShapes vit)
      else if p.record == "leafs" then canonicalS fw (leafShapes ⟨vit, amb, 0⟩ bs)
      else if p.record == "nodes" then canonicalS fw (nodeShapes (if vit then .int else bs))
      else true)

theorem C11_gen_xref_shapes : xrefShapesOK = true := by decide +kernel

/-- **Faces / hdr_faces / orig_faces lumps** (non-Vitamin). `uo` = the lump references orig faces.
Hypotheses: every split face has an orig face, a texinfo and a hammer id (`FaceV.ok`, the excluded
class of the open finding `face-none-refs`), orig-lump faces have none; light styles have 4 bytes. -/
theorem C11_faces (p : Pair) (hp : p ∈ pairs) (fr fw : Fmt)
    (hr : wireCat p.reader = some fr) (hw : wireCat p.writer = some fw) (hne : p.writer.isEmpty = false)
    (hs : 0 < size fw) (hshape : canonicalS fw faceShapes = true)
    (uo : Bool) (t t' final : FaceTabs) (fs : List FaceV) (recs : List (List Val)) (hids : List Int) (bs : Bytes)
    (hok : ∀ f ∈ fs, f.ok uo) (h4 : ∀ f ∈ fs, f.lightStyles.length = 4)
    (hwr : writeFaces true uo t fs = .ok (recs, hids, t')) (hb : recsWrite fw recs = .ok bs) (hle : t'.le final) :
    ∃ recs', recsRead fr bs = .ok recs' ∧ readFaces uo final hids recs' = .ok fs :=
  ⟨recs, C11_lump_bytes p hp fr fw hr hw hne hs faceShapes hshape recs (writeFaces_shape uo t t' fs recs hids h4 hwr) bs hb,
   (faces_roundtrip uo t t' final fs recs hids hok hwr hle).1⟩

/-- The open finding `face-none-refs`, at model level: a split face without orig face and texinfo
is written with `-1` twice and read back as the *last* orig face / texinfo. -/
theorem C11_faces_none_refs_fail :
    let f : FaceV := FaceV.mk 10 true false [] none (-1) 0 [0, 0, 0, 0] 0 0 0 0 1 1 none [] true 0 none
    let t : FaceTabs := { texinfo := [20], planes := [10], surfedges := [], prims := [], origFaces := [30] }
    (match writeFaces true true t [f] with
     | .ok (recs, hids, t') => readFaces true t' hids recs
     | .error e => .error e) = .ok [{ f with texinfo := some 20, origFace := some 30 }] := by
  decide +kernel

/-- **Brushes + brush sides.** Sides shared between brushes (the local side table is built with
`find_or_extend`) come back as equal side values; outside VitaminSource the unknown bevel bits must
not use bit 0 (`SideV.ok`). -/
theorem C11_brushes (vit : Bool) (sd : Nat → SideV) (hsd : ∀ x, (sd x).ok vit) (t final : BrushTabs) (bs : List BrushV)
    (hp : (writeBrushes true vit sd t bs).2.2.planes <+: final.planes)
    (ht : (writeBrushes true vit sd t bs).2.2.texinfo <+: final.texinfo) :
    readBrushes vit final (writeBrushes true vit sd t bs).1 (writeBrushes true vit sd t bs).2.1
      = .ok (bs.map fun b => (b.contents, b.sides.map sd)) :=
  (brushes_roundtrip vit sd hsd t final bs hp ht).1

/-- **Leafs + leaf faces + leaf brushes + min-dist-to-water.** The flags must fit below the area
(`LEAF_AREA_OFFSET`), the ambient bytes are all zero where the layout does not store them. -/
theorem C11_leafs (c : LeafCfg) (t final : LeafTabs) (ls : List LeafV) (hok : ∀ l ∈ ls, l.ok c)
    (hF : (writeLeafs c t ls).2.2.2.2.faces <+: final.faces)
    (hB : (writeLeafs c t ls).2.2.2.2.brushes <+: final.brushes) :
    readLeafs c final (writeLeafs c t ls).1 (writeLeafs c t ls).2.1 (writeLeafs c t ls).2.2.1 (writeLeafs c t ls).2.2.2.1
      = .ok ls :=
  (leafs_roundtrip c t final ls hok hF hB).1

/-- **Nodes.** The loop over the growing node list (children that are not in the list are appended
and written too): every node of the final list is read back with its plane, faces and children. -/
theorem C11_nodes (nd : Nat → NodeV) (fuel : Nat) (nodes nodes' : List Nat) (t t' final : NodeTabs)
    (recs : List (List Val)) (h : writeNodes true nd fuel nodes t = some (recs, nodes', t'))
    (hp : t'.planes <+: final.planes) (hl : t'.leafs <+: final.leafs) (hf : t'.faces <+: final.faces) :
    readNodes final nodes' recs = .ok (nodes'.map nd) ∧ nodes <+: nodes' :=
  ⟨(nodes_roundtrip nd fuel nodes nodes' t t' final recs h hp hl hf).1,
   (nodes_roundtrip nd fuel nodes nodes' t t' final recs h hp hl hf).2.1⟩

/-- **Primitives + PRIMINDICES + PRIMVERTS** (contiguous side arrays, offsets = lengths so far). -/
theorem C11_primitives (ps : List PrimV) :
    readPrims (writePrims [] [] ps).2.1 (writePrims [] [] ps).2.2 (writePrims [] [] ps).1 = .ok ps :=
  prims_roundtrip ps

/-- **texinfo + texdata + texture names.** The texdata table is keyed on the TexData object
(`texdataTable idKey`), the name table case-insensitively (`fold` = `str.casefold`): every texinfo is
read back with its 16 floats, flags and the reflectivity / size of its own texdata, and a material
name that is the table's spelling of the same folded name (`normR fold` compares up to that). -/
theorem C11_texinfo (vit : Bool) (fold : Nat → Nat) (tdv : Nat → TexDataV) (textures final : List Nat)
    (infos : List TexInfoV) (h16 : ∀ i ∈ infos, i.f.length = 16)
    (hfin : (writeTexinfo vit fold tdv textures infos).2.2 <+: final) :
    ∃ rs, readTexinfo vit final (writeTexinfo vit fold tdv textures infos).1 (writeTexinfo vit fold tdv textures infos).2.1 = .ok rs ∧
      rs.map (normR fold) = infos.map (fun i => normR fold (deepTex tdv i)) := by
  obtain ⟨rs, h1, h2, _⟩ := texinfo_roundtrip vit fold tdv textures final infos h16 hfin
  exact ⟨rs, h1, h2⟩

/-- **Overlays + OVERLAY_FADES + OVERLAY_SYSTEM_LEVELS.** At most `maxFaces` (64) faces — more are
rejected —, the render order shares a field with the face count. -/
theorem C11_overlays (texinfo final : List Nat) (os : List OverlayV) (rs fs ls : List (List Val)) (f' : IdFinder)
    (h : writeOverlays overlayFaceCount (Finder.mk' idKey texinfo) os = .ok (rs, fs, ls, f')) (hfin : f'.list <+: final) :
    readOverlays overlayFaceCount final rs fs ls = .ok os :=
  (overlays_roundtrip overlayFaceCount (by decide) texinfo final os rs fs ls f' h hfin).1

theorem C11_overlays_too_many_faces (f : IdFinder) (o : OverlayV) (os : List OverlayV)
    (h : overlayFaceCount < o.faces.length) : writeOverlays overlayFaceCount f (o :: os) = .error .tooLong := by
  simp [writeOverlays, h]

/-- **Surfedges + edges.** -/
theorem C11_surfedges (isZero : Nat → Bool) (fresh dummy : Nat) (ed : Nat → Nat × Nat) (verts final : List Nat)
    (ss : List SurfEdgeV) (hne : ∀ s ∈ ss, s.edge ≠ dummy)
    (hfin : (writeSurfedges isZero fresh dummy ed verts ss).2.2 <+: final) :
    readSurfedges final (writeSurfedges isZero fresh dummy ed verts ss).1 (writeSurfedges isZero fresh dummy ed verts ss).2.1
      = .ok (ss.map (orient ed)) :=
  (surfedges_roundtrip isZero fresh dummy ed verts final ss hne hfin).1

/-- **Water leaf info.** -/
theorem C11_water (texinfo final : List Nat) (ws : List WaterV)
    (hfin : (writeWater (Finder.mk' idKey texinfo) ws).2.list <+: final) :
    readWater final (writeWater (Finder.mk' idKey texinfo) ws).1 = .ok ws :=
  water_roundtrip texinfo final ws hfin

/-- **VitaminSource faces** (the reader always indexes texinfo: faces must have one). -/
theorem C11_vfaces (tex planes edges ftex fplanes fedges : List Nat) (fs : List VFaceV) (hok : ∀ f ∈ fs, f.texinfo.isSome)
    (h1 : (writeVFaces true ⟨Finder.mk' idKey tex, Finder.mk' idKey planes, EFinder.mk' idKey edges⟩ fs).2.fTex.list <+: ftex)
    (h2 : (writeVFaces true ⟨Finder.mk' idKey tex, Finder.mk' idKey planes, EFinder.mk' idKey edges⟩ fs).2.fPlane.list <+: fplanes)
    (h3 : (writeVFaces true ⟨Finder.mk' idKey tex, Finder.mk' idKey planes, EFinder.mk' idKey edges⟩ fs).2.eEdges.list <+: fedges) :
    readVFaces ftex fplanes fedges (writeVFaces true ⟨Finder.mk' idKey tex, Finder.mk' idKey planes, EFinder.mk' idKey edges⟩ fs).1 = .ok fs :=
  vfaces_roundtrip tex planes edges ftex fplanes fedges fs hok h1 h2 h3

/-- shape of the reader's overlay format: three value fields, then the face slots -/
theorem C11_gen_overlay_reader_shape :
    (wireOf overlayReader).map (fun r => (r.take 3).all FieldFmt.isValue && decide (3 + overlayFaceCount ≤ r.length)) = some true := by
  decide +kernel

/-- **Overlay record, byte layer.** For every face count: the bytes the writer packs (face numbers,
then pad bytes) are the bytes of the reader's record with zero face slots packed with the reader's
format — so `unpack` with the reader's format returns exactly `overlayRec`, the record `C11_overlays`
speaks about. -/
theorem C11_overlay_bytes (kf : Nat × List Char) (hkf : kf ∈ overlayWriterFaces) (r w : Fmt)
    (hr : wireOf overlayReader = some r) (hw : wireCat (overlayWriterHead :: kf.2 :: overlayWriterTail) = some w)
    (o : OverlayV) (ho : o.faces.length = kf.1) (idx : Nat) :
    pack w ([.int o.id, .int idx, .int ((o.renderOrder <<< 14) ||| o.faces.length)] ++ o.faces.map Val.int ++ o.floats.map Val.f32)
      = pack r (overlayRec overlayFaceCount o idx) := by
  have hall := List.all_eq_true.mp C11_gen_overlay_record.2 kf hkf
  simp only [overlayOK, hr, hw, Bool.and_eq_true, beq_iff_eq, decide_eq_true_eq] at hall
  obtain ⟨⟨hmid, hk⟩, hnorm⟩ := hall
  have hshape := C11_gen_overlay_reader_shape
  simp only [hr, Option.map_some, Option.some.injEq, Bool.and_eq_true, List.all_eq_true, decide_eq_true_eq] at hshape
  apply overlay_bytes overlayFaceCount r w o idx (by omega) hmid hshape.2 hshape.1
  rw [ho]; exact hnorm

/-- **Brush models + PHYSCOLLIDE.** Writer as coded (model list by `find_or_insert` starting with
worldspawn's model, head node by `find_or_insert`, faces by `find_or_extend`, one physics section per
model that has keyvalues or solids, sentinel) → MODELS records and PHYSCOLLIDE bytes → reader as coded
(section loop, `rstrip(b'\0')` of the text, "two definitions" check) = the models; the index given to
every brush entity addresses its own model. Hypotheses (`BModelV.ok`): a model with solids has
keyvalues (else the reader returns an empty keyvalues object instead of `None`), the text does not
end in NUL. -/
theorem C11_bmodels (md : Nat → BModelV) (hmd : ∀ x, (md x).ok) (h9 : ∀ x, (md x).floats.length = 9)
    (nodes faces : List Nat) (world : Nat) (entModels idx ml nodes' faces' fn ff : List Nat)
    (recs : List (List Val)) (phys : Bytes) (fuel : Nat)
    (h : writeBModels true md nodes faces world entModels = .ok (idx, recs, phys, ml, nodes', faces'))
    (hfuel : ml.length < fuel) (hn : nodes' <+: fn) (hf : faces' <+: ff) :
    readBModels fuel fn ff recs phys = .ok (ml.map md) ∧ resolveArr ml idx = .ok entModels ∧ ml[0]? = some world :=
  ⟨(bmodels_roundtrip md hmd h9 nodes faces world entModels idx ml nodes' faces' fn ff recs phys fuel h hfuel hn hf).1,
   (bmodels_roundtrip md hmd h9 nodes faces world entModels idx ml nodes' faces' fn ff recs phys fuel h hfuel hn hf).2.1,
   (bmodels_roundtrip md hmd h9 nodes faces world entModels idx ml nodes' faces' fn ff recs phys fuel h hfuel hn hf).2.2.1⟩

/-- **Detail props** (models, sprites, shapes): records with the model-name dictionary and the
sprite table, both built by `find_or_insert` keyed on the value. -/
theorem C11_detail_props (ds : List DetailV) (h6 : ∀ d ∈ ds, d.f6.length = 6) (models : List Nat) (sprites : List (List UInt32))
    (h1 : (writeDetails ⟨Finder.mk' idKey [], Finder.mk' rectKey []⟩ ds).2.fModel.list <+: models)
    (h2 : (writeDetails ⟨Finder.mk' idKey [], Finder.mk' rectKey []⟩ ds).2.fSprite.list <+: sprites) :
    readDetails models sprites (writeDetails ⟨Finder.mk' idKey [], Finder.mk' rectKey []⟩ ds).1 = .ok ds :=
  details_roundtrip ds h6 models sprites h1 h2

/-- **Static props: model dictionary indices and the leaf-index array.** Each prop comes back with
its model name and the same set of leafs (`propsAgree`: the leaf lists are permutations — the writer
sorts each prop's indices, the reader builds a set). -/
theorem C11_prop_leafs (visleafs models leafs : List Nat) (ps : List PropRefV)
    (h1 : (writePropIdx ⟨Finder.mk' idKey [], Finder.mk' idKey visleafs, []⟩ ps).2.fModel.list <+: models)
    (h2 : (writePropIdx ⟨Finder.mk' idKey [], Finder.mk' idKey visleafs, []⟩ ps).2.fLeaf.list <+: leafs) :
    ∃ leafList rs, resolveArr leafs (writePropIdx ⟨Finder.mk' idKey [], Finder.mk' idKey visleafs, []⟩ ps).2.leafArray = .ok leafList ∧
      readPropIdx models leafList (writePropIdx ⟨Finder.mk' idKey [], Finder.mk' idKey visleafs, []⟩ ps).1 = .ok rs ∧ propsAgree rs ps :=
  propidx_roundtrip visleafs models leafs ps h1 h2

/-- the records of brushes, sides, leafs and nodes have the shapes `C11_gen_xref_shapes` speaks about
(so `C11_lump_bytes` applies to them) -/
theorem C11_xref_record_shapes (vit : Bool) (sd : Nat → SideV) (t : BrushTabs) (bs : List BrushV)
    (c : LeafCfg) (sh : Shape) (lt : LeafTabs) (ls : List LeafV) (hls : ∀ l ∈ ls, l.shapeOk c sh)
    (nd : Nat → NodeV) (hnd : ∀ x, (nd x).shapeOk sh) (fuel : Nat) (nodes nodes' : List Nat) (nt nt' : NodeTabs)
    (nrecs : List (List Val)) (hn : writeNodes true nd fuel nodes nt = some (nrecs, nodes', nt')) :
    (∀ r ∈ (writeBrushes true vit sd t bs).1, r.map Val.shape = brushShapes) ∧
    (∀ r ∈ (writeBrushes true vit sd t bs).2.1, r.map Val.shape = sideShapes vit) ∧
    (∀ r ∈ (writeLeafs c lt ls).1, r.map Val.shape = leafShapes c sh) ∧
    (∀ r ∈ nrecs, r.map Val.shape = nodeShapes sh) := by
  refine ⟨writeBrushRecs_shape bs _, writeSideRecs_shape vit sd _ _ _, writeLeafsAux_shape c sh ls _ hls, ?_⟩
  unfold writeNodes at hn
  cases hr : writeNodesAux true nd fuel 0 (NodeSt.mk (Finder.mk' idKey nodes) (Finder.mk' idKey nt.planes)
      (Finder.mk' idKey nt.leafs) (EFinder.mk' idKey nt.faces)) with
  | none => simp [hr] at hn
  | some q =>
    obtain ⟨rs, s⟩ := q
    simp only [hr, Option.some.injEq, Prod.mk.injEq] at hn
    obtain ⟨rfl, _⟩ := hn
    exact writeNodesAux_shape nd sh hnd fuel 0 _ s rs hr

/-! ## (iv) entity lump -/

/-- the tokenizer tables of the current source: NUL is no operator and may occur in a bare string
(the end marker of the lump), blanks / LF / braces as C01 needs them -/
theorem C11_gen_ent_tables :
    C11Ent.nulOK Gen.Tok.tables = true ∧ C01.kvOK Gen.Tok.tables = true ∧ Tok.escOK Gen.Tok.tables = true := by
  decide

/-- **Entity lump round trip.** `_lmp_read_ents (write_ent_data es)` returns the entities `es`
(worldspawn first, preceded by the `classname worldspawn` that `VMF()` starts with), every keyvalue
with its key and value — any characters, escaped by the writer in multi-line mode — and every
output line with its name and joined value, classified as the reader does (`0x1b` present → output,
exactly four commas → candidate output, else keyvalue).  Hypotheses (`entsOk`): no key is the single
NUL character; in worldspawn a key spelling `classname` carries exactly `worldspawn`; the number
texts of outputs (`'%g' % delay`, `str(times)` — the formatting itself, and with it the precision
loss of the open finding `ent-output-delay-precision`, is outside the model) contain no quote,
backslash, CR or LF. -/
theorem C11_ents (fold : Char → List Char) (spawn : List C11Ent.Line) (others : List (List C11Ent.Line))
    (h : C11Ent.entsOk spawn others) :
    C11Ent.entRead Gen.Tok.tables fold (C11Ent.entWrite Gen.Tok.tables (spawn :: others))
      = .ok (C11Ent.readBack spawn others) :=
  C11Ent.entRead_entWrite C11_gen_ent_tables.2.2 (C01.kvFacts C11_gen_ent_tables.2.1) fold
    C11_gen_ent_tables.1 spawn others h

/-- **Outputs with either separator, comma heuristic as coded.** The value of a written output line
is recognised as an output and split back into target, input, parameter, delay text, times text by
the rules of `Output.parse` — with the `0x1b` separator whenever no field contains `0x1b`; with the
comma separator whenever no field contains a comma or `0x1b`. -/
theorem C11_ents_outputs (o : C11Ent.OutFields) (h : o.fieldsOk) :
    (C11Ent.rlineOf (.out o)).kind = (if o.commaSep then 2 else 1) ∧
    C11Ent.parseOut (C11Ent.rlineOf (.out o)).value
      = some (o.target, o.input, o.params, o.delay, o.times, o.commaSep) :=
  C11Ent.parseOut_value o h

/-- …and the comma heuristic really is a restriction: a parameter containing a comma makes the
reader take the comma-separated output for a plain keyvalue. -/
theorem C11_ents_comma_param_lost :
    C11Ent.classify (C11Ent.OutFields.value
      { name := ['O'], target := ['t'], input := ['i'], params := ['a', ',', 'b'], delay := ['0'], times := ['1'], commaSep := true }) = 0 := by
  decide +kernel

/-! ## non-vacuity -/

example : pack [.i16, .pad 2, .str 4, .f32, .bool] [.int (-2), .bytes [1, 2, 3, 4], .f32 0x3f800000, .bool true]
    = .ok [0xfe, 0xff, 0, 0, 1, 2, 3, 4, 0, 0, 0x80, 0x3f, 1] := by decide +kernel
example : pack [.u16] [.int 65536] = .error .range := by decide +kernel
example : wireOf ['<', '4', 's', ' ', 'H', 'H', ' ', 'i', 'i']
    = some [.str 4, .u16, .u16, .i32, .i32] := by decide +kernel
example : C11Ent.entsOk [.kv ['c', 'l', 'a', 's', 's', 'n', 'a', 'm', 'e'] C11Ent.worldspawn, .kv ['k', '"'] ['v', '\n', '\\']]
    [[.out { name := ['O', 'n', 'A'], target := ['t'], input := ['I'], params := [], delay := ['0', '.', '5'], times := ['-', '1'], commaSep := false }]] := by
  refine ⟨?_, ?_⟩ <;> simp [C11Ent.Line.ok, C11Ent.lineOk, C11Ent.rlineOf, C11Ent.rawOk, C11Ent.nul] <;> decide
example : rleEncode [1, 0, 0, 0, 2] = [1, 0, 3, 2] := by decide +kernel
example : (rleEncode (List.replicate 300 0)) = [0, 255, 0, 45] := by decide +kernel
example : rleDecode [1, 0, 3, 2, 9, 9] 0 (some 40) = .ok [1, 0, 0, 0, 2] := by decide +kernel
example : rleDecode [5, 0] 0 none = .error .truncated := by decide +kernel
example : visWrite [[1, 0]] [[0, 0]] = .ok [1, 0, 0, 0, 12, 0, 0, 0, 15, 0, 0, 0, 1, 0, 1, 0, 2] := by decide +kernel
example : texWrite 128 [[97, 98], [98], [97, 98]] = .ok ([97, 98, 0], [0, 1, 0]) := by decide +kernel
example : (pairs.find? (fun p => p.record == "planes")).map (fun p => wireCat p.reader)
    = some (some [.f32, .f32, .f32, .f32, .i32]) := by decide +kernel
example : (propVersions.map (fun v => (segWire propWriterSegs).bind (fun w => (propRecord v w).map size)))
    = propVersions.map (fun v => some v.size) := by decide +kernel

end C11
