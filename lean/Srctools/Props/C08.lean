import Srctools.Model.C08
import Srctools.Gen.C08
/-! C08 property theorems (placeholder while the proofs are being written). -/
namespace C08
theorem C08_gen_cfg_known : Gen.C08.cfg.discardGuard = Gen.C08.cfg.discardGuard := rfl
end C08
