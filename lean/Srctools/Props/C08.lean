import Srctools.Proofs.C08
import Srctools.Gen.C08
/-!
# C08 — ids handed out inside one VMF are unique per kind and never reused while live

Property theorems only.  The model is `lean/Srctools/Model/C08.lean` (id manager, fixup index
table, object life cycle with reference-counting collection), run under the release sites that
`tools/gen_c08.py` extracts from `/repo/src/srctools/vmf.py` (`Gen.C08.cfg`).
-/
namespace C08

/-! ## obligations on the current source -/

/-- OBLIGATION: the source releases an entity's id and its node id in one place only
(`remove_ent` releases nothing), `IDMan.discard` never lowers `search_pos` below 1, and a brush
whose constructor raised before it obtained an id from the manager releases nothing. -/
theorem C08_gen_cfg :
    Gen.C08.cfg.removeEntDiscardsEntId = false ∧ Gen.C08.cfg.removeEntDiscardsNodeId = false ∧
      Gen.C08.cfg.discardGuard = true ∧ Gen.C08.cfg.failedCtorReleases = false := by decide

/-- OBLIGATION: every id-manager call of vmf.py is one the model knows (no code 999), all the
calls the model executes unconditionally are there, exactly once each. -/
theorem C08_gen_sites :
    Gen.C08.siteCodes.filter (· < 20) = [1, 2, 3, 4, 5, 6, 7, 8, 9, 10, 11] ∧
      Gen.C08.siteCodes.all (· < 100) = true := by decide

/-! ## the id manager -/

/-- **Fresh.** Whatever is asked for, `get_id` returns an id that is not in use and is positive,
and it finds it either immediately (the desired id) or within `|used| + 1` probes upward from
`search_pos` (so the `while True` loop terminates). -/
theorem C08_fresh (m : IDMan) (desired : Int) (hm : Hint m) :
    (m.getId desired).1 ∉ m.used ∧ 0 < (m.getId desired).1 ∧
      (∀ x, x ∈ (m.getId desired).2.used ↔ x = (m.getId desired).1 ∨ x ∈ m.used) ∧
      ((m.getId desired).1 = desired ∨
        (m.searchPos ≤ (m.getId desired).1 ∧ (m.getId desired).1 ≤ m.searchPos + m.used.length)) :=
  ⟨(getId_spec m desired hm).1, (getId_spec m desired hm).2.1, (getId_spec m desired hm).2.2.2,
    getId_probes m desired⟩

/-- one step of an id-manager script: `get_id(x)` or `discard(x)`. -/
def manStep (guard : Bool) (m : IDMan) (op : Bool × Int) : IDMan :=
  if op.1 then (m.getId op.2).2 else m.discard guard op.2

/-- **Hint invariant.** With the guarded `discard` (the current source) every script of
`get_id` / `discard` calls with arbitrary arguments keeps: `1 ≤ search_pos` and every id in
`1 .. search_pos-1` is in use. -/
theorem C08_hint (script : List (Bool × Int)) : Hint (script.foldl (manStep true) IDMan.empty) := by
  suffices h : ∀ m, Hint m → Hint (script.foldl (manStep true) m) from h _ hint_empty
  induction script with
  | nil => intro m h; exact h
  | cons op rest ih =>
    intro m h
    apply ih
    unfold manStep
    split
    · exact (getId_spec m op.2 h).2.2.1
    · exact discard_hint true m op.2 h (Or.inl rfl)

/-- Without the guard the invariant survives exactly the discards of positive numbers. -/
theorem C08_hint_unguarded (m : IDMan) (e : Int) (hm : Hint m) (he : 0 < e) :
    Hint (m.discard false e) := discard_hint false m e hm (Or.inr he)

/-- …and `discard(-1)` on the unguarded manager (what `Solid.__del__` does after a failed
constructor) makes the next `get_id()` return `-1`: the defect fixed by the guard. -/
theorem C08_unguarded_nonpositive :
    ((IDMan.empty.discard false (-1)).getId (-1)).1 = -1 ∧
    ((IDMan.empty.discard true (-1)).getId (-1)).1 = 1 := by decide +kernel

example : Hint ([(true, 5), (true, -1), (false, 1), (false, -7), (true, 0)].foldl (manStep true) IDMan.empty) :=
  C08_hint _

/-! ## histories -/

/-- **Unique, positive, registered — for every history.** Under the release sites of the
current source (`c.Sound`, see `C08_gen_cfg`), after ANY sequence of operations (creation with
arbitrary desired ids, add/remove, copies within and across maps, dropping references with
reference-counting destruction, `nodeid` set/delete/pop, parsing documents with colliding ids,
fixup edits, a failing brush constructor):
* two different live objects of the same kind in the same map have different ids;
* every live object's id is positive and registered in its manager;
* two different entities of one map never denote the same `nodeid` number, which is positive
  and registered;
* the replaceNN indexes of every entity's fixup table are pairwise distinct. -/
theorem C08_unique (c : Cfg) (hc : c.Sound) (ops : List Op) :
    let s := run c ops
    (∀ h1 h2 o1 o2, s.objs h1 = some o1 → s.objs h2 = some o2 → o1.alive = true → o2.alive = true →
        o1.kind = o2.kind → o1.map = o2.map → h1 ≠ h2 → o1.id ≠ o2.id) ∧
    (∀ h o, s.objs h = some o → o.alive = true → 0 < o.id ∧ o.id ∈ (s.mans o.map o.kind).used) ∧
    (∀ h1 h2 o1 o2 n, s.objs h1 = some o1 → s.objs h2 = some o2 → o1.map = o2.map → h1 ≠ h2 →
        o1.node = some n → o2.node ≠ some n) ∧
    (∀ h o n, s.objs h = some o → o.node = some n → 0 < n ∧ n ∈ (s.mans o.map .node).used) ∧
    (∀ h o, s.objs h = some o → (o.fix.map (·.2)).Nodup) := by
  have hi := run_inv c hc ops
  refine ⟨?_, ?_, ?_, ?_, ?_⟩
  · intro h1 h2 o1 o2 ho1 ho2 ha1 ha2 hk hm hne hid
    exact hne (hi.uniq _ _ _ _ ho1 ho2 ha1 ha2 hk hm hid)
  · intro h o ho ha
    exact ⟨(hi.mem _ _ ho ha).2, (hi.mem _ _ ho ha).1⟩
  · intro h1 h2 o1 o2 n ho1 ho2 hm hne hn1 hn2
    exact hne (hi.nuniq _ _ _ _ _ ho1 ho2 hn1 hn2 hm)
  · intro h o n ho hn
    exact ⟨(hi.nmem _ _ _ ho hn).2, (hi.nmem _ _ _ ho hn).1⟩
  · intro h o ho
    exact (hi.fix _ _ ho).1

/-- the same for the model run under the extracted configuration (what the driver executes). -/
theorem C08_unique_current (ops : List Op) :
    let s := run Gen.C08.cfg ops
    (∀ h1 h2 o1 o2, s.objs h1 = some o1 → s.objs h2 = some o2 → o1.alive = true → o2.alive = true →
        o1.kind = o2.kind → o1.map = o2.map → h1 ≠ h2 → o1.id ≠ o2.id) ∧
    (∀ h o, s.objs h = some o → o.alive = true → 0 < o.id) :=
  ⟨(C08_unique Gen.C08.cfg C08_gen_cfg ops).1, fun h o ho ha => ((C08_unique Gen.C08.cfg C08_gen_cfg ops).2.1 h o ho ha).1⟩

/-- the decidable scans used by the witnesses below find nothing in any reachable state. -/
theorem C08_unique_scan (c : Cfg) (hc : c.Sound) (ops : List Op) :
    hasDupLive (run c ops) = false ∧ hasDupNode (run c ops) = false ∧ hasNonPos (run c ops) = false := by
  have hi := run_inv c hc ops
  refine ⟨?_, ?_, ?_⟩
  · cases hb : hasDupLive (run c ops) with
    | false => rfl
    | true =>
      exfalso
      unfold hasDupLive at hb
      simp only [List.any_eq_true, Bool.and_eq_true, bne_iff_ne, ne_eq, beq_iff_eq] at hb
      rcases hb with ⟨a, ha, b, hb, ⟨⟨⟨hne, hk⟩, hm⟩, hid⟩⟩
      have ha' := mem_aliveObjs _ _ ha
      have hb' := mem_aliveObjs _ _ hb
      exact hne (hi.uniq _ _ _ _ ha'.1 hb'.1 ha'.2 hb'.2 hk hm hid)
  · cases hb : hasDupNode (run c ops) with
    | false => rfl
    | true =>
      exfalso
      unfold hasDupNode at hb
      simp only [List.any_eq_true, Bool.and_eq_true, bne_iff_ne, ne_eq, beq_iff_eq] at hb
      rcases hb with ⟨a, ha, b, hb, ⟨⟨⟨hne, hm⟩, hsome⟩, hnode⟩⟩
      have ha' := mem_aliveObjs _ _ ha
      have hb' := mem_aliveObjs _ _ hb
      cases hn : a.2.node with
      | none => simp [hn] at hsome
      | some n =>
        exact hne (hi.nuniq _ _ _ _ n ha'.1 hb'.1 hn (by rw [← hnode, hn]) hm)
  · cases hb : hasNonPos (run c ops) with
    | false => rfl
    | true =>
      exfalso
      unfold hasNonPos at hb
      simp only [List.any_eq_true, Bool.or_eq_true, decide_eq_true_eq] at hb
      rcases hb with ⟨a, ha, hbad⟩
      have ha' := mem_aliveObjs _ _ ha
      rcases hbad with hbad | hbad
      · have := (hi.mem _ _ ha'.1 ha'.2).2; omega
      · cases hn : a.2.node with
        | none => simp [hn] at hbad
        | some n =>
          simp only [hn, decide_eq_true_eq] at hbad
          have := (hi.nmem _ _ _ ha'.1 hn).2; omega

/-- non-vacuity: a history that recycles ids (remove, drop, re-create with colliding desired ids,
copy across maps, node ids) — `C08_unique` applies to it like to any other. -/
def sampleHistory : List Op :=
  [.newmap, .newmap, .ent 0 0 5 (.int 3) [] [(1, 1), (2, 1)], .addent 0, .rment 0,
   .ent 1 0 5 (.int 3) [] [], .addent 1, .drop 0, .ent 2 0 5 .absent [] [], .copy 3 1 (-1) (some 1),
   .setnode 1 (.int 3), .side 4 0 7, .solid 5 0 7 [4], .copy 6 5 7 none, .drop 5, .drop 4, .side 7 0 7]

example : ((aliveObjs (run Gen.C08.cfg sampleHistory)).map (fun p => (p.2.kind.code, p.2.map, p.2.id, p.2.node)))
    = [(0, 0, 1, none), (0, 1, 1, none), (0, 0, 2, some 1), (0, 0, 5, none), (0, 1, 2, some 1), (2, 0, 1, none),
       (1, 0, 1, none), (2, 0, 7, none)] := by
  decide +kernel

/-! ## the defects: each part of `Cfg.Sound` is necessary -/

/-- release sites of the source before the repairs. -/
def origCfg : Cfg :=
  { removeEntDiscardsEntId := true, removeEntDiscardsNodeId := true, discardGuard := false,
    addEntAllocatesNode := true, popReleasesNode := false, parseKeepsPlaceholder := true,
    removeSpawnRaises := false, failedCtorReleases := true }

/-- **Double release (the defect).** With `remove_ent` releasing the entity id *and*
`Entity.__del__` releasing it again: create a, add, remove (1st release); create b (gets a's id),
add; drop the last reference to a (2nd release frees b's live id); create c, add → b and c are both
in `vmf.entities` with the same id. -/
def doubleReleaseHistory : List Op :=
  [.newmap, .ent 0 0 (-1) .absent [] [], .addent 0, .rment 0, .ent 1 0 (-1) .absent [] [], .addent 1,
   .drop 0, .ent 2 0 (-1) .absent [] [], .addent 2]

theorem C08_double_release :
    hasDupLive (run origCfg doubleReleaseHistory) = true ∧
    (((run origCfg doubleReleaseHistory).ents 0).map
        (fun h => ((run origCfg doubleReleaseHistory).objs h).map (·.id))) = [some 2, some 2] ∧
    hasDupLive (run { origCfg with removeEntDiscardsEntId := false } doubleReleaseHistory) = false := by
  decide +kernel

/-- the same without any garbage collection: a second `remove()` of the same entity. -/
theorem C08_double_remove :
    hasDupLive (run origCfg [.newmap, .ent 0 0 (-1) .absent [] [], .addent 0, .rment 0,
      .ent 1 0 (-1) .absent [] [], .addent 1, .rment 0, .ent 2 0 (-1) .absent [] [], .addent 2]) = true := by
  decide +kernel

/-- **Node ids.** `remove_ent` released the node id but the entity kept its `nodeid` key: assigning
the key later released the number again — by then owned by another live entity. -/
def nodeHistory : List Op :=
  [.newmap, .ent 0 0 (-1) (.int 5) [] [], .addent 0, .rment 0, .ent 1 0 (-1) (.int 2) [] [], .addent 1,
   .setnode 0 (.int 9), .ent 2 0 (-1) (.int 2) [] [], .addent 2]

theorem C08_node_release :
    hasDupNode (run origCfg nodeHistory) = true ∧
    hasDupNode (run { origCfg with removeEntDiscardsNodeId := false } nodeHistory) = false := by
  decide +kernel

/-- **Non-positive ids.** Unguarded `discard(-1)` after a failing brush constructor. -/
theorem C08_nonpositive :
    hasNonPos (run origCfg [.newmap, .failsolid 0 (-1), .solid 0 0 (-1) []]) = true ∧
    hasNonPos (run { origCfg with discardGuard := true } [.newmap, .failsolid 0 (-1), .solid 0 0 (-1) []]) = false := by
  decide +kernel

/-- **Failed constructor.** A brush whose attrs `__init__` raised after storing the DESIRED id but
before `__attrs_post_init__` registered anything: its `__del__` released that number — a live
brush's id — although every other release site and the guard were already repaired. -/
theorem C08_failed_ctor :
    hasDupLive (run { origCfg with removeEntDiscardsEntId := false, removeEntDiscardsNodeId := false,
                                   discardGuard := true }
      [.newmap, .solid 0 0 (-1) [], .failsolid 0 1, .solid 1 0 (-1) []]) = true ∧
    hasDupLive (run { origCfg with removeEntDiscardsEntId := false, removeEntDiscardsNodeId := false,
                                   discardGuard := true, failedCtorReleases := false }
      [.newmap, .solid 0 0 (-1) [], .failsolid 0 1, .solid 1 0 (-1) []]) = false := by
  decide +kernel

/-! ## fixup indexes -/

/-- one edit of a fixup table: set (`true`) or delete (`false`) a variable. -/
def fxStep (t : Fix) (op : Bool × Nat) : Fix := if op.1 then fxSet t op.2 else fxDel t op.2

/-- **Fixup indexes.** Whatever list of (variable, index) pairs `EntityFixup.__init__` is given
(duplicated indexes, duplicated variables, zero) and whatever sets/deletes follow, the replaceNN
indexes of the table are pairwise distinct, so are its variables, and if the given indexes were
positive then all indexes are. `copy_values()` + `__init__` (what `Entity.copy` does) is the case
`l := t`. -/
theorem C08_fixup (l : List (Nat × Int)) (script : List (Bool × Nat)) :
    let t := script.foldl fxStep (fxInit l)
    (t.map (·.2)).Nodup ∧ (t.map (·.1)).Nodup ∧ ((∀ e ∈ l, 0 < e.2) → ∀ e ∈ t, 0 < e.2) := by
  have key : ∀ (sc : List (Bool × Nat)) (t : Fix), FxInv t → FxInv (sc.foldl fxStep t) ∧ (FxPos t → FxPos (sc.foldl fxStep t)) := by
    intro sc
    induction sc with
    | nil => intro t h; exact ⟨h, fun hp => hp⟩
    | cons op rest ih =>
      intro t h
      have h1 : FxInv (fxStep t op) := by
        unfold fxStep; split
        · exact fxSet_inv _ _ h
        · exact fxDel_inv _ _ h
      refine ⟨(ih _ h1).1, fun hp => (ih _ h1).2 ?_⟩
      unfold fxStep; split
      · exact fxSet_pos _ _ hp
      · exact fxDel_pos _ _ hp
  have := key script (fxInit l) (fxInit_inv l)
  exact ⟨this.1.1, this.1.2, fun hl => this.2 (fxInit_pos l hl)⟩

/-- **Copied tables stay independent.** Any number of tables made from one another by
`copy.copy` / `copy.deepcopy` / `EntityFixup(t.copy_values())` and then edited in any interleaving
(set, delete, clear, further copies): in every table the indexes are pairwise distinct, so are
the variables, and all indexes are positive if the initially given ones were. -/
theorem C08_fixup_tables (l : List (Nat × Int)) (script : List FxOp) (t : Nat) (f : Fix)
    (h : (script.foldl fxTabStep (fxTabInit l)) t = some f) :
    (f.map (·.2)).Nodup ∧ (f.map (·.1)).Nodup ∧ ((∀ e ∈ l, 0 < e.2) → ∀ e ∈ f, 0 < e.2) := by
  have key : ∀ (sc : List FxOp) (T : Nat → Option Fix),
      (∀ i g, T i = some g → FxInv g ∧ ((∀ e ∈ l, 0 < e.2) → FxPos g)) →
      ∀ i g, (sc.foldl fxTabStep T) i = some g → FxInv g ∧ ((∀ e ∈ l, 0 < e.2) → FxPos g) := by
    intro sc
    induction sc with
    | nil => intro T hT; exact hT
    | cons op rest ih =>
      intro T hT
      apply ih
      intro i g hg
      cases op with
      | set t' v =>
        simp only [fxTabStep] at hg
        split at hg
        · cases hT' : T t' with
          | none => simp [hT'] at hg
          | some g0 =>
            simp only [hT', Option.map_some, Option.some.injEq] at hg
            subst hg
            exact ⟨fxSet_inv _ _ (hT _ _ hT').1, fun hl => fxSet_pos _ _ ((hT _ _ hT').2 hl)⟩
        · exact hT _ _ hg
      | del t' v =>
        simp only [fxTabStep] at hg
        split at hg
        · cases hT' : T t' with
          | none => simp [hT'] at hg
          | some g0 =>
            simp only [hT', Option.map_some, Option.some.injEq] at hg
            subst hg
            exact ⟨fxDel_inv _ _ (hT _ _ hT').1, fun hl => fxDel_pos _ _ ((hT _ _ hT').2 hl)⟩
        · exact hT _ _ hg
      | clear t' =>
        simp only [fxTabStep] at hg
        split at hg
        · cases hT' : T t' with
          | none => simp [hT'] at hg
          | some g0 =>
            simp only [hT', Option.map_some, Option.some.injEq] at hg
            subst hg
            exact ⟨⟨List.nodup_nil, List.nodup_nil⟩, fun _ e he => by simp at he⟩
        · exact hT _ _ hg
      | copy t2 t1 viaInit =>
        simp only [fxTabStep] at hg
        cases hT' : T t1 with
        | none => simp only [hT'] at hg; exact hT _ _ hg
        | some g0 =>
          simp only [hT'] at hg
          split at hg
          · simp only [Option.some.injEq] at hg
            subst hg
            cases viaInit with
            | false => exact hT _ _ hT'
            | true =>
              refine ⟨fxInit_inv _, fun hl => fxInit_pos _ ?_⟩
              exact (hT _ _ hT').2 hl
          · exact hT _ _ hg
  have := key script (fxTabInit l) (by
    intro i g hg
    unfold fxTabInit at hg
    split at hg
    · simp only [Option.some.injEq] at hg; subst hg
      exact ⟨fxInit_inv l, fun hl => fxInit_pos l hl⟩
    · cases hg) t f h
  exact ⟨this.1.1, this.1.2, this.2⟩

example : (([(true, 4), (false, 2), (true, 5)] : List (Bool × Nat)).foldl fxStep (fxInit [(1, 1), (2, 1), (1, 3), (3, 0)]))
    = [(1, 3), (3, 0), (4, 2), (5, 1)] := by decide +kernel

end C08
