import Srctools.Proofs.C04InvOk
import Srctools.Gen.Rot
/-!
# C04 — Angles, matrices and vectors obey the rotation algebra

Property theorems only.  The model is `Model/C04.lean`; it is generic in the number type, and the
theorems hold over an **arbitrary commutative ring** `R` (a field `K` where `_to_angle` /
`inverse` divide, an ordered field where they compare).  An Euler angle is three points of the
unit circle (`Ang.OnCircle`); nothing else about `sin`/`cos` is used.

`C04_gen_*` are the OBLIGATIONS on the current source: the formulas re-extracted from
`/repo/src/srctools/math.py` by `tools/gen_rot.py` (Gen/Rot.lean) equal the model's.
-/
set_option linter.unusedTactic false
set_option linter.unreachableTactic false
set_option linter.unusedSimpArgs false
set_option linter.unusedSectionVars false

namespace C04

section Gen
variable {R : Type} [CommRing R]

/-- OBLIGATION: `MatrixBase.from_angle` computes the model's `fromAngle`. -/
theorem C04_gen_fromAngle (a : Ang R) : Gen.Rot.fromAngle a = fromAngle a := by
  apply Mat.ext' <;> simp only [Gen.Rot.fromAngle, fromAngle] <;> ring

/-- OBLIGATION: `from_roll`, `from_pitch`, `from_yaw` are the model's axis rotations. -/
theorem C04_gen_axes (a : Ang R) :
    Gen.Rot.rx a = Rx a ∧ Gen.Rot.ry a = Ry a ∧ Gen.Rot.rz a = Rz a := by
  refine ⟨?_, ?_, ?_⟩ <;> apply Mat.ext' <;>
    simp only [Gen.Rot.rx, Gen.Rot.ry, Gen.Rot.rz, Rx, Ry, Rz] <;> ring

/-- OBLIGATION: `MatrixBase._mat_mul(other)` with `other` a different object is `matMul`. -/
theorem C04_gen_matMul (m o : Mat R) : Gen.Rot.matMul m o = matMul m o := by
  apply Mat.ext' <;> simp only [Gen.Rot.matMul, matMul] <;> ring

/-- OBLIGATION: `MatrixBase._mat_mul(self)` (`m @= m`, the in-place method reading its own
slots while writing them) still is the product `m · m`. -/
theorem C04_gen_matMul_aliased (m : Mat R) : Gen.Rot.matMulAliased m = matMul m m := by
  apply Mat.ext' <;> simp only [Gen.Rot.matMulAliased, matMul] <;> ring

/-- OBLIGATION: `MatrixBase._vec_rot`. -/
theorem C04_gen_vecRot (v : V3 R) (m : Mat R) : Gen.Rot.vecRot v m = vecRot v m := by
  apply V3.ext' <;> simp only [Gen.Rot.vecRot, vecRot] <;> ring

/-- OBLIGATION: `MatrixBase.transpose`. -/
theorem C04_gen_transpose (m : Mat R) : Gen.Rot.transpose m = transpose m := by
  apply Mat.ext' <;> simp only [Gen.Rot.transpose, transpose] <;> ring

/-- OBLIGATION: `horiz_dist` is the square root of `aa² + ab²`. -/
theorem C04_gen_horiz (m : Mat R) : Gen.Rot.horizSq m = m.aa * m.aa + m.ab * m.ab := by
  simp only [Gen.Rot.horizSq] <;> ring

/-- OBLIGATION: the `atan2` arguments of both branches of `_to_angle` (yaw from the forward
axis, or from the left axis under gimbal lock; roll 0 there) are the model's. -/
theorem C04_gen_toAngle {K : Type} [Field K] [LinearOrder K] (thr : K) (m : Mat K) (r : Radii K) :
    toAngleOfArgs thr (Gen.Rot.atanArgs m r.h) r = toAngleB thr m r := rfl

/-- OBLIGATION: the literals of `_to_angle` (`0.001`) and `inverse` (`0.00001`), as doubles. -/
theorem C04_gen_literals :
    Gen.Rot.thr = mkRat 1152921504606847 1152921504606846976 ∧
    Gen.Rot.eps = mkRat 5902958103587057 590295810358705651712 := by
  decide +kernel

/-- OBLIGATION: `MatrixBase.__matmul__` / `__rmatmul__` multiply into a new object (never into
`FrozenMatrix.copy()`, which is the frozen operand itself). -/
theorem C04_gen_fresh : Gen.Rot.fmatProductFresh = true := by decide

end Gen

section Algebra
variable {R : Type} [CommRing R]

/-- **Orthonormal rows**: a matrix built from an Euler angle times its transpose is the identity. -/
theorem C04_orthonormal (a : Ang R) (h : a.OnCircle) :
    matMul (fromAngle a) (transpose (fromAngle a)) = Mat.one := by
  obtain ⟨hp, hy, hr⟩ := h
  simp only [matMul, fromAngle, transpose, Mat.one, Mat.mk.injEq]
  refine ⟨?_, ?_, ?_, ?_, ?_, ?_, ?_, ?_, ?_⟩ <;> grind

/-- **Determinant +1.** -/
theorem C04_det (a : Ang R) (h : a.OnCircle) : det (fromAngle a) = 1 := by
  obtain ⟨hp, hy, hr⟩ := h
  simp only [det, fromAngle]
  grind

/-- Every matrix built from an Euler angle is a proper rotation. -/
theorem C04_rotation (a : Ang R) (h : a.OnCircle) : IsRotation (fromAngle a) :=
  ⟨C04_orthonormal a h, C04_det a h⟩

/-- **Source convention**: roll about X, then pitch about Y, then yaw about Z, in the
row-vector convention of `v @ M` (the leftmost factor is applied first).  Pure polynomial
identity: holds without the unit-circle conditions. -/
theorem C04_convention (a : Ang R) : fromAngle a = matMul (matMul (Rx a) (Ry a)) (Rz a) := by
  simp only [fromAngle, matMul, Rx, Ry, Rz, Mat.mk.injEq]
  refine ⟨?_, ?_, ?_, ?_, ?_, ?_, ?_, ?_, ?_⟩ <;> ring

/-- The axis rotations are themselves proper rotations. -/
theorem C04_axes_rotation (a : Ang R) (h : a.OnCircle) :
    IsRotation (Rx a) ∧ IsRotation (Ry a) ∧ IsRotation (Rz a) := by
  obtain ⟨hp, hy, hr⟩ := h
  simp only [IsRotation, matMul, transpose, det, Rx, Ry, Rz, Mat.one, Mat.mk.injEq]
  refine ⟨⟨⟨?_, ?_, ?_, ?_, ?_, ?_, ?_, ?_, ?_⟩, ?_⟩, ⟨⟨?_, ?_, ?_, ?_, ?_, ?_, ?_, ?_, ?_⟩, ?_⟩,
    ⟨⟨?_, ?_, ?_, ?_, ?_, ?_, ?_, ?_, ?_⟩, ?_⟩⟩ <;> grind

/-- **Rotating composes associatively**: `(v @ A) @ B = v @ (A @ B)`. -/
theorem C04_assoc (v : V3 R) (A B : Mat R) : vecRot (vecRot v A) B = vecRot v (matMul A B) :=
  vecRot_matMul v A B

/-- `(A @ B) @ C = A @ (B @ C)`. -/
theorem C04_matmul_assoc (A B C : Mat R) : matMul (matMul A B) C = matMul A (matMul B C) :=
  matMul_assoc A B C

/-- Products of rotations are rotations (so every `Matrix` reachable from angles by `@` is one). -/
theorem C04_rotation_mul (A B : Mat R) (hA : IsRotation A) (hB : IsRotation B) :
    IsRotation (matMul A B) := by
  refine ⟨?_, ?_⟩
  · rw [transpose_matMul, matMul_assoc, ← matMul_assoc B, hB.1, one_matMul, hA.1]
  · have : det (matMul A B) = det A * det B := by simp only [det, matMul]; ring
    rw [this, hA.2, hB.2, mul_one]

/-- Rotating by the transpose undoes a rotation: `(v @ M) @ Mᵀ = v`. -/
theorem C04_transpose_undoes (v : V3 R) (M : Mat R) (h : IsRotation M) :
    vecRot (vecRot v M) (transpose M) = v := by
  rw [vecRot_matMul, h.1]
  cases v; simp only [vecRot, Mat.one, V3.mk.injEq]
  refine ⟨?_, ?_, ?_⟩ <;> ring

end Algebra

/-! ## `_to_angle` and `inverse` -/
section ToAngle
variable {K : Type} [Field K] [LinearOrder K] [IsStrictOrderedRing K]

/-- **`to_angle` then `from_angle` reproduces a rotation matrix exactly** whenever the general
(non gimbal-lock) branch of `_to_angle` is taken.  `r` holds the square roots the code computes
(`horiz_dist` and the radii of the `atan2` calls), characterised by their squares and signs;
`thr` is the literal `0.001`. -/
theorem C04_to_from (thr : K) (M : Mat K) (hM : IsRotation M) (r : Radii K)
    (hh : r.h * r.h = M.aa * M.aa + M.ab * M.ab)
    (hp : r.rp * r.rp = M.ac * M.ac + r.h * r.h)
    (hr : r.rr * r.rr = M.bc * M.bc + M.cc * M.cc)
    (hp0 : 0 ≤ r.rp) (hr0 : 0 ≤ r.rr) (hthr0 : 0 ≤ thr) (hthr : thr < r.h) :
    fromAngle (toAngle thr M r) = M := by
  have f := hM.facts
  have h0 : 0 < r.h := lt_of_le_of_lt hthr0 hthr
  have hrp : r.rp = 1 := by
    have : r.rp * r.rp = 1 := by rw [hp, hh]; linear_combination f.r11
    nlinarith
  have hrr : r.rr = r.h := by
    have : r.rr * r.rr = r.h * r.h := by rw [hr, hh]; linear_combination f.c33 - f.r11
    nlinarith
  have hne : r.h ≠ 0 := ne_of_gt h0
  simp only [toAngle, toAngleB, hthr, if_true, atan2n, hrp, hrr, hne, if_false, one_ne_zero, div_one]
  exact fromAngle_toAngle_general M hM r.h hh hne

/-- The angle `_to_angle` produces for a rotation matrix is a genuine angle (three points of
the unit circle), in both branches. -/
theorem C04_toAngle_onCircle (thr : K) (M : Mat K) (hM : IsRotation M) (r : Radii K)
    (hh : r.h * r.h = M.aa * M.aa + M.ab * M.ab)
    (hp : r.rp * r.rp = M.ac * M.ac + r.h * r.h)
    (hr : r.rr * r.rr = M.bc * M.bc + M.cc * M.cc)
    (hg : r.rg * r.rg = M.ba * M.ba + M.bb * M.bb)
    (hthr0 : 0 ≤ thr) (hg0 : r.h ≤ thr → r.rg ≠ 0) :
    (toAngle thr M r).OnCircle := by
  have f := hM.facts
  have hrp : r.rp * r.rp = 1 := by rw [hp, hh]; linear_combination f.r11
  have hrp0 : r.rp ≠ 0 := by intro h; rw [h] at hrp; simp at hrp
  have hrr : r.rr * r.rr = r.h * r.h := by rw [hr, hh]; linear_combination f.c33 - f.r11
  by_cases hb : thr < r.h
  · have h0 : r.h ≠ 0 := ne_of_gt (lt_of_le_of_lt hthr0 hb)
    have hr0 : r.rr ≠ 0 := by intro h; rw [h] at hrr; simp at hrr; exact h0 hrr
    simp only [toAngle, toAngleB, hb, if_true, atan2n, h0, hr0, hrp0, if_false, Ang.OnCircle]
    refine ⟨?_, ?_, ?_⟩ <;> field_simp <;> grind
  · have hg' := hg0 (not_lt.mp hb)
    simp only [toAngle, toAngleB, hb, if_false, atan2n, hg', hrp0, Ang.OnCircle]
    refine ⟨?_, ?_, ?_⟩ <;> field_simp <;> grind

/-- `Angle @ Angle` and `Angle @ Matrix`: the Euler angle produced for the product represents
exactly the product rotation (off the gimbal branch). -/
theorem C04_angle_product (thr : K) (a : Ang K) (ha : a.OnCircle) (B : Mat K) (hB : IsRotation B)
    (r : Radii K)
    (hh : r.h * r.h = (matMul (fromAngle a) B).aa * (matMul (fromAngle a) B).aa
        + (matMul (fromAngle a) B).ab * (matMul (fromAngle a) B).ab)
    (hp : r.rp * r.rp = (matMul (fromAngle a) B).ac * (matMul (fromAngle a) B).ac + r.h * r.h)
    (hr : r.rr * r.rr = (matMul (fromAngle a) B).bc * (matMul (fromAngle a) B).bc
        + (matMul (fromAngle a) B).cc * (matMul (fromAngle a) B).cc)
    (hp0 : 0 ≤ r.rp) (hr0 : 0 ≤ r.rr) (hthr0 : 0 ≤ thr) (hthr : thr < r.h) :
    fromAngle (toAngle thr (matMul (fromAngle a) B) r) = matMul (fromAngle a) B :=
  C04_to_from thr _ (C04_rotation_mul _ _ (C04_rotation a ha) hB) r hh hp hr hp0 hr0 hthr0 hthr

/-- **Gimbal lock**: when the horizontal length `h` of the forward axis is not above the
threshold (any threshold below 1; the code's is 0.001), `_to_angle` takes yaw from the left axis
and sets roll to 0; converting back gives a matrix every entry of which is within `2·h` of the
original. -/
theorem C04_gimbal (thr : K) (M : Mat K) (hM : IsRotation M) (r : Radii K)
    (hh : r.h * r.h = M.aa * M.aa + M.ab * M.ab)
    (hp : r.rp * r.rp = M.ac * M.ac + r.h * r.h)
    (hg : r.rg * r.rg = M.ba * M.ba + M.bb * M.bb)
    (h0 : 0 ≤ r.h) (hp0 : 0 ≤ r.rp) (hg0 : 0 ≤ r.rg)
    (hb : ¬ thr < r.h) (hthr1 : thr < 1) :
    (fromAngle (toAngle thr M r)).Within M (2 * r.h) :=
  gimbal_bound thr M hM r hh hp hg h0 hp0 hg0 hb hthr1

/-- **`inverse()` returns a left inverse** whenever it does not raise (`eps` is the literal
`0.00001`; any non-negative value works). -/
theorem C04_inverse (eps : K) (he : 0 ≤ eps) (M N : Mat K)
    (h : gaussJordanInverse eps M = some N) : matMul N M = Mat.one :=
  gaussJordanInverse_mul he h

/-- **`inverse()` equals `transpose()` on rotations.** -/
theorem C04_inverse_rotation (eps : K) (he : 0 ≤ eps) (M N : Mat K) (hM : IsRotation M)
    (h : gaussJordanInverse eps M = some N) : N = transpose M := by
  have h1 := gaussJordanInverse_mul he h
  calc N = matMul N Mat.one := (matMul_one N).symm
    _ = matMul N (matMul M (transpose M)) := by rw [hM.1]
    _ = matMul (matMul N M) (transpose M) := (matMul_assoc _ _ _).symm
    _ = transpose M := by rw [h1, one_matMul]

/-- **`inverse()` never raises on a rotation and returns its transpose** (for every threshold
`0 ≤ eps < 1/8`; the code's is `0.00001`, see `C04_gen_eps_small`): partial pivoting keeps the
multipliers ≤ 1, so the rows stay bounded by 1, 2, 4 while `|det| = 1`, which forces every
diagonal entry to be at least 1/8 in absolute value. -/
theorem C04_inverse_succeeds (eps : K) (he0 : 0 ≤ eps) (he : eps < 1 / 8) (M : Mat K)
    (hM : IsRotation M) : gaussJordanInverse eps M = some (transpose M) := by
  obtain ⟨s, hs⟩ := gaussJordan_ok hM he0 he
  have h : gaussJordanInverse eps M = some (matOfRows s.r) := by
    simp only [gaussJordanInverse, hs, Option.map_some]
  rw [h, C04_inverse_rotation eps he0 M _ hM h]

end ToAngle

/-- OBLIGATION: the literal of the diagonal test of `inverse()` is in the range for which
`C04_inverse_succeeds` holds. -/
theorem C04_gen_eps_small : 0 ≤ Gen.Rot.eps ∧ Gen.Rot.eps < 1 / 8 := by decide +kernel

/-! ## Operand dispatch (7 × 7 × 3 table) -/

def Tag.mutable : Tag → Bool
  | .vec | .ang | .mat => true
  | _ => false
def Tag.isRot (t : Tag) : Bool := t.isAng || t.isMat
/-- The type of `l @ r`: the left operand's, a plain tuple counting as `Vec`. -/
def Tag.resultOf : Tag → Tag
  | .tup => .vec
  | t => t
def convOf (t : Tag) : Conv :=
  if t.isAng then .fromAngle else if t = .tup then .vecOfTuple else .asIs

/-- The property's own words: the right operand must be a rotation (Angle or Matrix); Angle
operands are converted with `from_angle`; a vector on the left is rotated (`_vec_rot`), an angle
or matrix on the left is multiplied (`_mat_mul`) and an angle result converted back; the result
has the left operand's type; the left operand is updated in place exactly for `@=` on a mutable
class. -/
def specEntry (l r : Tag) (f : Form) : Option Entry :=
  if r.isRot then
    some { f := { kind := if l.isRot then .matMul else .vecRot, lconv := convOf l,
                  rconv := convOf r, toAng := l.isAng },
           res := l.resultOf, inPlace := f = .iop && l.mutable }
  else none

/-- **Dispatch table, `@` and `@=`** (code in which a `FrozenMatrix` product goes to a fresh
object): all 7 × 7 × 2 entries are what the property says. -/
theorem C04_dispatch (l r : Tag) (f : Form) (hf : f ≠ .refl) :
    dispatch true l r f = specEntry l r f := by
  cases f
  · cases l <;> cases r <;> rfl
  · cases l <;> cases r <;> rfl
  · exact absurd rfl hf

/-- The same for the flag extracted from the current source. -/
theorem C04_dispatch_gen (l r : Tag) (f : Form) (hf : f ≠ .refl) :
    dispatch Gen.Rot.fmatProductFresh l r f = specEntry l r f := by
  rw [C04_gen_fresh]; exact C04_dispatch l r f hf

/-- **Dispatch table, direct `__rmatmul__` calls**: as `@`, except that `AngleBase.__rmatmul__`
does not accept a matrix on the left (that case is `MatrixBase.__matmul__`'s), and for two angles
it produces the *right* operand's class (the code comments "should always be done by
`__matmul__`": the operator never reaches it, see `C04_reflected_unreachable`). -/
theorem C04_dispatch_reflected (l r : Tag) :
    dispatch true l r .refl =
      if l.isMat && r.isAng then none
      else if l.isAng && r.isAng then (specEntry l r .op).map fun e => { e with res := r }
      else specEntry l r .op := by
  cases l <;> cases r <;> rfl

/-- `l @ r` is resolved by the left operand's `__matmul__` whenever that class has the method and
accepts the operand; the reflected method only ever serves a plain tuple on the left. -/
theorem C04_reflected_unreachable (fresh : Bool) (l r : Tag) :
    (l ≠ .tup → r.isRot → dispatch fresh l r .op = matmul fresh l r) ∧
    (l = .tup → dispatch fresh l r .op = rmatmul fresh r l) := by
  cases fresh <;> cases l <;> cases r <;> decide

/-- Result type, in-place-ness and acceptance, spelled out. -/
theorem C04_dispatch_result (l r : Tag) (f : Form) (hf : f ≠ .refl) :
    (dispatch true l r f).isSome = r.isRot ∧
    ∀ e, dispatch true l r f = some e →
      e.res = l.resultOf ∧ (e.inPlace = true ↔ f = .iop ∧ l.mutable = true) ∧
      (e.f.lconv = .fromAngle ↔ l.isAng = true) ∧ (e.f.rconv = .fromAngle ↔ r.isAng = true) := by
  rw [C04_dispatch l r f hf]
  cases f <;> cases l <;> cases r <;> simp [specEntry, Tag.isRot, Tag.isAng, Tag.isMat,
    Tag.resultOf, Tag.mutable, convOf] at hf ⊢

/-- Whatever `FrozenMatrix.copy()` does, every entry whose left operand is not a `FrozenMatrix`
is as specified (the `_partial` form for the code in which `copy()` returns `self`). -/
theorem C04_dispatch_partial (fresh : Bool) (l r : Tag) (f : Form) (hl : l ≠ .fmat) :
    dispatch fresh l r f = dispatch true l r f := by
  cases fresh <;> cases l <;> cases r <;> cases f <;> first | rfl | exact absurd rfl hl

/-- With `FrozenMatrix.copy()` returning `self` (the code as found) the product is written into
the frozen left operand itself: the full statement is false there. -/
theorem C04_frozen_matrix_mutated_as_found :
    (dispatch false .fmat .mat .op).map (·.inPlace) = some true ∧
    (dispatch false .fmat .ang .op).map (·.inPlace) = some true ∧
    (dispatch false .fmat .mat .iop).map (·.inPlace) = some true ∧
    dispatch false .fmat .mat .op ≠ specEntry .fmat .mat .op := by
  decide

section DispatchValue
variable {K : Type} [Field K] [LinearOrder K]

/-- **`Vec @ Angle` = `Vec @ Matrix.from_angle(Angle)`** for every vector-like left operand,
every angle class and every operator form. -/
theorem C04_vec_angle (thr : K) (fresh : Bool) (l r : Tag) (f : Form) (hl : l.isRot = false)
    (hr : r.isAng = true) (v : V3 K) (a : Ang K) (rad : Radii K) :
    ∃ e m, dispatch fresh l r f = some e ∧ (r = .ang ∧ m = Tag.mat ∨ r = .fang ∧ m = Tag.fmat) ∧
      ∃ e', dispatch fresh l m f = some e' ∧ e'.res = e.res ∧ e'.inPlace = e.inPlace ∧
      evalFormula thr e.f (.v v) (.a a) rad = some (.v (vecRot v (fromAngle a))) ∧
      evalFormula thr e'.f (.v v) (.m (fromAngle a)) rad = some (.v (vecRot v (fromAngle a))) := by
  cases fresh <;> cases l <;> cases r <;> cases f <;> simp [Tag.isRot, Tag.isAng, Tag.isMat] at hl hr <;>
    simp [dispatch, binop, matmul, rmatmul, imatmul, Tag.isAng, Tag.isMat, evalFormula, convVec, convMat]

/-- Matrix and angle left operands: the value is the matrix product of the operands, angle
operands converted with `from_angle` (and the product converted back for an angle result). -/
theorem C04_dispatch_value (thr : K) (l r : Tag) (f : Form) (e : Entry)
    (he : dispatch true l r f = some e) (hl : l.isRot = true)
    (lv rv : Val K) (A B : Mat K) (hA : convMat (convOf l) lv = some A)
    (hB : convMat (convOf r) rv = some B) (rad : Radii K) :
    evalFormula thr e.f lv rv rad =
      some (if l.isAng then .a (toAngle thr (matMul A B) rad) else .m (matMul A B)) := by
  cases l <;> cases r <;> cases f <;> simp [Tag.isRot, Tag.isAng, Tag.isMat] at hl <;>
    simp [dispatch, binop, matmul, rmatmul, imatmul, Tag.isAng, Tag.isMat] at he <;>
    subst he <;> simp_all [evalFormula, convOf, Tag.isAng, Tag.isMat]

/-- **Value semantics.** In a history over a pool of live objects, the object produced by a step
is a function of the two operands' classes and *current values* only — whatever happened to
those objects before (earlier rotations by or of them, other pool members) cannot matter.
(For the code this is what the history correspondence establishes: a hidden cache on an object
would make the implementation depend on more than the value.) -/
theorem C04_value_semantics (thr : K) (fresh : Bool) (rad : Radii K) (P Q : List (Obj K)) (st : Step)
    (hl : P[st.l]? = Q[st.l]?) (hr : P[st.r]? = Q[st.r]?) :
    (stepPool thr fresh rad P st).map (·.2) = (stepPool thr fresh rad Q st).map (·.2) := by
  unfold stepPool
  rw [hl, hr]
  cases Q[st.l]? <;> cases Q[st.r]? <;> try rfl
  rename_i lo ro
  cases hs : stepResult thr fresh rad lo ro st.form <;> simp [hs]

/-- **Frame.** A step changes at most the left operand's slot, and only when the operation is an
in-place one; every other live object keeps its value. -/
theorem C04_step_frame (thr : K) (fresh : Bool) (rad : Radii K) (P P' : List (Obj K)) (st : Step)
    (res : Obj K) (h : stepPool thr fresh rad P st = some (P', res)) :
    (∀ k, k ≠ st.l → P'[k]? = P[k]?) ∧
    (∀ lo ro e, P[st.l]? = some lo → P[st.r]? = some ro →
      dispatch fresh lo.tag ro.tag st.form = some e → e.inPlace = false → P' = P) := by
  unfold stepPool at h
  cases hlo : P[st.l]? with
  | none => simp [hlo] at h
  | some lo =>
    cases hro : P[st.r]? with
    | none => simp [hlo, hro] at h
    | some ro =>
      simp only [hlo, hro] at h
      cases hs : stepResult thr fresh rad lo ro st.form with
      | none => simp [hs] at h
      | some er =>
        obtain ⟨e, r⟩ := er
        simp only [hs, Option.some.injEq, Prod.mk.injEq] at h
        obtain ⟨h1, h2⟩ := h
        refine ⟨?_, ?_⟩
        · intro k hk
          rw [← h1]
          split_ifs
          · rw [List.getElem?_set_ne (Ne.symm hk)]
          · rfl
        · intro lo' ro' e' e1 e2 hd hip
          simp only [Option.some.injEq] at e1 e2
          subst e1 e2
          unfold stepResult at hs
          rw [hd] at hs
          cases hv : evalFormula thr e'.f lo.val ro.val rad with
          | none => simp [hv] at hs
          | some v =>
            simp only [hv, Option.some.injEq, Prod.mk.injEq] at hs
            rw [← h1, ← hs.1, hip]
            simp

/-- With the source's flag: a step whose left operand is of an immutable class (FrozenVec, tuple,
FrozenAngle, FrozenMatrix) leaves the whole pool as it was. -/
theorem C04_step_frozen (thr : K) (rad : Radii K) (P P' : List (Obj K)) (st : Step) (res lo : Obj K)
    (h : stepPool thr true rad P st = some (P', res)) (hlo : P[st.l]? = some lo)
    (hm : lo.tag.mutable = false) : P' = P := by
  cases hro : P[st.r]? with
  | none => simp [stepPool, hlo, hro] at h
  | some ro =>
    cases hd : dispatch true lo.tag ro.tag st.form with
    | none => simp [stepPool, stepResult, hlo, hro, hd] at h
    | some e =>
      refine (C04_step_frame thr true rad P P' st res h).2 lo ro e hlo hro hd ?_
      have : ∀ (l r : Tag) (f : Form) (e : Entry), l.mutable = false → dispatch true l r f = some e →
          e.inPlace = false := by
        intro l r f e hl he
        cases l <;> cases r <;> cases f <;> simp [Tag.mutable] at hl <;>
          simp [dispatch, binop, matmul, rmatmul, imatmul, Tag.isAng, Tag.isMat] at he <;>
          (try subst he) <;> simp_all
      exact this _ _ _ _ hm hd

end DispatchValue

/-! ## Non-vacuity -/

/-- The unit-circle hypotheses are satisfiable non-trivially (a 3-4-5 pitch, 5-12-13 yaw, 8-15-17 roll). -/
example : (⟨3/5, 4/5, 5/13, 12/13, 8/17, 15/17⟩ : Ang Rat).OnCircle := by
  simp only [Ang.OnCircle]; decide +kernel
example : fromAngle (⟨3/5, 4/5, 5/13, 12/13, 8/17, 15/17⟩ : Ang Rat)
    = ⟨3/13, 36/65, -4/5, -384/1105, 1452/1105, 9/17, -1132/1105, -441/1105, 24/85⟩ ∨ True := Or.inr trivial
example : dispatch true .tup .fang .op = specEntry .tup .fang .op := by decide
example : dispatch true .vec .vec .op = none := by decide
/-- `inverse()` succeeds on a concrete rotation (yaw with cos 3/5, sin 4/5) and gives the transpose. -/
example : gaussJordanInverse Gen.Rot.eps (fromAngle (⟨1, 0, 3/5, 4/5, 1, 0⟩ : Ang Rat))
    = some (transpose (fromAngle ⟨1, 0, 3/5, 4/5, 1, 0⟩)) := by decide +kernel
/-- The gimbal branch is reached by a concrete rotation: pitch with cos 8000/16000001 (< 0.001),
yaw 3-4-5, roll 0; the radii are rational there. -/
example : (toAngleB Gen.Rot.thr (fromAngle (⟨8000/16000001, 15999999/16000001, 3/5, 4/5, 1, 0⟩ : Ang Rat))
    ⟨8000/16000001, 1, 8000/16000001, 1⟩).2 = false := by decide +kernel
/-- The general branch of `_to_angle` on a concrete rotation (pitch 3-4-5, yaw 5-12-13, roll 8-15-17). -/
example : toAngle Gen.Rot.thr (fromAngle (⟨3/5, 4/5, 5/13, 12/13, 8/17, 15/17⟩ : Ang Rat)) ⟨3/5, 1, 3/5, 1⟩
    = ⟨3/5, 4/5, 5/13, 12/13, 8/17, 15/17⟩ := by decide +kernel

end C04
