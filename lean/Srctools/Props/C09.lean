import Srctools.Proofs.C09
import Srctools.Gen.Copy
/-!
# C09 — copies of map objects are complete and independent of their source

Property theorems only.  The model is the heap of `Model/Heap.lean`: `copyWith tr` is the copy
*as coded*, driven by the per-class / per-field treatment function `Table.treat T` obtained from
the table `Gen.Copy.table` that `tools/gen_copy.py` regenerates from `vmf.py` / `keyvalues.py`.

* `C09_complete`, `C09_deep`, `C09_gen_ok`, `C09_add_target`, `C09_add_copies` are the obligations
  on the table the source has **now** (decided by evaluation).
* `C09_frame`, `C09_copy`, `C09_indep` hold for every table passing `tableOK`, every store and every
  sequence of mutations; their hypotheses on the store (`closedB`, `immClosedB`, `wellKindedB`) are the
  executable checks the driver evaluates on every store sampled from the implementation.
* `C09_add_pure`, `C09_iadd` are the Keyvalues operators.
-/
namespace C09
open Heap

/-! ## obligations on the current source -/

/-- OBLIGATION: no `copy()` drops a field. -/
theorem C09_complete : noMissing Gen.Copy.table = true := by decide

/-- OBLIGATION: no `copy()` shares a mutable object (and every field was classified). -/
theorem C09_deep : noShared Gen.Copy.table = true := by decide

/-- OBLIGATION: every (kind, treatment) pair of the table is an acceptable one. -/
theorem C09_gen_ok : tableOK Gen.Copy.table = true := by decide

/-- OBLIGATION: the loop of `Keyvalues.__add__` appends to the copy, not to `self`. -/
theorem C09_add_target : Gen.Copy.kvAddTarget = AddTarget.copy := by decide

/-- OBLIGATION: `+`, `+=` and `extend` append copies of the other operand's children. -/
theorem C09_add_copies :
    Gen.Copy.kvAddCopies = true ∧ Gen.Copy.kvIAddCopies = true ∧ Gen.Copy.kvExtendCopies = true := by
  decide

/-! ## heap theorems -/

/-- **Frame.** On a closed store, a sequence of mutations all of whose targets satisfy `W` leaves the
abstraction of `l` unchanged, provided every object reachable from `l` that satisfies `W` is immutable. -/
theorem C09_frame {W : Nat → Prop} {h : Store} (hc : Closed h) {l : Nat} (hl : l < h.length)
    (ops : List Op) (hw : ∀ op ∈ ops, ∀ t, op.target = some t → W t)
    (hsep : ∀ x, Reach h l x → W x → IsImm h x) (m : Nat) :
    abs m (run ops h) l = abs m h l :=
  run_frame hc hl ops hw hsep m

/-- **The copy as coded is a deep copy** when the table is acceptable and the store is well kinded:
the store is only extended, the copy has the abstraction of the source (*complete*), and everything
reachable from the copy is freshly allocated or immutable (*deep*). -/
theorem C09_copy (T : Table) (hT : tableOK T = true) (h : Store)
    (hc : closedB h = true) (hi : immClosedB h = true) (hk : wellKindedB T h = true)
    (n l : Nat) (h1 : Store) (l' : Nat) (e : copyWith (Table.treat T) n h l = some (h1, l')) :
    Sub h h1 ∧ (∀ m, abs m h1 l' = abs m h l) ∧ (∀ x, Reach h1 l' x → h.length ≤ x ∨ IsImm h1 x) := by
  obtain ⟨sb, _, _, _, ha, hs, _⟩ :=
    copyWith_spec (Table.treat T) n h l h1 l' (wf_of_B hc hi) ((adequate_of_table hT hk).from l) e
  exact ⟨sb, ha, hs⟩

/-- **Independence.** After such a copy: (1) the copy has the abstraction of the source; (2) the source
still has it; (3) only immutable objects are reachable from both; (4) any sequence of mutations of
objects allocated by or after the copy is invisible through the source; (5) any sequence of
mutations that avoids the objects allocated by the copy is invisible through the copy. -/
theorem C09_indep (T : Table) (hT : tableOK T = true) (h : Store)
    (hc : closedB h = true) (hi : immClosedB h = true) (hk : wellKindedB T h = true)
    (n l : Nat) (h1 : Store) (l' : Nat) (e : copyWith (Table.treat T) n h l = some (h1, l')) :
    (∀ m, abs m h1 l' = abs m h l) ∧
    (∀ m, abs m h1 l = abs m h l) ∧
    (∀ x, Reach h1 l' x → Reach h1 l x → IsImm h1 x) ∧
    (∀ ops : List Op, (∀ op ∈ ops, ∀ t, op.target = some t → h.length ≤ t) →
        ∀ m, abs m (run ops h1) l = abs m h l) ∧
    (∀ ops : List Op, (∀ op ∈ ops, ∀ t, op.target = some t → t < h.length ∨ h1.length ≤ t) →
        ∀ m, abs m (run ops h1) l' = abs m h l) :=
  copy_indep (wf_of_B hc hi) ((adequate_of_table hT hk).from l) e

/-- `C09_indep` for the table extracted from the current source. -/
theorem C09_indep_gen (h : Store)
    (hc : closedB h = true) (hi : immClosedB h = true) (hk : wellKindedB Gen.Copy.table h = true)
    (n l : Nat) (h1 : Store) (l' : Nat)
    (e : copyWith (Table.treat Gen.Copy.table) n h l = some (h1, l')) :
    (∀ m, abs m h1 l' = abs m h l) ∧
    (∀ x, Reach h1 l' x → Reach h1 l x → IsImm h1 x) ∧
    (∀ ops : List Op, (∀ op ∈ ops, ∀ t, op.target = some t → h.length ≤ t) →
        ∀ m, abs m (run ops h1) l = abs m h l) ∧
    (∀ ops : List Op, (∀ op ∈ ops, ∀ t, op.target = some t → t < h.length ∨ h1.length ≤ t) →
        ∀ m, abs m (run ops h1) l' = abs m h l) := by
  obtain ⟨a, _, c, d, f⟩ := C09_indep Gen.Copy.table C09_gen_ok h hc hi hk n l h1 l' e
  exact ⟨a, c, d, f⟩

/-- A `shared` treatment is genuinely unsafe: with a table that keeps a field holding a mutable
object, a write through the copy is visible through the source (the model exhibits the defect that
`Solid.copy` / `Entity.copy` had). Store: 0 = a mutable Vec-like cell, 1 = an object whose field 0
refers to it. -/
theorem C09_shared_unsafe :
    let T : Table := [{ name := "K", site := "", fields := [{ name := "c", kind := .mutObj, treat := .shared }] }]
    let h : Store := [{ cls := 0, mu := true, fields := [(0, .val 1)] },
                      { cls := 1, mu := true, fields := [(0, .ref 0)] }]
    ∃ h1 l', copyWith (Table.treat T) 3 h 1 = some (h1, l') ∧ h.length ≤ l' ∧
      -- writing to the cell reached through the copy changes what the source sees
      abs 2 (run [Op.write 0 0 (.val 9)] h1) 1 ≠ abs 2 h 1 ∧ Reach h1 l' 0 := by
  refine ⟨_, _, rfl, by decide, ?_, ?_⟩
  · intro hh
    simp [run, step, abs, absSlot, setField, slotValid] at hh
  · exact Reach.step (o := { cls := 1, mu := true, fields := [(0, .ref 0)] }) (f := 0) rfl (by simp) (Reach.refl 0)

/-! ## Keyvalues operators -/

/-- **`a + b` is pure** (with the target the source has now): nothing that existed before the
operation is modified — so `a`, `b` and every child keep their abstraction — and the result is a
fresh object whose children are the abstractions of `a`'s children followed by those of the
elements of `b` (copies), and everything reachable from the result is freshly allocated or
immutable (it shares no mutable object with `a` or `b`). `bl` is the list iterated (the children
list of `b`, or `b` itself). -/
theorem C09_add_pure {tr : Nat → Nat → Treat} {n vf : Nat} {h h2 : Store} {a bl c ta : Nat}
    (wf : WF h) (adqa : AdequateFrom tr h a)
    (hka : kidsLoc vf h a = some ta)
    (hma : ∀ o, h[a]? = some o → o.mu = true)
    (hmta : ∃ o, h[ta]? = some o ∧ o.mu = true)
    (hbl : bl < h.length)
    (adqb : ∀ k, Slot.ref k ∈ listElems h bl → AdequateFrom tr h k)
    (e : kvAdd Gen.Copy.kvAddTarget tr n vf h a bl = some (h2, c)) :
    Keeps h h2 ∧ h.length ≤ c ∧
    (∀ m x, x < h.length → abs m h2 x = abs m h x) ∧
    (∀ m, kidsAbs m vf h2 c = kidsAbs m vf h a ++ (listElems h bl).map (absSlot (abs m h))) ∧
    (∀ x, Reach h2 c x → h.length ≤ x ∨ IsImm h2 x) := by
  rw [C09_add_target] at e
  exact kvAdd_pure wf adqa hka hma hmta hbl adqb e

/-- The variant the source had before the fix (`self` as target) is not pure: on the store
0 = children list of `a` (empty), 1 = `a`, 2 = a leaf, 3 = the list `[leaf]`, `a + [leaf]` leaves one
child in `a`'s own list and none in the result's. -/
theorem C09_add_self_defect :
    let h : Store := [{ cls := 1000, mu := true, fields := [] },
                      { cls := 5, mu := true, fields := [(7, .ref 0)] },
                      { cls := 5, mu := true, fields := [(7, .val 42)] },
                      { cls := 1000, mu := true, fields := [(0, .ref 2)] }]
    (kvAdd AddTarget.self (fun _ _ => Treat.deep) 5 7 h 1 3).map
        (fun r => ((listElems r.1 0).length, (kidsAbs 1 7 r.1 r.2).length)) = some (1, 0) ∧
    (kvAdd AddTarget.copy (fun _ _ => Treat.deep) 5 7 h 1 3).map
        (fun r => ((listElems r.1 0).length, (kidsAbs 1 7 r.1 r.2).length)) = some (0, 1) := by
  decide

/-- **`a += b` / `a.extend(b)`**: only the children list of `a` changes; it gains one element per
element of `b`, each with the abstraction of its source, and (being copies made by `copyWith`)
later mutation of `b`'s elements cannot show through them — see `C09_indep`. -/
theorem C09_iadd {tr : Nat → Nat → Treat} {n vf : Nat} {h h2 : Store} {a bl ta : Nat}
    (wf : WF h) (hka : kidsLoc vf h a = some ta)
    (hmta : ∃ o, h[ta]? = some o ∧ o.mu = true)
    (hel : ∀ k, Slot.ref k ∈ listElems h bl → k < h.length ∧ ¬ Reach h k ta ∧ AdequateFrom tr h k)
    (e : kvIAdd true tr n vf h a bl = some h2) :
    KeepsExcept ta h h2 ∧
    ∃ news : List Slot, listElems h2 ta = listElems h ta ++ news ∧
      ∀ m, news.map (absSlot (abs m h2)) = (listElems h bl).map (absSlot (abs m h)) := by
  obtain ⟨_, ke, news, h1, h2'⟩ := kvIAdd_spec wf hka hmta hel e
  exact ⟨ke, news, h1, h2'⟩

/-! ## non-vacuity -/

/-- A small `Solid` store (class 4 of the generated table: fields 0 `map`, 1 `id`, 2 `sides`,
3 `visgroup_ids`, 9 `editor_color`; builtins ≥ 1000: 0,1 = Vec, 2 = list [Vec, FrozenVec], 3 = set,
4 = FrozenVec (immutable, shared by the copy)) satisfies all the hypotheses of `C09_indep_gen`, the copy
succeeds, allocates, and shares the immutable object only. -/
example :
    let h : Store := [{ cls := 1004, mu := true, fields := [(0, .val 1), (1, .val 2), (2, .val 3)] },
                      { cls := 1004, mu := true, fields := [(0, .val 4), (1, .val 5), (2, .val 6)] },
                      { cls := 1000, mu := true, fields := [(0, .ref 1), (1, .ref 4)] },
                      { cls := 1001, mu := true, fields := [(0, .val 5)] },
                      { cls := 1008, mu := false, fields := [(0, .val 7)] },
                      { cls := 4, mu := true, fields := [(0, .val 0), (1, .val 0), (2, .ref 2), (3, .ref 3),
                                                         (4, .val 0), (9, .ref 0)] }]
    closedB h = true ∧ immClosedB h = true ∧ wellKindedB Gen.Copy.table h = true ∧
    (copyWith (Table.treat Gen.Copy.table) 4 h 5).map (fun r => (r.1.length, r.2)) = some (11, 10) := by
  decide

/-- The hypotheses of `C09_add_pure` are satisfiable (store of `C09_add_self_defect`). -/
example :
    let h : Store := [{ cls := 1000, mu := true, fields := [] },
                      { cls := 5, mu := true, fields := [(7, .ref 0)] },
                      { cls := 5, mu := true, fields := [(7, .val 42)] },
                      { cls := 1000, mu := true, fields := [(0, .ref 2)] }]
    closedB h = true ∧ immClosedB h = true ∧ adequateB (fun _ _ => Treat.deep) h = true ∧
    kidsLoc 7 h 1 = some 0 ∧ (kvAdd AddTarget.copy (fun _ _ => Treat.deep) 5 7 h 1 3).isSome = true := by
  decide

end C09
