import Srctools.Gen.Copy
/-! # C09 — copies are complete and independent (property theorems; first cut: table obligations) -/
namespace C09

/-- OBLIGATION on the current source: no `copy()` drops a field. -/
theorem C09_complete : noMissing Gen.Copy.table = true := by decide

/-- OBLIGATION on the current source: no `copy()` shares a mutable object (and every field was classified). -/
theorem C09_deep : noShared Gen.Copy.table = true := by decide

/-- OBLIGATION: every (kind, treatment) pair of the table is an acceptable one. -/
theorem C09_gen_ok : tableOK Gen.Copy.table = true := by decide

/-- OBLIGATION: the loop of `Keyvalues.__add__` appends to the copy. -/
theorem C09_add_target : Gen.Copy.kvAddTarget = AddTarget.copy := by decide

end C09
