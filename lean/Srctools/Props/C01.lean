import Srctools.Model.C01
import Srctools.Gen.Kvser
import Srctools.Props.C02
/-!
# C01 — KeyValues1 serialise/parse round trip preserves the whole tree
(first stage: the obligations on the current source; the theorems follow)
-/
namespace C01

/-- OBLIGATION on the current source: the text templates of `_serialise`/`serialise` are the ones
the model `serKV` is written for. -/
theorem C01_gen_shape : Gen.Kvser.shape = [
    ("root_child_indent", []),
    ("block_head", ["$cur_indent", "\"", "$name", "\"\n"]),
    ("block_open", ["$cur_indent", "$open_brace"]),
    ("block_close", ["$cur_indent", "$close_brace"]),
    ("child_indent", ["$cur_indent", "$indent"]),
    ("leaf_line", ["$cur_indent", "\"", "$name", "\" \"", "$value", "\"\n"]),
    ("open_brace_indented", ["$indent", "{\n"]),
    ("close_brace_indented", ["$indent", "}\n"]),
    ("open_brace_plain", ["{\n"]),
    ("close_brace_plain", ["}\n"])] := by decide

/-- OBLIGATION on the current source: every name and value is written through `escape_text`. -/
theorem C01_gen_cfg :
    Gen.Kvser.cfg = { escBlockName := true, escLeafName := true, escLeafValue := true } := by decide

end C01
