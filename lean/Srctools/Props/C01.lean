import Srctools.Proofs.C01
import Srctools.Gen.Kvser
import Srctools.Props.C03
/-!
# C01 — KeyValues1 serialise/parse round trip preserves the whole tree

Property theorems only.  Statements are about the executable model `C01.serialise` /
`C01.parse` (Model/C01.lean: `Keyvalues._serialise`, `Keyvalues.parse`) over the shared tokenizer
model `Tok.run`; they are proved for every tokenizer table satisfying the decidable predicates
`Tok.escOK` (C02) and `C01.kvOK`, and for the writer configuration `fullCfg` (block names, leaf
names and leaf values all written through `escape_text`).  `C01_gen_*` check on every run that the
tables and the writer regenerated from the current source are of that form.

Vocabulary (Proofs/C01.lean): `isWs s` — `s` consists of blanks and tabs; `okKV po t` — every name
of `t` is free of CR/LF unless `newline_keys`, every value free of CR/LF unless `newline_values`
(the default) — computed by `C01.okKV`; `toksKV l t` — the token list (kind, value, line) of a
node starting on line `l`, a function of the tree alone.
-/
namespace C01
open Tok

/-- OBLIGATION on the current source: the text templates of `_serialise`/`serialise` are the ones
the model `serKV` is written for. -/
theorem C01_gen_shape : Gen.Kvser.shape = [
    ("root_child_indent", []),
    ("block_head", ["$cur_indent", "\"", "$name", "\"\n"]),
    ("block_open", ["$cur_indent", "$open_brace"]),
    ("block_close", ["$cur_indent", "$close_brace"]),
    ("child_indent", ["$cur_indent", "$indent"]),
    ("leaf_line", ["$cur_indent", "\"", "$name", "\" \"", "$value", "\"\n"]),
    ("open_brace_indented", ["$indent", "{\n"]),
    ("close_brace_indented", ["$indent", "}\n"]),
    ("open_brace_plain", ["{\n"]),
    ("close_brace_plain", ["}\n"])] := by decide

/-- OBLIGATION on the current source: every name and value is written through `escape_text`. -/
theorem C01_gen_cfg : Gen.Kvser.cfg = fullCfg := by decide

/-- OBLIGATION on the current source: blanks and LF are not operators, the braces are. -/
theorem C01_gen_tables : kvOK Gen.Tok.tables = true := by decide

/-- **The token stream of serialised text is a function of the tree alone**: whatever the
(whitespace) `indent` / `start_indent` and `indent_braces`, tokenizing `serialise(t)` with escapes
enabled gives exactly `toksKV 1 t` followed by EOF — same kinds, same values, same line numbers —
and no error. -/
theorem C01_tokens (T : Tables) (hE : escOK T = true) (hK : kvOK T = true) (o : Opts)
    (ho : o.allowEscapes = true) (fold : Char → List Char) (so : SerOpts) (hind : isWs so.indent)
    (hst : isWs so.startIndent) (t : KV) :
    run T o fold (serialise T fullCfg so t)
      = { toks := toksKV 1 t ++ [⟨0, [], 1 + linesKV t⟩], err := none } :=
  run_serKV hE (kvFacts hK) o ho fold so hind t so.startIndent hst

/-- The same for `Keyvalues.root(*ts).serialise(...)`. -/
theorem C01_tokens_root (T : Tables) (hE : escOK T = true) (hK : kvOK T = true) (o : Opts)
    (ho : o.allowEscapes = true) (fold : Char → List Char) (so : SerOpts) (hind : isWs so.indent)
    (ts : List KV) :
    run T o fold (serialiseRoot T fullCfg so ts)
      = { toks := toksList 1 ts ++ [⟨0, [], 1 + linesList ts⟩], err := none } :=
  run_serList hE (kvFacts hK) o ho fold so hind ts [] isWs_nil

/-- **Independence of the indentation options**: two serialisations of the same tree under any two
whitespace option sets have the same token stream (including NEWLINE tokens and line numbers), so
they differ in blanks and tabs only. -/
theorem C01_ws_indep (T : Tables) (hE : escOK T = true) (hK : kvOK T = true) (o : Opts)
    (ho : o.allowEscapes = true) (fold : Char → List Char) (so₁ so₂ : SerOpts)
    (h₁ : isWs so₁.indent) (h₁' : isWs so₁.startIndent) (h₂ : isWs so₂.indent)
    (h₂' : isWs so₂.startIndent) (t : KV) :
    run T o fold (serialise T fullCfg so₁ t) = run T o fold (serialise T fullCfg so₂ t) := by
  rw [C01_tokens T hE hK o ho fold so₁ h₁ h₁', C01_tokens T hE hK o ho fold so₂ h₂ h₂']

/-- **Round trip, one keyvalue.** For every tree whose names/values the parser options admit
(`okKV`: by default, names without CR/LF and any values), every whitespace `indent` and
`start_indent`, both `indent_braces`, any flag environment, `single_line` on or off:
parsing the serialised text yields a root with exactly that tree — same shape, child order, names
and values. -/
theorem C01_roundtrip (T : Tables) (hE : escOK T = true) (hK : kvOK T = true) (po : ParseOpts)
    (hesc : po.allowEscapes = true) (hsb : po.singleBlock = false) (fold : Char → List Char)
    (so : SerOpts) (hind : isWs so.indent) (hst : isWs so.startIndent) (t : KV)
    (ht : okKV po t = true) :
    parse T po fold (serialise T fullCfg so t) = .root [t] := by
  unfold parse parseRun
  rw [C01_tokens T hE hK (tokOpts po) (by simpa [tokOpts] using hesc) fold so hind hst]
  show parseToks po fold initState (toksKV 1 t ++ [⟨0, [], 1 + linesKV t⟩]) none = _
  unfold initState
  rw [parse_kv po fold t ht 1 _ [] (Or.inl hsb) false]
  simp [parseToks, step, stepTop, kEof, finish]

/-- **Round trip, root.** `parse(Keyvalues.root(*ts).serialise(...))` has exactly the children `ts`
(any number of top-level keyvalues, including none). -/
theorem C01_roundtrip_root (T : Tables) (hE : escOK T = true) (hK : kvOK T = true) (po : ParseOpts)
    (hesc : po.allowEscapes = true) (hsb : po.singleBlock = false) (fold : Char → List Char)
    (so : SerOpts) (hind : isWs so.indent) (ts : List KV) (ht : okList po ts = true) :
    parse T po fold (serialiseRoot T fullCfg so ts) = .root ts := by
  unfold parse parseRun
  rw [C01_tokens_root T hE hK (tokOpts po) (by simpa [tokOpts] using hesc) fold so hind]
  show parseToks po fold initState (toksList 1 ts ++ [⟨0, [], 1 + linesList ts⟩]) none = _
  unfold initState
  rw [parse_list po fold ts ht 1 _ [] (Or.inl hsb) false]
  simp [parseToks, step, stepTop, kEof, finish]

/-- **Round trip with `single_block=True`**: the serialised keyvalue itself is returned. -/
theorem C01_roundtrip_single_block (T : Tables) (hE : escOK T = true) (hK : kvOK T = true)
    (po : ParseOpts) (hesc : po.allowEscapes = true) (hsb : po.singleBlock = true)
    (fold : Char → List Char) (so : SerOpts) (hind : isWs so.indent) (hst : isWs so.startIndent)
    (t : KV) (ht : okKV po t = true) :
    parse T po fold (serialise T fullCfg so t) = .single t := by
  unfold parse parseRun
  rw [C01_tokens T hE hK (tokOpts po) (by simpa [tokOpts] using hesc) fold so hind hst]
  show parseToks po fold initState (toksKV 1 t ++ [⟨0, [], 1 + linesKV t⟩]) none = _
  unfold initState
  match t with
  | .leaf n v =>
    simp only [okKV, Bool.and_eq_true] at ht
    simp [toksKV, parseToks, step, stepTop, kEof, kBraceOpen, kNewline, kString, kPropFlag,
      keyOk_step ht.1, valOk_step ht.2, topIsRoot, hsb]
  | .block n cs =>
    simp only [okKV, Bool.and_eq_true] at ht
    simp only [toksKV, List.cons_append, List.nil_append, List.append_assoc]
    simp [parseToks, step, stepTop, kEof, kBraceOpen, kNewline, kString, kPropFlag,
      keyOk_step ht.1, addKid]
    rw [parse_list po fold cs ht.2 3 ⟨.named n, []⟩ [⟨.root, []⟩] (Or.inr (by simp)) false]
    simp [parseToks, step, stepTop, closeInto, kEof, kBraceOpen, kNewline, kString, kBraceClose, hsb]

/-- `Keyvalues.parse(chunks)` for an iterable of string chunks (a list, a generator, a file object
read line by line): the tokenizer runs over the chunk cursor of the concrete model `TokC`. -/
def parseChunks (T : Tables) (po : ParseOpts) (fold : Char → List Char) (cs : List (List Char)) :
    PResult :=
  parseRun po fold (TokC.run T (tokOpts po) fold (TokC.Src.ofChunks cs))

/-- **Round trip for every delivery of the text**: however the serialised text is cut into chunks
(any number, empty chunks anywhere, cuts inside an escape pair or between the quotes), parsing the
chunk sequence yields the tree.  (`C01_roundtrip` composed with C03's refinement
`C03_run_eq_abstract`.) -/
theorem C01_roundtrip_chunks (T : Tables) (hE : escOK T = true) (hK : kvOK T = true) (po : ParseOpts)
    (hesc : po.allowEscapes = true) (hsb : po.singleBlock = false) (fold : Char → List Char)
    (so : SerOpts) (hind : isWs so.indent) (hst : isWs so.startIndent) (t : KV)
    (ht : okKV po t = true) (cs : List (List Char)) (hcs : cs.flatten = serialise T fullCfg so t) :
    parseChunks T po fold cs = .root [t] := by
  unfold parseChunks
  rw [TokC.C03_run_eq_abstract, hcs]
  exact C01_roundtrip T hE hK po hesc hsb fold so hind hst t ht

/-- **The writer is injective** on the trees the parser admits: equal text, equal trees (also
across different indentation options). -/
theorem C01_serialise_injective (T : Tables) (hE : escOK T = true) (hK : kvOK T = true)
    (so₁ so₂ : SerOpts) (h₁ : isWs so₁.indent) (h₁' : isWs so₁.startIndent) (h₂ : isWs so₂.indent)
    (h₂' : isWs so₂.startIndent) (t₁ t₂ : KV) (ok₁ : okKV {} t₁ = true) (ok₂ : okKV {} t₂ = true)
    (h : serialise T fullCfg so₁ t₁ = serialise T fullCfg so₂ t₂) : t₁ = t₂ := by
  have r₁ := C01_roundtrip T hE hK {} rfl rfl (fun c => [c]) so₁ h₁ h₁' t₁ ok₁
  have r₂ := C01_roundtrip T hE hK {} rfl rfl (fun c => [c]) so₂ h₂ h₂' t₂ ok₂
  rw [h, r₂] at r₁
  injection r₁ with r₁
  injection r₁ with r₁
  exact r₁.symm

/-- The three round-trip theorems at the tables and writer of the **current source**, default
`Keyvalues.parse` options (so `okKV {} t` reads: no name of `t` contains CR or LF). -/
theorem C01_roundtrip_current (fold : Char → List Char) (so : SerOpts) (hind : isWs so.indent)
    (hst : isWs so.startIndent) (t : KV) (ht : okKV {} t = true) :
    parse Gen.Tok.tables {} fold (serialise Gen.Tok.tables Gen.Kvser.cfg so t) = .root [t] := by
  rw [C01_gen_cfg]
  exact C01_roundtrip _ C02_gen_ok C01_gen_tables {} rfl rfl fold so hind hst t ht

theorem C01_roundtrip_root_current (fold : Char → List Char) (so : SerOpts) (hind : isWs so.indent)
    (ts : List KV) (ht : okList {} ts = true) :
    parse Gen.Tok.tables {} fold (serialiseRoot Gen.Tok.tables Gen.Kvser.cfg so ts) = .root ts := by
  rw [C01_gen_cfg]
  exact C01_roundtrip_root _ C02_gen_ok C01_gen_tables {} rfl rfl fold so hind ts ht

/-- **The parser model is total in the implementation's sense**: for every text, every option set
and flag environment, `parse` never ends in one of the model's `internal` results (the states the
code cannot be in: an empty block stack, a pending block opening whose keyvalue is not the last
child, a token stream that stops without EOF or error).  Proved by an invariant of the machine
(`invB`) preserved by every step. -/
theorem C01_parse_no_internal (T : Tables) (po : ParseOpts) (fold : Char → List Char)
    (text : List Char) (l : Option Nat) : parse T po fold text ≠ .err .internal l := by
  intro h
  have := parse_ok T po fold text
  rw [h] at this
  simp [okRes] at this

/-! ### History independence (sessions)
In the model every API call is a function of its own arguments, so a *session* — a sequence of
calls made one after the other — is evaluated call by call and no call can see an earlier one.
The statements below make that explicit; they are immediate in the pure model, and it is the
*correspondence* (sessions of calls run in one interpreter state of the implementation, every
result compared with the model's) that establishes the same for the code: shared mutable state
between calls (e.g. a push-back stack shared by all tokenizers) shows up there as a disagreement,
and as a property violation when a round trip inside the session is wrong. -/

/-- one API call of a session -/
inductive Call where
  | parse (po : ParseOpts) (text : List Char)            -- `Keyvalues.parse(text, …)`
  | serialise (so : SerOpts) (t : KV)                     -- `kv.serialise(…)`
  | serialiseRoot (so : SerOpts) (ts : List KV)           -- `Keyvalues.root(*ts).serialise(…)`
  | roundtrip (po : ParseOpts) (so : SerOpts) (t : KV)    -- `Keyvalues.parse(kv.serialise(…), …)`

inductive CallResult where
  | parsed (r : PResult)
  | text (s : List Char)

def evalCall (T : Tables) (fold : Char → List Char) : Call → CallResult
  | .parse po text => .parsed (parse T po fold text)
  | .serialise so t => .text (serialise T fullCfg so t)
  | .serialiseRoot so ts => .text (serialiseRoot T fullCfg so ts)
  | .roundtrip po so t => .parsed (parse T po fold (serialise T fullCfg so t))

/-- a session: the calls are evaluated in order -/
def runSession (T : Tables) (fold : Char → List Char) (cs : List Call) : List CallResult :=
  cs.map (evalCall T fold)

/-- **A call's result does not depend on the calls made before (or after) it.** -/
theorem C01_history_indep (T : Tables) (fold : Char → List Char) (before after : List Call) (c : Call) :
    (runSession T fold (before ++ c :: after))[before.length]? = some (evalCall T fold c) := by
  simp [runSession]

/-- **Round trip after any history**: whatever calls were made before (single-block parses that
returned early, parses that ended in an error, other serialisations …), the round trip of an
admissible tree is exact. -/
theorem C01_roundtrip_any_history (T : Tables) (hE : escOK T = true) (hK : kvOK T = true)
    (po : ParseOpts) (hesc : po.allowEscapes = true) (hsb : po.singleBlock = false)
    (fold : Char → List Char) (so : SerOpts) (hind : isWs so.indent) (hst : isWs so.startIndent)
    (t : KV) (ht : okKV po t = true) (before : List Call) :
    (runSession T fold (before ++ [.roundtrip po so t])).getLast? = some (.parsed (.root [t])) := by
  simp [runSession, evalCall, C01_roundtrip T hE hK po hesc hsb fold so hind hst t ht]

/-- the error of a parse result, if it is one (decidable observation of `PResult`) -/
def errOf : PResult → Option (PErr × Option Nat)
  | .err e l => some (e, l)
  | _ => none

/-- the writer as it was before the fix: block names raw -/
def unescapedBlockCfg : SerCfg := { escBlockName := false, escLeafName := true, escLeafValue := true }

/-- **Escaping block names is necessary** (the defect fixed in `/repo`): with the writer that
leaves block names raw, the block named `a"b` serialises (default options) to text whose parse ends
in "Unterminated string!" on line 4. -/
theorem C01_block_names_escaped_needed :
    errOf (parse Gen.Tok.tables {} (fun c => [c])
      (serialise Gen.Tok.tables unescapedBlockCfg {} (.block ['a', '"', 'b'] [])))
      = some (.tok .untermString, some 4) := by decide +kernel

/-- … hence the round-trip law is false of that writer. -/
theorem C01_unescaped_not_roundtrip :
    ¬ ∀ t : KV, okKV {} t = true →
      parse Gen.Tok.tables {} (fun c => [c]) (serialise Gen.Tok.tables unescapedBlockCfg {} t) = .root [t] := by
  intro h
  have h1 := h (.block ['a', '"', 'b'] []) (by decide +kernel)
  have h2 := C01_block_names_escaped_needed
  rw [h1] at h2
  simp [errOf] at h2

/-- A backslash in a raw block name is silently *altered* instead: `a\tb` (backslash, t) comes back
as `a<TAB>b`. -/
theorem C01_unescaped_alters_name :
    (match parse Gen.Tok.tables {} (fun c => [c])
        (serialise Gen.Tok.tables unescapedBlockCfg {} (.block ['a', '\\', 't', 'b'] [])) with
      | .root [.block n []] => some n
      | _ => none) = some ['a', '\t', 'b'] := by decide +kernel

/-! Non-vacuity: the hypotheses are satisfiable and the statements are about non-trivial data. -/

def C01_sample : KV :=
  .block ['a', '"', 'b', '\\', '{'] [
    .leaf ['k', '}', '['] ['v', '\n', '"', '\r', '\t', ']'],
    .block [] [],
    .block ['k', '}', '['] [.leaf [] [], .leaf [] ['x']]]

example : okKV {} C01_sample = true := by decide +kernel
example : isWs [' ', '\t'] := by intro c hc; simp at hc; rcases hc with rfl | rfl <;> simp

example : parse Gen.Tok.tables {} (fun c => [c])
    (serialise Gen.Tok.tables Gen.Kvser.cfg { indent := [' ', '\t'], indentBraces := false, startIndent := ['\t'] }
      C01_sample) matches .root [_] := by decide +kernel

example : (run Gen.Tok.tables (tokOpts {}) (fun c => [c])
    (serialise Gen.Tok.tables Gen.Kvser.cfg {} C01_sample)).toks.length = 28 := by decide +kernel

/-- with `newline_keys=False` a name containing LF does *not* round trip (the hypothesis `okKV` is
needed): -/
example : errOf (parse Gen.Tok.tables {} (fun c => [c])
    (serialise Gen.Tok.tables Gen.Kvser.cfg {} (.leaf ['a', '\n'] []))) = some (.newlineInKey, some 1) := by
  decide +kernel

end C01
