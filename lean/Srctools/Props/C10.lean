import Srctools.Proofs.C10
import Srctools.Proofs.C10Bytes
import Srctools.Proofs.C10Concrete
import Srctools.Gen.Bsp
/-!
# C10 — saving an unmodified BSP is lossless whichever lumps were looked at

Property theorems only.  The model (`Model/C10.lean`): `access` = `ParsedLump.__get__`, `save` = the
rebuild loop of `BSP.save`, over the tables extracted from the current `bsp.py` (`Gen/Bsp.lean`) and
an abstract lump codec.  The theorems hold for **every** table satisfying the decidable predicate
`TablesOK` and for every sequence of view reads; `C10_gen_ok` checks the predicate on the tables of the
source as it is now.
-/
namespace C10
variable {B V : Type}

/-- all decidable well-formedness conditions on the extracted tables. -/
def TablesOK (T : Tables) : Bool :=
  WF T && WritesAll T && Topo T && RAcyclic T && Frame T && BorrowOK T && LiveLoop T

/-! ## Obligations on the current source (`decide` on the regenerated tables) -/

/-- ids in range, main lump first in `to_clear`, mains distinct and present in `LUMP_REBUILD_ORDER`. -/
theorem C10_gen_wf : WF Gen.Bsp.tables = true := by decide +kernel
/-- every writer rebuilds every lump its view empties. -/
theorem C10_gen_writes_all : WritesAll Gen.Bsp.tables = true := by decide +kernel
/-- **Topo**: every view reachable while the writer of `v` runs comes later in the rebuild order
(in particular no writer reads its own view). -/
theorem C10_gen_topo : Topo Gen.Bsp.tables = true := by decide +kernel
/-- the readers do not depend on each other cyclically. -/
theorem C10_gen_racyclic : RAcyclic Gen.Bsp.tables = true := by decide +kernel
/-- no lump is emptied by two views; raw lumps used directly are the view's own or belong to no view. -/
theorem C10_gen_frame : Frame Gen.Bsp.tables = true := by decide +kernel
/-- the `model` keys `bmodels` takes out of the entities are put back by its writer, before the entity writer runs. -/
theorem C10_gen_borrow : BorrowOK Gen.Bsp.tables = true := by decide +kernel
/-- the rebuild loop of `BSP.save` walks `LUMP_REBUILD_ORDER` and pops from the live cache, so a view a
writer parses during save is still written back when its turn comes. -/
theorem C10_gen_live_loop : LiveLoop Gen.Bsp.tables = true := by decide +kernel
/-- every attribute of a BSP object that the class mutates in place (`lumps`, `game_lumps`, `_parsed_lumps`,
`_texdata`) is bound per instance in `__init__` and has no mutable class-level default — two BSP objects never
share a lump table, which is what lets the single-object model speak about each object. -/
theorem C10_gen_instance_state :
    Gen.Bsp.instanceState.all (fun p => p.2.1 && !p.2.2) = true ∧ Gen.Bsp.instanceState.length ≥ 3 := by
  decide +kernel
/-- a reader that stores to a raw lump (`texinfo` empties TEXDATA itself) only does so to a lump its view empties anyway. -/
theorem C10_gen_reader_stores :
    Gen.Bsp.readerStores.all (fun p => (Gen.Bsp.tables.view p.1).clears.contains p.2) = true := by decide +kernel
/-- lump header fields (version, flags) are assigned only by a writer, and only on its own main lump
(`_lmp_write_props` stores the static-prop format version it writes). -/
theorem C10_gen_header_stores :
    Gen.Bsp.headerStores.all (fun p => p.2.2.1 == 1 && (Gen.Bsp.tables.view p.1).main == p.2.1) = true := by
  decide +kernel
/-- the body order of the file: every lump once, PAKFILE last. -/
theorem C10_gen_write_order :
    Gen.Bsp.tables.writeOrder.length = 64 ∧ Gen.Bsp.tables.writeOrder.Nodup ∧
    Gen.Bsp.tables.writeOrder.all (· < 64) = true ∧ Gen.Bsp.tables.writeOrder.getLast? = some 40 := by decide +kernel

theorem C10_gen_ok : TablesOK Gen.Bsp.tables = true := by
  simp [TablesOK, C10_gen_wf, C10_gen_writes_all, C10_gen_topo, C10_gen_racyclic, C10_gen_frame, C10_gen_borrow,
    C10_gen_live_loop]

private theorem ok_parts {T : Tables} (h : TablesOK T = true) :
    WF T = true ∧ WritesAll T = true ∧ Topo T = true ∧ RAcyclic T = true ∧ Frame T = true ∧ BorrowOK T = true ∧
    LiveLoop T = true := by
  simpa [TablesOK, and_assoc] using h

/-! ## The property, for all tables and all read sequences -/

/-- **flush.** After reading any views in any order and saving, nothing is left in the cache and no
lump is left emptied. -/
theorem C10_flush (T : Tables) (h : TablesOK T = true) (C : Codec B V) (raw₀ : Nat → B)
    (xs : List Nat) (hxs : ∀ u ∈ xs, u < T.n) :
    (∀ v, (save T C (accesses T C xs (init raw₀))).parsed v = none) ∧
    (∀ l, (save T C (accesses T C xs (init raw₀))).clr l = false) := by
  obtain ⟨h1, h2, h3, _, _, h6, h7⟩ := ok_parts h
  obtain ⟨a, b, _, _⟩ := flush_all T C h1 h2 h3 h6 h7 raw₀ xs hxs
  exact ⟨a, b⟩

/-- **borrowed keys.** The keys a reader removes from another view's objects (`bmodels` pops `model`
from the entities) are all back when that view is written, and none is pending after save. -/
theorem C10_borrow (T : Tables) (h : TablesOK T = true) (C : Codec B V) (raw₀ : Nat → B)
    (xs : List Nat) (hxs : ∀ u ∈ xs, u < T.n) :
    (save T C (accesses T C xs (init raw₀))).lost = [] ∧
    (save T C (accesses T C xs (init raw₀))).pending = [] := by
  obtain ⟨h1, h2, h3, _, _, h6, h7⟩ := ok_parts h
  obtain ⟨_, _, c, d⟩ := flush_all T C h1 h2 h3 h6 h7 raw₀ xs hxs
  exact ⟨c, d⟩

/-- **content.** If the codecs satisfy the round-trip laws and `E` is the parse of the original
lumps, then after reading any views and saving, every view of the saved lumps still reads as `E`,
and every lump that belongs to no view is byte-identical. -/
theorem C10_content (T : Tables) (h : TablesOK T = true) (C : Codec B V) (L : Laws T C)
    (raw₀ : Nat → B) (E : Nat → V) (hE : IsEnv T C raw₀ E) (xs : List Nat) (hxs : ∀ u ∈ xs, u < T.n) :
    IsEnv T C (save T C (accesses T C xs (init raw₀))).raw E ∧
    (∀ l, T.owned l = false → (save T C (accesses T C xs (init raw₀))).raw l = raw₀ l) := by
  obtain ⟨h1, h2, h3, h4, h5, h6, h7⟩ := ok_parts h
  obtain ⟨_, hb, hc⟩ := content_all T C h1 h3 h5 h4 h7 L.frame raw₀ E hE (L.at hE) xs hxs
  obtain ⟨hnone, _⟩ := flush_all T C h1 h2 h3 h6 h7 raw₀ xs hxs
  exact ⟨fun v hv => hb v hv (by omega) (hnone v), hc⟩

/-- **no access.** Saving without having read any view changes no lump at all (for any tables). -/
theorem C10_noaccess (T : Tables) (C : Codec B V) (raw₀ : Nat → B) :
    save T C (accesses T C [] (init raw₀)) = init raw₀ := by
  have key : ∀ (ls : List Nat), ls.foldl (saveStep T C) (init raw₀) = init raw₀ := by
    intro ls
    refine foldl_inv (fun s => s = init raw₀) _ _ _ rfl (fun a l _ ha => ?_)
    subst ha
    cases hv : T.viewOfMain l with
    | none => exact saveStep_none T C _ l hv
    | some v => exact saveStep_skip T C _ l v hv rfl
  show save T C (init raw₀) = init raw₀
  unfold save
  split <;> exact key _

/-- **repeated cycles.** Re-opening the saved lumps, reading any (other) views and saving again keeps
the same parse `E`, keeps the view-less lumps byte-identical, and a second save without reads
reproduces the lumps of the first byte for byte. -/
theorem C10_idem (T : Tables) (h : TablesOK T = true) (C : Codec B V) (L : Laws T C)
    (raw₀ : Nat → B) (E : Nat → V) (hE : IsEnv T C raw₀ E)
    (xs ys : List Nat) (hxs : ∀ u ∈ xs, u < T.n) (hys : ∀ u ∈ ys, u < T.n) :
    let raw₁ := (save T C (accesses T C xs (init raw₀))).raw
    let raw₂ := (save T C (accesses T C ys (init (V := V) raw₁))).raw
    IsEnv T C raw₂ E ∧ (∀ l, T.owned l = false → raw₂ l = raw₀ l) ∧
    (save T C (accesses T C [] (init (V := V) raw₁))).raw = raw₁ := by
  intro raw₁ raw₂
  obtain ⟨e1, u1⟩ := C10_content T h C L raw₀ E hE xs hxs
  obtain ⟨e2, u2⟩ := C10_content T h C L raw₁ E e1 ys hys
  refine ⟨e2, fun l hl => ?_, ?_⟩
  · exact (u2 l hl).trans (u1 l hl)
  · rw [C10_noaccess]; rfl

/-- **a second save is byte-identical.** If moreover every writer builds its own lumps from scratch
(`Canon`), then re-opening the saved lumps, reading the same views and saving again reproduces every
lump byte for byte. -/
theorem C10_idem_bytes (T : Tables) (h : TablesOK T = true) (C : Codec B V) (L : Laws T C) (hcan : Canon T C)
    (raw₀ : Nat → B) (E : Nat → V) (hE : IsEnv T C raw₀ E) (xs : List Nat) (hxs : ∀ u ∈ xs, u < T.n) :
    (save T C (accesses T C xs (init (V := V) (save T C (accesses T C xs (init raw₀))).raw))).raw
      = (save T C (accesses T C xs (init raw₀))).raw := by
  obtain ⟨h1, h2, h3, h4, h5, h6, h7⟩ := ok_parts h
  exact funext (idem_bytes T C h1 h2 h3 h5 h4 h6 h7 L hcan raw₀ E hE xs hxs)

/-- The theorems at the tables of the current source. -/
theorem C10_flush_current (C : Codec B V) (raw₀ : Nat → B) (xs : List Nat) (hxs : ∀ u ∈ xs, u < 21) :
    (∀ v, (save Gen.Bsp.tables C (accesses Gen.Bsp.tables C xs (init raw₀))).parsed v = none) ∧
    (∀ l, (save Gen.Bsp.tables C (accesses Gen.Bsp.tables C xs (init raw₀))).clr l = false) :=
  C10_flush Gen.Bsp.tables C10_gen_ok C raw₀ xs hxs

/-! ## Non-vacuity, and why `Topo` is needed -/

/-- A codec satisfying the laws on any well-formed tables: a view's value is the content of its main lump. -/
def mainCodec (T : Tables) : Codec Nat Nat where
  empty := 0
  dflt := 0
  rd := fun v raw _ => raw (T.view v).main
  wr := fun v x _ raw l => if l ∈ (T.view v).clears then x else raw l

theorem C10_nonvacuous_laws (T : Tables) (hwf : WF T = true) : Laws T (mainCodec T) where
  rd_frame := fun v hv raw raw' _ _ hr _ => hr _ (by simp [main_mem_clears T hwf v hv])
  wr_frame := fun _ _ _ _ _ _ _ => rfl
  roundtrip := fun v hv raw env raw₁ _ => by
    simp [mainCodec, applyWr, main_mem_clears T hwf v hv]
  aux_stable := fun v _ raw env raw₁ _ l _ hnc => by simp [mainCodec, hnc]

theorem C10_nonvacuous_canon (T : Tables) : Canon T (mainCodec T) :=
  fun v _ x env raw raw' l hl => by simp [mainCodec, hl]

/-- the hypotheses of `C10_content` are satisfiable at the current tables, with a non-constant file. -/
example : Laws Gen.Bsp.tables (mainCodec Gen.Bsp.tables) ∧
    IsEnv Gen.Bsp.tables (mainCodec Gen.Bsp.tables) (fun l => l + 100) (fun v => (Gen.Bsp.tables.view v).main + 100) :=
  ⟨C10_nonvacuous_laws _ C10_gen_wf, fun _ _ => rfl⟩

/-- reading `water_leaf_info` (9) then `faces` (15) and saving, on the current tables: cache empty. -/
example : (save Gen.Bsp.tables (mainCodec Gen.Bsp.tables)
    (accesses Gen.Bsp.tables (mainCodec Gen.Bsp.tables) [9, 15] (init fun l => l + 100))).parsed 9 = none := by
  decide +kernel

/-- The tables as they were before the fix of `_lmp_write_water_leaf_info` (its writer evaluated
`self.water_leaf_info`): a self-edge. -/
def tablesBeforeFix : Tables :=
  { Gen.Bsp.tables with views := (List.range Gen.Bsp.tables.n).map fun v =>
      if v = 9 then { Gen.Bsp.tables.view 9 with wdeps := [3, 9] } else Gen.Bsp.tables.view v }

/-- `Topo` rejects the self-edge … -/
theorem C10_topo_rejects_self_edge : Topo tablesBeforeFix = false := by decide +kernel

/-- … and without `Topo` the flush theorem is false: reading `water_leaf_info` and saving leaves it in
the cache, re-parsed from the emptied lump (value `0` = `b''` instead of `136`). -/
theorem C10_flush_needs_topo :
    (save tablesBeforeFix (mainCodec tablesBeforeFix)
      (accesses tablesBeforeFix (mainCodec tablesBeforeFix) [9] (init fun l => l + 100))).parsed 9 = some 0 := by
  decide +kernel

/-- The tables of the current source with the reader of `orig_faces` (16) restricted to the views it really
evaluates (it never resolves texinfo; its writer does), and the rebuild loop replaced by: list the cached
views first, then walk that list. -/
def tablesSnapshotLoop : Tables :=
  { Gen.Bsp.tables with
    snapshot := true
    views := (List.range Gen.Bsp.tables.n).map fun v =>
      if v = 16 then { Gen.Bsp.tables.view 16 with rdeps := [14, 13, 18] } else Gen.Bsp.tables.view v }

/-- `LiveLoop` is needed: with the snapshot loop, reading only `orig_faces` and saving leaves `texinfo` (3)
— parsed by the `orig_faces` writer during save — in the cache with its lump TEXINFO (6) emptied; with the
live loop (same tables otherwise) it is rebuilt. -/
theorem C10_flush_needs_live_loop :
    (save tablesSnapshotLoop (mainCodec tablesSnapshotLoop)
      (accesses tablesSnapshotLoop (mainCodec tablesSnapshotLoop) [16] (init fun l => l + 100))).clr 6 = true ∧
    (save { tablesSnapshotLoop with snapshot := false } (mainCodec tablesSnapshotLoop)
      (accesses { tablesSnapshotLoop with snapshot := false } (mainCodec tablesSnapshotLoop) [16]
        (init fun l => l + 100))).clr 6 = false := by
  decide +kernel

/-! ## Concrete codecs from C11 (`Proofs/C10Concrete.lean`)

Views with their real reader / writer (C11's models over the format strings of `Gen.Bspfmt`):
**textures, cubemaps, visibility, vertexes, planes**.  Still abstract (hypothesis `AbstractOK`, only at these views):
pakfile, ents, texinfo, overlays, bmodels, brushes, visleafs, water_leaf_info, nodes, surfedges,
faces, orig_faces, hdr_faces, primitives, props, detail_props — C11's theorems for most of them are stated
over tables of object numbers (`find_or_insert` on identities), not over lump bytes + parsed views, and are not
plugged in here. -/

/-- exactly these views of the current tables have a concrete codec. -/
theorem C10_concrete_views :
    (List.range Gen.Bsp.tables.n).filter (fun v => (specOf (A := Unit) v).isSome) = [2, 4, 11, 12, 14] ∧
    ((List.range Gen.Bsp.tables.n).filter (fun v => (specOf (A := Unit) v).isSome)).map
      (fun v => (Gen.Bsp.tables.view v).name) = ["textures", "cubemaps", "visibility", "vertexes", "planes"] := by decide +kernel

/-- the format strings of the concrete codecs are the ones `bsp.py` uses to read and to write these lumps. -/
theorem C10_gen_concrete_formats :
    pairFmtOK "planes" planesFmt = true ∧ pairFmtOK "vertexes" vertexFmt = true ∧ pairFmtOK "cubemaps" cubemapFmt = true ∧
    0 < StructCodec.size planesFmt ∧ 0 < StructCodec.size vertexFmt ∧ 0 < StructCodec.size cubemapFmt := formats_ok

open StructCodec C11 in
/-- **content, with concrete codecs.** Take the tables of the current source, the real readers/writers for
planes, vertexes, cubemaps, textures and visibility (`concrete … specOf`), any codec `Ca` for the other views satisfying
the laws *at those views only* (`AbstractOK`), and a file whose four lumps are what the writers produce for
canonical records / NUL-free names shorter than the limit / rows (`FileOK` = the hypotheses of `C11_planes`,
`C11_flat_lump`, `C11_textures`, `C11_visibility`) and
whose parse is `E`.  After reading ANY views in ANY order and saving: `E` is still the parse of all lumps,
un-owned lumps are byte-identical, and — with no codec hypothesis left for them — the six lumps of the five
views decode with `planesRead` / `recsRead` / `texRead` / `visRead` to exactly what they decoded to before. -/
theorem C10_content_concrete {A : Type} (Ca : Codec Bytes (CVal A)) (raw₀ : Nat → Bytes) (E : Nat → CVal A)
    (hf : FileOK raw₀) (hE : IsEnv Gen.Bsp.tables (concrete Gen.Bsp.tables specOf Ca) raw₀ E)
    (ha : AbstractOK Gen.Bsp.tables specOf Ca raw₀ E) (xs : List Nat) (hxs : ∀ u ∈ xs, u < Gen.Bsp.tables.n) :
    let C := concrete Gen.Bsp.tables specOf Ca
    let raw' := (save Gen.Bsp.tables C (accesses Gen.Bsp.tables C xs (init raw₀))).raw
    IsEnv Gen.Bsp.tables C raw' E ∧ (∀ l, Gen.Bsp.tables.owned l = false → raw' l = raw₀ l) ∧
    planesRead planesFmt (raw' 1) = planesRead planesFmt (raw₀ 1) ∧
    recsRead vertexFmt (raw' 3) = recsRead vertexFmt (raw₀ 3) ∧
    recsRead cubemapFmt (raw' 42) = recsRead cubemapFmt (raw₀ 42) ∧
    texRead Gen.Bspfmt.textureReadLimit (raw' 43) (offsRead (raw' 44).length (raw' 44))
      = texRead Gen.Bspfmt.textureReadLimit (raw₀ 43) (offsRead (raw₀ 44).length (raw₀ 44)) ∧
    ((raw' 4 = [] ∧ raw₀ 4 = []) ∨ (raw' 4 ≠ [] ∧ raw₀ 4 ≠ [] ∧ visRead (raw' 4) = visRead (raw₀ 4))) := by
  intro C raw'
  obtain ⟨h1, h2, h3, h4, h5, h6, h7⟩ := ok_parts C10_gen_ok
  have hg := spec_good Ca raw₀ E hf hE
  have F := concrete_frame Gen.Bsp.tables specOf Ca raw₀ E spec_frame ha
  have R := concrete_roundtrip Gen.Bsp.tables h2 specOf Ca raw₀ E hg ha
  obtain ⟨_, hb, hc⟩ := content_all Gen.Bsp.tables C h1 h3 h5 h4 h7 F raw₀ E hE R xs hxs
  obtain ⟨hnone, _⟩ := flush_all Gen.Bsp.tables C h1 h2 h3 h6 h7 raw₀ xs hxs
  have hn : Gen.Bsp.tables.n = 21 := by decide +kernel
  have hE' : IsEnv Gen.Bsp.tables C raw' E := fun v hv => hb v hv (by omega) (hnone v)
  -- the four concrete views, spelled out
  have e14 := (hE' 14 (by rw [hn]; decide)).trans (hE 14 (by rw [hn]; decide)).symm
  have e12 := (hE' 12 (by rw [hn]; decide)).trans (hE 12 (by rw [hn]; decide)).symm
  have e4 := (hE' 4 (by rw [hn]; decide)).trans (hE 4 (by rw [hn]; decide)).symm
  have e11 := (hE' 11 (by rw [hn]; decide)).trans (hE 11 (by rw [hn]; decide)).symm
  have e2 := (hE' 2 (by rw [hn]; decide)).trans (hE 2 (by rw [hn]; decide)).symm
  simp only [C, concrete, specOf, planesSpec, flatSpec, visSpec, texSpec] at e14 e12 e4 e11 e2
  obtain ⟨okp, okv, okc, sp, sv, sc⟩ := formats_ok
  obtain ⟨pv, pvm, wv, wv', nv⟩ := pair_of_ok _ _ okv
  obtain ⟨pc, pcm, wc, wc', nc⟩ := pair_of_ok _ _ okc
  refine ⟨hE', hc, ?_, ?_, ?_, ?_, ?_⟩
  · obtain ⟨recs, hwr, hcn, ht⟩ := hf.planes
    have h0 := C11_planes planesFmt sp recs _ hwr hcn ht
    rw [h0] at e14 ⊢
    cases hr : planesRead planesFmt (raw' 1) with
    | ok rs => rw [hr] at e14; simp at e14; rw [e14]
    | error e => rw [hr] at e14; simp at e14
  · obtain ⟨recs, hwr, hcn⟩ := hf.vertexes
    have h0 := C11_flat_lump pv pvm vertexFmt vertexFmt wv wv' nv sv recs _ hwr hcn
    rw [h0] at e12 ⊢
    cases hr : recsRead vertexFmt (raw' 3) with
    | ok rs => rw [hr] at e12; simp at e12; rw [e12]
    | error e => rw [hr] at e12; simp at e12
  · obtain ⟨recs, hwr, hcn⟩ := hf.cubemaps
    have h0 := C11_flat_lump pc pcm cubemapFmt cubemapFmt wc wc' nc sc recs _ hwr hcn
    rw [h0] at e4 ⊢
    cases hr : recsRead cubemapFmt (raw' 42) with
    | ok rs => rw [hr] at e4; simp at e4; rw [e4]
    | error e => rw [hr] at e4; simp at e4
  · obtain ⟨names, offs, hn', hwr, htb⟩ := hf.textures
    have h0 := tex_read_of_file raw₀ names offs hn' hwr htb
    rw [h0] at e2 ⊢
    cases hr : texRead Gen.Bspfmt.textureReadLimit (raw' 43) (offsRead (raw' 44).length (raw' 44)) with
    | ok rs => rw [hr] at e2; simp at e2; rw [e2]
    | error e => rw [hr] at e2; simp at e2
  · rcases hf.visibility with h0 | ⟨hne, pvs, pas, hwr, hp, hpa⟩
    · left
      refine ⟨?_, h0⟩
      simp only [h0, if_true] at e11
      by_cases hr : raw' 4 = []
      · exact hr
      · simp only [hr, if_false] at e11
        cases hv : visRead (raw' 4) with
        | ok r => rw [hv] at e11; simp at e11
        | error e => rw [hv] at e11; simp at e11
    · right
      have h0 := C11_visibility pvs pas _ hp hpa hwr
      simp only [hne, if_false, h0] at e11
      by_cases hr : raw' 4 = []
      · simp [hr] at e11
      · simp only [hr, if_false] at e11
        refine ⟨hr, hne, ?_⟩
        rw [h0]
        cases hv : visRead (raw' 4) with
        | ok r => rw [hv] at e11; simp at e11; rw [e11]
        | error e => rw [hv] at e11; simp at e11

/-! ### non-vacuity of `C10_content_concrete` -/

namespace ConcreteExample
open StructCodec C11

/-- abstract remainder for the example: a view's value is the content of its main lump. -/
def exCa : Codec Bytes (CVal Bytes) where
  empty := []
  dflt := .bad
  rd := fun v raw _ => .other (raw (Gen.Bsp.tables.view v).main)
  wr := fun v x _ raw l => if l ∈ (Gen.Bsp.tables.view v).clears then (match x with | .other b => b | _ => []) else raw l

def exPlanes : List (List Val) := [[.f32 0, .f32 0, .f32 0x3f800000, .f32 0x42800000, .int 2], [.f32 0x3f800000, .f32 0, .f32 0, .f32 0, .int 0]]
def exVerts : List (List Val) := [[.f32 0, .f32 0, .f32 0], [.f32 0x42800000, .f32 0, .f32 0x43008000]]
def exCubes : List (List Val) := [[.int 10, .int (-20), .int 30, .int 0]]
def exNames : List Bytes := [[84, 79, 79, 76, 83, 47, 78], [110, 47, 119]]
def exPvs : List Bytes := [[1], [2]]
def exPas : List Bytes := [[3], [0]]

def getOk (e : Except LumpErr Bytes) : Bytes := match e with | .ok b => b | .error _ => []

def exRaw (l : Nat) : Bytes :=
  if l = 1 then getOk (recsWrite planesFmt exPlanes) else if l = 3 then getOk (recsWrite vertexFmt exVerts)
  else if l = 42 then getOk (recsWrite cubemapFmt exCubes) else if l = 4 then getOk (visWrite exPvs exPas)
  else if l = 43 then (match texWrite Gen.Bspfmt.textureWriteLimit exNames with | .ok p => p.1 | .error _ => [])
  else if l = 44 then (match texWrite Gen.Bspfmt.textureWriteLimit exNames with
    | .ok p => getOk (offsTable p.2) | .error _ => [])
  else [UInt8.ofNat l, 7]

theorem C10_example_file : FileOK exRaw where
  planes := ⟨exPlanes, by decide +kernel, by decide +kernel, by decide +kernel⟩
  vertexes := ⟨exVerts, by decide +kernel, by decide +kernel⟩
  cubemaps := ⟨exCubes, by decide +kernel, by decide +kernel⟩
  textures := ⟨exNames, [0, 8], by decide +kernel, by decide +kernel, by decide +kernel⟩
  visibility := Or.inr ⟨by decide +kernel, exPvs, exPas, by decide +kernel, by decide +kernel, by decide +kernel⟩

def exE : Nat → CVal Bytes := fun v => (concrete Gen.Bsp.tables specOf exCa).rd v exRaw (fun _ => .bad)

theorem C10_example_env : IsEnv Gen.Bsp.tables (concrete Gen.Bsp.tables specOf exCa) exRaw exE := by
  intro v _
  unfold exE
  cases hsp : specOf (A := Bytes) v with
  | none => simp [concrete, hsp, exCa]
  | some S => simp [concrete, hsp]

theorem C10_example_abstract : AbstractOK Gen.Bsp.tables specOf exCa exRaw exE where
  rd_frame := fun v hv _ raw raw' _ _ hr _ => by
    simp only [exCa]
    rw [hr _ (by simp [main_mem_clears Gen.Bsp.tables C10_gen_wf v hv])]
  wr_frame := fun _ _ _ _ _ _ _ _ => rfl
  roundtrip := fun v hv hsp raw₁ _ => by
    have hm := main_mem_clears Gen.Bsp.tables C10_gen_wf v hv
    simp [exCa, applyWr, hm, exE, concrete, hsp]
  aux_stable := fun v _ _ raw₁ _ l _ hnc => by simp [exCa, hnc]

/-- `C10_content_concrete` applies to it: e.g. after reading planes, faces and visibility and saving. -/
example : planesRead planesFmt
    ((save Gen.Bsp.tables (concrete Gen.Bsp.tables specOf exCa)
      (accesses Gen.Bsp.tables (concrete Gen.Bsp.tables specOf exCa) [14, 15, 11] (init exRaw))).raw 1) = .ok exPlanes := by
  have h := (C10_content_concrete exCa exRaw exE (by exact C10_example_file) C10_example_env C10_example_abstract [14, 15, 11] (by decide +kernel)).2.2.1
  rw [h]
  decide +kernel

end ConcreteExample

/-! ## The byte layer (`Model/C10Bytes.lean`): header, lump table, revision, bodies, game-lump section -/

open Bytes in
/-- **layout.** For every BSP value that fits (sizes below 2³¹, 64 lumps, compressed lumps non-empty,
PAKFILE uncompressed, GAME_LUMP raw data empty, game lump ids non-zero), any lump body order that
contains every lump once, and both header field orders: reading the bytes `save` lays out gives back
the version, revision, every lump's version / flag / (decompressed) bytes and every game lump's
id / flags / version / (decompressed) bytes. -/
theorem C10_layout (Z : Lzma) (hZ : Z.Inverse) (order : List Nat) (l4d2 : Bool) (x : Bsp) (F : Fits Z order l4d2 x) :
    readFile Z (writeFile Z order l4d2 x) l4d2 = x :=
  layout_roundtrip Z hZ order l4d2 x F

/-- the body order of the current source (`LUMP_WRITE_ORDER`) is admissible for `C10_layout`. -/
theorem C10_layout_order_current :
    Gen.Bsp.tables.writeOrder.Nodup ∧ ∀ id, id < 64 → id ∈ Gen.Bsp.tables.writeOrder := by decide +kernel

open Bytes in
/-- the L4D2 detection of `BSP.read` (first header int of lump 0 is zero) recognises what `save` wrote:
in L4D2 order exactly when the entity lump has version 0, never in the normal order. -/
theorem C10_layout_detect (Z : Lzma) (order : List Nat) (x : Bsp) :
    (Fits Z order true x → looksL4D2 (writeFile Z order true x) = ((x.lumps.getD 0 default).version == 0)) ∧
    (Fits Z order false x → looksL4D2 (writeFile Z order false x) = false) :=
  ⟨detect_l4d2 Z order x, detect_normal Z order x⟩

namespace LayoutExample
open Bytes

/-- a toy LZMA: prepend a byte. -/
def Z : Lzma := { comp := fun b => 76 :: b, decomp := fun b => b.tail }
example : Z.Inverse := fun _ => rfl

def sample : Bsp :=
  { magic := 1347633750, version := 21, revision := 4294967293
    lumps := (List.range 64).map fun i =>
      if i = 0 then ⟨0, [123, 10, 125, 10, 0], true⟩ else if i = 1 then ⟨0, [1, 2, 3], false⟩
      else if i = 10 then ⟨1, [9, 9], true⟩ else if i = 40 then ⟨3, [80, 75, 5, 6], false⟩ else ⟨0, [], false⟩
    game := [⟨1936749168, 0, 10, [4, 5, 6, 7]⟩, ⟨1685090928, 1, 4, [8, 9]⟩] }

/-- the round trip, computed, with the write order of the current source, in both header orders
(compressed lumps, a compressed last game lump → dummy directory entry). -/
example : readFile Z (writeFile Z Gen.Bsp.tables.writeOrder false sample) false = sample := by decide +kernel
example : readFile Z (writeFile Z Gen.Bsp.tables.writeOrder true sample) true = sample := by decide +kernel
example : needDummy sample.game = true := by decide +kernel

/-- … and the hypotheses of `C10_layout` hold for it. -/
example : Fits Z Gen.Bsp.tables.writeOrder true sample where
  file := by decide +kernel
  magic := by decide +kernel
  version := by decide +kernel
  revision := by decide +kernel
  lumps := by decide +kernel
  lump := by decide +kernel
  gameLump := by decide +kernel
  pak := by decide +kernel
  game := by decide +kernel
  order := C10_layout_order_current

end LayoutExample

end C10
