import Srctools.Model.C10
import Srctools.Gen.Bsp
/-! # C10 — obligations on the tables of the current source (theorems follow) -/
namespace C10

theorem C10_gen_wf : WF Gen.Bsp.tables = true := by decide +kernel
theorem C10_gen_writes_all : WritesAll Gen.Bsp.tables = true := by decide +kernel
theorem C10_gen_topo : Topo Gen.Bsp.tables = true := by decide +kernel
theorem C10_gen_racyclic : RAcyclic Gen.Bsp.tables = true := by decide +kernel
theorem C10_gen_frame : Frame Gen.Bsp.tables = true := by decide +kernel
theorem C10_gen_borrow : BorrowOK Gen.Bsp.tables = true := by decide +kernel

end C10
