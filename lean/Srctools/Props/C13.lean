import Srctools.Proofs.C13Verify
import Srctools.Proofs.C13Size
import Srctools.Proofs.C13V2
import Srctools.Gen.Vpk
/-!
# C13 — VPK archives return exactly what was last written, across reopen

Property theorems only.  All statements are about the executable model `C13` of
`/repo/src/srctools/vpk.py` (Model/C13.lean; the specification is Model/C13Spec.lean), for an
arbitrary checksum function `crc`.  Hypotheses that restrict the domain are explicit and decidable:

* `TreeWF t` — the tree is a dict of dicts (distinct keys per level), every name part is
  representable (`strOK`: ASCII/surrogateescape characters, no NUL, not the string `" "`), entries
  are normalised (`infoNorm`);
* `Tree.fits` / `runFits` — every field fits its 16/32-bit slot (`struct.pack` does not raise);
* `opOK` — name parts contain no NUL and are not `" "`, archive indexes differ from `0x7fff`.
The classes excluded by `opOK` are open known findings (witness theorems at the end).
-/
namespace C13

/-- OBLIGATION on the current source: constants, struct layouts, field orders, the `" "` convention,
mode table and the shape of `FileInfo.write` regenerated from `vpk.py` are the ones the model uses. -/
theorem C13_gen_ok :
    Gen.Vpk.sig = VPK_SIG ∧ Gen.Vpk.dirArchIndex = DIR_ARCH_INDEX ∧ Gen.Vpk.maxDirData = MAX_DIR_DATA
    ∧ Gen.Vpk.headerFmtRead = "<III" ∧ Gen.Vpk.headerFmtWrite = "<III"
    ∧ Gen.Vpk.headerArgsWrite = ["VPK_SIG", "self.version", "0"]
    ∧ Gen.Vpk.treeLenFmtWrite = "<I" ∧ Gen.Vpk.treeLenSkipFmt = "<II"
    ∧ Gen.Vpk.entryFmtRead = "<IHHIIH" ∧ Gen.Vpk.entryFmtWrite = "<IHHIIH"
    ∧ Gen.Vpk.entryFieldsRead = ["crc", "index_len", "arch_ind", "offset", "arch_len", "end"]
    ∧ Gen.Vpk.entryArgsWrite = ["info.crc", "len(info.start_data)", "arch_ind", "info.offset", "info.arch_len", "65535"]
    ∧ Gen.Vpk.terminatorRead = 0xffff
    ∧ Gen.Vpk.zeroOffsetWhenNoArchData = true ∧ Gen.Vpk.earlyExitOnHeaderLen = true
    ∧ Gen.Vpk.sortedLevelsWrite = 3
    ∧ Gen.Vpk.nullstringConstants = [[32, 0], [0]] ∧ Gen.Vpk.blankComparisonsRead = [" ", ""]
    ∧ Gen.Vpk.modes = [("READ", "r"), ("WRITE", "w"), ("APPEND", "a")] ∧ Gen.Vpk.writableModes = "wa"
    ∧ Gen.Vpk.fileInfoWriteShape = ["data[:dir_limit]", "data[dir_limit:]", "dir_limit > MAX_DIR_DATA",
        "dir_limit = MAX_DIR_DATA", "dir_limit = arch_index = None", "self.offset = len(self.vpk.footer_data)",
        "self.vpk.footer_data += arch_data", "data == self.read()", "len(data) == self.size",
        "self.offset = file.seek(0, os.SEEK_END)"]
    ∧ Gen.Vpk.emptyChecksumExpr = "checksum(b'')" ∧ Gen.Vpk.checksumBody = ["return crc32(data, prior)"] := by
  decide

/-! ## the directory file -/

/-- **`load_dirfile ∘ write_dirfile` is the identity.**  For every well-formed tree whose fields fit and
every footer: decoding the written bytes succeeds, gives back the footer and version 1, and a tree
(`rawTree t`: the same dicts in file order) in which every key maps to the same entry; that tree
is again well formed. -/
theorem C13_dir (t : Tree) (f : Bytes) (hwf : TreeWF t) (hfit : t.fits = true) :
    decodeDir (encodeDir 1 t f) = .ok ⟨rawTree t, f, 1⟩
    ∧ (∀ k, Tree.lookup (rawTree t) k = t.lookup k) ∧ TreeWF (rawTree t) :=
  ⟨decodeDir_encodeDir t f hwf hfit, fun k => lookup_rawTree hwf k, treeWF_rawTree hwf⟩

/-- **Reading a version-2 directory.**  A file with the 28-byte version-2 header (any 16 bytes of section
sizes) followed by the same tree and any trailing sections is loaded with the same tree, everything
after the tree as `footer_data` (offsets of entries stored in the directory file are relative to
it), and version 2 — after which `write_dirfile` is refused (`step … .flush = .err .v2`). -/
theorem C13_dir_v2 (t : Tree) (f x : Bytes) (hx : x.length = 16) (hwf : TreeWF t) (hfit : t.fits = true) :
    decodeDir (le32 VPK_SIG ++ (le32 2 ++ (le32 (encTree t).length ++ (x ++ (encTree t ++ f)))))
      = .ok ⟨rawTree t, f, 2⟩ :=
  decodeDir_encode_v2 t f x hx hwf hfit

/-- one name string: what `iter_nullstr` yields for the bytes `_write_nullstring` wrote, wherever they sit -/
theorem C13_dir_string (s : Str) (rest : Bytes) (h : strOK s = true) :
    ∃ b, readCStr (encStr s ++ rest) = some (b, rest) ∧ itemOf b = some s :=
  ⟨strBytes s, readCStr_encStr s rest h, itemOf_strBytes s h⟩

/-- one 18-byte entry + preload bytes -/
theorem C13_dir_entry (i : Info) (rest : Bytes) (hf : i.fits = true) (hn : infoNorm i = true) :
    decEntry (encEntry i ++ rest) = .ok (i, rest) :=
  decEntry_encEntry i rest hf hn

/-! ## read after write -/

/-- **`read()` after `write(data, arch_index)` returns `data` and `verify()` is true**, for every preload
limit, every archive index, directory and single-file archives, every previous state of the entry
(including the early return for identical data) — i.e. for all four placements. -/
theorem C13_read_write (crc : Bytes → Nat) (single : Bool) (lim : Option Nat) (archs : List (Nat × Bytes))
    (footer : Bytes) (i : Info) (data : Bytes) (idx : Option Nat) (wr : Written)
    (h : writeInfo crc single lim archs footer i data idx = .ok wr) :
    readInfo wr.archs wr.footer wr.info = .ok data ∧ verifyInfo crc wr.archs wr.footer wr.info = .ok true := by
  have := readInfo_writeInfo crc single lim archs footer i data idx wr h
  exact ⟨this.1, by simp [verifyInfo, this.1, this.2]⟩

/-- the write never fails on an entry whose archive part exists, and it leaves every other such entry
readable with unchanged contents (archives and the directory tail only grow at the end). -/
theorem C13_read_write_frame (crc : Bytes → Nat) (single : Bool) (lim : Option Nat) (archs : List (Nat × Bytes))
    (footer : Bytes) (i : Info) (data : Bytes) (idx : Option Nat) (hidx : idxOK idx = true)
    (hn : infoNorm i = true) (hv : InfoValid archs footer i) :
    ∃ wr, writeInfo crc single lim archs footer i data idx = .ok wr ∧
      ∀ i', InfoValid archs footer i' →
        InfoValid wr.archs wr.footer i' ∧ readInfo wr.archs wr.footer i' = readInfo archs footer i' := by
  obtain ⟨wr, hwr, _⟩ := writeInfo_facts crc single lim archs footer i data idx hidx hn hv
  exact ⟨wr, hwr, fun i' hv' => writeInfo_frame crc single lim archs footer i data idx hidx hn hv wr hwr i' hv'⟩

/-! ## refinement: every history behaves like the map `name ⇀ bytes` -/

/-- **Refinement, from any related pair of states.** -/
theorem C13_refine_from (crc : Bytes → Nat) (ops : List Op) (w : World) (s : Spec) (hR : R crc w s)
    (hok : ∀ op ∈ ops, opOK op = true) (hfit : runFits crc w ops = true) :
    (run crc w ops).2 = (specRun s ops).2 ∧ R crc (run crc w ops).1 (specRun s ops).1 :=
  run_refines crc ops w s hR hok hfit

/-- **Refinement.**  For EVERY finite history of `VPK(mode, limit)` (re)opens in r/w/a,
`new_file`, `add_file`, `FileInfo.write`, `del`, `write_dirfile` and `in` on a directory or single-file
archive starting from an empty folder: every operation returns what the specification returns
(same success/error), and afterwards the open archive lists exactly the specification's files
(`keys`), `read()` of every name gives exactly the specification's bytes, and `verify_all()` is
true.  Since the statement holds for every prefix, it holds after every reopen. -/
theorem C13_refine (crc : Bytes → Nat) (single : Bool) (ops : List Op)
    (hok : ∀ op ∈ ops, opOK op = true) (hfit : runFits crc (World.init single) ops = true) :
    (run crc (World.init single) ops).2 = (specRun Spec.init ops).2
    ∧ (∀ k, (run crc (World.init single) ops).1.read k = (specRun Spec.init ops).1.read k)
    ∧ (∀ k, k ∈ (run crc (World.init single) ops).1.keys ↔ ((specRun Spec.init ops).1.read k).isSome = true)
    ∧ (run crc (World.init single) ops).1.verifyAll crc = .ok true := by
  have h := run_refines crc ops _ _ (R_init crc single) hok hfit
  exact ⟨h.1, fun k => R_read h.2 k, fun k => R_keys h.2 k, R_verify h.2⟩

/-- **No `struct.error` from a size budget.**  `runFits` (the hypothesis of `C13_refine`) follows from a
decidable bound on the history alone: every archive index fits 16 bits and
`histCost ops` — the sum over the operations of payload length + name lengths + 26 (twice the
name part for `add_file`) — is below 2³² − 1, for any checksum with 32-bit values. -/
theorem C13_fits_of_size (crc : Bytes → Nat) (hcrc : ∀ b, crc b < 4294967296) (single : Bool) (ops : List Op)
    (hok : ∀ op ∈ ops, opOK op = true ∧ idxSmall op = true) (hsize : histCost ops + 1 < 4294967296) :
    runFits crc (World.init single) ops = true :=
  runFits_of_cost crc hcrc ops _ _ 0 (R_init crc single) (sizeInv_init single) hok (by omega)

/-- **Refinement with only static, decidable hypotheses on the history** (`opOK`, `idxSmall`, `histCost`):
the conclusion of `C13_refine` for every such history. -/
theorem C13_refine_sized (crc : Bytes → Nat) (hcrc : ∀ b, crc b < 4294967296) (single : Bool) (ops : List Op)
    (hok : ∀ op ∈ ops, opOK op = true ∧ idxSmall op = true) (hsize : histCost ops + 1 < 4294967296) :
    (run crc (World.init single) ops).2 = (specRun Spec.init ops).2
    ∧ (∀ k, (run crc (World.init single) ops).1.read k = (specRun Spec.init ops).1.read k)
    ∧ (∀ k, k ∈ (run crc (World.init single) ops).1.keys ↔ ((specRun Spec.init ops).1.read k).isSome = true)
    ∧ (run crc (World.init single) ops).1.verifyAll crc = .ok true :=
  C13_refine crc single ops (fun op h => (hok op h).1) (C13_fits_of_size crc hcrc single ops hok hsize)

/-! ## names -/

/-- **The three spellings of a file name resolve to the same triple**: `"d/n.e"`, `("d", "n.e")` and
`("d", "n", "e")`, for every folder `d` not ending in `/` (it may be empty, unnormalised, contain
back-slashes …), every name `n` without `/`, every extension `e` without `/` and `.`; when the
extension is empty the name must not contain a `.` (otherwise all three split it the same way,
but not into `(n, "")`). -/
theorem C13_names (d n e : Str) (hn : SLASH ∉ n) (hes : SLASH ∉ e) (he : DOT ∉ e)
    (hne : e = [] → DOT ∉ n) (hl : d.getLast? ≠ some SLASH) :
    getFileParts (.str (joinFileParts ⟨d, n, e⟩)) = ⟨cleanPath d, n, e⟩
    ∧ getFileParts (.pair d (n ++ dotExt e)) = ⟨cleanPath d, n, e⟩
    ∧ getFileParts (.triple d n e) = ⟨cleanPath d, n, e⟩ :=
  ⟨getFileParts_str d n e hn hes he hne hl, getFileParts_pair d n e he hne, getFileParts_triple d n e hne⟩

/-! ## read-only archives -/

/-- **Mode `r` rejects every mutation**: `new_file`, `add_file`, `write`, `del`, `write_dirfile` return
an error and change nothing — neither the open archive nor any file on disk; leaving a `with`
block of a read-only archive changes nothing either (and is not an error). -/
theorem C13_readonly (crc : Bytes → Nat) (w : World) (v : Vpk) (hv : w.vpk = some v) (hm : v.mode = .r) :
    (∀ op : Op, (∀ m l, op ≠ .openVpk m l) → (∀ n, op ≠ .has n) → (∀ b, op ≠ .exit b) →
      (step crc w op).1 = w ∧ ∃ e, (step crc w op).2 = .err e)
    ∧ ∀ b, step crc w (.exit b) = (w, .ok) :=
  ⟨fun op hop hh hx => step_readonly crc w v hv hm op hop hh hx, fun b => step_exit_readonly crc w v hv hm b⟩

/-! ## the context manager -/

/-- **`with VPK(path, mode) as v: …`**: `__exit__` after an exception inside the block saves nothing and
changes nothing; `__exit__` after a normal end of a writable archive is exactly `write_dirfile()`
(so by `C13_refine`, whose histories contain `exit` operations, a session that relies solely on
leaving the block — including one that only called `new_file()` or wrote zero-length payloads —
is fully there after reopening). -/
theorem C13_exit (crc : Bytes → Nat) (w : World) (v : Vpk) (hv : w.vpk = some v) :
    step crc w (.exit true) = (w, .ok)
    ∧ (v.mode.writable = true → step crc w (.exit false) = step crc w .flush) :=
  ⟨step_exit_exception crc w v hv, fun hm => step_exit_normal crc w v hv hm⟩

/-! ## damage detection -/

/-- **`verify_all()` is true exactly when every listed file is readable and the checksum of what it reads
equals the stored CRC; and, when every file is readable (no archive missing), it is false exactly
when some file's bytes have a checksum different from the stored one.**  So any damage to stored
bytes that changes the checksum (for CRC-32: every change confined to 32 consecutive bits) is reported. -/
theorem C13_verify_all_iff (crc : Bytes → Nat) (w : World) (v : Vpk) (hv : w.vpk = some v) :
    (w.verifyAll crc = .ok true ↔
      ∀ x ∈ v.tree.entries, ∃ d, readInfo w.archs v.footer x.2 = .ok d ∧ crc d = x.2.crc)
    ∧ ((∀ x ∈ v.tree.entries, ∃ d, readInfo w.archs v.footer x.2 = .ok d) →
        (w.verifyAll crc = .ok false ↔
          ∃ x ∈ v.tree.entries, ∃ d, readInfo w.archs v.footer x.2 = .ok d ∧ crc d ≠ x.2.crc)) := by
  simp only [World.verifyAll, hv]
  exact ⟨verifyAll_true_iff crc _ _ _, verifyAll_false_iff crc _ _ _⟩

/-! ## non-vacuity: concrete instances satisfying the hypotheses -/

deriving instance DecidableEq for Except

/-- a toy checksum for the examples (the theorems hold for every function) -/
def exCrc (b : Bytes) : Nat := b.foldl (fun a x => (a * 31 + x + 1) % 65521) 0

def exName (s : String) : Str := s.toList.map Char.toNat

/-- files in all four placements: preload only, directory tail, numbered archive, and an empty part names -/
def exTree : Tree :=
  [([116, 120, 116], [([97], [([110], ⟨7, none, 0, 0, [1, 2, 3]⟩), ([], ⟨9, some 1, 4, 2, [5]⟩)]),
                      ([], [([109], ⟨3, none, 0, 6, []⟩)])]),
   ([], [([97, 47, 98], [([0xDC80], ⟨0, none, 0, 0, []⟩)])])]

example : TreeWF exTree ∧ exTree.fits = true := by decide +kernel

example : decodeDir (encodeDir 1 exTree [9, 9, 9, 9, 9, 9]) = .ok ⟨rawTree exTree, [9, 9, 9, 9, 9, 9], 1⟩ :=
  (C13_dir exTree _ (by decide +kernel) (by decide +kernel)).1

/-- a history through all placements, overwrite, delete, reopen in r, a, w -/
def exOps : List Op :=
  [.openVpk .w (some 2),
   .addFile (.str [97, 47, 110, 46, 101]) [1, 2, 3, 4, 5] (some 1),       -- numbered archive + preload
   .addFile (.pair [97] [109]) [6, 7, 8] none,                              -- directory tail + preload
   .addFile (.triple [] [] [101]) [9] (some 0),                             -- preload only
   .newFile (.str [122]),
   .write (.triple [97] [110] [101]) [5, 4, 3, 2, 1, 0] none,               -- overwrite, moves to the tail
   .flush,
   .openVpk .r none,
   .write (.str [122]) [1] none,                                            -- rejected
   .openVpk .a (some 0),
   .del (.str [97, 47, 109]),
   .write (.str [122]) [4, 4, 4, 4] (some 7),
   .flush,
   .openVpk .r (some 16)]

example : (∀ op ∈ exOps, opOK op = true) ∧ runFits exCrc (World.init false) exOps = true
    ∧ runFits exCrc (World.init true) exOps = true := by decide +kernel

example : (∀ b, exCrc b < 4294967296) ∧ (∀ op ∈ exOps, opOK op = true ∧ idxSmall op = true)
    ∧ histCost exOps + 1 < 4294967296 := by
  refine ⟨?_, by decide +kernel, by decide +kernel⟩
  intro b
  suffices h : ∀ (l : Bytes) (a : Nat), a < 65521 → l.foldl (fun a x => (a * 31 + x + 1) % 65521) a < 65521 by
    have := h b 0 (by omega); unfold exCrc; omega
  intro l
  induction l with
  | nil => intro a ha; simpa using ha
  | cons x xs ih => intro a _; exact ih _ (Nat.mod_lt _ (by omega))

example : (run exCrc (World.init false) exOps).2
    = [.ok, .ok, .ok, .ok, .ok, .ok, .ok, .ok, .err .readonly, .ok, .ok, .ok, .ok, .ok] := by decide +kernel

example : (run exCrc (World.init false) exOps).1.read ⟨[97], [110], [101]⟩ = some (.ok [5, 4, 3, 2, 1, 0])
    ∧ (run exCrc (World.init true) exOps).1.read ⟨[], [122], []⟩ = some (.ok [4, 4, 4, 4])
    ∧ (run exCrc (World.init false) exOps).1.read ⟨[97], [109], []⟩ = none := by decide +kernel

example : getFileParts (.str (exName "a//b/../c/n.e")) = ⟨exName "a/c", exName "n", exName "e"⟩ := by decide +kernel

example : (step exCrc ⟨false, some [], [], some ⟨[], [], .r, none, 1⟩⟩ (.addFile (.str [97]) [1] none)).2
    = .err .readonly
    ∧ (step exCrc ⟨false, some [], [], some ⟨[], [], .r, none, 1⟩⟩ (.exit false)).2 = .ok := by decide +kernel

/-- the seeded scenario: an existing archive, `with VPK(path, 'a')` adding only zero-length files
(`add_file(name, b'')`, `new_file`), saved only by leaving the block; after reopening all are there.
With an exception in the block they are not. -/
def exWithOps (exc : Bool) : List Op :=
  [.openVpk .w (some 1024), .addFile (.str (exName "materials/wall.vmt")) [1, 2, 3] (some 0), .exit false,
   .openVpk .a (some 1024), .addFile (.str (exName "cfg/empty.cfg")) [] (some 0),
   .newFile (.triple (exName "scripts") (exName "placeholder") (exName "txt")), .exit exc,
   .openVpk .r none]

example : (run exCrc (World.init false) (exWithOps false)).1.keys.length = 3
    ∧ (run exCrc (World.init false) (exWithOps false)).1.read ⟨exName "cfg", exName "empty", exName "cfg"⟩ = some (.ok [])
    ∧ (run exCrc (World.init false) (exWithOps false)).1.read ⟨exName "scripts", exName "placeholder", exName "txt"⟩ = some (.ok [])
    ∧ (run exCrc (World.init false) (exWithOps true)).1.keys.length = 1
    ∧ (specRun Spec.init (exWithOps true)).1.read ⟨exName "cfg", exName "empty", exName "cfg"⟩ = none := by
  decide +kernel

/-- one changed byte in a numbered archive: every file still reads, `verify_all()` is false -/
example :
    let w : World := ⟨false, none, [(1, [9, 9, 7, 7])], some ⟨[([], [([], [([97], ⟨exCrc [1, 7, 8], some 1, 2, 2, [1]⟩)])])], [], .r, none, 1⟩⟩
    w.read ⟨[], [97], []⟩ = some (.ok [1, 7, 7]) ∧ w.verifyAll exCrc = .ok false := by decide +kernel

/-! ## the excluded classes are necessary: witnesses (open known findings, replayed on the implementation) -/

def exSpaceTree : Tree := [([101], [([97], [([32], ⟨0, none, 0, 0, [1]⟩)])])]
def exNulTree : Tree := [([101], [([97], [([110, 0, 109], ⟨0, none, 0, 0, [1]⟩)])])]
def ex7fffOps : List Op := [.openVpk .w (some 1), .addFile (.str [97]) [1, 2, 3] none,
  .addFile (.str [98]) [7, 8, 9] (some 0x7fff), .flush, .openVpk .r none]

/-- a name part `" "` comes back as the empty string: `C13_dir` is false without `strOK` -/
theorem C13_name_space_witness :
    (decodeDir (encodeDir 1 exSpaceTree [])).toOption.map (fun l => l.tree.lookup ⟨[97], [32], [101]⟩) = some none
    ∧ (decodeDir (encodeDir 1 exSpaceTree [])).toOption.map (fun l => l.tree.lookup ⟨[97], [], [101]⟩)
        = some (some ⟨0, none, 0, 0, [1]⟩)
    ∧ exSpaceTree.lookup ⟨[97], [32], [101]⟩ = some ⟨0, none, 0, 0, [1]⟩ := by
  decide +kernel

/-- a name part containing NUL makes the written directory unreadable (bad terminator) -/
theorem C13_name_nul_witness :
    (match decodeDir (encodeDir 1 exNulTree []) with | .error e => some e | .ok _ => none) = some Err.badterm := by
  decide +kernel

/-- a name ending in `.` loses the dot: `"x."` resolves to name `x`, no extension, and is listed as `"x"` -/
theorem C13_name_trailing_dot_witness :
    getFileParts (.str [120, 46]) = ⟨[], [120], []⟩ ∧ joinFileParts (getFileParts (.str [120, 46])) = [120] := by
  decide +kernel

/-- archive index `0x7fff` is read back as "stored after the directory tree": the model (like the
code) returns bytes of the footer instead of the data written; `C13_refine` is false without `idxOK` -/
theorem C13_index_7fff_witness :
    (run exCrc (World.init false) ex7fffOps).1.read ⟨[], [98], []⟩ = some (.ok [7, 2, 3])
    ∧ (specRun Spec.init ex7fffOps).1.read ⟨[], [98], []⟩ = some (.ok [7, 8, 9]) := by
  decide +kernel

end C13
