import Srctools.Model.C13
import Srctools.Gen.Vpk
/-!
# C13 — VPK archives return exactly what was last written, across reopen

Property theorems only.  All statements are about the model `C13` (Model/C13.lean).
-/
namespace C13

/-- OBLIGATION on the current source: constants, struct layouts, field orders, the `" "` convention,
mode table and the shape of `FileInfo.write` regenerated from `vpk.py` are the ones the model uses. -/
theorem C13_gen_ok :
    Gen.Vpk.sig = VPK_SIG ∧ Gen.Vpk.dirArchIndex = DIR_ARCH_INDEX ∧ Gen.Vpk.maxDirData = MAX_DIR_DATA
    ∧ Gen.Vpk.headerFmtRead = "<III" ∧ Gen.Vpk.headerFmtWrite = "<III"
    ∧ Gen.Vpk.headerArgsWrite = ["VPK_SIG", "self.version", "0"]
    ∧ Gen.Vpk.treeLenFmtWrite = "<I" ∧ Gen.Vpk.treeLenSkipFmt = "<II"
    ∧ Gen.Vpk.entryFmtRead = "<IHHIIH" ∧ Gen.Vpk.entryFmtWrite = "<IHHIIH"
    ∧ Gen.Vpk.entryFieldsRead = ["crc", "index_len", "arch_ind", "offset", "arch_len", "end"]
    ∧ Gen.Vpk.entryArgsWrite = ["info.crc", "len(info.start_data)", "arch_ind", "info.offset", "info.arch_len", "65535"]
    ∧ Gen.Vpk.terminatorRead = 0xffff
    ∧ Gen.Vpk.zeroOffsetWhenNoArchData = true ∧ Gen.Vpk.earlyExitOnHeaderLen = true
    ∧ Gen.Vpk.sortedLevelsWrite = 3
    ∧ Gen.Vpk.nullstringConstants = [[32, 0], [0]] ∧ Gen.Vpk.blankComparisonsRead = [" ", ""]
    ∧ Gen.Vpk.modes = [("READ", "r"), ("WRITE", "w"), ("APPEND", "a")] ∧ Gen.Vpk.writableModes = "wa"
    ∧ Gen.Vpk.fileInfoWriteShape = ["data[:dir_limit]", "data[dir_limit:]", "dir_limit > MAX_DIR_DATA",
        "dir_limit = MAX_DIR_DATA", "dir_limit = arch_index = None", "self.offset = len(self.vpk.footer_data)",
        "self.vpk.footer_data += arch_data", "data == self.read()", "len(data) == self.size",
        "self.offset = file.seek(0, os.SEEK_END)"]
    ∧ Gen.Vpk.emptyChecksumExpr = "checksum(b'')" ∧ Gen.Vpk.checksumBody = ["return crc32(data, prior)"] := by
  decide

end C13
