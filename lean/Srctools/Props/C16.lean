import Srctools.Proofs.C16Bin
import Srctools.Gen.Fgdw
/-!
# C16 — FGD definitions survive text export, binary database, and lazy loading

Property theorems only (statements about the models in Model/C16*.lean; proofs in Proofs/C16*.lean).
-/
namespace C16
open C16.Bin

/-! ## (ii) binary database: string dictionary and records -/

/-- OBLIGATION on the current source: the index tables of `_engine_db.py` are usable as a code:
every `ValueTypes` / `FileType` member has a position, positions fit in 7 bits (bit 7 carries the
`readonly` / `has tags` flag), decoding the position of a member gives the member back, entity kinds
are distinct 3-bit values below the alias bit, and the shared dictionary has room in 16 bits. -/
theorem C16_gen_tables_ok :
    (Gen.Fgdw.valueTypes.all fun t =>
        (Gen.Fgdw.lastIdx Gen.Fgdw.valueTypeOrder t).any fun i => Gen.Fgdw.valueTypeOrder[i]? == some t) = true ∧
    (Gen.Fgdw.fileTypes.all fun t =>
        (Gen.Fgdw.lastIdx Gen.Fgdw.fileTypeOrder t).any fun i => Gen.Fgdw.fileTypeOrder[i]? == some t) = true ∧
    Gen.Fgdw.typeCfg.nTypes ≤ 128 ∧ Gen.Fgdw.typeCfg.nFileTypes ≤ 128 ∧
    Gen.Fgdw.typeCfg.choices ≠ Gen.Fgdw.typeCfg.spawnflags ∧
    (Gen.Fgdw.entityFlags.map (·.2)).Nodup ∧ (Gen.Fgdw.entityFlags.all fun p => p.2 < 8) = true ∧
    Gen.Fgdw.maskType = 7 ∧ Gen.Fgdw.isAlias = 8 ∧ Gen.Fgdw.sharedStrings < 65536 := by
  decide +kernel

/-- **String dictionary.** For a dictionary whose shared part has exactly `SHARED_STRINGS` entries
(what `serialise` asserts), every string of the dictionary is written as two bytes from which the
reader recovers exactly that string, whatever follows. -/
theorem C16_strdict {d : StrDict} (hd : d.WF) {s : Str} (hs : s ∈ d.table) :
    ∃ bs, d.encode s = some bs ∧ bs.length = 2 ∧ (∀ b ∈ bs, b < 256) ∧
      ∀ rest, readStr d.table (bs ++ rest) = some (s, rest) :=
  strdict_roundtrip hd hs

/-- Only strings of the dictionary can be written at all. -/
theorem C16_strdict_mem {d : StrDict} (hd : d.WF) {s : Str} {bs : Bytes} (h : d.encode s = some bs) :
    s ∈ d.table := StrDict.encode_mem hd h

/-- The hypothesis `len(base) == SHARED_STRINGS` cannot be dropped: with a shorter shared table the
writer's constant offset and the reader's concatenated list disagree. -/
theorem C16_strdict_needs_full_base :
    ∃ d : StrDict, d.own.Nodup ∧ d.base.Nodup ∧ ['b'] ∈ d.table ∧
      ∃ bs, d.encode ['b'] = some bs ∧ readStr d.table bs = none :=
  ⟨{ shared := 5, base := [['a']], own := [['b']], isBase := false }, by decide +kernel⟩

/-- **Keyvalue record.** Whenever `kv_serialise` succeeds (untagged, not CHOICES, spawnflag masks powers
of two), `kv_unserialise` reads back exactly the stripped keyvalue (no description, not reportable,
spawnflags without default) and leaves the following bytes untouched. -/
theorem C16_kv {c : TypeCfg} {d : StrDict} (hd : d.WF) (hc : c.nTypes ≤ 128) {kv : KV} {bs : Bytes}
    (ht : kv.typ < c.nTypes) (hp : ∀ f ∈ kv.flags, ∃ p, f.mask = 2 ^ p) (h : kvSer c d kv = some bs)
    (rest : Bytes) : kvUnser c d.table (bs ++ rest) = some (kvStrip c kv, rest) :=
  kv_roundtrip hd hc ht hp h rest

/-- **Entity record.** `ent_unserialise ∘ ent_serialise = strip` on every entity the writer accepts. -/
theorem C16_ent {c : TypeCfg} {d : StrDict} (hd : d.WF) (hc : c.nTypes ≤ 128) (hf : c.nFileTypes ≤ 128)
    {e : Ent} (he : e.Ok c) {bs : Bytes} (h : entSer c d e = some bs) (rest : Bytes) :
    entUnser c d.table (bs ++ rest) = some (entStrip c e, rest) :=
  ent_roundtrip hd hc hf he h rest

/-- The record theorems at the tables of the current source. -/
theorem C16_ent_current {d : StrDict} (hd : d.WF) {e : Ent} (he : e.Ok Gen.Fgdw.typeCfg) {bs : Bytes}
    (h : entSer Gen.Fgdw.typeCfg d e = some bs) (rest : Bytes) :
    entUnser Gen.Fgdw.typeCfg d.table (bs ++ rest) = some (entStrip Gen.Fgdw.typeCfg e, rest) :=
  ent_roundtrip hd C16_gen_tables_ok.2.2.1 C16_gen_tables_ok.2.2.2.1 he h rest

/-- Non-vacuity: a small dictionary is well formed and an entity with every section round-trips. -/
example : exDict.WF := exDict_wf

end C16
