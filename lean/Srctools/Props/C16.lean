import Srctools.Proofs.C16
import Srctools.Proofs.C16Bin
import Srctools.Proofs.C16Lazy
import Srctools.Gen.Tok
import Srctools.Gen.Fgdw
/-!
# C16 — FGD definitions survive text export, binary database, and lazy loading

Property theorems only (statements about the models in Model/C16*.lean; proofs in Proofs/C16*.lean).
-/
namespace C16
open Tok

/-! ## (i) long strings: `_write_longstring` and the reader

`cfgOK cfg` = the escape-pair guard is present, `LIMIT ≥ 2`, the `\n`-rule threshold `≥ 1`;
`fgdTablesOK T` = `escOK T` (C02) and blank, `+`, LF are not operator characters. Both are decidable
and checked on the current source by `C16_gen_ok`. -/

/-- OBLIGATION on the current source: the extracted shape of `_write_longstring` has the guard against
cutting an escape pair and writes `""` for an empty text; the tokenizer tables are well formed;
`FGD.parse_file` tokenizes with escapes and the `+` / `:` operators. -/
theorem C16_gen_ok :
    cfgOK Gen.Fgdw.longCfg = true ∧ Gen.Fgdw.longCfg.emptyQuotes = true ∧
    fgdTablesOK Gen.Tok.tables = true ∧
    Gen.Fgdw.parseOpts.allowEscapes = true ∧ Gen.Fgdw.parseOpts.plusOperator = true ∧
    Gen.Fgdw.parseOpts.colonOperator = true ∧ Gen.Fgdw.parseOpts = fgdOpts := by
  decide

/-- **Long strings, token level.** For EVERY string `s` (and every blank indent) the text written by
`_write_longstring(extended=True)` is, for some split `ps` of `s` into consecutive pieces
(`ps.flatten = s`), exactly the tokens `STRING p₁, PLUS, NEWLINE, STRING p₂, …, STRING pₖ, EOF` with no
tokenizer error — followed by end of input or by a line feed.  Every piece, escaped, has at most `LIMIT`
characters. -/
theorem C16_longstring_tokens (T : Tables) (hT : fgdTablesOK T = true) (cfg : LongCfg)
    (hc : cfgOK cfg = true) (o : Opts) (hoe : o.allowEscapes = true) (hop : o.plusOperator = true)
    (fold : Char → List Char) (indent : List Char) (hind : ∀ c ∈ indent, c = ' ' ∨ c = '\t')
    (s : List Char) (hs : s ≠ [] ∨ cfg.emptyQuotes = true) :
    ∃ ps : List (List Char), ps.flatten = s ∧ ps ≠ [] ∧
      (∀ p ∈ ps, (escapeText T false p).length ≤ cfg.limit) ∧
      run T o fold (writeLongString cfg T true indent s)
        = { toks := longObs 1 ps ++ [⟨0, [], ps.length⟩], err := none } ∧
      run T o fold (writeLongString cfg T true indent s ++ ['\n'])
        = { toks := longObs 1 ps ++ [⟨2, ['\n'], ps.length + 1⟩, ⟨0, [], ps.length + 1⟩], err := none } := by
  have K := tokFacts hT
  obtain ⟨ps, hflat, hne, hlim, _, hw⟩ := writeLongString_pieces (escFacts K.esc) cfg hc indent s hs
  have := run_pieces K o hoe hop fold indent hind ps hne
  exact ⟨ps, hflat, hne, hlim, by rw [hw]; exact this.1, by rw [hw]; exact this.2⟩

/-- **Long strings (the property).** Tokenizing what `_write_longstring` wrote gives no error, only
STRING / PLUS / NEWLINE / EOF tokens, and the concatenation of the STRING tokens is the original
string — for every string. In particular no split point falls between a backslash and the character
it escapes. -/
theorem C16_longstring (T : Tables) (hT : fgdTablesOK T = true) (cfg : LongCfg)
    (hc : cfgOK cfg = true) (o : Opts) (hoe : o.allowEscapes = true) (hop : o.plusOperator = true)
    (fold : Char → List Char) (indent : List Char) (hind : ∀ c ∈ indent, c = ' ' ∨ c = '\t')
    (s : List Char) (hs : s ≠ [] ∨ cfg.emptyQuotes = true) :
    (run T o fold (writeLongString cfg T true indent s)).err = none ∧
    concatStrings (run T o fold (writeLongString cfg T true indent s)).toks = s := by
  obtain ⟨ps, hflat, _, _, hr, _⟩ := C16_longstring_tokens T hT cfg hc o hoe hop fold indent hind s hs
  rw [hr]
  refine ⟨rfl, ?_⟩
  simp only [concatStrings_append, concatStrings_longObs, hflat]
  simp [concatStrings]

/-- **Reader.** `_read_colon_list` (after a colon) reads the written text, followed by the end of the
line, back as exactly the one string `s`, leaving the NEWLINE for its caller. -/
theorem C16_longstring_read (T : Tables) (hT : fgdTablesOK T = true) (cfg : LongCfg)
    (hc : cfgOK cfg = true) (o : Opts) (hoe : o.allowEscapes = true) (hop : o.plusOperator = true)
    (fold : Char → List Char) (indent : List Char) (hind : ∀ c ∈ indent, c = ' ' ∨ c = '\t')
    (s : List Char) (hs : s ≠ [] ∨ cfg.emptyQuotes = true) :
    let tks := tksOf (run T o fold (writeLongString cfg T true indent s ++ ['\n']))
    readColonList (tks.length + 1) tks [] true = .ok ([s], [(.newline, ['\n']), (.eof, [])]) := by
  obtain ⟨ps, hflat, hne, _, _, hr⟩ := C16_longstring_tokens T hT cfg hc o hoe hop fold indent hind s hs
  intro tks
  have htk : tks = (.string, ps.head hne) :: plusChain ps.tail ++ [(.newline, ['\n']), (.eof, [])] := by
    show tksOf _ = _
    rw [hr]
    cases ps with
    | nil => exact absurd rfl hne
    | cons p ps' =>
      rw [tksOf_longObs]
      simp [tksOf, Kind.ofCode]
  cases ps with
  | nil => exact absurd rfl hne
  | cons p ps' =>
    simp only [List.head_cons, List.tail_cons] at htk
    rw [htk]
    simp only [List.cons_append, List.length_cons]
    rw [readColonList]
    simp only [Bool.not_true, Bool.false_eq_true, if_false, List.nil_append]
    have := readColonList_chain ps' ((plusChain ps' ++ [(Kind.newline, ['\n']), (Kind.eof, [])]).length + 1)
      p [(.newline, ['\n']), (.eof, [])]
      (by
        have := plusChain_length ps'
        simp only [List.length_append, List.length_cons, List.length_nil]; omega)
      (by intro f; simp [readColonList])
    rw [this]
    simp [← hflat]

/-- Every quoted piece that is written has at most `LIMIT` characters between its quotes. -/
theorem C16_longstring_limit (T : Tables) (hT : fgdTablesOK T = true) (cfg : LongCfg)
    (hc : cfgOK cfg = true) (s : List Char) :
    ∀ sec ∈ longSections cfg T true s, sec.length ≤ cfg.limit := by
  have F := escFacts (tokFacts hT).esc
  obtain ⟨_, _, _, hlim, _, _⟩ :=
    sections_spec F false cfg hc ((escapeText T false s).length + 1) s true (by omega)
  intro sec hsec
  apply hlim
  simpa [longSections, fgdEscape] using hsec

/-- The law at the shape, tables and tokenizer options of the CURRENT source. -/
theorem C16_longstring_current (fold : Char → List Char) (indent : List Char)
    (hind : ∀ c ∈ indent, c = ' ' ∨ c = '\t') (s : List Char) :
    (run Gen.Tok.tables Gen.Fgdw.parseOpts fold
        (writeLongString Gen.Fgdw.longCfg Gen.Tok.tables true indent s)).err = none ∧
    concatStrings (run Gen.Tok.tables Gen.Fgdw.parseOpts fold
        (writeLongString Gen.Fgdw.longCfg Gen.Tok.tables true indent s)).toks = s ∧
    (let tks := tksOf (run Gen.Tok.tables Gen.Fgdw.parseOpts fold
        (writeLongString Gen.Fgdw.longCfg Gen.Tok.tables true indent s ++ ['\n']))
     readColonList (tks.length + 1) tks [] true = .ok ([s], [(.newline, ['\n']), (.eof, [])])) := by
  obtain ⟨h1, h2, h3, h4, h5, _, _⟩ := C16_gen_ok
  have a := C16_longstring _ h3 _ h1 _ h4 h5 fold indent hind s (Or.inr h2)
  exact ⟨a.1, a.2, C16_longstring_read _ h3 _ h1 _ h4 h5 fold indent hind s (Or.inr h2)⟩

/-- The code as it was (no guard at the hard cut): the law is FALSE. With `LIMIT = 4` the string
`aaa"bb` is written as `"aaa\" +⏎"\"bb"` whose first quoted piece swallows the separator. -/
theorem C16_longstring_unfixed_small :
    concatStrings (run Gen.Tok.tables fgdOpts (fun c => [c])
      (writeLongString { limit := 4, small := 1, backoff := false, emptyQuotes := true } Gen.Tok.tables true ['\t']
        ['a', 'a', 'a', '"', 'b', 'b'])).toks ≠ ['a', 'a', 'a', '"', 'b', 'b'] := by
  decide +kernel

/-- The code as it was with the real constants (`LIMIT = 1000`): the witness of the defect,
`'a'*999 + '"' + 'b'*500`, is not read back. -/
theorem C16_longstring_unfixed :
    concatStrings (run Gen.Tok.tables fgdOpts (fun c => [c])
      (writeLongString { limit := 1000, small := 128, backoff := false, emptyQuotes := true } Gen.Tok.tables true ['\t']
        (List.replicate 999 'a' ++ '"' :: List.replicate 500 'b'))).toks
      ≠ List.replicate 999 'a' ++ '"' :: List.replicate 500 'b' := by
  decide +kernel

/-- The code as it was, an empty display name: nothing is written, so `_read_colon_list` (after the colon
of `model(string) : `) continues on the next line and returns the NAME of the next keyvalue. -/
theorem C16_empty_unfixed :
    writeLongString { limit := 1000, small := 128, backoff := true, emptyQuotes := false } Gen.Tok.tables true ['\t'] [] = [] ∧
    (readColonList 100 (tksOf (run Gen.Tok.tables fgdOpts (fun c => [c])
        ['\n', '\t', 's', 'k', 'i', 'n', '(', 'i', 'n', 't', ')', ' ', ':', ' ', '"', 'S', 'k', 'i', 'n', '"', '\n'])) [] true).toOption =
       some ([['s', 'k', 'i', 'n']], [(.parenArgs, ['i', 'n', 't']), (.colon, [':']), (.string, ['S', 'k', 'i', 'n']),
                              (.newline, ['\n']), (.eof, [])]) ∧
    writeLongString Gen.Fgdw.longCfg Gen.Tok.tables true ['\t'] [] = ['"', '"'] := by
  decide +kernel

/-! ## (ii) binary database: string dictionary and records -/

section BinRecords
open C16.Bin

/-- OBLIGATION on the current source: the index tables of `_engine_db.py` are usable as a code:
every `ValueTypes` / `FileType` member has a position, positions fit in 7 bits (bit 7 carries the
`readonly` / `has tags` flag), decoding the position of a member gives the member back, entity kinds
are distinct 3-bit values below the alias bit, and the shared dictionary has room in 16 bits. -/
theorem C16_gen_tables_ok :
    (Gen.Fgdw.valueTypes.all fun t =>
        (Gen.Fgdw.lastIdx Gen.Fgdw.valueTypeOrder t).any fun i => Gen.Fgdw.valueTypeOrder[i]? == some t) = true ∧
    (Gen.Fgdw.fileTypes.all fun t =>
        (Gen.Fgdw.lastIdx Gen.Fgdw.fileTypeOrder t).any fun i => Gen.Fgdw.fileTypeOrder[i]? == some t) = true ∧
    Gen.Fgdw.typeCfg.nTypes ≤ 128 ∧ Gen.Fgdw.typeCfg.nFileTypes ≤ 128 ∧
    Gen.Fgdw.typeCfg.choices ≠ Gen.Fgdw.typeCfg.spawnflags ∧
    (Gen.Fgdw.entityFlags.map (·.2)).Nodup ∧ (Gen.Fgdw.entityFlags.all fun p => p.2 < 8) = true ∧
    Gen.Fgdw.maskType = 7 ∧ Gen.Fgdw.isAlias = 8 ∧ Gen.Fgdw.sharedStrings < 65536 := by
  decide +kernel

/-- **String dictionary.** For a dictionary whose shared part has exactly `SHARED_STRINGS` entries
(what `serialise` asserts), every string of the dictionary is written as two bytes from which the
reader recovers exactly that string, whatever follows. -/
theorem C16_strdict {d : StrDict} (hd : d.WF) {s : Str} (hs : s ∈ d.table) :
    ∃ bs, d.encode s = some bs ∧ bs.length = 2 ∧ (∀ b ∈ bs, b < 256) ∧
      ∀ rest, readStr d.table (bs ++ rest) = some (s, rest) :=
  strdict_roundtrip hd hs

/-- Only strings of the dictionary can be written at all. -/
theorem C16_strdict_mem {d : StrDict} (hd : d.WF) {s : Str} {bs : Bytes} (h : d.encode s = some bs) :
    s ∈ d.table := StrDict.encode_mem hd h

/-- The hypothesis `len(base) == SHARED_STRINGS` cannot be dropped: with a shorter shared table the
writer's constant offset and the reader's concatenated list disagree. -/
theorem C16_strdict_needs_full_base :
    ∃ d : StrDict, d.own.Nodup ∧ d.base.Nodup ∧ ['b'] ∈ d.table ∧
      ∃ bs, d.encode ['b'] = some bs ∧ readStr d.table bs = none :=
  ⟨{ shared := 5, base := [['a']], own := [['b']], isBase := false }, by decide +kernel⟩

/-- **Keyvalue record.** Whenever `kv_serialise` succeeds (untagged, not CHOICES, spawnflag masks powers
of two), `kv_unserialise` reads back exactly the stripped keyvalue (no description, not reportable,
spawnflags without default) and leaves the following bytes untouched. -/
theorem C16_kv {c : TypeCfg} {d : StrDict} (hd : d.WF) (hc : c.nTypes ≤ 128) {kv : KV} {bs : Bytes}
    (ht : kv.typ < c.nTypes) (hp : ∀ f ∈ kv.flags, ∃ p, f.mask = 2 ^ p) (h : kvSer c d kv = some bs)
    (rest : Bytes) : kvUnser c d.table (bs ++ rest) = some (kvStrip c kv, rest) :=
  kv_roundtrip hd hc ht hp h rest

/-- **Entity record.** `ent_unserialise ∘ ent_serialise = strip` on every entity the writer accepts. -/
theorem C16_ent {c : TypeCfg} {d : StrDict} (hd : d.WF) (hc : c.nTypes ≤ 128) (hf : c.nFileTypes ≤ 128)
    {e : Ent} (he : e.Ok c) {bs : Bytes} (h : entSer c d e = some bs) (rest : Bytes) :
    entUnser c d.table (bs ++ rest) = some (entStrip c e, rest) :=
  ent_roundtrip hd hc hf he h rest

/-- The record theorems at the tables of the current source. -/
theorem C16_ent_current {d : StrDict} (hd : d.WF) {e : Ent} (he : e.Ok Gen.Fgdw.typeCfg) {bs : Bytes}
    (h : entSer Gen.Fgdw.typeCfg d e = some bs) (rest : Bytes) :
    entUnser Gen.Fgdw.typeCfg d.table (bs ++ rest) = some (entStrip Gen.Fgdw.typeCfg e, rest) :=
  ent_roundtrip hd C16_gen_tables_ok.2.2.1 C16_gen_tables_ok.2.2.2.1 he h rest

/-- Non-vacuity: a small dictionary is well formed and an entity with every section round-trips. -/
example : exDict.WF := exDict_wf

end BinRecords

/-! ## (iii) the lazily parsed database

`Lazy.WF S`: class names are unique over all blocks, CBaseEntity is not stored in a block, every base
named in a block exists in some block.  `s₀ = initState S p` is the state `unserialise` returns;
`qs.foldl (getEnt S) s₀` the state after the `get_ent` calls `qs` (in that order); `loadAll` is
`get_fgd`.  `slot n` is `ent_map[n]`: the entity OBJECT with its resolved bases (an object is its
class name: each `ent_map` entry is replaced by an entity exactly once). -/
section LazyDB
open C16.Lazy
variable {S : Static} (wf : WF S) (p : Nat)
include wf

/-- **Lazy = eager (the property).** For every list of queries on a fresh database, every queried
class — known, unknown or CBaseEntity — has in `ent_map` exactly the value the full load gives it. -/
theorem C16_lazy (qs : List Name) {q : Name} (hq : q ∈ qs) :
    (qs.foldl (getEnt S) (initState S p)).slot q = (loadAll S (initState S p)).slot q :=
  lazy_eq_loadAll wf p qs hq

/-- … and the same for every class reachable from a queried class through `bases` (the object graph
handed out is the one of the full load, never a half-resolved entity). -/
theorem C16_lazy_deep (qs : List Name) {q n : Name} (hq : q ∈ qs) (hn : Reach S q n) :
    (qs.foldl (getEnt S) (initState S p)).slot n = (loadAll S (initState S p)).slot n :=
  lazy_eq_loadAll_reach wf p qs hq hn

/-- What the value is: the payload read from the block with all bases resolved to objects
(`CBaseEntity` when the file names none), and the blocks of those bases are parsed too. -/
theorem C16_lazy_value (qs : List Name) {q : Name} (hq : q ∈ qs) {i : Nat} {r : RawEnt}
    (hr : InBlock S i r) (hn : r.name = q) :
    (qs.foldl (getEnt S) (initState S p)).parsed i = true ∧
    (qs.foldl (getEnt S) (initState S p)).slot q = some (final S r) ∧
    ∀ b ∈ r.bases, ∃ j r', InBlock S j r' ∧ r'.name = b ∧
      (qs.foldl (getEnt S) (initState S p)).parsed j = true := by
  obtain ⟨h1, h2⟩ := lazy_query_parsed wf p qs hq hr hn
  exact ⟨h1, h2, ((lazy_slot_spec wf p qs hr).2 h1).2.1⟩

/-- Laziness does not leak: a class whose block has not been parsed still points at its block, a class
of a parsed block is completely resolved; unknown names never appear; CBaseEntity is never touched. -/
theorem C16_lazy_state (qs : List Name) {i : Nat} {r : RawEnt} (hr : InBlock S i r) :
    ((qs.foldl (getEnt S) (initState S p)).parsed i = false →
        (qs.foldl (getEnt S) (initState S p)).slot r.name = some (.block i)) ∧
    ((qs.foldl (getEnt S) (initState S p)).parsed i = true →
        (qs.foldl (getEnt S) (initState S p)).slot r.name = some (final S r)) ∧
    (qs.foldl (getEnt S) (initState S p)).slot S.cbase = some (.ent ⟨S.cbase, p, .ents []⟩) := by
  have h := lazy_slot_spec wf p qs hr
  exact ⟨h.1, fun hp => (h.2 hp).1, lazy_cbase_slot wf p qs⟩

/-- `get_ent` is idempotent: asking again changes nothing at all (state equality). -/
theorem C16_lazy_idem (qs : List Name) (q : Name) :
    getEnt S (getEnt S (qs.foldl (getEnt S) (initState S p)) q) q
      = getEnt S (qs.foldl (getEnt S) (initState S p)) q :=
  getEnt_idem wf p qs q

/-- Order independence: two query sequences agree on every class both asked for, and on everything
reachable from it; in particular any permutation of the queries gives the same answers. -/
theorem C16_lazy_order (qs qs' : List Name) {q n : Name} (hq : q ∈ qs) (hq' : q ∈ qs')
    (hn : Reach S q n) :
    (qs.foldl (getEnt S) (initState S p)).slot n = (qs'.foldl (getEnt S) (initState S p)).slot n :=
  lazy_order_indep wf p qs qs' hq hq' hn

theorem C16_lazy_perm (qs qs' : List Name) (hperm : qs.Perm qs') {q : Name} (hq : q ∈ qs) :
    (qs.foldl (getEnt S) (initState S p)).slot q = (qs'.foldl (getEnt S) (initState S p)).slot q :=
  lazy_perm wf p qs qs' hperm hq

/-- `get_fgd` after any lazy queries gives what `get_fgd` gives on the fresh database, and that is a
function of the file alone: every class resolved, every block parsed. -/
theorem C16_lazy_full_load (qs : List Name) :
    (∀ n, (loadAll S (qs.foldl (getEnt S) (initState S p))).slot n = (loadAll S (initState S p)).slot n) ∧
    (∀ i r, InBlock S i r → (loadAll S (initState S p)).slot r.name = some (final S r)) ∧
    (∀ i, (loadAll S (initState S p)).parsed i = decide (i < S.blocks.length)) := by
  have h := loadAll_spec wf p []
  exact ⟨(loadAll_after_queries wf p qs).1, h.2.1, h.1⟩

end LazyDB

/-- Non-vacuity: a database with an alias chain across blocks and a cycle is well formed. -/
example : C16.Lazy.WF C16.Lazy.exS := C16.Lazy.exS_wf

end C16
