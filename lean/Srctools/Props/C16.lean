import Srctools.Proofs.C16
import Srctools.Proofs.C16Bin
import Srctools.Proofs.C16Lazy
import Srctools.Proofs.C16LazyHist
import Srctools.Proofs.C16KVFinal
import Srctools.Proofs.C16EntFinal
import Srctools.Proofs.C16ShipEx
import Srctools.Gen.Tok
import Srctools.Gen.Fgdw
/-!
# C16 — FGD definitions survive text export, binary database, and lazy loading

Property theorems only (statements about the models in Model/C16*.lean; proofs in Proofs/C16*.lean).
-/
namespace C16
open Tok

/-! ## (i) long strings: `_write_longstring` and the reader

`cfgOK cfg` = the escape-pair guard is present, `LIMIT ≥ 2`, the `\n`-rule threshold `≥ 1`;
`fgdTablesOK T` = `escOK T` (C02) and blank, `+`, LF are not operator characters. Both are decidable
and checked on the current source by `C16_gen_ok`. -/

/-- OBLIGATION on the current source: the extracted shape of `_write_longstring` has the guard against
cutting an escape pair and writes `""` for an empty text; the tokenizer tables are well formed;
`FGD.parse_file` tokenizes with escapes and the `+` / `:` operators. -/
theorem C16_gen_ok :
    cfgOK Gen.Fgdw.longCfg = true ∧ Gen.Fgdw.longCfg.emptyQuotes = true ∧
    fgdTablesOK Gen.Tok.tables = true ∧
    Gen.Fgdw.parseOpts.allowEscapes = true ∧ Gen.Fgdw.parseOpts.plusOperator = true ∧
    Gen.Fgdw.parseOpts.colonOperator = true ∧ Gen.Fgdw.parseOpts = fgdOpts := by
  decide

/-- **Long strings, token level.** For EVERY string `s` (and every blank indent) the text written by
`_write_longstring(extended=True)` is, for some split `ps` of `s` into consecutive pieces
(`ps.flatten = s`), exactly the tokens `STRING p₁, PLUS, NEWLINE, STRING p₂, …, STRING pₖ, EOF` with no
tokenizer error — followed by end of input or by a line feed.  Every piece, escaped, has at most `LIMIT`
characters. -/
theorem C16_longstring_tokens (T : Tables) (hT : fgdTablesOK T = true) (cfg : LongCfg)
    (hc : cfgOK cfg = true) (o : Opts) (hoe : o.allowEscapes = true) (hop : o.plusOperator = true)
    (fold : Char → List Char) (indent : List Char) (hind : ∀ c ∈ indent, c = ' ' ∨ c = '\t')
    (s : List Char) (hs : s ≠ [] ∨ cfg.emptyQuotes = true) :
    ∃ ps : List (List Char), ps.flatten = s ∧ ps ≠ [] ∧
      (∀ p ∈ ps, (escapeText T false p).length ≤ cfg.limit) ∧
      run T o fold (writeLongString cfg T true indent s)
        = { toks := longObs 1 ps ++ [⟨0, [], ps.length⟩], err := none } ∧
      run T o fold (writeLongString cfg T true indent s ++ ['\n'])
        = { toks := longObs 1 ps ++ [⟨2, ['\n'], ps.length + 1⟩, ⟨0, [], ps.length + 1⟩], err := none } := by
  have K := tokFacts hT
  obtain ⟨ps, hflat, hne, hlim, _, hw⟩ := writeLongString_pieces (escFacts K.esc) cfg hc indent s hs
  have := run_pieces K o hoe hop fold indent hind ps hne
  exact ⟨ps, hflat, hne, hlim, by rw [hw]; exact this.1, by rw [hw]; exact this.2⟩

/-- **Long strings (the property).** Tokenizing what `_write_longstring` wrote gives no error, only
STRING / PLUS / NEWLINE / EOF tokens, and the concatenation of the STRING tokens is the original
string — for every string. In particular no split point falls between a backslash and the character
it escapes. -/
theorem C16_longstring (T : Tables) (hT : fgdTablesOK T = true) (cfg : LongCfg)
    (hc : cfgOK cfg = true) (o : Opts) (hoe : o.allowEscapes = true) (hop : o.plusOperator = true)
    (fold : Char → List Char) (indent : List Char) (hind : ∀ c ∈ indent, c = ' ' ∨ c = '\t')
    (s : List Char) (hs : s ≠ [] ∨ cfg.emptyQuotes = true) :
    (run T o fold (writeLongString cfg T true indent s)).err = none ∧
    concatStrings (run T o fold (writeLongString cfg T true indent s)).toks = s := by
  obtain ⟨ps, hflat, _, _, hr, _⟩ := C16_longstring_tokens T hT cfg hc o hoe hop fold indent hind s hs
  rw [hr]
  refine ⟨rfl, ?_⟩
  simp only [concatStrings_append, concatStrings_longObs, hflat]
  simp [concatStrings]

/-- **Reader.** `_read_colon_list` (after a colon) reads the written text, followed by the end of the
line, back as exactly the one string `s`, leaving the NEWLINE for its caller. -/
theorem C16_longstring_read (T : Tables) (hT : fgdTablesOK T = true) (cfg : LongCfg)
    (hc : cfgOK cfg = true) (o : Opts) (hoe : o.allowEscapes = true) (hop : o.plusOperator = true)
    (fold : Char → List Char) (indent : List Char) (hind : ∀ c ∈ indent, c = ' ' ∨ c = '\t')
    (s : List Char) (hs : s ≠ [] ∨ cfg.emptyQuotes = true) :
    let tks := tksOf (run T o fold (writeLongString cfg T true indent s ++ ['\n']))
    readColonList (tks.length + 1) tks [] true = .ok ([s], [(.newline, ['\n']), (.eof, [])]) := by
  obtain ⟨ps, hflat, hne, _, _, hr⟩ := C16_longstring_tokens T hT cfg hc o hoe hop fold indent hind s hs
  intro tks
  have htk : tks = (.string, ps.head hne) :: plusChain ps.tail ++ [(.newline, ['\n']), (.eof, [])] := by
    show tksOf _ = _
    rw [hr]
    cases ps with
    | nil => exact absurd rfl hne
    | cons p ps' =>
      rw [tksOf_longObs]
      simp [tksOf, Kind.ofCode]
  cases ps with
  | nil => exact absurd rfl hne
  | cons p ps' =>
    simp only [List.head_cons, List.tail_cons] at htk
    rw [htk]
    simp only [List.cons_append, List.length_cons]
    rw [readColonList]
    simp only [Bool.not_true, Bool.false_eq_true, if_false, List.nil_append]
    have := readColonList_chain ps' ((plusChain ps' ++ [(Kind.newline, ['\n']), (Kind.eof, [])]).length + 1)
      p [(.newline, ['\n']), (.eof, [])]
      (by
        have := plusChain_length ps'
        simp only [List.length_append, List.length_cons, List.length_nil]; omega)
      (by intro f; simp [readColonList])
    rw [this]
    simp [← hflat]

/-- Every quoted piece that is written has at most `LIMIT` characters between its quotes. -/
theorem C16_longstring_limit (T : Tables) (hT : fgdTablesOK T = true) (cfg : LongCfg)
    (hc : cfgOK cfg = true) (s : List Char) :
    ∀ sec ∈ longSections cfg T true s, sec.length ≤ cfg.limit := by
  have F := escFacts (tokFacts hT).esc
  obtain ⟨_, _, _, hlim, _, _⟩ :=
    sections_spec F false cfg hc ((escapeText T false s).length + 1) s true (by omega)
  intro sec hsec
  apply hlim
  simpa [longSections, fgdEscape] using hsec

/-- The law at the shape, tables and tokenizer options of the CURRENT source. -/
theorem C16_longstring_current (fold : Char → List Char) (indent : List Char)
    (hind : ∀ c ∈ indent, c = ' ' ∨ c = '\t') (s : List Char) :
    (run Gen.Tok.tables Gen.Fgdw.parseOpts fold
        (writeLongString Gen.Fgdw.longCfg Gen.Tok.tables true indent s)).err = none ∧
    concatStrings (run Gen.Tok.tables Gen.Fgdw.parseOpts fold
        (writeLongString Gen.Fgdw.longCfg Gen.Tok.tables true indent s)).toks = s ∧
    (let tks := tksOf (run Gen.Tok.tables Gen.Fgdw.parseOpts fold
        (writeLongString Gen.Fgdw.longCfg Gen.Tok.tables true indent s ++ ['\n']))
     readColonList (tks.length + 1) tks [] true = .ok ([s], [(.newline, ['\n']), (.eof, [])])) := by
  obtain ⟨h1, h2, h3, h4, h5, _, _⟩ := C16_gen_ok
  have a := C16_longstring _ h3 _ h1 _ h4 h5 fold indent hind s (Or.inr h2)
  exact ⟨a.1, a.2, C16_longstring_read _ h3 _ h1 _ h4 h5 fold indent hind s (Or.inr h2)⟩

/-- The code as it was (no guard at the hard cut): the law is FALSE. With `LIMIT = 4` the string
`aaa"bb` is written as `"aaa\" +⏎"\"bb"` whose first quoted piece swallows the separator. -/
theorem C16_longstring_unfixed_small :
    concatStrings (run Gen.Tok.tables fgdOpts (fun c => [c])
      (writeLongString { limit := 4, small := 1, backoff := false, emptyQuotes := true } Gen.Tok.tables true ['\t']
        ['a', 'a', 'a', '"', 'b', 'b'])).toks ≠ ['a', 'a', 'a', '"', 'b', 'b'] := by
  decide +kernel

/-- The code as it was with the real constants (`LIMIT = 1000`): the witness of the defect,
`'a'*999 + '"' + 'b'*500`, is not read back. -/
theorem C16_longstring_unfixed :
    concatStrings (run Gen.Tok.tables fgdOpts (fun c => [c])
      (writeLongString { limit := 1000, small := 128, backoff := false, emptyQuotes := true } Gen.Tok.tables true ['\t']
        (List.replicate 999 'a' ++ '"' :: List.replicate 500 'b'))).toks
      ≠ List.replicate 999 'a' ++ '"' :: List.replicate 500 'b' := by
  decide +kernel

/-- The code as it was, an empty display name: nothing is written, so `_read_colon_list` (after the colon
of `model(string) : `) continues on the next line and returns the NAME of the next keyvalue. -/
theorem C16_empty_unfixed :
    writeLongString { limit := 1000, small := 128, backoff := true, emptyQuotes := false } Gen.Tok.tables true ['\t'] [] = [] ∧
    (readColonList 100 (tksOf (run Gen.Tok.tables fgdOpts (fun c => [c])
        ['\n', '\t', 's', 'k', 'i', 'n', '(', 'i', 'n', 't', ')', ' ', ':', ' ', '"', 'S', 'k', 'i', 'n', '"', '\n'])) [] true).toOption =
       some ([['s', 'k', 'i', 'n']], [(.parenArgs, ['i', 'n', 't']), (.colon, [':']), (.string, ['S', 'k', 'i', 'n']),
                              (.newline, ['\n']), (.eof, [])]) ∧
    writeLongString Gen.Fgdw.longCfg Gen.Tok.tables true ['\t'] [] = ['"', '"'] := by
  decide +kernel

/-! ## (ii) binary database: string dictionary and records -/

section BinRecords
open C16.Bin

/-- OBLIGATION on the current source: the index tables of `_engine_db.py` are usable as a code:
every `ValueTypes` / `FileType` member has a position, positions fit in 7 bits (bit 7 carries the
`readonly` / `has tags` flag), decoding the position of a member gives the member back, entity kinds
are distinct 3-bit values below the alias bit, and the shared dictionary has room in 16 bits. -/
theorem C16_gen_tables_ok :
    (Gen.Fgdw.valueTypes.all fun t =>
        (Gen.Fgdw.lastIdx Gen.Fgdw.valueTypeOrder t).any fun i => Gen.Fgdw.valueTypeOrder[i]? == some t) = true ∧
    (Gen.Fgdw.fileTypes.all fun t =>
        (Gen.Fgdw.lastIdx Gen.Fgdw.fileTypeOrder t).any fun i => Gen.Fgdw.fileTypeOrder[i]? == some t) = true ∧
    Gen.Fgdw.typeCfg.nTypes ≤ 128 ∧ Gen.Fgdw.typeCfg.nFileTypes ≤ 128 ∧
    Gen.Fgdw.typeCfg.choices ≠ Gen.Fgdw.typeCfg.spawnflags ∧
    (Gen.Fgdw.entityFlags.map (·.2)).Nodup ∧ (Gen.Fgdw.entityFlags.all fun p => p.2 < 8) = true ∧
    Gen.Fgdw.maskType = 7 ∧ Gen.Fgdw.isAlias = 8 ∧ Gen.Fgdw.sharedStrings < 65536 := by
  decide +kernel

/-- **String dictionary.** For a dictionary whose shared part has exactly `SHARED_STRINGS` entries
(what `serialise` asserts), every string of the dictionary is written as two bytes from which the
reader recovers exactly that string, whatever follows. -/
theorem C16_strdict {d : StrDict} (hd : d.WF) {s : Str} (hs : s ∈ d.table) :
    ∃ bs, d.encode s = some bs ∧ bs.length = 2 ∧ (∀ b ∈ bs, b < 256) ∧
      ∀ rest, readStr d.table (bs ++ rest) = some (s, rest) :=
  strdict_roundtrip hd hs

/-- Only strings of the dictionary can be written at all. -/
theorem C16_strdict_mem {d : StrDict} (hd : d.WF) {s : Str} {bs : Bytes} (h : d.encode s = some bs) :
    s ∈ d.table := StrDict.encode_mem hd h

/-- The hypothesis `len(base) == SHARED_STRINGS` cannot be dropped: with a shorter shared table the
writer's constant offset and the reader's concatenated list disagree. -/
theorem C16_strdict_needs_full_base :
    ∃ d : StrDict, d.own.Nodup ∧ d.base.Nodup ∧ ['b'] ∈ d.table ∧
      ∃ bs, d.encode ['b'] = some bs ∧ readStr d.table bs = none :=
  ⟨{ shared := 5, base := [['a']], own := [['b']], isBase := false }, by decide +kernel⟩

/-- **Keyvalue record.** Whenever `kv_serialise` succeeds (untagged, not CHOICES, spawnflag masks powers
of two), `kv_unserialise` reads back exactly the stripped keyvalue (no description, not reportable,
spawnflags without default) and leaves the following bytes untouched. -/
theorem C16_kv {c : TypeCfg} {d : StrDict} (hd : d.WF) (hc : c.nTypes ≤ 128) {kv : KV} {bs : Bytes}
    (ht : kv.typ < c.nTypes) (hp : ∀ f ∈ kv.flags, ∃ p, f.mask = 2 ^ p) (h : kvSer c d kv = some bs)
    (rest : Bytes) : kvUnser c d.table (bs ++ rest) = some (kvStrip c kv, rest) :=
  kv_roundtrip hd hc ht hp h rest

/-- **Entity record.** `ent_unserialise ∘ ent_serialise = strip` on every entity the writer accepts. -/
theorem C16_ent {c : TypeCfg} {d : StrDict} (hd : d.WF) (hc : c.nTypes ≤ 128) (hf : c.nFileTypes ≤ 128)
    {e : Ent} (he : e.Ok c) {bs : Bytes} (h : entSer c d e = some bs) (rest : Bytes) :
    entUnser c d.table (bs ++ rest) = some (entStrip c e, rest) :=
  ent_roundtrip hd hc hf he h rest

/-- The record theorems at the tables of the current source. -/
theorem C16_ent_current {d : StrDict} (hd : d.WF) {e : Ent} (he : e.Ok Gen.Fgdw.typeCfg) {bs : Bytes}
    (h : entSer Gen.Fgdw.typeCfg d e = some bs) (rest : Bytes) :
    entUnser Gen.Fgdw.typeCfg d.table (bs ++ rest) = some (entStrip Gen.Fgdw.typeCfg e, rest) :=
  ent_roundtrip hd C16_gen_tables_ok.2.2.1 C16_gen_tables_ok.2.2.2.1 he h rest

/-- Non-vacuity: a small dictionary is well formed and an entity with every section round-trips. -/
example : exDict.WF := exDict_wf

end BinRecords

/-! ## (iii) the lazily parsed database

`Lazy.WF S`: class names are unique over all blocks, CBaseEntity is not stored in a block, every base
named in a block exists in some block.  `s₀ = initState S p` is the state `unserialise` returns;
`qs.foldl (getEnt S) s₀` the state after the `get_ent` calls `qs` (in that order); `loadAll` is
`get_fgd`.  `slot n` is `ent_map[n]`: the entity OBJECT with its resolved bases (an object is its
class name: each `ent_map` entry is replaced by an entity exactly once). -/
section LazyDB
open C16.Lazy
variable {S : Static} (wf : WF S) (p : Nat)
include wf

/-- **Lazy = eager (the property).** For every list of queries on a fresh database, every queried
class — known, unknown or CBaseEntity — has in `ent_map` exactly the value the full load gives it. -/
theorem C16_lazy (qs : List Name) {q : Name} (hq : q ∈ qs) :
    (qs.foldl (getEnt S) (initState S p)).slot q = (loadAll S (initState S p)).slot q :=
  lazy_eq_loadAll wf p qs hq

/-- … and the same for every class reachable from a queried class through `bases` (the object graph
handed out is the one of the full load, never a half-resolved entity). -/
theorem C16_lazy_deep (qs : List Name) {q n : Name} (hq : q ∈ qs) (hn : Reach S q n) :
    (qs.foldl (getEnt S) (initState S p)).slot n = (loadAll S (initState S p)).slot n :=
  lazy_eq_loadAll_reach wf p qs hq hn

/-- What the value is: the payload read from the block with all bases resolved to objects
(`CBaseEntity` when the file names none), and the blocks of those bases are parsed too. -/
theorem C16_lazy_value (qs : List Name) {q : Name} (hq : q ∈ qs) {i : Nat} {r : RawEnt}
    (hr : InBlock S i r) (hn : r.name = q) :
    (qs.foldl (getEnt S) (initState S p)).parsed i = true ∧
    (qs.foldl (getEnt S) (initState S p)).slot q = some (final S r) ∧
    ∀ b ∈ r.bases, ∃ j r', InBlock S j r' ∧ r'.name = b ∧
      (qs.foldl (getEnt S) (initState S p)).parsed j = true := by
  obtain ⟨h1, h2⟩ := lazy_query_parsed wf p qs hq hr hn
  exact ⟨h1, h2, ((lazy_slot_spec wf p qs hr).2 h1).2.1⟩

/-- Laziness does not leak: a class whose block has not been parsed still points at its block, a class
of a parsed block is completely resolved; unknown names never appear; CBaseEntity is never touched. -/
theorem C16_lazy_state (qs : List Name) {i : Nat} {r : RawEnt} (hr : InBlock S i r) :
    ((qs.foldl (getEnt S) (initState S p)).parsed i = false →
        (qs.foldl (getEnt S) (initState S p)).slot r.name = some (.block i)) ∧
    ((qs.foldl (getEnt S) (initState S p)).parsed i = true →
        (qs.foldl (getEnt S) (initState S p)).slot r.name = some (final S r)) ∧
    (qs.foldl (getEnt S) (initState S p)).slot S.cbase = some (.ent ⟨S.cbase, p, .ents []⟩) := by
  have h := lazy_slot_spec wf p qs hr
  exact ⟨h.1, fun hp => (h.2 hp).1, lazy_cbase_slot wf p qs⟩

/-- `get_ent` is idempotent: asking again changes nothing at all (state equality). -/
theorem C16_lazy_idem (qs : List Name) (q : Name) :
    getEnt S (getEnt S (qs.foldl (getEnt S) (initState S p)) q) q
      = getEnt S (qs.foldl (getEnt S) (initState S p)) q :=
  getEnt_idem wf p qs q

/-- Order independence: two query sequences agree on every class both asked for, and on everything
reachable from it; in particular any permutation of the queries gives the same answers. -/
theorem C16_lazy_order (qs qs' : List Name) {q n : Name} (hq : q ∈ qs) (hq' : q ∈ qs')
    (hn : Reach S q n) :
    (qs.foldl (getEnt S) (initState S p)).slot n = (qs'.foldl (getEnt S) (initState S p)).slot n :=
  lazy_order_indep wf p qs qs' hq hq' hn

theorem C16_lazy_perm (qs qs' : List Name) (hperm : qs.Perm qs') {q : Name} (hq : q ∈ qs) :
    (qs.foldl (getEnt S) (initState S p)).slot q = (qs'.foldl (getEnt S) (initState S p)).slot q :=
  lazy_perm wf p qs qs' hperm hq

/-- `get_fgd` after any lazy queries gives what `get_fgd` gives on the fresh database, and that is a
function of the file alone: every class resolved, every block parsed. -/
theorem C16_lazy_full_load (qs : List Name) :
    (∀ n, (loadAll S (qs.foldl (getEnt S) (initState S p))).slot n = (loadAll S (initState S p)).slot n) ∧
    (∀ i r, InBlock S i r → (loadAll S (initState S p)).slot r.name = some (final S r)) ∧
    (∀ i, (loadAll S (initState S p)).parsed i = decide (i < S.blocks.length)) := by
  have h := loadAll_spec wf p []
  exact ⟨(loadAll_after_queries wf p qs).1, h.2.1, h.1⟩

end LazyDB

section LazyHist
open C16.Lazy

/-- **Histories with edits.** Callers may do anything to the values earlier lookups returned
(`HOp.edit i f`, `f` arbitrary): what the queries of the history return is what the same queries return
with every edit removed … -/
theorem C16_lazy_history_independent (S : Static) (s0 : State) (ops : List HOp) :
    (runHist S s0 ops).seen = results S s0 (queriesOf ops) :=
  hist_independent S s0 ops

/-- … and on a fresh well-formed database every query of every such history returns the value of the
full load of the pristine database.  (In the model results are values; for the code this is the
deep-copy discipline of `engine_def` / `engine_dbase` / `get_fgd`, tied by the id-walk of the harness.) -/
theorem C16_lazy_history {S : Static} (wf' : WF S) (p : Nat) (ops : List HOp) :
    (runHist S (initState S p) ops).seen
      = (queriesOf ops).map fun q => (loadAll S (initState S p)).slot q :=
  hist_eq_loadAll wf' p ops

end LazyHist

/-! ## (i') long strings without custom syntax (`extended=False`): the weaker law

Without custom syntax `_fgd_escape` is lossy (`"` → `''`, only line feeds are escaped, backslashes are
written raw), so the text cannot come back in general.  What does hold for every text whose escape
does not end in a dangling backslash (`plainOK`): splitting is transparent — the pieces are read as
`STRING d₁ PLUS NEWLINE STRING d₂ …` and `d₁ ++ d₂ ++ …` is exactly what the tokenizer reads from the
UNSPLIT `"_fgd_escape(text)"`. -/
section PlainMode
open C16.KV

theorem C16_longstring_plain (T : Tables) (hT : kvTablesOK T = true) (o : Opts) (ho : optsOK o = true)
    (cfg : LongCfg) (hc : cfgOK cfg = true) (he : cfg.emptyQuotes = true) (fold : Char → List Char)
    (indent : List Char) (hind : ∀ c ∈ indent, c = ' ' ∨ c = '\t') (s : List Char) (hs : plainOK s = true) :
    ∃ ds : List (List Char), ds ≠ [] ∧ ds.flatten = decodeUnits T (plainEscape s) ∧
      Reads T (plainEscape s) (decodeUnits T (plainEscape s)) ∧
      (run T o fold (writeLongString cfg T false indent s)).err = none ∧
      tksOf (run T o fold (writeLongString cfg T false indent s)) = chainToks ds ++ [tkEof] := by
  let c : ExpCfg := { long := cfg, T := T, tt := ⟨[], [], [], 0, 0, 0, 0⟩, ext := false, label := false }
  obtain ⟨h1, h2, h3, h4⟩ := ls_plain T cfg hc he s hs
  have hls : LsOK c false s := ⟨h1, fun sec hsec => (h2 sec hsec).1⟩
  have hlex := lex_wls (fold := fold) (kvTables hT) (optsFacts ho) c rfl false indent s hind hls
  obtain ⟨hr, herr⟩ := run_of_lexes hlex trivial
  refine ⟨lsPieces c false s, ?_, h3, h4, herr, hr⟩
  intro h0
  exact h1 (by simpa [lsPieces] using h0)

/-- For text without backslash and carriage return the image is the documented one: every `"` has
become `''`, nothing else changed. -/
theorem C16_longstring_plain_simple (T : Tables) (hn : T.unescape 'n' = some '\n') (s : List Char)
    (hb : '\\' ∉ s) (hr : '\r' ∉ s) :
    plainOK s = true ∧ decodeUnits T (plainEscape s) = plainQuote s := by
  obtain ⟨h1, h2⟩ := plain_simple T hn s hb hr
  exact ⟨by simp [plainOK, h2], h1⟩

/-- `_partial`: the excluded class is real — a text ending in a backslash is written as `"…\"`, the
closing quote is swallowed (tokenizer error "Unterminated string"). -/
theorem C16_longstring_plain_excluded :
    plainOK ['a', '\\'] = false ∧
    (run Gen.Tok.tables fgdOpts (fun c => [c])
      (writeLongString Gen.Fgdw.longCfg Gen.Tok.tables false ['\t'] ['a', '\\'])).err ≠ none := by
  decide +kernel

end PlainMode

/-! ## (iv) keyvalue and I/O definition lines of the text syntax

`exportKV`/`parseKV`, `exportIO`/`parseIO`, `exportBody`/`parseBody` (Model/C16KV.lean) model
`KVDef.export` ↔ `KVDef._parse`, `IODef.export` ↔ `IODef._parse` and the keyvalue / input / output part
of an entity body.  `Env` = facts about tables, tokenizer options, `_write_longstring` shape and the
parser's string functions, with custom syntax on; `KvGood`/`IoGood` = explicit decidable conditions on
the record (Proofs/C16KVFinal.lean).  `normKV` (Proofs/C16KVParse.lean) is the documented normal form. -/
section TextLines
open C16.KV
variable {T : Tables} {o : Opts} {P : ParseCfg} {c : ExpCfg}

/-- **Keyvalue line.** `parseKV (tokens (exportKV k)) = ok (norm k)`: the exported line tokenizes without
error, starts with the name token, and the parser returns the tags and `normKV k`, leaving only the end
of input (preceded, for choices / spawnflags, by the line feed after `]`). -/
theorem C16_kvdef_roundtrip (E : Env T o P c) (fold : Char → List Char) {tags : List Str} {k : KVRec}
    (G : KvGood T P c tags k) :
    (run T o fold (exportKV c tags k)).err = none ∧
    (tksOf (run T o fold (exportKV c tags k))).head? = some (.string, k.name) ∧
    parseKV P k.name (tksOf (run T o fold (exportKV c tags k))).tail
      = .ok ((tags, normKV P c k), kvRest c k [tkEof]) :=
  kvdef_roundtrip E fold G

/-- The normal form, field by field: name, type, flags, description and display name come back
unchanged (spawnflags get their name as display name), and so does the default of every
non-boolean type. -/
theorem C16_kvdef_norm_fields (E : Env T o P c) (k : KVRec) :
    (normKV P c k).name = k.name ∧ (normKV P c k).typ = k.typ ∧
    (normKV P c k).readonly = k.readonly ∧ (normKV P c k).reportable = k.reportable ∧
    (normKV P c k).desc = k.desc ∧
    (normKV P c k).disp = (if k.typ = c.tt.spawnflags then k.name else k.disp) ∧
    (k.typ ≠ c.tt.bool → (normKV P c k).default = k.default) :=
  normKV_fields E k

/-- For every type other than choices / spawnflags / boolean the keyvalue is read back IDENTICALLY. -/
theorem C16_kvdef_roundtrip_identity (E : Env T o P c) (fold : Char → List Char) {tags : List Str}
    {k : KVRec} (G : KvGood T P c tags k) (h1 : k.typ ≠ c.tt.spawnflags) (h2 : k.typ ≠ c.tt.choices)
    (h3 : k.typ ≠ c.tt.bool) (hv : k.vals = .none) :
    parseKV P k.name (tksOf (run T o fold (exportKV c tags k))).tail = .ok ((tags, k), [tkEof]) := by
  have h := (kvdef_roundtrip E fold G).2.2
  rw [normKV_id E h1 h2 h3 hv] at h
  simpa [kvRest, h1, h2] using h

/-- **Input / output line.** -/
theorem C16_iodef_roundtrip (E : Env T o P c) (fold : Char → List Char) {kw : Str}
    (hkw : kw = sInput ∨ kw = sOutput) {tags : List Str} {io : IORec} (G : IoGood T P c tags io) :
    (run T o fold (exportIO c kw tags io)).err = none ∧
    (tksOf (run T o fold (exportIO c kw tags io))).head? = some (.string, kw) ∧
    parseIO P (tksOf (run T o fold (exportIO c kw tags io))).tail
      = .ok ((tags, normIO P c io), [tkEof]) ∧
    (normIO P c io).name = io.name ∧ (normIO P c io).desc = io.desc := by
  obtain ⟨h1, h2, h3⟩ := iodef_roundtrip E fold hkw G
  exact ⟨h1, h2, h3, (normIO_desc E io).2, (normIO_desc E io).1⟩

/-- **Entity body (partial: keyvalues, inputs, outputs; no `@resources`, no snippets).** The text
`EntityDef.export` writes between `[` and `]` is parsed back by the body loop of `EntityDef.parse` as the
list of normal forms, keyvalues first, then inputs, then outputs. -/
theorem C16_entity_body_partial (E : Env T o P c) (fold : Char → List Char) {items : List Item}
    (hgood : ∀ it ∈ items, match it with
      | .kv tags k => KvGood T P c tags k ∧ P.foldStr k.name ≠ sInput ∧ P.foldStr k.name ≠ sOutput ∧
          P.foldStr k.name ≠ sResources
      | .inp tags io => IoGood T P c tags io
      | .out tags io => IoGood T P c tags io)
    (hin : P.foldStr sInput = sInput) (hout : P.foldStr sOutput = sOutput) :
    (run T o fold (exportBody c items)).err = none ∧
    (let ts := tksOf (run T o fold (exportBody c items))
     parseBody P (ts.length + 1) ts [] = .ok ((bodyOrder items).map (normItem P c), [tkNl, tkEof])) :=
  entity_body_roundtrip E fold hgood hin hout

/-- The excluded class is real (open finding `spawnflags-default-desc`): a spawnflags keyvalue WITH a
description satisfies every other hypothesis, yet the parser returns the description as the default. -/
theorem C16_kvdef_spawnflags_desc_garbled :
    pxSfDesc.typ = pxC.tt.spawnflags ∧ pxSfDesc.desc = ['h', 'i'] ∧
    KvParseOK pxP pxC pxNoTags pxSfNoDesc ∧
    parseKV pxP pxSfDesc.name ((kvToks pxC pxNoTags pxSfDesc).tail ++ [tkEof])
      = .ok ((pxNoTags, pxSfGarbled), [tkNl, tkEof]) ∧
    pxSfGarbled.default = pxSfDesc.desc ∧ pxSfGarbled ≠ normKV pxP pxC pxSfDesc := by
  obtain ⟨h1, h2, h3, h4, h5, _, _, _, h9⟩ := parse_kv_spawnflags_desc_garbled
  exact ⟨h1, h2, h3, h4, h5, h9⟩

/-- Export configuration / parser of the CURRENT source (custom syntax on; `casefold`/`upper` act as the
identity on the text that is written: value-type names, keywords and upper-case tags). -/
def curCfg (label : Bool) : ExpCfg :=
  { long := Gen.Fgdw.longCfg, T := Gen.Tok.tables, tt := Gen.Fgdw.typeTab, ext := true, label := label }
def curP : ParseCfg := { tt := Gen.Fgdw.typeTab, fold := fun c => [c], up := fun c => [c] }

/-- OBLIGATION on the current source: tables, tokenizer options, long-string shape, and for EVERY value
type: the text written for it contains no parenthesis / surrounding blank / leading `*` and
`VALUE_TYPE_LOOKUP` maps it back to the same type; the I/O text of every type is known to the parser. -/
theorem C16_kv_gen_ok :
    kvTablesOK Gen.Tok.tables = true ∧ optsOK Gen.Fgdw.parseOpts = true ∧
    Gen.Tok.tables.unescape 'n' = some '\n' ∧
    (∀ label, CfgParseOK curP (curCfg label)) ∧
    ((List.range Gen.Fgdw.typeTab.values.length).all fun i =>
        decide (TypeParseOK curP (curCfg true) i) &&
        !(typeText Gen.Fgdw.typeTab i).contains '(' && !(typeText Gen.Fgdw.typeTab i).contains ')' &&
        (ioLookup curP (Gen.Fgdw.typeTab.ioText.getD i [])).isSome &&
        !(Gen.Fgdw.typeTab.ioText.getD i []).contains '(' && !(Gen.Fgdw.typeTab.ioText.getD i []).contains ')') = true ∧
    Gen.Fgdw.typeTab.ioText.length = Gen.Fgdw.typeTab.values.length := by
  refine ⟨by decide +kernel, by decide +kernel, by decide +kernel, ?_, by decide +kernel, by decide +kernel⟩
  intro label
  cases label <;> decide +kernel

/-- The environment of the current source. -/
theorem C16_env_current (label : Bool) : Env Gen.Tok.tables Gen.Fgdw.parseOpts curP (curCfg label) where
  hT := rfl
  tables := C16_kv_gen_ok.1
  opts := C16_kv_gen_ok.2.1
  cfg := C16_gen_ok.1
  empty := C16_gen_ok.2.1
  ext := rfl
  cfgP := C16_kv_gen_ok.2.2.2.1 label

/-- The keyvalue-line round trip at the tables, options and constants of the current source. -/
theorem C16_kvdef_roundtrip_current (label : Bool) (fold : Char → List Char) {tags : List Str} {k : KVRec}
    (G : KvGood Gen.Tok.tables curP (curCfg label) tags k) :
    parseKV curP k.name (tksOf (run Gen.Tok.tables Gen.Fgdw.parseOpts fold (exportKV (curCfg label) tags k))).tail
      = .ok ((tags, normKV curP (curCfg label) k), kvRest (curCfg label) k [tkEof]) :=
  (kvdef_roundtrip (C16_env_current label) fold G).2.2

/-- Non-vacuity: a tagged `studio` keyvalue with a quote in its display name, a choices keyvalue and a
spawnflags keyvalue satisfy `KvGood` at the current source. -/
example : KvGood Gen.Tok.tables curP (curCfg true) [['H', 'L', '2'], ['+', 'E', 'P', '1']]
    { name := ['m', 'o', 'd', 'e', 'l'], typ := 23, disp := ['W', '"', 'M'], default := ['a', '.', 'm', 'd', 'l'],
      desc := [], vals := .none, readonly := true, reportable := false } where
  name := by decide +kernel
  tagsL := by unfold TagsOK; decide +kernel
  tagsP := by decide +kernel
  typ := by decide +kernel
  typ1 := by decide +kernel
  typ2 := by decide +kernel
  sf := by decide +kernel
  flags := by intro h; exact absurd h (by decide +kernel)
  choices := by intro h; exact absurd h (by decide +kernel)

example : KvGood Gen.Tok.tables curP (curCfg true) []
    { name := ['k'], typ := Gen.Fgdw.typeTab.choices, disp := [], default := ['0'], desc := ['d'],
      vals := .choices [⟨['+', '1'], ['a', '"', 'b'], [['T', 'F', '2']]⟩], readonly := false, reportable := true } where
  name := by decide +kernel
  tagsL := by unfold TagsOK; decide +kernel
  tagsP := by decide +kernel
  typ := by decide +kernel
  typ1 := by decide +kernel
  typ2 := by decide +kernel
  sf := by decide +kernel
  flags := by intro h; exact absurd h (by decide +kernel)
  choices := by
    intro _ ch hch
    simp only [kvChoicesOf, List.mem_singleton] at hch
    subst hch
    exact ⟨by decide +kernel, by unfold TagsOK; decide +kernel, by decide +kernel⟩

example : KvGood Gen.Tok.tables curP (curCfg true) []
    { name := ['s', 'f'], typ := Gen.Fgdw.typeTab.spawnflags, disp := ['s', 'f'], default := [], desc := [],
      vals := .flags [⟨4096, ['o', 'n'], true, []⟩], readonly := false, reportable := false } where
  name := by decide +kernel
  tagsL := by unfold TagsOK; decide +kernel
  tagsP := by decide +kernel
  typ := by decide +kernel
  typ1 := by decide +kernel
  typ2 := by decide +kernel
  sf := by decide +kernel
  flags := by
    intro _ f hf
    simp only [kvFlagsOf, List.mem_singleton] at hf
    subst hf
    exact ⟨by unfold TagsOK; decide +kernel, by decide +kernel, by decide +kernel, by decide +kernel⟩
  choices := by intro h; exact absurd h (by decide +kernel)

end TextLines

/-! ## (iv, continued) whole entity definitions and files

`exportEnt`/`parseEnt`, `exportFile`/`parseFile` (Model/C16Ent.lean) model `EntityDef.export` ↔ `EntityDef.parse`
(header: `@Kind`, `base(…)`/`aliasof(…)`, helpers `name(arg, …)`, `= classname : "description"`; body; `@resources`
block) and the entity part of `FGD.export` ↔ `FGD.parse_file`.  A helper is the generic pair (name, exported
arguments): the typed helpers of `_fgd_helpers.py` re-normalise raw arguments, but their EXPORTED arguments are
a fixed point (checked by the harness on every run).  `EntEnv`/`EntGood`/`FileGood` (Proofs/C16EntFinal.lean)
are explicit decidable conditions; snippets, `@AutoVisgroup`, `@MaterialExclusion`, `@mapsize`, `@include`,
`autovis(…)` and `@ExtendClass` merging are search-only. -/
section WholeEntities
open C16.KV
variable {T : Tables} {o : Opts} {P : ParseCfg} {c : ExpCfg} {tab : EntTab}

/-- **Whole entity.** `parseEnt (tokens (exportEnt e)) = ok (normEnt e)`: no tokenizer error, the first token
is the `@Kind` keyword, and `EntityDef.parse` on the rest returns the normal form, leaving the last line feed
and the end of input. -/
theorem C16_entity_roundtrip (E : EntEnv T o P c) (fold : Char → List Char) {defined : List Str} {e : EntRec}
    (G : EntGood T P c tab defined e) :
    (run T o fold (exportEnt c tab P e)).err = none ∧
    (tksOf (run T o fold (exportEnt c tab P e))).head? = some (kindTok tab e) ∧
    parseEnt P tab defined e.kind (tksOf (run T o fold (exportEnt c tab P e))).tail
      = .ok (normEnt c tab P e, [tkNl, tkEof]) :=
  entity_roundtrip E fold G

/-- The normal form of an entity: kind, bases, description, resources unchanged; alias flag kept when there
are bases; helpers with the arguments the generic split gives; body items in written order with their own
normal forms (`C16_kvdef_norm_fields`). -/
theorem C16_entity_norm_fields (E : EntEnv T o P c) (e : EntRec) :
    (normEnt c tab P e).kind = e.kind ∧ (normEnt c tab P e).bases = e.bases ∧
    (normEnt c tab P e).desc = e.desc ∧
    (normEnt c tab P e).alias = (!e.bases.isEmpty && e.alias) ∧
    (normEnt c tab P e).helpers = e.helpers.map normHelper ∧
    (normEnt c tab P e).res = e.res ∧
    (normEnt c tab P e).items = (entItems P e).map (normItem P c) :=
  normEnt_fields E e

/-- A helper whose arguments contain no comma / surrounding blank (and is not the single empty argument)
comes back identically. -/
theorem C16_helper_identity {h : Helper} (ha : ∀ a ∈ h.args, ',' ∉ a ∧ strip a = a) (hne : h.args ≠ [[]])
    (hn : h.name ≠ sHalfGridSnap) : normHelper h = h :=
  normHelper_id ha hne hn

/-- **File level (partial: entity definitions in sorted order).** The entity part of `FGD.export` tokenizes
without error and the top-level loop of `FGD.parse_file` returns the normal forms of all entities, every
`base(…)` resolving to a class defined earlier in the file. -/
theorem C16_fgd_roundtrip_partial (E : EntEnv T o P c) (fold : Char → List Char) {ents : List EntRec}
    (G : FileGood T P c tab ents) :
    (run T o fold (exportFile c tab P ents)).err = none ∧
    (let ts := tksOf (run T o fold (exportFile c tab P ents))
     parseFile P tab (ts.length + 1) ts [] = .ok (ents.map (normEnt c tab P))) :=
  fgd_roundtrip E fold G

/-- `str.casefold` / `str.upper` on the ASCII letters (all that the written keywords, type names, class
names of the shipped database and upper-case tags need). -/
def asciiFold (ch : Char) : List Char := if 'A' ≤ ch ∧ ch ≤ 'Z' then [Char.ofNat (ch.toNat + 32)] else [ch]
def asciiUp (ch : Char) : List Char := if 'a' ≤ ch ∧ ch ≤ 'z' then [Char.ofNat (ch.toNat - 32)] else [ch]
def curPA : ParseCfg := { tt := Gen.Fgdw.typeTab, fold := asciiFold, up := asciiUp }

/-- OBLIGATION on the current source (entity syntax): `@`-words of all entity kinds are bare strings that the
parser maps back to the kind; `base`, `halfgridsnap` are helper types and `aliasof` is not; every resource
type name is a bare string that `RESTYPE_BY_NAME` maps back; the keywords survive casefolding; every value
type text is mapped back also under real casefolding. -/
theorem C16_ent_gen_ok :
    entTablesOK Gen.Tok.tables = true ∧
    ((List.range Gen.Fgdw.entTab.kinds.length).all fun i =>
        BareStr Gen.Tok.tables ('@' :: (Gen.Fgdw.entTab.kinds.getD i ([], [])).1) &&
        decide (lookupKind curPA Gen.Fgdw.entTab ('@' :: (Gen.Fgdw.entTab.kinds.getD i ([], [])).1) = some i)) = true ∧
    Gen.Fgdw.entTab.helperTypes.contains sBase = true ∧ Gen.Fgdw.entTab.helperTypes.contains sAliasof = false ∧
    Gen.Fgdw.entTab.helperTypes.contains sHalfGridSnap = true ∧
    ((List.range Gen.Fgdw.entTab.resNames.length).all fun i =>
        (Gen.Fgdw.entTab.resNames.getD i []).isEmpty ||
        (BareStr Gen.Tok.tables (Gen.Fgdw.entTab.resNames.getD i []) &&
         decide (lookupRes curPA Gen.Fgdw.entTab (Gen.Fgdw.entTab.resNames.getD i []) = some i))) = true ∧
    curPA.foldStr sInput = sInput ∧ curPA.foldStr sOutput = sOutput ∧ curPA.foldStr sResources = sResources ∧
    (∀ label, CfgParseOK curPA (curCfg label)) ∧
    ((List.range Gen.Fgdw.typeTab.values.length).all fun i => decide (TypeParseOK curPA (curCfg true) i)) = true := by
  refine ⟨by decide +kernel, by decide +kernel, by decide +kernel, by decide +kernel, by decide +kernel,
    by decide +kernel, by decide +kernel, by decide +kernel, by decide +kernel, ?_, by decide +kernel⟩
  intro label
  cases label <;> decide +kernel

/-- The entity-level environment of the current source (real ASCII casefolding). -/
theorem C16_entenv_current (label : Bool) :
    EntEnv Gen.Tok.tables Gen.Fgdw.parseOpts curPA (curCfg label) where
  env := { hT := rfl, tables := C16_kv_gen_ok.1, opts := C16_kv_gen_ok.2.1, cfg := C16_gen_ok.1,
           empty := C16_gen_ok.2.1, ext := rfl, cfgP := C16_ent_gen_ok.2.2.2.2.2.2.2.2.2.1 label }
  entTables := C16_ent_gen_ok.1
  foldIn := C16_ent_gen_ok.2.2.2.2.2.2.1
  foldOut := C16_ent_gen_ok.2.2.2.2.2.2.2.1
  foldRes := C16_ent_gen_ok.2.2.2.2.2.2.2.2.1

/-- Three entities of the SHIPPED database (`entityflame`, an alias with resources; `grenade`, keyvalues,
inputs, outputs and resources; `env_pinch`) satisfy the hypotheses at the current source … -/
theorem C16_shipped_examples_good :
    EntGood Gen.Tok.tables curPA (curCfg true) Gen.Fgdw.entTab ["env_entity_igniter".toList] Ship.aliasEnt ∧
    EntGood Gen.Tok.tables curPA (curCfg true) Gen.Fgdw.entTab ["_cbaseentity_".toList] Ship.resEnt ∧
    EntGood Gen.Tok.tables curPA (curCfg true) Gen.Fgdw.entTab ["_cbaseentity_".toList] Ship.plainEnt := by
  refine ⟨by decide +kernel, by decide +kernel, by decide +kernel⟩

/-- … hence their exported text is parsed back to their normal form (instance of the theorem), and the
normal form of `env_pinch` is the entity itself, item by item. -/
theorem C16_shipped_example_roundtrip (fold : Char → List Char) :
    parseEnt curPA Gen.Fgdw.entTab ["_cbaseentity_".toList] Ship.plainEnt.kind
        (tksOf (run Gen.Tok.tables Gen.Fgdw.parseOpts fold
          (exportEnt (curCfg true) Gen.Fgdw.entTab curPA Ship.plainEnt))).tail
      = .ok (normEnt (curCfg true) Gen.Fgdw.entTab curPA Ship.plainEnt, [tkNl, tkEof]) :=
  (entity_roundtrip (C16_entenv_current true) fold C16_shipped_examples_good.2.2).2.2

end WholeEntities

/-- Non-vacuity: a database with an alias chain across blocks and a cycle is well formed. -/
example : C16.Lazy.WF C16.Lazy.exS := C16.Lazy.exS_wf

end C16
