import Srctools.Proofs.Tok
import Srctools.Proofs.TokSeq
import Srctools.Proofs.TokLine
import Srctools.Gen.Tok
/-!
# C02 — `escape_text` and the tokenizer are exact inverses on every string

Property theorems only.  All statements are about the model `Tok` (Model/Tok.lean) instantiated
with the tables regenerated from `/repo/src/srctools/tokenizer.py` (Gen/Tok.lean); they are
proved for an arbitrary table satisfying the decidable predicate `Tok.escOK`, and
`C02_gen_ok` checks that predicate on the tables the source has *now*.
-/
namespace Tok

/-- OBLIGATION on the current source: the extracted tables are well formed. -/
theorem C02_gen_ok : escOK Gen.Tok.tables = true := by decide

/-- The Cython twin uses the same BARE_DISALLOWED set. -/
theorem C02_pyx_tables :
    Gen.Tok.pyxBareDisallowed = some Gen.Tok.tables.bareDisallowed := by decide +kernel

/-- Same elements (order-insensitive). -/
def sameSet (a b : List Char) : Bool := a.all b.contains && b.all a.contains
def samePairs (a b : List (Char × Char)) : Bool := a.all b.contains && b.all a.contains

/-- OBLIGATION on the Cython twin (static only — it cannot be built here): the escape tables read
off the if/elif chains of `_tokenizer.pyx` are recognised, are the same tables as the `.py` ones,
and so satisfy `escOK` as well: all the generic theorems below apply to them. Its control flow is
not covered. -/
theorem C02_pyx_escape_tables :
    ∃ P, Gen.Tok.pyxTables = some P ∧ escOK P = true ∧
      samePairs P.escapes Gen.Tok.tables.escapes = true ∧
      sameSet P.exclSingle Gen.Tok.tables.exclSingle = true ∧
      sameSet P.exclMulti Gen.Tok.tables.exclMulti = true := by
  refine ⟨_, rfl, ?_, ?_, ?_, ?_⟩ <;> decide +kernel

/-- **Inverse law, embedded anywhere.** At any token boundary (any state `st`, any following
text `rest`, any options with escapes enabled), a quote, `escape_text(s)`, a quote is read back
as exactly one STRING token with value `s`, leaving `rest` untouched.  The line counter
advances by the number of raw line feeds of the escaped text (none in single-line mode). -/
theorem C02_inverse (T : Tables) (h : escOK T = true) (o : Opts) (ho : o.allowEscapes = true)
    (fold : Char → List Char) (ml : Bool) (s rest : List Char) (st : St) (fuel : Nat) :
    nextToken T o fold (fuel + 1) st ('"' :: (escapeText T ml s ++ '"' :: rest))
      = .tok .string s
          { line := st.line + (escapeText T ml s).count '\n', lastCr := false } rest := by
  have F := escFacts h
  rw [nextToken]
  simp only [F.quoteNoOp]
  have e1 : ('"' : Char) ≠ '\r' := by decide
  have e2 : ('"' : Char) ≠ '\n' := by decide
  have e3 : ¬ (('"' : Char) = ' ' ∨ ('"' : Char) = '\t') := by decide
  have e4 : ('"' : Char) ≠ '/' := by decide
  simp only [e1, e2, e3, e4, if_false, ho, if_true]
  rw [handleString_escapeText F]
  simp

/-- **Whole-input form.** Tokenizing `"` + `escape_text(s)` + `"` yields exactly one STRING token
with value `s`, then EOF. -/
theorem C02_whole (T : Tables) (h : escOK T = true) (o : Opts) (ho : o.allowEscapes = true)
    (fold : Char → List Char) (ml : Bool) (s : List Char) :
    run T o fold ('"' :: (escapeText T ml s ++ ['"']))
      = { toks := [⟨1, s, 1 + (escapeText T ml s).count '\n'⟩,
                   ⟨0, [], 1 + (escapeText T ml s).count '\n'⟩], err := none } := by
  unfold run
  simp only [List.length_cons, List.length_append, List.length_nil]
  rw [runAux, C02_inverse T h o ho]
  simp only [reduceCtorEq, if_false]
  rw [runAux]
  simp [nextToken, Kind.code]

/-- Escaped text never contains a raw double quote (one that is not the target of a backslash,
as seen by a left-to-right reader). -/
theorem C02_no_raw_quote (T : Tables) (h : escOK T = true) (ml : Bool) (s : List Char) :
    hasRawQuote (escapeText T ml s) = false := by
  have F := escFacts h
  induction s with
  | nil => simp [escapeText, hasRawQuote]
  | cons c cs ih => simp only [escapeText]; rw [hasRawQuote_escChar F, ih]

/-- Escaped text never contains a raw CR, and in single-line mode never a raw LF. -/
theorem C02_single_line (T : Tables) (h : escOK T = true) (ml : Bool) (s : List Char) :
    '\r' ∉ escapeText T ml s ∧ (ml = false → '\n' ∉ escapeText T ml s) := by
  have F := escFacts h
  induction s with
  | nil => simp [escapeText]
  | cons c cs ih =>
    simp only [escapeText, List.mem_append, not_or]
    refine ⟨⟨?_, ih.1⟩, fun hml => ⟨?_, ih.2 hml⟩⟩
    · intro hx
      rcases mem_escChar F ml c _ hx with ⟨rfl, h3, _⟩ | hb | ⟨_, h2⟩
      · exact h3 rfl
      · exact absurd hb (by decide)
      · exact h2 rfl
    · intro hx
      rcases mem_escChar F ml c _ hx with ⟨rfl, _, h4⟩ | hb | ⟨h1, _⟩
      · have := h4 rfl; simp [hml] at this
      · exact absurd hb (by decide)
      · exact h1 rfl

/-- In single-line mode the line counter does not move. -/
theorem C02_single_line_count (T : Tables) (h : escOK T = true) (s : List Char) :
    (escapeText T false s).count '\n' = 0 :=
  List.count_eq_zero.mpr ((C02_single_line T h false s).2 rfl)

/-- The theorems instantiated at the tables of the current source. -/
theorem C02_inverse_current (o : Opts) (ho : o.allowEscapes = true) (fold : Char → List Char)
    (ml : Bool) (s : List Char) :
    run Gen.Tok.tables o fold ('"' :: (escapeText Gen.Tok.tables ml s ++ ['"']))
      = { toks := [⟨1, s, 1 + (escapeText Gen.Tok.tables ml s).count '\n'⟩,
                   ⟨0, [], 1 + (escapeText Gen.Tok.tables ml s).count '\n'⟩], err := none } :=
  C02_whole _ C02_gen_ok o ho fold ml s

/-! Non-vacuity: the hypotheses are met by the real tables and a string using every special
character; and the law visibly fails for a table that forgets to escape CR. -/
def C02_sample : List Char := ['a', '"', '\\', '\r', '\n', '\t', '\'', '?', '/', 'b']

example : run Gen.Tok.tables {} (fun c => [c])
    ('"' :: (escapeText Gen.Tok.tables false C02_sample ++ ['"']))
    = { toks := [⟨1, C02_sample, 1⟩, ⟨0, [], 1⟩], err := none } := by decide +kernel

example : escOK { Gen.Tok.tables with
    escapes := Gen.Tok.tables.escapes.filter (·.2 != '\r') } = false := by decide +kernel

/-- **A whole line, any number of strings.** For every list of strings, each preceded by any blank
padding (spaces / tabs, possibly none), the text `pad₁ "esc(s₁)" pad₂ "esc(s₂)" …` tokenizes to
exactly one STRING token per string, in order, with value `sᵢ`, and then EOF — no bound on the
number of strings, their lengths or the padding.  This is the quantifier's "embedded at any
position of a larger KeyValues/VMF line" for the lines the writers emit (`\t"key" "value"`). -/
theorem C02_sequence (T : Tables) (h : escOK T = true) (hw : wsOK T = true) (o : Opts)
    (ho : o.allowEscapes = true) (fold : Char → List Char) (ml : Bool)
    (items : List (List Char × List Char)) (hb : ∀ p ∈ items, isBlank p.1 = true) :
    run T o fold (quotedSeq T ml items)
      = { toks := seqObs T ml 1 items, err := none } := by
  unfold run
  have := runAux_quotedSeq T h hw o ho fold ml items hb ((quotedSeq T ml items).length + 2) {} []
    (by
      have : items.length ≤ (quotedSeq T ml items).length := by
        clear hb
        induction items with
        | nil => simp
        | cons p ps ih =>
          obtain ⟨ws, s⟩ := p
          simp only [quotedSeq, List.length_cons, List.length_append]
          omega
      omega)
  simpa using this

/-- The values read back are exactly the strings written (projection of `C02_sequence`). -/
theorem C02_sequence_values (T : Tables) (ml : Bool) (line : Nat)
    (items : List (List Char × List Char)) :
    ((seqObs T ml line items).map (·.value)).dropLast = items.map (·.2) ∧
    ((seqObs T ml line items).map (·.kind)).dropLast = items.map (fun _ => Kind.string.code) := by
  induction items generalizing line with
  | nil => simp [seqObs]
  | cons p ps ih =>
    obtain ⟨ws, s⟩ := p
    have hne : seqObs T ml (line + (escapeText T ml s).count '\n') ps ≠ [] := by
      cases ps with
      | nil => simp [seqObs]
      | cons q qs => obtain ⟨a, b⟩ := q; simp [seqObs]
    have h1 := (ih (line + (escapeText T ml s).count '\n')).1
    have h2 := (ih (line + (escapeText T ml s).count '\n')).2
    simp only [seqObs, List.map_cons]
    rw [List.dropLast_cons_of_ne_nil (by simpa using hne),
        List.dropLast_cons_of_ne_nil (by simpa using hne)]
    simp [h1, h2]

theorem C02_gen_wsOK : wsOK Gen.Tok.tables = true := by decide

/-- `C02_sequence` at the tables of the current source. -/
theorem C02_sequence_current (o : Opts) (ho : o.allowEscapes = true) (fold : Char → List Char)
    (ml : Bool) (items : List (List Char × List Char)) (hb : ∀ p ∈ items, isBlank p.1 = true) :
    run Gen.Tok.tables o fold (quotedSeq Gen.Tok.tables ml items)
      = { toks := seqObs Gen.Tok.tables ml 1 items, err := none } :=
  C02_sequence _ C02_gen_ok C02_gen_wsOK o ho fold ml items hb

/-- Non-vacuity of `C02_sequence`: a VMF-style line with a tab, a key, a space and a value using
every special character evaluates as stated. -/
example : run Gen.Tok.tables {} (fun c => [c])
    (quotedSeq Gen.Tok.tables false [(['\t'], ['k', '"']), ([' '], C02_sample), ([], [])])
    = { toks := [⟨1, ['k', '"'], 1⟩, ⟨1, C02_sample, 1⟩, ⟨1, [], 1⟩, ⟨0, [], 1⟩], err := none } := by
  decide +kernel

/-- **A line inside a file.** The padded quoted strings followed by *any* further text `tail`: the
tokenizer reads exactly the strings (observations `strObs`) and then continues on `tail` as if it
started there, with the line counter advanced by the raw line feeds written and no pending CR — so
one written line never disturbs what follows it, whatever that is. -/
theorem C02_line_then (T : Tables) (h : escOK T = true) (hw : wsOK T = true) (o : Opts)
    (ho : o.allowEscapes = true) (fold : Char → List Char) (ml : Bool) (tail : List Char)
    (items : List (List Char × List Char)) (hb : ∀ p ∈ items, isBlank p.1 = true)
    (n line : Nat) (acc : List Obs) :
    runAux T o fold (n + items.length) { line := line, lastCr := false }
        (quotedSeqT T ml tail items) acc
      = runAux T o fold n { line := lineAfter T ml line items, lastCr := false } tail
          ((strObs T ml line items).reverse ++ acc) :=
  runAux_quotedSeqT T h hw o ho fold ml tail items hb n line acc

/-- Concrete instance (a test, not the unbounded claim): the VMF line `\t"k\"" "<sample>"\n`
followed by a closing brace tokenizes to STRING, STRING, NEWLINE, BRACE_CLOSE, EOF. -/
example : run Gen.Tok.tables {} (fun c => [c])
    (quotedSeqT Gen.Tok.tables false ['\n', '}'] [(['\t'], ['k', '"']), ([' '], C02_sample)])
    = { toks := [⟨1, ['k', '"'], 1⟩, ⟨1, C02_sample, 1⟩, ⟨2, ['\n'], 2⟩, ⟨7, ['}'], 2⟩, ⟨0, [], 2⟩],
        err := none } := by
  decide +kernel

end Tok
