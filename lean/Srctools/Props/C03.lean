import Srctools.Proofs.C03Next
import Srctools.Proofs.C03Steps
import Srctools.Proofs.C03Push
import Srctools.Gen.Tok
import Srctools.Gen.C03
/-!
# C03 — tokenizing is total and independent of how the input is chunked

Property theorems only.  Two models: the concrete chunk-cursor tokenizer `TokC` (Model/TokC.lean:
`_next_char` with Python index semantics, push-back, every loop of `_get_token`, `_handle_comment`,
`_handle_string`) and the abstract tokenizer `Tok` (Model/Tok.lean) over the remaining character
list.  Everything is proved for arbitrary tables (`C03_total*`/`C03_eof*` need the decidable
`Tok.opsOK`, re-checked on the tables of the current source by `C03_gen_ok`), all 2^7 option
sets, any `casefold`, any chunking.
-/
namespace TokC
open Tok

/-- OBLIGATION on the current source: no operator character of `_OPERATORS` maps to `Token.EOF`. -/
theorem C03_gen_ok : opsOK Gen.Tok.tables = true := by decide

/-! ## Refinement -/

/-- **Work-horse: `_get_token` over the chunk cursor refines the abstract `nextToken`.** From any
cursor whose index is `≥ -1`, with fuel exceeding the characters left, the concrete tokenizer
returns the same token kind and value (or the same error id, arguments and line) as the abstract
one on `view`, the same `line_num` and `_last_was_cr`, and leaves a cursor — again with index
`≥ -1` — whose view is the abstract remainder. -/
theorem C03_refine (T : Tables) (o : Opts) (fold : Char → List Char) (fuel : Nat) (cst : CSt)
    (h : cst.src.Inv) (hf : cst.src.view.length < fuel) :
    ResRel (nextToken T o fold fuel cst) (Tok.nextToken T o fold fuel cst.abs cst.src.view) :=
  nextToken_refine T o fold fuel cst h hf

/-- The whole observable stream (tokens, values, line numbers, terminating error with id,
arguments and line) of a tokenizer over cursor `s` is the abstract stream of `s.view`. -/
theorem C03_run_refine (T : Tables) (o : Opts) (fold : Char → List Char) (s : Src) (h : s.Inv) :
    run T o fold s = Tok.run T o fold s.view :=
  run_refine T o fold s h

/-- **Headline: chunk independence.** For every chunking `cs` (any number of chunks, empty chunks
anywhere, cuts inside CR-LF, escapes, `*/` …) the stream is the one obtained from the single chunk
`cs.flatten`, and the one obtained from `Tokenizer(str)` on the joined text. -/
theorem C03_chunk_indep (T : Tables) (o : Opts) (fold : Char → List Char) (cs : List (List Char)) :
    run T o fold (Src.ofChunks cs) = run T o fold (Src.ofChunks [cs.flatten]) ∧
    run T o fold (Src.ofChunks cs) = run T o fold (Src.ofString cs.flatten) := by
  rw [run_refine _ _ _ _ (inv_ofChunks cs), run_refine _ _ _ _ (inv_ofChunks _),
    run_refine _ _ _ _ (inv_ofString _), view_ofChunks, view_ofChunks, view_ofString]
  simp

/-- Two deliveries of the same text give the same stream. -/
theorem C03_chunk_indep_any (T : Tables) (o : Opts) (fold : Char → List Char)
    (cs ds : List (List Char)) (h : cs.flatten = ds.flatten) :
    run T o fold (Src.ofChunks cs) = run T o fold (Src.ofChunks ds) := by
  rw [run_refine _ _ _ _ (inv_ofChunks cs), run_refine _ _ _ _ (inv_ofChunks ds),
    view_ofChunks, view_ofChunks, h]

/-- The concrete stream *is* the abstract stream of the joined text (what C01/C02/C16 reason on). -/
theorem C03_run_eq_abstract (T : Tables) (o : Opts) (fold : Char → List Char)
    (cs : List (List Char)) :
    run T o fold (Src.ofChunks cs) = Tok.run T o fold cs.flatten := by
  rw [run_refine _ _ _ _ (inv_ofChunks cs), view_ofChunks]

/-! ## Totality -/

/-- Abstract `_get_token`: fuel `length + 1` always suffices; EOF is produced only with nothing
left, and every other token consumes at least one character. -/
theorem C03_total_A_token (T : Tables) (hT : opsOK T = true) (o : Opts) (fold : Char → List Char)
    (fuel : Nat) (st : St) (inp : List Char) (hf : inp.length < fuel) :
    (Tok.nextToken T o fold fuel st inp).Good inp :=
  nextToken_good T hT o fold fuel st inp hf

/-- Abstract token loop: `run` never ends in `outOfFuel` — it ends with EOF or a syntax error. -/
theorem C03_total_A_run (T : Tables) (hT : opsOK T = true) (o : Opts) (fold : Char → List Char)
    (inp : List Char) (l : Nat) : (Tok.run T o fold inp).err ≠ some (.outOfFuel, l) :=
  runAux_total T hT o fold _ _ inp [] (by omega) l

/-- Concrete `_get_token`: with fuel exceeding the characters left, no loop of the chunked
tokenizer runs out of fuel. -/
theorem C03_total_C_token (T : Tables) (hT : opsOK T = true) (o : Opts) (fold : Char → List Char)
    (fuel : Nat) (cst : CSt) (h : cst.src.Inv) (hf : cst.src.view.length < fuel) (l : Nat)
    (s : Src) : nextToken T o fold fuel cst ≠ .err .outOfFuel l s := by
  intro heq
  have hr := nextToken_refine T o fold fuel cst h hf
  have hg := nextToken_good T hT o fold fuel cst.abs cst.src.view hf
  rw [heq] at hr
  cases ha : Tok.nextToken T o fold fuel cst.abs cst.src.view with
  | tok k v st r => rw [ha] at hr; exact hr.elim
  | err e l' =>
    rw [ha] at hr hg
    exact hg hr.1.symm

/-- Concrete token loop: for every chunking the run ends with EOF or a syntax error, never by
exhausting its fuel (`remaining + 1` per token, `remaining + 2` tokens). -/
theorem C03_total_C_run (T : Tables) (hT : opsOK T = true) (o : Opts) (fold : Char → List Char)
    (cs : List (List Char)) (l : Nat) :
    (run T o fold (Src.ofChunks cs)).err ≠ some (.outOfFuel, l) := by
  rw [C03_run_eq_abstract]
  exact C03_total_A_run T hT o fold _ l

/-! ## EOF is stable -/

/-- Abstract: an EOF token is only produced at the end of the input, and then every further call
returns EOF again with the state unchanged. -/
theorem C03_eof_stable_A (T : Tables) (hT : opsOK T = true) (o : Opts) (fold : Char → List Char)
    (fuel : Nat) (st st' : St) (inp v rest : List Char) (hf : inp.length < fuel)
    (h : Tok.nextToken T o fold fuel st inp = .tok .eof v st' rest) :
    v = [] ∧ rest = [] ∧ ∀ f, Tok.nextToken T o fold (f + 1) st' rest = .tok .eof [] st' [] := by
  have hg := nextToken_good T hT o fold fuel st inp hf
  rw [h] at hg
  rcases hg with ⟨_, h2, h3⟩ | ⟨h1, _⟩
  · subst h3
    exact ⟨h2, rfl, fun f => by rw [Tok.nextToken]⟩
  · exact absurd rfl h1

/-- Concrete: when `_get_token` returns EOF the input is exhausted (view empty, invariant kept). -/
theorem C03_eof_reached_C (T : Tables) (hT : opsOK T = true) (o : Opts) (fold : Char → List Char)
    (fuel : Nat) (cst cst' : CSt) (v : List Char) (h : cst.src.Inv)
    (hf : cst.src.view.length < fuel) (he : nextToken T o fold fuel cst = .tok .eof v cst') :
    v = [] ∧ cst'.src.view = [] ∧ cst'.src.Inv := by
  have hr := nextToken_refine T o fold fuel cst h hf
  rw [he] at hr
  cases ha : Tok.nextToken T o fold fuel cst.abs cst.src.view with
  | err e l => rw [ha] at hr; exact hr.elim
  | tok k v' st r =>
    rw [ha] at hr
    obtain ⟨rfl, rfl, _, _, hv, hinv⟩ := hr
    obtain ⟨h1, h2, _⟩ := C03_eof_stable_A T hT o fold fuel _ _ _ _ _ hf ha
    exact ⟨h1, by rw [hv, h2], hinv⟩

/-- Concrete: from an exhausted cursor every call returns `(EOF, '')`, `line_num` and
`_last_was_cr` do not move, and the cursor stays exhausted (the index keeps growing, harmlessly). -/
theorem C03_eof_stable_C (T : Tables) (o : Opts) (fold : Char → List Char) (f : Nat) (cst : CSt)
    (h : cst.src.Inv) (hv : cst.src.view = []) :
    ∃ cst', nextToken T o fold (f + 1) cst = .tok .eof [] cst' ∧ cst'.line = cst.line ∧
      cst'.lastCr = cst.lastCr ∧ cst'.src.view = [] ∧ cst'.src.Inv := by
  have hr := nextToken_refine T o fold (f + 1) cst h (by rw [hv]; simp)
  rw [hv, Tok.nextToken] at hr
  cases hc : nextToken T o fold (f + 1) cst with
  | err e l => rw [hc] at hr; exact hr.elim
  | tok k v cst' =>
    rw [hc] at hr
    obtain ⟨rfl, rfl, hl, hcr, hvv, hinv⟩ := hr
    exact ⟨cst', rfl, hl, hcr, hvv, hinv⟩

/-- The next `n` calls all return EOF with `line_num` unchanged. -/
def eofFor (T : Tables) (o : Opts) (fold : Char → List Char) : Nat → CSt → Prop
  | 0, _ => True
  | n + 1, cst => ∃ cst', nextToken T o fold 1 cst = .tok .eof [] cst' ∧ cst'.line = cst.line ∧
      eofFor T o fold n cst'

/-- **EOF forever**: once the input is exhausted, any number of further calls return EOF. -/
theorem C03_eof_forever (T : Tables) (o : Opts) (fold : Char → List Char) (n : Nat) (cst : CSt)
    (h : cst.src.Inv) (hv : cst.src.view = []) : eofFor T o fold n cst := by
  induction n generalizing cst with
  | zero => trivial
  | succ n ih =>
    obtain ⟨cst', h1, h2, _, h4, h5⟩ := C03_eof_stable_C T o fold 0 cst h hv
    exact ⟨cst', h1, h2, ih cst' h5 h4⟩

/-! ## The index invariant -/

/-- States of a tokenizer between calls: a fresh `Tokenizer(iterable)` or `Tokenizer(str)`, and
whatever any successful `_get_token` (with enough fuel) leaves behind. -/
inductive Reach (T : Tables) (o : Opts) (fold : Char → List Char) : CSt → Prop
  | chunks (cs : List (List Char)) : Reach T o fold { src := Src.ofChunks cs }
  | string (t : List Char) : Reach T o fold { src := Src.ofString t }
  | step {cst cst' : CSt} {k : Kind} {v : List Char} (fuel : Nat) :
      Reach T o fold cst → cst.src.view.length < fuel →
      nextToken T o fold fuel cst = .tok k v cst' → Reach T o fold cst'

/-- **`-1 ≤ _char_index` at every token boundary**: the tokenizer never pushes back twice in a
row, so `_cur_chunk[_char_index]` is never evaluated at a negative index (Python would silently
wrap around to the end of the chunk). Inside the loops the same invariant is the precondition and
postcondition of every refinement lemma (`Proofs/C03Refine.lean`). -/
theorem C03_idx_inv (T : Tables) (o : Opts) (fold : Char → List Char) (cst : CSt)
    (h : Reach T o fold cst) : -1 ≤ cst.src.idx := by
  induction h with
  | chunks cs => exact inv_ofChunks cs
  | string t => exact inv_ofString t
  | @step cst cst' k v fuel _ hf he ih =>
    have hr := nextToken_refine T o fold fuel cst ih hf
    rw [he] at hr
    cases ha : Tok.nextToken T o fold fuel cst.abs cst.src.view with
    | err e l => rw [ha] at hr; exact hr.elim
    | tok k' v' st r => rw [ha] at hr; exact hr.2.2.2.2.2

/-- The cursor primitives on their own: `_next_char` keeps the invariant, reads the head of the
view and advances it. -/
theorem C03_next_char (s : Src) (h : -1 ≤ s.idx) :
    s.next.1 = s.view.head? ∧ s.next.2.view = s.view.tail ∧ -1 ≤ s.next.2.idx :=
  next_view s h

/-! ## Linear number of steps -/

/-- One `_get_token`, from any cursor with index `≥ -1` and any fuel: a token other than EOF does
not raise the potential `calls + 2·(characters left)`, EOF raises it by at most one, and an error is
raised after at most `potential + 1` calls of `_next_char`. (Each character is read at most twice:
once, and once more after the single push-back that may follow it.) -/
theorem C03_steps_token (T : Tables) (o : Opts) (fold : Char → List Char) (fuel : Nat) (cst : CSt)
    (h : cst.src.Inv) : PotRes cst (nextToken T o fold fuel cst) :=
  nextToken_pot T o fold fuel cst h

/-- **Step bound for the whole run**, for every chunking and option set: up to and including the
call that returns EOF or raises, `_next_char` is called at most `2·n + 1` times, `n` the length of
the text (empty chunks cost nothing: they are skipped inside one call). -/
theorem C03_steps (T : Tables) (o : Opts) (fold : Char → List Char) (cs : List (List Char)) :
    runCalls T o fold (Src.ofChunks cs) ≤ 2 * cs.flatten.length + 1 := by
  have := runCallsAux_le T o fold ((Src.ofChunks cs).view.length + 2) { src := Src.ofChunks cs }
    (inv_ofChunks cs)
  have hc : (Src.ofChunks cs).calls = 0 := rfl
  simp only [Src.pot, hc, view_ofChunks] at this
  simp only [runCalls, view_ofChunks]
  omega

theorem C03_steps_string (T : Tables) (o : Opts) (fold : Char → List Char) (t : List Char) :
    runCalls T o fold (Src.ofString t) ≤ 2 * t.length + 1 := by
  have := runCallsAux_le T o fold ((Src.ofString t).view.length + 2) { src := Src.ofString t }
    (inv_ofString t)
  have hc : (Src.ofString t).calls = 0 := rfl
  simp only [Src.pot, hc, view_ofString] at this
  simp only [runCalls, view_ofString]
  omega

/-! ## Tokenizer objects: the push-back layer and the fresh state

In the models a tokenizer is a value; the stream of a text is a function of the text, the options
and the delivery alone.  For the code that is true only if every `Tokenizer(...)` starts from its
own empty push-back stack, `line_num = 1`, index -1 — `C03_init_ok` re-checks, on the source as it
is now, that `__init__` assigns these per instance and that no class-level value exists (a
class-level `_pushback = []` is one list shared by all tokenizers of the process). -/

/-- What the models assume about object construction and the push-back methods. -/
def initOK (f : Gen.C03.InitFacts) : Bool :=
  f.pushbackInitEmptyList && f.lineNumInitOne && f.pushbackNoClassValue && f.lineNumNoClassValue &&
  f.tokCallsSuperInit && f.charIndexInitMinusOne && f.lastWasCrInitFalse && f.cursorNoClassValue &&
  f.sourceSplitOk && f.callShapeOk && f.peekShapeOk && f.pushBackShapeOk

/-- OBLIGATION on the current source: per-instance `self._pushback = []`, `self.line_num = 1`,
`self._char_index = -1`, `self._last_was_cr = False`, nothing of it at class level, and
`__call__`/`peek`/`push_back` written as modelled in `Model/C03Push.lean`. -/
theorem C03_init_ok : initOK Gen.C03.facts = true := by decide

/-- A fresh tokenizer has an empty push-back stack, line 1, `_last_was_cr` false, index -1 — whatever
was done with other tokenizers before (there is nothing else it could depend on). -/
theorem C03_fresh_state (cs : List (List Char)) :
    let p : PB CSt (Kind × List Char) := PB.fresh { src := Src.ofChunks cs }
    p.stack = [] ∧ p.src.line = 1 ∧ p.src.lastCr = false ∧ p.src.src.idx = -1 ∧ p.src.src.cur = [] :=
  ⟨rfl, rfl, rfl, rfl, rfl⟩

/-- `peek; call = call`: `peek` returns what `__call__` would, the following `__call__` returns the
same token and leaves the tokenizer where a single `__call__` would have; an error passes through
and pushes nothing. For any token source. -/
theorem C03_peek_call {σ τ ε : Type} (get : σ → Except ε (τ × σ)) (p : PB σ τ) :
    match p.call get with
    | .ok (t, p') => p.peek get = .ok (t, p'.pushBack t) ∧ (p'.pushBack t).call get = .ok (t, p')
    | .error e => p.peek get = .error e :=
  PB.peek_then_call get p

/-- `push_back(t); call` returns `t` and restores the tokenizer. -/
theorem C03_push_call {σ τ ε : Type} (get : σ → Except ε (τ × σ)) (p : PB σ τ) (t : τ) :
    (p.pushBack t).call get = .ok (t, p) :=
  PB.call_pushBack get p t

/-- The stream a consumer gets from a *fresh* tokenizer object through `__call__` is `run`; hence
(with `C03_chunk_indep`) it depends on the joined text and the options only. -/
theorem C03_fresh_stream (T : Tables) (o : Opts) (fold : Char → List Char) (cs : List (List Char)) :
    pbRun T o fold (Src.ofChunks cs) = Tok.run T o fold cs.flatten := by
  rw [pbRun_eq, C03_run_eq_abstract]

/-! ## The theorems at the tables of the current source -/

theorem C03_chunk_indep_current (o : Opts) (fold : Char → List Char) (cs : List (List Char)) :
    run Gen.Tok.tables o fold (Src.ofChunks cs) = run Gen.Tok.tables o fold (Src.ofString cs.flatten) ∧
    ∀ l, (run Gen.Tok.tables o fold (Src.ofChunks cs)).err ≠ some (.outOfFuel, l) :=
  ⟨(C03_chunk_indep _ o fold cs).2, C03_total_C_run _ C03_gen_ok o fold cs⟩

/-! ## Non-vacuity

A text with a CR-LF pair, an escape, a `*/` and a pushed-back terminator, cut inside each of them
and with empty chunks: the concrete model really runs through refills and push-backs, and the
stream is what `Tokenizer` prints.  The negative wrap-around is really in the model (and is what
the invariant excludes); the invariant is needed (from index -2 the view lemma fails). -/

def C03_sample : List (List Char) :=
  [[], ['"', 'a', '\\'], ['n', '"', '\r'], [], ['\n', 'k', 'e'], ['y', '{', '/', '*', ' ', '*'], ['*'],
   ['/', '#', 'I', 'n'], ['c', ' ', '/'], ['/', 'x']]

def C03_sampleOpts : Opts := { allowStarComments := true, preserveComments := true }

example : run Gen.Tok.tables C03_sampleOpts (fun c => [c.toLower]) (Src.ofChunks C03_sample)
    = { toks := [⟨1, ['a', '\n'], 1⟩, ⟨2, ['\n'], 2⟩, ⟨1, ['k', 'e', 'y'], 2⟩, ⟨6, ['{'], 2⟩,
                 ⟨5, [' '], 2⟩, ⟨4, ['i', 'n', 'c'], 2⟩, ⟨5, ['x'], 2⟩, ⟨0, [], 2⟩],
        err := none } := by decide +kernel

example : run Gen.Tok.tables {} (fun c => [c]) (Src.ofChunks [['"', 'a'], ['\r'], ['\n', 'b']])
    = { toks := [], err := some (.untermString, 2) } := by decide +kernel

/-- the bound `2n+1` is attained: `a //` costs 2·4+... calls -/
example : runCalls Gen.Tok.tables {} (fun c => [c]) (Src.ofChunks [['a', ' '], ['/', '/']]) = 7 := by
  decide +kernel

example : runCalls Gen.Tok.tables {} (fun c => [c]) (Src.ofChunks [['a']]) = 3 := by decide +kernel

example : (Src.next { cur := ['a', 'b'], idx := -2, rest := [] }).1 = some 'b' := by decide +kernel

example : (Src.next { cur := ['a', 'b'], idx := -3, rest := [['c']] }).1 = some 'a' := by decide +kernel

example : Reach Gen.Tok.tables {} (fun c => [c]) { src := Src.ofChunks C03_sample } := .chunks _

example : opsOK { Gen.Tok.tables with operators := [('{', 0)] } = false := by decide

/-- the refactor "defaults live on the class" is rejected -/
example : initOK { Gen.C03.facts with pushbackInitEmptyList := false, pushbackNoClassValue := false } = false := by
  decide

/-- a stale pushed-back token *would* change the stream: the empty stack of `fresh` matters -/
example : pbRunAux Gen.Tok.tables {} (fun c => [c]) 3
    { stack := [(.braceClose, ['}'])], src := { src := Src.ofString ['a'] } } []
    ≠ run Gen.Tok.tables {} (fun c => [c]) (Src.ofString ['a']) := by decide +kernel

end TokC
