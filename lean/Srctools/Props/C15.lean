import Srctools.Proofs.C15
import Srctools.Model.C15File
import Srctools.Gen.Vtf
/-!
# C15 — VTF save/read round trip (property theorems)
-/
namespace C15

/-! ## Obligations on the current source (translator output = model) -/

/-- The `ImageFormats` table of the source is the model's. -/
theorem C15_gen_formats : Gen.Vtf.formats = C15.formats := by decide

/-- The per-pixel expressions symbolically executed from `_py_vtf_readwrite.py`
(`load_*`, `save_*`, `saveload_rgba`, `decomp565`, `compress565`, `upsample`) are the model's. -/
theorem C15_gen_codecs : Gen.Vtf.codecs = C15.codecs := by decide

end C15
