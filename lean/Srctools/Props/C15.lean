import Srctools.Proofs.C15
import Srctools.Proofs.C15Struct
import Srctools.Proofs.C15Compute
import Srctools.Proofs.C15Resave
import Srctools.Model.C15File
import Srctools.Gen.Vtf
/-!
# C15 — VTF save/read round trip: metadata exact, pixels exact up to the format

Property theorems only. Statements are about the model (`Model/C15.lean`, `Model/C15File.lean`);
`C15_gen_*` tie the model's tables and per-pixel codec expressions to the ones regenerated from the
current source by `tools/gen_vtf.py`.

The codec theorems quantify over **all** pixels `p` with byte channels (`p.valid`) or all encoded
words; they are proved through `quant_of_same` / `words_of_same` (Proofs/C15): a verified decision
procedure on the codec expressions, so `decide` evaluates a closed term and never enumerates pixels.
-/
namespace C15

/-! ## Obligations on the current source (translator output = model) -/

/-- The `ImageFormats` table of the source is the model's. -/
theorem C15_gen_formats : Gen.Vtf.formats = C15.formats := by decide

/-- The per-pixel expressions symbolically executed from `_py_vtf_readwrite.py`
(`load_*`, `save_*`, `saveload_rgba`, `decomp565`, `compress565`, `upsample`) are the model's. -/
theorem C15_gen_codecs : Gen.Vtf.codecs = C15.codecs := by decide

/-- Every format with a saver also has a per-pixel loader with four outputs; the saver writes
exactly `size / 8` bytes per pixel, the loader reads only those, the format is not block-compressed
(so `frame_size = size·w·h/8` is the codec's output length). -/
theorem C15_gen_tables_ok : tablesOK Gen.Vtf.formats Gen.Vtf.codecs = true := by decide

/-- The formats the pure-Python module can write are exactly `writableInds`. -/
theorem C15_gen_writable :
    (Gen.Vtf.codecs.filter (·.hasSave)).map (·.ind) = writableInds := by decide

/-- Cython twin, static tie: every per-pixel expression list that could be read out of
`_cy_vtf_readwrite.pyx` equals the model's, and that covers these 19 formats (all writable ones
except A8, whose Cython loader uses `memset`). -/
theorem C15_gen_pyx :
    (Gen.Vtf.pyxCodecs.all fun (i, l, s) =>
        l.all (· == (codecOf i).load) && s.all (· == (codecOf i).save)) = true ∧
    (Gen.Vtf.pyxCodecs.filter fun (_, l, s) => l.isSome && s.isSome).map (·.1)
      = [0, 1, 2, 3, 4, 5, 6, 9, 10, 11, 12, 16, 17, 18, 19, 21, 22, 23, 26] := by decide

/-- Constants the layout model relies on: header struct format, the literal struct formats used by
save / read / sheet code, ENVMAP flag, cube sides (SPHERE last, dropped from 7.5), reserved resource
ids, filter mode values. -/
theorem C15_gen_consts :
    Gen.Vtf.headerFmt = C15.headerFmt ∧ Gen.Vtf.saveFmts = C15.saveFmts ∧
    Gen.Vtf.readFmts = C15.readFmts ∧ Gen.Vtf.sheetFmts = C15.sheetFmts ∧
    Gen.Vtf.envmap = envmapFlag ∧ Gen.Vtf.cubeSides = C15.cubeSides ∧
    Gen.Vtf.cubesDropLast = true ∧ Gen.Vtf.sphereCutoff = C15.sphereCutoff ∧
    Gen.Vtf.resIds = [idLow, idHigh, idSheet] ∧ Gen.Vtf.filters = C15.filters := by decide

/-! ## Codecs: formats that store 8 bits per used channel -/

/-- RGBA8888, ABGR8888, ARGB8888, BGRA8888, UVWQ8888, UVLX8888: every pixel is reproduced exactly. -/
theorem C15_exact_rgba (i : Nat) (hi : i ∈ [0, 1, 11, 12, 23, 26]) (p : Px) :
    loadF (codecOf i) (saveF (codecOf i) p) = p := by
  simp only [List.mem_cons, List.mem_nil_iff, or_false] at hi
  rcases hi with rfl | rfl | rfl | rfl | rfl | rfl <;> cases p <;> rfl

/-- RGB888, BGR888, BGRX8888: colour exact, alpha reads back opaque. -/
theorem C15_exact_rgb (i : Nat) (hi : i ∈ [2, 3, 16]) (p : Px) :
    loadF (codecOf i) (saveF (codecOf i) p) = { p with a := 255 } := by
  simp only [List.mem_cons, List.mem_nil_iff, or_false] at hi
  rcases hi with rfl | rfl | rfl <;> cases p <;> rfl

/-- A8 keeps alpha only; UV88 keeps red and green only. -/
theorem C15_exact_a8_uv88 (p : Px) :
    loadF (codecOf 8) (saveF (codecOf 8) p) = ⟨0, 0, 0, p.a⟩ ∧
    loadF (codecOf 22) (saveF (codecOf 22) p) = ⟨p.r, p.g, 0, 255⟩ := by
  cases p; exact ⟨rfl, rfl⟩

/-! ## Codecs: reduced precision -/

/-- BGRX5551: five bits per colour, alpha ignored. -/
theorem C15_quant_bgrx5551 (p : Px) (hp : p.valid) :
    loadF (codecOf 18) (saveF (codecOf 18) p) = ⟨q5 p.r, q5 p.g, q5 p.b, 255⟩ :=
  quant_of_same (codecOf 18) qE5551x (by decide +kernel) p hp

/-- BGRA5551: five bits per colour, one bit of alpha (`≥ 128` ↦ 255, else 0). -/
theorem C15_quant_bgra5551 (p : Px) (hp : p.valid) :
    loadF (codecOf 21) (saveF (codecOf 21) p) = ⟨q5 p.r, q5 p.g, q5 p.b, q1 p.a⟩ :=
  quant_of_same (codecOf 21) qE5551a (by decide +kernel) p hp

/-- BGRA4444: four bits per channel, the nibble is duplicated. -/
theorem C15_quant_bgra4444 (p : Px) (hp : p.valid) :
    loadF (codecOf 19) (saveF (codecOf 19) p) = ⟨q4 p.r, q4 p.g, q4 p.b, q4 p.a⟩ :=
  quant_of_same (codecOf 19) qE4444 (by decide +kernel) p hp

/-- I8 / IA88: the floor mean of the three colours in all three, alpha opaque / kept. -/
theorem C15_quant_grey (p : Px) :
    loadF (codecOf 5) (saveF (codecOf 5) p) = ⟨greyOf p, greyOf p, greyOf p, 255⟩ ∧
    loadF (codecOf 6) (saveF (codecOf 6) p) = ⟨greyOf p, greyOf p, greyOf p, p.a⟩ := by
  cases p; exact ⟨rfl, rfl⟩

/-- RGB888_BLUESCREEN / BGR888_BLUESCREEN: a pixel with alpha below 128 (or opaque pure blue, the
on-disk code for transparency) reads back as transparent black, any other as itself, opaque. -/
theorem C15_quant_bluescreen (i : Nat) (hi : i = 9 ∨ i = 10) (p : Px) :
    loadF (codecOf i) (saveF (codecOf i) p) =
      if p.a < 128 ∨ (p.r = 0 ∧ p.g = 0 ∧ p.b = 255) then ⟨0, 0, 0, 0⟩ else ⟨p.r, p.g, p.b, 255⟩ := by
  obtain ⟨r, g, b, a⟩ := p
  rcases hi with rfl | rfl
  all_goals
    simp only [loadF, saveF, codecOf, codecs, List.getD_cons_succ, List.getD_cons_zero, loadBlue,
      saveBlue3, List.map_cons, List.map_nil, E.eval, Px.env, bytesEnv, Px.ofList, R, G, B, A]
    by_cases ha : a < 128
    · simp [ha]
    · by_cases hblue : r = 0 ∧ g = 0 ∧ b = 255
      · obtain ⟨rfl, rfl, rfl⟩ := hblue; simp [ha]
      · simp only [ha, if_false, false_or, hblue]
        have : ¬ ((r = g ∧ g = 0) ∧ b = 255) := fun h => hblue ⟨h.1.1.trans h.1.2, h.1.2, h.2⟩
        simp [this]

/-- **One statement for the 18 lawful writable formats** (all but RGB565 / BGR565):
`load (save p) = quant p`. -/
theorem C15_roundtrip (i : Nat) (hi : i ∈ lawfulInds) (p : Px) (hp : p.valid) :
    loadF (codecOf i) (saveF (codecOf i) p) = quant i p := by
  simp only [lawfulInds, List.mem_cons, List.mem_nil_iff, or_false] at hi
  rcases hi with rfl | rfl | rfl | rfl | rfl | rfl | rfl | rfl | rfl | rfl | rfl | rfl | rfl |
    rfl | rfl | rfl | rfl | rfl
  · exact C15_exact_rgba 0 (by decide) p
  · exact C15_exact_rgba 1 (by decide) p
  · exact C15_exact_rgb 2 (by decide) p
  · exact C15_exact_rgb 3 (by decide) p
  · exact (C15_quant_grey p).1
  · exact (C15_quant_grey p).2
  · exact (C15_exact_a8_uv88 p).1
  · exact C15_quant_bluescreen 9 (.inl rfl) p
  · exact C15_quant_bluescreen 10 (.inr rfl) p
  · exact C15_exact_rgba 11 (by decide) p
  · exact C15_exact_rgba 12 (by decide) p
  · exact C15_exact_rgb 16 (by decide) p
  · exact C15_quant_bgrx5551 p hp
  · exact C15_quant_bgra4444 p hp
  · exact C15_quant_bgra5551 p hp
  · exact (C15_exact_a8_uv88 p).2
  · exact C15_exact_rgba 23 (by decide) p
  · exact C15_exact_rgba 26 (by decide) p

/-! ## Every stored word is a fixed point: `save (load w) = w` on all 65 536 two-byte values -/

/-- BGRA4444: all 16 bits carry data; decoding then encoding any word gives it back. -/
theorem C15_words_bgra4444 (x y : Nat) (hx : x < 256) (hy : y < 256) :
    saveF (codecOf 19) (loadF (codecOf 19) [x, y]) = [x, y] :=
  words_of_same (codecOf 19) [.var 0, .var 1] (by decide) (by decide +kernel) [x, y] (by simp [hx, hy])

/-- BGRX5551: the top bit of the second byte is not used, everything else is a fixed point. -/
theorem C15_words_bgrx5551 (x y : Nat) (hx : x < 256) (hy : y < 256) :
    saveF (codecOf 18) (loadF (codecOf 18) [x, y]) = [x, y &&& 127] :=
  words_of_same (codecOf 18) [.var 0, .and (.var 1) (.lit 127)] (by decide) (by decide +kernel) [x, y]
    (by simp [hx, hy])

/-- BGRA5551: all 16 bits carry data. (The alpha bit goes through `255 if b & 0x80 else 0`, which
is outside the bitwise fragment: that one bit is handled by `alpha_bit`.) -/
theorem C15_words_bgra5551 (x y : Nat) (hx : x < 256) (hy : y < 256) :
    saveF (codecOf 21) (loadF (codecOf 21) [x, y]) = [x, y] := by
  have hb : ∀ b ∈ [x, y], b < 256 := by simp [hx, hy]
  have henv := bytesEnv_lt [x, y] hb
  rw [saveF_loadF (codecOf 21) (by decide)]
  -- first byte: purely bitwise
  have h0 : E.same ((saveBGRA5551.getD 0 default).subst loadBGRA5551) (.var 0) = true := by decide +kernel
  -- second byte with the alpha term replaced by `b & 0x80`
  have h1 : E.same (.or (.or (.and (.var 1) (.lit 128))
        ((E.and (.shr R 1) (.lit 124)).subst loadBGRA5551)) ((E.shr G 6).subst loadBGRA5551))
      (.var 1) = true := by decide +kernel
  have g0 : E.eval (bytesEnv [x, y]) ((saveBGRA5551.getD 0 default).subst loadBGRA5551) = x :=
    E.eval_eq_of_same _ _ h0 _ henv
  have e1 := E.eval_eq_of_same _ _ h1 _ henv
  have ha := alpha_bit y hy
  have g1 : E.eval (bytesEnv [x, y]) ((saveBGRA5551.getD 1 default).subst loadBGRA5551) = y := by
    simp only [E.subst, E.eval, saveBGRA5551, loadBGRA5551, load5551rgb, List.getD_cons_succ,
      List.getD_cons_zero, List.cons_append, List.nil_append, up, bytesEnv, R, G, A] at e1 ha ⊢
    rw [ha]
    exact e1
  show [E.eval (bytesEnv [x, y]) ((saveBGRA5551.getD 0 default).subst loadBGRA5551),
        E.eval (bytesEnv [x, y]) ((saveBGRA5551.getD 1 default).subst loadBGRA5551)] = [x, y]
  rw [g0, g1]

/-! ## Storing the stored pixel again changes nothing -/

/-- For every lawful writable format and every pixel: `save (load (save p)) = save p`. -/
theorem C15_idempotent (i : Nat) (hi : i ∈ lawfulInds) (p : Px) (hp : p.valid) :
    saveF (codecOf i) (loadF (codecOf i) (saveF (codecOf i) p)) = saveF (codecOf i) p := by
  simp only [lawfulInds, List.mem_cons, List.mem_nil_iff, or_false] at hi
  rcases hi with rfl | rfl | rfl | rfl | rfl | rfl | rfl | rfl | rfl | rfl | rfl | rfl | rfl |
    rfl | rfl | rfl | rfl | rfl
  · cases p; rfl
  · cases p; rfl
  · cases p; rfl
  · cases p; rfl
  · -- I8
    obtain ⟨r, g, b, a⟩ := p
    show [((r + g + b) / 3 + (r + g + b) / 3 + (r + g + b) / 3) / 3] = [(r + g + b) / 3]
    congr 1; omega
  · obtain ⟨r, g, b, a⟩ := p
    show [((r + g + b) / 3 + (r + g + b) / 3 + (r + g + b) / 3) / 3, a] = [(r + g + b) / 3, a]
    congr 1; omega
  · cases p; rfl
  · rw [C15_quant_bluescreen 9 (.inl rfl)]
    obtain ⟨r, g, b, a⟩ := p
    by_cases h : a < 128 ∨ (r = 0 ∧ g = 0 ∧ b = 255)
    · rw [if_pos h]
      rcases h with h | ⟨rfl, rfl, rfl⟩
      · simp [saveF, codecOf, codecs, saveBlue3, E.eval, Px.env, h, R, G, B, A]
      · by_cases h' : a < 128 <;>
          simp [saveF, codecOf, codecs, saveBlue3, E.eval, Px.env, h', R, G, B, A]
    · rw [if_neg h]
      have h' : ¬ a < 128 := fun x => h (.inl x)
      simp [saveF, codecOf, codecs, saveBlue3, E.eval, Px.env, h', R, G, B, A]
  · rw [C15_quant_bluescreen 10 (.inr rfl)]
    obtain ⟨r, g, b, a⟩ := p
    by_cases h : a < 128 ∨ (r = 0 ∧ g = 0 ∧ b = 255)
    · rw [if_pos h]
      rcases h with h | ⟨rfl, rfl, rfl⟩
      · simp [saveF, codecOf, codecs, saveBlue3, E.eval, Px.env, h, R, G, B, A]
      · by_cases h' : a < 128 <;>
          simp [saveF, codecOf, codecs, saveBlue3, E.eval, Px.env, h', R, G, B, A]
    · rw [if_neg h]
      have h' : ¬ a < 128 := fun x => h (.inl x)
      simp [saveF, codecOf, codecs, saveBlue3, E.eval, Px.env, h', R, G, B, A]
  · cases p; rfl
  · cases p; rfl
  · cases p; rfl
  · exact idem_of_same (codecOf 18) (by decide) (by decide +kernel) p hp
  · exact idem_of_same (codecOf 19) (by decide) (by decide +kernel) p hp
  · -- BGRA5551: its bytes are bytes, and every word is a fixed point
    have hlt := saveF_lt (codecOf 21) (by decide +kernel) p hp
    have hlen : saveF (codecOf 21) p = [(saveF (codecOf 21) p).getD 0 0, (saveF (codecOf 21) p).getD 1 0] := rfl
    rw [hlen]
    apply C15_words_bgra5551
    · exact hlt _ (by rw [hlen]; simp)
    · exact hlt _ (by rw [hlen]; simp)
  · cases p; rfl
  · cases p; rfl
  · cases p; rfl

/-! ## The quantisation in arithmetic terms -/

/-- `q5/q6/q4` keep the top 5/6/4 bits and replicate the leading bits below them; `q1` is a
threshold at 128. Consequently the stored value differs from the original by less than one step
of the reduced precision, and values are bytes. -/
theorem C15_quant_arith : ∀ x, x < 256 →
    q5 x = x / 8 * 8 + x / 32 ∧ q6 x = x / 4 * 4 + x / 64 ∧ q4 x = x / 16 * 16 + x / 16 ∧
    q1 x = (if x ≥ 128 then 255 else 0) ∧
    q5 x / 8 = x / 8 ∧ q6 x / 4 = x / 4 ∧ q4 x / 16 = x / 16 ∧
    q5 x < 256 ∧ q6 x < 256 ∧ q4 x < 256 ∧
    q5 (q5 x) = q5 x ∧ q6 (q6 x) = q6 x ∧ q4 (q4 x) = q4 x ∧ q1 (q1 x) = q1 x := by
  decide +kernel

/-- The quantisation of a pixel with byte channels has byte channels. -/
theorem C15_quant_valid (i : Nat) (hi : i ∈ writableInds) (p : Px) (hp : p.valid) : (quant i p).valid := by
  obtain ⟨r, g, b, a⟩ := p
  obtain ⟨hr, hg, hb, ha⟩ := hp
  dsimp only at hr hg hb ha
  have Q := C15_quant_arith
  have hgrey : (r + g + b) / 3 < 256 := by omega
  have r5 := (Q r hr).2.2.2.2.2.2.2.1
  have g5 := (Q g hg).2.2.2.2.2.2.2.1
  have b5 := (Q b hb).2.2.2.2.2.2.2.1
  have g6 := (Q g hg).2.2.2.2.2.2.2.2.1
  have r4 := (Q r hr).2.2.2.2.2.2.2.2.2.1
  have g4 := (Q g hg).2.2.2.2.2.2.2.2.2.1
  have b4 := (Q b hb).2.2.2.2.2.2.2.2.2.1
  have a4 := (Q a ha).2.2.2.2.2.2.2.2.2.1
  have a1 : q1 a < 256 := by simp only [q1]; split <;> omega
  simp only [writableInds, List.mem_cons, List.mem_nil_iff, or_false] at hi
  rcases hi with rfl | rfl | rfl | rfl | rfl | rfl | rfl | rfl | rfl | rfl | rfl | rfl | rfl | rfl |
    rfl | rfl | rfl | rfl | rfl | rfl
  all_goals
    simp only [quant, greyOf, Nat.reduceEqDiff, or_self, or_false, or_true, if_true, if_false]
  all_goals try split
  all_goals (refine ⟨?_, ?_, ?_, ?_⟩ <;> dsimp only <;> first | assumption | omega)

/-! ## RGB565 / BGR565: what the code does, why the law fails, and that the repair is right -/

/-- RGB565 and BGR565 **as coded**: `load (save p)` keeps the top 5/6/5 bits, but red and blue
come back exchanged (`compress565` and `decomp565` disagree on where the first component lives). -/
theorem C15_565_as_coded (i : Nat) (hi : i = 4 ∨ i = 17) (p : Px) (hp : p.valid) :
    loadF (codecOf i) (saveF (codecOf i) p) = ⟨q5 p.b, q6 p.g, q5 p.r, 255⟩ := by
  rcases hi with rfl | rfl
  · exact quant_of_same (codecOf 4) qE565swapped (by decide +kernel) p hp
  · exact quant_of_same (codecOf 17) qE565swapped (by decide +kernel) p hp

/-- **The full round-trip statement is false for RGB565 / BGR565** (open finding `codec-RGB565`,
`codec-BGR565`): pure red is read back as pure blue, and storing that again changes the data. -/
theorem C15_565_defect (i : Nat) (hi : i = 4 ∨ i = 17) :
    ∃ p : Px, p.valid ∧ loadF (codecOf i) (saveF (codecOf i) p) ≠ quant i p ∧
      saveF (codecOf i) (loadF (codecOf i) (saveF (codecOf i) p)) ≠ saveF (codecOf i) p := by
  rcases hi with rfl | rfl <;> exact ⟨⟨255, 0, 0, 255⟩, by decide, by decide, by decide⟩

/-- Strongest true statement for the code as it is: the law holds on pixels whose red and blue agree
in their top five bits (the excluded class of the finding is `p.r / 8 ≠ p.b / 8`). -/
theorem C15_quant_565_partial (i : Nat) (hi : i = 4 ∨ i = 17) (p : Px) (hp : p.valid)
    (hrb : p.r / 8 = p.b / 8) :
    loadF (codecOf i) (saveF (codecOf i) p) = quant i p := by
  rw [C15_565_as_coded i hi p hp]
  have hq : quant i p = ⟨q5 p.r, q6 p.g, q5 p.b, 255⟩ := by rcases hi with rfl | rfl <;> rfl
  rw [hq]
  have e : q5 p.r = q5 p.b := by
    have hr := (C15_quant_arith p.r hp.1).1
    have hb := (C15_quant_arith p.b hp.2.2.1).1
    omega
  rw [e]

/-- With the encoder that agrees with `decomp565` (the patch `fixes/C15-compress565-channel-order`,
which reproduces VTFEdit's bytes but is blocked by the repository's reference files) the full law
holds: quantisation to 5/6/5 bits, every word a fixed point, re-saving changes nothing. -/
theorem C15_565_repaired (c : Codec) (hc : c = fixedRGB565 ∨ c = fixedBGR565) (p : Px) (hp : p.valid)
    (x y : Nat) (hx : x < 256) (hy : y < 256) :
    loadF c (saveF c p) = ⟨q5 p.r, q6 p.g, q5 p.b, 255⟩ ∧ saveF c (loadF c [x, y]) = [x, y] ∧
    saveF c (loadF c (saveF c p)) = saveF c p := by
  have hb : ∀ b ∈ [x, y], b < 256 := by simp [hx, hy]
  rcases hc with rfl | rfl
  · exact ⟨quant_of_same fixedRGB565 qE565 (by decide +kernel) p hp,
      words_of_same fixedRGB565 [.var 0, .var 1] (by decide) (by decide +kernel) [x, y] hb,
      idem_of_same fixedRGB565 (by decide) (by decide +kernel) p hp⟩
  · exact ⟨quant_of_same fixedBGR565 qE565 (by decide +kernel) p hp,
      words_of_same fixedBGR565 [.var 0, .var 1] (by decide) (by decide +kernel) [x, y] hb,
      idem_of_same fixedBGR565 (by decide) (by decide +kernel) p hp⟩

/-! ## Whole frames -/

/-- **Every frame's pixels**: for each lawful writable format, encoding an RGBA array of bytes with
`save_<fmt>` and decoding the result with `load_<fmt>` gives the array with every pixel replaced by
its documented quantisation (for the 8-bit formats: the array itself, up to the channels the
format does not store), and encoding that again gives the same bytes. -/
theorem C15_frame_roundtrip (i : Nat) (hi : i ∈ lawfulInds) (px : List Nat) (hpx : ∀ b ∈ px, b < 256) :
    loadImg (codecOf i) (saveImg (codecOf i) px) = quantImg i px ∧
    saveImg (codecOf i) (loadImg (codecOf i) (saveImg (codecOf i) px)) = saveImg (codecOf i) px := by
  have hn : 0 < (codecOf i).save.length := by
    simp only [lawfulInds, List.mem_cons, List.mem_nil_iff, or_false] at hi
    rcases hi with rfl | rfl | rfl | rfl | rfl | rfl | rfl | rfl | rfl | rfl | rfl | rfl | rfl |
      rfl | rfl | rfl | rfl | rfl <;> decide
  have hv : ∀ q ∈ chunks 4 px, (Px.ofList q).valid := fun q hq =>
    ofList_valid q (fun b hb => hpx b (mem_of_mem_chunks 4 px q b hq hb))
  have hload : loadImg (codecOf i) (saveImg (codecOf i) px) = quantImg i px := by
    unfold loadImg saveImg quantImg
    rw [chunks_flatMap _ hn _ _ (fun q _ => by simp [saveF]), List.flatMap_map]
    apply flatMap_congr'
    intro q hq
    rw [C15_roundtrip i hi _ (hv q hq)]
  refine ⟨hload, ?_⟩
  rw [hload]
  unfold saveImg quantImg
  rw [chunks_flatMap 4 (by decide) _ _ (fun q _ => by simp [Px.toList]), List.flatMap_map]
  apply flatMap_congr'
  intro q hq
  have e : Px.ofList (quant i (Px.ofList q)).toList = quant i (Px.ofList q) := rfl
  rw [e, ← C15_roundtrip i hi _ (hv q hq)]
  exact C15_idempotent i hi _ (hv q hq)

/-! ## Mipmaps -/

/-- The chain `VTF.__init__` creates for a `2^a × 2^b` texture has `min a b + 1` levels, level `k`
is `2^(a-k) × 2^(b-k)` — exactly the size `VTF.read` computes for mipmap `k` from the header
(`max (w >> k) 1`) — and `mipmap_count` is `max (min a b) 1`: every declared level exists, with the
size the reader expects, and there is always at least the full-size level. (The smallest created
level is not declared for sizes ≥ 2: as coded, pinned by the repository's reference files.) -/
theorem C15_mips (a b : Nat) :
    (ctorLevels (2 ^ a) (2 ^ b)).length = min a b + 1 ∧
    ctorMipCount (2 ^ a) (2 ^ b) = max (min a b) 1 ∧
    ∀ k, k < ctorMipCount (2 ^ a) (2 ^ b) →
      (ctorLevels (2 ^ a) (2 ^ b))[k]? = some (readerDims (2 ^ a) (2 ^ b) k) ∧
      readerDims (2 ^ a) (2 ^ b) k = (2 ^ (a - k), 2 ^ (b - k)) := by
  have hl : (ctorLevels (2 ^ a) (2 ^ b)).length = min a b + 1 := by simp [ctorLevels_pow]
  refine ⟨hl, by simp [ctorMipCount, hl], ?_⟩
  intro k hk
  have hk' : k ≤ min a b := by simp only [ctorMipCount, hl] at hk; omega
  have ha : k ≤ a := by omega
  have hb : k ≤ b := by omega
  have hr : readerDims (2 ^ a) (2 ^ b) k = (2 ^ (a - k), 2 ^ (b - k)) := by
    simp only [readerDims, shiftRight_two_pow _ _ ha, shiftRight_two_pow _ _ hb]
    have h1 := Nat.two_pow_pos (a - k)
    have h2 := Nat.two_pow_pos (b - k)
    rw [Nat.max_eq_left h1, Nat.max_eq_left h2]
  refine ⟨?_, hr⟩
  rw [hr, ctorLevels_pow]
  simp [show k < min a b + 1 by omega, shiftRight_two_pow _ _ ha, shiftRight_two_pow _ _ hb]

/-- `scale_down` on a source that is `sx × sy` times the destination, `sx, sy ∈ {1, 2}`:
**bilinear** writes the floor average of the `sx × sy` block (each source pixel counted
`4 / (sx·sy)` times, i.e. the mean of the 2×2, 2×1 or 1×2 block); `dest` keeps its length. -/
theorem C15_bilinear (w h sx sy : Nat) (hsx : sx = 1 ∨ sx = 2) (hsy : sy = 1 ∨ sy = 2)
    (src : List Nat) (x y ch : Nat) (hx : x < w) (hy : y < h) (hc : ch < 4) :
    let S := fun (dx dy : Nat) => pxAt (sx * w) src (sx * x + dx) (sy * y + dy) ch
    (scaleDown 4 (sx * w) (sy * h) w h src).map (fun dst => (dst.length, pxAt w dst x y ch))
      = some (4 * (w * h), (S 0 0 + S (sx - 1) 0 + S 0 (sy - 1) + S (sx - 1) (sy - 1)) / 4) := by
  intro S
  have hlt := idx_lt w h x y ch hx hy hc
  obtain ⟨d1, d2, d3, d4⟩ := idx_div w x y ch hx hc
  simp only [scaleDown, Nat.lt_irrefl, if_false, if_true, Option.map_some, List.length_map,
    List.length_range, Option.some.injEq, Prod.mk.injEq, true_and]
  rw [pxAt_eq, range_map_getD _ _ _ hlt]
  simp only [S, pxAt_eq, bilinearAt, scaleOffs, toArray_getD, d1, d2, d3, d4]
  have e : w ≠ 2 * w := by omega
  have e' : h ≠ 2 * h := by omega
  rcases hsx with rfl | rfl <;> rcases hsy with rfl | rfl
  · simp only [Nat.one_mul, ne_eq, not_true_eq_false, if_false, Nat.sub_self, Nat.add_zero]
  · simp only [Nat.one_mul, ne_eq, not_true_eq_false, if_false, e', not_false_eq_true, if_true,
      Nat.sub_self, Nat.add_zero, Nat.add_one_sub_one]
    ring_nf
  · simp only [Nat.one_mul, ne_eq, not_true_eq_false, if_false, e, not_false_eq_true, if_true,
      Nat.sub_self, Nat.add_zero, Nat.add_one_sub_one]
    ring_nf
  · simp only [ne_eq, e, e', not_false_eq_true, if_true, Nat.add_zero, Nat.add_one_sub_one]
    ring_nf

/-- The four nearest-neighbour modes copy the upper-left (0) / upper-right (1) / lower-left (2) /
lower-right (3) pixel of the `sx × sy` block. -/
theorem C15_nearest (w h sx sy filt : Nat) (hsx : sx = 1 ∨ sx = 2) (hsy : sy = 1 ∨ sy = 2)
    (hf : filt < 4) (src : List Nat) (x y ch : Nat) (hx : x < w) (hy : y < h) (hc : ch < 4) :
    (scaleDown filt (sx * w) (sy * h) w h src).map (fun dst => (dst.length, pxAt w dst x y ch))
      = some (4 * (w * h), pxAt (sx * w) src (sx * x + (if filt % 2 = 1 then sx - 1 else 0))
          (sy * y + (if filt / 2 = 1 then sy - 1 else 0)) ch) := by
  have hlt := idx_lt w h x y ch hx hy hc
  obtain ⟨d1, d2, d3, d4⟩ := idx_div w x y ch hx hc
  simp only [scaleDown, hf, if_true, Option.map_some, List.length_map,
    List.length_range, Option.some.injEq, Prod.mk.injEq, true_and]
  rw [pxAt_eq, range_map_getD _ _ _ hlt]
  simp only [pxAt_eq, nearestAt, scaleOffs, toArray_getD, d1, d2, d3, d4]
  have e : w ≠ 2 * w := by omega
  have e' : h ≠ 2 * h := by omega
  have hfc : filt = 0 ∨ filt = 1 ∨ filt = 2 ∨ filt = 3 := by omega
  rcases hsx with rfl | rfl <;> rcases hsy with rfl | rfl <;>
    rcases hfc with rfl | rfl | rfl | rfl <;>
    simp [e, e'] <;> (try ring_nf)

/-! ## Pixel access is bounds-checked -/

/-- `Frame.__getitem__` / `__setitem__` (after repair `dd9dae5`) succeed exactly for
`0 ≤ x < width ∧ 0 ≤ y < height`; every other index raises `IndexError`. -/
theorem C15_bounds (w h : Nat) (x y : Int) :
    (frameIndex w h x y).isSome ↔ (0 ≤ x ∧ x < w ∧ 0 ≤ y ∧ y < h) := by
  unfold frameIndex
  split <;> simp_all

/-- When access succeeds the four components are `_data[off : off + 4]` with
`off = 4·(width·y + x)`, which lies inside the `4·width·height` array (so the slice has exactly four
elements), and distinct in-range coordinates address disjoint slices. -/
theorem C15_bounds_offset (w h : Nat) (x y : Int) (off : Nat) (hs : frameIndex w h x y = some off) :
    off = 4 * (w * y.toNat + x.toNat) ∧ off + 4 ≤ 4 * (w * h) ∧
    ∀ (x' y' : Int), frameIndex w h x' y' = some off → x' = x ∧ y' = y := by
  have key : ∀ (x y : Int) (off : Nat), frameIndex w h x y = some off →
      ∃ xn yn : Nat, x = xn ∧ y = yn ∧ xn < w ∧ yn < h ∧ off = 4 * (w * yn + xn) := by
    intro x y off hs
    unfold frameIndex at hs
    split at hs
    · rename_i hc
      obtain ⟨h0, h1, h2, h3⟩ := hc
      obtain ⟨xn, rfl⟩ := Int.eq_ofNat_of_zero_le h0
      obtain ⟨yn, rfl⟩ := Int.eq_ofNat_of_zero_le h2
      refine ⟨xn, yn, rfl, rfl, by omega, by omega, ?_⟩
      have e : ((yn : Int) * (w : Int) + (xn : Int)) * 4
          = ((4 * (w * yn + xn) : Nat) : Int) := by push_cast; ring
      simp only [Option.some.injEq] at hs
      rw [e, Int.toNat_natCast] at hs
      exact hs.symm
    · simp at hs
  obtain ⟨xn, yn, rfl, rfl, hx, hy, rfl⟩ := key x y off hs
  refine ⟨by simp, ?_, ?_⟩
  · have := idx_lt w h xn yn 0 hx hy (by decide); omega
  · intro x' y' hs'
    obtain ⟨xn', yn', rfl, rfl, hx', hy', he⟩ := key x' y' _ hs'
    have e : w * yn + xn = w * yn' + xn' := by omega
    have hw : 0 < w := by omega
    have a1 := (idx_div w xn yn 0 hx (by decide)).2.2
    have a2 := (idx_div w xn' yn' 0 hx' (by decide)).2.2
    rw [e] at a1
    constructor
    · have : xn' = xn := by rw [← a2.2, ← a1.2]
      omega
    · have : yn' = yn := by rw [← a2.1, ← a1.1]
      omega

/-! ## Frame table -/

/-- **The set of frame keys stored in a file is the product of the header counts**: frames ×
(cube sides — 7 before 7.5, 6 from 7.5 on — or depth slices) × mipmaps; each key occurs once
(the list has exactly that many entries). -/
theorem C15_keys (mc fc flags minor depth : Nat) (k : Nat × Nat × Nat) :
    (k ∈ fileKeys mc fc (depthSeq flags minor depth) ↔
      k.1 < fc ∧ k.2.1 < sideCount flags minor depth ∧ k.2.2 < mc) ∧
    (fileKeys mc fc (depthSeq flags minor depth)).length = mc * (fc * sideCount flags minor depth) := by
  refine ⟨by rw [mem_fileKeys, mem_depthSeq], ?_⟩
  rw [length_fileKeys]
  congr 2
  unfold depthSeq sideCount
  split
  · split <;> simp
  · simp

/-- Side counts per version: a cubemap has 7 sides (with the sphere map) up to 7.4 and 6 from 7.5. -/
theorem C15_side_counts (depth minor : Nat) :
    sideCount 0 minor depth = depth ∧
    sideCount envmapFlag minor 1 = (if minor ≥ 5 then 6 else 7) := by
  constructor
  · simp [sideCount, envmapFlag]
  · simp [sideCount, envmapFlag]

/-- **Writer and reader lay the frames out identically.** `VTF.save` writes the declared frames of
a constructor-built `2^a × 2^b` texture in `fileKeys` order, each with the size of its own `Frame`
(the constructor's chain); `VTF.read` walks the same key order computing sizes from the header.
Both give the same (key, width, height, offset) table for every frame-size function (= every format),
frame count, side/depth sequence and start offset. -/
theorem C15_layout (a b fc : Nat) (dseq : List Nat) (fsz : Nat → Nat → Nat) (off : Nat) :
    let mc := ctorMipCount (2 ^ a) (2 ^ b)
    layoutFrom fsz (fun m => (ctorLevels (2 ^ a) (2 ^ b)).getD m (0, 0)) (fileKeys mc fc dseq) off
      = layoutFrom fsz (readerDims (2 ^ a) (2 ^ b)) (fileKeys mc fc dseq) off ∧
    (layoutFrom fsz (readerDims (2 ^ a) (2 ^ b)) (fileKeys mc fc dseq) off).map (·.1)
      = fileKeys mc fc dseq := by
  intro mc
  refine ⟨?_, layoutFrom_keys _ _ _ _⟩
  apply layoutFrom_congr
  intro k hk
  have hm := ((mem_fileKeys mc fc dseq k).mp hk).2.2
  have := ((C15_mips a b).2.2 k.2.2 hm).1
  simp [List.getD_eq_getElem?_getD, this]

/-! ## Header fields -/

/-- A little-endian field of `k` bytes reads back as the number written when it fits (`struct`
refuses to pack a number that does not fit), and has exactly `k` bytes. -/
theorem C15_le_roundtrip (k n : Nat) (h : n < 256 ^ k) :
    leDecode (le k n) = n ∧ (le k n).length = k := by
  rw [leDecode_le, Nat.mod_eq_of_lt h, length_le]; exact ⟨rfl, rfl⟩

/-! ## The whole file: `VTF.read (VTF.save v)`

`saveFile` / `readFile` are the byte-exact models of `VTF.save` / `VTF.read` (`Model/C15File.lean`,
tied to the implementation byte for byte on every run). `saveWF` (decidable, `Proofs/C15File.lean`)
says every field fits its width: sizes/counts < 2^16, flags < 2^32, 12 + 4 float bytes, known formats,
resource ids of 3 bytes, distinct, not reserved, flag bytes, 32-bit values / lengths / offsets, at most
64 sheet sequences with distinct numbers < 64 and 4 + 64 byte frames, frames of the sizes the header
implies, depth ≥ 1. `viewOf` is what the reader must see. -/

/-- Particle sheet block: `from_resource (make_data seqs ver) = seqs`, up to what the sheet version
stores (version 0 keeps one coordinate set per frame, read back four times). -/
theorem C15_sheet_roundtrip (seqs : List SheetSeq) (ver : Nat) (hver : ver ≤ 1)
    (hwf : sheetWF seqs = true) :
    parseSheet (sheetData seqs ver) = .ok (seqs.map (normSeq ver)) ∧
    (ver = 1 → seqs.map (normSeq ver) = seqs) := by
  refine ⟨parseSheet_sheetData seqs ver hver hwf, ?_⟩
  rintro rfl
  have : ∀ s : SheetSeq, normSeq 1 s = s := by
    intro s
    have hf : (normFrame 1) = id := by funext fr; simp [normFrame]
    cases s; simp [normSeq, hf]
  rw [List.map_congr_left (fun s _ => this s)]; simp

/-- Resource table + resource blocks + sheet resource: reading the table `save` writes, and the
blocks at the offsets stored in it, gives every resource back in order (bit `0x02` of the flags =
storage kind), the sheet, and the offsets of thumbnail and image data. -/
theorem C15_resources_roundtrip (v : Vtf) (minor sheetVer lowLen : Nat) (H tail file : List Nat)
    (hm : minor ≥ 3) (hH : H.length = preLen minor)
    (hfile : file = H ++ (resTable v minor sheetVer lowLen ++
      ((resBlocks v.res).flatten ++ (sheetBlock v minor sheetVer ++ tail))))
    (hwf : resPartWF v minor sheetVer lowLen = true) :
    readResources file (resTable v minor sheetVer lowLen ++
        ((resBlocks v.res).flatten ++ (sheetBlock v minor sheetVer ++ tail)))
      = .ok (v.res.map normRes, v.sheet.map (normSeq sheetVer), some (lowOff v minor sheetVer),
             some (lowOff v minor sheetVer + lowLen)) :=
  readResources_ok v minor sheetVer lowLen H tail file hm hH hfile hwf

/-- Header, resources, sheet and frame table of any laid-out file (whatever the encoded images
are): `readFile` returns exactly `viewOf`. -/
theorem C15_layout_roundtrip (v : Vtf) (minor sheetVer : Nat) (asw : Bool) (lowBytes : List Nat)
    (blocks : List (List Nat)) (hwf : fileWF v minor sheetVer lowBytes.length = true)
    (hlow : minor < 3 → lowBytes.length = frameSize (fmtOf v.lowFmt) v.low.w v.low.h) :
    readFile (fileBytes v minor sheetVer asw lowBytes blocks)
      = .ok (viewOf v minor sheetVer lowBytes.length) :=
  readFile_fileBytes v minor sheetVer asw lowBytes blocks hwf hlow

/-- **File round trip.** If `VTF.save` succeeds on a well-formed object, `VTF.read` of the bytes
returns `viewOf v`: version, width, height, flags, frame count, first frame, reflectivity, bump
scale, both formats, mipmap count, thumbnail size, depth, all resources, the particle sheet, and the
frame table (keys = frames × sides/depth × mipmaps in file order, sizes, offsets). Moreover, with
`v'` the object after `compute_mipmaps()`, the thumbnail block and the block of every frame of that
table are found at the recorded offsets and are the `save_<fmt>` encodings of the loaded frames. -/
theorem C15_file_roundtrip (v : Vtf) (minor sheetVer : Nat) (asw : Bool) (file : List Nat)
    (h : saveFile v minor sheetVer asw = .ok file) (hwf : saveWF v minor sheetVer = true) :
    readFile file = .ok (viewOf v minor sheetVer (lowLen v)) ∧
    ∃ v', applyCompute v 4 = .ok v' ∧
      (v.lowFmt ≠ fmtNone → slice file (lowOff v minor sheetVer) (lowLen v)
          = saveImg (codecOf v.lowFmt) (v'.low.load.data.getD [])) ∧
      List.Forall₂ (fun (e : Key × Nat × Nat × Nat) k => e.1 = k ∧
          (e.2.1, e.2.2.1) = readerDims v.width v.height k.2.2 ∧
          ∃ fr, frameFor v' k = .ok fr ∧ (fr.w, fr.h) = (e.2.1, e.2.2.1) ∧
            slice file e.2.2.2 (frameSize (fmtOf v.fmt) e.2.1 e.2.2.1)
              = saveImg (codecOf v.fmt) (fr.load.data.getD []))
        (viewOf v minor sheetVer (lowLen v)).frames
        (fileKeys v.mipCount v.frameCount (depthSeq v.flags minor v.depth)) := by
  unfold saveFile at h
  split at h
  · simp at h
  · split at h
    · simp at h
    · split at h
      · simp at h
      · cases hc : applyCompute v 4 with
        | error e => simp [hc] at h
        | ok v' =>
          simp only [hc] at h
          obtain ⟨hwf', hview⟩ := saveWF_applyCompute v v' 4 minor sheetVer hc hwf
          obtain ⟨frames', low', rfl, _, _, hw, hh, _⟩ := applyCompute_shape v v' 4 hc
          have R := assemble_roundtrip _ minor sheetVer asw file h hwf'
          rw [hview] at R
          have hlen : lowLen { v with frames := frames', low := low' } = lowLen v := by
            simp [lowLen, hw, hh]
          refine ⟨R.1, _, rfl, ?_, ?_⟩
          · intro hn
            have := R.2.1 hn
            simpa [hlen, lowOff, headerSize, dataBlocks, sheetBlock, resCount, hasSheetRes] using this
          · refine forall2_imp ?_ R.2.2
            rintro e k ⟨h1, h2, fr, hf, hd, hs⟩
            exact ⟨h1, h2, fr, hf, by rw [hd, h2], hs⟩

/-- **Per-frame pixels.** A block that is the `save_<fmt>` encoding of byte-valued RGBA data of the
right size decodes (`Frame.load` of the lazily read frame) to the documented quantisation of that
data — the data itself for the 8-bit formats, on the channels they store. Together with
`C15_file_roundtrip`: every frame of `read (save v)` holds `quant` of what `v` held. -/
theorem C15_file_pixels (file : List Nat) (fmt w h off : Nat) (data : List Nat)
    (hi : fmt ∈ lawfulInds) (hb : ∀ b ∈ data, b < 256) (hlen : data.length = 4 * w * h)
    (hs : slice file off (frameSize (fmtOf fmt) w h) = saveImg (codecOf fmt) data) :
    decodeAt file fmt w h off = .ok (quantImg fmt data) := by
  have hfacts : fmt < 30 ∧ (codecOf fmt).hasSave = true ∧ (codecOf fmt).hasLoad = true ∧
      (codecOf fmt).load.isEmpty = false := by
    simp only [lawfulInds, List.mem_cons, List.mem_nil_iff, or_false] at hi
    rcases hi with rfl | rfl | rfl | rfl | rfl | rfl | rfl | rfl | rfl | rfl | rfl | rfl | rfl |
      rfl | rfl | rfl | rfl | rfl <;> decide
  have E : encodeFrame fmt ⟨w, h, some data, none⟩ = .ok (saveImg (codecOf fmt) data) := by
    simp [encodeFrame, hlen, hfacts.2.1, pure, Except.pure]
  have hl := (encodeFrame_ok _ _ _ E).2.2.2
  simp only at hl
  unfold decodeAt
  simp only [hs, hl, ne_eq, not_true_eq_false, if_false, hfacts.2.2.1, hfacts.2.2.2,
    Bool.not_true, Bool.false_eq_true, pure, Except.pure]
  rw [(C15_frame_roundtrip fmt hi data hb).1]

/-! ## Mipmap generation -/

/-- **`compute_mipmaps` level `k` is the `k`-fold `scale_down` of level 0.** For a `2^a × 2^b`
texture whose levels `0..k` have the constructor's sizes, level 0 holding `d0` and levels `1..k`
cleared, the state of level `k` after `compute_mipmaps(filter)` is the size `VTF.read` computes for
mipmap `k` (`C15_mips`) with data `iterScale filter … d0 k`. -/
theorem C15_mip_generation (fr : List (Key × FrameM)) (filt f d a b : Nat) (d0 : List Nat)
    (hf : filt ≤ 4) (k : Nat) (hk : k ≤ min a b)
    (hl : ∀ m, m ≤ k → lookupFrame fr (f, d, m)
        = some ⟨2 ^ a >>> m, 2 ^ b >>> m, if m = 0 then some d0 else none, none⟩) :
    levelAfter fr filt f d k
      = .ok ⟨2 ^ (a - k), 2 ^ (b - k), some (iterScale filt (2 ^ a) (2 ^ b) d0 k), none⟩ ∧
    readerDims (2 ^ a) (2 ^ b) k = (2 ^ (a - k), 2 ^ (b - k)) := by
  have h := levelAfter_generated fr filt f d a b d0 hf k hk hl
  rw [shiftRight_two_pow _ _ (by omega), shiftRight_two_pow _ _ (by omega)] at h
  refine ⟨h, ?_⟩
  simp only [readerDims, shiftRight_two_pow _ _ (show k ≤ a by omega),
    shiftRight_two_pow _ _ (show k ≤ b by omega)]
  rw [Nat.max_eq_left (Nat.two_pow_pos _), Nat.max_eq_left (Nat.two_pow_pos _)]

/-- … and with the default bilinear filter each generated level is the floor average of the 2×2
blocks of the level below it (`C15_bilinear` applied to every step of `iterScale`). -/
theorem C15_mip_generation_average (a b k : Nat) (hk : k + 1 ≤ min a b) (d0 : List Nat)
    (x y ch : Nat) (hx : x < 2 ^ (a - (k + 1))) (hy : y < 2 ^ (b - (k + 1))) (hc : ch < 4) :
    let prev := iterScale 4 (2 ^ a) (2 ^ b) d0 k
    let S := fun (dx dy : Nat) => pxAt (2 ^ (a - k)) prev (2 * x + dx) (2 * y + dy) ch
    pxAt (2 ^ (a - (k + 1))) (iterScale 4 (2 ^ a) (2 ^ b) d0 (k + 1)) x y ch
      = (S 0 0 + S 1 0 + S 0 1 + S 1 1) / 4 := by
  intro prev S
  have ha : 2 ^ a >>> k = 2 * 2 ^ (a - (k + 1)) := by
    rw [shiftRight_two_pow _ _ (by omega), show a - k = (a - (k + 1)) + 1 by omega, Nat.pow_succ]; ring
  have hb : 2 ^ b >>> k = 2 * 2 ^ (b - (k + 1)) := by
    rw [shiftRight_two_pow _ _ (by omega), show b - k = (b - (k + 1)) + 1 by omega, Nat.pow_succ]; ring
  have B := C15_bilinear (2 ^ (a - (k + 1))) (2 ^ (b - (k + 1))) 2 2 (.inr rfl) (.inr rfl) prev x y ch hx hy hc
  simp only [iterScale, shiftRight_two_pow _ _ (show k + 1 ≤ a by omega),
    shiftRight_two_pow _ _ (show k + 1 ≤ b by omega), ha, hb]
  cases hs : scaleDown 4 (2 * 2 ^ (a - (k + 1))) (2 * 2 ^ (b - (k + 1))) (2 ^ (a - (k + 1)))
      (2 ^ (b - (k + 1))) prev with
  | none => simp [hs] at B
  | some out =>
    simp only [hs, Option.map_some, Option.some.injEq, Prod.mk.injEq] at B
    have e : 2 ^ (a - k) = 2 * 2 ^ (a - (k + 1)) := by
      rw [show a - k = (a - (k + 1)) + 1 by omega, Nat.pow_succ]; ring
    simp only [Option.getD_some, B.2, S, e, prev]

/-! ## Saving what was read -/

/-- **Re-saving reproduces the file (after `compute_mipmaps`).** Let `file` be what `save` lays
out for the (already mip-computed) object `v`. The object `VTF.read` returns for it
(`objOfRead`: every frame lazy, its content what `load()` decodes) is laid out by `save` as exactly
the same bytes — for the lawful formats (all writable ones but RGB565/BGR565), byte-valued pixels. -/
theorem C15_resave_assemble (v : Vtf) (minor sheetVer : Nat) (asw : Bool) (file : List Nat)
    (h : assemble v minor sheetVer asw = .ok file) (hwf : saveWF v minor sheetVer = true)
    (hpx : pixelsWF v minor = true) (hfm : formatsLawful v = true) :
    assemble (objOfRead file (viewOf v minor sheetVer (lowLen v))) minor sheetVer asw = .ok file := by
  have R := assemble_roundtrip v minor sheetVer asw file h hwf
  have hd := saveWF_depth v minor sheetVer hwf
  simp only [formatsLawful, Bool.and_eq_true, Bool.or_eq_true, List.contains_iff_mem, beq_iff_eq] at hfm
  obtain ⟨hfmt, hlfmt⟩ := hfm
  simp only [pixelsWF, Bool.and_eq_true, List.all_eq_true, decide_eq_true_eq] at hpx
  obtain ⟨hpxLow, hpxFr⟩ := hpx
  -- what `assemble v` did
  unfold assemble at h
  cases hlowE : encodeLow v with
  | error e => simp [hlowE] at h
  | ok lowBytes =>
    cases hblk : (fileKeys v.mipCount v.frameCount (depthSeq v.flags minor v.depth)).mapM (encodeKey v) with
    | error e => simp [hlowE, hblk] at h
    | ok blocks =>
      simp only [hlowE, hblk, Except.ok.injEq] at h
      -- the thumbnail of the read object encodes to the same bytes
      have hlow : encodeLow (objOfRead file (viewOf v minor sheetVer (lowLen v))) = .ok lowBytes := by
        unfold encodeLow at hlowE ⊢
        by_cases hn : v.lowFmt = fmtNone
        · simpa [objOfRead, viewOf, hn] using hlowE
        · have hlaw : v.lowFmt ∈ lawfulInds := by
            rcases hlfmt with h0 | h0
            · exact absurd h0 hn
            · exact h0
          simp only [ne_eq, hn, not_false_eq_true, if_true] at hlowE
          have E := encodeFrame_load_some _ _ _ hlowE
          have F := lawful_facts _ hlaw
          have hbytes : ∀ b ∈ v.low.load.data.getD [], b < 256 := fun b hb => hpxLow b hb
          have RT := C15_frame_roundtrip v.lowFmt hlaw _ hbytes
          have hsl := R.2.1 hn
          have := reencode v.lowFmt v.low.w v.low.h (lowOff v minor sheetVer) file
            (v.low.load.data.getD []) F.1 F.2.1 F.2.2 E.2 hsl RT.2
            (by rw [RT.1, quantImg_length, E.2, Nat.mul_assoc, Nat.mul_div_cancel_left _ (by decide : 0 < 4)])
          simp only [objOfRead, viewOf, ne_eq, hn, not_false_eq_true, if_true]
          rw [this, E.1]
      -- so does every frame
      have hkeys : fileKeys (objOfRead file (viewOf v minor sheetVer (lowLen v))).mipCount
          (objOfRead file (viewOf v minor sheetVer (lowLen v))).frameCount
          (depthSeq (objOfRead file (viewOf v minor sheetVer (lowLen v))).flags minor
            (objOfRead file (viewOf v minor sheetVer (lowLen v))).depth)
          = fileKeys v.mipCount v.frameCount (depthSeq v.flags minor v.depth) := by
        simp [objOfRead, viewOf, hd]
      have hnd : ((viewOf v minor sheetVer (lowLen v)).frames.map (·.1)).Nodup := by
        have : (viewOf v minor sheetVer (lowLen v)).frames.map (·.1)
            = fileKeys v.mipCount v.frameCount (depthSeq v.flags minor v.depth) := by
          simp only [viewOf, hd]; exact layoutFrom_keys _ _ _ _
        rw [this]; exact fileKeys_nodup _ _ _ (depthSeq_nodup _ _ _)
      have hF := mapM_ok_forall2 _ _ _ hblk
      have hblocks : (fileKeys v.mipCount v.frameCount (depthSeq v.flags minor v.depth)).mapM
          (encodeKey (objOfRead file (viewOf v minor sheetVer (lowLen v)))) = .ok blocks := by
        rw [← hblk]
        apply mapM_congr_mem
        intro k hk
        obtain ⟨e, he, hek, hedim, fr, hfk, hdim, hsl⟩ := forall2_mem_right R.2.2 k hk
        obtain ⟨b, _, hb⟩ := forall2_mem_left hF k hk
        have hbv : encodeFrame v.fmt fr.load = .ok b := by simpa [encodeKey, hfk] using hb
        have E := encodeFrame_load_some _ _ _ hbv
        have F := lawful_facts _ hfmt
        have hbytes : ∀ x ∈ fr.load.data.getD [], x < 256 := by
          have := hpxFr k hk
          simp only [hfk, List.all_eq_true, decide_eq_true_eq] at this
          exact this
        have RT := C15_frame_roundtrip v.fmt hfmt _ hbytes
        have hw : e.2.1 = fr.w := by have := congrArg Prod.fst (hedim.trans hdim.symm); simpa using this
        have hh : e.2.2.1 = fr.h := by have := congrArg Prod.snd (hedim.trans hdim.symm); simpa using this
        have hlook := lookup_map_of_mem
          (fun (e : Key × Nat × Nat × Nat) => (⟨e.2.1, e.2.2.1, none,
            decodeOpt file v.fmt e.2.1 e.2.2.1 e.2.2.2⟩ : FrameM)) (·.1)
          (viewOf v minor sheetVer (lowLen v)).frames hnd e he
        have hfo : frameFor (objOfRead file (viewOf v minor sheetVer (lowLen v))) k
            = .ok ⟨e.2.1, e.2.2.1, none, decodeOpt file v.fmt e.2.1 e.2.2.1 e.2.2.2⟩ := by
          rw [← hek]
          simp only [frameFor, objOfRead]
          have : (viewOf v minor sheetVer (lowLen v)).fmt = v.fmt := rfl
          simp only [this, hlook]
          rfl
        have hre := reencode v.fmt e.2.1 e.2.2.1 e.2.2.2 file (fr.load.data.getD []) F.1 F.2.1 F.2.2
          (by rw [hw, hh]; exact E.2) hsl RT.2
          (by rw [RT.1, quantImg_length, E.2, hw, hh, Nat.mul_assoc,
            Nat.mul_div_cancel_left _ (by decide : 0 < 4)])
        have hofmt : (objOfRead file (viewOf v minor sheetVer (lowLen v))).fmt = v.fmt := rfl
        simp only [encodeKey, hfo, hfk, hofmt, hre, hbv, E.1]
      unfold assemble
      rw [hlow, hkeys, hblocks]
      simp only []
      rw [fileBytes_objOfRead v minor sheetVer asw file lowBytes blocks (lowLen v) hwf, h]

/-- **The object read back holds the quantised pixels.** With `file` laid out for the (mip-computed)
object `v`: the object `VTF.read` returns has, for every key of the frame table, a lazy frame of the
same size whose content (what `Frame.load()` decodes) is `quant` of what `v`'s frame held — the
pixels themselves for the 8-bit formats; likewise the thumbnail. -/
theorem C15_read_object (v : Vtf) (minor sheetVer : Nat) (asw : Bool) (file : List Nat)
    (h : assemble v minor sheetVer asw = .ok file) (hwf : saveWF v minor sheetVer = true)
    (hpx : pixelsWF v minor = true) (hfm : formatsLawful v = true) :
    (v.lowFmt ≠ fmtNone → (objOfRead file (viewOf v minor sheetVer (lowLen v))).low
        = ⟨v.low.w, v.low.h, none, some (quantImg v.lowFmt (v.low.load.data.getD []))⟩) ∧
    ∀ k ∈ fileKeys v.mipCount v.frameCount (depthSeq v.flags minor v.depth),
      ∃ fr, frameFor v k = .ok fr ∧
        frameFor (objOfRead file (viewOf v minor sheetVer (lowLen v))) k
          = .ok ⟨fr.w, fr.h, none, some (quantImg v.fmt (fr.load.data.getD []))⟩ := by
  have R := assemble_roundtrip v minor sheetVer asw file h hwf
  have hd := saveWF_depth v minor sheetVer hwf
  simp only [formatsLawful, Bool.and_eq_true, Bool.or_eq_true, List.contains_iff_mem, beq_iff_eq] at hfm
  obtain ⟨hfmt, hlfmt⟩ := hfm
  simp only [pixelsWF, Bool.and_eq_true, List.all_eq_true, decide_eq_true_eq] at hpx
  obtain ⟨hpxLow, hpxFr⟩ := hpx
  unfold assemble at h
  cases hlowE : encodeLow v with
  | error e => simp [hlowE] at h
  | ok lowBytes =>
    cases hblk : (fileKeys v.mipCount v.frameCount (depthSeq v.flags minor v.depth)).mapM (encodeKey v) with
    | error e => simp [hlowE, hblk] at h
    | ok blocks =>
      constructor
      · intro hn
        have hlaw : v.lowFmt ∈ lawfulInds := by
          rcases hlfmt with h0 | h0
          · exact absurd h0 hn
          · exact h0
        unfold encodeLow at hlowE
        simp only [ne_eq, hn, not_false_eq_true, if_true] at hlowE
        have E := encodeFrame_load_some _ _ _ hlowE
        have hbytes : ∀ b ∈ v.low.load.data.getD [], b < 256 := fun b hb => hpxLow b hb
        have P := C15_file_pixels file v.lowFmt v.low.w v.low.h (lowOff v minor sheetVer)
          (v.low.load.data.getD []) hlaw hbytes E.2 (R.2.1 hn)
        simp [objOfRead, viewOf, hn, decodeOpt, P]
      · intro k hk
        have hnd : ((viewOf v minor sheetVer (lowLen v)).frames.map (·.1)).Nodup := by
          have : (viewOf v minor sheetVer (lowLen v)).frames.map (·.1)
              = fileKeys v.mipCount v.frameCount (depthSeq v.flags minor v.depth) := by
            simp only [viewOf, hd]; exact layoutFrom_keys _ _ _ _
          rw [this]; exact fileKeys_nodup _ _ _ (depthSeq_nodup _ _ _)
        have hF := mapM_ok_forall2 _ _ _ hblk
        obtain ⟨e, he, hek, hedim, fr, hfk, hdim, hsl⟩ := forall2_mem_right R.2.2 k hk
        obtain ⟨b, _, hb⟩ := forall2_mem_left hF k hk
        have hbv : encodeFrame v.fmt fr.load = .ok b := by simpa [encodeKey, hfk] using hb
        have E := encodeFrame_load_some _ _ _ hbv
        have hbytes : ∀ x ∈ fr.load.data.getD [], x < 256 := by
          have := hpxFr k hk
          simp only [hfk, List.all_eq_true, decide_eq_true_eq] at this
          exact this
        have hw : e.2.1 = fr.w := by have := congrArg Prod.fst (hedim.trans hdim.symm); simpa using this
        have hh : e.2.2.1 = fr.h := by have := congrArg Prod.snd (hedim.trans hdim.symm); simpa using this
        have P := C15_file_pixels file v.fmt e.2.1 e.2.2.1 e.2.2.2 (fr.load.data.getD []) hfmt hbytes
          (by rw [hw, hh]; exact E.2) hsl
        have hlook := lookup_map_of_mem
          (fun (e : Key × Nat × Nat × Nat) => (⟨e.2.1, e.2.2.1, none,
            decodeOpt file v.fmt e.2.1 e.2.2.1 e.2.2.2⟩ : FrameM)) (·.1)
          (viewOf v minor sheetVer (lowLen v)).frames hnd e he
        refine ⟨fr, hfk, ?_⟩
        have hfo : frameFor (objOfRead file (viewOf v minor sheetVer (lowLen v))) k
            = .ok ⟨e.2.1, e.2.2.1, none, decodeOpt file v.fmt e.2.1 e.2.2.1 e.2.2.2⟩ := by
          rw [← hek]
          simp only [frameFor, objOfRead]
          have : (viewOf v minor sheetVer (lowLen v)).fmt = v.fmt := rfl
          simp only [this, hlook]
          rfl
        rw [hfo]
        simp only [decodeOpt, P]
        rw [hw, hh]

/-- **`save (read (save v)) = save v`.** For a well-formed object with lawful formats and byte
pixels: if saving succeeds, and saving the lazily re-read object succeeds, both write the same bytes.
(The second `compute_mipmaps` regenerates mipmaps and thumbnail from the lazy frames, but every lazy
frame loads its file content afterwards, so nothing of it is written. That it succeeds — it needs
power-of-two sizes — is established by the correspondence.) -/
theorem C15_resave_idem (v : Vtf) (minor sheetVer : Nat) (asw : Bool) (file file2 : List Nat)
    (h : saveFile v minor sheetVer asw = .ok file) (hwf : saveWF v minor sheetVer = true)
    (hfm : formatsLawful v = true)
    (hpx : ∀ v', applyCompute v 4 = .ok v' → pixelsWF v' minor = true)
    (h2 : saveFile (objOfRead file (viewOf v minor sheetVer (lowLen v))) minor sheetVer asw = .ok file2) :
    file2 = file := by
  -- first save
  have hv' : ∃ v', applyCompute v 4 = .ok v' ∧ assemble v' minor sheetVer asw = .ok file := by
    unfold saveFile at h
    split at h
    · simp at h
    · split at h
      · simp at h
      · split at h
        · simp at h
        · cases hc : applyCompute v 4 with
          | error e => simp [hc] at h
          | ok v' => exact ⟨v', rfl, by simpa [hc] using h⟩
  obtain ⟨v', hc, ha⟩ := hv'
  obtain ⟨hwf', hview⟩ := saveWF_applyCompute v v' 4 minor sheetVer hc hwf
  obtain ⟨frames', low', rfl, _, _, hw, hh, _⟩ := applyCompute_shape v v' 4 hc
  have hfm' : formatsLawful { v with frames := frames', low := low' } = true := hfm
  have hpx' := hpx _ hc
  rw [← hview] at h2
  have RA := C15_resave_assemble _ minor sheetVer asw file ha hwf' hpx' hfm'
  have RO := C15_read_object _ minor sheetVer asw file ha hwf' hpx' hfm'
  have hd := saveWF_depth _ minor sheetVer hwf'
  -- second save
  unfold saveFile at h2
  split at h2
  · simp at h2
  · split at h2
    · simp at h2
    · split at h2
      · simp at h2
      · cases hc2 : applyCompute (objOfRead file (viewOf { v with frames := frames', low := low' } minor sheetVer
            (lowLen { v with frames := frames', low := low' }))) 4 with
        | error e => simp [hc2] at h2
        | ok o' =>
          simp only [hc2] at h2
          rw [assemble_applyCompute_lazy _ o' 4 minor sheetVer asw hc2
            (by
              intro hn
              have := RO.1 (by simpa [objOfRead, viewOf] using hn)
              exact ⟨_, by rw [this]⟩)
            (by
              intro k hk fr hfk
              have hk' : k ∈ fileKeys v.mipCount v.frameCount (depthSeq v.flags minor v.depth) := by
                simpa [objOfRead, viewOf, hd] using hk
              obtain ⟨fr0, _, hfo⟩ := RO.2 k hk'
              rw [hfo] at hfk
              cases hfk
              exact ⟨_, rfl⟩), RA] at h2
          exact (Except.ok.inj h2).symm

/-- **`save (read (save v)) = save v`, unconditionally for power-of-two textures.** With the sizes
`VTF.__init__` accepts (`2^a × 2^b`), at least one declared level and, when there is a thumbnail, a
non-empty one and at least one frame (`resaveWF`), saving the lazily re-read object cannot fail and
writes exactly the bytes of the first save. -/
theorem C15_resave_idem_pow2 (v : Vtf) (minor sheetVer : Nat) (asw : Bool) (file : List Nat) (a b : Nat)
    (h : saveFile v minor sheetVer asw = .ok file) (hwf : saveWF v minor sheetVer = true)
    (hfm : formatsLawful v = true)
    (hpx : ∀ v', applyCompute v 4 = .ok v' → pixelsWF v' minor = true)
    (hr : resaveWF v a b) :
    saveFile (objOfRead file (viewOf v minor sheetVer (lowLen v))) minor sheetVer asw = .ok file := by
  have hv' : ∃ v', applyCompute v 4 = .ok v' ∧ assemble v' minor sheetVer asw = .ok file := by
    unfold saveFile at h
    split at h
    · simp at h
    · split at h
      · simp at h
      · split at h
        · simp at h
        · cases hc : applyCompute v 4 with
          | error e => simp [hc] at h
          | ok v' => exact ⟨v', rfl, by simpa [hc] using h⟩
  obtain ⟨v', hc, ha⟩ := hv'
  obtain ⟨hwf', hview⟩ := saveWF_applyCompute v v' 4 minor sheetVer hc hwf
  obtain ⟨frames', low', rfl, _, _, hw, hh, _⟩ := applyCompute_shape v v' 4 hc
  have hfm' : formatsLawful { v with frames := frames', low := low' } = true := hfm
  have hpx' := hpx _ hc
  have hr' : resaveWF { v with frames := frames', low := low' } a b := by
    obtain ⟨r1, r2, r3, r4⟩ := hr
    exact ⟨r1, r2, r3, fun hn => by simpa [hw, hh] using r4 hn⟩
  rw [← hview]
  have RA := C15_resave_assemble _ minor sheetVer asw file ha hwf' hpx' hfm'
  have RO := C15_read_object _ minor sheetVer asw file ha hwf' hpx' hfm'
  have hd := saveWF_depth _ minor sheetVer hwf'
  have hwf2 := hwf'
  simp only [saveWF, fileWF, hdrWF, resPartWF, Bool.and_eq_true, decide_eq_true_eq] at hwf2
  have hminor : minor ≤ 5 := hwf2.1.1.1.1.1.1.1.1.1.1.1.1.1.1.1.1.1.1
  have hsv : sheetVer ≤ 1 := hwf2.1.1.1.2.1.1.2
  have hdep1 : 1 ≤ v.depth := hwf2.1.2
  have hdep2 : minor < 2 → v.depth = 1 := hwf2.2
  obtain ⟨o', hc2⟩ := applyCompute_objOfRead_ok _ minor sheetVer
    (lowLen { v with frames := frames', low := low' }) a b file hd hdep1 hr'
  unfold saveFile
  have g1 : ¬ minor > 5 := by omega
  have g2 : ¬ (minor < 2 ∧ (objOfRead file (viewOf { v with frames := frames', low := low' } minor sheetVer
      (lowLen { v with frames := frames', low := low' }))).depth > 1) := by
    have : (objOfRead file (viewOf { v with frames := frames', low := low' } minor sheetVer
        (lowLen { v with frames := frames', low := low' }))).depth = v.depth := by
      simpa [objOfRead, viewOf] using hd
    rw [this]
    intro hc'
    have := hdep2 hc'.1
    omega
  have g3 : ¬ (minor ≥ 3 ∧ hasSheetRes (objOfRead file (viewOf { v with frames := frames', low := low' } minor
      sheetVer (lowLen { v with frames := frames', low := low' }))) = true ∧ sheetVer > 1) := by
    intro hc'; omega
  rw [if_neg g1, if_neg g2, if_neg g3]
  simp only [hc2]
  rw [assemble_applyCompute_lazy _ o' 4 minor sheetVer asw hc2
    (by
      intro hn
      have := RO.1 (by simpa [objOfRead, viewOf] using hn)
      exact ⟨_, by rw [this]⟩)
    (by
      intro k hk fr hfk
      have hk' : k ∈ fileKeys v.mipCount v.frameCount (depthSeq v.flags minor v.depth) := by
        simpa [objOfRead, viewOf, hd] using hk
      obtain ⟨fr0, _, hfo⟩ := RO.2 k hk'
      rw [hfo] at hfk
      cases hfk
      exact ⟨_, rfl⟩), RA]

/-! ## `compute_mipmaps` has no memory -/

/-- **`compute_mipmaps` is a function of the current contents only.** In the model every step of a
history (`stepOp`) maps the current state to the next one, so there is nothing else it could depend
on; this theorem makes the dependency explicit: two objects that agree on their frames, thumbnail,
flags, version, depth, frame count, mipmap count and thumbnail format get the same frames and
thumbnail from `compute_mipmaps(filter)` — whatever was saved, computed or cleared before.
(For the code this rests on the tie: the history correspondence runs the model as a state machine
against one live `VTF` object; a memo such as "mipmaps already computed" shows up as a disagreement.) -/
theorem C15_compute_pure (v w : Vtf) (filt : Nat) (hf : v.frames = w.frames) (hl : v.low = w.low)
    (h1 : v.flags = w.flags) (h2 : v.verMinor = w.verMinor) (h3 : v.depth = w.depth)
    (h4 : v.frameCount = w.frameCount) (h5 : v.mipCount = w.mipCount) (h6 : v.lowFmt = w.lowFmt) :
    (applyCompute v filt).map (fun x => (x.frames, x.low))
      = (applyCompute w filt).map (fun x => (x.frames, x.low)) := by
  have hm : computeMips v filt = computeMips w filt := by
    have hone : computeOne v filt = computeOne w filt := by
      funext p
      simp [computeOne, inComputeRange, hf, h1, h2, h3, h4, h5]
    unfold computeMips
    rw [hf, h1, h2, h3, h4, h5, hone]
  have hlow : ∀ fr, computeLow v fr filt = computeLow w fr filt := by
    intro fr; simp [computeLow, hl, h1, h5, h6]
  unfold applyCompute
  rw [hm]
  cases computeMips w filt with
  | error e => rfl
  | ok frames =>
    simp only [hlow]
    cases computeLow w frames filt <;> rfl

/-- **A cleared level is regenerated whenever `compute_mipmaps` runs**: if level `m+1` of
`(f, d)` holds no data (cleared by `Frame.clear()` or `clear_mipmaps()`, at any time) and the sizes
fit, its state afterwards is `scale_down` of the processed level `m` — never a stale or blank image. -/
theorem C15_compute_regenerates (fr : List (Key × FrameM)) (filt f d m : Nat) (p cur : FrameM)
    (out : List Nat) (hp : levelAfter fr filt f d m = .ok p)
    (hl : lookupFrame fr (f, d, m + 1) = some cur) (hc : cur.data = none)
    (hok : rescaleOK cur.w cur.h p.w p.h = true)
    (hs : scaleDown filt p.w p.h cur.w cur.h (p.data.getD []) = some out) :
    levelAfter fr filt f d (m + 1) = .ok { cur with data := some out } := by
  rw [levelAfter, hp]
  simp only [hl, hc, hok, Bool.not_true, Bool.false_eq_true, if_false, hs]
  rfl

/-! ## Aliasing -/

/-- **`frame.copy_from(frame)` is `frame.load()`**: copying a frame onto itself changes no other
frame and leaves this one loaded with the content it had — for a frame that `VTF.read` has not
loaded yet that is the content of the file, never a blank image — and doing it again changes nothing.
(For the code this rests on the history correspondence, which uses a frame as its own source, also
through `memoryview(frame)`, on lazy and loaded frames.) -/
theorem C15_copy_from_self (v : Vtf) (k : Key) (fr : FrameM) (h : lookupFrame v.frames k = some fr) :
    copyFrameOp v k k = updFrame v k FrameM.load ∧
    fr.load.data = some (match fr.fileData with
      | some d => d
      | none => fr.data.getD (blank fr.w fr.h)) ∧
    fr.load.load = fr.load := by
  refine ⟨?_, ?_, ?_⟩
  · simp [copyFrameOp, h]
  · cases hf : fr.fileData <;> simp [FrameM.load, hf]
  · cases hf : fr.fileData <;> simp [FrameM.load, hf]

/-! ## Non-vacuity: the hypotheses are satisfiable, and the laws visibly bite -/

example : (⟨200, 100, 50, 129⟩ : Px).valid := by decide
-- BGRA5551 really quantises
example : loadF (codecOf 21) (saveF (codecOf 21) ⟨200, 100, 50, 129⟩) = ⟨206, 99, 49, 255⟩ := by decide
-- the 565 defect, concretely: pure red comes back pure blue
example : loadF (codecOf 4) (saveF (codecOf 4) ⟨255, 0, 0, 255⟩) = ⟨0, 0, 255, 255⟩ := by decide
-- ... and a pixel inside the partial theorem's class survives
example : loadF (codecOf 4) (saveF (codecOf 4) ⟨16, 200, 23, 7⟩) = quant 4 ⟨16, 200, 23, 7⟩ := by decide
-- a 16x4 texture: three levels created, two declared, sizes as the reader computes them
example : ctorLevels 16 4 = [(16, 4), (8, 2), (4, 1)] ∧ ctorMipCount 16 4 = 2 ∧ ctorMipCount 1 8 = 1 := by
  decide
-- pixel access: (4,0) on a 4x4 frame is rejected (the defect accepted it), (3,3) is the last pixel
example : frameIndex 4 4 4 0 = none ∧ frameIndex 4 4 (-1) 0 = none ∧ frameIndex 4 4 3 3 = some 60 := by
  decide
-- a 2-frame 7.4 cubemap with 3 mipmaps has 2*7*3 stored frames, a 7.5 one 2*6*3
example : (fileKeys 3 2 (depthSeq envmapFlag 4 1)).length = 42 ∧
    (fileKeys 3 2 (depthSeq envmapFlag 5 1)).length = 36 := by decide
-- the file-level hypotheses are satisfiable: a concrete object is well formed, is saved, and read back
example : saveWF exampleVtf 4 1 = true := by decide +kernel
example : (match saveFile exampleVtf 4 1 true with
    | .ok file => file.length == 1281 && (readFile file == .ok (viewOf exampleVtf 4 1 (lowLen exampleVtf)))
    | .error _ => false) = true := by decide +kernel
example : resaveWF exampleVtf 2 1 ∧ formatsLawful exampleVtf = true := by
  unfold resaveWF; decide
example : (match applyCompute exampleVtf 4 with | .ok v' => pixelsWF v' 4 | .error _ => false) = true := by
  decide +kernel
-- ... and saving the object read back from it reproduces the file byte for byte
example : (match saveFile exampleVtf 4 1 true with
    | .ok file => saveFile (objOfRead file (viewOf exampleVtf 4 1 (lowLen exampleVtf))) 4 1 true == .ok file
    | .error _ => false) = true := by decide +kernel
-- the decision procedure rejects a wrong claim (BGRA4444 does not keep 5 bits)
example : sameList ((codecOf 19).load.map (E.subst (codecOf 19).save)) qE5551x = false := by decide +kernel

end C15
