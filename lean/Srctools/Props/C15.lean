import Srctools.Proofs.C15
import Srctools.Model.C15File
import Srctools.Gen.Vtf
/-!
# C15 — VTF save/read round trip: metadata exact, pixels exact up to the format

Property theorems only. Statements are about the model (`Model/C15.lean`, `Model/C15File.lean`);
`C15_gen_*` tie the model's tables and per-pixel codec expressions to the ones regenerated from the
current source by `tools/gen_vtf.py`.

The codec theorems quantify over **all** pixels `p` with byte channels (`p.valid`) or all encoded
words; they are proved through `quant_of_same` / `words_of_same` (Proofs/C15): a verified decision
procedure on the codec expressions, so `decide` evaluates a closed term and never enumerates pixels.
-/
namespace C15

/-! ## Obligations on the current source (translator output = model) -/

/-- The `ImageFormats` table of the source is the model's. -/
theorem C15_gen_formats : Gen.Vtf.formats = C15.formats := by decide

/-- The per-pixel expressions symbolically executed from `_py_vtf_readwrite.py`
(`load_*`, `save_*`, `saveload_rgba`, `decomp565`, `compress565`, `upsample`) are the model's. -/
theorem C15_gen_codecs : Gen.Vtf.codecs = C15.codecs := by decide

/-- Every format with a saver also has a per-pixel loader with four outputs; the saver writes
exactly `size / 8` bytes per pixel, the loader reads only those, the format is not block-compressed
(so `frame_size = size·w·h/8` is the codec's output length). -/
theorem C15_gen_tables_ok : tablesOK Gen.Vtf.formats Gen.Vtf.codecs = true := by decide

/-- The formats the pure-Python module can write are exactly `writableInds`. -/
theorem C15_gen_writable :
    (Gen.Vtf.codecs.filter (·.hasSave)).map (·.ind) = writableInds := by decide

/-- Cython twin, static tie: every per-pixel expression list that could be read out of
`_cy_vtf_readwrite.pyx` equals the model's, and that covers these 19 formats (all writable ones
except A8, whose Cython loader uses `memset`). -/
theorem C15_gen_pyx :
    (Gen.Vtf.pyxCodecs.all fun (i, l, s) =>
        l.all (· == (codecOf i).load) && s.all (· == (codecOf i).save)) = true ∧
    (Gen.Vtf.pyxCodecs.filter fun (_, l, s) => l.isSome && s.isSome).map (·.1)
      = [0, 1, 2, 3, 4, 5, 6, 9, 10, 11, 12, 16, 17, 18, 19, 21, 22, 23, 26] := by decide

/-- Constants the layout model relies on: header struct format, the literal struct formats used by
save / read / sheet code, ENVMAP flag, cube sides (SPHERE last, dropped from 7.5), reserved resource
ids, filter mode values. -/
theorem C15_gen_consts :
    Gen.Vtf.headerFmt = C15.headerFmt ∧ Gen.Vtf.saveFmts = C15.saveFmts ∧
    Gen.Vtf.readFmts = C15.readFmts ∧ Gen.Vtf.sheetFmts = C15.sheetFmts ∧
    Gen.Vtf.envmap = envmapFlag ∧ Gen.Vtf.cubeSides = C15.cubeSides ∧
    Gen.Vtf.cubesDropLast = true ∧ Gen.Vtf.sphereCutoff = C15.sphereCutoff ∧
    Gen.Vtf.resIds = [idLow, idHigh, idSheet] ∧ Gen.Vtf.filters = C15.filters := by decide

/-! ## Codecs: formats that store 8 bits per used channel -/

/-- RGBA8888, ABGR8888, ARGB8888, BGRA8888, UVWQ8888, UVLX8888: every pixel is reproduced exactly. -/
theorem C15_exact_rgba (i : Nat) (hi : i ∈ [0, 1, 11, 12, 23, 26]) (p : Px) :
    loadF (codecOf i) (saveF (codecOf i) p) = p := by
  simp only [List.mem_cons, List.mem_nil_iff, or_false] at hi
  rcases hi with rfl | rfl | rfl | rfl | rfl | rfl <;> cases p <;> rfl

/-- RGB888, BGR888, BGRX8888: colour exact, alpha reads back opaque. -/
theorem C15_exact_rgb (i : Nat) (hi : i ∈ [2, 3, 16]) (p : Px) :
    loadF (codecOf i) (saveF (codecOf i) p) = { p with a := 255 } := by
  simp only [List.mem_cons, List.mem_nil_iff, or_false] at hi
  rcases hi with rfl | rfl | rfl <;> cases p <;> rfl

/-- A8 keeps alpha only; UV88 keeps red and green only. -/
theorem C15_exact_a8_uv88 (p : Px) :
    loadF (codecOf 8) (saveF (codecOf 8) p) = ⟨0, 0, 0, p.a⟩ ∧
    loadF (codecOf 22) (saveF (codecOf 22) p) = ⟨p.r, p.g, 0, 255⟩ := by
  cases p; exact ⟨rfl, rfl⟩

/-! ## Codecs: reduced precision -/

/-- BGRX5551: five bits per colour, alpha ignored. -/
theorem C15_quant_bgrx5551 (p : Px) (hp : p.valid) :
    loadF (codecOf 18) (saveF (codecOf 18) p) = ⟨q5 p.r, q5 p.g, q5 p.b, 255⟩ :=
  quant_of_same (codecOf 18) qE5551x (by decide +kernel) p hp

/-- BGRA5551: five bits per colour, one bit of alpha (`≥ 128` ↦ 255, else 0). -/
theorem C15_quant_bgra5551 (p : Px) (hp : p.valid) :
    loadF (codecOf 21) (saveF (codecOf 21) p) = ⟨q5 p.r, q5 p.g, q5 p.b, q1 p.a⟩ :=
  quant_of_same (codecOf 21) qE5551a (by decide +kernel) p hp

/-- BGRA4444: four bits per channel, the nibble is duplicated. -/
theorem C15_quant_bgra4444 (p : Px) (hp : p.valid) :
    loadF (codecOf 19) (saveF (codecOf 19) p) = ⟨q4 p.r, q4 p.g, q4 p.b, q4 p.a⟩ :=
  quant_of_same (codecOf 19) qE4444 (by decide +kernel) p hp

/-- I8 / IA88: the floor mean of the three colours in all three, alpha opaque / kept. -/
theorem C15_quant_grey (p : Px) :
    loadF (codecOf 5) (saveF (codecOf 5) p) = ⟨greyOf p, greyOf p, greyOf p, 255⟩ ∧
    loadF (codecOf 6) (saveF (codecOf 6) p) = ⟨greyOf p, greyOf p, greyOf p, p.a⟩ := by
  cases p; exact ⟨rfl, rfl⟩

/-- RGB888_BLUESCREEN / BGR888_BLUESCREEN: a pixel with alpha below 128 (or opaque pure blue, the
on-disk code for transparency) reads back as transparent black, any other as itself, opaque. -/
theorem C15_quant_bluescreen (i : Nat) (hi : i = 9 ∨ i = 10) (p : Px) :
    loadF (codecOf i) (saveF (codecOf i) p) =
      if p.a < 128 ∨ (p.r = 0 ∧ p.g = 0 ∧ p.b = 255) then ⟨0, 0, 0, 0⟩ else ⟨p.r, p.g, p.b, 255⟩ := by
  obtain ⟨r, g, b, a⟩ := p
  rcases hi with rfl | rfl
  all_goals
    simp only [loadF, saveF, codecOf, codecs, List.getD_cons_succ, List.getD_cons_zero, loadBlue,
      saveBlue3, List.map_cons, List.map_nil, E.eval, Px.env, bytesEnv, Px.ofList, R, G, B, A]
    by_cases ha : a < 128
    · simp [ha]
    · by_cases hblue : r = 0 ∧ g = 0 ∧ b = 255
      · obtain ⟨rfl, rfl, rfl⟩ := hblue; simp [ha]
      · simp only [ha, if_false, false_or, hblue]
        have : ¬ ((r = g ∧ g = 0) ∧ b = 255) := fun h => hblue ⟨h.1.1.trans h.1.2, h.1.2, h.2⟩
        simp [this]

/-- **One statement for the 18 lawful writable formats** (all but RGB565 / BGR565):
`load (save p) = quant p`. -/
theorem C15_roundtrip (i : Nat) (hi : i ∈ lawfulInds) (p : Px) (hp : p.valid) :
    loadF (codecOf i) (saveF (codecOf i) p) = quant i p := by
  simp only [lawfulInds, List.mem_cons, List.mem_nil_iff, or_false] at hi
  rcases hi with rfl | rfl | rfl | rfl | rfl | rfl | rfl | rfl | rfl | rfl | rfl | rfl | rfl |
    rfl | rfl | rfl | rfl | rfl
  · exact C15_exact_rgba 0 (by decide) p
  · exact C15_exact_rgba 1 (by decide) p
  · exact C15_exact_rgb 2 (by decide) p
  · exact C15_exact_rgb 3 (by decide) p
  · exact (C15_quant_grey p).1
  · exact (C15_quant_grey p).2
  · exact (C15_exact_a8_uv88 p).1
  · exact C15_quant_bluescreen 9 (.inl rfl) p
  · exact C15_quant_bluescreen 10 (.inr rfl) p
  · exact C15_exact_rgba 11 (by decide) p
  · exact C15_exact_rgba 12 (by decide) p
  · exact C15_exact_rgb 16 (by decide) p
  · exact C15_quant_bgrx5551 p hp
  · exact C15_quant_bgra4444 p hp
  · exact C15_quant_bgra5551 p hp
  · exact (C15_exact_a8_uv88 p).2
  · exact C15_exact_rgba 23 (by decide) p
  · exact C15_exact_rgba 26 (by decide) p

/-! ## Every stored word is a fixed point: `save (load w) = w` on all 65 536 two-byte values -/

/-- BGRA4444: all 16 bits carry data; decoding then encoding any word gives it back. -/
theorem C15_words_bgra4444 (x y : Nat) (hx : x < 256) (hy : y < 256) :
    saveF (codecOf 19) (loadF (codecOf 19) [x, y]) = [x, y] :=
  words_of_same (codecOf 19) [.var 0, .var 1] (by decide) (by decide +kernel) [x, y] (by simp [hx, hy])

/-- BGRX5551: the top bit of the second byte is not used, everything else is a fixed point. -/
theorem C15_words_bgrx5551 (x y : Nat) (hx : x < 256) (hy : y < 256) :
    saveF (codecOf 18) (loadF (codecOf 18) [x, y]) = [x, y &&& 127] :=
  words_of_same (codecOf 18) [.var 0, .and (.var 1) (.lit 127)] (by decide) (by decide +kernel) [x, y]
    (by simp [hx, hy])

/-- BGRA5551: all 16 bits carry data. (The alpha bit goes through `255 if b & 0x80 else 0`, which
is outside the bitwise fragment: that one bit is handled by `alpha_bit`.) -/
theorem C15_words_bgra5551 (x y : Nat) (hx : x < 256) (hy : y < 256) :
    saveF (codecOf 21) (loadF (codecOf 21) [x, y]) = [x, y] := by
  have hb : ∀ b ∈ [x, y], b < 256 := by simp [hx, hy]
  have henv := bytesEnv_lt [x, y] hb
  rw [saveF_loadF (codecOf 21) (by decide)]
  -- first byte: purely bitwise
  have h0 : E.same ((saveBGRA5551.getD 0 default).subst loadBGRA5551) (.var 0) = true := by decide +kernel
  -- second byte with the alpha term replaced by `b & 0x80`
  have h1 : E.same (.or (.or (.and (.var 1) (.lit 128))
        ((E.and (.shr R 1) (.lit 124)).subst loadBGRA5551)) ((E.shr G 6).subst loadBGRA5551))
      (.var 1) = true := by decide +kernel
  have g0 : E.eval (bytesEnv [x, y]) ((saveBGRA5551.getD 0 default).subst loadBGRA5551) = x :=
    E.eval_eq_of_same _ _ h0 _ henv
  have e1 := E.eval_eq_of_same _ _ h1 _ henv
  have ha := alpha_bit y hy
  have g1 : E.eval (bytesEnv [x, y]) ((saveBGRA5551.getD 1 default).subst loadBGRA5551) = y := by
    simp only [E.subst, E.eval, saveBGRA5551, loadBGRA5551, load5551rgb, List.getD_cons_succ,
      List.getD_cons_zero, List.cons_append, List.nil_append, up, bytesEnv, R, G, A] at e1 ha ⊢
    rw [ha]
    exact e1
  show [E.eval (bytesEnv [x, y]) ((saveBGRA5551.getD 0 default).subst loadBGRA5551),
        E.eval (bytesEnv [x, y]) ((saveBGRA5551.getD 1 default).subst loadBGRA5551)] = [x, y]
  rw [g0, g1]

/-! ## Storing the stored pixel again changes nothing -/

/-- For every lawful writable format and every pixel: `save (load (save p)) = save p`. -/
theorem C15_idempotent (i : Nat) (hi : i ∈ lawfulInds) (p : Px) (hp : p.valid) :
    saveF (codecOf i) (loadF (codecOf i) (saveF (codecOf i) p)) = saveF (codecOf i) p := by
  simp only [lawfulInds, List.mem_cons, List.mem_nil_iff, or_false] at hi
  rcases hi with rfl | rfl | rfl | rfl | rfl | rfl | rfl | rfl | rfl | rfl | rfl | rfl | rfl |
    rfl | rfl | rfl | rfl | rfl
  · cases p; rfl
  · cases p; rfl
  · cases p; rfl
  · cases p; rfl
  · -- I8
    obtain ⟨r, g, b, a⟩ := p
    show [((r + g + b) / 3 + (r + g + b) / 3 + (r + g + b) / 3) / 3] = [(r + g + b) / 3]
    congr 1; omega
  · obtain ⟨r, g, b, a⟩ := p
    show [((r + g + b) / 3 + (r + g + b) / 3 + (r + g + b) / 3) / 3, a] = [(r + g + b) / 3, a]
    congr 1; omega
  · cases p; rfl
  · rw [C15_quant_bluescreen 9 (.inl rfl)]
    obtain ⟨r, g, b, a⟩ := p
    by_cases h : a < 128 ∨ (r = 0 ∧ g = 0 ∧ b = 255)
    · rw [if_pos h]
      rcases h with h | ⟨rfl, rfl, rfl⟩
      · simp [saveF, codecOf, codecs, saveBlue3, E.eval, Px.env, h, R, G, B, A]
      · by_cases h' : a < 128 <;>
          simp [saveF, codecOf, codecs, saveBlue3, E.eval, Px.env, h', R, G, B, A]
    · rw [if_neg h]
      have h' : ¬ a < 128 := fun x => h (.inl x)
      simp [saveF, codecOf, codecs, saveBlue3, E.eval, Px.env, h', R, G, B, A]
  · rw [C15_quant_bluescreen 10 (.inr rfl)]
    obtain ⟨r, g, b, a⟩ := p
    by_cases h : a < 128 ∨ (r = 0 ∧ g = 0 ∧ b = 255)
    · rw [if_pos h]
      rcases h with h | ⟨rfl, rfl, rfl⟩
      · simp [saveF, codecOf, codecs, saveBlue3, E.eval, Px.env, h, R, G, B, A]
      · by_cases h' : a < 128 <;>
          simp [saveF, codecOf, codecs, saveBlue3, E.eval, Px.env, h', R, G, B, A]
    · rw [if_neg h]
      have h' : ¬ a < 128 := fun x => h (.inl x)
      simp [saveF, codecOf, codecs, saveBlue3, E.eval, Px.env, h', R, G, B, A]
  · cases p; rfl
  · cases p; rfl
  · cases p; rfl
  · exact idem_of_same (codecOf 18) (by decide) (by decide +kernel) p hp
  · exact idem_of_same (codecOf 19) (by decide) (by decide +kernel) p hp
  · -- BGRA5551: its bytes are bytes, and every word is a fixed point
    have hlt := saveF_lt (codecOf 21) (by decide +kernel) p hp
    have hlen : saveF (codecOf 21) p = [(saveF (codecOf 21) p).getD 0 0, (saveF (codecOf 21) p).getD 1 0] := rfl
    rw [hlen]
    apply C15_words_bgra5551
    · exact hlt _ (by rw [hlen]; simp)
    · exact hlt _ (by rw [hlen]; simp)
  · cases p; rfl
  · cases p; rfl
  · cases p; rfl

/-! ## The quantisation in arithmetic terms -/

/-- `q5/q6/q4` keep the top 5/6/4 bits and replicate the leading bits below them; `q1` is a
threshold at 128. Consequently the stored value differs from the original by less than one step
of the reduced precision, and values are bytes. -/
theorem C15_quant_arith : ∀ x, x < 256 →
    q5 x = x / 8 * 8 + x / 32 ∧ q6 x = x / 4 * 4 + x / 64 ∧ q4 x = x / 16 * 16 + x / 16 ∧
    q1 x = (if x ≥ 128 then 255 else 0) ∧
    q5 x / 8 = x / 8 ∧ q6 x / 4 = x / 4 ∧ q4 x / 16 = x / 16 ∧
    q5 x < 256 ∧ q6 x < 256 ∧ q4 x < 256 ∧
    q5 (q5 x) = q5 x ∧ q6 (q6 x) = q6 x ∧ q4 (q4 x) = q4 x ∧ q1 (q1 x) = q1 x := by
  decide +kernel

/-- The quantisation of a pixel with byte channels has byte channels. -/
theorem C15_quant_valid (i : Nat) (hi : i ∈ writableInds) (p : Px) (hp : p.valid) : (quant i p).valid := by
  obtain ⟨r, g, b, a⟩ := p
  obtain ⟨hr, hg, hb, ha⟩ := hp
  dsimp only at hr hg hb ha
  have Q := C15_quant_arith
  have hgrey : (r + g + b) / 3 < 256 := by omega
  have r5 := (Q r hr).2.2.2.2.2.2.2.1
  have g5 := (Q g hg).2.2.2.2.2.2.2.1
  have b5 := (Q b hb).2.2.2.2.2.2.2.1
  have g6 := (Q g hg).2.2.2.2.2.2.2.2.1
  have r4 := (Q r hr).2.2.2.2.2.2.2.2.2.1
  have g4 := (Q g hg).2.2.2.2.2.2.2.2.2.1
  have b4 := (Q b hb).2.2.2.2.2.2.2.2.2.1
  have a4 := (Q a ha).2.2.2.2.2.2.2.2.2.1
  have a1 : q1 a < 256 := by simp only [q1]; split <;> omega
  simp only [writableInds, List.mem_cons, List.mem_nil_iff, or_false] at hi
  rcases hi with rfl | rfl | rfl | rfl | rfl | rfl | rfl | rfl | rfl | rfl | rfl | rfl | rfl | rfl |
    rfl | rfl | rfl | rfl | rfl | rfl
  all_goals
    simp only [quant, greyOf, Nat.reduceEqDiff, or_self, or_false, or_true, if_true, if_false]
  all_goals try split
  all_goals (refine ⟨?_, ?_, ?_, ?_⟩ <;> dsimp only <;> first | assumption | omega)

/-! ## RGB565 / BGR565: what the code does, why the law fails, and that the repair is right -/

/-- RGB565 and BGR565 **as coded**: `load (save p)` keeps the top 5/6/5 bits, but red and blue
come back exchanged (`compress565` and `decomp565` disagree on where the first component lives). -/
theorem C15_565_as_coded (i : Nat) (hi : i = 4 ∨ i = 17) (p : Px) (hp : p.valid) :
    loadF (codecOf i) (saveF (codecOf i) p) = ⟨q5 p.b, q6 p.g, q5 p.r, 255⟩ := by
  rcases hi with rfl | rfl
  · exact quant_of_same (codecOf 4) qE565swapped (by decide +kernel) p hp
  · exact quant_of_same (codecOf 17) qE565swapped (by decide +kernel) p hp

/-- **The full round-trip statement is false for RGB565 / BGR565** (open finding `codec-RGB565`,
`codec-BGR565`): pure red is read back as pure blue, and storing that again changes the data. -/
theorem C15_565_defect (i : Nat) (hi : i = 4 ∨ i = 17) :
    ∃ p : Px, p.valid ∧ loadF (codecOf i) (saveF (codecOf i) p) ≠ quant i p ∧
      saveF (codecOf i) (loadF (codecOf i) (saveF (codecOf i) p)) ≠ saveF (codecOf i) p := by
  rcases hi with rfl | rfl <;> exact ⟨⟨255, 0, 0, 255⟩, by decide, by decide, by decide⟩

/-- Strongest true statement for the code as it is: the law holds on pixels whose red and blue agree
in their top five bits (the excluded class of the finding is `p.r / 8 ≠ p.b / 8`). -/
theorem C15_quant_565_partial (i : Nat) (hi : i = 4 ∨ i = 17) (p : Px) (hp : p.valid)
    (hrb : p.r / 8 = p.b / 8) :
    loadF (codecOf i) (saveF (codecOf i) p) = quant i p := by
  rw [C15_565_as_coded i hi p hp]
  have hq : quant i p = ⟨q5 p.r, q6 p.g, q5 p.b, 255⟩ := by rcases hi with rfl | rfl <;> rfl
  rw [hq]
  have e : q5 p.r = q5 p.b := by
    have hr := (C15_quant_arith p.r hp.1).1
    have hb := (C15_quant_arith p.b hp.2.2.1).1
    omega
  rw [e]

/-- With the encoder that agrees with `decomp565` (the patch `fixes/C15-compress565-channel-order`,
which reproduces VTFEdit's bytes but is blocked by the repository's reference files) the full law
holds: quantisation to 5/6/5 bits, every word a fixed point, re-saving changes nothing. -/
theorem C15_565_repaired (c : Codec) (hc : c = fixedRGB565 ∨ c = fixedBGR565) (p : Px) (hp : p.valid)
    (x y : Nat) (hx : x < 256) (hy : y < 256) :
    loadF c (saveF c p) = ⟨q5 p.r, q6 p.g, q5 p.b, 255⟩ ∧ saveF c (loadF c [x, y]) = [x, y] ∧
    saveF c (loadF c (saveF c p)) = saveF c p := by
  have hb : ∀ b ∈ [x, y], b < 256 := by simp [hx, hy]
  rcases hc with rfl | rfl
  · exact ⟨quant_of_same fixedRGB565 qE565 (by decide +kernel) p hp,
      words_of_same fixedRGB565 [.var 0, .var 1] (by decide) (by decide +kernel) [x, y] hb,
      idem_of_same fixedRGB565 (by decide) (by decide +kernel) p hp⟩
  · exact ⟨quant_of_same fixedBGR565 qE565 (by decide +kernel) p hp,
      words_of_same fixedBGR565 [.var 0, .var 1] (by decide) (by decide +kernel) [x, y] hb,
      idem_of_same fixedBGR565 (by decide) (by decide +kernel) p hp⟩

end C15
