/-!
# POSIX path functions on `List Char` (model of CPython's `posixpath`)

`join2`, `normpath`, `abspath`, `relpath` follow `Lib/posixpath.py` (CPython 3.12) statement by
statement; `comps` is the component view used by the containment theorems (C18) and the
archive-name functions (C19).  Core Lean only: linked into the compiled drivers.

The model is *lexical* (as `posixpath` is): no symlinks, no file system access.
-/
namespace Path

abbrev Str := List Char

def dot : Str := ['.']
def dotdot : Str := ['.', '.']

/-- `s.split(d)` for a one-character separator: never empty, `n` separators give `n+1` pieces. -/
def splitOn (d : Char) : Str → List Str
  | [] => [[]]
  | c :: cs =>
    if c = d then [] :: splitOn d cs
    else match splitOn d cs with
      | [] => [[c]]
      | h :: t => (c :: h) :: t

/-- `d.join(parts)`. -/
def joinWith (d : Char) : List Str → Str
  | [] => []
  | [x] => x
  | x :: y :: r => x ++ d :: joinWith d (y :: r)

/-- Component view: the non-empty pieces between slashes. -/
def comps (p : Str) : List Str := (splitOn '/' p).filter (fun c => c ≠ [])

/-- `s.replace('\\', '/')`. -/
def replaceBS (p : Str) : Str := p.map fun c => if c = '\\' then '/' else c

/-- `str.casefold` as a character-wise map (`fold c` = the case folding of the character `c`;
CPython folds code point by code point). -/
def foldStr (fold : Char → List Char) (s : Str) : Str := s.flatMap fold

/-- `pat in s` for strings. -/
def hasInfix (pat : Str) : Str → Bool
  | [] => pat.isEmpty
  | c :: cs => pat.isPrefixOf (c :: cs) || hasInfix pat cs

/-- `os.path.isabs`. -/
def isAbs (p : Str) : Bool := p.head? = some '/'

def endsWithSep (p : Str) : Bool := p.getLast? = some '/'

/-- `os.path.join(a, b)` (two arguments). -/
def join2 (a b : Str) : Str :=
  if isAbs b then b
  else if a = [] ∨ endsWithSep a then a ++ b
  else a ++ '/' :: b

/-- `os.path.join(a, *bs)`. -/
def joinMany (a : Str) (bs : List Str) : Str := bs.foldl join2 a

/-- The number of leading slashes `normpath` keeps: POSIX allows exactly two; three or more
collapse to one. -/
def initialSlashes : Str → Nat
  | '/' :: '/' :: '/' :: _ => 1
  | '/' :: '/' :: _ => 2
  | '/' :: _ => 1
  | _ => 0

/-- One iteration of the component loop of `normpath`.  `stk` is `new_comps` *reversed*
(head = last element appended). -/
def normStep (initial : Bool) (stk : List Str) (comp : Str) : List Str :=
  if comp = [] ∨ comp = dot then stk
  else if comp ≠ dotdot ∨ (initial = false ∧ stk = []) ∨ stk.head? = some dotdot then comp :: stk
  else stk.tail

/-- The components `normpath` keeps (in path order). -/
def normComps (p : Str) : List Str :=
  ((splitOn '/' p).foldl (normStep (initialSlashes p != 0)) []).reverse

/-- `os.path.normpath`. -/
def normpath (p : Str) : Str :=
  if p = [] then dot
  else
    let r := List.replicate (initialSlashes p) '/' ++ joinWith '/' (normComps p)
    if r = [] then dot else r

/-- `os.path.abspath` with the current directory as a parameter. -/
def abspath (cwd p : Str) : Str :=
  normpath (if isAbs p then p else join2 cwd p)

/-- Length of the common prefix of two component lists. -/
def commonLen : List Str → List Str → Nat
  | a :: as, b :: bs => if a = b then commonLen as bs + 1 else 0
  | _, _ => 0

/-- `os.path.relpath(path, start)`; `none` models `ValueError("no path specified")`.
`start = ''` stands for the current directory, as in CPython (`abspath('') = cwd`). -/
def relpath (cwd path start : Str) : Option Str :=
  if path = [] then none
  else
    let sl := comps (abspath cwd start)
    let pl := comps (abspath cwd path)
    let i := commonLen sl pl
    let rel := List.replicate (sl.length - i) dotdot ++ pl.drop i
    match rel with
    | [] => some dot
    | r :: rs => some (joinMany r rs)

end Path
