/-!
# C04 — model of the rotation algebra of `srctools/math.py`

Core imports only (this file is linked into `drv_c04`).  Everything is generic in the number
type `α`: the driver instantiates it with `Rat`, the theorems (Props/C04.lean) with an arbitrary
commutative ring / field / ordered field.  The formulas are *as coded* in

* `MatrixBase.from_angle`, `from_pitch`, `from_yaw`, `from_roll`   → `fromAngle`, `Ry`, `Rz`, `Rx`
* `MatrixBase._mat_mul`, `_vec_rot`, `transpose`                  → `matMul`, `vecRot`, `transpose`
* `MatrixBase._to_angle`                                          → `toAngle`
* `MatrixBase.inverse`                                            → `gaussJordanInverse`
* the `__matmul__ / __rmatmul__ / __imatmul__` methods of `VecBase`, `Vec`, `MatrixBase`,
  `Matrix`, `AngleBase`, `Angle` and Python's binary-operator protocol → `dispatch`

An Euler angle is carried as the six numbers `cos/sin` of pitch, yaw, roll (`Ang`): the
trigonometric functions themselves are not modelled, an angle *is* three points of the unit
circle.  `atan2 y x` is modelled by its normalised output `(x / r, y / r)` for a *supplied*
radius `r` (a witness of `r² = x² + y²`, `r > 0`), so that no square root is needed.
-/
namespace C04

structure V3 (α : Type) where
  x : α
  y : α
  z : α
deriving DecidableEq, Repr

/-- Row-major 3×3 matrix; field names as the slots `_aa … _cc` of `MatrixBase`. -/
structure Mat (α : Type) where
  aa : α
  ab : α
  ac : α
  ba : α
  bb : α
  bc : α
  ca : α
  cb : α
  cc : α
deriving DecidableEq, Repr

/-- An Euler angle as three points of the unit circle:
`cp = cos pitch`, `sp = sin pitch`, `cy/sy` yaw, `cr/sr` roll. -/
structure Ang (α : Type) where
  cp : α
  sp : α
  cy : α
  sy : α
  cr : α
  sr : α
deriving DecidableEq, Repr

section Ring
variable {α : Type} [Add α] [Mul α] [Neg α] [Sub α] [Zero α] [One α]

def Mat.one : Mat α := ⟨1, 0, 0, 0, 1, 0, 0, 0, 1⟩

/-- `MatrixBase.from_angle` (math.py): the nine assignments, local products inlined. -/
def fromAngle (a : Ang α) : Mat α where
  aa := a.cp * a.cy
  ab := a.cp * a.sy
  ac := -a.sp
  ba := a.sp * (a.sr * a.cy) - a.cr * a.sy
  bb := a.sp * (a.sr * a.sy) + a.cr * a.cy
  bc := a.sr * a.cp
  ca := a.sp * (a.cr * a.cy) + a.sr * a.sy
  cb := a.sp * (a.cr * a.sy) - a.sr * a.cy
  cc := a.cr * a.cp

/-- `MatrixBase.from_roll`: rotation about X. -/
def Rx (a : Ang α) : Mat α := ⟨1, 0, 0, 0, a.cr, a.sr, 0, -a.sr, a.cr⟩
/-- `MatrixBase.from_pitch`: rotation about Y. -/
def Ry (a : Ang α) : Mat α := ⟨a.cp, 0, -a.sp, 0, 1, 0, a.sp, 0, a.cp⟩
/-- `MatrixBase.from_yaw`: rotation about Z. -/
def Rz (a : Ang α) : Mat α := ⟨a.cy, a.sy, 0, -a.sy, a.cy, 0, 0, 0, 1⟩

/-- `MatrixBase._mat_mul`: `self := self · other` (row-major, row vectors). -/
def matMul (m o : Mat α) : Mat α where
  aa := m.aa * o.aa + m.ab * o.ba + m.ac * o.ca
  ab := m.aa * o.ab + m.ab * o.bb + m.ac * o.cb
  ac := m.aa * o.ac + m.ab * o.bc + m.ac * o.cc
  ba := m.ba * o.aa + m.bb * o.ba + m.bc * o.ca
  bb := m.ba * o.ab + m.bb * o.bb + m.bc * o.cb
  bc := m.ba * o.ac + m.bb * o.bc + m.bc * o.cc
  ca := m.ca * o.aa + m.cb * o.ba + m.cc * o.ca
  cb := m.ca * o.ab + m.cb * o.bb + m.cc * o.cb
  cc := m.ca * o.ac + m.cb * o.bc + m.cc * o.cc

/-- `MatrixBase._vec_rot`: `vec := vec · self` (the vector is a row). -/
def vecRot (v : V3 α) (m : Mat α) : V3 α where
  x := (v.x * m.aa) + (v.y * m.ba) + (v.z * m.ca)
  y := (v.x * m.ab) + (v.y * m.bb) + (v.z * m.cb)
  z := (v.x * m.ac) + (v.y * m.bc) + (v.z * m.cc)

/-- `MatrixBase.transpose`. -/
def transpose (m : Mat α) : Mat α := ⟨m.aa, m.ba, m.ca, m.ab, m.bb, m.cb, m.ac, m.bc, m.cc⟩

def det (m : Mat α) : α :=
  m.aa * (m.bb * m.cc - m.bc * m.cb) - m.ab * (m.ba * m.cc - m.bc * m.ca)
    + m.ac * (m.ba * m.cb - m.bb * m.ca)

/-- Unit-circle conditions: the only facts about `sin`/`cos` the theorems use. -/
def Ang.OnCircle (a : Ang α) : Prop :=
  a.cp * a.cp + a.sp * a.sp = 1 ∧ a.cy * a.cy + a.sy * a.sy = 1 ∧ a.cr * a.cr + a.sr * a.sr = 1

/-- A proper rotation: orthonormal rows and determinant one. -/
def IsRotation (m : Mat α) : Prop := matMul m (transpose m) = Mat.one ∧ det m = 1

end Ring

/-! ## `_to_angle` -/
section Field
variable {α : Type} [Add α] [Mul α] [Neg α] [Sub α] [Zero α] [One α] [Div α]
  [LT α] [DecidableEq α] [DecidableLT α]

/-- Normalised result of `atan2 y x` as `(cos, sin)`, for a supplied radius `r`
(`r² = x² + y²`, `r ≥ 0`).  `atan2 0 0 = 0`. -/
def atan2n (y x r : α) : α × α := if r = 0 then (1, 0) else (x / r, y / r)

/-- The `(y, x)` argument pairs of the five `atan2` calls of `_to_angle`, as coded:
general branch yaw, pitch, roll; gimbal branch yaw, pitch.  `h` is `horiz_dist`. -/
def atanArgs (m : Mat α) (h : α) : List (α × α) :=
  [(m.ab, m.aa), (-m.ac, h), (m.bc, m.cc), (-m.ba, m.bb), (-m.ac, h)]

/-- Supplied square roots: `h = √(aa²+ab²)` (`horiz_dist`), `rp = √(ac²+h²)`,
`rr = √(bc²+cc²)`, `rg = √(ba²+bb²)`. -/
structure Radii (α : Type) where
  h : α
  rp : α
  rr : α
  rg : α
deriving Repr

/-- `MatrixBase._to_angle`: `thr` is the literal `0.001`. Returns the angle and whether the
general (non gimbal-lock) branch was taken. -/
def toAngleB (thr : α) (m : Mat α) (r : Radii α) : Ang α × Bool :=
  if thr < r.h then
    let y := atan2n m.ab m.aa r.h
    let p := atan2n (-m.ac) r.h r.rp
    let ro := atan2n m.bc m.cc r.rr
    (⟨p.1, p.2, y.1, y.2, ro.1, ro.2⟩, true)
  else
    let y := atan2n (-m.ba) m.bb r.rg
    let p := atan2n (-m.ac) r.h r.rp
    (⟨p.1, p.2, y.1, y.2, 1, 0⟩, false)

def toAngle (thr : α) (m : Mat α) (r : Radii α) : Ang α := (toAngleB thr m r).1

/-- `_to_angle` as a function of the list of `atan2` argument pairs (used to tie `toAngleB` to
the pairs extracted from the source, Gen/Rot.lean). -/
def toAngleOfArgs (thr : α) (args : List (α × α)) (r : Radii α) : Ang α × Bool :=
  match args with
  | [gy, gp, gr, ly, lp] =>
    if thr < r.h then
      let y := atan2n gy.1 gy.2 r.h
      let p := atan2n gp.1 gp.2 r.rp
      let ro := atan2n gr.1 gr.2 r.rr
      (⟨p.1, p.2, y.1, y.2, ro.1, ro.2⟩, true)
    else
      let y := atan2n ly.1 ly.2 r.rg
      let p := atan2n lp.1 lp.2 r.rp
      (⟨p.1, p.2, y.1, y.2, 1, 0⟩, false)
  | _ => (⟨1, 0, 1, 0, 1, 0⟩, false)

/-! ## `inverse` — Gauss-Jordan with the code's pivot search -/

def V3.get (v : V3 α) : Fin 3 → α
  | 0 => v.x
  | 1 => v.y
  | 2 => v.z

def V3.sub (a b : V3 α) : V3 α := ⟨a.x - b.x, a.y - b.y, a.z - b.z⟩
def V3.smul (a : V3 α) (k : α) : V3 α := ⟨a.x * k, a.y * k, a.z * k⟩
def V3.sdiv (a : V3 α) (k : α) : V3 α := ⟨a.x / k, a.y / k, a.z / k⟩

/-- Three rows (`mat_l` / `mat_r` of the code: lists of three `Vec`). -/
abbrev Rows (α : Type) := Fin 3 → V3 α

def Rows.set (r : Rows α) (i : Fin 3) (v : V3 α) : Rows α := fun k => if k = i then v else r k
def Rows.swap (r : Rows α) (i j : Fin 3) : Rows α :=
  fun k => if k = i then r j else if k = j then r i else r k

/-- The augmented matrix `[mat_l | mat_r]`. -/
structure Aug (α : Type) where
  l : Rows α
  r : Rows α

def absv (x : α) : α := if x < 0 then -x else x

/-- The pivot search `la = 0.0; pivrow = -1; for m in range(n, 3): if abs(l[m][n]) > la: …`
started at row `n`, for the rows listed. -/
def pivotSearch (l : Rows α) (n : Fin 3) : List (Fin 3) → α → Option (Fin 3) → Option (Fin 3)
  | [], _, piv => piv
  | m :: ms, la, piv =>
    let va := absv ((l m).get n)
    if la < va then pivotSearch l n ms va (some m) else pivotSearch l n ms la piv

/-- `v = l[m][n] / l[p][n]; l[m] -= l[p] * v; r[m] -= r[p] * v`
(`ZeroDivisionError`, an `ArithmeticError`, when the divisor is zero → `none`). -/
def elim (s : Aug α) (m p n : Fin 3) : Option (Aug α) :=
  if (s.l p).get n = 0 then none else
    let v := (s.l m).get n / (s.l p).get n
    some ⟨s.l.set m ((s.l m).sub ((s.l p).smul v)), s.r.set m ((s.r m).sub ((s.r p).smul v))⟩

def elimAll (s : Aug α) (p n : Fin 3) : List (Fin 3) → Option (Aug α)
  | [] => some s
  | m :: ms => match elim s m p n with
    | none => none
    | some s' => elimAll s' p n ms

/-- One iteration of the "row echelon" loop (`n = 0, 1`); `rows = range(n,3)`,
`below = range(n+1,3)`. -/
def fwdStep (s : Aug α) (n : Fin 3) (rows below : List (Fin 3)) : Option (Aug α) :=
  match pivotSearch s.l n rows 0 none with
  | none => none
  | some p =>
    let s' : Aug α := if p = n then s else ⟨s.l.swap n p, s.r.swap n p⟩
    elimAll s' n n below

/-- "Clean up our diagonal": `if abs(v) <= eps: raise; l[n] /= v; r[n] /= v`. -/
def diagStep (eps : α) (s : Aug α) (n : Fin 3) : Option (Aug α) :=
  let v := (s.l n).get n
  if eps < absv v then some ⟨s.l.set n ((s.l n).sdiv v), s.r.set n ((s.r n).sdiv v)⟩ else none

def rowsOf (m : Mat α) : Rows α
  | 0 => ⟨m.aa, m.ab, m.ac⟩
  | 1 => ⟨m.ba, m.bb, m.bc⟩
  | 2 => ⟨m.ca, m.cb, m.cc⟩

def matOfRows (r : Rows α) : Mat α :=
  ⟨(r 0).x, (r 0).y, (r 0).z, (r 1).x, (r 1).y, (r 1).z, (r 2).x, (r 2).y, (r 2).z⟩

/-- The final augmented state of `MatrixBase.inverse` (`eps` is the literal `0.00001`). -/
def gaussJordan (eps : α) (m : Mat α) : Option (Aug α) := do
  let s : Aug α := ⟨rowsOf m, rowsOf Mat.one⟩
  let s ← fwdStep s 0 [0, 1, 2] [1, 2]
  let s ← fwdStep s 1 [1, 2] [2]
  let s ← elimAll s 2 2 [1, 0]      -- for n in [2, 1]: for m in reversed(range(n))
  let s ← elimAll s 1 1 [0]
  let s ← diagStep eps s 0
  let s ← diagStep eps s 1
  diagStep eps s 2

/-- `MatrixBase.inverse`; `none` = `ArithmeticError`. -/
def gaussJordanInverse (eps : α) (m : Mat α) : Option (Mat α) :=
  (gaussJordan eps m).map fun s => matOfRows s.r

end Field

/-! ## Operand dispatch of `@`, `@=` and direct `__rmatmul__` calls -/

inductive Tag | vec | fvec | tup | ang | fang | mat | fmat
deriving DecidableEq, Repr

/-- `op`: the expression `l @ r`; `iop`: the statement `l @= r`; `refl`: the direct call
`r.__rmatmul__(l)`. -/
inductive Form | op | iop | refl
deriving DecidableEq, Repr

/-- How an operand is turned into the vector / matrix that enters the arithmetic. -/
inductive Conv | asIs | fromAngle | vecOfTuple
deriving DecidableEq, Repr

inductive Kind | vecRot | matMul
deriving DecidableEq, Repr

structure Formula where
  kind : Kind
  lconv : Conv
  rconv : Conv
  /-- the product is converted back to an Euler angle with `_to_angle` -/
  toAng : Bool
deriving DecidableEq, Repr

structure Entry where
  f : Formula
  res : Tag
  /-- the result object *is* the left operand, which was modified in place -/
  inPlace : Bool
deriving DecidableEq, Repr

def Tag.isVec : Tag → Bool
  | .vec | .fvec => true
  | _ => false
def Tag.isAng : Tag → Bool
  | .ang | .fang => true
  | _ => false
def Tag.isMat : Tag → Bool
  | .mat | .fmat => true
  | _ => false

/-- `type(l).__matmul__(l, r)`; `none` = `NotImplemented` or no such method.
`fresh = false` is the code in which `FrozenMatrix.copy()` returns `self` and `MatrixBase.__matmul__`
multiplies into `self.copy()`. -/
def matmul (fresh : Bool) (l r : Tag) : Option Entry :=
  match l with
  | .vec | .fvec =>        -- VecBase.__matmul__
    if r.isMat then some ⟨⟨.vecRot, .asIs, .asIs, false⟩, l, false⟩
    else if r.isAng then some ⟨⟨.vecRot, .asIs, .fromAngle, false⟩, l, false⟩
    else none
  | .tup => none           -- tuple has no __matmul__
  | .ang | .fang =>        -- AngleBase.__matmul__
    if r.isAng then some ⟨⟨.matMul, .fromAngle, .fromAngle, true⟩, l, false⟩   -- other._rotate_angle(self, type(self))
    else if r.isMat then some ⟨⟨.matMul, .fromAngle, .asIs, true⟩, l, false⟩
    else none
  | .mat | .fmat =>        -- MatrixBase.__matmul__: mat = self.copy(); mat._mat_mul(…)
    if r.isMat then some ⟨⟨.matMul, .asIs, .asIs, false⟩, l, l == .fmat && !fresh⟩
    else if r.isAng then some ⟨⟨.matMul, .asIs, .fromAngle, false⟩, l, l == .fmat && !fresh⟩
    else none

/-- `type(r).__rmatmul__(r, l)`. -/
def rmatmul (fresh : Bool) (r l : Tag) : Option Entry :=
  match r with
  | .mat | .fmat =>        -- MatrixBase.__rmatmul__
    match l with
    | .vec => some ⟨⟨.vecRot, .asIs, .asIs, false⟩, .vec, false⟩
    | .tup => some ⟨⟨.vecRot, .vecOfTuple, .asIs, false⟩, .vec, false⟩
    | .fvec => some ⟨⟨.vecRot, .asIs, .asIs, false⟩, .fvec, false⟩
    | .ang | .fang => some ⟨⟨.matMul, .fromAngle, .asIs, true⟩, l, false⟩
    | .mat | .fmat => some ⟨⟨.matMul, .asIs, .asIs, false⟩, l, l == .fmat && !fresh⟩   -- other.copy()._mat_mul(self)
  | .ang | .fang =>        -- AngleBase.__rmatmul__
    match l with
    | .vec | .fvec => some ⟨⟨.vecRot, .asIs, .fromAngle, false⟩, l, false⟩     -- other @ Matrix.from_angle(self)
    | .tup => some ⟨⟨.vecRot, .vecOfTuple, .fromAngle, false⟩, .vec, false⟩
    | .ang | .fang => some ⟨⟨.matMul, .fromAngle, .fromAngle, true⟩, r, false⟩  -- self._rotate_angle(other, type(self)) !
    | .mat | .fmat => none
  | _ => none              -- Vec, FrozenVec, tuple have no __rmatmul__

/-- `type(l).__imatmul__(l, r)`: outer `none` = the class has no such method,
`some none` = `NotImplemented`. -/
def imatmul (l r : Tag) : Option (Option Entry) :=
  match l with
  | .vec =>                -- Vec.__imatmul__
    some (if r.isMat then some ⟨⟨.vecRot, .asIs, .asIs, false⟩, .vec, true⟩
          else if r.isAng then some ⟨⟨.vecRot, .asIs, .fromAngle, false⟩, .vec, true⟩ else none)
  | .mat =>                -- Matrix.__imatmul__
    some (if r.isMat then some ⟨⟨.matMul, .asIs, .asIs, false⟩, .mat, true⟩
          else if r.isAng then some ⟨⟨.matMul, .asIs, .fromAngle, false⟩, .mat, true⟩ else none)
  | .ang =>                -- Angle.__imatmul__
    some (if r.isAng then some ⟨⟨.matMul, .fromAngle, .fromAngle, true⟩, .ang, true⟩
          else if r.isMat then some ⟨⟨.matMul, .fromAngle, .asIs, true⟩, .ang, true⟩ else none)
  | _ => none

/-- Python's binary operator protocol for `l @ r` (no operand class here is a subclass of
another operand class, so the reflected method is never tried first). -/
def binop (fresh : Bool) (l r : Tag) : Option Entry :=
  match matmul fresh l r with
  | some e => some e
  | none => rmatmul fresh r l

/-- The three operator forms. `none` = `TypeError` (or `NotImplemented` for a direct call). -/
def dispatch (fresh : Bool) (l r : Tag) : Form → Option Entry
  | .op => binop fresh l r
  | .iop => match imatmul l r with
    | some (some e) => some e
    | _ => binop fresh l r        -- falls back to `l = l @ r`
  | .refl => rmatmul fresh r l

/-! ## Evaluating a dispatch entry on values -/

inductive Val (α : Type)
  | v (v : V3 α)
  | a (a : Ang α)
  | m (m : Mat α)
deriving Repr

section Eval
variable {α : Type} [Add α] [Mul α] [Neg α] [Sub α] [Zero α] [One α] [Div α]
  [LT α] [DecidableEq α] [DecidableLT α]

def convMat : Conv → Val α → Option (Mat α)
  | .asIs, .m m => some m
  | .fromAngle, .a a => some (fromAngle a)
  | _, _ => none

def convVec : Conv → Val α → Option (V3 α)
  | .asIs, .v v => some v
  | .vecOfTuple, .v v => some v
  | _, _ => none

/-- The value an entry computes. `rad` are the radii for the `_to_angle` of the product
(ignored when `toAng = false`). -/
def evalFormula (thr : α) (f : Formula) (l r : Val α) (rad : Radii α) : Option (Val α) :=
  match f.kind with
  | .vecRot => do
    let v ← convVec f.lconv l
    let m ← convMat f.rconv r
    pure (.v (vecRot v m))
  | .matMul => do
    let a ← convMat f.lconv l
    let b ← convMat f.rconv r
    let p := matMul a b
    pure (if f.toAng then .a (toAngle thr p rad) else .m p)

/-! ## Histories over a pool of live objects

The operations have *value semantics*: what `l @ r`, `l @= r`, `r.__rmatmul__(l)` produce is a
function of the operands' classes and current values only; an object carries no other state. -/

structure Obj (α : Type) where
  tag : Tag
  val : Val α

structure Step where
  l : Nat
  r : Nat
  form : Form

/-- The entry used and the resulting object of one operation on two operand objects. -/
def stepResult (thr : α) (fresh : Bool) (rad : Radii α) (lo ro : Obj α) (f : Form) :
    Option (Entry × Obj α) :=
  match dispatch fresh lo.tag ro.tag f with
  | none => none
  | some e => match evalFormula thr e.f lo.val ro.val rad with
    | none => none
    | some v => some (e, ⟨e.res, v⟩)

/-- One step of a history over the pool `P` (objects addressed by position): the new pool — the
left operand's slot holds the result when the operation works in place, nothing else changes —
and the result object.  `none`: bad index / `TypeError`. -/
def stepPool (thr : α) (fresh : Bool) (rad : Radii α) (P : List (Obj α)) (st : Step) :
    Option (List (Obj α) × Obj α) :=
  match P[st.l]?, P[st.r]? with
  | some lo, some ro => match stepResult thr fresh rad lo ro st.form with
    | none => none
    | some (e, res) => some (if e.inPlace then P.set st.l res else P, res)
  | _, _ => none

end Eval

end C04
