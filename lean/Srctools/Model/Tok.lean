/-!
# Abstract tokenizer model (TokA)

A functional model of `srctools/tokenizer.py` (`Tokenizer._get_token`, `_handle_comment`,
`_handle_string`, `escape_text`) over the *remaining character list*.  "Push back one character"
(`self._char_index -= 1`) is modelled as "do not consume".  The chunked cursor (`_next_char`) is
modelled separately in `Model/TokC.lean` and related to this model by a refinement theorem.

Everything is parameterised by the tables extracted from the source (`Gen/Tok.lean`).
Core Lean only: this file is linked into the compiled drivers.
-/

namespace Tok

/-- Tables extracted from tokenizer.py. -/
structure Tables where
  /-- `ESCAPES` as (symbol, character) pairs in dict order. -/
  escapes : List (Char × Char)
  /-- characters excluded from `ESCAPE_RE` (`'?/'`). -/
  exclSingle : List Char
  /-- characters excluded from `ESCAPE_MULTILINE_RE` (`'?/\n'`). -/
  exclMulti : List Char
  /-- `_OPERATORS` as (character, token code) pairs. -/
  operators : List (Char × Nat)
  /-- `BARE_DISALLOWED`. -/
  bareDisallowed : List Char
deriving Repr

structure Opts where
  stringBracket : Bool := false
  stringParens : Bool := true
  allowEscapes : Bool := true
  allowStarComments : Bool := false
  preserveComments : Bool := false
  colonOperator : Bool := false
  plusOperator : Bool := false
deriving Repr, DecidableEq

/-- Token kinds; `code` is the value of the Python `Token` enum member. -/
inductive Kind
  | eof | string | newline | parenArgs | directive | comment
  | braceOpen | braceClose | parenOpen | parenClose
  | propFlag | brackOpen | brackClose | colon | equals | plus | comma
deriving Repr, DecidableEq

def Kind.code : Kind → Nat
  | .eof => 0 | .string => 1 | .newline => 2 | .parenArgs => 3 | .directive => 4 | .comment => 5
  | .braceOpen => 6 | .braceClose => 7 | .parenOpen => 8 | .parenClose => 9
  | .propFlag => 11 | .brackOpen => 12 | .brackClose => 13
  | .colon => 14 | .equals => 15 | .plus => 16 | .comma => 17

def Kind.ofCode : Nat → Option Kind
  | 0 => some .eof | 1 => some .string | 2 => some .newline | 3 => some .parenArgs
  | 4 => some .directive | 5 => some .comment | 6 => some .braceOpen | 7 => some .braceClose
  | 8 => some .parenOpen | 9 => some .parenClose | 11 => some .propFlag | 12 => some .brackOpen
  | 13 => some .brackClose | 14 => some .colon | 15 => some .equals | 16 => some .plus
  | 17 => some .comma | _ => none

/-- Error messages of the tokenizer, one constructor per `self.error(...)` site. -/
inductive Err
  | eolInBracket | nestBracket | untermFlag | nestParen | untermParen
  | noOpenBracket | noOpenParen
  | unexpectedChar (c : Char)
  | unclosedComment (start : Nat) | starNotAllowed | singleSlash (star : Bool)
  | noCharToEscape | untermString
  | outOfFuel
deriving Repr, DecidableEq

def Err.code : Err → Nat × Nat
  | .eolInBracket => (1, 0) | .nestBracket => (2, 0) | .untermFlag => (3, 0)
  | .nestParen => (4, 0) | .untermParen => (5, 0) | .noOpenBracket => (6, 0)
  | .noOpenParen => (7, 0) | .unexpectedChar c => (8, c.toNat)
  | .unclosedComment s => (9, s) | .starNotAllowed => (10, 0)
  | .singleSlash b => (11, if b then 1 else 0)
  | .noCharToEscape => (12, 0) | .untermString => (13, 0) | .outOfFuel => (99, 0)

/-- Mutable tokenizer state other than the input position. -/
structure St where
  line : Nat := 1
  lastCr : Bool := false
deriving Repr, DecidableEq

/-- Result of a sub-scanner: value, new line number, remaining input; or error at a line. -/
inductive Scan (α : Type)
  | ok (v : α) (line : Nat) (rest : List Char)
  | err (e : Err) (line : Nat)
deriving Repr, DecidableEq

/-! ## escape_text -/

/-- `ESCAPES[sym]`. -/
def Tables.unescape (T : Tables) (sym : Char) : Option Char :=
  (T.escapes.find? (·.1 == sym)).map (·.2)

/-- `ESCAPES_INV[c]` — the dict comprehension keeps the *last* symbol for a repeated image. -/
def Tables.invSym (T : Tables) (c : Char) : Option Char :=
  (T.escapes.reverse.find? (·.2 == c)).map (·.1)

def Tables.excl (T : Tables) (multiline : Bool) : List Char :=
  if multiline then T.exclMulti else T.exclSingle

/-- Replacement of one character by `escape_text`. -/
def escChar (T : Tables) (ml : Bool) (c : Char) : List Char :=
  if (T.excl ml).contains c then [c]
  else match T.invSym c with
    | some sym => ['\\', sym]
    | none => [c]

/-- `escape_text(text, multiline)`: the regex is an alternation of single characters, so the
substitution is character-wise. -/
def escapeText (T : Tables) (ml : Bool) : List Char → List Char
  | [] => []
  | c :: cs => escChar T ml c ++ escapeText T ml cs

/-! ## `_handle_string` -/

/-- `_handle_string`, entered after the opening quote. `acc` is `value_chars` reversed. -/
def handleString (T : Tables) (allowEsc : Bool) :
    List Char → List Char → Bool → Nat → Scan (List Char)
  | [], _, _, line => .err .untermString line
  | c :: cs, acc, lastCr, line =>
    if c = '"' then .ok acc.reverse line cs
    else if c = '\r' then handleString T allowEsc cs ('\n' :: acc) true (line + 1)
    else if c = '\n' then
      if lastCr then handleString T allowEsc cs acc false line
      else handleString T allowEsc cs ('\n' :: acc) false (line + 1)
    else if c = '\\' ∧ allowEsc then
      match cs with
      | [] => .err .noCharToEscape line
      | e :: cs' =>
        if e = '\n' then handleString T allowEsc cs' acc false line
        else match T.unescape e with
          | some r => handleString T allowEsc cs' (r :: acc) false line
          | none => handleString T allowEsc cs' (e :: '\\' :: acc) false line
    else handleString T allowEsc cs (c :: acc) false line

/-! ## other sub-scanners -/

/-- `[flag]` body (string_bracket mode), after the `[`. -/
def scanBracket : List Char → List Char → Nat → Scan (List Char)
  | [], _, line => .err .untermFlag line
  | c :: cs, acc, line =>
    if c = ']' then .ok acc.reverse line cs
    else if c = '\n' then .err .eolInBracket line
    else if c = '[' then .err .nestBracket line
    else scanBracket cs (c :: acc) line

/-- `(args)` body (string_parens mode), after the `(`. -/
def scanParen : List Char → List Char → Nat → Scan (List Char)
  | [], _, line => .err .untermParen line
  | c :: cs, acc, line =>
    if c = ')' then .ok acc.reverse line cs
    else if c = '\n' then scanParen cs (c :: acc) (line + 1)
    else if c = '(' then .err .nestParen line
    else scanParen cs (c :: acc) line

/-- Does this character terminate a bare string / directive? -/
def isBareEnd (T : Tables) (o : Opts) (c : Char) : Bool :=
  T.bareDisallowed.contains c || (c == ':' && o.colonOperator) || (c == '+' && o.plusOperator)

/-- Bare string / directive body. The terminator is *not* consumed (push-back).
`fold` is applied to each character (identity for bare strings, `str.casefold` for directives). -/
def scanBare (T : Tables) (o : Opts) (fold : Char → List Char) :
    List Char → List Char → List Char × List Char
  | [], acc => (acc.reverse, [])
  | c :: cs, acc =>
    if isBareEnd T o c then (acc.reverse, c :: cs)
    else scanBare T o fold cs ((fold c).reverse ++ acc)

/-- `//` comment body, after the second slash. The terminating LF is not consumed. -/
def scanLineComment : List Char → List Char → List Char × List Char
  | [], acc => (acc.reverse, [])
  | c :: cs, acc =>
    if c = '\n' then (acc.reverse, c :: cs)
    else scanLineComment cs (c :: acc)

/-- `/* */` comment body, after the `/*`. `start` is the line the comment began on.
A `*` not followed by `/` is dropped from the text and the following character re-read. -/
def scanStarComment (start : Nat) : List Char → List Char → Nat → Scan (List Char)
  | [], _, line => .err (.unclosedComment start) line
  | c :: cs, acc, line =>
    if c = '\n' then scanStarComment start cs (c :: acc) (line + 1)
    else if c = '*' then
      match cs with
      | [] => .err (.unclosedComment start) line
      | d :: cs' =>
        if d = '/' then .ok acc.reverse line cs'
        else scanStarComment start (d :: cs') acc line
    else scanStarComment start cs (c :: acc) line

/-! ## `_get_token` -/

/-- One token, or an error. -/
inductive Res
  | tok (k : Kind) (v : List Char) (st : St) (rest : List Char)
  | err (e : Err) (line : Nat)
deriving Repr, DecidableEq

def Tables.operator (T : Tables) (c : Char) : Option Kind :=
  (T.operators.find? (·.1 == c)).bind (fun p => Kind.ofCode p.2)

/-- `_get_token`. `fold` models `str.casefold` on one character.  The fuel bounds the number of
iterations of the outer `while True` that produce no token (whitespace, LF after CR, BOM,
swallowed comments); `input.length + 1` always suffices (`C03_total`). -/
def nextToken (T : Tables) (o : Opts) (fold : Char → List Char) :
    Nat → St → List Char → Res
  | 0, st, _ => .err .outOfFuel st.line
  | _ + 1, st, [] => .tok .eof [] st []
  | fuel + 1, st, c :: cs =>
    match T.operator c with
    | some k => .tok k [c] st cs
    | none =>
    if c = '\r' then .tok .newline ['\n'] { line := st.line + 1, lastCr := true } cs
    else if c = '\n' then
      if st.lastCr then nextToken T o fold fuel { st with lastCr := false } cs
      else .tok .newline ['\n'] { st with line := st.line + 1 } cs
    else
    let st : St := { st with lastCr := false }
    if c = ' ' ∨ c = '\t' then nextToken T o fold fuel st cs
    else if c = '/' then
      match cs with
      | '*' :: cs' =>
        if o.allowStarComments then
          match scanStarComment st.line cs' [] st.line with
          | .err e l => .err e l
          | .ok v l rest =>
            if o.preserveComments then .tok .comment v { st with line := l } rest
            else nextToken T o fold fuel { st with line := l } rest
        else .err .starNotAllowed st.line
      | '/' :: cs' =>
        let (v, rest) := scanLineComment cs' []
        if o.preserveComments then .tok .comment v st rest
        else nextToken T o fold fuel st rest
      | _ => .err (.singleSlash o.allowStarComments) st.line
    else if c = '"' then
      match handleString T o.allowEscapes cs [] false st.line with
      | .err e l => .err e l
      | .ok v l rest => .tok .string v { st with line := l } rest
    else if c = '[' then
      if !o.stringBracket then .tok .brackOpen ['['] st cs
      else match scanBracket cs [] st.line with
        | .err e l => .err e l
        | .ok v l rest => .tok .propFlag v { st with line := l } rest
    else if c = '(' then
      if !o.stringParens then .tok .parenOpen ['('] st cs
      else match scanParen cs [] st.line with
        | .err e l => .err e l
        | .ok v l rest => .tok .parenArgs v { st with line := l } rest
    else if c = Char.ofNat 0xFEFF ∧ st.line = 1 then nextToken T o fold fuel st cs
    else if c = ':' ∧ o.colonOperator then .tok .colon [':'] st cs
    else if c = '+' ∧ o.plusOperator then .tok .plus ['+'] st cs
    else if c = ']' then
      if o.stringBracket then .err .noOpenBracket st.line else .tok .brackClose [']'] st cs
    else if c = ')' then
      if o.stringParens then .err .noOpenParen st.line else .tok .parenClose [')'] st cs
    else if c = '#' then
      let (v, rest) := scanBare T o fold cs []
      .tok .directive v st rest
    else if !T.bareDisallowed.contains c then
      let (v, rest) := scanBare T o (fun x => [x]) cs [c]
      .tok .string v st rest
    else .err (.unexpectedChar c) st.line

/-- An observed token: kind code, value, line number after the token. -/
structure Obs where
  kind : Nat
  value : List Char
  line : Nat
deriving Repr, DecidableEq

/-- The observable result of tokenizing to the end: the tokens up to and including the first EOF,
or the tokens up to an error together with the error. -/
structure Run where
  toks : List Obs
  err : Option (Err × Nat)
deriving Repr, DecidableEq

/-- Repeatedly call `nextToken` until EOF or error. Every non-EOF token consumes at least one
character, so `input.length + 1` outer steps suffice. -/
def runAux (T : Tables) (o : Opts) (fold : Char → List Char) :
    Nat → St → List Char → List Obs → Run
  | 0, st, _, acc => { toks := acc.reverse, err := some (.outOfFuel, st.line) }
  | n + 1, st, inp, acc =>
    match nextToken T o fold (inp.length + 1) st inp with
    | .err e l => { toks := acc.reverse, err := some (e, l) }
    | .tok k v st' rest =>
      let ob : Obs := { kind := k.code, value := v, line := st'.line }
      if k = .eof then { toks := (ob :: acc).reverse, err := none }
      else runAux T o fold n st' rest (ob :: acc)

def run (T : Tables) (o : Opts) (fold : Char → List Char) (inp : List Char) : Run :=
  runAux T o fold (inp.length + 2) {} inp []

end Tok
