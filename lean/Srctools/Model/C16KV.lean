import Srctools.Model.C16
/-!
# C16 (iv) — keyvalue and I/O definition lines of the FGD text syntax

Model of `srctools/fgd.py` on top of the shared tokenizer model:

* `exportKV`  = `KVDef.export` (text, as coded incl. the `""`/quoting/escaping repairs), `exportIO` = `IODef.export`
* `parseKV`   = `KVDef._parse` over the token stream (`read_tags`, value-type lookup, `readonly`/`report`,
  `_read_colon_list`, `_parse_colon_array` with `_parse_choices` / `_parse_flags`), `parseIO` = `IODef._parse`
* `exportBody`/`parseBody` = the keyvalue / input / output part of `EntityDef.export` and the body loop of
  `EntityDef.parse` (no `@resources`, no snippets)
* `decodeUnits` = what `Tokenizer._handle_string` yields for the inside of a quoted string (stateless form),
  `insidePair` = "this text ends between a backslash and the character it escapes".
* `kvToks`, `ioToks`, … : the token sequences these texts are claimed (and proved, Proofs/C16KV*.lean) to
  lex to — specification helpers, not part of the modelled code.

Value types are positions in `TypeTab.values` (the `.value` texts of `ValueTypes`, tools/gen_fgdw.py);
`str.casefold`, `str.upper` are parameters (`fold`, `up`), `str.strip`/`lstrip` remove the characters of `str.isspace`.
Core Lean only (linked into drv_c16).
-/
namespace C16.KV
open Tok C16

abbrev Str := List Char

/-! ## what the tokenizer reads from the inside of a quoted string -/

/-- `_handle_string` on text without a raw double quote / raw line feed, as a function of the text alone. -/
def decodeUnits (T : Tables) : Str → Str
  | [] => []
  | '\\' :: e :: t =>
    (if e = '\n' then [] else match T.unescape e with
      | some r => [r]
      | none => ['\\', e]) ++ decodeUnits T t
  | c :: t => (if c = '\r' then '\n' else c) :: decodeUnits T t

/-- Does the text end between a backslash and the character it escapes (reading left to right)? -/
def insidePair : Str → Bool
  | [] => false
  | ['\\'] => true
  | '\\' :: _ :: t => insidePair t
  | _ :: t => insidePair t

/-! ## records -/

structure TypeTab where
  /-- `.value` of every `ValueTypes` member, by canonical position -/
  values : List Str
  /-- `VALUE_TYPE_LOOKUP` (value text → position), including the extra aliases -/
  lookup : List (Str × Nat)
  /-- text `IODef.export` writes for each position (`bool`, else the decayed type's value) -/
  ioText : List Str
  spawnflags : Nat
  choices : Nat
  bool : Nat
  /-- position of `ValueTypes.EHANDLE` (the deprecated I/O spelling `ehandle`) -/
  ehandle : Nat
deriving Repr

structure Choice where
  value : Str
  name : Str
  tags : List Str
deriving Repr, DecidableEq

structure Flag where
  mask : Nat
  name : Str
  dflt : Bool
  tags : List Str
deriving Repr, DecidableEq

inductive Vals
  | none
  | choices (l : List Choice)
  | flags (l : List Flag)
deriving Repr, DecidableEq

structure KVRec where
  name : Str
  typ : Nat
  disp : Str
  default : Str
  desc : Str
  vals : Vals
  readonly : Bool
  reportable : Bool
deriving Repr, DecidableEq

structure IORec where
  name : Str
  typ : Nat
  desc : Str
deriving Repr, DecidableEq

/-- Everything the writer needs besides the record. -/
structure ExpCfg where
  long : LongCfg
  T : Tables
  tt : TypeTab
  /-- `custom_syntax` -/
  ext : Bool
  /-- `label_spawnflags` -/
  label : Bool

/-! ## text helpers -/

def sReadonly : Str := ['r', 'e', 'a', 'd', 'o', 'n', 'l', 'y']
def sReport : Str := ['r', 'e', 'p', 'o', 'r', 't']
def sInput : Str := ['i', 'n', 'p', 'u', 't']
def sOutput : Str := ['o', 'u', 't', 'p', 'u', 't']
def sEhandle : Str := ['e', 'h', 'a', 'n', 'd', 'l', 'e']
def sResources : Str := ['@', 'r', 'e', 's', 'o', 'u', 'r', 'c', 'e', 's']
def sYes : Str := ['y', 'e', 's']
def sNo : Str := ['n', 'o']
def digitsMinus : Str := ['0', '1', '2', '3', '4', '5', '6', '7', '8', '9', '-']
def numberChars : Str := ['0', '1', '2', '3', '4', '5', '6', '7', '8', '9', '-', '.']

/-- `str(n)` for a non-negative int. -/
def natDigitsAux : Nat → Nat → Str → Str
  | 0, _, acc => acc
  | fuel + 1, n, acc =>
    let acc' := Char.ofNat (48 + n % 10) :: acc
    if n < 10 then acc' else natDigitsAux fuel (n / 10) acc'

def natText (n : Nat) : Str := natDigitsAux (n + 1) n []

/-- `int(s)` for plain ASCII digits (anything else: none). -/
def parseNat? (s : Str) : Option Nat :=
  if s.isEmpty then none
  else s.foldl (fun acc c => match acc with
    | none => none
    | some v => if '0' ≤ c ∧ c ≤ '9' then some (v * 10 + (c.toNat - 48)) else none) (some 0)

/-- `', '.join(sorted(tags))` in brackets (the list is given sorted). -/
def tagsText (tags : List Str) : Str := '[' :: (joinWith [',', ' '] tags ++ [']'])

def isDigit (c : Char) : Bool := decide ('0' ≤ c) && decide (c ≤ '9')

/-- `float(v)` succeeds and every character is one of `0123456789-.`:
an optional leading minus, digits with at most one dot, at least one digit. -/
def isPlainNumber (v : Str) : Bool :=
  let body := match v with | '-' :: t => t | t => t
  body.all (fun c => isDigit c || c == '.') && body.any isDigit && (body.filter (· == '.')).length ≤ 1

def replaceNl (s : Str) : Str := s.map fun c => if c = '\n' then ' ' else c

def typeText (tt : TypeTab) (i : Nat) : Str := tt.values.getD i []

/-! ## `KVDef.export` -/

/-- The text written where a colon-list member that may be long goes. -/
def wls (c : ExpCfg) (ext : Bool) (indent s : Str) : Str := writeLongString c.long c.T ext indent s

def flagLine (c : ExpCfg) (f : Flag) : Str :=
  let nm := replaceNl f.name
  let shown := if c.label then '[' :: (natText f.mask ++ ']' :: ' ' :: nm) else nm
  '\t' :: '\t' :: (natText f.mask ++ ':' :: ' ' :: (wls c c.ext ['\t', '\t'] shown
    ++ (if f.dflt then [' ', ':', ' ', '1'] else [' ', ':', ' ', '0'])
    ++ (if !f.tags.isEmpty && c.ext then ' ' :: tagsText f.tags else []) ++ ['\n']))

def choiceValueText (c : ExpCfg) (v : Str) : Str :=
  if isPlainNumber v then v else quote (fgdEscape c.T c.ext v)

def choiceLine (c : ExpCfg) (ch : Choice) : Str :=
  '\t' :: '\t' :: (choiceValueText c ch.value ++ ':' :: ' ' :: (wls c false ['\t', '\t'] (replaceNl ch.name)
    ++ (if !ch.tags.isEmpty && c.ext then ' ' :: tagsText ch.tags else []) ++ ['\n']))

def listOpen : Str := [' ', '=', '\n', '\t', '\t', '[', '\n']
def listClose : Str := ['\t', '\t', ']']

def defaultText (c : ExpCfg) (d : Str) : Str :=
  if d.all (digitsMinus.contains ·) then d else quote (fgdEscape c.T c.ext d)

/-- `KVDef.export(file, tags, label_spawnflags, custom_syntax)`. -/
def exportKV (c : ExpCfg) (tags : List Str) (k : KVRec) : Str :=
  let head := '\t' :: (k.name ++ (if !tags.isEmpty && c.ext then tagsText tags else [])
    ++ '(' :: (typeText c.tt k.typ ++ [')', ' ']))
    ++ (if k.readonly then sReadonly ++ [' '] else [])
    ++ (if k.reportable then sReport ++ [' '] else [])
  let disp := if k.typ ≠ c.tt.spawnflags then ':' :: ' ' :: wls c c.ext ['\t'] k.disp else []
  let d := if k.default.isEmpty && k.typ = c.tt.bool then ['0'] else k.default
  let mid :=
    if !d.isEmpty then
      [' ', ':', ' '] ++ defaultText c d ++ (if !k.desc.isEmpty then [' ', ':', ' '] else [])
    else (if !k.desc.isEmpty then [' ', ':', ' ', ':', ' '] else [])
  let desc := if !k.desc.isEmpty then wls c c.ext ['\t'] k.desc else []
  let lst :=
    if k.typ = c.tt.spawnflags then
      listOpen ++ (match k.vals with | .flags l => l.flatMap (flagLine c) | _ => []) ++ listClose
    else if k.typ = c.tt.choices then
      listOpen ++ (match k.vals with | .choices l => l.flatMap (choiceLine c) | _ => []) ++ listClose
    else []
  head ++ disp ++ mid ++ desc ++ lst ++ ['\n']

/-- `IODef.export(file, io_type, tags, custom_syntax)`; `kw` is `input` / `output`. -/
def exportIO (c : ExpCfg) (kw : Str) (tags : List Str) (io : IORec) : Str :=
  '\t' :: (kw ++ ' ' :: (io.name ++ (if c.ext && !tags.isEmpty then tagsText tags else [])
    ++ '(' :: (c.tt.ioText.getD io.typ [] ++ [')'])
    ++ (if !io.desc.isEmpty then ' ' :: ':' :: ' ' :: wls c c.ext ['\t'] io.desc else []) ++ ['\n']))

/-! ## parsing (token level) -/

inductive PErr
  | colon (e : RErr)
  | unexpected (k : Kind)
  | unknownType
  | tooManyAttrs
  | badFlag
  | noList
  | hasList
  | badChoice
  | snippet
  | tags
  | eof
deriving Repr, DecidableEq

def PErr.code : PErr → Nat
  | .colon _ => 1 | .unexpected _ => 2 | .unknownType => 3 | .tooManyAttrs => 4 | .badFlag => 5
  | .noList => 6 | .hasList => 7 | .badChoice => 8 | .snippet => 9 | .tags => 10 | .eof => 11

/-- String functions of the parser that are parameters of the model. -/
structure ParseCfg where
  tt : TypeTab
  /-- `str.casefold` on one character -/
  fold : Char → List Char
  /-- `str.upper` on one character -/
  up : Char → List Char

def ParseCfg.foldStr (P : ParseCfg) (s : Str) : Str := s.flatMap P.fold
def ParseCfg.upStr (P : ParseCfg) (s : Str) : Str := s.flatMap P.up

/-- `str.isspace` on one character: what `str.strip()` / `str.lstrip()` remove. -/
def isBlank (c : Char) : Bool :=
  c == ' ' || c == '\t' || c == '\n' || c == '\r' || c == '\x0b' || c == '\x0c' ||
  (0x1c ≤ c.toNat && c.toNat ≤ 0x1f) || c.toNat == 0x85 || c.toNat == 0xa0 || c.toNat == 0x1680 ||
  (0x2000 ≤ c.toNat && c.toNat ≤ 0x200a) || c.toNat == 0x2028 || c.toNat == 0x2029 || c.toNat == 0x202f ||
  c.toNat == 0x205f || c.toNat == 0x3000

def lstrip (s : Str) : Str := s.dropWhile isBlank
def strip (s : Str) : Str := (lstrip (lstrip s).reverse).reverse

/-- `t.lstrip('!-+')` -/
def lstripTagPrefix (s : Str) : Str := s.dropWhile fun c => c == '!' || c == '-' || c == '+'

/-- `read_tags(tok)` after the `[`; returns the tags in file order. -/
def readTags (P : ParseCfg) : List Tk → List Str → Bool → Except PErr (List Str × List Tk)
  | [], _, _ => .error .eof
  | (k, v) :: rest, tags, pre =>
    match k with
    | .string => readTags P rest (tags ++ [(if pre then ['+'] else []) ++ P.foldStr v]) false
    | .plus => if pre then .error .tags else readTags P rest tags true
    | .comma => readTags P rest tags pre
    | .eof => .error .tags
    | .brackClose =>
      if pre then .error .tags
      else
        let keys := tags.map fun t => P.upStr (lstripTagPrefix t)
        if keys.eraseDups.length ≠ tags.length then .error .tags
        else .ok (tags.map P.upStr, rest)
    | _ => .error (.unexpected k)

def lookupType (P : ParseCfg) (raw : Str) : Option Nat :=
  (P.tt.lookup.find? (·.1 == P.foldStr raw)).map (·.2)

/-- `tok.expect(kind)` with newline skipping. -/
def expectKind (kind : Kind) : List Tk → Option (Str × List Tk)
  | (.newline, v) :: rest => if kind = .newline then some (v, rest) else expectKind kind rest
  | (k, v) :: rest => if k = kind then some (v, rest) else none
  | [] => none

/-- `_parse_flags(tok, …, first_value, vals, tags)` -/
def parseFlag (first : Str) (vals : List Str) (tags : List Str) : Except PErr Flag :=
  match parseNat? first with
  | none => .error .badFlag
  | some n =>
    if n = 0 ∨ 2 ^ Nat.log2 n ≠ n then .error .badFlag
    else
      let mk (name : Str) (d : Bool) : Flag :=
        let gen := '[' :: (natText n ++ [']'])
        let name' := if gen.isPrefixOf name then lstrip (name.drop gen.length) else name
        { mask := n, name := name', dflt := d, tags := tags }
      match vals with
      | [name, d] => .ok (mk name (strip d == ['1']))
      | [name] => .ok (mk name true)
      | _ => .error .badFlag

/-- `_parse_choices(…)` -/
def parseChoice (first : Str) (vals : List Str) (tags : List Str) : Except PErr Choice :=
  match vals with
  | [name] => .ok { value := first, name := name, tags := tags }
  | _ => .error .badChoice

/-- The loop of `_parse_colon_array` after the opening `[`. -/
def parseArrayLoop {α : Type} (P : ParseCfg) (item : Str → List Str → List Str → Except PErr α) :
    Nat → List Tk → List α → Except PErr (List α × List Tk)
  | 0, _, _ => .error .eof
  | _ + 1, [], _ => .error .eof
  | fuel + 1, (k, v) :: rest, acc =>
    match k with
    | .newline => parseArrayLoop P item fuel rest acc
    | .eof => .error .eof
    | .brackClose => .ok (acc, rest)
    | .directive => if v = ['s', 'n', 'i', 'p', 'p', 'e', 't'] then .error .snippet else .error (.unexpected k)
    | .string =>
      match readColonList (rest.length + 1) rest [] false with
      | .error e => .error (.colon e)
      | .ok (vals, rest1) =>
        match rest1 with
        | (.brackOpen, _) :: rest2 =>
          match readTags P rest2 [] false with
          | .error e => .error e
          | .ok (tags, rest3) =>
            match item v vals tags with
            | .error e => .error e
            | .ok a => parseArrayLoop P item fuel rest3 (acc ++ [a])
        | _ =>
          match item v vals [] with
          | .error e => .error e
          | .ok a => parseArrayLoop P item fuel rest1 (acc ++ [a])
    | _ => .error (.unexpected k)

/-- `_parse_colon_array(tok, …)`. -/
def parseArray {α : Type} (P : ParseCfg) (item : Str → List Str → List Str → Except PErr α)
    (toks : List Tk) : Except PErr (List α × List Tk) :=
  match toks with
  | (.directive, v) :: _ =>
    if v = ['s', 'n', 'i', 'p', 'p', 'e', 't'] then .error .snippet
    else .error (.unexpected .directive)
  | _ =>
    match expectKind .brackOpen toks with
    | none => .error (.unexpected .brackOpen)
    | some (_, rest) => parseArrayLoop P item (rest.length + 1) rest []

/-- `KVDef._parse(fgd, name, tok, …)` (the keyvalue's name token has been read by the caller).
Returns the tags, the keyvalue and the unconsumed tokens. -/
def parseKV (P : ParseCfg) (name : Str) (toks : List Tk) : Except PErr ((List Str × KVRec) × List Tk) :=
  -- value type parens, or tags first
  let r1 : Except PErr (List Str × Tk × List Tk) :=
    match toks with
    | (.brackOpen, _) :: rest =>
      match readTags P rest [] false with
      | .error e => .error e
      | .ok (tags, t :: rest') => .ok (tags, t, rest')
      | .ok (_, []) => .error .eof
    | t :: rest => .ok ([], t, rest)
    | [] => .error .eof
  match r1 with
  | .error e => .error e
  | .ok (tags, (vk, vv), rest1) =>
    if vk ≠ .parenArgs then .error (.unexpected vk) else
    let raw0 := strip vv
    let (rep0, raw) := match raw0 with | '*' :: t => (true, t) | t => (false, t)
    match lookupType P raw with
    | none => .error .unknownType
    | some typ =>
      -- readonly / report flags
      match rest1 with
      | [] => .error .eof
      | t1 :: rest2 =>
        let (ro, t2, rest3) : Bool × Tk × List Tk :=
          if t1.1 = .string ∧ P.foldStr t1.2 = sReadonly then
            match rest2 with | t :: r => (true, t, r) | [] => (true, (.eof, []), [])
          else (false, t1, rest2)
        let (rep, t3, rest4) : Bool × Tk × List Tk :=
          if t2.1 = .string ∧ P.foldStr t2.2 = sReport then
            match rest3 with | t :: r => (true, t, r) | [] => (true, (.eof, []), [])
          else (rep0, t2, rest3)
        -- the colon list
        let r2 : Except PErr (Option (List Str) × Bool × Option Kind) :=
          match t3.1 with
          | .colon => .ok (none, true, none)
          | .equals => if typ = P.tt.spawnflags then .ok (some [], false, some .equals) else .ok (none, false, none)
          | .newline => .ok (some [], false, some .newline)
          | k => .error (.unexpected k)
        match r2 with
        | .error e => .error e
        | .ok (kvVals0, hadColon, hasEq0) =>
          let r3 : Except PErr (List Str × Kind × List Tk) :=
            match kvVals0, hasEq0 with
            | some l, some he => .ok (l, he, rest4)
            | _, _ =>
              match readColonList (rest4.length + 1) rest4 [] hadColon with
              | .error e => .error (.colon e)
              | .ok (l, (k, _) :: rest5) => .ok (l, k, rest5)
              | .ok (l, []) => .ok (l, .eof, [])
          match r3 with
          | .error e => .error e
          | .ok (vals, hasEq, rest5) =>
            let attrs : Except PErr (Str × Str × Str) :=
              match vals with
              | [a, b, c] => .ok (a, b, c)
              | [a, b] => .ok (a, b, [])
              | [a] => .ok (a, [], [])
              | [] => .ok (name, [], [])
              | _ => .error .tooManyAttrs
            match attrs with
            | .error e => .error e
            | .ok (disp, dflt0, desc) =>
              let dflt :=
                if typ = P.tt.bool then
                  (if P.foldStr dflt0 = sYes then ['1'] else if P.foldStr dflt0 = sNo then ['0'] else dflt0)
                else dflt0
              let mk (v : Vals) : KVRec :=
                { name := name, typ := typ, disp := disp, default := dflt, desc := desc, vals := v,
                  readonly := ro, reportable := rep }
              if typ = P.tt.choices then
                if hasEq ≠ .equals then .error .noList
                else match parseArray P parseChoice rest5 with
                  | .error e => .error e
                  | .ok (l, rest6) => .ok ((tags, mk (.choices l)), rest6)
              else if typ = P.tt.spawnflags then
                if hasEq ≠ .equals then .error .noList
                else match parseArray P parseFlag rest5 with
                  | .error e => .error e
                  | .ok (l, rest6) => .ok ((tags, mk (.flags l)), rest6)
              else if hasEq = .equals then .error .hasList
              else .ok ((tags, mk .none), rest5)

/-- `IODef._parse(fgd, tok)` (after the `input` / `output` keyword). -/
def parseIO (P : ParseCfg) (toks : List Tk) : Except PErr ((List Str × IORec) × List Tk) :=
  match expectKind .string toks with
  | none => .error (.unexpected .string)
  | some (name, rest0) =>
    let r1 : Except PErr (List Str × Tk × List Tk) :=
      match rest0 with
      | (.brackOpen, _) :: rest =>
        match readTags P rest [] false with
        | .error e => .error e
        | .ok (tags, t :: rest') => .ok (tags, t, rest')
        | .ok (_, []) => .error .eof
      | t :: rest => .ok ([], t, rest)
      | [] => .error .eof
    match r1 with
    | .error e => .error e
    | .ok (tags, (_, vv), rest1) =>
      let raw := strip vv
      let typ? := if raw = sEhandle then some P.tt.ehandle else lookupType P raw
      match typ? with
      | none => .error .unknownType
      | some typ =>
        match readColonList (rest1.length + 1) rest1 [] false with
        | .error e => .error (.colon e)
        | .ok (vals, rest2) =>
          match rest2 with
          | (.newline, _) :: rest3 =>
            (match vals with
              | [] => .ok ((tags, { name := name, typ := typ, desc := [] }), rest3)
              | [d] => .ok ((tags, { name := name, typ := typ, desc := d }), rest3)
              | _ => .error .tooManyAttrs)
          | (k, _) :: _ => .error (.unexpected k)
          | [] => .error .eof

/-! ## the entity body as a list of lines -/

inductive Item
  | kv (tags : List Str) (k : KVRec)
  | inp (tags : List Str) (io : IORec)
  | out (tags : List Str) (io : IORec)
deriving Repr, DecidableEq

def Item.isKV : Item → Bool | .kv .. => true | _ => false
def Item.isInp : Item → Bool | .inp .. => true | _ => false
def Item.isOut : Item → Bool | .out .. => true | _ => false

def itemText (c : ExpCfg) : Item → Str
  | .kv tags k => exportKV c tags k
  | .inp tags io => exportIO c sInput tags io
  | .out tags io => exportIO c sOutput tags io

def inputsHeader : Str := "\n\t// Inputs\n".toList
def outputsHeader : Str := "\n\t// Outputs\n".toList

/-- The part of `EntityDef.export` between `\t[\n` and `\t]\n` for an entity without resources:
keyvalues, then inputs, then outputs (`items` is given in that order). -/
def exportBody (c : ExpCfg) (items : List Item) : Str :=
  let kvs := items.filter Item.isKV
  let ins := items.filter Item.isInp
  let outs := items.filter Item.isOut
  kvs.flatMap (itemText c)
    ++ (if ins.isEmpty then [] else inputsHeader ++ ins.flatMap (itemText c))
    ++ (if outs.isEmpty then [] else outputsHeader ++ outs.flatMap (itemText c))
    ++ ['\t', ']', '\n']

/-- The body loop of `EntityDef.parse` (keyvalues, inputs, outputs; `@resources` and snippets are errors). -/
def parseBody (P : ParseCfg) : Nat → List Tk → List Item → Except PErr (List Item × List Tk)
  | 0, _, _ => .error .eof
  | _ + 1, [], _ => .error .eof
  | fuel + 1, (k, v) :: rest, acc =>
    match k with
    | .brackClose => .ok (acc, rest)
    | .newline => parseBody P fuel rest acc
    | .string =>
      let kw := P.foldStr v
      if kw = sInput then
        match parseIO P rest with
        | .error e => .error e
        | .ok ((tags, io), rest') => parseBody P fuel rest' (acc ++ [.inp tags io])
      else if kw = sOutput then
        match parseIO P rest with
        | .error e => .error e
        | .ok ((tags, io), rest') => parseBody P fuel rest' (acc ++ [.out tags io])
      else if kw = sResources then .error .snippet
      else
        match parseKV P v rest with
        | .error e => .error e
        | .ok ((tags, kv), rest') => parseBody P fuel rest' (acc ++ [.kv tags kv])
    | .directive => .error .snippet
    | _ => .error (.unexpected k)

end C16.KV
