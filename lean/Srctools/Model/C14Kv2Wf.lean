import Srctools.Model.C14Kv2
/-!
# C14 / KeyValues2: decidable well-formedness predicates and the emission order

Everything here is executable and core-only (used by the driver to evaluate, for every generated
graph, the hypotheses of `C14_kv2`); the theorems are in `Proofs/C14Kv2*.lean`.
-/
namespace C14.Kv2
open C14 Tok

def elemLit : Str := ['e', 'l', 'e', 'm', 'e', 'n', 't']
def idLit : Str := ['i', 'd']
def elementidLit : Str := ['e', 'l', 'e', 'm', 'e', 'n', 't', 'i', 'd']
def nameLit : Str := ['n', 'a', 'm', 'e']
def stringLit : Str := ['s', 't', 'r', 'i', 'n', 'g']
def arrayLit : Str := ['_', 'a', 'r', 'r', 'a', 'y']

/-- An element type that `_parse_kv2_element` takes for an inline element (not a value type, not
the id marker, not the literal `element`). -/
def inlineTypeOK (T : Tables) (fold : Str → Str) (ty : Str) : Bool :=
  let ft := fold ty
  let base := match endsWithArray ft with | some b => b | none => ft
  (vtOfName T base).isNone && ft != elementidLit && ty != elemLit

/-- the elements written inline inside element `e`. -/
def inlineKids (g : TGraph) (flat : Bool) (e : TElem) : List Nat :=
  e.attrs.flatMap fun a => a.vals.filterMap fun v =>
    match v with
    | .ref (.idx j) => if isRoot g flat j then none else some j
    | _ => none

/-- the nesting below element `i` is exhausted within `fuel` levels (decidable). -/
def nestOK (g : TGraph) (flat : Bool) : Nat → Nat → Bool
  | 0, _ => false
  | fuel + 1, i =>
    match g.elems[i]? with
    | none => false
    | some e => (inlineKids g flat e).all (nestOK g flat fuel)

/-- shape conditions of the graph that lexing needs (decidable). -/
def lexWf (g : TGraph) : Bool :=
  g.elems.all fun e => uuidOK e.uuid && e.attrs.all fun a =>
    (a.isArray || a.vals.length == 1) && a.vals.all fun v =>
      match v with
      | .ref (.stub u) => uuidOK u
      | .ref (.idx j) => decide (j < g.elems.length)
      | _ => true

def typeAt (g : TGraph) (j : Nat) : Str := ((g.elems[j]?).map (·.type)).getD []

def valWf (T : Tables) (fold : Str → Str) (g : TGraph) (flat : Bool) (t : VT) : TVal → Bool
  | .text _ => t != .element
  | .ref .null => t == .element
  | .ref (.stub u) => t == .element && uuidOK u
  | .ref (.idx j) => t == .element && decide (j < g.elems.length) &&
      (isRoot g flat j || inlineTypeOK T fold (typeAt g j))

/-- every UUID is UUID text, no attribute is spelled `name`, a scalar has one value, values have
the kind their attribute type says, references are in range, and an element written inline has a
type the reader does not take for a value type. -/
def graphWf (T : Tables) (fold : Str → Str) (g : TGraph) (flat : Bool) : Bool :=
  g.elems.all fun e => uuidOK e.uuid && e.attrs.all fun a =>
    a.name != nameLit && (a.isArray || a.vals.length == 1) && a.vals.all (valWf T fold g flat a.type)

/-- the elements written at the top level, in file order. -/
def roots (g : TGraph) (flat : Bool) : List Nat :=
  (List.range g.elems.length).filter (isRoot g flat)

/-- the inline children named by a list of values / attributes. -/
def kidsOfVals (g : TGraph) (flat : Bool) (vals : List TVal) : List Nat :=
  vals.filterMap fun v =>
    match v with
    | .ref (.idx j) => if isRoot g flat j then none else some j
    | _ => none

def kidsOfAttrs (g : TGraph) (flat : Bool) (as : List TAttr) : List Nat :=
  as.flatMap fun a => kidsOfVals g flat a.vals

/-- emission order below element `i`: `i`, then the orders of its inline children. -/
def orderOf (g : TGraph) (flat : Bool) : Nat → Nat → List Nat
  | 0, _ => []
  | fuel + 1, i =>
    match g.elems[i]? with
    | none => []
    | some e => i :: (inlineKids g flat e).flatMap (orderOf g flat fuel)

/-- for each node of the parsed forest (preorder), the element it is a copy of. -/
def order (g : TGraph) (flat : Bool) : List Nat :=
  (roots g flat).flatMap (orderOf g flat (g.elems.length + 1))

/-- distinct elements have distinct UUIDs, and no stub carries the UUID of an element (decidable). -/
def uuidsOK (g : TGraph) : Bool :=
  decide ((g.elems.map (·.uuid)).Nodup) &&
  g.elems.all fun e => e.attrs.all fun a => a.vals.all fun v =>
    match v with
    | .ref (.stub u) => !(g.elems.map (·.uuid)).contains u
    | _ => true

/-- the characters of all type names and the fixed words of the syntax. -/
def nameChars (T : Tables) : List Char :=
  (VT.all.flatMap (typeName T)) ++ arrayLit ++ stringLit ++ elementidLit

/-- table-only part of `NameFacts` (decidable). -/
def namesOK (T : Tables) : Bool :=
  VT.all.all (fun t =>
    (endsWithArray (typeName T t)).isNone && endsWithArray (typeName T t ++ arrayLit) == some (typeName T t) &&
    vtOfName T (typeName T t) == some t && typeName T t != elementidLit &&
    (typeName T t ++ arrayLit) != elementidLit) &&
  typeName T .element == elemLit

def isHexDash (c : Char) : Bool :=
  c == '-' || c.isDigit || ('a' ≤ c && c ≤ 'f') || ('A' ≤ c && c ≤ 'F')

/-- decidable part of `PlainFacts`: the fixed words and the type names are their own
`escape_text`, and no escape of the table produces a hex digit or a dash. -/
def plainOK (E : Tok.Tables) (T : Tables) : Bool :=
  [idLit, elementidLit, nameLit, stringLit, elemLit].all (fun s => escapeText E false s == s) &&
  VT.all.all (fun t => escapeText E false (typeName T t) == typeName T t &&
    escapeText E false (typeName T t ++ arrayLit) == typeName T t ++ arrayLit) &&
  E.escapes.all (fun p => !isHexDash p.2)

/-- every element index occurs exactly once in the emission order (decidable; always true for the
flat layout, see `order_flat`). -/
def orderOK (g : TGraph) (flat : Bool) : Bool :=
  (order g flat).length == g.elems.length &&
  (List.range g.elems.length).all fun x => (order g flat).count x == 1

/-- all roots can be written within the fuel (decidable). -/
def nestAllOK (g : TGraph) (flat : Bool) : Bool :=
  (roots g flat).all fun i => nestOK g flat (g.elems.length + 1) i

/-! ## canonical numbering (what the export traversal produces) -/

def TVal.idx? : TVal → Option Nat
  | .ref (.idx j) => some j
  | _ => none

/-- all element references of an element, in attribute/value order. -/
def TElem.refs (e : TElem) : List Nat := e.attrs.flatMap fun a => a.vals.filterMap TVal.idx?

def refsAtT (g : TGraph) (i : Nat) : List Nat :=
  match g.elems[i]? with
  | some e => e.refs
  | none => []

/-- every element but the first is referenced by an element with a smaller index — the numbering
that the `for elem in elements: … append` traversal produces (each element is appended while an
earlier one is processed); in particular every element is reachable from element 0. Decidable. -/
def bfsOrdered (g : TGraph) : Bool :=
  (List.range g.elems.length).all fun j =>
    j == 0 || (List.range j).any fun i => (refsAtT g i).contains j

/-! ## numbering a heap graph with text values (the same traversal as for binary values) -/

/-- `elements` of `export_kv2`, as locations of the heap graph `h`. -/
def tnumber (h : TGraph) (root : Nat) : List Nat := numberOn (refsAtT h) h.elems.length root

def trelabelVal (ord : List Nat) : TVal → TVal
  | .ref (.idx k) => .ref (.idx (posOf ord k))
  | v => v

def trelabelElem (ord : List Nat) (e : TElem) : TElem :=
  { e with attrs := e.attrs.map fun a => { a with vals := a.vals.map (trelabelVal ord) } }

/-- the indexed text graph that is written. -/
def tindexed (h : TGraph) (root : Nat) : TGraph :=
  let ord := tnumber h root
  { elems := ord.filterMap fun loc => (h.elems[loc]?).map (trelabelElem ord) }

def theapClosed (h : TGraph) : Bool :=
  h.elems.all fun e => e.refs.all fun k => decide (k < h.elems.length)

/-! ## sessions: a call's result depends on its argument only

The model has no state: every export / parse is a function of its argument.  A *session* is a list
of calls made one after the other; its results are the results of the calls taken alone.  (The
implementation is tied to this by the session search of harness/p_c14.py: any dependence of a result
on earlier calls, or any change of an earlier result, is reported as a failing session.) -/

inductive Call
  | exportBin (c : Cfg) (g : Graph)
  | parseBin (c : Cfg) (bs : Bytes)
  | exportKv2 (flat cull : Bool) (g : TGraph)
  | parseKv2 (text : Str)

inductive CallResult
  | bytes (b : Bytes)
  | graph (r : Except Err Graph)
  | text (s : Str)
  | nodes (r : Except String (List FNode))

def runCall (E : Tok.Tables) (T : Tables) (cfold : Char → List Char) : Call → CallResult
  | .exportBin c g => .bytes (encodeBin T c g)
  | .parseBin c bs => .graph (decodeBin T c bs)
  | .exportKv2 flat cull g => .text (emit E T flat cull g)
  | .parseKv2 text => .nodes (parse E T cfold text)

def runSession (E : Tok.Tables) (T : Tables) (cfold : Char → List Char) (calls : List Call) : List CallResult :=
  calls.map (runCall E T cfold)

end C14.Kv2
