import Srctools.Model.Tok
/-!
# C11 (iv) — entity lump text: `BSP.write_ent_data` / `BSP._lmp_read_ents` over the tokenizer model

Executable model only (tied to the implementation by the correspondence run; no round-trip theorem
beyond `C02_inverse`, which covers every quoted string on its own).

* `entWrite`: `{`, one `"key" "value"` line per keyvalue with both strings escaped in multi-line
  mode, the output lines as produced by `Output.as_keyvalue` (given here already formatted, `raw`),
  `}`, and a final NUL.
* `entRead`: the token loop of `_lmp_read_ents` — brace nesting, NUL end marker, key / value pairs,
  and the classification of a value as output (`\x1b` present), candidate output (exactly four
  commas) or plain keyvalue.  What `Output.parse` does with the fields is not modelled.
-/
namespace C11Ent
open Tok

structure Line where
  key : List Char
  value : List Char
  /-- output line: written verbatim between the quotes -/
  raw : Bool
deriving Repr, DecidableEq

def writeLine (T : Tables) (l : Line) : List Char :=
  if l.raw then '"' :: (l.key ++ ['"', ' ', '"'] ++ l.value ++ ['"', '\n'])
  else '"' :: (escapeText T true l.key ++ ['"', ' ', '"'] ++ escapeText T true l.value ++ ['"', '\n'])

def writeEnt (T : Tables) (e : List Line) : List Char :=
  ['{', '\n'] ++ (e.map (writeLine T)).flatten ++ ['}', '\n']

/-- `write_ent_data`: worldspawn first, then the entities, then a NUL byte. -/
def entWrite (T : Tables) (ents : List (List Line)) : List Char :=
  (ents.map (writeEnt T)).flatten ++ [Char.ofNat 0]

inductive RErr where
  | tokenizer (code : Nat × Nat) (line : Nat)
  | nested | tooManyClose | notWorldspawn | badToken (kind : Nat) | kvOutside
  | expected (want got : Nat) | lastEntOpen
deriving Repr, DecidableEq

/-- kind of a parsed line: 0 keyvalue, 1 output (0x1b separator), 2 four commas (output if it parses) -/
structure RLine where
  key : List Char
  value : List Char
  kind : Nat
deriving Repr, DecidableEq

def classify (v : List Char) : Nat :=
  if v.contains (Char.ofNat 0x1b) then 1 else if v.count ',' = 4 then 2 else 0

/-- `tok.expect(kind)` with newlines skipped: the next non-NEWLINE token -/
def expectTok : List Obs → Option (Obs × List Obs)
  | [] => none
  | t :: ts => if t.kind = Kind.newline.code then expectTok ts else some (t, ts)

def asciiLower (c : Char) : Char := if 'A' ≤ c ∧ c ≤ 'Z' then Char.ofNat (c.toNat + 32) else c

/-- `cur_ent['classname']` of the entity being closed: last assignment wins, keys compare
case-insensitively (ASCII keys only in this model), `''` when absent. -/
def classnameOf (e : List RLine) : List Char :=
  match (e.reverse.filter (fun l => l.kind = 0 ∨ l.kind = 2)).find? (fun l => l.key.map asciiLower == "classname".toList) with
  | some l => l.value
  | none => []

def defaultSpawn : List RLine := [{ key := "classname".toList, value := "worldspawn".toList, kind := 0 }]

/-- Result when the loop ends: `vmf.spawn` always exists (`VMF()` creates it with classname
worldspawn; a first entity that is still open at EOF has already updated it), later entities only
when they were closed. -/
def finish (cur : Option (List RLine)) (ents : List (List RLine)) : List (List RLine) :=
  if ents.isEmpty then [(cur.getD defaultSpawn).reverse] else ents.reverse

/-- The token loop. `cur` = lines of the open entity (newest first), `ents` = closed entities
(newest first). The `for` loop ends silently at EOF (an entity still open is dropped). -/
def readLoop : Nat → List Obs → Option (List RLine) → List (List RLine) → Except RErr (List (List RLine))
  | 0, _, cur, ents => .ok (finish cur ents)
  | fuel + 1, toks, cur, ents =>
    match toks with
    | [] => .ok (finish cur ents)
    | t :: ts =>
      if t.kind = Kind.eof.code then .ok (finish cur ents)
      else if t.kind = Kind.braceOpen.code then
        match cur with
        | some _ => .error .nested
        | none =>
          -- the first entity updates `vmf.spawn`, which `VMF()` creates with classname worldspawn
          readLoop fuel ts (some (if ents.isEmpty then defaultSpawn else [])) ents
      else if t.kind = Kind.braceClose.code then
        match cur with
        | none => .error .tooManyClose
        | some e =>
          if ents.isEmpty && classnameOf e.reverse != "worldspawn".toList then .error .notWorldspawn
          else readLoop fuel ts none (e.reverse :: ents)
      else if t.kind = Kind.newline.code then readLoop fuel ts cur ents
      else if t.kind ≠ Kind.string.code then .error (.badToken t.kind)
      else if t.value = [Char.ofNat 0] then
        match expectTok ts with
        | some (n, _) =>
          if n.kind ≠ Kind.eof.code then .error (.expected Kind.eof.code n.kind)
          else match cur with
            | some _ => .error .lastEntOpen
            | none => .ok (finish none ents)
        | none => .error (.expected Kind.eof.code 99)
      else
        match cur with
        | none => .error .kvOutside
        | some e =>
          match expectTok ts with
          | some (v, ts') =>
            if v.kind ≠ Kind.string.code then .error (.expected Kind.string.code v.kind)
            -- `Entity.__setitem__` refuses to turn the worldspawn entity into something else
            else if ents.isEmpty && classify v.value = 0 && t.value.map asciiLower == "classname".toList
                && v.value.map asciiLower != "worldspawn".toList then .error .notWorldspawn
            else readLoop fuel ts' (some ({ key := t.value, value := v.value, kind := classify v.value } :: e)) ents
          | none => .error (.expected Kind.string.code 99)

/-- `_lmp_read_ents` up to the structure of entities and lines. -/
def entRead (T : Tables) (fold : Char → List Char) (text : List Char) : Except RErr (List (List RLine)) :=
  let r := run T {} fold text
  match r.err with
  | some (e, l) =>
    -- tokens before the error are still processed by the loop; the error surfaces when reached
    match readLoop (r.toks.length + 1) r.toks none [] with
    | .error x => .error x
    | .ok _ => .error (.tokenizer e.code l)
  | none => readLoop (r.toks.length + 1) r.toks none []

end C11Ent
