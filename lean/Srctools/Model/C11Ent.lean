import Srctools.Model.Tok
/-!
# C11 (iv) — entity lump text: `BSP.write_ent_data` / `BSP._lmp_read_ents` over the tokenizer model

* `entWrite`: `{`, one `"key" "value"` line per keyvalue with both strings escaped in multi-line
  mode, one line per output exactly as `Output.as_keyvalue` builds it (name, target and input escaped
  in single-line mode, the parameter in multi-line mode, delay and times as already formatted text —
  `'%g' % delay` and `str(times)` are *not* modelled), `}`, and a final NUL.
* `entRead`: the token loop of `_lmp_read_ents` — brace nesting, NUL end marker, the default
  worldspawn of `VMF()`, the classname guard of `Entity.__setitem__`, key / value pairs, and the
  classification of a value as output (`\x1b` present), candidate output (exactly four commas) or
  plain keyvalue.
* `parseOut`: the field split of `Output.parse` (either separator, the "more than four commas are
  part of the parameter" rule); `float(delay)`, `int(times)` and `parse_name` are not modelled.

Round-trip theorems: `Proofs/C11Ent.lean`, `Props/C11.lean` (`C11_ents`).
-/
namespace C11Ent
open Tok

def sepEsc : Char := Char.ofNat 0x1b
def nul : Char := Char.ofNat 0

/-- The fields of one output as `as_keyvalue` sees them. -/
structure OutFields where
  /-- `exp_out()`: output name, with the `instance:…;` prefix if any -/
  name : List Char
  target : List Char
  /-- `exp_in()` -/
  input : List Char
  params : List Char
  /-- `f'{delay:g}'` -/
  delay : List Char
  /-- `str(times)` -/
  times : List Char
  commaSep : Bool
deriving Repr, DecidableEq

inductive Line where
  | kv (key value : List Char)
  | out (o : OutFields)
deriving Repr, DecidableEq

def OutFields.sep (o : OutFields) : Char := if o.commaSep then ',' else sepEsc

/-- the text between the second pair of quotes of an output line, before escaping -/
def OutFields.value (o : OutFields) : List Char :=
  o.target ++ o.sep :: (o.input ++ o.sep :: (o.params ++ o.sep :: (o.delay ++ o.sep :: o.times)))

/-- …and as written: every field escaped on its own, delay / times / separators raw -/
def OutFields.valueText (T : Tables) (o : OutFields) : List Char :=
  escapeText T false o.target ++ o.sep :: (escapeText T false o.input ++ o.sep ::
    (escapeText T true o.params ++ o.sep :: (o.delay ++ o.sep :: o.times)))

def writeLine (T : Tables) : Line → List Char
  | .kv k v => '"' :: (escapeText T true k ++ '"' :: ' ' :: '"' :: (escapeText T true v ++ ['"', '\n']))
  | .out o => '"' :: (escapeText T false o.name ++ '"' :: ' ' :: '"' :: (o.valueText T ++ ['"', '\n']))

def writeLines (T : Tables) : List Line → List Char
  | [] => []
  | l :: ls => writeLine T l ++ writeLines T ls

def writeEnt (T : Tables) (e : List Line) : List Char :=
  '{' :: '\n' :: (writeLines T e ++ ['}', '\n'])

def writeEnts (T : Tables) : List (List Line) → List Char
  | [] => []
  | e :: es => writeEnt T e ++ writeEnts T es

/-- `write_ent_data`: worldspawn first, then the entities, then a NUL byte. -/
def entWrite (T : Tables) (ents : List (List Line)) : List Char :=
  writeEnts T ents ++ [nul]

inductive RErr where
  | tokenizer (code : Nat × Nat) (line : Nat)
  | nested | tooManyClose | notWorldspawn | badToken (kind : Nat) | kvOutside
  | expected (want got : Nat) | lastEntOpen
deriving Repr, DecidableEq

/-- kind of a parsed line: 0 keyvalue, 1 output (0x1b separator), 2 four commas (output if it parses) -/
structure RLine where
  key : List Char
  value : List Char
  kind : Nat
deriving Repr, DecidableEq

def classify (v : List Char) : Nat :=
  if v.contains sepEsc then 1 else if v.count ',' = 4 then 2 else 0

/-- a token as the reader sees it: kind code and value -/
abbrev TK := Nat × List Char

/-- `tok.expect(kind)` with newlines skipped: the next non-NEWLINE token -/
def expectTok : List TK → Option (TK × List TK)
  | [] => none
  | t :: ts => if t.1 = Kind.newline.code then expectTok ts else some (t, ts)

def asciiLower (c : Char) : Char := if 'A' ≤ c ∧ c ≤ 'Z' then Char.ofNat (c.toNat + 32) else c

def classnameKey : List Char := ['c', 'l', 'a', 's', 's', 'n', 'a', 'm', 'e']
def worldspawn : List Char := ['w', 'o', 'r', 'l', 'd', 's', 'p', 'a', 'w', 'n']

/-- `cur_ent['classname']` of the entity being closed: last assignment wins, keys compare
case-insensitively (ASCII keys only in this model), `''` when absent. `e` is oldest first. -/
def classnameOf (e : List RLine) : List Char :=
  match (e.reverse.filter (fun l => l.kind = 0 ∨ l.kind = 2)).find? (fun l => l.key.map asciiLower == classnameKey) with
  | some l => l.value
  | none => []

def defaultSpawn : List RLine := [{ key := classnameKey, value := worldspawn, kind := 0 }]

/-- Result when the loop ends: `vmf.spawn` always exists (`VMF()` creates it with classname
worldspawn; a first entity that is still open at EOF has already updated it), later entities only
when they were closed. -/
def finish (cur : Option (List RLine)) (ents : List (List RLine)) : List (List RLine) :=
  if ents.isEmpty then [(cur.getD defaultSpawn).reverse] else ents.reverse

/-- The token loop. `cur` = lines of the open entity (newest first), `ents` = closed entities
(newest first). The `for` loop ends silently at EOF (an entity still open is dropped). -/
def readLoop : Nat → List TK → Option (List RLine) → List (List RLine) → Except RErr (List (List RLine))
  | 0, _, cur, ents => .ok (finish cur ents)
  | fuel + 1, toks, cur, ents =>
    match toks with
    | [] => .ok (finish cur ents)
    | t :: ts =>
      if t.1 = Kind.eof.code then .ok (finish cur ents)
      else if t.1 = Kind.braceOpen.code then
        match cur with
        | some _ => .error .nested
        | none =>
          -- the first entity updates `vmf.spawn`, which `VMF()` creates with classname worldspawn
          readLoop fuel ts (some (if ents.isEmpty then defaultSpawn else [])) ents
      else if t.1 = Kind.braceClose.code then
        match cur with
        | none => .error .tooManyClose
        | some e =>
          if ents.isEmpty && classnameOf e.reverse != worldspawn then .error .notWorldspawn
          else readLoop fuel ts none (e.reverse :: ents)
      else if t.1 = Kind.newline.code then readLoop fuel ts cur ents
      else if t.1 ≠ Kind.string.code then .error (.badToken t.1)
      else if t.2 = [nul] then
        match expectTok ts with
        | some (n, _) =>
          if n.1 ≠ Kind.eof.code then .error (.expected Kind.eof.code n.1)
          else match cur with
            | some _ => .error .lastEntOpen
            | none => .ok (finish none ents)
        | none => .error (.expected Kind.eof.code 99)
      else
        match cur with
        | none => .error .kvOutside
        | some e =>
          match expectTok ts with
          | some (v, ts') =>
            if v.1 ≠ Kind.string.code then .error (.expected Kind.string.code v.1)
            -- `Entity.__setitem__` refuses to turn the worldspawn entity into something else
            else if ents.isEmpty && classify v.2 = 0 && t.2.map asciiLower == classnameKey
                && v.2.map asciiLower != worldspawn then .error .notWorldspawn
            else readLoop fuel ts' (some ({ key := t.2, value := v.2, kind := classify v.2 } :: e)) ents
          | none => .error (.expected Kind.string.code 99)

def tkOf (t : Obs) : TK := (t.kind, t.value)

/-- `_lmp_read_ents` up to the structure of entities and lines. -/
def entRead (T : Tables) (fold : Char → List Char) (text : List Char) : Except RErr (List (List RLine)) :=
  let r := run T {} fold text
  match r.err with
  | some (e, l) =>
    -- tokens before the error are still processed by the loop; the error surfaces when reached
    match readLoop (r.toks.length + 1) (r.toks.map tkOf) none [] with
    | .error x => .error x
    | .ok _ => .error (.tokenizer e.code l)
  | none => readLoop (r.toks.length + 1) (r.toks.map tkOf) none []

/-! ## `Output.parse`: splitting the value into its fields -/

/-- `str.split(sep)` -/
def splitOn (sep : Char) : List Char → List (List Char)
  | [] => [[]]
  | c :: cs =>
    match splitOn sep cs with
    | [] => [[]]          -- unreachable: `splitOn` never returns `[]`
    | p :: ps => if c = sep then [] :: p :: ps else (c :: p) :: ps

def joinWith (sep : Char) : List (List Char) → List Char
  | [] => []
  | [p] => p
  | p :: ps => p ++ sep :: joinWith sep ps

/-- `targ, inp, *param_lst, delay, times = vals` for more than five comma separated parts -/
def regroup (parts : List (List Char)) : Option (List Char × List Char × List Char × List Char × List Char) :=
  match parts with
  | t :: i :: rest =>
    match rest.reverse with
    | times :: delay :: prm => some (t, i, joinWith ',' prm.reverse, delay, times)
    | _ => none
  | _ => none

/-- The split of `Output.parse`: (target, input, params, delay, times, comma_sep) or `none`
(`ValueError`). -/
def parseOut (value : List Char) : Option (List Char × List Char × List Char × List Char × List Char × Bool) :=
  if value.contains sepEsc then
    match splitOn sepEsc value with
    | [t, i, p, d, n] => some (t, i, p, d, n, false)
    | _ => none
  else
    match splitOn ',' value with
    | [t, i, p, d, n] => some (t, i, p, d, n, true)
    | parts => if 5 < parts.length then (regroup parts).map (fun r => (r.1, r.2.1, r.2.2.1, r.2.2.2.1, r.2.2.2.2, true)) else none

end C11Ent
