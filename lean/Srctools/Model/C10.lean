/-!
# C10 model — lazily parsed BSP lump views, and `BSP.save`

A functional model of the mechanism in `srctools/bsp.py` that decides which lumps are rebuilt on
save:

* `ParsedLump.__get__`  → `access`   (look in the cache; otherwise run the reader — which may look at
  further views —, cache the result, clear the raw data of every lump in `to_clear`);
* `BSP.save` (first loop) → `save`   (walk `LUMP_REBUILD_ORDER`; pop the cached value; run the writer —
  which may look at further views, parsing them on demand —; store the produced bytes).

Everything static comes from the translator (`Gen/Bsp.lean`, produced by `tools/gen_bsp.py` from the
current source): the `ParsedLump(...)` declarations, the rebuild order, and for every
`_lmp_read_X` / `_lmp_write_X` the views `self.<view>` and raw lumps `self.lumps[...] .data` it touches.

The lump *contents* are abstract: a `Codec` gives a reader and a writer per view over abstract
`B`ytes and `V`alues.  The driver instantiates it with provenance tags; the theorems are about any
codec satisfying the round-trip laws (`Proofs/C10.lean`).

Core Lean only: linked into the compiled driver.
-/

namespace C10

/-- One `name: ParsedLump[...] = ParsedLump(main, *extra)` declaration, with what its reader and
writer touch. Views and lumps are numbered: view id = index in `Tables.views`; lump id = value of
the `BSP_LUMPS` member, game lumps are numbered from 64. -/
structure View where
  name : String
  /-- first argument of `ParsedLump(...)`: the key in `_parsed_lumps` / `_save_funcs` / the rebuild order. -/
  main : Nat
  /-- `to_clear` = all arguments (main first). -/
  clears : List Nat
  /-- views `self.<view>` evaluated (through helper methods) by `_lmp_read_<name>`, source order. -/
  rdeps : List Nat
  /-- views evaluated by `_lmp_write_<name>`. -/
  wdeps : List Nat
  /-- raw lumps whose `.data` the reader loads (besides its `data` argument). -/
  rraw : List Nat
  /-- raw lumps whose `.data` the writer stores (besides the returned bytes, which go to `main`). -/
  wraw : List Nat
  /-- views out of whose parsed objects the reader removes keys (`ent.pop('model')`). -/
  borrows : List Nat
  /-- views into whose parsed objects the writer puts such keys back (`ent['model'] = …`). -/
  restores : List Nat
deriving Repr, Inhabited

structure Tables where
  views : List View
  /-- `LUMP_REBUILD_ORDER` as lump ids. -/
  order : List Nat
  /-- `LUMP_WRITE_ORDER` as lump ids (order of the lump bodies in the file). -/
  writeOrder : List Nat
  /-- names for printing. -/
  lumpNames : List (Nat × String)
  /-- shape of the rebuild loop of `BSP.save`: `false` = walk `LUMP_REBUILD_ORDER` and pop from the live
  cache at each entry (a view parsed by a writer during save is still written when its turn comes);
  `true` = first list the entries that are cached, then walk that list. -/
  snapshot : Bool := false
deriving Repr, Inhabited

namespace Tables
variable (T : Tables)

def n : Nat := T.views.length
def view (v : Nat) : View := T.views.getD v default
/-- fuel for the recursive parse: one more than the number of views. -/
def fuel : Nat := T.n + 1
/-- position of view `v` in the rebuild order (`order.length` when its main lump is missing). -/
def pos (v : Nat) : Nat := T.order.idxOf (T.view v).main
/-- `_save_funcs[lump]` → the view whose main lump is `l`. -/
def viewOfMain (l : Nat) : Option Nat := (List.range T.n).find? fun v => (T.view v).main == l
/-- does some view own (clear) this lump? -/
def owned (l : Nat) : Bool := (List.range T.n).any fun v => (T.view v).clears.contains l

end Tables

/-- Abstract content of lumps and views. -/
structure Codec (B V : Type) where
  /-- `b''` -/
  empty : B
  dflt : V
  /-- `_lmp_read_v`: sees the raw lumps and the parsed views. -/
  rd : Nat → (Nat → B) → (Nat → V) → V
  /-- `_lmp_write_v value`: sees the parsed views and the raw lumps, yields new raw lumps (only the
  entries `main v :: wraw v` are used). -/
  wr : Nat → V → (Nat → V) → (Nat → B) → (Nat → B)

/-- State of a `BSP` object. -/
structure St (B V : Type) where
  /-- `lumps[l].data` / `game_lumps[l].data`. -/
  raw : Nat → B
  /-- ghost: the lump was emptied by `ParsedLump.__get__` and has not been rebuilt since. -/
  clr : Nat → Bool
  /-- `_parsed_lumps` (keyed by view instead of by its main lump). -/
  parsed : Nat → Option V
  /-- ghost: (borrower, lender) — the reader of `borrower` removed keys from the parsed `lender`,
  and its writer has not put them back yet. -/
  pending : List (Nat × Nat)
  /-- ghost: a lender was written out while keys were still removed. -/
  lost : List (Nat × Nat)
  /-- ghost: the recursive parse ran out of fuel (the readers are cyclic: Python would raise RecursionError). -/
  stuck : Bool
  /-- ghost: the view has been parsed at some time since the file was opened. -/
  touched : Nat → Bool

variable {B V : Type}

def init (raw₀ : Nat → B) : St B V :=
  { raw := raw₀, clr := fun _ => false, parsed := fun _ => none, pending := [], lost := [], stuck := false,
    touched := fun _ => false }

def St.env (C : Codec B V) (s : St B V) : Nat → V := fun v => (s.parsed v).getD C.dflt

/-- `ParsedLump.__get__(bsp)` for view `u`. -/
def access (T : Tables) (C : Codec B V) : Nat → Nat → St B V → St B V
  | 0, _, s => { s with stuck := true }
  | f + 1, u, s =>
    match s.parsed u with
    | some _ => s
    | none =>
      let s1 := (T.view u).rdeps.foldl (fun s w => access T C f w s) s
      let x := C.rd u s1.raw (s1.env C)
      { raw := fun l => if l ∈ (T.view u).clears then C.empty else s1.raw l
        clr := fun l => if l ∈ (T.view u).clears then true else s1.clr l
        parsed := fun w => if w = u then some x else s1.parsed w
        pending := s1.pending ++ (T.view u).borrows.map fun e => (u, e)
        lost := s1.lost
        stuck := s1.stuck
        touched := fun w => if w = u then true else s1.touched w }

/-- a sequence of attribute reads `bsp.<view>`. -/
def accesses (T : Tables) (C : Codec B V) (xs : List Nat) (s : St B V) : St B V :=
  xs.foldl (fun s u => access T C T.fuel u s) s

/-- the raw lumps after the writer of `v` ran with value `x`: only `main v` (the returned bytes) and
the lumps it stores directly (`wraw v`) can change. -/
def applyWr (T : Tables) (C : Codec B V) (v : Nat) (x : V) (env : Nat → V) (raw : Nat → B) : Nat → B :=
  fun l => if l ∈ (T.view v).main :: (T.view v).wraw then C.wr v x env raw l else raw l

/-- one iteration of the first loop of `BSP.save`, for the order entry `l`. -/
def saveStep (T : Tables) (C : Codec B V) (s : St B V) (l : Nat) : St B V :=
  match T.viewOfMain l with
  | none => s
  | some v =>
    match s.parsed v with
    | none => s
    | some x =>
      -- `self._parsed_lumps.pop(lump)`
      let s0 : St B V := { s with
        parsed := fun w => if w = v then none else s.parsed w
        lost := s.lost ++ s.pending.filter fun p => p.2 == v }
      -- the writer runs and looks at other views
      let s1 := (T.view v).wdeps.foldl (fun s w => access T C T.fuel w s) s0
      { s1 with
        raw := applyWr T C v x (s1.env C) s1.raw
        clr := fun l => if l ∈ (T.view v).main :: (T.view v).wraw then false else s1.clr l
        pending := s1.pending.filter fun p => !(p.1 == v && (T.view v).restores.contains p.2) }

/-- the rebuild loop of `BSP.save`. -/
def save (T : Tables) (C : Codec B V) (s : St B V) : St B V :=
  if T.snapshot then
    (T.order.filter fun l => match T.viewOfMain l with
      | some v => (s.parsed v).isSome
      | none => false).foldl (saveStep T C) s
  else T.order.foldl (saveStep T C) s

/-! ## Decidable well-formedness of the tables -/

/-- ids in range; every main lump is first in its `clears`; mains are distinct and occur in the
(duplicate-free) rebuild order. -/
def WF (T : Tables) : Bool :=
  (List.range T.n).all (fun v =>
    let d := T.view v
    d.clears.head? == some d.main
    && (d.rdeps ++ d.wdeps ++ d.borrows ++ d.restores).all (· < T.n)
    && T.order.contains d.main
    && (List.range T.n).all (fun w => w == v || (T.view w).main != d.main))
  && T.order.Nodup

/-- every lump a view clears is rebuilt by its writer (returned bytes → main, or stored directly). -/
def WritesAll (T : Tables) : Bool :=
  (List.range T.n).all fun v =>
    let d := T.view v
    d.clears.all fun l => l == d.main || d.wraw.contains l

/-- views reached by the reader closure from a start set (bounded iteration, no duplicates). -/
def rclosure (T : Tables) : Nat → List Nat → List Nat
  | 0, acc => acc
  | f + 1, acc =>
    let new := (acc.flatMap fun u => (T.view u).rdeps).filter fun u => !acc.contains u
    rclosure T f (acc ++ new.eraseDups)

/-- views that may get parsed while the writer of `v` runs. -/
def reachAtSave (T : Tables) (v : Nat) : List Nat := rclosure T T.n (T.view v).wdeps.eraseDups

/-- **Topo**: whatever the writer of `v` can reach (its `self.<view>` uses, then the readers'
uses, transitively) comes strictly later in `LUMP_REBUILD_ORDER` than `v` — in particular no
writer reaches its own view.  (The closedness of the computed set is part of the check, so its
soundness needs no lemma about `rclosure`.) -/
def Topo (T : Tables) : Bool :=
  (List.range T.n).all fun v =>
    let S := reachAtSave T v
    (T.view v).wdeps.all (S.contains ·)
    && S.all (fun u => (T.view u).rdeps.all (S.contains ·))
    && S.all (fun u => u < T.n && T.pos v < T.pos u)

/-- the Topo violations, for messages: (view, reached view). -/
def topoViolations (T : Tables) : List (Nat × Nat) :=
  (List.range T.n).flatMap fun v =>
    ((reachAtSave T v).filter fun u => !(T.pos v < T.pos u)).map fun u => (v, u)

/-- reader depth (bounded). -/
def rdepth (T : Tables) : Nat → Nat → Nat
  | 0, _ => 0
  | f + 1, u => 1 + ((T.view u).rdeps.map (rdepth T f)).foldl max 0

def rrank (T : Tables) (u : Nat) : Nat := rdepth T T.n u

/-- the readers are acyclic (`rrank` strictly decreases along reader edges and fits the fuel). -/
def RAcyclic (T : Tables) : Bool :=
  (List.range T.n).all fun u =>
    rrank T u ≤ T.n && (T.view u).rdeps.all fun w => rrank T w < rrank T u

/-- no lump belongs to two views; raw lumps touched by a reader/writer are its own or belong to nobody. -/
def Frame (T : Tables) : Bool :=
  (List.range T.n).all fun v =>
    let d := T.view v
    (List.range T.n).all (fun w => w == v || d.clears.all fun l => !(T.view w).clears.contains l)
    && (d.rraw ++ d.wraw).all fun l => d.clears.contains l || !T.owned l

/-- the rebuild loop pops from the live cache while it walks the order. -/
def LiveLoop (T : Tables) : Bool := !T.snapshot

/-- every borrowed key is put back by the borrower's writer, which runs before the lender's. -/
def BorrowOK (T : Tables) : Bool :=
  (List.range T.n).all fun b =>
    (T.view b).borrows.all fun e => (T.view b).restores.contains e && T.pos b < T.pos e

end C10
