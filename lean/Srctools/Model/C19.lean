import Srctools.Model.C18
/-!
# C19 — the four filesystem backends over one file set, and chains over them

As coded in `/repo/src/srctools/filesys.py`:
* `VirtualFileSystem`: `_clean_path` = `normpath` → slash replacement → `casefold`; a dict from the
  cleaned name to `(original name, data)`; `walk_folder` as described by `WalkCfg`.
* `ZipFileSystem`: dict from `info.filename.casefold()` (directory entries skipped); queries
  replace slashes then fold.
* `VPKFileSystem`: dict from `filename.replace('\\','/').casefold()`; queries fold then replace.
* `RawFileSystem`: the C18 model over the tree obtained by placing the file set under a root.
* `FileSystemChain`: first member (in order) that has `join(prefix, name)`; walks address members
  relative to their prefix with `os.path.relpath`; `walk_folder` keeps the first occurrence of each
  case-folded path.

A file set is a list of (stored name, content id).  Python dict semantics (later value wins, first
position kept) are modelled by `dictSet`.  `WalkCfg` (three booleans per the three historical
defects) is regenerated from the source by `tools/gen_fswalk.py`.  Core Lean only.
-/
namespace C19
open Path

structure FEnt where
  name : Str
  id : Nat
deriving Repr, DecidableEq

abbrev FileSet := List FEnt

/-! ## Python dict -/

def dictSet {ν : Type} (d : List (Str × ν)) (k : Str) (v : ν) : List (Str × ν) :=
  match d with
  | [] => [(k, v)]
  | (k', v') :: r => if k' = k then (k', v) :: r else (k', v') :: dictSet r k v

def dictOf {ν : Type} (l : List (Str × ν)) : List (Str × ν) :=
  l.foldl (fun d kv => dictSet d kv.1 kv.2) []

def dictGet {ν : Type} (d : List (Str × ν)) (k : Str) : Option ν :=
  (d.find? fun kv => kv.1 = k).map (·.2)

/-! ## what the translator reads off the three `walk_folder` methods -/

structure WalkCfg where
  /-- Virtual: `normpath('') == '.'` is mapped back to the root folder. -/
  virtRootFix : Bool
  /-- the folder is matched with a terminating separator (whole component) in Virtual/Zip/VPK. -/
  sepMatch : Bool
  /-- the comparison is on case-folded names on both sides (Virtual: key instead of original
  name; VPK: folder and directory folded). -/
  foldMatch : Bool
deriving Repr, DecidableEq

def WalkCfg.original : WalkCfg := ⟨false, false, false⟩
def WalkCfg.fixed : WalkCfg := ⟨true, true, true⟩

/-! ## name keys -/

/-- `VirtualFileSystem._clean_path`. -/
def cleanV (fold : Char → List Char) (p : Str) : Str := foldStr fold (replaceBS (normpath p))
/-- Zip query key: `name.replace('\\','/').casefold()`. -/
def keyZ (fold : Char → List Char) (p : Str) : Str := foldStr fold (replaceBS p)
/-- VPK key (stored names and queries): `name.casefold().replace('\\','/')`. -/
def keyP (fold : Char → List Char) (p : Str) : Str := replaceBS (foldStr fold p)

def mapV (fold : Char → List Char) (F : FileSet) : List (Str × FEnt) :=
  dictOf (F.map fun e => (cleanV fold e.name, e))

def mapZ (fold : Char → List Char) (F : FileSet) : List (Str × FEnt) :=
  dictOf ((F.filter fun e => !endsWithSep e.name).map fun e => (foldStr fold e.name, e))

def mapP (fold : Char → List Char) (F : FileSet) : List (Str × FEnt) :=
  dictOf (F.map fun e => (keyP fold e.name, e))

/-! ## lookups: (File.path, the file) -/

def lookupV (fold : Char → List Char) (F : FileSet) (q : Str) : Option (Str × FEnt) :=
  (dictGet (mapV fold F) (cleanV fold q)).map fun e => (e.name, e)

def lookupZ (fold : Char → List Char) (F : FileSet) (q : Str) : Option (Str × FEnt) :=
  (dictGet (mapZ fold F) (keyZ fold q)).map fun e => (replaceBS q, e)

def lookupP (fold : Char → List Char) (F : FileSet) (q : Str) : Option (Str × FEnt) :=
  (dictGet (mapP fold F) (keyP fold q)).map fun e => (keyP fold q, e)

/-! ## walks: (File.path, the file) in dict order -/

/-- directory part of a stored VPK name (`FileInfo.dir`), for normalised names. -/
def dirOf (name : Str) : Str :=
  joinWith '/' (splitOn '/' name).dropLast

def walkV (c : WalkCfg) (fold : Char → List Char) (F : FileSet) (d : Str) : List (Str × FEnt) :=
  let f0 := cleanV fold d
  let f1 := if c.virtRootFix && f0 == dot then []
            else if c.sepMatch && !endsWithSep f0 then f0 ++ ['/'] else f0
  ((mapV fold F).filter fun kv =>
      f1.isPrefixOf (if c.foldMatch then kv.1 else kv.2.name)).map fun kv => (kv.2.name, kv.2)

def walkZ (c : WalkCfg) (fold : Char → List Char) (F : FileSet) (d : Str) : List (Str × FEnt) :=
  let f0 := keyZ fold d
  let f1 := if c.sepMatch && !f0.isEmpty && !endsWithSep f0 then f0 ++ ['/'] else f0
  ((mapZ fold F).filter fun kv => f1.isPrefixOf kv.1).map fun kv => (kv.2.name, kv.2)

def walkP (c : WalkCfg) (fold : Char → List Char) (F : FileSet) (d : Str) : List (Str × FEnt) :=
  let f0 := if c.foldMatch then keyZ fold d else replaceBS d
  let f1 := if c.sepMatch && !f0.isEmpty && !endsWithSep f0 then f0 ++ ['/'] else f0
  ((mapP fold F).filter fun kv =>
      let dir := if c.foldMatch then foldStr fold (dirOf kv.2.name) else dirOf kv.2.name
      f1.isPrefixOf (if c.sepMatch then dir ++ ['/'] else dir)).map fun kv => (kv.2.name, kv.2)

/-! ## a uniform backend, including the directory filesystem of C18 -/

inductive Kind
  | virt | zip | vpk | raw
deriving Repr, DecidableEq

structure Backend where
  kind : Kind
  files : FileSet
  /-- absolute root directory (only used by `raw`). -/
  root : Str
deriving Repr

structure Env where
  walkCfg : WalkCfg
  rawCfg : C18.Cfg
  fold : Char → List Char
  cwd : Str

def rawFS (b : Backend) : C18.RawFS := ⟨b.root, true⟩

def rawTree (b : Backend) : C18.Tree :=
  b.files.map fun e => ⟨comps b.root ++ comps e.name, e.id⟩

/-- `fs[name]` then reading it: (File.path, content id). -/
def lookup (E : Env) (b : Backend) (q : Str) : Except C18.Err (Str × Nat) :=
  match b.kind with
  | .virt => match lookupV E.fold b.files q with
    | some (p, e) => .ok (p, e.id) | none => .error .notFound
  | .zip => match lookupZ E.fold b.files q with
    | some (p, e) => .ok (p, e.id) | none => .error .notFound
  | .vpk => match lookupP E.fold b.files q with
    | some (p, e) => .ok (p, e.id) | none => .error .notFound
  | .raw => do
    let p ← C18.getFile E.rawCfg E.cwd (rawFS b) (rawTree b) q
    let e ← C18.openName E.rawCfg E.cwd (rawFS b) (rawTree b) p
    pure (p, e.id)

/-- `fs.walk_folder(d)`: (File.path, content id). -/
def walkB (E : Env) (b : Backend) (d : Str) : Except C18.Err (List (Str × Nat)) :=
  match b.kind with
  | .virt => .ok ((walkV E.walkCfg E.fold b.files d).map fun x => (x.1, x.2.id))
  | .zip => .ok ((walkZ E.walkCfg E.fold b.files d).map fun x => (x.1, x.2.id))
  | .vpk => .ok ((walkP E.walkCfg E.fold b.files d).map fun x => (x.1, x.2.id))
  | .raw => do
    let l ← C18.walk E.rawCfg E.cwd (rawFS b) (rawTree b) d
    pure (l.map fun x => (x.1, x.2.id))

/-! ## chains -/

structure Member where
  b : Backend
  pfx : Str
deriving Repr

/-- `FileSystemChain._get_file` + open: (chain File.path, content id). -/
def chainLookup (E : Env) (name : Str) : List Member → Except C18.Err (Str × Nat)
  | [] => .error .notFound
  | m :: ms =>
    let full := replaceBS (join2 m.pfx name)
    match lookup E m.b full with
    | .ok (_, i) => .ok (full, i)
    | .error .notFound => chainLookup E name ms
    | .error .escape => .error .escape

/-- `FileSystemChain.walk_folder_repeat`: (chain File.path, content id). -/
def chainWalkRepeat (E : Env) (folder : Str) : List Member → Except C18.Err (List (Str × Nat))
  | [] => .ok []
  | m :: ms => do
    let fl ← walkB E m.b (replaceBS (join2 m.pfx folder))
    let here := fl.map fun x =>
      (replaceBS ((relpath E.cwd x.1 (if E.rawCfg.chainRelSlash then replaceBS m.pfx else m.pfx)).getD []), x.2)
    let rest ← chainWalkRepeat E folder ms
    pure (here ++ rest)

/-- `FileSystemChain.walk_folder`. -/
def chainWalk (E : Env) (folder : Str) (ms : List Member) : Except C18.Err (List (Str × Nat)) := do
  let l ← chainWalkRepeat E folder ms
  pure (C18.dedupFold E.fold [] l)

/-! ## the specification side -/

/-- `n` is located inside folder `d` (both already folded / normalised); the empty folder contains
everything. -/
def inFolder (d n : Str) : Bool := d.isEmpty || (d ++ ['/']).isPrefixOf n

/-- What a walk should list: the stored files (dict over folded names) whose folded name lies
inside the folded, normalised folder `D`; each reported under its stored name. -/
def walkSpec (fold : Char → List Char) (F : FileSet) (D : Str) : List (Str × FEnt) :=
  ((dictOf (F.map fun e => (foldStr fold e.name, e))).filter fun kv => inFolder D kv.1).map
    fun kv => (kv.2.name, kv.2)

/-- `FileSystemChain.add_sys(sys, prefix, priority=...)`. -/
def addSys (ms : List Member) (m : Member) (priority : Bool) : List Member :=
  if priority then m :: ms else ms ++ [m]

/-! ## a chain object as a state machine: histories of mutations and queries

`FileSystemChain` keeps nothing but `self.systems`; every query is answered from the member list
as it is *now*.  Mutations: `add_sys(sys, prefix, priority=…)` and `systems.pop(i)` (as
`packlist.py` does with `systems.pop(0)` after a priority insertion). -/

inductive Op
  | add (m : Member) (priority : Bool)
  | pop (i : Nat)
  | lookup (q : Str)
  | walk (d : Str)
  | walkRepeat (d : Str)
deriving Repr

inductive Obs
  | done
  | popError                 -- IndexError
  | look (r : Except C18.Err (Str × Nat))
  | listing (r : Except C18.Err (List (Str × Nat)))

/-- The member list after a mutation (queries leave it unchanged). -/
def applyOp (ms : List Member) : Op → List Member
  | .add m p => addSys ms m p
  | .pop i => if i < ms.length then ms.eraseIdx i else ms
  | _ => ms

/-- What one operation returns on a chain whose members are `ms`. -/
def observe (E : Env) (ms : List Member) : Op → Obs
  | .add _ _ => .done
  | .pop i => if i < ms.length then .done else .popError
  | .lookup q => .look (chainLookup E q ms)
  | .walk d => .listing (chainWalk E d ms)
  | .walkRepeat d => .listing (chainWalkRepeat E d ms)

/-- Run a history on one chain object. -/
def runHist (E : Env) : List Member → List Op → List Obs
  | _, [] => []
  | ms, op :: ops => observe E ms op :: runHist E (applyOp ms op) ops

end C19
