import Srctools.Model.Tok
/-!
# C01 model — `Keyvalues.serialise` / `Keyvalues._serialise` and `Keyvalues.parse`

`serialise` follows `Keyvalues._serialise` (src/srctools/keyvalues.py) write for write; which of
the three string fields are passed through `escape_text` is a parameter (`SerCfg`) regenerated
from the source (Gen/Kvser.lean), so the model is "as coded".

`parse` is the token loop of `Keyvalues.parse` as a token-driven state machine: every call of
`tokenizer()` inside the loop body becomes a `Mode` of the machine, `push_back` is "dispatch the
same token again at the loop head".  It consumes the observable output of the shared tokenizer
model (`Tok.run`): the tokens are taken lazily in the implementation, so a parser error raised at
token *i* wins over a tokenizer error further on — exactly what folding over `Run.toks` and only
then consulting `Run.err` gives.

Core Lean only (linked into drv_c01).
-/

namespace C01

/-- A Keyvalues tree node: `name "value"` or `name { children }`. -/
inductive KV where
  | leaf (name value : List Char)
  | block (name : List Char) (children : List KV)
deriving Repr

/-! ## serialise -/

/-- Which fields `_serialise` escapes (from the source; all three after the C01 fix). -/
structure SerCfg where
  escBlockName : Bool
  escLeafName : Bool
  escLeafValue : Bool
deriving Repr, DecidableEq

/-- Keyword options of `Keyvalues.serialise`. -/
structure SerOpts where
  indent : List Char := ['\t']
  indentBraces : Bool := true
  startIndent : List Char := []
deriving Repr, DecidableEq

def field (T : Tok.Tables) (esc : Bool) (s : List Char) : List Char :=
  if esc then Tok.escapeText T false s else s

/-- `open_brace` / `close_brace` as built in `serialise()`. -/
def openBrace (o : SerOpts) : List Char :=
  if o.indentBraces then o.indent ++ ['{', '\n'] else ['{', '\n']
def closeBrace (o : SerOpts) : List Char :=
  if o.indentBraces then o.indent ++ ['}', '\n'] else ['}', '\n']

mutual
/-- `_serialise` on a named node with current indentation `cur`. -/
def serKV (T : Tok.Tables) (c : SerCfg) (o : SerOpts) (cur : List Char) : KV → List Char
  | .leaf n v =>
    cur ++ '"' :: (field T c.escLeafName n ++ '"' :: ' ' :: '"' :: (field T c.escLeafValue v ++ ['"', '\n']))
  | .block n cs =>
    cur ++ '"' :: (field T c.escBlockName n ++ '"' :: '\n' ::
      (cur ++ (openBrace o ++ (serList T c o (cur ++ o.indent) cs ++ (cur ++ closeBrace o)))))
/-- the loop `for child in self._value: child._serialise(..., indent)`. -/
def serList (T : Tok.Tables) (c : SerCfg) (o : SerOpts) (cur : List Char) : List KV → List Char
  | [] => []
  | t :: ts => serKV T c o cur t ++ serList T c o cur ts
end

/-- `Keyvalues(name, value).serialise(indent=…, indent_braces=…, start_indent=…)`. -/
def serialise (T : Tok.Tables) (c : SerCfg) (o : SerOpts) (t : KV) : List Char :=
  serKV T c o o.startIndent t

/-- `Keyvalues.root(*children).serialise(…)`: the children are written with indentation `''`
(`start_indent` is not used on this path). -/
def serialiseRoot (T : Tok.Tables) (c : SerCfg) (o : SerOpts) (ts : List KV) : List Char :=
  serList T c o [] ts

/-! ## parse -/

structure ParseOpts where
  /-- the `flags` mapping given by the caller -/
  flags : List (List Char × Bool) := []
  /-- `FLAGS_DEFAULT` (platform dependent: supplied by the harness from the implementation) -/
  defaults : List (List Char × Bool) := []
  newlineKeys : Bool := false
  newlineValues : Bool := true
  allowEscapes : Bool := true
  singleLine : Bool := false
  singleBlock : Bool := false
  /-- as coded (Gen/Kvser.lean): is the flag-replace test `can_flag_replace and cur_block_contents[-1]…`
  guarded by `cur_block_contents and` on the block path / on the leaf path?  Unguarded, an empty
  block raises IndexError there. -/
  guardFlagBlock : Bool := true
  guardFlagLeaf : Bool := true
deriving Repr

/-- The tokenizer options `Keyvalues.parse` constructs its `Tokenizer` with. -/
def tokOpts (po : ParseOpts) : Tok.Opts :=
  { stringBracket := true, allowEscapes := po.allowEscapes }

/-- Error sites of `Keyvalues.parse` (all raise `KeyValError`, except `pyIndexError`). -/
inductive PErr where
  | tok (e : Tok.Err)                 -- raised by the tokenizer (its error_type is KeyValError)
  | subsectionAfterValue              -- 'Keyvalues cannot have sub-section if it already has an in-line value.'
  | blockOpenRequired                 -- 'Block opening ("{{") required!'
  | newlineInKey | newlineInValue     -- 'Illegal newline found in key/value'
  | splitAcrossLines                  -- 'Keyvalue split across lines!' (dead branch in the source)
  | multipleNames                     -- 'Cannot have multiple names on the same line!'
  | expectedNewline (got : Nat)       -- tokenizer.expect(NEWLINE)
  | tooManyClose                      -- 'Too many closing brackets.'
  | unexpected (kind : Nat)           -- tokenizer.error(token_type, token_value)
  | eofExpectBlock                    -- 'Block opening ("{") required, but hit EOF!'
  | eofOpenSections (n : Nat)         -- 'End of text reached with remaining open sections.'
  | pyIndexError                      -- `cur_block_contents[-1]` / `root[0]` on an empty list (not a KeyValError)
  | internal                          -- unreachable states of the model
deriving Repr, DecidableEq

def PErr.code : PErr → Nat × Nat × Nat
  | .tok e => (1, e.code.1, e.code.2)
  | .subsectionAfterValue => (2, 0, 0) | .blockOpenRequired => (3, 0, 0)
  | .newlineInKey => (4, 0, 0) | .newlineInValue => (5, 0, 0)
  | .splitAcrossLines => (6, 0, 0) | .multipleNames => (7, 0, 0)
  | .expectedNewline g => (8, g, 0) | .tooManyClose => (9, 0, 0)
  | .unexpected k => (10, k, 0) | .eofExpectBlock => (11, 0, 0)
  | .eofOpenSections n => (12, n, 0) | .pyIndexError => (13, 0, 0) | .internal => (99, 0, 0)

/-- Result of `Keyvalues.parse`. -/
inductive PResult where
  | root (children : List KV)          -- the root keyvalue's children
  | single (kv : KV)                   -- `single_block=True`: the one keyvalue returned
  | err (e : PErr) (line : Option Nat)
deriving Repr

inductive FrameKind where
  | root | named (name : List Char) | skipped
deriving Repr, DecidableEq

/-- One entry of `open_keyvalues`; `kids` is `cur_block_contents` reversed (last child first). -/
structure Frame where
  kind : FrameKind
  kids : List KV
deriving Repr

inductive BlockLine where
  | none | skip | expect
deriving Repr, DecidableEq

/-- Where in the loop body the parser is waiting for its next token. -/
inductive Mode where
  | top                                             -- `for token_type, token_value in tokenizer`
  | afterName (name : List Char)                    -- `prop_type, prop_value = tokenizer()`
  | flagBlockNl (name flag : List Char)             -- `"name" [flag]` then `tokenizer.expect(NEWLINE)`
  | afterValue (name value : List Char)             -- `flag_token, flag_val = tokenizer()`
  | flagLeafNl (name value flag : List Char)        -- `"name" "value" [flag]` then `expect(NEWLINE)`
deriving Repr

structure PState where
  stack : List Frame            -- `open_keyvalues`, innermost first; the root frame is last
  blockLine : BlockLine := .none
  canFlagReplace : Bool := false
  mode : Mode := .top
deriving Repr

inductive Out where
  | cont (ps : PState)
  | done (r : PResult)
deriving Repr

def hasNl (s : List Char) : Bool := s.contains '\n' || s.contains '\r'

/-- `_read_flag(flags, flag_val)`; `fold` is `str.casefold` on one character. -/
def readFlag (po : ParseOpts) (fold : Char → List Char) (fv : List Char) : Bool :=
  let inv := fv.head? == some '!'
  let body := if inv then fv.tail else fv
  let key := body.flatMap fold
  let res := match po.flags.lookup key with
    | some b => b
    | none => (po.defaults.lookup key).getD false
  inv != res

def kEof : Nat := 0
def kString : Nat := 1
def kNewline : Nat := 2
def kBraceOpen : Nat := 6
def kBraceClose : Nat := 7
def kPropFlag : Nat := 11

def addKid (kv : KV) : List Frame → List Frame
  | [] => []
  | fr :: stk => { fr with kids := kv :: fr.kids } :: stk

def topIsRoot : List Frame → Bool
  | fr :: _ => fr.kind == .root
  | [] => false

/-- After the `for` loop ends at EOF: the final sanity checks. -/
def finish (ps : PState) : PResult :=
  if ps.blockLine != .none then .err .eofExpectBlock none
  else match ps.stack with
    | [fr] => .root fr.kids.reverse
    | [] => .err .internal none
    | _ :: _ :: rest => .err (.eofOpenSections (rest.length + 1)) none

/-- `}`: the finished block `fr` as it sits in its parent's child list (a skipped block is dropped). -/
def closeInto (fr parent : Frame) : Frame :=
  match fr.kind with
  | .named n => { parent with kids := .block n fr.kids.reverse :: parent.kids }
  | _ => parent

/-- A token at the head of the loop (also the target of every `push_back`). -/
def stepTop (po : ParseOpts) (ps : PState) (t : Tok.Obs) : Out :=
  if t.kind = kEof then .done (finish ps)
  else if t.kind = kBraceOpen then
    match ps.blockLine with
    | .none => .done (.err .subsectionAfterValue (some t.line))
    | .skip =>
      .cont { ps with stack := { kind := .skipped, kids := [] } :: ps.stack,
                      blockLine := .none, canFlagReplace := false }
    | .expect =>
      match ps.stack with
      | { kind := fk, kids := (.block n _) :: kids } :: stk =>
        .cont { ps with stack := { kind := .named n, kids := [] } :: { kind := fk, kids := kids } :: stk,
                        blockLine := .none, canFlagReplace := false }
      | _ => .done (.err .internal (some t.line))
  else if ps.blockLine != .none ∧ t.kind ≠ kNewline then
    .done (.err .blockOpenRequired (some t.line))
  else if t.kind = kNewline then .cont ps
  else if t.kind = kString then
    if !po.newlineKeys && hasNl t.value then .done (.err .newlineInKey (some t.line))
    else .cont { ps with mode := .afterName t.value }
  else if t.kind = kBraceClose then
    match ps.stack with
    | fr :: parent :: stk =>
      if po.singleBlock && parent.kind == .root then
        .done (match (closeInto fr parent).kids.getLast? with
          | some kv => .single kv
          | none => .err .pyIndexError none)
      else .cont { ps with stack := closeInto fr parent :: stk, canFlagReplace := true }
    | _ => .done (.err .tooManyClose (some t.line))
  else .done (.err (.unexpected t.kind) (some t.line))

/-- `cur_block_contents[-1] = keyvalue` if the flag-replace rule applies, else `.append(keyvalue)`.
`isSame` tests the old last child (same real name, same kind).  `none` = IndexError (only when the
test is not guarded by `cur_block_contents and`). -/
def placeFlagged (guard : Bool) (ps : PState) (kv : KV) (isSame : KV → Bool) : Option (List Frame) :=
  match ps.stack with
  | [] => none
  | fr :: stk =>
    if ps.canFlagReplace then
      match fr.kids with
      | [] => if guard then some ({ fr with kids := [kv] } :: stk) else none
      | last :: kids =>
        if isSame last then some ({ fr with kids := kv :: kids } :: stk)
        else some ({ fr with kids := kv :: last :: kids } :: stk)
    else some ({ fr with kids := kv :: fr.kids } :: stk)

def step (po : ParseOpts) (fold : Char → List Char) (ps : PState) (t : Tok.Obs) : Out :=
  match ps.mode with
  | .top => stepTop po ps t
  | .afterName name =>
    if t.kind = kPropFlag then .cont { ps with mode := .flagBlockNl name t.value }
    else if t.kind = kString then
      if ps.blockLine != .none then .done (.err .splitAcrossLines (some t.line))
      else if !po.newlineValues && hasNl t.value then .done (.err .newlineInValue (some t.line))
      else .cont { ps with mode := .afterValue name t.value }
    else
      -- anything else: `name` starts a block; the token is pushed back
      stepTop po { ps with stack := addKid (.block name []) ps.stack, blockLine := .expect,
                           canFlagReplace := false, mode := .top } t
  | .flagBlockNl name flag =>
    if t.kind ≠ kNewline then .done (.err (.expectedNewline t.kind) (some t.line))
    else if readFlag po fold flag then
      match placeFlagged po.guardFlagBlock ps (.block name [])
          (fun last => match last with | .block n _ => n == name | .leaf _ _ => false) with
      | none => .done (.err .pyIndexError none)
      | some stk => .cont { ps with stack := stk, blockLine := .expect, canFlagReplace := false, mode := .top }
    else .cont { ps with blockLine := .skip, mode := .top }
  | .afterValue name value =>
    if t.kind = kPropFlag then .cont { ps with mode := .flagLeafNl name value t.value }
    else if t.kind = kString then
      if po.singleLine then
        stepTop po { ps with stack := addKid (.leaf name value) ps.stack, mode := .top } t
      else .done (.err .multipleNames (some t.line))
    else
      let ps' : PState := { ps with stack := addKid (.leaf name value) ps.stack,
                                    canFlagReplace := true, mode := .top }
      if po.singleBlock && topIsRoot ps.stack then .done (.single (.leaf name value))
      else stepTop po ps' t
  | .flagLeafNl name value flag =>
    if t.kind ≠ kNewline then .done (.err (.expectedNewline t.kind) (some t.line))
    else if readFlag po fold flag then
      match placeFlagged po.guardFlagLeaf ps (.leaf name value)
          (fun last => match last with | .leaf n _ => n == name | .block _ _ => false) with
      | none => .done (.err .pyIndexError none)
      | some stk =>
        if po.singleBlock && topIsRoot ps.stack then .done (.single (.leaf name value))
        else .cont { ps with stack := stk, canFlagReplace := false, mode := .top }
    else .cont { ps with mode := .top }

/-- Fold the machine over the token stream; when the tokens run out before EOF the tokenizer
raised. -/
def parseToks (po : ParseOpts) (fold : Char → List Char) :
    PState → List Tok.Obs → Option (Tok.Err × Nat) → PResult
  | _, [], some (e, l) => .err (.tok e) (some l)
  | _, [], none => .err .internal none
  | ps, t :: ts, err =>
    match step po fold ps t with
    | .done r => r
    | .cont ps' => parseToks po fold ps' ts err

def initState : PState := { stack := [{ kind := .root, kids := [] }] }

def parseRun (po : ParseOpts) (fold : Char → List Char) (r : Tok.Run) : PResult :=
  parseToks po fold initState r.toks r.err

/-- `Keyvalues.parse(text, flags=…, newline_keys=…, …)`. -/
def parse (T : Tok.Tables) (po : ParseOpts) (fold : Char → List Char) (text : List Char) : PResult :=
  parseRun po fold (Tok.run T (tokOpts po) fold text)

/-- Line numbers given to the keyvalues the parser creates (`keyvalue.line_num`), in creation
order: the line of every STRING token met at the loop head.  Observation only (driver). -/
def nameLines (po : ParseOpts) (fold : Char → List Char) :
    PState → List Tok.Obs → List Nat
  | _, [] => []
  | ps, t :: ts =>
    let here : Bool := match ps.mode with
      | .top => t.kind == kString
      | .afterValue _ _ => t.kind == kString && po.singleLine   -- pushed back, met again at the loop head
      | _ => false
    match step po fold ps t with
    | .done _ => []
    | .cont ps' => if here then t.line :: nameLines po fold ps' ts else nameLines po fold ps' ts

end C01
