import Srctools.Model.Tok
/-!
# C16 (i) — long strings in FGD text: `_fgd_escape`, `_write_longstring`, `_read_colon_list`

Model of `srctools/fgd.py`:

* `fgdEscape`      = `_fgd_escape(extended, text)`
* `splitPos`, `sections`, `writeLongString` = `_write_longstring` AS CODED: while more than `limit`
  characters remain, cut after the last `\n` escape that starts before the limit if that leaves more than
  `small` characters, else after the last space before the limit, else exactly at the limit — backed off by
  one when an odd number of backslashes precedes the cut (`backoff`, the repaired code; `false` is the
  code as it was).  The quoted pieces are joined with `" +\n" ++ indent`.  An empty string gives `""`
  (`emptyQuotes`, the repaired code; `false` = nothing is written, the code as it was).
* `readColonList`  = `_read_colon_list` over the token stream of the shared tokenizer model
  (`Tok.run` with `colon_operator`, `plus_operator`); `tok.expect(Token.STRING)` skips newlines;
  `push_back` is "do not consume".  `@snippet` references are not modelled (reported as an error).

Core Lean only (linked into drv_c16).
-/
namespace C16
open Tok

/-- Shape parameters of `_write_longstring` (extracted from the source by tools/gen_fgdw.py). -/
structure LongCfg where
  /-- `LIMIT` -/
  limit : Nat
  /-- the `split_pos > 128` threshold of the `\n` rule -/
  small : Nat
  /-- the cut at `LIMIT` is moved back by one when it would separate an escape pair -/
  backoff : Bool
  /-- an empty text is written as `""` -/
  emptyQuotes : Bool
deriving Repr, DecidableEq

/-- `text.replace('\n', '\\n').replace('"', "''")`, character-wise. -/
def plainEscChar (c : Char) : List Char :=
  if c = '\n' then ['\\', 'n'] else if c = '"' then ['\'', '\''] else [c]

def plainEscape : List Char → List Char
  | [] => []
  | c :: cs => plainEscChar c ++ plainEscape cs

/-- `_fgd_escape(extended, text)`; the extended form is `escape_text(text)` (single-line mode). -/
def fgdEscape (T : Tables) (ext : Bool) (s : List Char) : List Char :=
  if ext then escapeText T false s else plainEscape s

/-- Scan for the last index `i` (counted from `i0`) with `l[i] = a ∧ l[i+1] = b`. -/
def rfind2 (a b : Char) : List Char → Nat → Option Nat → Option Nat
  | x :: y :: t, i, best => rfind2 a b (y :: t) (i + 1) (if x = a ∧ y = b then some i else best)
  | _, _, best => best

/-- Scan for the last index with `l[i] = a`. -/
def rfind1 (a : Char) : List Char → Nat → Option Nat → Option Nat
  | x :: t, i, best => rfind1 a t (i + 1) (if x = a then some i else best)
  | [], _, best => best

/-- `remaining.rfind(a+b, 0, bound)` -/
def rfindPair (a b : Char) (l : List Char) (bound : Nat) : Option Nat := rfind2 a b (l.take bound) 0 none
/-- `remaining.rfind(a, 0, bound)` -/
def rfindChar (a : Char) (l : List Char) (bound : Nat) : Option Nat := rfind1 a (l.take bound) 0 none

/-- Number of trailing backslashes: `len(x) - len(x.rstrip('\\'))`. -/
def trailingBs (l : List Char) : Nat := (l.reverse.takeWhile (· = '\\')).length

/-- `split_pos` of one loop iteration (the loop runs only while `len(remaining) > LIMIT`). -/
def splitPos (cfg : LongCfg) (rem : List Char) : Nat :=
  let p1 := match rfindPair '\\' 'n' rem cfg.limit with
    | some i => i + 2
    | none => 1
  if p1 > cfg.small then p1
  else match rfindChar ' ' rem cfg.limit with
    | some i => i + 1
    | none =>
      if cfg.backoff && trailingBs (rem.take cfg.limit) % 2 == 1 then cfg.limit - 1 else cfg.limit

/-- The `while len(remaining) > LIMIT` loop followed by the final append; the bodies of the quoted
sections in order. `first` = no section has been produced yet. -/
def sections (cfg : LongCfg) : Nat → List Char → Bool → List (List Char)
  | 0, rem, _ => [rem]
  | fuel + 1, rem, first =>
    if rem.length > cfg.limit then
      let p := splitPos cfg rem
      rem.take p :: sections cfg fuel (rem.drop p) false
    else if rem ≠ [] ∨ (first ∧ cfg.emptyQuotes) then [rem] else []

def quote (body : List Char) : List Char := '"' :: (body ++ ['"'])

/-- `sep.join(parts)` -/
def joinWith (sep : List Char) : List (List Char) → List Char
  | [] => []
  | [p] => p
  | p :: q :: ps => p ++ sep ++ joinWith sep (q :: ps)

def plusSep (indent : List Char) : List Char := ' ' :: '+' :: '\n' :: indent

/-- The sections of the escaped text. -/
def longSections (cfg : LongCfg) (T : Tables) (ext : Bool) (s : List Char) : List (List Char) :=
  let e := fgdEscape T ext s
  sections cfg (e.length + 1) e true

/-- Everything `_write_longstring(file, extended, text, indent=indent)` writes. -/
def writeLongString (cfg : LongCfg) (T : Tables) (ext : Bool) (indent s : List Char) : List Char :=
  joinWith (plusSep indent) ((longSections cfg T ext s).map quote)

/-- Tokenizer options of `FGD.parse_file`. -/
def fgdOpts : Opts := { stringBracket := false, colonOperator := true, plusOperator := true }

/-! ## `_read_colon_list` -/

/-- A token as the parser sees it. -/
abbrev Tk := Kind × List Char

inductive RErr
  | tooManyStrings | plusWithoutString | expectedString | unexpected (k : Kind) | snippet | eof
deriving Repr, DecidableEq

def RErr.code : RErr → Nat × Nat
  | .tooManyStrings => (1, 0) | .plusWithoutString => (2, 0) | .expectedString => (3, 0)
  | .unexpected k => (4, k.code) | .snippet => (5, 0) | .eof => (6, 0)

/-- `strings[-1] += v` -/
def appendLast : List (List Char) → List Char → List (List Char)
  | [], v => [v]
  | [x], v => [x ++ v]
  | x :: y :: t, v => x :: appendLast (y :: t) v

/-- `tok.expect(Token.STRING)`: newlines are skipped. -/
def expectString : List Tk → Option (List Char × List Tk)
  | (.newline, _) :: rest => expectString rest
  | (.string, v) :: rest => some (v, rest)
  | _ => none

/-- `_read_colon_list(tok, had_colon)`; returns the strings and the unconsumed tokens. The recursion is on
the token list (`expectString` only ever drops tokens), bounded by `fuel`. -/
def readColonList : Nat → List Tk → List (List Char) → Bool → Except RErr (List (List Char) × List Tk)
  | 0, _, _, _ => .error .eof
  | _ + 1, [], _, _ => .error .eof
  | fuel + 1, (k, v) :: rest, strings, ready =>
    match k with
    | .eof => .error .eof
    | .string =>
      if !ready then .error .tooManyStrings
      else readColonList fuel rest (strings ++ [v]) false
    | .colon => readColonList fuel rest (if ready then strings ++ [[]] else strings) true
    | .plus =>
      if ready || strings.isEmpty then .error .plusWithoutString
      else match expectString rest with
        | some (w, rest') => readColonList fuel rest' (appendLast strings w) false
        | none => .error .expectedString
    | .directive => if v = "snippet".toList then .error .snippet
        else if ready then .error (.unexpected k) else .ok (strings, (k, v) :: rest)
    | .newline =>
      if ready then readColonList fuel rest strings ready
      else match rest with
        | (.plus, _) :: rest' =>
          if strings.isEmpty then .error .plusWithoutString
          else match expectString rest' with
            | some (w, rest'') => readColonList fuel rest'' (appendLast strings w) false
            | none => .error .expectedString
        | _ => .ok (strings, (k, v) :: rest)
    | _ => if ready then .error (.unexpected k) else .ok (strings, (k, v) :: rest)

/-- Tokens of a `Tok.Run` as the parser sees them. -/
def tksOf (r : Run) : List Tk :=
  r.toks.filterMap fun o => (Kind.ofCode o.kind).map fun k => (k, o.value)

/-- Concatenation of the values of the STRING tokens. -/
def concatStrings : List Obs → List Char
  | [] => []
  | o :: os => (if o.kind = 1 then o.value else []) ++ concatStrings os

end C16
