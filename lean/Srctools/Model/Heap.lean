/-!
# Heap — aliasing, immutability, copies (shared by C09, C17; core imports only)

A store is a list of objects; a location is an index into it, so allocation is `h ++ [o]` and the
fresh location is `h.length`.  An object has a class tag, a mutability flag and a list of
fields, each holding an atom (`Slot.val`) or a reference (`Slot.ref`).

* `abs n h l : Tree`   the pure value seen from `l` (unfolded to depth `n`; sharing is forgotten)
* `Reach h l x`        `x` is reachable from `l`
* `copyWith tr n h l`  the copy *as directed by a treatment function* `tr cls field`:
    `deep`     copy the referenced object recursively (immutable objects are shared),
    `shallow`  allocate a one-level copy of the referenced object (same slots),
    `keep`     store the very same slot (atom, or the same reference),
    `missing`  the field is not carried over (it gets the atom `missingVal`).
  `deepCopy` is `copyWith` with `deep` everywhere.
* `Op`, `run`          in-place mutations (field write/insert, field delete, allocation)

Everything is total and executable; the theorems are in `Srctools/Proofs/Heap.lean`.
-/
namespace Heap

/-- Locations are natural numbers (indices into the store); written `Nat` throughout so that `omega` sees them. -/
abbrev Loc := Nat
abbrev Val := Int

inductive Slot where
  | val (v : Val)
  | ref (l : Nat)
  deriving Repr, DecidableEq, Inhabited

structure Obj where
  cls : Nat
  mu : Bool
  fields : List (Nat × Slot)
  deriving Repr, DecidableEq, Inhabited

/-- The store: location = index. -/
abbrev Store := List Obj

/-- The pure value of an object graph. -/
inductive Tree where
  | atom (v : Val)
  | node (cls : Nat) (mu : Bool) (kids : List (Nat × Tree))
  | cut
  | dangling
  deriving Repr, Inhabited

def absSlot (rec : Nat → Tree) : Slot → Tree
  | .val v => .atom v
  | .ref r => rec r

/-- Abstraction to depth `n`. -/
def abs : Nat → Store → Nat → Tree
  | 0, _, _ => .cut
  | n + 1, h, l =>
    match h[l]? with
    | none => .dangling
    | some o => .node o.cls o.mu (o.fields.map fun p => (p.1, absSlot (abs n h) p.2))

/-- Reachability through reference fields. -/
inductive Reach (h : Store) : Nat → Nat → Prop where
  | refl (l : Nat) : Reach h l l
  | step {l : Nat} {o : Obj} {f : Nat} {r x : Nat} :
      h[l]? = some o → (f, Slot.ref r) ∈ o.fields → Reach h r x → Reach h l x

/-- `x` holds an immutable object. -/
def IsImm (h : Store) (x : Nat) : Prop := ∃ o, h[x]? = some o ∧ o.mu = false

/-- A slot that can be shared safely: an atom or a reference to an immutable object. -/
def ImmSlot (h : Store) : Slot → Prop
  | .val _ => True
  | .ref r => IsImm h r

def slotValid (h : Store) : Slot → Bool
  | .val _ => true
  | .ref r => decide (r < h.length)

def objValid (h : Store) (o : Obj) : Bool := o.fields.all fun p => slotValid h p.2

/-- No dangling references. -/
def Closed (h : Store) : Prop := ∀ (l : Nat) (o : Obj), h[l]? = some o → ∀ p ∈ o.fields, slotValid h p.2 = true

/-- Immutable objects only refer to atoms and immutable objects (deep immutability). -/
def ImmClosed (h : Store) : Prop :=
  ∀ (l : Nat) (o : Obj), h[l]? = some o → o.mu = false → ∀ p ∈ o.fields, ImmSlot h p.2

/-! ## Copy -/

inductive Treat where
  | keep | deep | shallow | missing
  deriving Repr, DecidableEq, Inhabited

def missingVal : Val := -1

/-- Copy one slot under treatment `t`; returns the new store and the slot of the copy.
`cp` copies a referenced object (the recursive call). -/
def copySlot (cp : Store → Nat → Option (Store × Nat)) (t : Treat) (h : Store) (s : Slot) :
    Option (Store × Slot) :=
  match t, s with
  | .missing, _ => some (h, .val missingVal)
  | .deep, .ref r =>
    match cp h r with
    | none => none
    | some (h1, r') => some (h1, .ref r')
  | .shallow, .ref r =>
    match h[r]? with
    | none => none
    | some o => if o.mu then some (h ++ [o], .ref h.length) else some (h, .ref r)
  | .deep, .val v => some (h, .val v)
  | .shallow, .val v => some (h, .val v)
  | .keep, s => some (h, s)

/-- Copy the fields of one object left to right, threading the store. -/
def copyFields (cp : Store → Nat → Option (Store × Nat)) (tr : Nat → Treat) :
    Store → List (Nat × Slot) → Option (Store × List (Nat × Slot))
  | h, [] => some (h, [])
  | h, (f, s) :: rest =>
    match copySlot cp (tr f) h s with
    | none => none
    | some (h1, s') =>
      match copyFields cp tr h1 rest with
      | none => none
      | some (h2, rest') => some (h2, (f, s') :: rest')

/-- The copy directed by `tr : class → field → Treat`; `none` when the fuel `n` is exhausted
(cyclic or too deep) or a reference dangles. Immutable objects are never copied. -/
def copyWith (tr : Nat → Nat → Treat) : Nat → Store → Nat → Option (Store × Nat)
  | 0, _, _ => none
  | n + 1, h, l =>
    match h[l]? with
    | none => none
    | some o =>
      if o.mu then
        match copyFields (copyWith tr n) (tr o.cls) h o.fields with
        | none => none
        | some (h1, fs) => some (h1 ++ [{ o with fields := fs }], h1.length)
      else some (h, l)

def deepCopy : Nat → Store → Nat → Option (Store × Nat) := copyWith fun _ _ => .deep

/-! ## In-place mutation -/

def setField : List (Nat × Slot) → Nat → Slot → List (Nat × Slot)
  | [], f, s => [(f, s)]
  | (g, t) :: rest, f, s => if g = f then (g, s) :: rest else (g, t) :: setField rest f s

def delField (fs : List (Nat × Slot)) (f : Nat) : List (Nat × Slot) := fs.filter fun p => p.1 != f

def getField : List (Nat × Slot) → Nat → Option Slot
  | [], _ => none
  | (g, t) :: rest, f => if g = f then some t else getField rest f

inductive Op where
  | write (l : Nat) (f : Nat) (s : Slot)   -- set or insert field `f` of object `l`
  | del (l : Nat) (f : Nat)                -- remove field `f` of object `l`
  | alloc (o : Obj)                        -- allocate `o` at the next location
  deriving Repr, Inhabited

/-- The object an operation changes, if any. -/
def Op.target : Op → Option Nat
  | .write l _ _ => some l
  | .del l _ => some l
  | .alloc _ => none

/-- One mutation. Writing to an immutable or missing object, storing a dangling reference, and
allocating an object with dangling references are rejected (the store is unchanged). -/
def step (h : Store) : Op → Store
  | .write l f s =>
    match h[l]? with
    | some o => if o.mu && slotValid h s then h.set l { o with fields := setField o.fields f s } else h
    | none => h
  | .del l f =>
    match h[l]? with
    | some o => if o.mu then h.set l { o with fields := delField o.fields f } else h
    | none => h
  | .alloc o => if objValid h o then h ++ [o] else h

def run (ops : List Op) (h : Store) : Store := ops.foldl step h

/-! ## Executable helpers (drivers) -/

def refsOf (o : Obj) : List Nat :=
  o.fields.filterMap fun p => match p.2 with | .ref r => some r | .val _ => none

def reachAux (h : Store) : Nat → List Nat → List Nat → List Nat
  | 0, _, seen => seen
  | _ + 1, [], seen => seen
  | n + 1, l :: todo, seen =>
    if seen.contains l then reachAux h n todo seen
    else reachAux h n ((match h[l]? with | some o => refsOf o | none => []) ++ todo) (l :: seen)

/-- Locations reachable from `l` (worklist; fuel = number of edges + nodes + 1). -/
def reachList (h : Store) (l : Nat) : List Nat :=
  reachAux h (h.length + (h.map fun o => o.fields.length).sum + 2) [l] []

def closedB (h : Store) : Bool := h.all fun o => objValid h o

def immSlotB (h : Store) : Slot → Bool
  | .val _ => true
  | .ref r => match h[r]? with | some o => !o.mu | none => false

def immClosedB (h : Store) : Bool := h.all fun o => o.mu || o.fields.all fun p => immSlotB h p.2

def slotOKB (h : Store) : Treat → Slot → Bool
  | .deep, _ => true
  | .keep, s => immSlotB h s
  | .shallow, .val _ => true
  | .shallow, .ref r => match h[r]? with
    | some o => o.fields.all fun p => immSlotB h p.2
    | none => false
  | .missing, _ => false

/-- Dynamic adequacy of a treatment function for a store (see `Adequate` in Proofs/Heap). -/
def adequateB (tr : Nat → Nat → Treat) (h : Store) : Bool :=
  h.all fun o => !o.mu || o.fields.all fun p => slotOKB h (tr o.cls p.1) p.2

end Heap
