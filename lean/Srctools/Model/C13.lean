/-!
# C13 — model of `srctools/vpk.py` (VPK archives, version 1)

Executable model, core Lean only.  Everything is *as coded* in `/repo/src/srctools/vpk.py`
(after the four `fix:` commits recorded in `known_findings.d/C13.json`).

* bytes are `Nat`s (`Bytes := List Nat`); file names are lists of code points (`Str`), because
  `surrogateescape` names (U+DC80 … U+DCFF) are not Unicode scalar values;
* the CRC-32 function is a parameter `crc : Bytes → Nat` (the driver passes a real CRC-32, the
  theorems hold for every function);
* `World` = the folder on disk (directory/single file + numbered archives) + the open `VPK` object.
-/
namespace C13

abbrev Bytes := List Nat
abbrev Str := List Nat

/-! ## `struct` little-endian integers -/

def le16 (n : Nat) : Bytes := [n % 256, n / 256 % 256]
def le32 (n : Nat) : Bytes := [n % 256, n / 256 % 256, n / 65536 % 256, n / 16777216 % 256]

def rd16 : Bytes → Nat
  | a :: b :: _ => a + 256 * b
  | _ => 0
def rd32 : Bytes → Nat
  | a :: b :: c :: d :: _ => a + 256 * b + 65536 * c + 16777216 * d
  | _ => 0

def VPK_SIG : Nat := 0x55aa1234
def DIR_ARCH_INDEX : Nat := 0x7fff
def MAX_DIR_DATA : Nat := 0xffff

/-! ## association lists with Python `dict` behaviour (insertion ordered) -/

abbrev AList (α : Type) := List (Str × α)

namespace AList
variable {α : Type}

def find (k : Str) : AList α → Option α
  | [] => none
  | (k', v) :: rest => if k' = k then some v else find k rest

/-- `d[k] = v`: replace in place, or append. -/
def set (k : Str) (v : α) : AList α → AList α
  | [] => [(k, v)]
  | (k', v') :: rest => if k' = k then (k', v) :: rest else (k', v') :: set k v rest

def erase (k : Str) : AList α → AList α
  | [] => []
  | (k', v') :: rest => if k' = k then rest else (k', v') :: erase k rest

end AList

/-- code point order of Python `str` comparison -/
def strLt : Str → Str → Bool
  | [], [] => false
  | [], _ :: _ => true
  | _ :: _, [] => false
  | a :: as, b :: bs => if a < b then true else if b < a then false else strLt as bs

def insertSorted {α : Type} (x : Str × α) : AList α → AList α
  | [] => [x]
  | y :: ys => if strLt x.1 y.1 then x :: y :: ys else y :: insertSorted x ys

/-- `sorted(d.items(), key=itemgetter(0))` (keys of a dict are distinct) -/
def sortA {α : Type} (l : AList α) : AList α := l.foldr insertSorted []

/-! ## the file tree -/

structure Info where
  crc : Nat
  archIndex : Option Nat
  offset : Nat
  archLen : Nat
  startData : Bytes
deriving Repr, DecidableEq, Inhabited

abbrev Files := AList Info
abbrev Dirs := AList Files
/-- `_fileinfo[ext][dir][name]` -/
abbrev Tree := AList Dirs

/-- (dir, name, ext) as returned by `_get_file_parts` -/
structure Key where
  dir : Str
  name : Str
  ext : Str
deriving Repr, DecidableEq, Inhabited

def Tree.lookup (t : Tree) (k : Key) : Option Info :=
  match AList.find k.ext t with
  | none => none
  | some dirs => match AList.find k.dir dirs with
    | none => none
    | some files => AList.find k.name files

/-- `self._fileinfo[ext][dir][name] = info`, creating the intermediate dicts -/
def Tree.put (t : Tree) (k : Key) (i : Info) : Tree :=
  let dirs := (AList.find k.ext t).getD []
  let files := (AList.find k.dir dirs).getD []
  AList.set k.ext (AList.set k.dir (AList.set k.name i files) dirs) t

/-- `__delitem__`: pop the file, then drop a folder / extension dict that became empty -/
def Tree.del (t : Tree) (k : Key) : Tree :=
  match AList.find k.ext t with
  | none => t
  | some dirs => match AList.find k.dir dirs with
    | none => t
    | some files =>
      let files' := AList.erase k.name files
      if files' = [] then
        let dirs' := AList.erase k.dir dirs
        if dirs' = [] then AList.erase k.ext t else AList.set k.ext dirs' t
      else AList.set k.ext (AList.set k.dir files' dirs) t

/-- iteration order of `VPK.__iter__` -/
def Tree.entries (t : Tree) : List (Key × Info) :=
  t.flatMap fun (ext, dirs) => dirs.flatMap fun (dir, files) => files.map fun (name, i) => (⟨dir, name, ext⟩, i)

/-! ## directory encoding (`write_dirfile`) -/

/-- `str.encode('ascii', 'surrogateescape')` of one (valid) character -/
def encChar (c : Nat) : Nat := if c < 128 then c else c - 0xDC00
/-- `bytes.decode('ascii', 'surrogateescape')` of one byte -/
def decChar (b : Nat) : Nat := if b < 128 then b else 0xDC00 + b

/-- `_write_nullstring` -/
def encStr (s : Str) : Bytes := if s = [] then [32, 0] else s.map encChar ++ [0]

/-- does `struct.pack('<IHHIIH', …)` accept this entry? -/
def Info.fits (i : Info) : Bool :=
  i.crc < 4294967296 && i.startData.length < 65536 && (i.archIndex.getD DIR_ARCH_INDEX) < 65536
    && i.offset < 4294967296 && i.archLen < 4294967296

def encEntry (i : Info) : Bytes :=
  le32 i.crc ++ le16 i.startData.length ++ le16 (i.archIndex.getD DIR_ARCH_INDEX) ++ le32 i.offset
    ++ le32 i.archLen ++ le16 0xffff ++ i.startData

def encFiles (fs : Files) : Bytes :=
  (sortA fs).flatMap fun (n, i) => encStr n ++ encEntry i

def encDirs (ds : Dirs) : Bytes :=
  (sortA ds).flatMap fun (d, fs) => if fs = [] then [] else encStr d ++ encFiles fs ++ [0]

def encTree (t : Tree) : Bytes :=
  ((sortA t).flatMap fun (e, ds) => if ds = [] then [] else encStr e ++ encDirs ds ++ [0]) ++ [0]

/-- the whole `_dir` file -/
def encodeDir (version : Nat) (t : Tree) (footer : Bytes) : Bytes :=
  let tb := encTree t
  le32 VPK_SIG ++ le32 version ++ le32 tb.length ++ tb ++ footer

def Tree.fits (t : Tree) : Bool :=
  t.entries.all (fun e => e.2.fits) && (encTree t).length < 4294967296

/-! ## directory decoding (`load_dirfile`) -/

inductive Err
  | readonly | nonascii | exists | missing | nofile | struct | v2 | badsig | badversion | badterm
  | eof | nohandle
deriving Repr, DecidableEq, Inhabited

/-- read bytes up to the next NUL; `none` = end of file first (`iter_nullstr` raises) -/
def readCStr : Bytes → Option (Bytes × Bytes)
  | [] => none
  | b :: bs => if b = 0 then some ([], bs) else
      match readCStr bs with
      | none => none
      | some (s, r) => some (b :: s, r)

/-- one item of `iter_nullstr`: `none` = generator finished (empty string) -/
def itemOf (s : Bytes) : Option Str :=
  if s = [] then none else if s = [32] then some [] else some (s.map decChar)

abbrev RawFiles := List (Str × Info)
abbrev RawDirs := List (Str × RawFiles)
abbrev RawTree := List (Str × RawDirs)

def decEntry (r : Bytes) : Except Err (Info × Bytes) :=
  if r.length < 18 then .error .struct else
  let crc := rd32 r
  let pl := rd16 (r.drop 4)
  let ai := rd16 (r.drop 6)
  let off := rd32 (r.drop 8)
  let al := rd32 (r.drop 12)
  let term := rd16 (r.drop 16)
  if term ≠ 0xffff then .error .badterm else
  let r2 := r.drop 18
  .ok ({ crc := crc, archIndex := if ai = DIR_ARCH_INDEX then none else some ai,
         offset := if al = 0 then 0 else off, archLen := al, startData := r2.take pl }, r2.drop pl)

/-- innermost loop: `for file in iter_nullstr(dirfile)` -/
def parseFiles : Nat → Bytes → Except Err (RawFiles × Bytes)
  | 0, _ => .error .eof
  | fuel + 1, bs =>
    match readCStr bs with
    | none => .error .eof
    | some (s, r) =>
      match itemOf s with
      | none => .ok ([], r)
      | some name =>
        match decEntry r with
        | .error e => .error e
        | .ok (info, r2) =>
          match parseFiles fuel r2 with
          | .error e => .error e
          | .ok (more, r3) => .ok ((name, info) :: more, r3)

/-- `for directory in iter_nullstr(dirfile)` -/
def parseDirs : Nat → Bytes → Except Err (RawDirs × Bytes)
  | 0, _ => .error .eof
  | fuel + 1, bs =>
    match readCStr bs with
    | none => .error .eof
    | some (s, r) =>
      match itemOf s with
      | none => .ok ([], r)
      | some dir =>
        match parseFiles fuel r with
        | .error e => .error e
        | .ok (files, r2) =>
          match parseDirs fuel r2 with
          | .error e => .error e
          | .ok (more, r3) => .ok ((dir, files) :: more, r3)

/-- `for ext in iter_nullstr(dirfile)`, with the `tell() + 1 == header_len` early exit.
`hl` = header_len, `tot` = file size; `tell()` = `tot - rest.length`. -/
def parseExts (hl tot : Nat) : Nat → Bytes → Except Err (RawTree × Bytes)
  | 0, _ => .error .eof
  | fuel + 1, bs =>
    match readCStr bs with
    | none => .error .eof
    | some (s, r) =>
      match itemOf s with
      | none => .ok ([], r)
      | some ext =>
        match parseDirs fuel r with
        | .error e => .error e
        | .ok (dirs, r2) =>
          if r2.length + hl = tot + 1 then .ok ([(ext, dirs)], r2.drop 1) else
          match parseExts hl tot fuel r2 with
          | .error e => .error e
          | .ok (more, r3) => .ok ((ext, dirs) :: more, r3)

/-- the dict updates of `load_dirfile`, in file order -/
def buildFiles (fs : RawFiles) (acc : Files) : Files := fs.foldl (fun a (n, i) => AList.set n i a) acc

def buildDirs (ds : RawDirs) (acc : Dirs) : Dirs :=
  ds.foldl (fun a (d, fs) => AList.set d (buildFiles fs ((AList.find d a).getD [])) a) acc

def buildTree (raw : RawTree) (acc : Tree) : Tree :=
  raw.foldl (fun a (e, ds) => AList.set e (buildDirs ds ((AList.find e a).getD [])) a) acc

structure Loaded where
  tree : Tree
  footer : Bytes
  version : Nat
deriving Repr

def decodeDir (b : Bytes) : Except Err Loaded :=
  if b.length < 12 then .error .struct else
  let sig := rd32 b
  let ver := rd32 (b.drop 4)
  let tl := rd32 (b.drop 8)
  if sig ≠ VPK_SIG then .error .badsig else
  if ver ≠ 1 ∧ ver ≠ 2 then .error .badversion else
  let hdr := if ver = 2 then 28 else 12
  if b.length < hdr then .error .struct else
  match parseExts (hdr + tl) b.length (b.length + 1) (b.drop hdr) with
  | .error e => .error e
  | .ok (raw, foot) => .ok ⟨buildTree raw [], foot, ver⟩

/-! ## `_get_file_parts` (posixpath) -/

def SLASH : Nat := 47
def DOT : Nat := 46
def BSLASH : Nat := 92

/-- `s.rstrip(c)` -/
def rstrip (c : Nat) (s : Str) : Str := (s.reverse.dropWhile (· = c)).reverse

/-- `posixpath.split` -/
def splitPath (p : Str) : Str × Str :=
  let tailRev := p.reverse.takeWhile (· ≠ SLASH)
  let headRev := p.reverse.dropWhile (· ≠ SLASH)
  let head := headRev.reverse
  let head' := if head ≠ [] ∧ ¬ head.all (· = SLASH) then rstrip SLASH head else head
  (head', tailRev.reverse)

/-- `s.split(c)` -/
def splitOn (c : Nat) : Str → List Str
  | [] => [[]]
  | x :: xs =>
    match splitOn c xs with
    | [] => [[]]   -- unreachable
    | cur :: rest => if x = c then [] :: cur :: rest else (x :: cur) :: rest

def joinWith (c : Nat) : List Str → Str
  | [] => []
  | [a] => a
  | a :: rest => a ++ c :: joinWith c rest

/-- the component loop of `posixpath.normpath`; `acc` is `new_comps` reversed -/
def normComps (initial : Nat) : List Str → List Str → List Str
  | [], acc => acc.reverse
  | comp :: rest, acc =>
    if comp = [] ∨ comp = [DOT] then normComps initial rest acc
    else if comp ≠ [DOT, DOT] ∨ (initial = 0 ∧ acc = []) ∨ (acc.head? = some [DOT, DOT]) then
      normComps initial rest (comp :: acc)
    else normComps initial rest acc.tail

def startsWith (p : Str) (pre : Str) : Bool := pre.isPrefixOf p

/-- `posixpath.normpath` -/
def normpath (p : Str) : Str :=
  if p = [] then [DOT] else
  let initial : Nat :=
    if startsWith p [SLASH] then
      (if startsWith p [SLASH, SLASH] ∧ ¬ startsWith p [SLASH, SLASH, SLASH] then 2 else 1)
    else 0
  let comps := normComps initial (splitOn SLASH p) []
  let path := List.replicate initial SLASH ++ joinWith SLASH comps
  if path = [] then [DOT] else path

inductive Name
  | str (s : Str)
  | pair (d f : Str)
  | triple (d f e : Str)
deriving Repr, DecidableEq, Inhabited

/-- `filename.rsplit('.', 1)` when `'.' in filename` -/
def rsplitDot (f : Str) : Str × Str :=
  let extRev := f.reverse.takeWhile (· ≠ DOT)
  let restRev := (f.reverse.dropWhile (· ≠ DOT)).drop 1
  (restRev.reverse, extRev.reverse)

def cleanPath (path : Str) : Str :=
  let p := rstrip SLASH ((normpath path).map fun c => if c = BSLASH then SLASH else c)
  if p = [DOT] then [] else p

/-- `_get_file_parts(value)` with `relative_to=''` -/
def getFileParts (v : Name) : Key :=
  let (path, filename, ext) : Str × Str × Str :=
    match v with
    | .str s => let (h, t) := splitPath s; (h, t, [])
    | .pair d f => (d, f, [])
    | .triple d f e => (d, f, e)
  let (filename, ext) := if ext = [] ∧ DOT ∈ filename then rsplitDot filename else (filename, ext)
  ⟨cleanPath path, filename, ext⟩

/-- `_join_file_parts` -/
def joinFileParts (k : Key) : Str :=
  k.dir ++ (if k.dir = [] then [] else [SLASH]) ++ k.name ++ (if k.ext = [] then [] else [DOT]) ++ k.ext

/-- `_check_is_ascii` -/
def isAsciiStr (s : Str) : Bool := s.all fun c => c < 128 || (0xDC80 ≤ c && c ≤ 0xDCFF)

/-! ## the archive object and the folder on disk -/

inductive Mode | r | w | a
deriving Repr, DecidableEq, Inhabited

def Mode.writable : Mode → Bool
  | .r => false
  | _ => true

structure Vpk where
  tree : Tree
  footer : Bytes
  mode : Mode
  dirLimit : Option Nat
  version : Nat
deriving Repr

structure World where
  /-- is the path a single-file VPK (`_dir_prefix is None`)? fixed by the file name -/
  single : Bool
  /-- contents of the `_dir.vpk` / single file, `none` = does not exist -/
  dirFile : Option Bytes
  /-- numbered archives `pak01_NNN.vpk` -/
  archs : List (Nat × Bytes)
  vpk : Option Vpk
deriving Repr

def archGet (archs : List (Nat × Bytes)) (i : Nat) : Option Bytes :=
  match archs with
  | [] => none
  | (j, b) :: rest => if j = i then some b else archGet rest i

def archSet (archs : List (Nat × Bytes)) (i : Nat) (b : Bytes) : List (Nat × Bytes) :=
  match archs with
  | [] => [(i, b)]
  | (j, b') :: rest => if j = i then (j, b) :: rest else (j, b') :: archSet rest i b

def slice (b : Bytes) (off len : Nat) : Bytes := (b.drop off).take len

/-- `FileInfo.read` -/
def readInfo (archs : List (Nat × Bytes)) (footer : Bytes) (i : Info) : Except Err Bytes :=
  if i.archLen ≠ 0 then
    match i.archIndex with
    | none => .ok (i.startData ++ slice footer i.offset i.archLen)
    | some j =>
      match archGet archs j with
      | none => .error .nofile
      | some b => .ok (i.startData ++ slice b i.offset i.archLen)
  else .ok i.startData

/-- `FileInfo.verify` (the CRC is continued over the two parts: `crc32(b, crc32(a)) = crc32(a ++ b)`) -/
def verifyInfo (crc : Bytes → Nat) (archs : List (Nat × Bytes)) (footer : Bytes) (i : Info) : Except Err Bool :=
  match readInfo archs footer i with
  | .error e => .error e
  | .ok d => .ok (crc d = i.crc)

/-- `all(file.verify() for file in self)`: stops at the first False, an exception propagates -/
def verifyAll (crc : Bytes → Nat) (archs : List (Nat × Bytes)) (footer : Bytes) : List (Key × Info) → Except Err Bool
  | [] => .ok true
  | (_, i) :: rest =>
    match verifyInfo crc archs footer i with
    | .error e => .error e
    | .ok false => .ok false
    | .ok true => verifyAll crc archs footer rest

def emptyInfo (crc : Bytes → Nat) : Info := ⟨crc [], none, 0, 0, []⟩

/-- result of `FileInfo.write`: new info, new footer, new archives -/
structure Written where
  info : Info
  footer : Bytes
  archs : List (Nat × Bytes)

/-- the preload limit actually used by `FileInfo.write` -/
def effLimit (single : Bool) (dirLimit : Option Nat) : Nat :=
  match (if single then none else dirLimit) with
  | none => MAX_DIR_DATA
  | some l => if l > MAX_DIR_DATA then MAX_DIR_DATA else l

/-- the early return of `FileInfo.write`: same CRC, same size and (only then) `data == self.read()` -/
def sameData (crc : Bytes → Nat) (archs : List (Nat × Bytes)) (footer : Bytes) (i : Info) (data : Bytes) :
    Except Err Bool :=
  if crc data = i.crc ∧ data.length = i.archLen + i.startData.length then
    match readInfo archs footer i with
    | .error e => .error e
    | .ok d => .ok (data = d)
  else .ok false

/-- the placement part of `FileInfo.write`: preload split, then directory tail or numbered archive -/
def placeData (crc : Bytes → Nat) (single : Bool) (dirLimit : Option Nat) (archs : List (Nat × Bytes))
    (footer : Bytes) (data : Bytes) (idx : Option Nat) : Written :=
  let c := crc data
  let lim := effLimit single dirLimit
  let start := data.take lim
  let arch := data.drop lim
  if arch.length ≠ 0 then
    match (if single then none else idx) with
    | none => ⟨⟨c, none, footer.length, arch.length, start⟩, footer ++ arch, archs⟩
    | some j =>
      let old := (archGet archs j).getD []
      ⟨⟨c, some j, old.length, arch.length, start⟩, footer, archSet archs j (old ++ arch)⟩
  else ⟨⟨c, none, 0, 0, start⟩, footer, archs⟩

/-- `FileInfo.write(data, arch_index)` after the mode check -/
def writeInfo (crc : Bytes → Nat) (single : Bool) (dirLimit : Option Nat) (archs : List (Nat × Bytes))
    (footer : Bytes) (i : Info) (data : Bytes) (idx : Option Nat) : Except Err Written :=
  match sameData crc archs footer i data with
  | .error e => .error e
  | .ok true => .ok ⟨i, footer, archs⟩
  | .ok false => .ok (placeData crc single dirLimit archs footer data idx)

/-! ## operations -/

inductive Op
  | openVpk (mode : Mode) (limit : Option Nat)
  | newFile (n : Name)
  | addFile (n : Name) (data : Bytes) (idx : Option Nat)
  | write (n : Name) (data : Bytes) (idx : Option Nat)
  | del (n : Name)
  | flush
  | has (n : Name)
  /-- `VPK.__exit__(exc_type, …)` at the end of a `with VPK(...) as v:` block; `exc` = an exception was
  raised inside the block -/
  | exit (exc : Bool)
deriving Repr, Inhabited

inductive Res
  | ok | yes | no
  | err (e : Err)
deriving Repr, DecidableEq, Inhabited

def blankVpk (mode : Mode) (limit : Option Nat) : Vpk := ⟨[], [], mode, limit, 1⟩

/-- `VPK(path, mode=…, dir_data_limit=…)` → `load_dirfile` -/
def openStep (w : World) (mode : Mode) (limit : Option Nat) : World × Res :=
  match mode with
  | .w => ({ w with dirFile := some [], vpk := some (blankVpk mode limit) }, .ok)
  | _ =>
    match w.dirFile with
    | none =>
      if mode = .a then ({ w with dirFile := some [], vpk := some (blankVpk mode limit) }, .ok)
      else ({ w with vpk := none }, .err .nofile)
    | some b =>
      match decodeDir b with
      | .error e => ({ w with vpk := none }, .err e)
      | .ok l => ({ w with vpk := some ⟨l.tree, l.footer, mode, limit, l.version⟩ }, .ok)

def keyAscii (k : Key) : Bool := isAsciiStr k.dir && isAsciiStr k.name && isAsciiStr k.ext

/-- `VPK.new_file` on an open writable archive: the new tree or an error -/
def newFileTree (crc : Bytes → Nat) (t : Tree) (k : Key) : Except Err Tree :=
  if ¬ keyAscii k then .error .nonascii else
  match t.lookup k with
  | some _ => .error .exists
  | none => .ok (t.put k (emptyInfo crc))

/-- `VPK.write_dirfile` after the mode check -/
def flushStep (w : World) (v : Vpk) : World × Res :=
  if v.version > 1 then (w, .err .v2) else
  if ¬ v.tree.fits then (w, .err .struct) else   -- state of the file after struct.error: not modelled
  ({ w with dirFile := some (encodeDir v.version v.tree v.footer) }, .ok)

def step (crc : Bytes → Nat) (w : World) (op : Op) : World × Res :=
  match op with
  | .openVpk mode limit => openStep w mode limit
  | _ =>
  match w.vpk with
  | none => (w, .err .nohandle)
  | some v =>
    match op with
    | .openVpk _ _ => (w, .ok)   -- handled above
    | .newFile n =>
      if ¬ v.mode.writable then (w, .err .readonly) else
      match newFileTree crc v.tree (getFileParts n) with
      | .error e => (w, .err e)
      | .ok t => ({ w with vpk := some { v with tree := t } }, .ok)
    | .addFile n data idx =>
      if ¬ v.mode.writable then (w, .err .readonly) else
      let k := getFileParts n
      match newFileTree crc v.tree k with
      | .error e => (w, .err e)
      | .ok t =>
        -- new_file succeeded: the (empty) entry stays even if write() raises
        match writeInfo crc w.single v.dirLimit w.archs v.footer (emptyInfo crc) data idx with
        | .error e => ({ w with vpk := some { v with tree := t } }, .err e)
        | .ok wr => ({ w with archs := wr.archs, vpk := some { v with tree := t.put k wr.info, footer := wr.footer } }, .ok)
    | .write n data idx =>
      let k := getFileParts n
      match v.tree.lookup k with
      | none => (w, .err .missing)
      | some i =>
        if ¬ v.mode.writable then (w, .err .readonly) else
        match writeInfo crc w.single v.dirLimit w.archs v.footer i data idx with
        | .error e => (w, .err e)
        | .ok wr => ({ w with archs := wr.archs, vpk := some { v with tree := v.tree.put k wr.info, footer := wr.footer } }, .ok)
    | .del n =>
      if ¬ v.mode.writable then (w, .err .readonly) else
      let k := getFileParts n
      match v.tree.lookup k with
      | none => (w, .err .missing)
      | some _ => ({ w with vpk := some { v with tree := v.tree.del k } }, .ok)
    | .flush =>
      if ¬ v.mode.writable then (w, .err .readonly) else flushStep w v
    | .has n =>
      match v.tree.lookup (getFileParts n) with
      | none => (w, .no)
      | some _ => (w, .yes)
    | .exit exc =>
      -- `if exc_type is None and self.mode.writable: self.write_dirfile()`; returns None (the
      -- exception, if any, propagates; the object stays usable)
      if exc then (w, .ok) else
      if ¬ v.mode.writable then (w, .ok) else flushStep w v

def run (crc : Bytes → Nat) : World → List Op → World × List Res
  | w, [] => (w, [])
  | w, op :: ops =>
    let (w1, r) := step crc w op
    let (w2, rs) := run crc w1 ops
    (w2, r :: rs)

def World.init (single : Bool) : World := ⟨single, none, [], none⟩

/-! ## observation of the open archive (what the property compares) -/

/-- what `read()` returns for a key of the open archive -/
def World.read (w : World) (k : Key) : Option (Except Err Bytes) :=
  match w.vpk with
  | none => none
  | some v => (v.tree.lookup k).map (readInfo w.archs v.footer)

def World.keys (w : World) : List Key :=
  match w.vpk with
  | none => []
  | some v => v.tree.entries.map (·.1)

def World.verifyAll (crc : Bytes → Nat) (w : World) : Except Err Bool :=
  match w.vpk with
  | none => .ok true
  | some v => C13.verifyAll crc w.archs v.footer v.tree.entries

end C13
