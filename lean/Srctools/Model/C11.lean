import Srctools.Model.StructCodec
/-!
# C11 — BSP lump writers are inverses of their readers: executable model

Models, *as coded* in `/repo/src/srctools/bsp.py` and `binformat.py`:

* `rleEncode` / `rleDecode`  — `runlength_encode` / `runlength_decode` (visibility rows);
* `Finder` / `EFinder`       — the closures returned by `find_or_insert` / `find_or_extend`;
* `texWrite` / `texRead`     — texture-name table (`_lmp_write_textures` / `_lmp_read_textures`);
* `visWrite` / `visRead`     — visibility lump (offset table + two RLE rows per cluster);
* `recsWrite` / `recsRead`   — flat record arrays (planes, vertexes, cubemaps …) over `StructCodec`;
* `nameWrite` / `nameRead`   — the `128s` model-name dictionary of static / detail props;
* `PropCond`, `propRecord`   — the version-conditional segments of a static-prop record.

Core Lean only.  Proofs: `Proofs/C11.lean`; property theorems: `Props/C11.lean`.
-/

namespace C11
open StructCodec

/-! ## (i) visibility run-length coding -/

/-- `while dist > 0: result.append(0); result.append(min(255, dist)); dist -= 255` -/
def emitZeros (dist : Nat) : Bytes :=
  if dist = 0 then [] else 0 :: UInt8.ofNat (min 255 dist) :: emitZeros (dist - 255)
termination_by dist
decreasing_by omega

/-- `runlength_encode`, with the pending run of zero bytes as an accumulator: non-zero bytes are
copied, each maximal run of `n` zeros becomes `(0, min 255 n)` pairs. -/
def encAux : Nat → Bytes → Bytes
  | run, [] => emitZeros run
  | run, b :: rest =>
    if b = 0 then encAux (run + 1) rest else emitZeros run ++ b :: encAux 0 rest

def rleEncode (d : Bytes) : Bytes := encAux 0 d

inductive RleErr where
  | truncated   -- a zero marker is the last byte: `data[zero_ind + 1]` raises IndexError
deriving DecidableEq, Repr

/-- The loop of `runlength_decode`.  `head` = we are at the `while` test (the bound on the output
length is tested only there, not while copying a non-zero stretch); `n` = bytes produced so far. -/
def decAux (ret : Nat) : Bool → Nat → Bytes → Except RleErr Bytes
  | _, _, [] => .ok []
  | head, n, b :: rest =>
    if head && decide (ret ≤ n) then .ok []
    else if b ≠ 0 then
      match decAux ret false (n + 1) rest with
      | .ok r => .ok (b :: r)
      | .error e => .error e
    else
      match rest with
      | [] => .error .truncated
      | z :: rest' =>
        match decAux ret true (n + z.toNat) rest' with
        | .ok r => .ok (zeros z.toNat ++ r)
        | .error e => .error e

/-- `ret_bytes`: `1 << 128` for `max_clusters == -1` (here `none`), else `ceil(max_clusters / 8)`. -/
def retBytes : Option Nat → Nat
  | none => 2 ^ 128
  | some m => (m + 7) / 8

/-- `runlength_decode(data, start, max_clusters)`. -/
def rleDecode (data : Bytes) (start : Nat) (maxClusters : Option Nat) : Except RleErr Bytes :=
  match decAux (retBytes maxClusters) true 0 (data.drop start) with
  | .ok r => .ok (r.take (retBytes maxClusters))
  | .error e => .error e

/-! ## (ii) `find_or_insert` / `find_or_extend` -/

section finders
variable {α κ : Type} [DecidableEq κ]

/-- Last index of an element satisfying `p` (a dict comprehension keeps the last duplicate). -/
def lastIdxFrom (p : α → Bool) : Nat → List α → Option Nat
  | _, [] => none
  | i, x :: xs =>
    match lastIdxFrom p (i + 1) xs with
    | some j => some j
    | none => if p x then some i else none

/-- State of a `find_or_insert` closure: the dict `key → index` and the list it appends to. -/
structure Finder (α κ : Type) where
  dict : κ → Option Nat
  list : List α

/-- `find_or_insert(item_list, key_func)`:
`by_index = {key_func(item): i for i, item in enumerate(item_list)}`. -/
def Finder.mk' (key : α → κ) (l : List α) : Finder α κ :=
  { dict := fun k => lastIdxFrom (fun y => key y == k) 0 l, list := l }

/-- `finder(item)`: the index found in the dict, else append and record. -/
def Finder.call (key : α → κ) (f : Finder α κ) (x : α) : Nat × Finder α κ :=
  match f.dict (key x) with
  | some i => (i, f)
  | none =>
    (f.list.length,
     { dict := fun k => if k = key x then some f.list.length else f.dict k,
       list := f.list ++ [x] })

/-- Indices handed out to a sequence of items by one closure (`[finder(x) for x in xs]`). -/
def Finder.callAll (key : α → κ) : Finder α κ → List α → List Nat × Finder α κ
  | f, [] => ([], f)
  | f, x :: xs =>
    ((f.call key x).1 :: (Finder.callAll key (f.call key x).2 xs).1, (Finder.callAll key (f.call key x).2 xs).2)

/-- The texdata table of `_lmp_write_texinfo`: `texdata_ind` / `next_ind` are a `find_or_insert`
over an initially empty table; `key` is what the dict is keyed on — the TexData *object* as coded
(`dict[TexData, int]`, attrs `eq=False` ⇒ identity).  Returns the texdata index written into each
texinfo record and the texdata records in the order they are written. -/
def texdataTable (key : α → κ) (texdataOfInfo : List α) : List Nat × List α :=
  ((Finder.callAll key (Finder.mk' key []) texdataOfInfo).1,
   (Finder.callAll key (Finder.mk' key []) texdataOfInfo).2.list)

/-- All indices (from `i`) of elements satisfying `p`, ascending. -/
def idxsFrom (p : α → Bool) : Nat → List α → List Nat
  | _, [] => []
  | i, x :: xs => if p x then i :: idxsFrom p (i + 1) xs else idxsFrom p (i + 1) xs

/-- State of a `find_or_extend` closure: `key → [indices]` and the list. -/
structure EFinder (α κ : Type) where
  dict : κ → List Nat
  list : List α

def EFinder.mk' (key : α → κ) (l : List α) : EFinder α κ :=
  { dict := fun k => idxsFrom (fun y => key y == k) 0 l, list := l }

/-- `all(key(a) == key(b) for a, b in zip(items, islice(item_list, i, i + len(items))))`.
NB `zip` stops at the shorter argument. -/
def zipMatches (key : α → κ) (l items : List α) (i : Nat) : Bool :=
  (List.zip items ((l.drop i).take items.length)).all (fun p => key p.1 == key p.2)

/-- The candidate test of `finder(items)`.  `bounded` = the source also requires the whole slice
`item_list[i : i + len(items)]` to exist (extracted from the source by the translator). -/
def candidateOk (bounded : Bool) (key : α → κ) (l items : List α) (i : Nat) : Bool :=
  (!bounded || decide (i + items.length ≤ l.length)) && zipMatches key l items i

def EFinder.call (bounded : Bool) (key : α → κ) (f : EFinder α κ) (items : List α) :
    Nat × EFinder α κ :=
  match items with
  | [] => (0, f)
  | x :: _ =>
    match (f.dict (key x)).find? (candidateOk bounded key f.list items) with
    | some i => (i, f)
    | none =>
      (f.list.length,
       { dict := fun k => f.dict k ++ idxsFrom (fun y => key y == k) f.list.length items,
         list := f.list ++ items })

end finders

/-! ## texture-name table -/

/-- `bytes.find(needle)` : first index `i` such that `needle` is a prefix of `hay[i:]`. -/
def findSubFrom (needle : Bytes) : Nat → Bytes → Option Nat
  | i, [] => if needle.isEmpty then some i else none
  | i, h :: hay =>
    if needle.isPrefixOf (h :: hay) then some i else findSubFrom needle (i + 1) hay

inductive LumpErr where
  | tooLong      -- name exceeds the field (`OverflowError` / `ValueError`)
  | range        -- integer does not fit (struct.error)
  | badString    -- reader: no NUL within 128 bytes
  | badData      -- reader: malformed buffer
  | badEnum      -- reader: value outside the enum
  | mismatch     -- writer: inconsistent lengths
  | rle          -- reader: truncated RLE stream
deriving DecidableEq, Repr

/-- State of `_lmp_write_textures`: accumulated string data and the offsets table. -/
def texStep (limit : Nat) (st : Bytes × List Nat) (name : Bytes) : Except LumpErr (Bytes × List Nat) :=
  if limit ≤ name.length then .error .tooLong
  else
    let s := name ++ [0]
    match findSubFrom s 0 st.1 with
    | some i => .ok (st.1, st.2 ++ [i])
    | none => .ok (st.1 ++ s, st.2 ++ [st.1.length])

def texFold (limit : Nat) : Bytes × List Nat → List Bytes → Except LumpErr (Bytes × List Nat)
  | st, [] => .ok st
  | st, n :: ns =>
    match texStep limit st n with
    | .ok st' => texFold limit st' ns
    | .error e => .error e

/-- `_lmp_write_textures`: (string data lump, offsets). `limit` = 128 (`len(tex) >= 128` raises). -/
def texWrite (limit : Nat) (names : List Bytes) : Except LumpErr (Bytes × List Nat) :=
  texFold limit ([], []) names

/-- `struct.pack('<i', n)` of a non-negative number.  (Written with combinators, not `match`, so
that no matcher ever has `packInt 4 true ↑n` with a symbolic `n` as discriminant.) -/
def pack32 (n : Nat) : Except LumpErr Bytes :=
  (packInt 4 true n).mapError (fun _ => LumpErr.range)

/-- concatenation of byte strings, failing with the first error -/
def catOk : List (Except LumpErr Bytes) → Except LumpErr Bytes
  | [] => .ok []
  | x :: xs =>
    match x with
    | .error e => .error e
    | .ok b =>
      match catOk xs with
      | .error e => .error e
      | .ok r => .ok (b ++ r)

/-- The offsets table lump: each offset packed `<i`. -/
def offsTable (offs : List Nat) : Except LumpErr Bytes := catOk (offs.map pack32)

/-- index of the first NUL in `b`, if any -/
def nulIdx : Bytes → Option Nat
  | [] => none
  | b :: bs => if b = 0 then some 0 else (nulIdx bs).map (· + 1)

/-- One string of `_lmp_read_textures`: `tex_data.index(b'\0', off, off + 128)`. -/
def texReadOne (limit : Nat) (data : Bytes) (off : Nat) : Except LumpErr Bytes :=
  match nulIdx ((data.drop off).take limit) with
  | some k => .ok ((data.drop off).take k)
  | none => .error .badString

def texRead (limit : Nat) (data : Bytes) : List Nat → Except LumpErr (List Bytes)
  | [] => .ok []
  | o :: os =>
    match texReadOne limit data o with
    | .error e => .error e
    | .ok s =>
      match texRead limit data os with
      | .error e => .error e
      | .ok r => .ok (s :: r)

/-! ## `128s` model-name dictionary (static props, detail props) -/

/-- Writer of one dictionary entry. `guarded` = the call site raises when the name is longer than
the field (extracted from the source); otherwise `struct.pack('<128s', …)` truncates silently. -/
def nameWrite (guarded : Bool) (n : Nat) (name : Bytes) : Except LumpErr Bytes :=
  if guarded && decide (n < name.length) then .error .tooLong else .ok (packStr n name)

/-- Reader: `padded_name.rstrip(b'\x00')`. -/
def nameRead (field : Bytes) : Bytes := rstrip0 field

/-! ## flat record arrays over StructCodec (planes, vertexes, cubemaps, …) -/

def recsWrite (fmt : Fmt) (recs : List (List Val)) : Except LumpErr Bytes :=
  match packMany fmt recs with
  | .ok b => .ok b
  | .error _ => .error .range

def recsRead (fmt : Fmt) (data : Bytes) : Except LumpErr (List (List Val)) :=
  match unpackMany fmt data with
  | .ok r => .ok r
  | .error _ => .error .badData

/-- `PlaneType(typ)` accepts 0..5 only. -/
def planeTypeOk (r : List Val) : Bool :=
  match r with
  | [_, _, _, _, .int t] => decide (0 ≤ t) && decide (t ≤ 5)
  | _ => false

/-- `_lmp_read_planes`: records `<ffffi>`, the type must be a `PlaneType`. -/
def planesRead (fmt : Fmt) (data : Bytes) : Except LumpErr (List (List Val)) :=
  match recsRead fmt data with
  | .ok rs => if rs.all planeTypeOk then .ok rs else .error .badEnum
  | .error e => .error e

/-! ## visibility lump -/

/-- Rows appended after the table; returns (offsets of (pvs, pas) per cluster, row bytes). -/
def visRows : Nat → List Bytes → List Bytes → List (Nat × Nat) × Bytes
  | off, p :: ps, a :: as =>
    let ep := rleEncode p
    let ea := rleEncode a
    let r := visRows (off + ep.length + ea.length) ps as
    ((off, off + ep.length) :: r.1, ep ++ ea ++ r.2)
  | _, _, _ => ([], [])

def visEntry (e : Nat × Nat) : Except LumpErr Bytes :=
  (pack32 e.1).bind fun bp => (pack32 e.2).map fun ba => bp ++ ba

def visTable (l : List (Nat × Nat)) : Except LumpErr Bytes := catOk (l.map visEntry)

/-- `_lmp_write_visibility(vis)` for `vis` not None. -/
def visWrite (pvs pas : List Bytes) : Except LumpErr Bytes :=
  if pvs.length ≠ pas.length then .error .mismatch
  else
    (pack32 pvs.length).bind fun hdr =>
      (visTable (visRows (4 + 8 * pvs.length) pvs pas).1).map fun tbl =>
        hdr ++ tbl ++ (visRows (4 + 8 * pvs.length) pvs pas).2

/-- rows of `_lmp_read_visibility`: for `i < count`, offsets at `4 + 8 i`. -/
def visReadRows (data : Bytes) (count : Nat) : Nat → Nat → Except LumpErr (List Bytes × List Bytes)
  | 0, _ => .ok ([], [])
  | k + 1, i =>
    let ent := (data.drop (4 + 8 * i)).take 8
    if ent.length < 8 then .error .badData
    else
      let po := unpackInt 4 true (ent.take 4)
      let ao := unpackInt 4 true (ent.drop 4)
      if po < 0 ∨ ao < 0 then .error .badData
      else
        match rleDecode data po.toNat (some count) with
        | .error _ => .error .rle
        | .ok p =>
          match rleDecode data ao.toNat (some count) with
          | .error _ => .error .rle
          | .ok a =>
            match visReadRows data count k (i + 1) with
            | .error e => .error e
            | .ok r => .ok (p :: r.1, a :: r.2)

/-- `_lmp_read_visibility(data)` for non-empty data. -/
def visRead (data : Bytes) : Except LumpErr (List Bytes × List Bytes) :=
  if data.length < 4 then .error .badData
  else
    let c := unpackInt 4 true (data.take 4)
    if c < 0 then .ok ([], [])
    else visReadRows data c.toNat c.toNat 0

/-! ## static-prop record: version-conditional segments -/

/-- Conditions guarding a segment of the static-prop record, as they appear in the source. -/
inductive PropCond where
  | always
  | versGe (n : Nat)            -- `vers_num >= n`
  | versIn (ns : List Nat)      -- `vers_num in (…)`
  | isLightmap                  -- `version.is_lightmap`
  | isSdk2013                   -- `version.is_sdk_2013`
  | isVer (name : List Char)    -- `version is StaticPropVersion.<name>`
  | and (a b : PropCond)
  | or (a b : PropCond)
  | not (a : PropCond)
  | unknown                     -- the translator could not classify the test
deriving Repr

/-- A member of `StaticPropVersion`. -/
structure PropVersion where
  name : List Char
  version : Nat
  size : Nat
deriving Repr, DecidableEq

def PropVersion.isLightmap (v : PropVersion) : Bool :=
  ['V', '_', 'L', 'I', 'G', 'H', 'T', 'M', 'A', 'P'].isPrefixOf v.name
def PropVersion.isSdk2013 (v : PropVersion) : Bool :=
  ['V', '_', 'L', 'I', 'G', 'H', 'T', 'M', 'A', 'P', '_', 'v'].isPrefixOf v.name
/-- `vers_num` after `if version.is_lightmap: vers_num = 7`. -/
def PropVersion.versNum (v : PropVersion) : Nat := if v.isLightmap then 7 else v.version

def PropCond.eval (v : PropVersion) : PropCond → Option Bool
  | .always => some true
  | .versGe n => some (decide (n ≤ v.versNum))
  | .versIn ns => some (ns.contains v.versNum)
  | .isLightmap => some v.isLightmap
  | .isSdk2013 => some v.isSdk2013
  | .isVer n => some (v.name == n)
  | .and a b => match a.eval v, b.eval v with
    | some x, some y => some (x && y)
    | _, _ => none
  | .or a b => match a.eval v, b.eval v with
    | some x, some y => some (x || y)
    | _, _ => none
  | .not a => (a.eval v).map (!·)
  | .unknown => none

/-- The record format of a version: concatenation of the segments whose condition holds. -/
def propRecord (v : PropVersion) : List (PropCond × Fmt) → Option Fmt
  | [] => some []
  | (c, f) :: rest =>
    match c.eval v, propRecord v rest with
    | some true, some r => some (f ++ r)
    | some false, some r => some r
    | _, _ => none

end C11
