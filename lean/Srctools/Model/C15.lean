/-!
# C15 — model of the VTF pixel codecs, mipmaps, frame table and file layout

Model of `/repo/src/srctools/_py_vtf_readwrite.py` (per-format `load_*` / `save_*`, `scale_down`)
and of the structural part of `/repo/src/srctools/vtf.py` (`VTF.__init__` mipmap chain,
`Frame.__getitem__` bounds, `_depth_range`, the order in which `save` writes and `read`
expects the frames, the header / resource table / particle sheet layout).

The per-pixel codecs are *data*: every codec is a list of expressions of the small language `E`
(one expression per output byte for `save_*`, one per RGBA channel for `load_*`).  The same
expressions are regenerated from the Python source by `tools/gen_vtf.py` (`Gen/Vtf.lean`) and
`Props/C15.lean` proves `Gen.Vtf.codecs = C15.codecs` by `decide`.

Core Lean only: this file is linked into the compiled driver `drv_c15`.
-/

namespace C15

/-! ## 1. Expression language of the per-pixel codecs -/

/-- Expressions over natural numbers, as they occur in the codecs.
`var i` is the `i`-th input (channel `r g b a` = `0 1 2 3` for `save_*`, byte `i` of the pixel's
encoded form for `load_*`).  `eq`, `lt`, `land` yield `0`/`1`; `ite c t e` tests `c ≠ 0`
(Python truthiness). Shift amounts and divisors are literals in the source. -/
inductive E where
  | var (i : Nat)
  | lit (n : Nat)
  | and (a b : E)
  | or (a b : E)
  | shl (a : E) (k : Nat)
  | shr (a : E) (k : Nat)
  | add (a b : E)
  | div (a : E) (k : Nat)
  | eq (a b : E)
  | lt (a b : E)
  | land (a b : E)
  | ite (cd t e : E)
deriving DecidableEq, Repr, Inhabited

namespace E

def eval (env : Nat → Nat) : E → Nat
  | .var i => env i
  | .lit n => n
  | .and a b => a.eval env &&& b.eval env
  | .or a b => a.eval env ||| b.eval env
  | .shl a k => a.eval env <<< k
  | .shr a k => a.eval env >>> k
  | .add a b => a.eval env + b.eval env
  | .div a k => a.eval env / k
  | .eq a b => if a.eval env = b.eval env then 1 else 0
  | .lt a b => if a.eval env < b.eval env then 1 else 0
  | .land a b => if a.eval env ≠ 0 ∧ b.eval env ≠ 0 then 1 else 0
  | .ite cd t e => if cd.eval env ≠ 0 then t.eval env else e.eval env

/-- Substitute the expressions `s` for the variables. -/
def subst (s : List E) : E → E
  | .var i => s.getD i (.lit 0)
  | .lit n => .lit n
  | .and a b => .and (a.subst s) (b.subst s)
  | .or a b => .or (a.subst s) (b.subst s)
  | .shl a k => .shl (a.subst s) k
  | .shr a k => .shr (a.subst s) k
  | .add a b => .add (a.subst s) (b.subst s)
  | .div a k => .div (a.subst s) k
  | .eq a b => .eq (a.subst s) (b.subst s)
  | .lt a b => .lt (a.subst s) (b.subst s)
  | .land a b => .land (a.subst s) (b.subst s)
  | .ite cd t e => .ite (cd.subst s) (t.subst s) (e.subst s)

/-- Only `var lit and or shl shr` (the purely bitwise fragment). -/
def bitwise : E → Bool
  | .var _ => true
  | .lit _ => true
  | .and a b => a.bitwise && b.bitwise
  | .or a b => a.bitwise && b.bitwise
  | .shl a _ => a.bitwise
  | .shr a _ => a.bitwise
  | _ => false

end E

/-! ### Bit routing: a sound abstract interpretation of the bitwise fragment

Every bit of the value of a bitwise expression over byte-sized variables is either a constant, or
a copy of one input bit, or unknown.  `E.abs e j` computes that description for bit `j`;
`Proofs/C15.lean` proves it sound, so that two expressions with the same fully-known routing are
equal for **all** inputs — a closed computation instead of an enumeration of `256⁴` pixels. -/

inductive Bit where
  | zero | one
  | inp (v k : Nat)
  | unk
deriving DecidableEq, Repr

def Bit.and : Bit → Bit → Bit
  | .zero, _ => .zero
  | _, .zero => .zero
  | .one, b => b
  | a, .one => a
  | .inp v k, .inp v' k' => if v = v' ∧ k = k' then .inp v k else .unk
  | _, _ => .unk

def Bit.or : Bit → Bit → Bit
  | .zero, b => b
  | a, .zero => a
  | .one, _ => .one
  | _, .one => .one
  | .inp v k, .inp v' k' => if v = v' ∧ k = k' then .inp v k else .unk
  | _, _ => .unk

namespace E

/-- description of bit `j` of the value (variables are bytes). -/
def abs : E → Nat → Bit
  | .var i, j => if j < 8 then .inp i j else .zero
  | .lit n, j => if n.testBit j then .one else .zero
  | .and a b, j => (a.abs j).and (b.abs j)
  | .or a b, j => (a.abs j).or (b.abs j)
  | .shl a k, j => if j < k then .zero else a.abs (j - k)
  | .shr a k, j => a.abs (k + j)
  | _, _ => .unk

/-- the value is `< 2 ^ wid` (for the bitwise fragment, variables being bytes). -/
def wid : E → Nat
  | .var _ => 8
  | .lit n => n.log2 + 1
  | .and a b => min a.wid b.wid
  | .or a b => max a.wid b.wid
  | .shl a k => a.wid + k
  | .shr a _ => a.wid
  | _ => 0

/-- Decidable sufficient condition for `e1` and `e2` to have the same value under every
assignment of bytes to the variables. -/
def same (e1 e2 : E) : Bool :=
  e1.bitwise && e2.bitwise &&
    (List.range (max e1.wid e2.wid)).all fun j => e1.abs j == e2.abs j && e1.abs j != .unk

end E

/-! ## 2. Formats and codecs -/

/-- One `ImageFormats` member: `(r, g, b, a, size, ind)` and `is_compressed`. -/
structure FmtInfo where
  ind : Nat
  r : Nat
  g : Nat
  b : Nat
  a : Nat
  size : Nat
  compressed : Bool
deriving DecidableEq, Repr, Inhabited

/-- The per-pixel codec of one format (`ind` as in `FmtInfo`): which of `load_<name>` /
`save_<name>` exist in `_py_vtf_readwrite.py`, and — when they work pixel by pixel — the
expressions (`load`: 4 expressions over the pixel's bytes; `save`: one per byte over `r g b a`).
Block formats (DXT, ATI) have `hasLoad = true` and `load = []`. -/
structure Codec where
  ind : Nat
  hasLoad : Bool
  hasSave : Bool
  load : List E
  save : List E
deriving DecidableEq, Repr, Inhabited

/-- `upsample(bits, data)`: `data | (data >> bits)`. -/
def up (bits : Nat) (d : E) : E := .or d (.shr d bits)

abbrev R : E := .var 0
abbrev G : E := .var 1
abbrev B : E := .var 2
abbrev A : E := .var 3

/-- `decomp565(a, b)` → the three components in the order returned. -/
def decomp565 (a b : E) : E × E × E :=
  (up 5 (.shl (.and a (.lit 31)) 3),
   up 6 (.or (.shl (.and b (.lit 7)) 5) (.shr (.and a (.lit 224)) 3)),
   up 5 (.and b (.lit 248)))

/-- `compress565(r, g, b)` → the two bytes, AS CODED: the first argument goes to the high five bits
of the second byte and the third to the low five bits of the first byte — the opposite of where
`decomp565` looks for them (open finding `codec-RGB565` / `codec-BGR565`; the repository's reference
files pin these bytes, so the encoder could not be repaired). -/
def compress565 (r g b : E) : E × E :=
  (.or (.and (.shl g 3) (.lit 224)) (.shr b 3),
   .or (.and r (.lit 248)) (.shr g 5))

/-- The encoder that agrees with `decomp565` (and with the files written by VTFEdit): not the code. -/
def compress565Fixed (r g b : E) : E × E :=
  (.or (.and (.shl g 3) (.lit 224)) (.shr r 3),
   .or (.and b (.lit 248)) (.shr g 5))

def loadRGB565 : List E :=
  let d := decomp565 (.var 0) (.var 1); [d.1, d.2.1, d.2.2, .lit 255]
def saveRGB565 : List E := let c := compress565 R G B; [c.1, c.2]
def loadBGR565 : List E :=
  let d := decomp565 (.var 0) (.var 1); [d.2.2, d.2.1, d.1, .lit 255]
def saveBGR565 : List E := let c := compress565 B G R; [c.1, c.2]

def loadBGRA4444 : List E :=
  [ .or (.and (.var 1) (.lit 15)) (.shl (.and (.var 1) (.lit 15)) 4),
    .or (.and (.var 0) (.lit 240)) (.shr (.and (.var 0) (.lit 240)) 4),
    .or (.and (.var 0) (.lit 15)) (.shl (.and (.var 0) (.lit 15)) 4),
    .or (.and (.var 1) (.lit 240)) (.shr (.and (.var 1) (.lit 240)) 4) ]
def saveBGRA4444 : List E :=
  [ .or (.and G (.lit 240)) (.shr B 4), .or (.and A (.lit 240)) (.shr R 4) ]

def load5551rgb : List E :=
  [ up 5 (.shl (.and (.var 1) (.lit 124)) 1),
    up 5 (.or (.shr (.and (.var 0) (.lit 224)) 2) (.shl (.and (.var 1) (.lit 3)) 6)),
    up 5 (.shl (.and (.var 0) (.lit 31)) 3) ]
def loadBGRA5551 : List E := load5551rgb ++ [.ite (.and (.var 1) (.lit 128)) (.lit 255) (.lit 0)]
def loadBGRX5551 : List E := load5551rgb ++ [.lit 255]
def saveBGRA5551 : List E :=
  [ .or (.and (.shl G 2) (.lit 224)) (.shr B 3),
    .or (.or (.and A (.lit 128)) (.and (.shr R 1) (.lit 124))) (.shr G 6) ]
def saveBGRX5551 : List E :=
  [ .or (.and (.shl G 2) (.lit 224)) (.shr B 3),
    .or (.and (.shr R 1) (.lit 124)) (.shr G 6) ]

def grey : E := .div (.add (.add R G) B) 3

def loadBlue (r g b : E) : List E :=
  let c : E := .land (.land (.eq r g) (.eq g (.lit 0))) (.eq b (.lit 255))
  [.ite c (.lit 0) r, .ite c (.lit 0) g, .ite c (.lit 0) b, .ite c (.lit 0) (.lit 255)]
def saveBlue3 : E × E × E :=
  let c : E := .lt A (.lit 128)
  (.ite c (.lit 0) R, .ite c (.lit 0) G, .ite c (.lit 255) B)

/-- The codec table, in `ind` order (all 30 members of `ImageFormats`). -/
def codecs : List Codec :=
  [ ⟨0, true, true, [.var 0, .var 1, .var 2, .var 3], [R, G, B, A]⟩,            -- RGBA8888
    ⟨1, true, true, [.var 3, .var 2, .var 1, .var 0], [A, B, G, R]⟩,            -- ABGR8888
    ⟨2, true, true, [.var 0, .var 1, .var 2, .lit 255], [R, G, B]⟩,             -- RGB888
    ⟨3, true, true, [.var 2, .var 1, .var 0, .lit 255], [B, G, R]⟩,             -- BGR888
    ⟨4, true, true, loadRGB565, saveRGB565⟩,                                   -- RGB565
    ⟨5, true, true, [.var 0, .var 0, .var 0, .lit 255], [grey]⟩,                -- I8
    ⟨6, true, true, [.var 0, .var 0, .var 0, .var 1], [grey, A]⟩,               -- IA88
    ⟨7, false, false, [], []⟩,                                                 -- P8
    ⟨8, true, true, [.lit 0, .lit 0, .lit 0, .var 0], [A]⟩,                     -- A8
    ⟨9, true, true, loadBlue (.var 0) (.var 1) (.var 2),
        [saveBlue3.1, saveBlue3.2.1, saveBlue3.2.2]⟩,                          -- RGB888_BLUESCREEN
    ⟨10, true, true, loadBlue (.var 2) (.var 1) (.var 0),
        [saveBlue3.2.2, saveBlue3.2.1, saveBlue3.1]⟩,                          -- BGR888_BLUESCREEN
    ⟨11, true, true, [.var 3, .var 0, .var 1, .var 2], [G, B, A, R]⟩,           -- ARGB8888 ('gbar')
    ⟨12, true, true, [.var 2, .var 1, .var 0, .var 3], [B, G, R, A]⟩,           -- BGRA8888
    ⟨13, true, false, [], []⟩,                                                 -- DXT1
    ⟨14, true, false, [], []⟩,                                                 -- DXT3
    ⟨15, true, false, [], []⟩,                                                 -- DXT5
    ⟨16, true, true, [.var 2, .var 1, .var 0, .lit 255], [B, G, R, .lit 0]⟩,    -- BGRX8888
    ⟨17, true, true, loadBGR565, saveBGR565⟩,                                  -- BGR565
    ⟨18, true, true, loadBGRX5551, saveBGRX5551⟩,                              -- BGRX5551
    ⟨19, true, true, loadBGRA4444, saveBGRA4444⟩,                              -- BGRA4444
    ⟨20, true, false, [], []⟩,                                                 -- DXT1_ONEBITALPHA
    ⟨21, true, true, loadBGRA5551, saveBGRA5551⟩,                              -- BGRA5551
    ⟨22, true, true, [.var 0, .var 1, .lit 0, .lit 255], [R, G]⟩,               -- UV88
    ⟨23, true, true, [.var 0, .var 1, .var 2, .var 3], [R, G, B, A]⟩,           -- UVWQ8888
    ⟨24, false, false, [], []⟩,                                                -- RGBA16161616F
    ⟨25, false, false, [], []⟩,                                                -- RGBA16161616
    ⟨26, true, true, [.var 0, .var 1, .var 2, .var 3], [R, G, B, A]⟩,           -- UVLX8888
    ⟨27, false, false, [], []⟩,                                                -- NONE
    ⟨28, false, false, [], []⟩,                                                -- ATI1N
    ⟨29, true, false, [], []⟩ ]                                                -- ATI2N

/-- The `ImageFormats` table `(ind, r, g, b, a, size, is_compressed)`. -/
def formats : List FmtInfo :=
  [ ⟨0, 8, 8, 8, 8, 32, false⟩, ⟨1, 8, 8, 8, 8, 32, false⟩, ⟨2, 8, 8, 8, 0, 24, false⟩,
    ⟨3, 8, 8, 8, 0, 24, false⟩, ⟨4, 5, 6, 5, 0, 16, false⟩, ⟨5, 8, 8, 8, 0, 8, false⟩,
    ⟨6, 8, 8, 8, 8, 16, false⟩, ⟨7, 0, 0, 0, 0, 0, false⟩, ⟨8, 0, 0, 0, 8, 8, false⟩,
    ⟨9, 8, 8, 8, 0, 24, false⟩, ⟨10, 8, 8, 8, 0, 24, false⟩, ⟨11, 8, 8, 8, 8, 32, false⟩,
    ⟨12, 8, 8, 8, 8, 32, false⟩, ⟨13, 0, 0, 0, 0, 64, true⟩, ⟨14, 0, 0, 0, 0, 128, true⟩,
    ⟨15, 0, 0, 0, 0, 128, true⟩, ⟨16, 8, 8, 8, 8, 32, false⟩, ⟨17, 5, 6, 5, 0, 16, false⟩,
    ⟨18, 5, 5, 5, 1, 16, false⟩, ⟨19, 4, 4, 4, 4, 16, false⟩, ⟨20, 0, 0, 0, 0, 64, true⟩,
    ⟨21, 5, 5, 5, 1, 16, false⟩, ⟨22, 0, 0, 0, 0, 16, false⟩, ⟨23, 0, 0, 0, 0, 32, false⟩,
    ⟨24, 16, 16, 16, 16, 64, false⟩, ⟨25, 16, 16, 16, 16, 64, false⟩, ⟨26, 0, 0, 0, 0, 32, false⟩,
    ⟨27, 0, 0, 0, 0, 0, false⟩, ⟨28, 0, 0, 0, 0, 64, true⟩, ⟨29, 0, 0, 0, 0, 128, true⟩ ]

/-- index of `ImageFormats.NONE`. -/
def fmtNone : Nat := 27

def codecOf (ind : Nat) : Codec := codecs.getD ind default
def fmtOf (ind : Nat) : FmtInfo := formats.getD ind default

/-- A format can be written by `VTF.save` with the pure-Python codecs. -/
def writable (ind : Nat) : Bool := (codecOf ind).hasSave

/-- `ImageFormats.frame_size(width, height)`. -/
def frameSize (f : FmtInfo) (w h : Nat) : Nat :=
  if f.compressed then f.size * ((w + 3) / 4) * ((h + 3) / 4) / 8 else f.size * w * h / 8

/-- Table predicate: every format that has a saver also has a loader, both are per-pixel with four
channels out, the saver produces exactly `size / 8` bytes per pixel, the loader reads only those
bytes and the saver only the four channels. -/
def varsBelow (n : Nat) : E → Bool
  | .var i => i < n
  | .lit _ => true
  | .and a b => varsBelow n a && varsBelow n b
  | .or a b => varsBelow n a && varsBelow n b
  | .shl a _ => varsBelow n a
  | .shr a _ => varsBelow n a
  | .add a b => varsBelow n a && varsBelow n b
  | .div a _ => varsBelow n a
  | .eq a b => varsBelow n a && varsBelow n b
  | .lt a b => varsBelow n a && varsBelow n b
  | .land a b => varsBelow n a && varsBelow n b
  | .ite c t e => varsBelow n c && varsBelow n t && varsBelow n e

def codecOK (fs : List FmtInfo) (c : Codec) : Bool :=
  !c.hasSave ||
    (c.hasLoad && c.load.length == 4 && c.save.length * 8 == (fs.getD c.ind default).size
      && !(fs.getD c.ind default).compressed
      && c.load.all (varsBelow c.save.length) && c.save.all (varsBelow 4))

def tablesOK (fs : List FmtInfo) (cs : List Codec) : Bool :=
  fs.length == cs.length && (List.range fs.length).all (fun i => (fs.getD i default).ind == i
    && (cs.getD i default).ind == i) && cs.all (codecOK fs)

/-! ### Pixels -/

structure Px where
  r : Nat
  g : Nat
  b : Nat
  a : Nat
deriving DecidableEq, Repr, Inhabited

def Px.valid (p : Px) : Prop := p.r < 256 ∧ p.g < 256 ∧ p.b < 256 ∧ p.a < 256

instance (p : Px) : Decidable p.valid := by unfold Px.valid; infer_instance

def Px.env (p : Px) : Nat → Nat
  | 0 => p.r
  | 1 => p.g
  | 2 => p.b
  | _ => p.a

def Px.toList (p : Px) : List Nat := [p.r, p.g, p.b, p.a]

def Px.ofList (l : List Nat) : Px := ⟨l.getD 0 0, l.getD 1 0, l.getD 2 0, l.getD 3 0⟩

/-- environment of a loader: byte `i` of the encoded pixel. -/
def bytesEnv (bs : List Nat) : Nat → Nat := fun i => bs.getD i 0

/-- `save_<fmt>` on one pixel. -/
def saveF (c : Codec) (p : Px) : List Nat := c.save.map (E.eval p.env)

/-- `load_<fmt>` on one pixel's bytes. -/
def loadF (c : Codec) (bs : List Nat) : Px := Px.ofList (c.load.map (E.eval (bytesEnv bs)))

/-- `k` consecutive chunks of `n` elements. -/
def chunksAux (n : Nat) : Nat → List Nat → List (List Nat)
  | 0, _ => []
  | k + 1, l => l.take n :: chunksAux n k (l.drop n)

/-- chunks of `n` (a tail shorter than `n` is dropped). -/
def chunks (n : Nat) (l : List Nat) : List (List Nat) :=
  if n = 0 then [] else chunksAux n (l.length / n) l

/-- `save_<fmt>` on an RGBA array. -/
def saveImg (c : Codec) (px : List Nat) : List Nat :=
  (chunks 4 px).flatMap fun q => saveF c (Px.ofList q)

/-- `load_<fmt>` on a data block. -/
def loadImg (c : Codec) (data : List Nat) : List Nat :=
  (chunks c.save.length data).flatMap fun q => (loadF c q).toList

/-! ### The documented quantisation of each writable format

What a pixel becomes when it is stored in the format and read back: the top `n` bits of a channel
are kept and replicated into the freed low bits (`q5`, `q6`, `q4`), one-bit alpha is `0`/`255`
(`q1`), greyscale formats store the floor mean of `r g b`, formats without a channel read it back
as its constant, and the "bluescreen" formats make a pixel fully transparent black when its alpha
is below 128 (pure blue `(0,0,255)` is the on-disk code for that, so opaque pure blue is lost too). -/

def q5 (x : Nat) : Nat := (x &&& 248) ||| (x >>> 5)
def q6 (x : Nat) : Nat := (x &&& 252) ||| (x >>> 6)
def q4 (x : Nat) : Nat := (x &&& 240) ||| (x >>> 4)
def q1 (x : Nat) : Nat := if x &&& 128 ≠ 0 then 255 else 0
def greyOf (p : Px) : Nat := (p.r + p.g + p.b) / 3

def quant (ind : Nat) (p : Px) : Px :=
  if ind = 2 ∨ ind = 3 ∨ ind = 16 then ⟨p.r, p.g, p.b, 255⟩
  else if ind = 4 ∨ ind = 17 then ⟨q5 p.r, q6 p.g, q5 p.b, 255⟩   -- documented; NOT what the code does
  else if ind = 18 then ⟨q5 p.r, q5 p.g, q5 p.b, 255⟩
  else if ind = 21 then ⟨q5 p.r, q5 p.g, q5 p.b, q1 p.a⟩
  else if ind = 19 then ⟨q4 p.r, q4 p.g, q4 p.b, q4 p.a⟩
  else if ind = 5 then ⟨greyOf p, greyOf p, greyOf p, 255⟩
  else if ind = 6 then ⟨greyOf p, greyOf p, greyOf p, p.a⟩
  else if ind = 8 then ⟨0, 0, 0, p.a⟩
  else if ind = 22 then ⟨p.r, p.g, 0, 255⟩
  else if ind = 9 ∨ ind = 10 then
    (if p.a < 128 ∨ (p.r = 0 ∧ p.g = 0 ∧ p.b = 255) then ⟨0, 0, 0, 0⟩ else ⟨p.r, p.g, p.b, 255⟩)
  else p

/-- the formats `VTF.save` can write with the pure-Python codecs. -/
def writableInds : List Nat := [0, 1, 2, 3, 4, 5, 6, 8, 9, 10, 11, 12, 16, 17, 18, 19, 21, 22, 23, 26]

/-- the writable formats whose codec obeys the round-trip law: all but RGB565 (4) and BGR565 (17). -/
def lawfulInds : List Nat := [0, 1, 2, 3, 5, 6, 8, 9, 10, 11, 12, 16, 18, 19, 21, 22, 23, 26]

/-- RGB565 / BGR565 with the encoder that agrees with the decoder (not the code: see `compress565`). -/
def fixedRGB565 : Codec := ⟨4, true, true, loadRGB565, let c := compress565Fixed R G B; [c.1, c.2]⟩
def fixedBGR565 : Codec := ⟨17, true, true, loadBGR565, let c := compress565Fixed B G R; [c.1, c.2]⟩

/-- the documented quantisation applied to every pixel of an RGBA array. -/
def quantImg (ind : Nat) (px : List Nat) : List Nat :=
  (chunks 4 px).flatMap fun q => (quant ind (Px.ofList q)).toList

/-! ## 3. Mipmaps -/

/-- The dimension chain created by `VTF.__init__`: halve both until either is `≤ 1`
(the level at which that happens is still created). `fuel` bounds the recursion. -/
def ctorLevelsAux : Nat → Nat → Nat → List (Nat × Nat)
  | 0, w, h => [(w, h)]
  | fuel + 1, w, h => if w ≤ 1 ∨ h ≤ 1 then [(w, h)] else (w, h) :: ctorLevelsAux fuel (w >>> 1) (h >>> 1)

def ctorLevels (w h : Nat) : List (Nat × Nat) := ctorLevelsAux w w h

/-- `VTF.mipmap_count` as set by `__init__`: `max(index of the last level created, 1)` — one less
than the number of levels created (the smallest level exists in the object but is neither declared
nor saved; the repository's reference files pin this), except that a texture with a side of 1 has its
single level declared (repair `a449d79`). -/
def ctorMipCount (w h : Nat) : Nat := max ((ctorLevels w h).length - 1) 1

/-- The size `VTF.read` gives to mipmap `k`. -/
def readerDims (w h k : Nat) : Nat × Nat := (max (w >>> k) 1, max (h >>> k) 1)

/-! ## 4. `scale_down` -/

/-- the offsets `scale_down` computes: `(horiz_off, per_column, vert_off, per_row)`. -/
def scaleOffs (sw sh w h : Nat) : Nat × Nat × Nat × Nat :=
  let horizOff := if w ≠ sw then 4 else 0
  let perColumn := if w ≠ sw then 2 else 1
  let vertOff := if h ≠ sh then 4 * perColumn * w else 0
  let perRow := if h ≠ sh then 2 * perColumn * w else perColumn * w
  (horizOff, perColumn, vertOff, perRow)

/-- element `i` of `dest` after a nearest-neighbour `scale_down` (`filt` 0–3). -/
def nearestAt (filt sw sh w h : Nat) (a : Array Nat) (i : Nat) : Nat :=
  let (horizOff, perColumn, vertOff, perRow) := scaleOffs sw sh w h
  let posOff := [0, horizOff, vertOff, vertOff + horizOff].getD filt 0
  let p := i / 4; let ch := i % 4; let y := p / w; let x := p % w
  a.getD (4 * (perRow * y + perColumn * x) + posOff + ch) 0

/-- element `i` of `dest` after a bilinear `scale_down`. -/
def bilinearAt (sw sh w h : Nat) (a : Array Nat) (i : Nat) : Nat :=
  let (horizOff, perColumn, vertOff, perRow) := scaleOffs sw sh w h
  let p := i / 4; let ch := i % 4; let y := p / w; let x := p % w
  let off2 := 4 * (perRow * y + perColumn * x)
  (a.getD (off2 + ch) 0 + a.getD (off2 + ch + horizOff) 0 + a.getD (off2 + ch + vertOff) 0
    + a.getD (off2 + ch + vertOff + horizOff) 0) / 4

/-- `scale_down(filt, src_width, src_height, width, height, src, dest)`: the new contents of
`dest` (every element of `dest` is overwritten, element `4·(width·y + x) + channel` for every
`y, x, channel` of the loops). `filt` is `FilterMode.value` (0–3 nearest variants, 4 bilinear).
Returns `none` for an unknown filter (`ValueError`). -/
def scaleDown (filt sw sh w h : Nat) (src : List Nat) : Option (List Nat) :=
  if filt < 4 then some ((List.range (4 * (w * h))).map (nearestAt filt sw sh w h src.toArray))
  else if filt = 4 then some ((List.range (4 * (w * h))).map (bilinearAt sw sh w h src.toArray))
  else none

/-- pixel component `(x, y, ch)` of an RGBA array of row length `w`. -/
def pxAt (w : Nat) (img : List Nat) (x y ch : Nat) : Nat := img.toArray.getD (4 * (w * y + x) + ch) 0

/-! ## 5. `Frame.__getitem__` / `__setitem__` -/

/-- The bounds check and offset computation (after the repair): `none` = `IndexError`,
`some off` = the four components are `_data[off : off + 4]`. -/
def frameIndex (w h : Nat) (x y : Int) : Option Nat :=
  if 0 ≤ x ∧ x < w ∧ 0 ≤ y ∧ y < h then some (((y * w + x) * 4).toNat) else none

/-! ## 6. Frame table -/

def envmapFlag : Nat := 0x4000

/-- `_depth_range()` for a given minor version: the middle component of the `_frames` keys
(cube side values `0..5`, plus `6` = SPHERE before 7.5; otherwise depth slices). -/
def depthSeq (flags minor depth : Nat) : List Nat :=
  if flags &&& envmapFlag ≠ 0 then (if minor ≥ 5 then List.range 6 else List.range 7)
  else List.range depth

/-- number of sides / depth slices: the length of `depthSeq`. -/
def sideCount (flags minor depth : Nat) : Nat :=
  if flags &&& envmapFlag ≠ 0 then (if minor ≥ 5 then 6 else 7) else depth

/-- keys `(frame, depth|side, mipmap)` in the order the image data is stored in a file. -/
def fileKeys (mipCount frameCount : Nat) (dseq : List Nat) : List (Nat × Nat × Nat) :=
  (List.range mipCount).reverse.flatMap fun m =>
    (List.range frameCount).flatMap fun f => dseq.map fun d => (f, d, m)

/-- (key, width, height, offset) of every frame, as `VTF.read` lays them out from the header. -/
def layoutFrom (fsz : Nat → Nat → Nat) (dims : Nat → Nat × Nat) :
    List (Nat × Nat × Nat) → Nat → List ((Nat × Nat × Nat) × Nat × Nat × Nat)
  | [], _ => []
  | k :: ks, off =>
    let d := dims k.2.2
    (k, d.1, d.2, off) :: layoutFrom fsz dims ks (off + fsz d.1 d.2)

end C15
