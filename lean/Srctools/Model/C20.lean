import Srctools.Model.Tok
/-!
# C20 — models of the secondary formats (core Lean only: linked into `drv_c20`)

* `cmdseq.py`: fixed-width NUL-padded ASCII fields (`pad_string` / `strip_cstring`), the whole
  file layout of `write` / `parse` (header, version float, sequence count, per-sequence name and
  command count, per-command `Struct('Bi260s260sii260sii')` with native alignment) as byte lists,
  *as coded*: `None` = any exception of the Python code.
* `choreo.py` `save_scenes_image_sync` / `parse_scenes_image`: the container layer of
  `scenes.image` — string pool built by `find_or_insert`, entries sorted by CRC, header, pool
  offsets, strings, entry table, summaries, data — as byte lists with absolute offsets, and the
  binary search the game performs on the entry table.  Scene data (BVCD) and LZMA are opaque
  byte strings handed in by the caller.
* quantised fields: `round(v * K)` clamped to a code range on write, `code / K` on read
  (K = 255, 4096, 1000), in exact arithmetic on fractions.
* the quoting layer of the soundscript writer (quotes + `escape_text`) and of the VMT writer
  (`_quote_if_required`: quotes without escapes) over the shared tokenizer model `Tok`.
-/
namespace C20

abbrev Bytes := List UInt8

/-! ## little-endian integers -/

def le32 (n : Nat) : Bytes :=
  [UInt8.ofNat n, UInt8.ofNat (n / 256), UInt8.ofNat (n / 65536), UInt8.ofNat (n / 16777216)]

def unle32 : Bytes → Nat
  | [a, b, c, d] => a.toNat + 256 * b.toNat + 65536 * c.toNat + 16777216 * d.toNat
  | _ => 0

/-- `file.read(n)` followed by something that needs all `n` bytes: fails on a short read. -/
def takeN (n : Nat) (bs : Bytes) : Option (Bytes × Bytes) :=
  if n ≤ bs.length then some (bs.take n, bs.drop n) else none

def zeros (n : Nat) : Bytes := List.replicate n 0

/-! ## cmdseq: fields -/

/-- A byte a Python `str.encode('ascii')` / `bytes.decode('ascii')` accepts. -/
def isAscii (b : UInt8) : Bool := b < 128

/-- `pad_string(text, length)`: `ValueError` when too long, `UnicodeEncodeError` when not ASCII. -/
def pad (s : Bytes) (n : Nat) : Option Bytes :=
  if s.length > n then none
  else if s.all isAscii then some (s ++ zeros (n - s.length))
  else none

/-- `strip_cstring(data)`: cut at the first NUL, then decode as ASCII (`UnicodeDecodeError`). -/
def strip (data : Bytes) : Option Bytes :=
  let s := data.takeWhile (· != 0)
  if s.all isAscii then some s else none

/-! ## cmdseq: file -/

inductive Exe
  | str (s : Bytes)
  | special (code : Nat)
deriving Repr, DecidableEq

structure Cmd where
  exe : Exe
  args : Bytes
  enabled : Bool
  ensure : Option Bytes
  useProcWin : Bool
  noWait : Bool
deriving Repr, DecidableEq

abbrev CmdFile := List (Bytes × List Cmd)

/-- Constants of cmdseq.py (regenerated into `Gen.C20.cmdTables`). -/
structure CmdTables where
  header : Bytes
  /-- `pack('f', 0.2)` as a little-endian bit pattern. -/
  versionBits : Nat
  /-- `SpecialCommand` values with `SPECIAL_NAMES[...]`. -/
  specials : List (Nat × Bytes)
  nameWidth : Nat
  fieldWidth : Nat
deriving Repr

def CmdTables.specialName (T : CmdTables) (code : Nat) : Option Bytes :=
  (T.specials.find? (·.1 == code)).map (·.2)

def bit (b : Bool) : Nat := if b then 1 else 0

/-- `version < 0.2` on the bit pattern of the float32 that `unpack('f', …)` widened to a double:
0.2 lies strictly between the float32 values 0x3E4CCCCC and 0x3E4CCCCD. NaN compares false. -/
def isPreV2 (bits : Nat) : Bool :=
  if bits < 0x80000000 then bits < 0x3E4CCCCD
  else !(bits % 0x80000000 > 0x7F800000)

/-- `special` / `exe` of `write`: a special command is stored by code, with its display name. -/
def exeField (T : CmdTables) : Exe → Option (Nat × Bytes)
  | .str s => some (0, s)
  | .special k => (T.specialName k).map fun n => (k, n)

/-- `ensure_file` / `has_ensure_file` of `write`. -/
def ensureField (T : CmdTables) : Option Bytes → Option (Bytes × Nat)
  | some e => (pad e T.fieldWidth).map fun b => (b, 1)
  | none => some (zeros T.fieldWidth, 0)

/-- One command record: `ST_COMMAND.pack(...)` = `Struct('Bi260s260sii260sii')`, native
alignment (three pad bytes after the `B`), little-endian. -/
def writeCmd (T : CmdTables) (c : Cmd) : Option Bytes :=
  (exeField T c.exe).bind fun (special, exeStr) =>
  (pad exeStr T.fieldWidth).bind fun exeB =>
  (pad c.args T.fieldWidth).bind fun argsB =>
  (ensureField T c.ensure).bind fun (ensB, has) =>
  some (UInt8.ofNat (bit c.enabled) :: 0 :: 0 :: 0 :: (le32 special ++ (exeB ++ (argsB ++
    (le32 1 ++ (le32 has ++ (ensB ++ (le32 (bit c.useProcWin) ++ le32 (bit c.noWait)))))))))

def writeCmds (T : CmdTables) : List Cmd → Option Bytes
  | [] => some []
  | c :: cs =>
    (writeCmd T c).bind fun a =>
    (writeCmds T cs).bind fun b =>
    some (a ++ b)

def writeSeqs (T : CmdTables) : CmdFile → Option Bytes
  | [] => some []
  | (name, cmds) :: rest =>
    (pad name T.nameWidth).bind fun nm =>
    (writeCmds T cmds).bind fun body =>
    (writeSeqs T rest).bind fun tail =>
    some (nm ++ (le32 cmds.length ++ (body ++ tail)))

/-- `cmdseq.write(sequences, file)`; the dict is an association list with distinct keys. -/
def write (T : CmdTables) (x : CmdFile) : Option Bytes :=
  (writeSeqs T x).map fun body => T.header ++ (le32 T.versionBits ++ (le32 x.length ++ body))

/-- `Command.parse(...)` on the unpacked fields (all still raw bytes). -/
def decodeCmd (T : CmdTables) (en sp exeB argsB chk ensB upw nw : Bytes) : Option Cmd :=
  (if unle32 sp != 0 then
      (if (T.specialName (unle32 sp)).isSome then some (Exe.special (unle32 sp)) else none)
    else (strip exeB).map Exe.str).bind fun exe =>
  (if unle32 chk != 0 then (strip ensB).map some else some none).bind fun ensure =>
  (strip argsB).bind fun args =>
  some { exe, args, enabled := en.headD 0 != 0, ensure,
         useProcWin := unle32 upw != 0, noWait := unle32 nw != 0 }

/-- `Command.parse(*cmd_struct.unpack(file.read(cmd_struct.size)))`: the `B` with its three pad
bytes, `i`, two `260s`, `ii`, `260s`, `i` and (not before version 0.2) one more `i`. -/
def parseCmd (T : CmdTables) (pre : Bool) (bs : Bytes) : Option (Cmd × Bytes) :=
  (takeN 4 bs).bind fun (en, bs) =>
  (takeN 4 bs).bind fun (sp, bs) =>
  (takeN T.fieldWidth bs).bind fun (exeB, bs) =>
  (takeN T.fieldWidth bs).bind fun (argsB, bs) =>
  (takeN 4 bs).bind fun (_long, bs) =>
  (takeN 4 bs).bind fun (chk, bs) =>
  (takeN T.fieldWidth bs).bind fun (ensB, bs) =>
  (takeN 4 bs).bind fun (upw, bs) =>
  (if pre then some (le32 0, bs) else takeN 4 bs).bind fun (nw, bs) =>
  (decodeCmd T en sp exeB argsB chk ensB upw nw).map fun c => (c, bs)

def parseCmds (T : CmdTables) (pre : Bool) : Nat → Bytes → Option (List Cmd × Bytes)
  | 0, bs => some ([], bs)
  | n + 1, bs =>
    (parseCmd T pre bs).bind fun (c, bs) =>
    (parseCmds T pre n bs).bind fun (cs, bs) =>
    some (c :: cs, bs)

/-- `sequences[seq_name] = …` on an insertion-ordered dict. -/
def dictSet (d : CmdFile) (k : Bytes) (v : List Cmd) : CmdFile :=
  if d.any (·.1 == k) then d.map fun p => if p.1 == k then (k, v) else p
  else d ++ [(k, v)]

def parseSeqs (T : CmdTables) (pre : Bool) : Nat → Bytes → CmdFile → Option CmdFile
  | 0, _, acc => some acc
  | n + 1, bs, acc =>
    (takeN T.nameWidth bs).bind fun (nameB, bs) =>
    (strip nameB).bind fun name =>
    (takeN 4 bs).bind fun (cnt, bs) =>
    (parseCmds T pre (unle32 cnt) bs).bind fun (cmds, bs) =>
    parseSeqs T pre n bs (dictSet acc name cmds)

/-- `cmdseq.parse(file)`. Trailing bytes are ignored, as in the code. -/
def parse (T : CmdTables) (bs : Bytes) : Option CmdFile :=
  (takeN T.header.length bs).bind fun (hdr, bs) =>
  if hdr != T.header then none else
  (takeN 4 bs).bind fun (v, bs) =>
  (takeN 4 bs).bind fun (n, bs) =>
  parseSeqs T (isPreV2 (unle32 v)) (unle32 n) bs []

/-! ## scenes.image container -/

/-- One entry as the container sees it: the summary, the strings its scene export adds to the
pool (in call order), the exported BVCD bytes and their LZMA form. -/
structure Entry where
  crc : Nat
  durMs : Nat
  lastMs : Nat
  sounds : List Bytes
  strs : List Bytes
  raw : Bytes
  comp : Bytes
deriving Repr, DecidableEq

/-- `list.index`-like search used by `find_or_insert` (a dict from string to first index). -/
def indexOf? (s : Bytes) : List Bytes → Option Nat
  | [] => none
  | x :: xs => if x = s then some 0 else (indexOf? s xs).map (· + 1)

/-- `binformat.find_or_insert(pool, lambda x: x)`: index of the string, appending it if new. -/
def findOrInsert (pool : List Bytes) (s : Bytes) : List Bytes × Nat :=
  match indexOf? s pool with
  | some i => (pool, i)
  | none => (pool ++ [s], pool.length)

def addAll (pool : List Bytes) (ss : List Bytes) : List Bytes :=
  ss.foldl (fun p s => (findOrInsert p s).1) pool

/-- First loop of `save_scenes_image_sync`: sounds, then the scene's own strings, per entry in
the caller's order. -/
def buildPool (es : List Entry) : List Bytes :=
  es.foldl (fun p e => addAll (addAll p e.sounds) e.strs) []

/-- Insert keeping the order by CRC; equal keys go after the existing ones (stable). -/
def insertByCrc (e : Entry) : List Entry → List Entry
  | [] => [e]
  | x :: xs => if e.crc < x.crc then e :: x :: xs else x :: insertByCrc e xs

/-- `scene_list.sort(key=lambda entry: entry.checksum)` (stable). -/
def sortEntries (es : List Entry) : List Entry :=
  es.foldl (fun acc e => insertByCrc e acc) []

def stored (e : Entry) : Bytes := if e.comp.length < e.raw.length then e.comp else e.raw

def poolIndex (pool : List Bytes) (s : Bytes) : Nat := (indexOf? s pool).getD pool.length

def summaryBytes (version : Nat) (pool : List Bytes) (e : Entry) : Bytes :=
  le32 e.durMs ++ ((if version == 3 then le32 e.lastMs else []) ++
    (le32 e.sounds.length ++ (e.sounds.map fun s => le32 (poolIndex pool s)).flatten))

/-- Offsets of consecutive blobs starting at `start`. -/
def offsets (start : Nat) : List Nat → List Nat
  | [] => []
  | n :: ns => start :: offsets (start + n) ns

def lens (l : List Bytes) : List Nat := l.map (·.length)

def totalLen (l : List Bytes) : Nat := l.flatten.length

/-- One row of the entry table: CRC, data offset, data size, summary offset. -/
def rowBytes (e : Entry) (d s : Nat) : Bytes :=
  le32 e.crc ++ (le32 d ++ (le32 (stored e).length ++ le32 s))

def tableRows : List Entry → List Nat → List Nat → List Bytes
  | e :: es, d :: ds, s :: ss => rowBytes e d s :: tableRows es ds ss
  | _, _, _ => []

def imgMagic : Bytes := [0x56, 0x53, 0x49, 0x46]

/-- `save_scenes_image_sync(file, scenes, version=…)` for entries that all carry parsed scenes:
header, pool offsets, NUL-terminated pool strings, entry table (sorted by CRC), summaries, data;
the deferred slots hold absolute file offsets. -/
def buildImage (version : Nat) (es : List Entry) : Bytes :=
  let pool := buildPool es
  let sorted := sortEntries es
  let strs := pool.map (· ++ [0])
  let sums := sorted.map (summaryBytes version pool)
  let datas := sorted.map stored
  let poolOff := 20 + 4 * pool.length
  let sceneOff := poolOff + totalLen strs
  let sumOff := sceneOff + 16 * sorted.length
  let dataOff := sumOff + totalLen sums
  (imgMagic ++ (le32 version ++ (le32 sorted.length ++ (le32 pool.length ++ le32 sceneOff)))) ++
    (((offsets poolOff (lens strs)).map le32).flatten ++ (strs.flatten ++
      ((tableRows sorted (offsets dataOff (lens datas)) (offsets sumOff (lens sums))).flatten ++
        (sums.flatten ++ datas.flatten))))

/-- What `parse_scenes_image` returns per entry (data before LZMA decoding). -/
structure ParsedEntry where
  crc : Nat
  durMs : Nat
  lastMs : Nat
  sounds : List Bytes
  data : Bytes
deriving Repr, DecidableEq

/-- `read_nullstr(file, pos)`: `''` for position 0, else the bytes up to the next NUL
(`ValueError` when the file ends first). -/
def readNullStr (file : Bytes) (pos : Nat) : Option Bytes :=
  if pos == 0 then some []
  else
    let rest := file.drop pos
    let s := rest.takeWhile (· != 0)
    if s.length < rest.length then some s else none

def mapOpt {α β : Type} (f : α → Option β) : List α → Option (List β)
  | [] => some []
  | a :: as => (f a).bind fun b => (mapOpt f as).bind fun bs => some (b :: bs)

def readU32s : Nat → Bytes → Option (List Nat × Bytes)
  | 0, bs => some ([], bs)
  | n + 1, bs =>
    (takeN 4 bs).bind fun (a, bs) =>
    (readU32s n bs).bind fun (r, bs) =>
    some (unle32 a :: r, bs)

/-- The summary block of one entry: duration, (version 3: last-speak time), sound indices. -/
def parseSummary (version : Nat) (pool : List Bytes) (s : Bytes) : Option (Nat × Nat × List Bytes) :=
  (takeN 4 s).bind fun (dur, s) =>
  (if version == 3 then takeN 4 s else some (dur, s)).bind fun (last, s) =>
  (takeN 4 s).bind fun (cnt, s) =>
  (readU32s (unle32 cnt) s).bind fun (idx, _) =>
  (mapOpt (fun i => pool[i]?) idx).bind fun sounds =>
  some (unle32 dur, unle32 last, sounds)

def parseEntry (file : Bytes) (version : Nat) (pool : List Bytes) (row : Bytes) : Option ParsedEntry :=
  (takeN 4 row).bind fun (crc, row) =>
  (takeN 4 row).bind fun (dOff, row) =>
  (takeN 4 row).bind fun (dLen, row) =>
  (takeN 4 row).bind fun (sOff, _) =>
  (parseSummary version pool (file.drop (unle32 sOff))).bind fun (dur, last, sounds) =>
  some { crc := unle32 crc, durMs := dur, lastMs := last, sounds,
         data := (file.drop (unle32 dOff)).take (unle32 dLen) }

def parseRows (file : Bytes) (version : Nat) (pool : List Bytes) : Nat → Bytes → Option (List ParsedEntry)
  | 0, _ => some []
  | n + 1, bs =>
    (takeN 16 bs).bind fun (row, bs) =>
    (parseEntry file version pool row).bind fun e =>
    (parseRows file version pool n bs).bind fun r =>
    some (e :: r)

/-- `parse_scenes_image(file)`: version and the entries in table order. -/
def parseImage (file : Bytes) : Option (Nat × List ParsedEntry) :=
  (takeN 4 file).bind fun (magic, bs) =>
  if magic != imgMagic then none else
  (takeN 4 bs).bind fun (v, bs) =>
  if unle32 v != 2 && unle32 v != 3 then none else
  (takeN 4 bs).bind fun (n, bs) =>
  (takeN 4 bs).bind fun (p, bs) =>
  (takeN 4 bs).bind fun (so, bs) =>
  (readU32s (unle32 p) bs).bind fun (offs, _) =>
  (mapOpt (readNullStr file) offs).bind fun pool =>
  (parseRows file (unle32 v) pool (unle32 n) (file.drop (unle32 so))).map fun rows =>
  (unle32 v, rows)

/-- The game's lookup: binary search for a CRC in the (sorted) entry table. `hi` exclusive. -/
def bsearchAux (keys : List Nat) (k : Nat) : Nat → Nat → Nat → Option Nat
  | 0, _, _ => none
  | fuel + 1, lo, hi =>
    if lo < hi then
      let mid := (lo + hi) / 2
      let v := keys.getD mid 0
      if v = k then some mid
      else if v < k then bsearchAux keys k fuel (mid + 1) hi
      else bsearchAux keys k fuel lo mid
    else none

def bsearch (keys : List Nat) (k : Nat) : Option Nat :=
  bsearchAux keys k (keys.length + 1) 0 keys.length

/-! ## quantised fields -/

/-- Python `round(q)` (half to even) of the exact rational `num / den`, `den > 0`. -/
def roundHE (num : Int) (den : Nat) : Int :=
  let q := num / (den : Int)
  let r := num % (den : Int)
  if 2 * r < den then q
  else if 2 * r > den then q + 1
  else if q % 2 = 0 then q else q + 1

/-- `min(hi, max(0, round(p)))` for the product `p = num / den`. -/
def encQ (hi : Nat) (num : Int) (den : Nat) : Nat :=
  (min (hi : Int) (max 0 (roundHE num den))).toNat

/-- Reader after writer in exact arithmetic: `v ↦ code(v·K) / K`, as the fraction (code, K). -/
def quantQ (K hi : Nat) (v : Int × Nat) : Int × Nat :=
  ((encQ hi (v.1 * K) v.2 : Nat), K)

/-- `Entry.from_scene`: `sorted(set(sounds))` on byte strings (insertion sort without duplicates). -/
def insertUniq (s : Bytes) : List Bytes → List Bytes
  | [] => [s]
  | x :: xs => if s = x then x :: xs else if s < x then s :: x :: xs else x :: insertUniq s xs

def sortedSet (l : List Bytes) : List Bytes := l.foldl (fun acc s => insertUniq s acc) []

/-! ## quoting layers -/

/-- Soundscript writer (after the fix): `"` + `escape_text(s)` + `"`. -/
def sndQuote (T : Tok.Tables) (s : List Char) : List Char :=
  '"' :: (Tok.escapeText T false s ++ ['"'])

/-- `vmt._quote_if_required`: quotes without escaping, only when the tokenizer would not read
the text back as one bare string. `lead` = the characters that may not start a bare string. -/
def vmtNeedsQuote (T : Tok.Tables) (lead : List Char) (s : List Char) : Bool :=
  match s with
  | [] => true
  | c :: _ => lead.contains c || s.any T.bareDisallowed.contains

def vmtQuote (T : Tok.Tables) (lead : List Char) (s : List Char) : List Char :=
  if vmtNeedsQuote T lead s then '"' :: (s ++ ['"']) else s

/-- Tokenizer options of `Material.parse`. -/
def vmtOpts : Tok.Opts :=
  { stringBracket := true, stringParens := true, allowEscapes := false, allowStarComments := true,
    preserveComments := false, colonOperator := false, plusOperator := false }

end C20
