import Srctools.Model.C20
import Srctools.Model.B64
/-!
# C20 — the binary scene codec (BVCD) of choreo.py, as coded

`Scene/Actor/Channel/Event/FlexAnimTrack/Curve/Tag.export_binary` and `.parse_binary` as a
byte-level encoder / decoder over `List UInt8`, generic in the string pool: the encoder takes
the function `ix` that `add_to_pool` computes (string ↦ pool index), the decoder the pool list.

* float32 fields (times, ranges, distance) are carried as their bit patterns (`Nat < 2³²`);
* quantised fields carry the float64 value Python holds (`B64.Val`, exact IEEE-754 binary64):
  the writer computes the float64 product `value * K` (K = 255.0, 4096.0; `B64.mul`, one
  rounding), rounds it half-to-even to an integer as CPython's `round` does on the exact value of
  that double, and clamps it to the code range; the reader returns the float64 quotient
  `code / K` (`B64.div`);
* `None` of a decoder = any exception of the Python reader (short read, unknown enum value,
  pool index out of range).  Negative `<h` indices index the pool from its end, as Python does.
* the encoder is total: counts and codes are reduced modulo their field width where
  `struct.pack` would raise — it describes the writer only on scenes satisfying `sceneOK`
  (Proofs/C20Bvcd.lean), which is where the theorems speak.
Core only (linked into `drv_c20`).
-/
namespace C20.Bvcd
open C20

/-- a quantised field's value as Python holds it: a float64. -/
abbrev QVal := B64.Val

/-- the float64 product `value * K`, as an exact fraction (units of 2^-1074); a non-finite
product (for which `round` raises) is given as 0 — excluded by `sceneOK`. -/
def prodFrac (K : Nat) (v : QVal) : Int × Nat :=
  match B64.mul v (B64.ofNatVal K) with
  | .fin s m => ((if s then -(m : Int) else (m : Int)), B64.U)
  | _ => (0, 1)

/-- `min(hi, max(0, round(value * K)))`. -/
def encV (K hi : Nat) (v : QVal) : Nat := encQ hi (prodFrac K v).1 (prodFrac K v).2

/-- `code / K` as a float64. -/
def decV (K : Nat) (b : Nat) : QVal := (B64.div (B64.ofNatVal b) (B64.ofNatVal K)).getD .nan

/-- `round(value * K)` is defined: the product is finite. -/
def prodFinite (K : Nat) (v : QVal) : Bool := (B64.mul v (B64.ofNatVal K)).isFinite

def le16 (n : Nat) : Bytes := [UInt8.ofNat n, UInt8.ofNat (n / 256)]

def unle16 : Bytes → Nat
  | [a, b] => a.toNat + 256 * b.toNat
  | _ => 0

def u8 (n : Nat) : UInt8 := UInt8.ofNat n

/-- two's complement byte of a small integer (`struct.pack('<b', n)`). -/
def i8 (n : Int) : UInt8 := UInt8.ofNat (n % 256).toNat

def uni8 (b : Nat) : Int := if b < 128 then (b : Int) else (b : Int) - 256

/-! ## values -/

structure RampSample where
  time : Nat
  value : QVal
deriving Repr, DecidableEq

structure FlexSample where
  time : Nat
  value : QVal
  c1 : Nat
  c2 : Nat
deriving Repr, DecidableEq

structure Tag where
  name : Bytes
  value : QVal
deriving Repr, DecidableEq

structure Flex where
  name : Bytes
  active : Bool
  min : Nat
  max : Nat
  mag : List FlexSample
  dir : Option (List FlexSample)
deriving Repr, DecidableEq

/-- What the event class adds: `Event(type=…)`, `GestureEvent`, `LoopEvent`, `SpeakEvent`. -/
inductive Extra
  | plain (type : Nat)
  | gesture (dur : Nat)
  | loop (count : Int)
  | speak (cc : Nat) (token : Bytes) (combined gender noAtten : Bool)
deriving Repr, DecidableEq

structure Event where
  extra : Extra
  name : Bytes
  start : Nat
  stop : Nat
  p1 : Bytes
  p2 : Bytes
  p3 : Bytes
  ramp : List RampSample
  flags : Nat
  dist : Nat
  rel : List Tag
  timing : List Tag
  absP : List Tag
  absS : List Tag
  tagName : Option Bytes
  tagWav : Option Bytes
  flex : List Flex
deriving Repr, DecidableEq

structure Channel where
  name : Bytes
  active : Bool
  events : List Event
deriving Repr, DecidableEq

structure Actor where
  name : Bytes
  active : Bool
  channels : List Channel
deriving Repr, DecidableEq

structure Scene where
  crc : Nat
  events : List Event
  actors : List Actor
  ramp : List RampSample
  ignorePhonemes : Bool
deriving Repr, DecidableEq

/-- EventType values of the classes with extra fields, the largest EventType value, the
CaptionType value `Disabled`, the number of EventFlags values, the largest Interpolation value,
BINARY_VERSION — re-checked against the source by `C20_gen_bvcd`. -/
def tGesture : Nat := 6
def tLoop : Nat := 12
def tSpeak : Nat := 5
def tMax : Nat := 18
def ccDisabled : Nat := 2
def flagsEnd : Nat := 64
def interpMax : Nat := 15
def binVersion : Nat := 4

def Extra.typeCode : Extra → Nat
  | .plain t => t
  | .gesture _ => tGesture
  | .loop _ => tLoop
  | .speak .. => tSpeak

/-! ## encoder -/

def encQ8 (v : QVal) : UInt8 := u8 (encV 255 255 v)

def flat {α : Type} (enc : α → Bytes) (l : List α) : Bytes := (l.map enc).flatten

def encRampSample (s : RampSample) : Bytes := le32 s.time ++ [encQ8 s.value]

/-- `Curve.export_binary`. -/
def encRamp (r : List RampSample) : Bytes := u8 r.length :: flat encRampSample r

/-- `Tag.export_binary` record (`<hB`). -/
def encTag (ix : Bytes → Nat) (t : Tag) : Bytes := le16 (ix t.name) ++ [encQ8 t.value]

/-- `AbsoluteTag.export_binary` record (`<hH`, factor 4096). -/
def encAbsTag (ix : Bytes → Nat) (t : Tag) : Bytes :=
  le16 (ix t.name) ++ le16 (encV 4096 65535 t.value)

def encTags (ix : Bytes → Nat) (ts : List Tag) : Bytes := u8 ts.length :: flat (encTag ix) ts
def encAbsTags (ix : Bytes → Nat) (ts : List Tag) : Bytes := u8 ts.length :: flat (encAbsTag ix) ts

/-- one `<fBh` sample of a flex track. -/
def encFlexSample (s : FlexSample) : Bytes :=
  le32 s.time ++ (encQ8 s.value :: le16 (s.c1 * 256 + s.c2))

def encDir : Option (List FlexSample) → Bytes
  | none => []
  | some d => le16 d.length ++ flat encFlexSample d

/-- `FlexAnimTrack.export_binary`. -/
def encFlex (ix : Bytes → Nat) (f : Flex) : Bytes :=
  le16 (ix f.name) ++ (u8 (bit f.active + 2 * bit f.dir.isSome) :: (le32 f.min ++ (le32 f.max ++
    (le16 f.mag.length ++ (flat encFlexSample f.mag ++ encDir f.dir)))))

def encGesture : Extra → Bytes
  | .gesture d => le32 d
  | _ => []

def encRelTag (ix : Bytes → Nat) (tn tw : Option Bytes) : Bytes :=
  if tn.isSome || tw.isSome then 1 :: (le16 (ix (tn.getD [])) ++ le16 (ix (tw.getD [])))
  else [0]

def encTail (ix : Bytes → Nat) : Extra → Bytes
  | .loop c => [i8 c]
  | .speak cc tok comb gen na =>
    u8 cc :: (le16 (ix tok) ++ [u8 (bit (cc != ccDisabled && comb) + 2 * bit gen + 4 * bit na)])
  | _ => []

/-- `Event.export_binary`. -/
def encEvent (ix : Bytes → Nat) (e : Event) : Bytes :=
  u8 e.extra.typeCode :: (le16 (ix e.name) ++ (le32 e.start ++ (le32 e.stop ++ (le16 (ix e.p1) ++
    (le16 (ix e.p2) ++ (le16 (ix e.p3) ++ (encRamp e.ramp ++ (u8 e.flags :: (le32 e.dist ++
    (encTags ix e.rel ++ (encTags ix e.timing ++ (encAbsTags ix e.absP ++ (encAbsTags ix e.absS ++
    (encGesture e.extra ++ (encRelTag ix e.tagName e.tagWav ++ (u8 e.flex.length ::
    (flat (encFlex ix) e.flex ++ encTail ix e.extra)))))))))))))))))

/-- `Channel.export_binary`. -/
def encChannel (ix : Bytes → Nat) (c : Channel) : Bytes :=
  le16 (ix c.name) ++ (u8 c.events.length :: (flat (encEvent ix) c.events ++ [u8 (bit c.active)]))

/-- `Actor.export_binary`. -/
def encActor (ix : Bytes → Nat) (a : Actor) : Bytes :=
  le16 (ix a.name) ++ (u8 a.channels.length :: (flat (encChannel ix) a.channels ++ [u8 (bit a.active)]))

def magic : Bytes := [0x62, 0x76, 0x63, 0x64]

/-- `Scene.export_binary`. -/
def encScene (ix : Bytes → Nat) (s : Scene) : Bytes :=
  magic ++ (u8 binVersion :: (le32 s.crc ++ (u8 s.events.length :: (flat (encEvent ix) s.events ++
    (u8 s.actors.length :: (flat (encActor ix) s.actors ++ (encRamp s.ramp ++
      [u8 (bit s.ignorePhonemes)])))))))

/-- The strings handed to `add_to_pool`, in call order (what fills the pool). -/
def tagStrs (ts : List Tag) : List Bytes := ts.map (·.name)

def relTagStrs (tn tw : Option Bytes) : List Bytes :=
  if tn.isSome || tw.isSome then [tn.getD [], tw.getD []] else []

def tailStrs : Extra → List Bytes
  | .speak _ tok _ _ _ => [tok]
  | _ => []

def eventStrs (e : Event) : List Bytes :=
  [e.name, e.p1, e.p2, e.p3] ++ tagStrs e.rel ++ tagStrs e.timing ++ tagStrs e.absP ++ tagStrs e.absS ++
    relTagStrs e.tagName e.tagWav ++ e.flex.map (·.name) ++ tailStrs e.extra

def channelStrs (c : Channel) : List Bytes := c.name :: (c.events.map eventStrs).flatten
def actorStrs (a : Actor) : List Bytes := a.name :: (a.channels.map channelStrs).flatten
def sceneStrs (s : Scene) : List Bytes :=
  (s.events.map eventStrs).flatten ++ (s.actors.map actorStrs).flatten

/-! ## decoder -/

abbrev Rd (α : Type) := Bytes → Option (α × Bytes)

def Rd.bind {α β : Type} (r : Rd α) (f : α → Rd β) : Rd β :=
  fun bs => (r bs).bind fun p => f p.1 p.2

def Rd.pure {α : Type} (a : α) : Rd α := fun bs => some (a, bs)

def Rd.fail {α : Type} : Rd α := fun _ => none

/-- `[x] = file.read(1)` / `struct '<B'`: fails at end of file. -/
def rdU8 : Rd Nat
  | [] => none
  | b :: r => some (b.toNat, r)

def rdU16 : Rd Nat := fun bs => (takeN 2 bs).map fun p => (unle16 p.1, p.2)
def rdU32 : Rd Nat := fun bs => (takeN 4 bs).map fun p => (unle32 p.1, p.2)

/-- `file.read(1) != b'\x00'`: at end of file the empty read compares unequal — `True`. -/
def rdBool : Rd Bool
  | [] => some (true, [])
  | b :: r => some (b != 0, r)

/-- `string_pool[i]` for a `<h` index: a negative index counts from the end. -/
def pyIndex (pool : List Bytes) (u : Nat) : Option Bytes :=
  if u < 32768 then pool[u]?
  else if 65536 - u ≤ pool.length then pool[pool.length - (65536 - u)]? else none

def rdStr (pool : List Bytes) : Rd Bytes :=
  rdU16.bind fun u => match pyIndex pool u with
    | some s => Rd.pure s
    | none => Rd.fail

def rdList {α : Type} (r : Rd α) : Nat → Rd (List α)
  | 0 => Rd.pure []
  | n + 1 => r.bind fun a => (rdList r n).bind fun as => Rd.pure (a :: as)

def code (b : Nat) : QVal := decV 255 b
def code4096 (b : Nat) : QVal := decV 4096 b

def rdRampSample : Rd RampSample :=
  rdU32.bind fun t => rdU8.bind fun v => Rd.pure { time := t, value := code v }

/-- `Curve.parse_binary`. -/
def rdRamp : Rd (List RampSample) := rdU8.bind fun n => rdList rdRampSample n

def rdTag (pool : List Bytes) : Rd Tag :=
  (rdStr pool).bind fun n => rdU8.bind fun v => Rd.pure { name := n, value := code v }

def rdAbsTag (pool : List Bytes) : Rd Tag :=
  (rdStr pool).bind fun n => rdU16.bind fun v => Rd.pure { name := n, value := code4096 v }

def rdTags (pool : List Bytes) : Rd (List Tag) := rdU8.bind fun n => rdList (rdTag pool) n
def rdAbsTags (pool : List Bytes) : Rd (List Tag) := rdU8.bind fun n => rdList (rdAbsTag pool) n

/-- one `<fBH` sample; `CurveType.parse_binary` rejects interpolation codes above 15. -/
def rdFlexSample : Rd FlexSample :=
  rdU32.bind fun t => rdU8.bind fun v => rdU16.bind fun c =>
    if c / 256 % 256 ≤ interpMax ∧ c % 256 ≤ interpMax then
      Rd.pure { time := t, value := code v, c1 := c / 256 % 256, c2 := c % 256 }
    else Rd.fail

/-- `FlexAnimTrack.parse_binary`; the `<h` sample count is signed: a negative one reads nothing. -/
def rdFlex (pool : List Bytes) : Rd Flex :=
  (rdStr pool).bind fun name => rdU8.bind fun flags => rdU32.bind fun mn => rdU32.bind fun mx =>
  rdU16.bind fun cnt => (rdList rdFlexSample (if cnt < 32768 then cnt else 0)).bind fun mag =>
  (if flags / 2 % 2 = 1 then
      rdU16.bind fun dc => (rdList rdFlexSample dc).bind fun d => Rd.pure (some d)
    else Rd.pure none).bind fun dir =>
  Rd.pure { name, active := flags % 2 = 1, min := mn, max := mx, mag, dir }

def rdRelTag (pool : List Bytes) : Rd (Option Bytes × Option Bytes) :=
  rdU8.bind fun f =>
    if f != 0 then (rdStr pool).bind fun a => (rdStr pool).bind fun b => Rd.pure (some a, some b)
    else Rd.pure (none, none)

def rdTail (pool : List Bytes) (ty gdur : Nat) : Rd Extra :=
  if ty = tGesture then Rd.pure (.gesture gdur)
  else if ty = tLoop then rdU8.bind fun b => Rd.pure (.loop (uni8 b))
  else if ty = tSpeak then
    rdU8.bind fun cc => (rdStr pool).bind fun tok => rdU8.bind fun fl =>
      if cc ≤ ccDisabled then
        Rd.pure (.speak cc tok (fl % 2 = 1) (fl / 2 % 2 = 1) (fl / 4 % 2 = 1))
      else Rd.fail
  else Rd.pure (.plain ty)

/-- `Event.parse_binary`. -/
def rdEvent (pool : List Bytes) : Rd Event :=
  rdU8.bind fun ty => if ty > tMax then Rd.fail else
  (rdStr pool).bind fun name => rdU32.bind fun start => rdU32.bind fun stop =>
  (rdStr pool).bind fun p1 => (rdStr pool).bind fun p2 => (rdStr pool).bind fun p3 =>
  rdRamp.bind fun ramp => rdU8.bind fun flags => if flags ≥ flagsEnd then Rd.fail else
  rdU32.bind fun dist =>
  (rdTags pool).bind fun rel => (rdTags pool).bind fun timing =>
  (rdAbsTags pool).bind fun absP => (rdAbsTags pool).bind fun absS =>
  (if ty = tGesture then rdU32 else Rd.pure 0).bind fun gdur =>
  (rdRelTag pool).bind fun rt =>
  rdU8.bind fun fc => (rdList (rdFlex pool) fc).bind fun flex =>
  (rdTail pool ty gdur).bind fun extra =>
  Rd.pure { extra, name, start, stop, p1, p2, p3, ramp, flags, dist, rel, timing, absP, absS,
            tagName := rt.1, tagWav := rt.2, flex }

/-- `Channel.parse_binary`. -/
def rdChannel (pool : List Bytes) : Rd Channel :=
  (rdStr pool).bind fun name => rdU8.bind fun n => (rdList (rdEvent pool) n).bind fun events =>
  rdBool.bind fun active => Rd.pure { name, active, events }

/-- `Actor.parse_binary`. -/
def rdActor (pool : List Bytes) : Rd Actor :=
  (rdStr pool).bind fun name => rdU8.bind fun n => (rdList (rdChannel pool) n).bind fun channels =>
  rdBool.bind fun active => Rd.pure { name, active, channels }

/-- `Scene.parse_binary`; whatever follows the scene is not looked at. -/
def rdScene (pool : List Bytes) : Rd Scene := fun bs =>
  (takeN 4 bs).bind fun p =>
  if p.1 != magic then none else
  (rdU8.bind fun v => if v != binVersion then Rd.fail else
   rdU32.bind fun crc => rdU8.bind fun ne => (rdList (rdEvent pool) ne).bind fun events =>
   rdU8.bind fun na => (rdList (rdActor pool) na).bind fun actors =>
   rdRamp.bind fun ramp => rdBool.bind fun ip =>
   Rd.pure { crc, events, actors, ramp, ignorePhonemes := ip }) p.2

def decodeScene (pool : List Bytes) (bs : Bytes) : Option Scene := (rdScene pool bs).map (·.1)

/-! ## what survives: the projection the codec applies -/

/-- reader after writer on one value: `round(v * 255.0)` clamped, divided by 255.0 -/
def qv (v : QVal) : QVal := code (encV 255 255 v)
/-- the same for absolute tags: factor 4096.0, 16-bit code -/
def qv4096 (v : QVal) : QVal := code4096 (encV 4096 65535 v)

def qRampSample (s : RampSample) : RampSample := { s with value := qv s.value }
def qFlexSample (s : FlexSample) : FlexSample := { s with value := qv s.value }
def qTag (t : Tag) : Tag := { t with value := qv t.value }
def qAbsTag (t : Tag) : Tag := { t with value := qv4096 t.value }
def qFlex (f : Flex) : Flex :=
  { f with mag := f.mag.map qFlexSample, dir := f.dir.map (·.map qFlexSample) }

/-- a combined-file flag is only stored for captions that are not disabled. -/
def qExtra : Extra → Extra
  | .speak cc tok comb gen na => .speak cc tok (cc != ccDisabled && comb) gen na
  | x => x

def qEvent (e : Event) : Event :=
  { e with extra := qExtra e.extra, ramp := e.ramp.map qRampSample, rel := e.rel.map qTag,
           timing := e.timing.map qTag, absP := e.absP.map qAbsTag, absS := e.absS.map qAbsTag,
           tagName := if e.tagName.isSome || e.tagWav.isSome then some (e.tagName.getD []) else none,
           tagWav := if e.tagName.isSome || e.tagWav.isSome then some (e.tagWav.getD []) else none,
           flex := e.flex.map qFlex }

def qChannel (c : Channel) : Channel := { c with events := c.events.map qEvent }
def qActor (a : Actor) : Actor := { a with channels := a.channels.map qChannel }

/-- `quantScene`: what `parse_binary (export_binary s)` is. -/
def quantScene (s : Scene) : Scene :=
  { s with events := s.events.map qEvent, actors := s.actors.map qActor,
           ramp := s.ramp.map qRampSample }


/-! ## saving a scenes.image whose entries come from several places

`save_scenes_image_sync` as coded, for a mix of entries holding a parsed `Scene` and *lazy* entries
(raw BVCD bytes + the string pool object of the image they were read from).  Pool objects are
compared by identity (`is`), modelled by a number. -/

inductive Src
  | scene (s : Scene)
  | lazy (poolId : Nat) (pool : List Bytes) (raw : Bytes)
deriving Repr

structure MEntry where
  crc : Nat
  durMs : Nat
  lastMs : Nat
  sounds : List Bytes
  src : Src
  /-- LZMA form of the data this entry ends up with (opaque, supplied by the caller). -/
  comp : Bytes
deriving Repr

/-- First loop: is there one pool to reuse? `(pool to reuse, two_pools)`. -/
def poolMode : List MEntry → Option (Nat × List Bytes) → Option (Nat × List Bytes) × Bool
  | [], cur => (cur, false)
  | e :: es, cur =>
    match e.src, cur with
    | .scene _, _ => poolMode es cur
    | .lazy i p _, none => poolMode es (some (i, p))
    | .lazy i _ _, some (j, q) => if i = j then poolMode es (some (j, q)) else (none, true)

/-- The scene an entry is exported from when it has to be (re-)encoded: `entry.data`. -/
def entryScene (e : MEntry) : Option Scene :=
  match e.src with
  | .scene s => some s
  | .lazy _ p raw => decodeScene p raw

/-- strings the second loop adds for this entry after its sounds. -/
def entryStrs (two : Bool) (e : MEntry) : Option (List Bytes) :=
  match e.src, two with
  | .lazy _ _ _, false => some []
  | _, _ => (entryScene e).map sceneStrs

def entryRaw (two : Bool) (ix : Bytes → Nat) (e : MEntry) : Option Bytes :=
  match e.src, two with
  | .lazy _ _ raw, false => some raw
  | _, _ => (entryScene e).map (encScene ix)

/-- the layout of `buildImage`, starting from a pool that already holds strings. -/
def buildImageFrom (pool0 : List Bytes) (version : Nat) (es : List Entry) : Bytes :=
  let pool := es.foldl (fun p e => addAll (addAll p e.sounds) e.strs) pool0
  let sorted := sortEntries es
  let strs := pool.map (· ++ [0])
  let sums := sorted.map (summaryBytes version pool)
  let datas := sorted.map stored
  let poolOff := 20 + 4 * pool.length
  let sceneOff := poolOff + totalLen strs
  let sumOff := sceneOff + 16 * sorted.length
  let dataOff := sumOff + totalLen sums
  (imgMagic ++ (le32 version ++ (le32 sorted.length ++ (le32 pool.length ++ le32 sceneOff)))) ++
    (((offsets poolOff (lens strs)).map le32).flatten ++ (strs.flatten ++
      ((tableRows sorted (offsets dataOff (lens datas)) (offsets sumOff (lens sums))).flatten ++
        (sums.flatten ++ datas.flatten))))

/-- `save_scenes_image_sync(file, entries, version=…)`; `none` = an exception (a lazy entry that
does not decode with its own pool). -/
def saveImage (version : Nat) (es : List MEntry) : Option Bytes :=
  let mode := poolMode es none
  let two := mode.2
  let pool0 := match mode.1 with
    | some (_, p) => p
    | none => []
  (mapOpt (fun e => (entryStrs two e).map fun st => (e, st)) es).bind fun withStrs =>
  let pool := withStrs.foldl (fun p x => addAll (addAll p x.1.sounds) x.2) pool0
  (mapOpt (fun x : MEntry × List Bytes => (entryRaw two (poolIndex pool) x.1).map fun raw =>
      ({ crc := x.1.crc, durMs := x.1.durMs, lastMs := x.1.lastMs, sounds := x.1.sounds,
         strs := x.2, raw := raw, comp := x.1.comp } : Entry)) withStrs).map fun entries =>
  buildImageFrom pool0 version entries

end C20.Bvcd
