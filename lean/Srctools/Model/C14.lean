/-!
# C14 — DMX element graphs: binary wire codec, string tables, type codes, KeyValues1 bridge

A functional model of `srctools/dmx.py` (`Element.export_binary`, `Element.parse_bin`,
`VAL_TYPE_TO_IND / ARRAY_OFFSET / IND_TO_VALTYPE`, `Element.from_kv1 / to_kv1`), *as coded*.
Everything that is a table in the source comes from `Gen/Dmx.lean` (`Tables`).

Representation choices (see docs/notes/C14.md):
* a graph is *indexed*: the list of elements in file order (element 0 is the root); element
  references are indices, `NULL`, or a stub carrying the text of its UUID;
* strings are carried as their encoded bytes (UTF-8 or ASCII; CPython's codec is trusted), so a
  string is a `List UInt8`; only the ASCII check of `bytes.decode('ascii')` is modelled;
* values of the fixed-size types are lists of integer fields interpreted by the struct format of the
  type (`i` signed 32 bit, `f` the 32-bit pattern of the float, `?` 0/1, `B` a byte); `time` is the
  integer number of 1/10000 s; a matrix is its 9 rotation entries (the wire form has 16 floats).

Core Lean only: this file is linked into the compiled driver.
-/

namespace C14

abbrev Bytes := List UInt8

/-- `ValueType` (canonical member names). -/
inductive VT
  | element | int | float | bool | string | binary | time | color
  | vec2 | vec3 | vec4 | angle | quaternion | matrix
deriving Repr, DecidableEq

def VT.all : List VT :=
  [.element, .int, .float, .bool, .string, .binary, .time, .color,
   .vec2, .vec3, .vec4, .angle, .quaternion, .matrix]

def VT.toNat : VT → Nat
  | .element => 0 | .int => 1 | .float => 2 | .bool => 3 | .string => 4 | .binary => 5
  | .time => 6 | .color => 7 | .vec2 => 8 | .vec3 => 9 | .vec4 => 10 | .angle => 11
  | .quaternion => 12 | .matrix => 13

def VT.ofNat? (n : Nat) : Option VT := VT.all[n]?

/-- The comparison used at the decode site `if attr_type_data <op> ARRAY_OFFSET`. -/
inductive Cmp | ge | gt
deriving Repr, DecidableEq

def Cmp.test : Cmp → Nat → Nat → Bool
  | .ge, a, b => decide (a ≥ b)
  | .gt, a, b => decide (a > b)

/-- Field kinds of the struct formats (`i`, `f`, `?`, `B`). -/
inductive FieldKind | i32 | f32 | bool | u8
deriving Repr, DecidableEq

def FieldKind.width : FieldKind → Nat
  | .i32 => 4 | .f32 => 4 | .bool => 1 | .u8 => 1

/-- What follows the `-2` marker of a stub reference. -/
inductive StubIO | none | uuidText
deriving Repr, DecidableEq

/-- Tables extracted from dmx.py. -/
structure Tables where
  /-- `VAL_TYPE_TO_IND` in dict order. -/
  codes : List (VT × Nat)
  arrayOffset : Nat
  decodeCmp : Cmp
  /-- struct format of each fixed-size type: (count, kind). -/
  formats : List (VT × Nat × FieldKind)
  /-- `SIZES` (struct sizes). -/
  sizes : List (VT × Nat)
  /-- per encoding version 0..5: byte width of (string count, string index) in `parse_bin`; 0 = no table. -/
  strTabRead : List (Nat × Nat)
  /-- the same for `export_binary`. -/
  strTabWrite : List (Nat × Nat)
  stubWrite : StubIO
  stubRead : StubIO
  /-- `ValueType.value`: the KV2 type names. -/
  kv2Names : List (VT × List Char)
  /-- `srctools.BOOL_LOOKUP` in dict order. -/
  boolLookup : List (List Char × Bool) := []
deriving Repr

/-! ## (i) wire type codes -/

/-- `VAL_TYPE_TO_IND[t]`. -/
def Tables.code (T : Tables) (t : VT) : Option Nat :=
  (T.codes.find? (·.1 == t)).map (·.2)

/-- `IND_TO_VALTYPE[n]` — a dict comprehension: the last type with a given index wins. -/
def Tables.typeOf (T : Tables) (n : Nat) : Option VT :=
  (T.codes.reverse.find? (·.2 == n)).map (·.1)

/-- `typ_ind = VAL_TYPE_TO_IND[attr.type]; if attr.is_array: typ_ind += ARRAY_OFFSET`. -/
def encodeType (T : Tables) (t : VT) (arr : Bool) : Nat :=
  (T.code t).getD 0 + (if arr then T.arrayOffset else 0)

/-- The decode site of `parse_bin`: compare with `ARRAY_OFFSET`, subtract, look up. -/
def decodeType (T : Tables) (b : Nat) : Option (VT × Bool) :=
  if T.decodeCmp.test b T.arrayOffset then (T.typeOf (b - T.arrayOffset)).map (·, true)
  else (T.typeOf b).map (·, false)

/-- Decidable well-formedness of the code table: all 14 × 2 codes fit a byte and decode to
themselves. -/
def codesOK (T : Tables) : Bool :=
  VT.all.all fun t => [false, true].all fun arr =>
    decide (encodeType T t arr < 256) && (T.code t).isSome &&
    decodeType T (encodeType T t arr) == some (t, arr)

def Tables.format (T : Tables) (t : VT) : Option (Nat × FieldKind) :=
  (T.formats.find? (·.1 == t)).map (·.2)

/-- `SIZES` agrees with the struct formats. -/
def sizesOK (T : Tables) : Bool :=
  T.formats.all fun (t, n, k) => (T.sizes.find? (·.1 == t)).map (·.2) == some (n * k.width)

/-- String table widths for an encoding version (`version >= 5` behaves like 5). -/
def widths (l : List (Nat × Nat)) (v : Nat) : Nat × Nat := l.getD (min v 5) (0, 0)

/-! ## byte-level primitives -/

inductive Err
  | short | noNewline | unterminated | nonAscii
  | badType (code : Nat) | noFormat | badStrIndex (i : Int) | badElemIndex (i : Int)
  | timeBeforeV3 | noElements | badUuid | badVersion | shape | stubNotWritten
deriving Repr, DecidableEq

def Err.code : Err → Nat × Int
  | .short => (1, 0) | .noNewline => (2, 0) | .unterminated => (3, 0) | .nonAscii => (4, 0)
  | .badType c => (5, c) | .noFormat => (6, 0) | .badStrIndex i => (7, i) | .badElemIndex i => (8, i)
  | .timeBeforeV3 => (9, 0) | .noElements => (10, 0) | .badUuid => (11, 0) | .badVersion => (12, 0)
  | .shape => (13, 0) | .stubNotWritten => (14, 0)

/-- A parser over the remaining bytes (`file.read` on a `BytesIO`). -/
def Parser (α : Type) := Bytes → Except Err (α × Bytes)

instance : Monad Parser where
  pure a := fun bs => .ok (a, bs)
  bind p f := fun bs => match p bs with
    | .error e => .error e
    | .ok (a, rest) => f a rest

def fail {α : Type} (e : Err) : Parser α := fun _ => .error e

/-- `n` bytes little-endian of `x mod 256^n`. -/
def leBytes : Nat → Nat → Bytes
  | 0, _ => []
  | k + 1, x => UInt8.ofNat (x % 256) :: leBytes k (x / 256)

def leNat : Bytes → Nat
  | [] => 0
  | b :: bs => b.toNat + 256 * leNat bs

/-- `struct.pack('<i' / '<h', i)` for an integer in range (two's complement, `w` bytes). -/
def putInt (w : Nat) (i : Int) : Bytes := leBytes w (i % (256 ^ w : Nat)).toNat

/-- exactly `n` bytes, or `short` (struct.unpack of a short read fails). -/
def takeN (n : Nat) : Parser Bytes := fun bs =>
  if bs.length < n then .error .short else .ok (bs.take n, bs.drop n)

/-- `struct_read('<i' / '<h')`. -/
def getInt (w : Nat) : Parser Int := do
  let b ← takeN w
  let n := leNat b
  pure (if n < 256 ^ w / 2 then (n : Int) else (n : Int) - (256 ^ w : Nat))

def getU8 : Parser Nat := fun bs =>
  match bs with
  | [] => .error .short
  | b :: rest => .ok (b.toNat, rest)

/-- bytes up to the first NUL, and the rest after it. -/
def splitNul : Bytes → Option (Bytes × Bytes)
  | [] => none
  | b :: bs => if b = 0 then some ([], bs) else (splitNul bs).map fun p => (b :: p.1, p.2)

/-- `bytes.decode('ascii')` succeeds iff every byte is below 128 (UTF-8 validity is not modelled). -/
def decodable (uni : Bool) (s : Bytes) : Bool := uni || s.all (· < 128)

/-- `read_nullstr(file, encoding=...)`. -/
def getCStr (uni : Bool) : Parser Bytes := fun bs =>
  match splitNul bs with
  | none => .error .unterminated
  | some (s, rest) => if decodable uni s then .ok (s, rest) else .error .nonAscii

def putCStr (s : Bytes) : Bytes := s ++ [0]

/-- `n` items with the same parser. -/
def getMany {α : Type} (p : Parser α) : Nat → Parser (List α)
  | 0 => pure []
  | n + 1 => do
    let x ← p
    let xs ← getMany p n
    pure (x :: xs)

/-- `file.read(size)`: a short read is *not* an error for blobs; a negative size reads everything. -/
def readBlob (size : Int) : Parser Bytes := fun bs =>
  if size < 0 then .ok (bs, []) else .ok (bs.take size.toNat, bs.drop size.toNat)

/-! ## (ii) string table -/

def bytesLt : Bytes → Bytes → Bool
  | [], [] => false
  | [], _ :: _ => true
  | _ :: _, [] => false
  | a :: as, b :: bs => if a < b then true else if b < a then false else bytesLt as bs

/-- insertion into a sorted duplicate-free list (`sorted(set(...))`). -/
def insertStr (s : Bytes) : List Bytes → List Bytes
  | [] => [s]
  | x :: xs => if s = x then x :: xs else if bytesLt s x then s :: x :: xs else x :: insertStr s xs

def mkTable (ss : List Bytes) : List Bytes := ss.foldr insertStr []

/-- `string_to_ind[s]`. -/
def findIdx (s : Bytes) : List Bytes → Nat
  | [] => 0
  | x :: xs => if x = s then 0 else findIdx s xs + 1

/-- Python list indexing (negative indices count from the end). -/
def pyIndex {α : Type} (l : List α) (i : Int) : Option α :=
  if 0 ≤ i then l[i.toNat]?
  else if 0 ≤ i + l.length then l[(i + l.length).toNat]? else none

/-- `fits v n`: a table of `n` strings can be written with the widths of the version. -/
def fitsWidth (w : Nat) (n : Nat) : Bool := decide (2 * n ≤ 256 ^ w)

def putTable (cw : Nat) (tbl : List Bytes) : Bytes :=
  putInt cw tbl.length ++ tbl.flatMap putCStr

def getTable (cw : Nat) (uni : Bool) : Parser (List Bytes) := do
  let n ← getInt cw
  getMany (getCStr uni) n.toNat

def putStrRef (iw : Nat) (tbl : List Bytes) (s : Bytes) : Bytes := putInt iw (findIdx s tbl)

def getStrRef (iw : Nat) (tbl : List Bytes) : Parser Bytes := do
  let i ← getInt iw
  match pyIndex tbl i with
  | some s => pure s
  | none => fail (.badStrIndex i)

/-! ## (iii) the indexed element graph -/

inductive Ref
  | null
  /-- a stub element; carried as the text of its UUID (what the wire holds). -/
  | stub (uuid : Bytes)
  | idx (i : Nat)
deriving Repr, DecidableEq

inductive Val
  | ref (r : Ref)
  | fixed (xs : List Int)
  | str (s : Bytes)
  | bin (b : Bytes)
deriving Repr, DecidableEq

structure Attr where
  name : Bytes
  type : VT
  isArray : Bool
  /-- a scalar has exactly one value. -/
  vals : List Val
deriving Repr, DecidableEq

structure Elem where
  type : Bytes
  name : Bytes
  /-- `uuid.bytes_le`, 16 bytes. -/
  uuid : Bytes
  /-- every attribute except the one called `name`. -/
  attrs : List Attr
deriving Repr, DecidableEq

structure Graph where
  elems : List Elem
deriving Repr, DecidableEq

/-! ### fixed-size values -/

def putField : FieldKind → Int → Bytes
  | .i32, x => putInt 4 x
  | .f32, x => leBytes 4 x.toNat
  | .bool, x => [if x = 0 then 0 else 1]
  | .u8, x => leBytes 1 x.toNat

def getField : FieldKind → Parser Int
  | .i32 => getInt 4
  | .f32 => do let b ← takeN 4; pure (leNat b : Nat)
  | .bool => do let b ← getU8; pure (if b = 0 then 0 else 1)
  | .u8 => do let b ← getU8; pure (b : Nat)

def fieldOK : FieldKind → Int → Bool
  | .i32, x => decide (-(2147483648 : Int) ≤ x ∧ x < 2147483648)
  | .f32, x => decide (0 ≤ x ∧ x < 4294967296)
  | .bool, x => decide (x = 0 ∨ x = 1)
  | .u8, x => decide (0 ≤ x ∧ x < 256)

/-- bit pattern of the float32 `1.0`. -/
def f32One : Int := 1065353216

/-- `_conv_matrix_to_binary`: the 3×3 part, zero column, last row 0 0 0 1. -/
def matrixToWire : List Int → List Int
  | [a, b, c, d, e, f, g, h, i] => [a, b, c, 0, d, e, f, 0, g, h, i, 0, 0, 0, 0, f32One]
  | xs => xs

/-- `_conv_binary_to_matrix`: entries 0–2, 4–6, 8–10 of the 16. -/
def matrixOfWire : List Int → List Int
  | [a, b, c, _, d, e, f, _, g, h, i, _, _, _, _, _] => [a, b, c, d, e, f, g, h, i]
  | xs => xs

/-- number of semantic fields of a fixed value. -/
def arity (t : VT) (count : Nat) : Nat := if t = .matrix then 9 else count

def putFixed (T : Tables) (t : VT) (xs : List Int) : Bytes :=
  match T.format t with
  | none => []
  | some (_, k) => ((if t = .matrix then matrixToWire xs else xs).flatMap (putField k))

def getFixed (T : Tables) (t : VT) : Parser (List Int) :=
  match T.format t with
  | none => fail .noFormat
  | some (n, k) => do
    let xs ← getMany (getField k) n
    pure (if t = .matrix then matrixOfWire xs else xs)

/-! ### attribute values -/

structure Cfg where
  /-- encoding version 1..5 (0 = legacy header, same body as 1). -/
  v : Nat
  /-- strings are UTF-8 (`unicode != 'ascii'` / `unicode=True`), else ASCII. -/
  uni : Bool
deriving Repr, DecidableEq

def putRef (T : Tables) : Ref → Bytes
  | .null => putInt 4 (-1)
  | .stub u => putInt 4 (-2) ++ (match T.stubWrite with | .none => [] | .uuidText => putCStr u)
  | .idx i => putInt 4 i

/-- is this the text of a UUID (32 hex digits once the dashes are removed)? -/
def uuidTextOK (s : Bytes) : Bool :=
  let h := s.filter (· != 45)
  h.length == 32 && h.all fun c => (48 ≤ c && c ≤ 57) || (97 ≤ c && c ≤ 102) || (65 ≤ c && c ≤ 70)

def getRef (T : Tables) (nElems : Nat) : Parser Ref := do
  let i ← getInt 4
  if i = -1 then pure .null
  else if i = -2 then
    match T.stubRead with
    | .none => pure (.stub [])
    | .uuidText => do
      let s ← getCStr false
      if uuidTextOK s then pure (.stub s) else fail .badUuid
  else if 0 ≤ i then
    (if i.toNat < nElems then pure (.idx i.toNat) else fail (.badElemIndex i))
  else if 0 ≤ i + nElems then pure (.idx (i + nElems).toNat) else fail (.badElemIndex i)

/-- scalar strings use the table from version 4 on. -/
def putStr (c : Cfg) (iw : Nat) (tbl : List Bytes) (isArray : Bool) (s : Bytes) : Bytes :=
  if c.v ≥ 4 ∧ ¬ isArray then putStrRef iw tbl s else putCStr s

def putVal (T : Tables) (c : Cfg) (iw : Nat) (tbl : List Bytes) (t : VT) (isArray : Bool) : Val → Bytes
  | .ref r => putRef T r
  | .fixed xs => putFixed T t xs
  | .str s => putStr c iw tbl isArray s
  | .bin b => putInt 4 b.length ++ b

def getVal (T : Tables) (c : Cfg) (iw : Nat) (tbl : List Bytes) (nElems : Nat) (t : VT)
    (isArray : Bool) : Parser Val :=
  match t with
  | .element => do let r ← getRef T nElems; pure (.ref r)
  | .string =>
    if c.v ≥ 4 ∧ ¬ isArray then do let s ← getStrRef iw tbl; pure (.str s)
    else do let s ← getCStr c.uni; pure (.str s)
  | .binary => do let n ← getInt 4; let b ← readBlob n; pure (.bin b)
  | _ => do let xs ← getFixed T t; pure (.fixed xs)

/-- the name of an attribute / element type: through the table when there is one. -/
def putName (iw : Nat) (tbl : List Bytes) (s : Bytes) : Bytes :=
  if iw = 0 then putCStr s else putStrRef iw tbl s

def getName (uni : Bool) (iw : Nat) (tbl : List Bytes) : Parser Bytes :=
  if iw = 0 then getCStr uni else getStrRef iw tbl

def putAttr (T : Tables) (c : Cfg) (iw : Nat) (tbl : List Bytes) (a : Attr) : Bytes :=
  putName iw tbl a.name ++ [UInt8.ofNat (encodeType T a.type a.isArray)] ++
  (if a.isArray then putInt 4 a.vals.length else []) ++
  a.vals.flatMap (putVal T c iw tbl a.type a.isArray)

def getAttr (T : Tables) (c : Cfg) (iw : Nat) (tbl : List Bytes) (nElems : Nat) : Parser Attr := do
  let name ← getName c.uni iw tbl
  let b ← getU8
  if T.decodeCmp.test b T.arrayOffset then
    let n ← getInt 4
    match T.typeOf (b - T.arrayOffset) with
    | none => fail (.badType (b - T.arrayOffset))
    | some t =>
      if t = .time ∧ c.v < 3 then fail .timeBeforeV3 else do
      let vals ← getMany (getVal T c iw tbl nElems t true) n.toNat
      pure { name, type := t, isArray := true, vals }
  else
    match T.typeOf b with
    | none => fail (.badType b)
    | some t =>
      if t = .time ∧ c.v < 3 then fail .timeBeforeV3 else do
      let v ← getVal T c iw tbl nElems t false
      pure { name, type := t, isArray := false, vals := [v] }

/-! ### elements and the whole file -/

structure Header where
  type : Bytes
  name : Bytes
  uuid : Bytes
deriving Repr, DecidableEq

/-- the element name is in the table from version 4 on. -/
def putHeader (c : Cfg) (iw : Nat) (tbl : List Bytes) (e : Elem) : Bytes :=
  putName iw tbl e.type ++
  (if c.v ≥ 4 then putStrRef iw tbl e.name else putCStr e.name) ++ e.uuid

def getHeader (c : Cfg) (iw : Nat) (tbl : List Bytes) : Parser Header := do
  let type ← getName c.uni iw tbl
  let name ← (if c.v ≥ 4 then getStrRef iw tbl else getCStr c.uni)
  let uuid ← takeN 16
  pure { type, name, uuid }

def putAttrs (T : Tables) (c : Cfg) (iw : Nat) (tbl : List Bytes) (e : Elem) : Bytes :=
  putInt 4 e.attrs.length ++ e.attrs.flatMap (putAttr T c iw tbl)

def getAttrs (T : Tables) (c : Cfg) (iw : Nat) (tbl : List Bytes) (nElems : Nat) : Parser (List Attr) := do
  let n ← getInt 4
  getMany (getAttr T c iw tbl nElems) n.toNat

/-- The strings `export_binary` collects for the table (`used_strings`), in traversal order. -/
def attrStrings (c : Cfg) (iw : Nat) (a : Attr) : List Bytes :=
  (if iw = 0 then [] else [a.name]) ++
  (if c.v ≥ 4 ∧ a.type = .string ∧ ¬ a.isArray then
    a.vals.filterMap fun v => match v with | .str s => some s | _ => none
   else [])

def elemStrings (c : Cfg) (iw : Nat) (e : Elem) : List Bytes :=
  (if iw = 0 then [] else [e.type]) ++ (if c.v ≥ 4 then [e.name] else []) ++
  e.attrs.flatMap (attrStrings c iw)

/-- the bytes of `"name"` (always in the table). -/
def nameLit : Bytes := [110, 97, 109, 101]

def usedStrings (c : Cfg) (iw : Nat) (g : Graph) : List Bytes :=
  nameLit :: g.elems.flatMap (elemStrings c iw)

def zipElems : List Header → List (List Attr) → List Elem
  | h :: hs, a :: as => { type := h.type, name := h.name, uuid := h.uuid, attrs := a } :: zipElems hs as
  | _, _ => []

/-- Everything after the `<!-- ... -->` header comment, as `export_binary` writes it. -/
def encodeBin (T : Tables) (c : Cfg) (g : Graph) : Bytes :=
  let (cw, iw) := widths T.strTabWrite c.v
  let tbl := mkTable (usedStrings c iw g)
  [10, 0] ++ (if cw = 0 then [] else putTable cw tbl) ++
  putInt 4 g.elems.length ++ g.elems.flatMap (putHeader c iw tbl) ++
  g.elems.flatMap (putAttrs T c iw tbl)

/-- `parse_bin` after the header comment. Trailing bytes are ignored. -/
def decodeBin (T : Tables) (c : Cfg) (bs : Bytes) : Except Err Graph :=
  let (cw, iw) := widths T.strTabRead c.v
  let p : Parser Graph := do
    let nl ← takeN 2
    if nl ≠ [10, 0] then fail .noNewline else
    let tbl ← (if cw = 0 then pure [] else getTable cw c.uni)
    let n ← getInt 4
    let hs ← getMany (getHeader c iw tbl) n.toNat
    let as ← getMany (getAttrs T c iw tbl hs.length) hs.length
    if hs.isEmpty then fail .noElements else
    pure { elems := zipElems hs as }
  match p bs with
  | .error e => .error e
  | .ok (g, _) => .ok g

/-! ### what `export_binary` refuses / what must hold for the round trip -/

def allStrings (g : Graph) : List Bytes :=
  g.elems.flatMap fun e => e.type :: e.name :: e.attrs.flatMap fun a =>
    a.name :: a.vals.filterMap fun v => match v with
      | .str s => some s | .ref (.stub u) => some u | _ => none

/-- Errors raised by `export_binary` before/while writing (first one in source order is not
modelled; the class is). -/
def exportError (c : Cfg) (g : Graph) : Option Err :=
  if c.v > 5 then some .badVersion
  else if c.v < 3 ∧ g.elems.any (fun e => e.attrs.any fun a => a.type == .time) then some .timeBeforeV3
  else if ¬ c.uni ∧ (allStrings g).any (fun s => !decodable false s) then some .nonAscii
  else none

def valOK (T : Tables) (nElems : Nat) (t : VT) : Val → Bool
  | .ref .null => t == .element
  | .ref (.stub u) => t == .element && T.stubWrite == .uuidText && T.stubRead == .uuidText &&
      !u.contains 0 && decodable false u && uuidTextOK u
  | .ref (.idx i) => t == .element && decide (i < nElems)
  | .fixed xs => match T.format t with
      | some (n, k) => t != .element && t != .string && t != .binary &&
          xs.length == arity t n && xs.all (fieldOK k) &&
          (t != .matrix || (n == 16 && fieldOK k 0 && fieldOK k f32One))
      | none => false
  | .str s => t == .string && !s.contains 0
  | .bin b => t == .binary && decide (b.length < 2147483648)

def attrOK (T : Tables) (c : Cfg) (nElems : Nat) (a : Attr) : Bool :=
  !a.name.contains 0 && decodable c.uni a.name &&
  (a.isArray || a.vals.length == 1) && decide (a.vals.length < 2147483648) &&
  !(a.type == .time && decide (c.v < 3)) &&
  a.vals.all (fun v => valOK T nElems a.type v &&
    match v with | .str s => decodable c.uni s | _ => true)

def elemOK (T : Tables) (c : Cfg) (nElems : Nat) (e : Elem) : Bool :=
  !e.type.contains 0 && decodable c.uni e.type && !e.name.contains 0 && decodable c.uni e.name &&
  e.uuid.length == 16 && decide (e.attrs.length < 2147483648) && e.attrs.all (attrOK T c nElems)

/-- Well-formed indexed graph for configuration `c`: the hypothesis of `C14_graph`. -/
def graphOK (T : Tables) (c : Cfg) (g : Graph) : Bool :=
  let (cw, iw) := widths T.strTabWrite c.v
  let tbl := mkTable (usedStrings c iw g)
  !g.elems.isEmpty && decide (g.elems.length < 2147483648) &&
  g.elems.all (elemOK T c g.elems.length) &&
  (cw == 0 || (fitsWidth cw (tbl.length + 1) && fitsWidth iw (tbl.length + 1))) &&
  (decide (c.v ≥ 4) → iw != 0)

/-- Decidable well-formedness of the tables used by the file layout. -/
def layoutOK (T : Tables) : Bool :=
  T.strTabRead == T.strTabWrite && T.strTabWrite.length == 6 &&
  T.strTabWrite.all (fun p => (p.1 == 0 && p.2 == 0) || ((p.1 == 2 || p.1 == 4) && (p.2 == 2 || p.2 == 4))) &&
  T.stubRead == T.stubWrite

/-! ## (v) KeyValues1 bridge (`from_kv1` / `to_kv1`) on trees -/

abbrev Str := List Char

/-- A Keyvalues tree. `name = none` is a root (`Keyvalues.root()`). -/
inductive KV
  | leaf (name : Str) (value : Str)
  | block (name : Option Str) (children : List KV)
deriving Repr

/-- Element trees produced by `from_kv1`. -/
inductive KType | leafT | blockT | rootT
deriving Repr, DecidableEq

inductive ETree
  | mk (type : KType) (name : Str) (attrs : List (Str × Str)) (subkeys : Option (List ETree))
deriving Repr

def KV.isBlock : KV → Bool
  | .leaf .. => false
  | .block .. => true

def KV.nameD : KV → Str
  | .leaf n _ => n
  | .block n _ => n.getD []

/-- `elem[name] = value`: replace the attribute with the same folded key (keeping its position), or
append. -/
def setItem (fold : Str → Str) (name value : Str) : List (Str × Str) → List (Str × Str)
  | [] => [(name, value)]
  | (n, v) :: rest =>
    if fold n = fold name then (name, value) :: rest else (n, v) :: setItem fold name value rest

/-- the `no_inline` scan of `from_kv1`: a reserved or repeated (folded) leaf name. -/
def leafClash (fold : Str → Str) : List KV → List Str → Bool
  | [], _ => false
  | .block .. :: rest, seen => leafClash fold rest seen
  | .leaf n _ :: rest, seen =>
    fold n = ['n', 'a', 'm', 'e'] || fold n = ['s', 'u', 'b', 'k', 'e', 'y', 's'] ||
    seen.contains (fold n) || leafClash fold rest (fold n :: seen)

/-- one step of the second loop of `from_kv1` when leaves are inlined. -/
def insertStep (fold : Str → Str) (acc : List (Str × Str)) (c : KV) : List (Str × Str) :=
  match c with
  | .leaf cn cv => setItem fold cn cv acc
  | .block .. => acc

mutual
def fromKv1 (fold : Str → Str) : KV → ETree
  | .leaf n v => .mk .leafT n [(['v', 'a', 'l', 'u', 'e'], v)] none
  | .block n cs =>
    let hasBlock := cs.any KV.isBlock
    let hasLeaf := cs.any (fun c => !c.isBlock)
    let noInline := leafClash fold cs [] || (hasBlock && hasLeaf)
    let ty := match n with | none => KType.rootT | some _ => KType.blockT
    if noInline || hasBlock then
      .mk ty (n.getD []) [] (some (fromKv1List fold cs))
    else
      .mk ty (n.getD []) (cs.foldl (insertStep fold) []) none
def fromKv1List (fold : Str → Str) : List KV → List ETree
  | [] => []
  | c :: cs => fromKv1 fold c :: fromKv1List fold cs
end

mutual
def toKv1 : ETree → KV
  | .mk .leafT n attrs _ =>
    .leaf n (((attrs.find? (·.1 == ['v', 'a', 'l', 'u', 'e'])).map (·.2)).getD [])
  | .mk ty n attrs sub =>
    .block (if ty = .rootT then none else some n)
      (attrs.map (fun p => KV.leaf p.1 p.2) ++ (match sub with | none => [] | some l => toKv1List l))
def toKv1List : List ETree → List KV
  | [] => []
  | e :: es => toKv1 e :: toKv1List es
end

/-! Trees on which the bridge is meant to work: roots only at the top. -/
mutual
def KV.innerOK : KV → Bool
  | .leaf .. => true
  | .block none _ => false
  | .block (some _) cs => innerOKList cs
def innerOKList : List KV → Bool
  | [] => true
  | c :: cs => c.innerOK && innerOKList cs
end

def KV.ok : KV → Bool
  | .leaf .. => true
  | .block _ cs => innerOKList cs

/-! ## (vi) numbering a heap graph: the traversal of `export_binary` / `export_kv2`

A *heap* graph is a `Graph` whose element list is in arbitrary order: an element reference `.idx k`
is the *location* `k` in that list.  `export_binary` numbers the elements reachable from the root by
iterating over a list it appends to (`for elem in elements: … if subelem.uuid not in elem_to_ind:
elem_to_ind[...] = len(elements); elements.append(subelem)`), skipping NULL and stub references;
`export_kv2` uses the same loop.  Elements are identified by location (distinct elements have
distinct UUIDs). -/

def Attr.refs (a : Attr) : List Nat :=
  if a.type = .element then
    a.vals.filterMap fun v => match v with | .ref (.idx k) => some k | _ => none
  else []

def Elem.refs (e : Elem) : List Nat := e.attrs.flatMap Attr.refs

def Graph.refsAt (h : Graph) (loc : Nat) : List Nat :=
  match h.elems[loc]? with
  | some e => e.refs
  | none => []

/-- the inner loops: append every location not seen yet, in order. -/
def visitAll (ord : List Nat) : List Nat → List Nat
  | [] => ord
  | k :: ks => visitAll (if ord.contains k then ord else ord ++ [k]) ks

/-- `for elem in elements:` with `elements` growing; `i` is the position of the iteration.
Generic in how the references of a location are obtained (`refs`), so that it serves every
payload type (binary values, text values). -/
def bfsOn (refs : Nat → List Nat) : Nat → Nat → List Nat → List Nat
  | 0, _, ord => ord
  | f + 1, i, ord =>
    match ord[i]? with
    | none => ord
    | some loc => bfsOn refs f (i + 1) (visitAll ord (refs loc))

/-- `elements` after the loop, as locations: position = assigned index (`n` locations). -/
def numberOn (refs : Nat → List Nat) (n root : Nat) : List Nat := bfsOn refs (n + 1) 0 [root]

def bfs (h : Graph) : Nat → Nat → List Nat → List Nat := bfsOn h.refsAt

def number (h : Graph) (root : Nat) : List Nat := numberOn h.refsAt h.elems.length root

/-- `elem_to_ind[...]`. -/
def posOf (ord : List Nat) (k : Nat) : Nat := ord.idxOf k

def relabelVal (ord : List Nat) : Val → Val
  | .ref (.idx k) => .ref (.idx (posOf ord k))
  | v => v

def relabelElem (ord : List Nat) (e : Elem) : Elem :=
  { e with attrs := e.attrs.map fun a => { a with vals := a.vals.map (relabelVal ord) } }

/-- The indexed graph that is written: elements in traversal order, references by index. -/
def indexed (h : Graph) (root : Nat) : Graph :=
  let ord := number h root
  { elems := ord.filterMap fun loc => (h.elems[loc]?).map (relabelElem ord) }

/-- no dangling element references. -/
def heapClosed (h : Graph) : Bool :=
  h.elems.all fun e => e.refs.all fun k => decide (k < h.elems.length)

end C14
