import Srctools.Model.C15
/-!
# C15 — model of `VTF.save` / `VTF.read` at the byte level

`saveFile` produces the exact bytes `VTF.save` writes for a texture built with the constructor
(frames either hold RGBA data or are "cleared" = `none`), including `compute_mipmaps`, the
regeneration of the thumbnail, the resource table and the particle sheet resource.
`readFile` parses such bytes the way `VTF.read` does, up to the frame table (key, size, offset).

Floats (`reflectivity`, `bumpmap_scale`, sheet durations and coordinates) are carried as their four
little-endian float32 bytes: the model is about layout, not about float rounding.
Core Lean only (linked into `drv_c15`).
-/
namespace C15

/-- `k` little-endian bytes of `n`. -/
def le : Nat → Nat → List Nat
  | 0, _ => []
  | k + 1, n => (n % 256) :: le k (n / 256)

def leDecode : List Nat → Nat
  | [] => 0
  | b :: bs => b + 256 * leDecode bs

def zeros (n : Nat) : List Nat := List.replicate n 0

/-- One entry of `VTF.resources`. `isBytes`: the data is a byte block stored later in the file,
otherwise a 32-bit integer stored inline. -/
structure Res where
  id : List Nat
  flags : Nat
  isBytes : Bool
  ival : Nat
  data : List Nat
deriving DecidableEq, Repr, Inhabited

structure SheetFrame where
  dur : List Nat       -- 4 bytes
  coords : List Nat    -- 64 bytes: four TexCoord of four float32
deriving DecidableEq, Repr, Inhabited

structure SheetSeq where
  num : Nat
  clamp : Bool
  duration : List Nat  -- 4 bytes
  frames : List SheetFrame
deriving DecidableEq, Repr, Inhabited

structure FrameM where
  w : Nat
  h : Nat
  data : Option (List Nat)
deriving DecidableEq, Repr, Inhabited

abbrev Key := Nat × Nat × Nat

structure Vtf where
  width : Nat
  height : Nat
  depth : Nat
  verMinor : Nat
  flags : Nat
  frameCount : Nat
  firstFrame : Nat
  refl : List Nat      -- 12 bytes
  bump : List Nat      -- 4 bytes
  fmt : Nat
  lowFmt : Nat
  mipCount : Nat
  low : FrameM
  frames : List (Key × FrameM)
  res : List Res
  sheet : List SheetSeq
deriving Repr, Inhabited

/-- Error kinds. -/
inductive Err
  | version        -- ValueError: version not 7.0–7.5
  | depthVersion   -- ValueError: volumetric texture before 7.2
  | sheetVersion   -- ValueError: unknown sheet version
  | notImpl        -- NotImplementedError: no saver/loader for the format
  | rescale        -- ValueError from rescale_from (sizes not same / double)
  | buffer         -- BufferError: pixel array / data block of the wrong size
  | key            -- KeyError (missing frame, unknown format number)
  | signature      -- ValueError: bad signature
  | struct         -- struct.error: short read
  | noFormat       -- ValueError: high-res format NONE
  | dupRes | noHigh | noLow | sheetBad
deriving DecidableEq, Repr

def Err.code : Err → Nat
  | .version => 1 | .depthVersion => 2 | .sheetVersion => 3 | .notImpl => 4 | .rescale => 5
  | .buffer => 6 | .key => 7 | .signature => 8 | .struct => 9 | .noFormat => 10
  | .dupRes => 11 | .noHigh => 12 | .noLow => 13 | .sheetBad => 14

/-- `ImageFormats.bin_value(asw)` as an unsigned 32-bit number. -/
def binValue (ind : Nat) (asw : Bool) : Nat :=
  if ind = 27 then 0xFFFFFFFF
  else if ind = 28 then (if asw then 35 else 38)
  else if ind = 29 then (if asw then 34 else 37)
  else ind

/-- `FORMAT_ORDER[value]` for the signed 32-bit header field (given as unsigned). -/
def formatOrder (v : Nat) : Option Nat :=
  if v = 0xFFFFFFFF then some 27
  else if v = 34 ∨ v = 37 then some 29
  else if v = 35 ∨ v = 38 then some 28
  else if v < 27 then some v
  else none

def blank (w h : Nat) : List Nat := (List.replicate (w * h) [0, 0, 0, 255]).flatten

def lookupFrame (fr : List (Key × FrameM)) (k : Key) : Option FrameM :=
  (fr.find? (fun p => p.1 == k)).map (·.2)

/-- `Frame.rescale_from(larger)`'s size check. -/
def rescaleOK (w h lw lh : Nat) : Bool :=
  (w == lw || 2 * w == lw) && (h == lh || 2 * h == lh)

/-- `compute_mipmaps(filter)` for one `(frame, depth|side)`: the final data of levels `0 .. n-1`. -/
def mipChain (fr : List (Key × FrameM)) (filt f d : Nat) : Nat → Except Err (List FrameM)
  | 0 => pure []
  | 1 => do
    let some f0 := lookupFrame fr (f, d, 0) | throw .key
    pure [{ f0 with data := some (f0.data.getD (blank f0.w f0.h)) }]
  | m + 2 => do
    let prev ← mipChain fr filt f d (m + 1)
    let some p := prev.getLast? | throw .key
    let some cur := lookupFrame fr (f, d, m + 1) | throw .key
    match cur.data with
    | some _ => pure (prev ++ [cur])
    | none =>
      if !rescaleOK cur.w cur.h p.w p.h then throw .rescale
      let some out := scaleDown filt p.w p.h cur.w cur.h (p.data.getD []) | throw .rescale
      pure (prev ++ [{ cur with data := some out }])

/-- All frames after `compute_mipmaps(filter)`: for every `(f, d)` of the object's own range, levels
`0..mc-1` are replaced by the chain; other entries are unchanged. -/
def computeMips (v : Vtf) (filt : Nat) : Except Err (List (Key × FrameM)) := do
  let dseq := depthSeq v.flags v.verMinor v.depth
  let mut out : List (Key × FrameM) := []
  for f in List.range v.frameCount do
    for d in dseq do
      let ch ← mipChain v.frames filt f d (max v.mipCount 1)
      out := out ++ (ch.zipIdx.map fun (fm, m) => ((f, d, m), fm))
  -- entries not covered keep their state
  let rest := v.frames.filter fun p => !(out.any fun q => q.1 == p.1)
  pure (out ++ rest)

/-- The thumbnail after `compute_mipmaps(filter)`: regenerated from the level that is twice its size
(always, even when it held data); untouched when there is no such level. -/
def computeLow (v : Vtf) (frames : List (Key × FrameM)) (filt : Nat) : Except Err FrameM := do
  let mut low := v.low
  if v.lowFmt ≠ fmtNone then
    let side := if v.flags &&& envmapFlag ≠ 0 then 3 else 0
    for m in List.range v.mipCount do
      let some fr := lookupFrame frames (0, side, m) | throw .key
      if fr.w / 2 == low.w && fr.h / 2 == low.h then
        if !rescaleOK low.w low.h fr.w fr.h then throw .rescale
        match fr.data with
        | some d =>
          let some out := scaleDown filt fr.w fr.h low.w low.h d | throw .rescale
          low := { low with data := some out }
        | none => low := { low with data := some (low.data.getD (blank low.w low.h)) }
  pure low

/-- `VTF.compute_mipmaps(filter)` as a state change. -/
def applyCompute (v : Vtf) (filt : Nat) : Except Err Vtf := do
  let frames ← computeMips v filt
  let low ← computeLow v frames filt
  pure { v with frames, low }

/-- `VTF.clear_mipmaps(after=k)`: every level above `k` and the thumbnail are cleared. -/
def applyClear (v : Vtf) (after : Nat) : Vtf :=
  { v with frames := v.frames.map fun (k, fr) => if k.2.2 > after then (k, { fr with data := none }) else (k, fr),
           low := { v.low with data := none } }

/-- operations applied to the object before saving: `(0, k)` = `clear_mipmaps(after=k)`,
`(1, f)` = `compute_mipmaps(FilterMode(f))`. -/
def applyOps (v : Vtf) : List (Nat × Nat) → Except Err Vtf
  | [] => pure v
  | (0, k) :: ops => applyOps (applyClear v k) ops
  | (_, f) :: ops => do applyOps (← applyCompute v f) ops

/-- `_format_funcs.save(fmt, frame._data, bytearray(frame_size), w, h)`. -/
def encodeFrame (fmt : Nat) (fr : FrameM) : Except Err (List Nat) := do
  let data := fr.data.getD (blank fr.w fr.h)
  if data.length ≠ 4 * fr.w * fr.h then throw .buffer
  let c := codecOf fmt
  if !c.hasSave then throw .notImpl
  pure (saveImg c data)

/-- `SheetSequence.make_data(sequences, version)`. -/
def sheetData (seqs : List SheetSeq) (version : Nat) : List Nat :=
  le 4 version ++ le 4 seqs.length ++ seqs.flatMap fun s =>
    le 4 s.num ++ zeros 3 ++ [if s.clamp then 1 else 0] ++ le 4 s.frames.length ++ s.duration ++
      s.frames.flatMap fun fr =>
        fr.dur ++ (if version = 1 then fr.coords else fr.coords.take 16)

def idLow : List Nat := [1, 0, 0]
def idHigh : List Nat := [0x30, 0, 0]
def idSheet : List Nat := [0x10, 0, 0]

/-- `VTF.save(file, version=(7, minor), sheet_seq_version, asw_or_later)`: the bytes written. -/
def saveFile (v : Vtf) (minor sheetVer : Nat) (asw : Bool) : Except Err (List Nat) := do
  if minor > 5 then throw .version
  if minor < 2 ∧ v.depth > 1 then throw .depthVersion
  let hasRes := minor ≥ 3
  let hasSheet := !v.sheet.isEmpty
  let resCount := v.res.length + 2 + (if hasSheet then 1 else 0)
  let preLen := 63 + (if minor ≥ 2 then 2 else 0)
  let headerSize := if hasRes then preLen + 15 + 8 * resCount else preLen + 15
  -- resource data blocks
  if hasRes ∧ hasSheet ∧ sheetVer > 1 then throw .sheetVersion
  let sheetBytes := sheetData v.sheet sheetVer
  -- offsets of byte resources, in order
  let mut off := headerSize
  let mut resOffs : List Nat := []
  let mut blocks : List Nat := []
  if hasRes then
    for r in v.res do
      if r.isBytes then
        resOffs := resOffs ++ [off]
        blocks := blocks ++ le 4 r.data.length ++ r.data
        off := off + 4 + r.data.length
      else
        resOffs := resOffs ++ [0]
  let sheetOff := off
  if hasRes ∧ hasSheet then
    blocks := blocks ++ le 4 sheetBytes.length ++ sheetBytes
    off := off + 4 + sheetBytes.length
  -- images
  let v ← applyCompute v 4      -- `self.compute_mipmaps()` with the default (bilinear) filter
  let frames := v.frames
  let low : FrameM := { v.low with data := some (v.low.data.getD (blank v.low.w v.low.h)) }  -- `_low_res.load()`
  let lowOff := off
  let lowBytes ← (if v.lowFmt ≠ fmtNone then encodeFrame v.lowFmt low else pure [])
  let highOff := lowOff + lowBytes.length
  let dseqW := depthSeq v.flags minor v.depth
  let mut high : List Nat := []
  for k in fileKeys v.mipCount v.frameCount dseqW do
    -- a cubemap created as 7.5+ has no sphere map (side 6): older versions get a blank one
    let fr ← (match lookupFrame frames k with
      | some fr => pure fr
      | none =>
        if k.2.1 = 6 ∧ v.flags &&& envmapFlag ≠ 0 then
          pure (⟨max (v.width >>> k.2.2) 1, max (v.height >>> k.2.2) 1, none⟩ : FrameM)
        else throw Err.key)
    let bs ← encodeFrame v.fmt fr
    high := high ++ bs
  -- header
  let hdr := [86, 84, 70, 0] ++ le 4 7 ++ le 4 minor ++ le 4 headerSize ++ le 2 v.width ++
    le 2 v.height ++ le 4 v.flags ++ le 2 v.frameCount ++ le 2 v.firstFrame ++ zeros 4 ++ v.refl ++
    zeros 4 ++ v.bump ++ le 4 (binValue v.fmt asw) ++ le 1 v.mipCount ++
    le 4 (binValue v.lowFmt asw) ++ le 1 v.low.w ++ le 1 v.low.h ++
    (if minor ≥ 2 then le 2 v.depth else [])
  let resTable := if hasRes then
      zeros 3 ++ le 4 resCount ++ zeros 8 ++
      ((v.res.zip resOffs).flatMap fun (r, o) =>
        if r.isBytes then r.id ++ [r.flags &&& 0xFD] ++ le 4 o
        else r.id ++ [r.flags ||| 2] ++ le 4 r.ival) ++
      idLow ++ [0] ++ le 4 lowOff ++ idHigh ++ [0] ++ le 4 highOff ++
      (if hasSheet then idSheet ++ [0] ++ le 4 sheetOff else [])
    else zeros 15
  pure (hdr ++ resTable ++ blocks ++ lowBytes ++ high)

/-! ## Reading -/

structure View where
  verMinor : Nat
  headerSize : Nat
  width : Nat
  height : Nat
  flags : Nat
  frameCount : Nat
  firstFrame : Nat
  refl : List Nat
  bump : List Nat
  fmt : Nat
  mipCount : Nat
  lowFmt : Nat
  lowW : Nat
  lowH : Nat
  depth : Nat
  res : List Res
  sheet : List SheetSeq
  lowOff : Option Nat
  frames : List (Key × Nat × Nat × Nat)
  /-- RGBA16161616(F): only metadata is read, frames have no file position. -/
  headerOnly : Bool
deriving Repr

def slice (bs : Array Nat) (off n : Nat) : Except Err (List Nat) :=
  if off + n ≤ bs.size then pure (bs.extract off (off + n)).toList else throw .struct

def u (bs : Array Nat) (off n : Nat) : Except Err Nat := do pure (leDecode (← slice bs off n))

/-- `SheetSequence.from_resource(data)`. -/
def parseSheet (d : Array Nat) : Except Err (List SheetSeq) := do
  let version ← u d 0 4
  let count ← u d 4 4
  if version > 1 then throw .sheetBad
  if count > 64 then throw .sheetBad
  let mut off := 8
  let mut seqs : List SheetSeq := []
  for _ in List.range count do
    let num ← u d off 4
    let clamp ← u d (off + 7) 1
    let fc ← u d (off + 8) 4
    let total ← slice d (off + 12) 4
    off := off + 16
    if num ≥ 64 then throw .sheetBad
    if seqs.any (·.num == num) then throw .sheetBad
    let mut frames : List SheetFrame := []
    for _ in List.range fc do
      let dur ← slice d off 4
      off := off + 4
      if version = 0 then
        let c ← slice d off 16
        frames := frames ++ [⟨dur, c ++ c ++ c ++ c⟩]
        off := off + 16
      else
        let c ← slice d off 64
        frames := frames ++ [⟨dur, c⟩]
        off := off + 64
    seqs := seqs ++ [⟨num, clamp != 0, total, frames⟩]
  pure seqs

/-- `VTF.read(file)` (not `header_only`), up to the frame table. -/
def readFile (l : List Nat) : Except Err View := do
  let bs := l.toArray
  let sig ← (slice bs 0 4 |>.mapError fun _ => Err.signature)
  if sig ≠ [86, 84, 70, 0] then throw .signature
  let major ← u bs 4 4
  let minor ← u bs 8 4
  if major ≠ 7 ∨ minor > 5 then throw .version
  let _ ← slice bs 12 51
  let headerSize ← u bs 12 4
  let width ← u bs 16 2
  let height ← u bs 18 2
  let flags ← u bs 20 4
  let frameCount ← u bs 24 2
  let firstFrame ← u bs 26 2
  let refl ← slice bs 32 12
  let bump ← slice bs 48 4
  let hf ← u bs 52 4
  let mipCount ← u bs 56 1
  let lf ← u bs 57 4
  let lowW ← u bs 61 1
  let lowH ← u bs 62 1
  let some fmt := formatOrder hf | throw .key
  let some lowFmt := formatOrder lf | throw .key
  if fmt = fmtNone then throw .noFormat
  let mut depth := 1
  if minor ≥ 2 then depth ← u bs 63 2
  if depth = 0 then depth := 1
  let mut lowOff : Option Nat := none
  let mut highOff : Option Nat := none
  let mut res : List Res := []
  let mut sheet : List SheetSeq := []
  if minor ≥ 3 then
    let base := 63 + 2
    let _ ← slice bs base 15
    let num ← u bs (base + 3) 4
    let mut pos := base + 15
    for _ in List.range num do
      let id ← slice bs pos 3
      let fl ← u bs (pos + 3) 1
      let dat ← u bs (pos + 4) 4
      pos := pos + 8
      if res.any (·.id == id) then throw .dupRes
      if id == idLow then lowOff := some dat
      else if id == idHigh then highOff := some dat
      else res := res ++ [⟨id, fl, false, dat, []⟩]
    let mut res2 : List Res := []
    for r in res do
      if r.flags &&& 2 = 0 then
        let size ← u bs r.ival 4
        -- file.read(size) may return fewer bytes at end of file
        let d := (bs.extract (r.ival + 4) (r.ival + 4 + size)).toList
        res2 := res2 ++ [{ r with isBytes := true, ival := 0, data := d }]
      else res2 := res2 ++ [r]
    res := res2
    match res.find? (·.id == idSheet) with
    | some r =>
      res := res.filter (·.id != idSheet)
      if !r.isBytes then throw .sheetBad
      sheet ← parseSheet r.data.toArray
    | none => pure ()
  else
    lowOff := some headerSize
    highOff := some (headerSize + frameSize (fmtOf lowFmt) lowW lowH)
  let some high := highOff | throw .noHigh
  let headerOnly : Bool := fmt = 24 ∨ fmt = 25
  if lowFmt ≠ fmtNone ∧ !headerOnly ∧ lowOff.isNone then throw .noLow
  let dseq := depthSeq flags minor depth
  let frames := layoutFrom (frameSize (fmtOf fmt)) (readerDims width height)
    (fileKeys mipCount frameCount dseq) high
  pure { verMinor := minor, headerSize, width, height, flags, frameCount, firstFrame, refl, bump,
         fmt, mipCount, lowFmt, lowW, lowH, depth, res, sheet,
         lowOff := if lowFmt ≠ fmtNone then lowOff else none, frames, headerOnly }

/-- `Frame.load()` of a lazily read frame: decode `frame_size` bytes at `off`. -/
def decodeAt (bs : Array Nat) (fmt w h off : Nat) : Except Err (List Nat) := do
  let n := frameSize (fmtOf fmt) w h
  let d := (bs.extract off (off + n)).toList
  if d.length ≠ n then throw .buffer
  let c := codecOf fmt
  if !c.hasLoad then throw .notImpl
  if c.load.isEmpty then throw .notImpl   -- block formats are not modelled
  pure (loadImg c d)

/-! ## Table-like constants the layout above relies on (compared with `Gen.Vtf` in `Props/C15`) -/

/-- `_HEADER = struct.Struct('<IHHIHH4xfff4xfiBiBB')`: 51 bytes at offset 12. -/
def headerFmt : List Char := ['<', 'I', 'H', 'H', 'I', 'H', 'H', '4', 'x', 'f', 'f', 'f', '4', 'x', 'f', 'i', 'B', 'i', 'B', 'B']
/-- the literal struct formats used by `VTF.save` (sorted, without duplicates). -/
def saveFmts : List (List Char) := [['<', '3', 's', 'B'], ['<', '3', 's', 'B', 'I'], ['<', '3', 'x', 'I', '8', 'x'], ['<', 'H'], ['<', 'I'], ['<', 'I', 'I']]
/-- the literal struct formats used by `VTF.read`. -/
def readFmts : List (List Char) := [['<', '3', 's', 'B', 'I'], ['<', '3', 'x', 'I', '8', 'x'], ['H'], ['I'], ['I', 'I']]
/-- the literal struct formats used by `SheetSequence` and `TexCoord`. -/
def sheetFmts : List (List Char) := [['<', '4', 'f'], ['<', 'I', 'I'], ['<', 'I', 'x', 'x', 'x', '?', 'I', 'f'], ['<', 'f']]
/-- `CubeSide` values; `CUBES` is this list without its last element (SPHERE), used from 7.5 on. -/
def cubeSides : List Nat := [0, 1, 2, 3, 4, 5, 6]
def sphereCutoff : Nat := 5
/-- `FilterMode` values of UPPER_LEFT, UPPER_RIGHT, LOWER_LEFT, LOWER_RIGHT, BILINEAR. -/
def filters : List Nat := [0, 1, 2, 3, 4]

end C15
