import Srctools.Model.C15
/-!
# C15 — model of `VTF.save` / `VTF.read` at the byte level

`saveFile` produces the exact bytes `VTF.save` writes (header, resource table, resource blocks,
particle sheet, `compute_mipmaps`, regeneration of the thumbnail, the image data), for a texture
whose frames hold RGBA data, are cleared (`data = none`), or are still *lazy* (`fileData`: the pixels
a not-yet-loaded frame of a file that was read would load).  `readFile` parses such bytes the way
`VTF.read` does, up to the frame table (key, size, offset); `decodeAt` is `Frame.load` of one entry.

Everything is written as plain structural recursion over lists (no loops with mutable state), so
that `Props/C15.lean` can prove `readFile (saveFile v) = view v`.

Floats (`reflectivity`, `bumpmap_scale`, sheet durations and coordinates) are carried as their four
little-endian float32 bytes: the model is about layout, not about float rounding.
Core Lean only (linked into `drv_c15`).
-/
namespace C15

/-- `k` little-endian bytes of `n`. -/
def le : Nat → Nat → List Nat
  | 0, _ => []
  | k + 1, n => (n % 256) :: le k (n / 256)

def leDecode : List Nat → Nat
  | [] => 0
  | b :: bs => b + 256 * leDecode bs

def zeros (n : Nat) : List Nat := List.replicate n 0

/-- `n` elements starting at `off` (fewer at the end of the list, like `file.read`). -/
def slice (l : List Nat) (off n : Nat) : List Nat := (l.drop off).take n

/-- One entry of `VTF.resources`. `isBytes`: the data is a byte block stored later in the file,
otherwise a 32-bit integer stored inline. -/
structure Res where
  id : List Nat
  flags : Nat
  isBytes : Bool
  ival : Nat
  data : List Nat
deriving DecidableEq, Repr, Inhabited

structure SheetFrame where
  dur : List Nat       -- 4 bytes
  coords : List Nat    -- 64 bytes: four TexCoord of four float32
deriving DecidableEq, Repr, Inhabited

structure SheetSeq where
  num : Nat
  clamp : Bool
  duration : List Nat  -- 4 bytes
  frames : List SheetFrame
deriving DecidableEq, Repr, Inhabited

/-- A `Frame`: `data` is `_data` (`none` = cleared / not loaded yet); `fileData` is present while the
frame is still lazy (`_fileinfo` set): the RGBA content `load()` will read from the file. -/
structure FrameM where
  w : Nat
  h : Nat
  data : Option (List Nat)
  fileData : Option (List Nat) := none
deriving DecidableEq, Repr, Inhabited

abbrev Key := Nat × Nat × Nat

structure Vtf where
  width : Nat
  height : Nat
  depth : Nat
  verMinor : Nat
  flags : Nat
  frameCount : Nat
  firstFrame : Nat
  refl : List Nat      -- 12 bytes
  bump : List Nat      -- 4 bytes
  fmt : Nat
  lowFmt : Nat
  mipCount : Nat
  low : FrameM
  frames : List (Key × FrameM)
  res : List Res
  sheet : List SheetSeq
deriving Repr, Inhabited

/-- Error kinds. -/
inductive Err
  | version        -- ValueError: version not 7.0–7.5
  | depthVersion   -- ValueError: volumetric texture before 7.2
  | sheetVersion   -- ValueError: unknown sheet version
  | notImpl        -- NotImplementedError: no saver/loader for the format
  | rescale        -- ValueError from rescale_from (sizes not same / double)
  | buffer         -- BufferError: pixel array / data block of the wrong size
  | key            -- KeyError (missing frame, unknown format number)
  | signature      -- ValueError: bad signature
  | struct         -- struct.error: short read
  | noFormat       -- ValueError: high-res format NONE
  | dupRes | noHigh | noLow | sheetBad
deriving DecidableEq, Repr

def Err.code : Err → Nat
  | .version => 1 | .depthVersion => 2 | .sheetVersion => 3 | .notImpl => 4 | .rescale => 5
  | .buffer => 6 | .key => 7 | .signature => 8 | .struct => 9 | .noFormat => 10
  | .dupRes => 11 | .noHigh => 12 | .noLow => 13 | .sheetBad => 14

/-- `ImageFormats.bin_value(asw)` as an unsigned 32-bit number. -/
def binValue (ind : Nat) (asw : Bool) : Nat :=
  if ind = 27 then 0xFFFFFFFF
  else if ind = 28 then (if asw then 35 else 38)
  else if ind = 29 then (if asw then 34 else 37)
  else ind

/-- `FORMAT_ORDER[value]` for the signed 32-bit header field (given as unsigned). -/
def formatOrder (v : Nat) : Option Nat :=
  if v = 0xFFFFFFFF then some 27
  else if v = 34 ∨ v = 37 then some 29
  else if v = 35 ∨ v = 38 then some 28
  else if v < 27 then some v
  else none

def blank (w h : Nat) : List Nat := (List.replicate (w * h) [0, 0, 0, 255]).flatten

def lookupFrame (fr : List (Key × FrameM)) (k : Key) : Option FrameM :=
  (fr.find? (fun p => p.1 == k)).map (·.2)

/-- `Frame.load()`: a lazy frame takes its content from the file, otherwise a cleared frame
becomes blank. -/
def FrameM.load (fr : FrameM) : FrameM :=
  match fr.fileData with
  | some d => { fr with data := some d, fileData := none }
  | none => { fr with data := some (fr.data.getD (blank fr.w fr.h)) }

/-- `Frame.rescale_from(larger)`'s size check. -/
def rescaleOK (w h lw lh : Nat) : Bool :=
  (w == lw || 2 * w == lw) && (h == lh || 2 * h == lh)

/-- `compute_mipmaps(filter)`: the state of level `m` of `(frame f, depth|side d)` afterwards.
Level 0 is loaded; a higher level whose `_data` is `None` is regenerated from the (already
processed) level below it (a lazy frame keeps its `fileData`: the file content wins when it is
loaded later); a level that holds data is left alone. -/
def levelAfter (fr : List (Key × FrameM)) (filt f d : Nat) : Nat → Except Err FrameM
  | 0 =>
    match lookupFrame fr (f, d, 0) with
    | some f0 => pure f0.load
    | none => throw .key
  | m + 1 =>
    match levelAfter fr filt f d m with
    | .error e => throw e
    | .ok p =>
      match lookupFrame fr (f, d, m + 1) with
      | none => throw .key
      | some cur =>
        match cur.data with
        | some _ => pure cur
        | none =>
          if !rescaleOK cur.w cur.h p.w p.h then throw .rescale
          else match scaleDown filt p.w p.h cur.w cur.h (p.data.getD []) with
            | some out => pure { cur with data := some out }
            | none => throw .rescale

/-- the keys `compute_mipmaps` works on: the object's own frames × sides × declared levels
(level 0 is touched even when `mipmap_count` is 0). -/
def inComputeRange (v : Vtf) (k : Key) : Bool :=
  k.1 < v.frameCount && (depthSeq v.flags v.verMinor v.depth).contains k.2.1 && k.2.2 < max v.mipCount 1

/-- one entry of `_frames` after `compute_mipmaps(filter)`. -/
def computeOne (v : Vtf) (filt : Nat) (p : Key × FrameM) : Except Err (Key × FrameM) :=
  if inComputeRange v p.1 then
    match levelAfter v.frames filt p.1.1 p.1.2.1 p.1.2.2 with
    | .ok fr' => .ok (p.1, fr')
    | .error e => .error e
  else .ok p

/-- All frames after `compute_mipmaps(filter)`: every frame in range is replaced by its state
afterwards (a missing one is a `KeyError`), the others are unchanged. -/
def computeMips (v : Vtf) (filt : Nat) : Except Err (List (Key × FrameM)) :=
  if (fileKeys (max v.mipCount 1) v.frameCount (depthSeq v.flags v.verMinor v.depth)).all
      (fun k => (lookupFrame v.frames k).isSome) then
    v.frames.mapM (computeOne v filt)
  else .error .key

/-- one step of the thumbnail loop of `compute_mipmaps`. -/
def lowStep (frames : List (Key × FrameM)) (side filt : Nat) (low : FrameM) (m : Nat) :
    Except Err FrameM := do
  let some fr := lookupFrame frames (0, side, m) | throw .key
  if fr.w / 2 == low.w && fr.h / 2 == low.h then
    if !rescaleOK low.w low.h fr.w fr.h then throw .rescale
    match fr.data with
    | some d =>
      let some out := scaleDown filt fr.w fr.h low.w low.h d | throw .rescale
      pure { low with data := some out }
    | none => pure { low with data := some (low.data.getD (blank low.w low.h)) }
  else pure low

/-- The thumbnail after `compute_mipmaps(filter)`: regenerated from the level that is twice its size
(always, even when it held data); untouched when there is no such level. -/
def computeLow (v : Vtf) (frames : List (Key × FrameM)) (filt : Nat) : Except Err FrameM :=
  if v.lowFmt ≠ fmtNone then
    (List.range v.mipCount).foldlM (lowStep frames (if v.flags &&& envmapFlag ≠ 0 then 3 else 0) filt) v.low
  else pure v.low

/-- `VTF.compute_mipmaps(filter)` as a state change. -/
def applyCompute (v : Vtf) (filt : Nat) : Except Err Vtf :=
  match computeMips v filt with
  | .error e => .error e
  | .ok frames =>
    match computeLow v frames filt with
    | .error e => .error e
    | .ok low => .ok { v with frames, low }

/-- `Frame.clear()`. -/
def FrameM.clear (fr : FrameM) : FrameM := { fr with data := none, fileData := none }

/-- `VTF.clear_mipmaps(after=k)`: every level above `k` and the thumbnail are cleared. -/
def applyClear (v : Vtf) (after : Nat) : Vtf :=
  { v with frames := v.frames.map fun (k, fr) => if k.2.2 > after then (k, fr.clear) else (k, fr),
           low := v.low.clear }

/-- operations applied to the object before saving: `(0, k)` = `clear_mipmaps(after=k)`,
`(1, f)` = `compute_mipmaps(FilterMode(f))`, `(2, _)` = `VTF.load()`. -/
def applyOps (v : Vtf) : List (Nat × Nat) → Except Err Vtf
  | [] => pure v
  | (0, k) :: ops => applyOps (applyClear v k) ops
  | (1, f) :: ops => do applyOps (← applyCompute v f) ops
  | (_, _) :: ops =>
    applyOps { v with frames := v.frames.map fun (k, fr) => (k, fr.load), low := v.low.load } ops

/-- `_format_funcs.save(fmt, frame._data, bytearray(frame_size), w, h)` of a loaded frame. -/
def encodeFrame (fmt : Nat) (fr : FrameM) : Except Err (List Nat) :=
  let data := fr.data.getD (blank fr.w fr.h)
  if data.length ≠ 4 * fr.w * fr.h then throw .buffer
  else if !(codecOf fmt).hasSave then throw .notImpl
  else pure (saveImg (codecOf fmt) data)

/-! ### particle sheet -/

def sheetFrameBytes (version : Nat) (fr : SheetFrame) : List Nat :=
  fr.dur ++ (if version = 1 then fr.coords else fr.coords.take 16)

def sheetSeqBytes (version : Nat) (s : SheetSeq) : List Nat :=
  le 4 s.num ++ zeros 3 ++ [if s.clamp then 1 else 0] ++ le 4 s.frames.length ++ s.duration ++
    (s.frames.map (sheetFrameBytes version)).flatten

/-- `SheetSequence.make_data(sequences, version)`. -/
def sheetData (seqs : List SheetSeq) (version : Nat) : List Nat :=
  le 4 version ++ le 4 seqs.length ++ (seqs.map (sheetSeqBytes version)).flatten

def idLow : List Nat := [1, 0, 0]
def idHigh : List Nat := [0x30, 0, 0]
def idSheet : List Nat := [0x10, 0, 0]

/-! ### writing -/

/-- the data blocks of the byte resources, in order: 4-byte length + data. -/
def resBlocks : List Res → List (List Nat)
  | [] => []
  | r :: rs => if r.isBytes then (le 4 r.data.length ++ r.data) :: resBlocks rs else resBlocks rs

/-- the file offset stored for each resource (0 for inline ones), blocks starting at `start`. -/
def resOffsets (start : Nat) : List Res → List Nat
  | [] => []
  | r :: rs =>
    if r.isBytes then start :: resOffsets (start + 4 + r.data.length) rs else 0 :: resOffsets start rs

/-- one 8-byte entry of the resource table. -/
def resEntry (r : Res) (off : Nat) : List Nat :=
  if r.isBytes then r.id ++ [r.flags &&& 0xFD] ++ le 4 off else r.id ++ [r.flags ||| 2] ++ le 4 r.ival

def resEntries : List Res → List Nat → List (List Nat)
  | r :: rs, o :: os => resEntry r o :: resEntries rs os
  | _, _ => []

def hasSheetRes (v : Vtf) : Bool := !v.sheet.isEmpty

def resCount (v : Vtf) : Nat := v.res.length + 2 + (if hasSheetRes v then 1 else 0)

/-- bytes before the resource table / padding: 63, plus the depth field from 7.2. -/
def preLen (minor : Nat) : Nat := 63 + (if minor ≥ 2 then 2 else 0)

def headerSize (v : Vtf) (minor : Nat) : Nat :=
  if minor ≥ 3 then preLen minor + 15 + 8 * resCount v else preLen minor + 15

/-- the block of the particle sheet resource (present from 7.3 when there are sequences). -/
def sheetBlock (v : Vtf) (minor sheetVer : Nat) : List Nat :=
  if minor ≥ 3 ∧ hasSheetRes v then
    le 4 (sheetData v.sheet sheetVer).length ++ sheetData v.sheet sheetVer
  else []

/-- all resource data between the header and the images. -/
def dataBlocks (v : Vtf) (minor sheetVer : Nat) : List Nat :=
  (if minor ≥ 3 then (resBlocks v.res).flatten else []) ++ sheetBlock v minor sheetVer

def sheetOff (v : Vtf) (minor : Nat) : Nat :=
  headerSize v minor + (if minor ≥ 3 then (resBlocks v.res).flatten.length else 0)

def lowOff (v : Vtf) (minor sheetVer : Nat) : Nat :=
  headerSize v minor + (dataBlocks v minor sheetVer).length

/-- the fields of the fixed header, in order (`<4s II` + `_HEADER` + `<H` depth from 7.2). -/
def hdrFields (v : Vtf) (minor : Nat) (asw : Bool) : List (List Nat) :=
  [[86, 84, 70, 0], le 4 7, le 4 minor, le 4 (headerSize v minor), le 2 v.width, le 2 v.height,
   le 4 v.flags, le 2 v.frameCount, le 2 v.firstFrame, zeros 4, v.refl, zeros 4, v.bump,
   le 4 (binValue v.fmt asw), le 1 v.mipCount, le 4 (binValue v.lowFmt asw), le 1 v.low.w,
   le 1 v.low.h] ++ (if minor ≥ 2 then [le 2 v.depth] else [])

/-- resource table (from 7.3) or 15 bytes of padding. -/
def resTable (v : Vtf) (minor sheetVer : Nat) (lowLen : Nat) : List Nat :=
  if minor ≥ 3 then
    zeros 3 ++ le 4 (resCount v) ++ zeros 8 ++
      (resEntries v.res (resOffsets (headerSize v minor) v.res)).flatten ++
      idLow ++ [0] ++ le 4 (lowOff v minor sheetVer) ++
      idHigh ++ [0] ++ le 4 (lowOff v minor sheetVer + lowLen) ++
      (if hasSheetRes v then idSheet ++ [0] ++ le 4 (sheetOff v minor) else [])
  else zeros 15

/-- The whole file, given the encoded thumbnail and the encoded frames (in `fileKeys` order). -/
def fileBytes (v : Vtf) (minor sheetVer : Nat) (asw : Bool) (lowBytes : List Nat)
    (frameBlocks : List (List Nat)) : List Nat :=
  (hdrFields v minor asw).flatten ++ resTable v minor sheetVer lowBytes.length ++
    dataBlocks v minor sheetVer ++ lowBytes ++ frameBlocks.flatten

/-- the frame written for key `k`: a cubemap created as 7.5+ has no sphere map (side 6), older
versions get a blank one. -/
def frameFor (v : Vtf) (k : Key) : Except Err FrameM :=
  match lookupFrame v.frames k with
  | some fr => pure fr
  | none =>
    if k.2.1 = 6 ∧ v.flags &&& envmapFlag ≠ 0 then
      pure ⟨max (v.width >>> k.2.2) 1, max (v.height >>> k.2.2) 1, none, none⟩
    else throw .key

/-- load and encode the frame written for key `k`. -/
def encodeKey (v : Vtf) (k : Key) : Except Err (List Nat) :=
  match frameFor v k with
  | .error e => .error e
  | .ok fr => encodeFrame v.fmt fr.load

/-- load and encode the thumbnail (nothing when its format is NONE). -/
def encodeLow (v : Vtf) : Except Err (List Nat) :=
  if v.lowFmt ≠ fmtNone then encodeFrame v.lowFmt v.low.load else .ok []

/-- The part of `VTF.save` after `compute_mipmaps()`: load and encode the thumbnail and every frame
of the version being written, and lay the file out. -/
def assemble (v : Vtf) (minor sheetVer : Nat) (asw : Bool) : Except Err (List Nat) :=
  match encodeLow v with
  | .error e => .error e
  | .ok lowBytes =>
    match (fileKeys v.mipCount v.frameCount (depthSeq v.flags minor v.depth)).mapM (encodeKey v) with
    | .error e => .error e
    | .ok blocks => .ok (fileBytes v minor sheetVer asw lowBytes blocks)

/-- `VTF.save(file, version=(7, minor), sheet_seq_version, asw_or_later)`: the bytes written. -/
def saveFile (v : Vtf) (minor sheetVer : Nat) (asw : Bool) : Except Err (List Nat) :=
  if minor > 5 then .error .version
  else if minor < 2 ∧ v.depth > 1 then .error .depthVersion
  else if minor ≥ 3 ∧ hasSheetRes v ∧ sheetVer > 1 then .error .sheetVersion
  else
    match applyCompute v 4 with      -- `self.compute_mipmaps()` with the default (bilinear) filter
    | .error e => .error e
    | .ok v' => assemble v' minor sheetVer asw

/-! ## Histories on one live object -/

/-- what the program does to a `VTF` between (and including) saves. -/
inductive HOp where
  | clearMips (after : Nat)                    -- `vtf.clear_mipmaps(after=k)`
  | compute (filt : Nat)                       -- `vtf.compute_mipmaps(FilterMode(filt))`
  | loadAll                                    -- `vtf.load()`
  | save (minor sheetVer : Nat) (asw : Bool)   -- `vtf.save(f, version=(7, minor), …)`
  | frameClear (k : Key)                       -- `frame.clear()`
  | setData (k : Key) (px : List Nat)          -- `frame.copy_from(bytes)`
  | setPixel (k : Key) (x y : Int) (px : List Nat)   -- `frame[x, y] = px`
  | fill (k : Key) (px : List Nat)             -- `frame.fill(r, g, b, a)`
  | setFmt (fmt : Nat)                         -- `vtf.format = …`
  | setLowFmt (fmt : Nat)                      -- `vtf.low_format = …`
  | copyFrame (dst src : Key)                  -- `dst.copy_from(src)`, both frames of this VTF (`dst = src` allowed)
  | touch (k : Key)                            -- a `copy_from(buffer)` that raises (wrong size / not a buffer)
  | rescale (dst src : Key) (filt : Nat)       -- `dst.rescale_from(src, FilterMode(filt))` (`dst = src` allowed)
deriving Repr

def updFrame (v : Vtf) (k : Key) (g : FrameM → FrameM) : Vtf :=
  { v with frames := v.frames.map fun (k', fr) => if k' == k then (k', g fr) else (k', fr) }

/-- `frame[x, y] = px`: the frame is loaded first; an index out of range changes nothing else. -/
def setPixelF (x y : Int) (px : List Nat) (fr : FrameM) : FrameM :=
  let l := fr.load
  match frameIndex l.w l.h x y with
  | some off => { l with data := some ((l.data.getD []).take off ++ px ++ (l.data.getD []).drop (off + 4)) }
  | none => l

/-- `dst.copy_from(src)` for two frames of the object (possibly the same one): sizes must agree
(`ValueError`, nothing changes); the source is loaded; the destination gets a copy of its content
and is no longer lazy. With `dst = src` this is just `load()`. -/
def copyFrameOp (v : Vtf) (dst src : Key) : Vtf :=
  match lookupFrame v.frames dst, lookupFrame v.frames src with
  | some d, some s =>
    if d.w ≠ s.w ∨ d.h ≠ s.h then v
    else if dst == src then updFrame v src FrameM.load     -- its own array is assigned onto itself
    else
      let v1 := updFrame v src FrameM.load
      updFrame v1 dst fun fr => { fr with data := s.load.data, fileData := none }
  | _, _ => v

/-- `dst.rescale_from(src, filter)`: size check (`ValueError`, nothing changes); a destination
without data becomes blank; if the source holds data (it is *not* loaded) the destination is
`scale_down` of it. Neither frame stops being lazy. -/
def rescaleOp (v : Vtf) (dst src : Key) (filt : Nat) : Vtf :=
  match lookupFrame v.frames dst, lookupFrame v.frames src with
  | some d, some s =>
    if !rescaleOK d.w d.h s.w s.h then v
    else
      let d1 : FrameM := { d with data := some (d.data.getD (blank d.w d.h)) }
      let sdata := if dst == src then d1.data else s.data
      match sdata with
      | none => updFrame v dst fun _ => d1
      | some sd =>
        match scaleDown filt s.w s.h d.w d.h sd with
        | some out => updFrame v dst fun _ => { d1 with data := some out }
        | none => updFrame v dst fun _ => d1
  | _, _ => v

/-- the object after a successful `save`: `compute_mipmaps()` has run, the thumbnail and every
frame that was written have been loaded. -/
def afterSave (v' : Vtf) (minor : Nat) : Vtf :=
  { v' with low := v'.low.load,
            frames := v'.frames.map fun (k, fr) =>
              if (fileKeys v'.mipCount v'.frameCount (depthSeq v'.flags minor v'.depth)).contains k
              then (k, fr.load) else (k, fr) }

/-- one step: the new state, and the bytes written if the step is a save. The state is all there is:
no step depends on anything but the current contents of the object. -/
def stepOp (v : Vtf) : HOp → Except Err (Vtf × Option (List Nat))
  | .clearMips k => .ok (applyClear v k, none)
  | .compute f =>
    match applyCompute v f with
    | .ok v' => .ok (v', none)
    | .error e => .error e
  | .loadAll => .ok ({ v with frames := v.frames.map fun (k, fr) => (k, fr.load), low := v.low.load }, none)
  | .save minor sv asw =>
    if minor > 5 then .error .version
    else if minor < 2 ∧ v.depth > 1 then .error .depthVersion
    else if minor ≥ 3 ∧ hasSheetRes v ∧ sv > 1 then .error .sheetVersion
    else match applyCompute v 4 with
      | .error e => .error e
      | .ok v' =>
        match assemble v' minor sv asw with
        | .error e => .error e
        | .ok bytes => .ok (afterSave v' minor, some bytes)
  | .frameClear k => .ok (updFrame v k FrameM.clear, none)
  | .setData k px => .ok (updFrame v k (fun fr => { fr with data := some px, fileData := none }), none)
  | .setPixel k x y px => .ok (updFrame v k (setPixelF x y px), none)
  | .fill k px =>
    .ok (updFrame v k (fun fr => { fr with data := some ((List.replicate (fr.w * fr.h) px).flatten), fileData := none }), none)
  | .setFmt f => .ok ({ v with fmt := f }, none)
  | .setLowFmt f => .ok ({ v with lowFmt := f }, none)
  | .copyFrame dst src => .ok (copyFrameOp v dst src, none)
  | .touch k => .ok (updFrame v k (fun fr => { fr with data := some (fr.data.getD (blank fr.w fr.h)) }), none)
  | .rescale dst src filt => .ok (rescaleOp v dst src filt, none)

/-- run a history; the result of every save in order, stopping at the first error. -/
def runHistory (v : Vtf) : List HOp → List (Except Err (List Nat))
  | [] => []
  | op :: ops =>
    match stepOp v op with
    | .error e => [.error e]
    | .ok (v', none) => runHistory v' ops
    | .ok (v', some bytes) => .ok bytes :: runHistory v' ops

/-! ## Reading -/

structure View where
  verMinor : Nat
  headerSize : Nat
  width : Nat
  height : Nat
  flags : Nat
  frameCount : Nat
  firstFrame : Nat
  refl : List Nat
  bump : List Nat
  fmt : Nat
  mipCount : Nat
  lowFmt : Nat
  lowW : Nat
  lowH : Nat
  depth : Nat
  res : List Res
  sheet : List SheetSeq
  lowOff : Option Nat
  frames : List (Key × Nat × Nat × Nat)
  /-- RGBA16161616(F): only metadata is read, frames have no file position. -/
  headerOnly : Bool
deriving DecidableEq, Repr

/-- split a byte string into consecutive fields of the given widths (`struct.unpack`): `none` when
it is too short. Returns the fields and the rest. -/
def splitW : List Nat → List Nat → Option (List (List Nat) × List Nat)
  | [], l => some ([], l)
  | w :: ws, l =>
    if l.length < w then none
    else match splitW ws (l.drop w) with
      | some (fs, r) => some (l.take w :: fs, r)
      | none => none

/-- a 4-byte little-endian number at `off` (`struct.error` when the file is too short). -/
def u32At (l : List Nat) (off : Nat) : Except Err Nat :=
  if off + 4 ≤ l.length then pure (leDecode (slice l off 4)) else throw .struct

/-- `frame_count` frames of a sheet sequence. -/
def parseFrames (ver : Nat) : Nat → List Nat → Except Err (List SheetFrame × List Nat)
  | 0, l => pure ([], l)
  | n + 1, l =>
    let cw := if ver = 0 then 16 else 64
    if l.length < 4 + cw then throw .struct
    else
      let dur := l.take 4
      let c := (l.drop 4).take cw
      let fr : SheetFrame := if ver = 0 then ⟨dur, c ++ c ++ c ++ c⟩ else ⟨dur, c⟩
      match parseFrames ver n (l.drop (4 + cw)) with
      | .ok (fs, r) => pure (fr :: fs, r)
      | .error e => throw e

/-- `sequence_count` sequences; `seen` are the sequence numbers read so far. -/
def parseSeqs (ver : Nat) : Nat → List Nat → List Nat → Except Err (List SheetSeq)
  | 0, _, _ => pure []
  | n + 1, seen, l =>
    match splitW [4, 3, 1, 4, 4] l with
    | none => throw .struct
    | some (fs, r) =>
      match fs with
      | [num, _, clamp, fc, total] =>
        if leDecode num ≥ 64 then throw .sheetBad
        else if seen.contains (leDecode num) then throw .sheetBad
        else match parseFrames ver (leDecode fc) r with
          | .error e => throw e
          | .ok (frames, r') =>
            match parseSeqs ver n (leDecode num :: seen) r' with
            | .error e => throw e
            | .ok ss => pure (⟨leDecode num, leDecode clamp != 0, total, frames⟩ :: ss)
      | _ => throw .struct

/-- `SheetSequence.from_resource(data)`. -/
def parseSheet (d : List Nat) : Except Err (List SheetSeq) :=
  match splitW [4, 4] d with
  | none => throw .struct
  | some (fs, r) =>
    match fs with
    | [ver, count] =>
      if leDecode ver > 1 then throw .sheetBad
      else if leDecode count > 64 then throw .sheetBad
      else parseSeqs (leDecode ver) (leDecode count) [] r
    | _ => throw .struct

/-- `num` entries of the resource table: (id, flags, data). -/
def readEntries : Nat → List Nat → Except Err (List (List Nat × Nat × Nat))
  | 0, _ => pure []
  | n + 1, l =>
    match splitW [3, 1, 4] l with
    | none => throw .struct
    | some (fs, r) =>
      match fs with
      | [id, fl, dat] =>
        match readEntries n r with
        | .error e => throw e
        | .ok es => pure ((id, leDecode fl, leDecode dat) :: es)
      | _ => throw .struct

/-- the loop over the entries: thumbnail and image offsets are taken out, everything else is kept
(a repeated id is an error). State: resources so far (in order), low offset, high offset. -/
def procEntries : List (List Nat × Nat × Nat) → List Res → Option Nat → Option Nat →
    Except Err (List Res × Option Nat × Option Nat)
  | [], res, lo, hi => pure (res, lo, hi)
  | (id, fl, dat) :: es, res, lo, hi =>
    if res.any (·.id == id) then throw .dupRes
    else if id == idLow then procEntries es res (some dat) hi
    else if id == idHigh then procEntries es res lo (some dat)
    else procEntries es (res ++ [⟨id, fl, false, dat, []⟩]) lo hi

/-- fetch the data block of a resource that is not inline: 4-byte size at the stored offset, then
`file.read(size)`. -/
def resolveRes (file : List Nat) (r : Res) : Except Err Res :=
  if r.flags &&& 2 = 0 then
    match u32At file r.ival with
    | .error e => throw e
    | .ok size => pure { r with isBytes := true, ival := 0, data := slice file (r.ival + 4) size }
  else pure r

def resolveAll (file : List Nat) : List Res → Except Err (List Res)
  | [] => pure []
  | r :: rs =>
    match resolveRes file r with
    | .error e => throw e
    | .ok r' => match resolveAll file rs with
      | .error e => throw e
      | .ok rs' => pure (r' :: rs')

/-- the resource part of `VTF.read` (7.3+): `rest` are the bytes after the depth field. -/
def readResources (file rest : List Nat) :
    Except Err (List Res × List SheetSeq × Option Nat × Option Nat) :=
  match splitW [3, 4, 8] rest with
  | none => throw .struct
  | some (fs, r) =>
    match fs with
    | [_, num, _] =>
      match readEntries (leDecode num) r with
      | .error e => throw e
      | .ok es =>
        match procEntries es [] none none with
        | .error e => throw e
        | .ok (res, lo, hi) =>
          match resolveAll file res with
          | .error e => throw e
          | .ok res' =>
            match res'.find? (·.id == idSheet) with
            | some s =>
              if !s.isBytes then throw .sheetBad
              else match parseSheet s.data with
                | .error e => throw e
                | .ok sheet => pure (res'.filter (·.id != idSheet), sheet, lo, hi)
            | none => pure (res', [], lo, hi)
    | _ => throw .struct

/-- widths of the header fields after signature and version. -/
def hdrWidths (minor : Nat) : List Nat :=
  [4, 2, 2, 4, 2, 2, 4, 12, 4, 4, 4, 1, 4, 1, 1] ++ (if minor ≥ 2 then [2] else [])

/-- `VTF.read` after the fixed header has been split into its fields `f1` (`r1`: the bytes after
them; `l`: the whole file, for absolute offsets). -/
def readBody (l : List Nat) (minor : Nat) (f1 : List (List Nat)) (r1 : List Nat) : Except Err View :=
  match f1 with
  | hs :: w :: h :: fl :: fc :: ff :: _ :: refl :: _ :: bump :: hf :: mc :: lf :: lw :: lh :: dep =>
    match formatOrder (leDecode hf), formatOrder (leDecode lf) with
    | some fmt, some lowFmt =>
      if fmt = fmtNone then throw .noFormat
      else
        let depth0 := match dep with
          | [d] => leDecode d
          | _ => 1
        let depth := if depth0 = 0 then 1 else depth0
        let headerSize := leDecode hs
        let width := leDecode w
        let height := leDecode h
        let flags := leDecode fl
        let lowW := leDecode lw
        let lowH := leDecode lh
        let rr : Except Err (List Res × List SheetSeq × Option Nat × Option Nat) :=
          if minor ≥ 3 then readResources l r1
          else pure ([], [], some headerSize,
                     some (headerSize + frameSize (fmtOf lowFmt) lowW lowH))
        match rr with
        | .error e => throw e
        | .ok (res, sheet, lo, hi) =>
          match hi with
          | none => throw .noHigh
          | some high =>
            let headerOnly : Bool := fmt = 24 ∨ fmt = 25
            if lowFmt ≠ fmtNone ∧ !headerOnly ∧ lo.isNone then throw .noLow
            else
              let mipCount := leDecode mc
              let frameCount := leDecode fc
              pure { verMinor := minor, headerSize, width, height, flags, frameCount,
                     firstFrame := leDecode ff, refl, bump, fmt, mipCount, lowFmt, lowW, lowH,
                     depth, res, sheet,
                     lowOff := if lowFmt ≠ fmtNone then lo else none,
                     frames := layoutFrom (frameSize (fmtOf fmt)) (readerDims width height)
                       (fileKeys mipCount frameCount (depthSeq flags minor depth)) high,
                     headerOnly }
    | _, _ => throw .key
  | _ => throw .struct

/-- `VTF.read(file)` (not `header_only`), up to the frame table. -/
def readFile (l : List Nat) : Except Err View :=
  match splitW [4, 4, 4] l with
  | none => throw .signature
  | some (f0, r0) =>
    match f0 with
    | [sig, major, minorB] =>
      if sig ≠ [86, 84, 70, 0] then throw .signature
      else if leDecode major ≠ 7 ∨ leDecode minorB > 5 then throw .version
      else match splitW (hdrWidths (leDecode minorB)) r0 with
        | none => throw .struct
        | some (f1, r1) => readBody l (leDecode minorB) f1 r1
    | _ => throw .signature

/-- `Frame.load()` of a lazily read frame: decode `frame_size` bytes at `off`. -/
def decodeAt (file : List Nat) (fmt w h off : Nat) : Except Err (List Nat) :=
  let n := frameSize (fmtOf fmt) w h
  let d := slice file off n
  if d.length ≠ n then throw .buffer
  else if !(codecOf fmt).hasLoad then throw .notImpl
  else if (codecOf fmt).load.isEmpty then throw .notImpl   -- block formats are not modelled
  else pure (loadImg (codecOf fmt) d)

/-! ## Table-like constants the layout above relies on (compared with `Gen.Vtf` in `Props/C15`) -/

/-- `_HEADER = struct.Struct('<IHHIHH4xfff4xfiBiBB')`: 51 bytes at offset 12. -/
def headerFmt : List Char := ['<', 'I', 'H', 'H', 'I', 'H', 'H', '4', 'x', 'f', 'f', 'f', '4', 'x', 'f', 'i', 'B', 'i', 'B', 'B']
/-- the literal struct formats used by `VTF.save` (sorted, without duplicates). -/
def saveFmts : List (List Char) := [['<', '3', 's', 'B'], ['<', '3', 's', 'B', 'I'], ['<', '3', 'x', 'I', '8', 'x'], ['<', 'H'], ['<', 'I'], ['<', 'I', 'I']]
/-- the literal struct formats used by `VTF.read`. -/
def readFmts : List (List Char) := [['<', '3', 's', 'B', 'I'], ['<', '3', 'x', 'I', '8', 'x'], ['H'], ['I'], ['I', 'I']]
/-- the literal struct formats used by `SheetSequence` and `TexCoord`. -/
def sheetFmts : List (List Char) := [['<', '4', 'f'], ['<', 'I', 'I'], ['<', 'I', 'x', 'x', 'x', '?', 'I', 'f'], ['<', 'f']]
/-- `CubeSide` values; `CUBES` is this list without its last element (SPHERE), used from 7.5 on. -/
def cubeSides : List Nat := [0, 1, 2, 3, 4, 5, 6]
def sphereCutoff : Nat := 5
/-- `FilterMode` values of UPPER_LEFT, UPPER_RIGHT, LOWER_LEFT, LOWER_RIGHT, BILINEAR. -/
def filters : List Nat := [0, 1, 2, 3, 4]

end C15
