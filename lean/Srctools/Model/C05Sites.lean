/-! Vocabulary of the two translator outputs used by C05 (`Gen/Angles.lean`, `Gen/Frozen.lean`).
Core only. The *facts* are generated from `/repo/src/srctools/math.py`; what they are required to
satisfy is stated (and decided) in `Props/C05.lean`. -/

namespace C05

/-- How the right-hand side of an assignment to `_pitch/_yaw/_roll` is built. -/
inductive RhsCls
  | norm2      -- `e % 360 % 360`   (360 or 360.0)
  | copyField  -- `<obj>._pitch` / `._yaw` / `._roll` read from an angle object
  | zero       -- the literal 0 / 0.0
  | mod1       -- `e % 360` once
  | other      -- anything else (incl. augmented assignment, setattr, unpacking of a non-literal tuple)
  deriving DecidableEq, Repr, Inhabited

structure AngleSite where
  fn : String      -- `Class.method` (or `function`)
  line : Nat
  slot : Nat       -- 0 pitch, 1 yaw, 2 roll
  cls : RhsCls
  deriving DecidableEq, Repr, Inhabited

/-- Role of a class of math.py. -/
inductive Role | base | frozen | mutable
  deriving DecidableEq, Repr, Inhabited

structure ClassInfo where
  name : String
  bases : List String
  role : Role
  slots : Option (List String)   -- the literal `__slots__` (`none`: the class has a `__dict__`)
  setters : List String          -- property setters defined in the class body
  methods : List String          -- names bound to functions in the class body (incl. `a = b` aliases, exec'd templates)
  deriving DecidableEq, Repr, Inhabited

/-- Syntactic origin of the object that is stored into / passed to an in-place helper. -/
inductive Origin
  | alloc                          -- `X.__new__(X)`, `object.__new__(cls)`, `super().__new__(cls)`
  | ctor (cls : String) (dynamic : Bool) (floats : Bool)
        -- call of a class object: `Py_Vec(..)` (named class), or `cls(..)` / `type(self)(..)` inside class `cls`
        -- (`dynamic`: the class or any subclass). `floats` = no argument, or every argument is a slot read /
        -- numeric literal / arithmetic on those (so no existing object can be passed through and returned)
  | selfRecv                       -- the enclosing method's own `self`
  | param (name : String)          -- another parameter of the enclosing function
  | copyOf (of_ : String)          -- result of `<name>.copy()`; `of_` = "self", or the parameter name
  | call (fn : String)             -- result of calling the named function / classmethod
  | other (what : String)
  deriving DecidableEq, Repr, Inhabited

/-- One store into a private slot (`_x … _cc`, `_pitch …`), or a `setattr` on such an object. -/
structure Store where
  cls : String        -- enclosing class ("" for module-level functions)
  fn : String
  line : Nat
  slot : String
  origin : Origin
  deriving DecidableEq, Repr, Inhabited

/-- A call of an in-place helper (a function that stores into its `self` of a base class, or into a parameter):
which object is passed in the position that gets written. -/
structure HelperCall where
  cls : String        -- class of the *caller*
  fn : String         -- caller
  line : Nat
  callee : String     -- helper name (method name)
  pos : String        -- "self" (the receiver) or the parameter name written by the helper
  origin : Origin
  deriving DecidableEq, Repr, Inhabited

/-- One `return <expr>` of a function of math.py: where the returned object comes from. -/
structure Return where
  cls : String
  fn : String
  line : Nat
  origin : Origin
  deriving DecidableEq, Repr, Inhabited

end C05

/-! ## What the extracted facts must satisfy (decidable; discharged in `Props/C05.lean`) -/
namespace C05

def angleSiteOK (s : AngleSite) : Bool :=
  match s.cls with
  | .norm2 | .copyField | .zero => true
  | .mod1 | .other => false

/-- no `mod1` / `other` write to an angle slot. -/
def anglesOK (sites : List AngleSite) : Bool := !sites.isEmpty && sites.all angleSiteOK

def badAngleSites (sites : List AngleSite) : List AngleSite := sites.filter (!angleSiteOK ·)

/-- the angle classes carry exactly the three slots, declared in the base class only. -/
def angleSlotsOK (slots : List (String × Option (List String))) : Bool :=
  slots == [("AngleBase", some ["_pitch", "_yaw", "_roll"]), ("FrozenAngle", some []), ("Angle", some [])]

/-- All facts of `Gen.Frozen`. -/
structure FrozenFacts where
  classes : List ClassInfo
  stores : List Store
  helperCalls : List HelperCall
  returns : List Return

namespace FrozenFacts
variable (G : FrozenFacts)

def classOf (c : String) : Option ClassInfo := G.classes.find? (·.name == c)

def roleOf (c : String) : Option Role := (G.classOf c).map (·.role)

/-- the class itself and its direct subclasses (the hierarchy is one level deep: checked by `hierarchyOK`). -/
def dynClasses (c : String) : List ClassInfo :=
  G.classes.filter fun d => d.name == c || d.bases.contains c

def concrete (cs : List ClassInfo) : List ClassInfo := cs.filter (·.role != .base)

/-- a constructor call of class `d` always makes a new object: mutable class without `__new__`. -/
def ctorAlwaysNew (d : ClassInfo) : Bool := d.role == .mutable && !d.methods.contains "__new__"

/-- the returns of method `fn` as seen from class `d` (own definition, else the base class's). -/
def returnsOf (d : ClassInfo) (fn : String) : List Return :=
  if d.methods.contains fn then G.returns.filter fun r => r.cls == d.name && r.fn == fn
  else G.returns.filter fun r => d.bases.contains r.cls && r.fn == fn

/-- Is the object denoted by origin `o` (occurring inside class `ctx`) certainly one that was created by the
current top-level operation, or an instance of a mutable class that the operation is entitled to change? -/
def fresh : Nat → String → Origin → Bool
  | _, _, .alloc => true
  | _, _, .ctor c dyn floats =>
      floats || (let ds := if dyn then concrete (G.dynClasses c) else (G.classOf c).toList
                 !ds.isEmpty && ds.all ctorAlwaysNew)
  | _, ctx, .selfRecv => G.roleOf ctx == some .mutable
  | _, _, .param _ => false
  | 0, _, .copyOf _ => false
  | fuel+1, ctx, .copyOf who =>
      -- the receiver of `.copy()` may be any concrete class below `ctx` (for `self`), or any concrete class at all
      let ds := concrete (if who == "self" then G.dynClasses ctx else G.classes)
      !ds.isEmpty && ds.all fun d =>
        let rs := G.returnsOf d "copy"
        !rs.isEmpty && rs.all fun r => fresh fuel d.name r.origin
  | 0, _, .call _ => false
  | fuel+1, _, .call f =>
      let rs := G.returns.filter (·.fn == f)
      !rs.isEmpty && rs.all fun r => fresh fuel r.cls r.origin
  | _, _, .other _ => false

def fuel : Nat := 4

/-- a store is harmless for frozen objects. -/
def storeOK (s : Store) : Bool :=
  match s.origin with
  | .selfRecv =>
      match G.roleOf s.cls with
      | some .mutable => true
      | some .base =>
          -- in-place helper of a base class: every call site must pass a fresh / mutable receiver
          let cs := G.helperCalls.filter fun h => h.callee == s.fn && h.pos == "self"
          !cs.isEmpty && cs.all fun h => G.fresh fuel h.cls h.origin
      | _ => false
  | .param p =>
      let cs := G.helperCalls.filter fun h => h.callee == s.fn && h.pos == p
      !cs.isEmpty && cs.all fun h => G.fresh fuel h.cls h.origin
  | o => G.fresh fuel s.cls o

def badStores : List Store := G.stores.filter (!G.storeOK ·)

/-- class hierarchy as expected: three bases without bases, each other class derives from exactly one base. -/
def hierarchyOK : Bool :=
  G.classes.length == 9 &&
  G.classes.all fun c =>
    match c.role with
    | .base => c.bases.isEmpty
    | _ => match c.bases with
      | [b] => G.roleOf b == some .base
      | _ => false

/-- frozen and base classes expose no property setter; the three value-carrying slot sets live in the bases;
`FrozenVec`/`FrozenAngle` add no slot. (`FrozenMatrix`/`Matrix` have a `__dict__` in the source as it is —
recorded, not required.) -/
def classesOK : Bool :=
  G.classes.all fun c =>
    match c.role with
    | .mutable => true
    | _ => c.setters.isEmpty && !c.methods.contains "__setitem__" && !c.methods.contains "__setattr__"
           && !c.methods.contains "__delattr__"

/-- the object denoted by origin `o` was certainly created by the running call (never `self`, never a parameter) -/
def newObj : Nat → String → Origin → Bool
  | _, _, .selfRecv => false
  | _, _, .param _ => false
  | 0, _, .call _ => false
  | fuel+1, _, .call f =>
      let rs := G.returns.filter (·.fn == f)
      !rs.isEmpty && rs.all fun r => newObj fuel r.cls r.origin
  | fuel, ctx, o => G.fresh fuel ctx o

/-- `copy` and `__copy__` of every mutable class return a new object (never `self`). -/
def copiesOK : Bool :=
  (G.classes.filter (·.role == .mutable)).all fun d =>
    ["copy", "__copy__"].all fun m =>
      let rs := G.returnsOf d m
      !rs.isEmpty && rs.all fun r => G.newObj fuel d.name r.origin

def frozenOK : Bool :=
  G.hierarchyOK && G.classesOK && !G.stores.isEmpty && G.stores.all G.storeOK

end FrozenFacts
end C05
